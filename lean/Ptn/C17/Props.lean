import Ptn.C17.Model
import Ptn.C17.Examples
import Ptn.C17.Lemmas
import Ptn.C17.Tree
import Ptn.C17.Path
import Ptn.C17.Unique
import Ptn.C17.Linear
import Ptn.C17.Reroot
import Ptn.C17.Subtree
import Ptn.C17.UpdatePath
import Ptn.C17.Cache
import Ptn.C17.Contig
import Ptn.C17.Cut
import Ptn.C17.Last
import Ptn.C17.Segments
import Ptn.C17.DistTree
import Ptn.C17.HopFacts
import Ptn.C17.Last3
import Ptn.C17.FlatDist
import Ptn.C17.FlatUpdate
import Ptn.C17.FlatValid
import Ptn.C17.FlatSegs
import Ptn.C17.FlatDistAny
import Ptn.C17.FlatCache
import Ptn.C17.FlatNN
/-! Property theorems for C17 (tree navigation, TDVP sweep order, initial cache keys).  Only
property theorems and non-vacuity examples live here; helper lemmas are in `Lemmas.lean`,
`Tree.lean`, `Path.lean`, ….  All theorems quantify over every ordered rooted tree `t` with
distinct identifiers (`t.WF`), without any bound on its size. -/
namespace Ptn.C17
open RTree

/-- the tree of the examples (`Examples.lean`): root 0 with the branches 1-(3,4), 2, 5-6-7 -/
example : exTree.WF := by decide

/-! ### Paths -/

/-- `path_from_to(a, b)` completes and returns a simple path from `a` to `b`: it starts at `a`,
    ends at `b`, consecutive nodes are neighbours, no node repeats. -/
theorem path_from_to_correct (t : RTree) (hwf : t.WF) (a b : Nat) (ha : a ∈ ids t)
    (hb : b ∈ ids t) : ∃ p, pathFromTo t a b = some p ∧ IsSimplePath t p a b :=
  pathFromTo_isSimplePath hwf ha hb

example : pathFromTo exTree 4 7 = some [4, 1, 0, 5, 6, 7] := by decide
example : pathFromTo exTree 7 5 = some [7, 6, 5] := by decide
example : IsSimplePath exTree [4, 1, 0, 5, 6, 7] 4 7 := by decide

/-- Every simple path from `a` to `b` is the list `path_from_to(a, b)` returns: "the result of
    elementary graph search" is a well-defined notion and the routine computes it. -/
theorem simple_path_is_path_from_to (t : RTree) (hwf : t.WF) (a b : Nat) (p : List Nat)
    (h : IsSimplePath t p a b) : pathFromTo t a b = some p :=
  simple_path_eq_pathFromTo hwf h

/-- Two simple paths between the same end points are equal. -/
theorem simple_path_unique (t : RTree) (hwf : t.WF) (a b : Nat) (p q : List Nat)
    (hp : IsSimplePath t p a b) (hq : IsSimplePath t q a b) : p = q := by
  have h1 := simple_path_is_path_from_to t hwf a b p hp
  have h2 := simple_path_is_path_from_to t hwf a b q hq
  rw [h1] at h2
  exact Option.some.inj h2

example : IsSimplePath exTree [3, 1, 0, 2] 3 2 := by decide

/-! ### Linearisation -/

/-- `linearise` is a rearrangement of the node identifiers (every node exactly once), every child
    comes before its parent, and the root comes last. -/
theorem linearise_postorder (t : RTree) (hwf : t.WF) :
    (postorder t).Perm (ids t) ∧ (postorder t).Nodup ∧
    (∀ p x, (p, x) ∈ edges t → Before x p (postorder t)) ∧
    (postorder t).getLast? = some t.rid :=
  ⟨postorder_perm.1 t, (postorder_perm.1 t).symm.nodup hwf, postorder_child_before.1 t,
   postorder_last t⟩

example : postorder exTree = [3, 4, 1, 2, 7, 6, 5, 0] := by decide

/-! ### Distances -/

/-- `distance_to_node(c)` completes; the keys of the table are exactly the node identifiers, each
    once, and the value stored for `v` is the number of edges of the path from `c` to `v`. -/
theorem distance_correct (t : RTree) (hwf : t.WF) (c : Nat) (hc : c ∈ ids t) :
    ∃ tbl, distanceToNode t c = some tbl ∧ (tbl.map (·.1)).Perm (ids t) ∧
      ∀ v d, (v, d) ∈ tbl → ∃ p, pathFromTo t c v = some p ∧ d + 1 = p.length := by
  obtain ⟨r, hr⟩ := (reroot_isSome c).1 t [] hc
  obtain ⟨hrid, hperm, hadj⟩ := (reroot_spec c).1 t [] r hr
  simp only [idsL_nil, List.nil_append, edgesL_nil] at hperm hadj
  have hwfr : r.WF := hperm.symm.nodup hwf
  refine ⟨depths 0 r, by simp [distanceToNode, hr], ?_, ?_⟩
  · rw [depths_keys.1 r 0]; exact hperm
  · intro v d hvd
    obtain ⟨p, hp, hd⟩ := depths_value.1 r 0 v d hwfr hvd
    refine ⟨p, ?_, by omega⟩
    apply simple_path_is_path_from_to t hwf
    obtain ⟨h1, h2, h3, h4, h5⟩ := pathDown_isSimplePath hwfr hp
    refine ⟨hrid ▸ h1, h2, fun x hx => hperm.subset (h3 x hx), ?_, h5⟩
    exact chain_mono (fun a b hab => (hadj a b).mp hab) h4

example : 6 ∈ ids exTree := by decide
example : distanceToNode exTree 6 =
    some [(6, 0), (5, 1), (0, 2), (1, 3), (3, 4), (4, 4), (2, 3), (7, 1)] := by decide

/-! ### Subtree and leaf queries -/

/-- `find_subtree_of_node(x)` completes; it lists `x` first and then, without repetition, exactly
    the nodes below `x` (those whose way to the root passes through `x`). -/
theorem subtree_correct (t : RTree) (hwf : t.WF) (x : Nat) (hx : x ∈ ids t) :
    ∃ l, subtreeIds t x = some l ∧ l.head? = some x ∧ l.Nodup ∧ ∀ y, y ∈ l ↔ IsBelow t x y := by
  obtain ⟨s, hs⟩ := (subtreeAt_isSome x).1 t hx
  refine ⟨ids s, by simp [subtreeIds, hs], ?_, subtree_nodup hwf hs, ?_⟩
  · rw [ids_eq_rid_cons, ((subtreeAt_basic x).1 t s hs).1]; simp
  · intro y; exact (subtreeAt_below x y).1 t s hwf hs

/-- `leaves_under_node(x)` lists exactly the childless nodes among the nodes of
    `find_subtree_of_node(x)`, in the same order. -/
theorem leaves_under_correct (t : RTree) (hwf : t.WF) (x : Nat) (hx : x ∈ ids t) :
    ∃ l, subtreeIds t x = some l ∧ leavesUnder t x = some (l.filter (isLeaf t)) := by
  obtain ⟨s, hs⟩ := (subtreeAt_isSome x).1 t hx
  refine ⟨ids s, by simp [subtreeIds, hs], ?_⟩
  simp only [leavesUnder, hs, Option.map_some, Option.some.injEq]
  rw [leavesOf_eq_filter.1 s (subtree_nodup hwf hs)]
  exact List.filter_congr (fun y hy => isLeaf_subtree hwf hs hy)

/-- `find_subtree_size_of_node(x)` is the number of nodes of `find_subtree_of_node(x)`. -/
theorem subtree_size_correct (t : RTree) (x : Nat) :
    subtreeSize t x = (subtreeIds t x).map List.length := by
  simp only [subtreeSize, subtreeIds, Option.map_map]
  congr 1
  funext s
  exact size_eq.1 s

example : 5 ∈ ids exTree ∧ 1 ∈ ids exTree := by decide
example : subtreeIds exTree 5 = some [5, 6, 7] := by decide
example : leavesUnder exTree 1 = some [3, 4] := by decide
example : IsBelow exTree 5 7 := ⟨[0, 5, 6, 7], by decide, by decide⟩

/-! ### The TDVP update path -/

/-- `TDVPUpdatePathFinder(t).find_path()` completes (no index error, no failed assertion, `max` of
    an empty dict never taken) and visits every node exactly once. -/
theorem update_path_perm (t : RTree) (hwf : t.WF) :
    ∃ p, updatePath t = some p ∧ p.Perm (ids t) ∧ p.Nodup := by
  cases t with
  | node r ks =>
    obtain ⟨p, s, hp, _, hperm, _, _⟩ := updatePath_spec r ks hwf
    have hperm' : p.Perm (ids (node r ks)) := by simpa using hperm
    exact ⟨p, hp, hperm', hperm'.symm.nodup hwf⟩

/-- The update path starts at `find_start_node_id()`, which is a leaf of maximal depth: a node
    without children whose way to the root is at least as long as that of any other node. -/
theorem update_path_start (t : RTree) (hwf : t.WF) :
    ∃ p s, updatePath t = some p ∧ findStart t = some s ∧ p.head? = some s ∧ s ∈ ids t ∧
      isLeaf t s = true ∧
      ∀ y py, rootPath t y = some py → ∃ ps, rootPath t s = some ps ∧ py.length ≤ ps.length := by
  cases t with
  | node r ks =>
    obtain ⟨p, s, hp, hs, _, hhead, _⟩ := updatePath_spec r ks hwf
    obtain ⟨s', _, hs', _, _, hmem, hleaf⟩ := findStart_spec (node r ks) hwf
    rw [hs] at hs'; simp at hs'; subst hs'
    exact ⟨p, s, hp, hs, hhead, hmem, hleaf, findStart_deepest _ hwf hs⟩

/-- The update path ends at a node with at most one neighbour (the root if it has a single child,
    a leaf otherwise). -/
theorem update_path_end (t : RTree) (hwf : t.WF) :
    ∃ p l, updatePath t = some p ∧ p.getLast? = some l ∧ degree t l ≤ 1 := by
  cases t with
  | node r ks =>
    obtain ⟨p, s, hp, _, _, _, hend, _⟩ := updatePath_spec r ks hwf
    rcases hend with ⟨hlen, hlast⟩ | ⟨f, hlast, hleaf⟩
    · exact ⟨p, r, hp, hlast, degree_root_le_one hwf hlen⟩
    · exact ⟨p, f, hp, hlast, degree_leaf hwf hleaf⟩

example : updatePath exTree = some [7, 6, 5, 2, 0, 4, 1, 3] := by decide
example : degree exTree 1 = 3 ∧ degree exTree 7 = 1 ∧ isLeaf exTree 7 = true := by decide
/-- root with a single child: the path ends at the root -/
example : updatePath (.node 0 [.node 1 [.node 2 [], .node 3 []]]) = some [2, 3, 1, 0] := by decide

/-- On a tree with more than one node the last two nodes of the update path are neighbours (the
    second-order sweeps go back over the path and take this for granted). -/
theorem last_two_adjacent (t : RTree) (hwf : t.WF) (hkids : t.kids ≠ []) :
    ∃ p l y z, updatePath t = some p ∧ p = l ++ [y, z] ∧ Adj t y z := by
  cases t with
  | node r ks => exact updatePath_last_two r ks hwf hkids

example : exTree.kids ≠ [] := by decide

/-- The nodes below any node other than the root are visited consecutively by the update path. -/
theorem update_path_subtree_blocks (t : RTree) (hwf : t.WF) (x : Nat) (hx : x ∈ ids t)
    (hxr : x ≠ t.rid) :
    ∃ p l A B C, updatePath t = some p ∧ subtreeIds t x = some l ∧ p = A ++ B ++ C ∧
      (∀ y ∈ B, y ∈ l) ∧ (∀ y ∈ A, y ∉ l) ∧ (∀ y ∈ C, y ∉ l) := by
  cases t with
  | node r ks =>
    obtain ⟨p, s, hp, _, _, _, _, hshape⟩ := updatePath_spec r ks hwf
    obtain ⟨sx, hsx⟩ := (subtreeAt_isSome x).1 _ hx
    have hsub : sx ∈ subtreesL ks := by
      have hsx' := hsx
      rw [subtreeAt_node] at hsx'
      have : ¬ r = x := fun e => hxr (by simp [rid, e])
      simp [this] at hsx'
      exact (subtreeAt_mem_subtrees x).2 ks sx hsx'
    obtain ⟨A, B, C, e, h1, h2, h3⟩ := updatePath_contig hwf hshape sx hsub
    exact ⟨p, ids sx, A, B, C, hp, by simp [subtreeIds, hsx], e, h1, h2, h3⟩

example : 6 ∈ ids exTree ∧ 6 ≠ exTree.rid := by decide

/-- Walking the update path - from every node to the next one along `path_from_to` - crosses no
    edge of the tree more than twice (`w` lists all crossings, orientation forgotten). -/
theorem update_path_edge_crossings (t : RTree) (hwf : t.WF) :
    ∃ p w, updatePath t = some p ∧ walkEdges t p = some w ∧ ∀ e, w.count e ≤ 2 := by
  cases t with
  | node r ks => exact updatePath_crossings r ks hwf

example : walkEdges exTree [7, 6, 5, 2, 0, 4, 1, 3] =
    some [(6, 7), (5, 6), (0, 5), (0, 2), (0, 2), (0, 1), (1, 4), (1, 4), (1, 3)] := by decide

/-! ### Keys of the initial environment cache -/

/-- `init_cache_but_one(state, hamiltonian, c)` creates exactly `n - 1` blocks: one block `(u, ·)`
    for every node `u ≠ c`, one per edge of the tree (as unoriented pairs the keys are exactly the
    edges), and every block `(u, v)` points toward `c`: `v` is the first step of
    `path_from_to(u, c)`. -/
theorem init_cache_keys (t : RTree) (hwf : t.WF) (c : Nat) (hc : c ∈ ids t) :
    ∃ keys, cacheKeys c t = some keys ∧
      keys.length + 1 = (ids t).length ∧
      (keys.map (·.1) ++ [c]).Perm (ids t) ∧
      (keys.map unord).Perm ((edges t).map unord) ∧
      ∀ u v, (u, v) ∈ keys → ∃ rest, pathFromTo t u c = some (u :: v :: rest) := by
  cases hk : cacheKeys c t with
  | none => exact absurd hc (((cacheKeys_spec c).1 t).2 hk)
  | some keys =>
    obtain ⟨h1, h2⟩ := ((cacheKeys_spec c).1 t).1 keys hk
    refine ⟨keys, rfl, ?_, h1, h2, ?_⟩
    · have := h1.length_eq
      simpa using this
    · intro u v huv
      obtain ⟨pd, hpd⟩ := pathDown_some_of_mem hc
      rcases (cacheKeys_direction c).1 t keys pd hk hpd hwf u v huv with ⟨g1, g2⟩ | ⟨l1, l2, g⟩
      · exact next_hop_up hwf hpd g1 g2
      · exact ⟨l2, next_hop_down hwf (g ▸ hpd)⟩

example : cacheKeys 7 exTree = some [(3, 1), (4, 1), (1, 0), (2, 0), (0, 5), (5, 6), (6, 7)] := by
  decide
example : 7 ∈ ids exTree := by decide

/-! ### Segments of the TDVP sweep and the distance table (exported to C05 / C03)

The theorems `segs_nodes`, `segs_edges_perm`, `segs_point_to_last`, `segs_last_adjacent`,
`segs_degree`, `edges_unord_nodup` (file `Segments.lean`) and `dist_table`, `mem_nbrsOf` (file
`DistTree.lean`) are stated there because `lean/Ptn/C05/Tree.lean` and `lean/Ptn/C03/Tree.lean`
import those files; they are listed in `obligations/C17.txt`.  Non-vacuity: -/

example : segsOf? exTree = some [(7, 6), (6, 5), (5, 0), (2, 0), (0, 1), (4, 1), (1, 3)] ∧
    lastOf exTree = 3 := by decide
example : (edges exTree).map unord = [(0, 1), (1, 3), (1, 4), (0, 2), (0, 5), (5, 6), (6, 7)] := by
  decide
example : firstHop exTree 2 3 = some 0 ∧ firstHop exTree 0 3 = some 1 := by decide
example : nbrsOf exTree 1 = [0, 3, 4] ∧ nbrsOf exTree 0 = [1, 2, 5] := by decide

/-! ### Flat port = structural model (files `Flat.lean`, `FlatKids.lean`, `FlatDist.lean`)

`Mirror ft t`: the dict of `ft` is a rearrangement of `flatten t` (any insertion order), `root_id` is
the root of `t`, identifiers distinct; `toRTree_mirror`: the driver's check `ft.toRTree = some t`
implies `Mirror ft t`.  Theorems `flat_*_eq_struct` (listed in
`obligations/C17.txt`): the line-by-line port on such a mirror returns exactly what the structural
model returns.  Non-vacuity: a mirror of `exTree` in a scrambled dict order. -/

example : Mirror ⟨[(5, ⟨some 0, [6]⟩), (3, ⟨some 1, []⟩), (0, ⟨none, [1, 2, 5]⟩), (7, ⟨some 6, []⟩),
      (1, ⟨some 0, [3, 4]⟩), (6, ⟨some 5, [7]⟩), (2, ⟨some 0, []⟩), (4, ⟨some 1, []⟩)], some 0⟩ exTree :=
  ⟨by decide, rfl, by decide⟩

end Ptn.C17
