import Ptn.C17.FlatSweep
/-! Flat port = structural model: `TDVPUpdatePathFinder.find_path`. -/
namespace Ptn.C17
open RTree

/-- the first child that holds `s` -/
theorem first_kid_split {s : Nat} : ∀ {ks : List RTree}, s ∈ idsL ks →
    ∃ pre k post, ks = pre ++ k :: post ∧ (∀ k' ∈ pre, s ∉ ids k') ∧ s ∈ ids k
  | k :: ks, h => by
    by_cases hk : s ∈ ids k
    · exact ⟨[], k, ks, by simp, by simp, hk⟩
    · have : s ∈ idsL ks := by
        simp at h; rcases h with h | h
        · exact absurd h hk
        · exact h
      obtain ⟨pre, k', post, e, hpre, hk'⟩ := first_kid_split this
      refine ⟨k :: pre, k', post, by simp [e], ?_, hk'⟩
      intro k'' hk''
      rcases List.mem_cons.mp hk'' with rfl | hk''
      · exact hk
      · exact hpre k'' hk''

theorem findSome_sweepUp_split {s : Nat} {pre post : List RTree} {k : RTree}
    (hpre : ∀ k' ∈ pre, s ∉ ids k') (hk : s ∈ ids k) :
    (pre ++ k :: post).findSome? (sweepUp s) = sweepUp s k := by
  induction pre with
  | nil =>
    cases hw : sweepUp s k with
    | none => exact absurd hk (((sweepUp_spec s).1 k).2 hw)
    | some w => simp [List.findSome?_cons, hw]
  | cons a l ih =>
    have ha : sweepUp s a = none := by
      cases hw : sweepUp s a with
      | none => rfl
      | some w => exact absurd (((sweepUp_spec s).1 a).1 w hw).2.1 (hpre a (by simp))
    simp only [List.cons_append, List.findSome?_cons, ha]
    exact ih (fun k' hk' => hpre k' (by simp [hk']))

theorem find_rid_split {pre post : List RTree} {k : RTree}
    (hnd : ((pre ++ k :: post).map rid).Nodup) :
    (pre ++ k :: post).find? (fun k' => k'.rid == k.rid) = some k :=
  find_by_rid hnd (by simp)

theorem FTree.updatePath_unfold (ft : FTree) :
    ft.updatePath = ft.findStart.bind fun start => (ft.findPathToRoot start).bind fun mp =>
      mp.foldlM (upStep ft mp) [] := rfl

theorem FTree.pathDownFromRoot_unfold (ft : FTree) (mainPath path : List Nat) :
    ft.pathDownFromRoot mainPath path = ft.root.bind fun r => (ft.get? r).bind fun n =>
      if n.children.length == 1 then some [r] else
        (ft.mainPathDown path).bind fun mpd => mpd.foldlM (downStep ft r mainPath mpd) [] := rfl

theorem keepKids_unfold (ks : List RTree) (mainPath mpd : List Nat) :
    keepKids ks mainPath mpd = if ks.isEmpty then some [] else
      (if 2 ≤ mainPath.length then mainPath[mainPath.length - 2]? else none).bind fun a =>
        (mpd[1]?).bind fun b => some (ks.filter (fun k => !(k.rid == a || k.rid == b))) := by
  unfold keepKids
  split
  · rfl
  · cases (if 2 ≤ mainPath.length then mainPath[mainPath.length - 2]? else none) <;>
      cases mpd[1]? <;> rfl

/-- **`find_furthest_non_visited_leaf`** -/
theorem flat_furthest_eq_struct (ft : FTree) (t : RTree) (h : Mirror ft t) (path : List Nat) :
    ft.furthestNonVisitedLeaf path = furthestNonVisitedLeaf t path := by
  simp only [FTree.furthestNonVisitedLeaf, h.2.1, flat_distance_root_eq_struct ft t h,
    Option.bind_eq_bind, Option.bind_some, RTree.furthestNonVisitedLeaf]
  congr 1
  apply List.filter_congr
  intro e _
  rw [Bool.eq_iff_iff]
  simp [List.mem_filter, h.mem_getLeaves]

/-- **`path_down_from_root`** -/
theorem flat_path_down_from_root_eq_struct (ft : FTree) (r : Nat) (ks : List RTree)
    (h : Mirror ft (node r ks)) (mp up : List Nat) :
    ft.pathDownFromRoot mp up = rootDown (node r ks) r ks mp up := by
  have hroot : ft.root = some r := by simpa [rid] using h.2.1
  have hget : ft.get? r = some ⟨none, ks.map rid⟩ := h.kidsP.self
  have hwf : (r :: idsL ks).Nodup := by simpa [WF] using h.2.2
  have hndc := List.nodup_cons.mp hwf
  have hself : node r ks ∈ subtrees (node r ks) := by simp
  obtain ⟨_, hsm, _, _, hkids⟩ := h.node_facts hself
  rw [FTree.pathDownFromRoot_unfold]
  simp only [hroot, hget, Option.bind_some, List.length_map, rootDown]
  by_cases hlen : (ks.length == 1) = true
  · simp [hlen]
  · simp only [hlen, Bool.false_eq_true, if_false]
    simp only [FTree.mainPathDown, flat_furthest_eq_struct ft _ h, Option.bind_eq_bind]
    cases hf : furthestNonVisitedLeaf (node r ks) up with
    | none => simp
    | some f =>
      simp only [Option.bind_some, flat_find_path_to_root_eq_struct ft _ h, rootPath]
      cases hmpd : pathDown f (node r ks) with
      | none => simp
      | some mpd =>
        simp only [Option.map_some, Option.bind_some, List.reverse_reverse]
        have hfm := mem_of_pathDown hmpd
        -- shape of mpd
        obtain ⟨rest, hrest⟩ : ∃ rest, mpd = r :: rest := by
          have := ((pathDown_ends f).1 _ mpd hmpd).1
          cases mpd with
          | nil => simp at this
          | cons y l => simp [rid] at this; exact ⟨l, by rw [this]⟩
        subst hrest
        -- the step at the root
        have hrootstep : downStep ft r mp (r :: rest) [] r =
            (keepKids ks mp (r :: rest)).bind fun keep => some (postorderL keep ++ [r]) := by
          simp only [downStep, beq_self_eq_true, if_true]
          unfold FTree.branchDownRoot
          rw [keepKids_unfold]
          simp only [hroot, hget, Option.bind_eq_bind, Option.bind_some, List.isEmpty_map]
          by_cases hke : ks.isEmpty = true
          · have : ks = [] := by simpa using hke
            subst this
            simp [FTree.branchesThen]
          · simp only [hke, Bool.false_eq_true, if_false]
            by_cases h2 : 2 ≤ mp.length
            · simp only [h2, if_true]
              cases mp[mp.length - 2]? with
              | none => simp
              | some a =>
                cases hb : (r :: rest)[1]? with
                | none => simp
                | some b =>
                  simp only [Option.bind_some]
                  rw [filter_rids, branchesThen_eq _ (hsm.filter _) r]
                  simp
            · simp [h2]
        simp only [List.foldlM_cons, hrootstep, Option.bind_eq_bind]
        cases hkeep : keepKids ks mp (r :: rest) with
        | none => simp
        | some keep =>
          simp only [Option.bind_some]
          cases rest with
          | nil => simp [downPart]
          | cons b rest' =>
            -- f lies below a child of the root
            have hrf : r ≠ f := by
              intro e; subst e
              simp at hmpd
            have hfks : f ∈ idsL ks := by
              simp at hfm; rcases hfm with e | e
              · exact absurd e.symm hrf
              · exact e
            obtain ⟨pre, kj, post, rfl, hpre, hfkj⟩ := first_kid_split hfks
            obtain ⟨qj, hqj, hqt⟩ := pathDown_split (r := r) (post := post) hrf hpre hfkj
            rw [hmpd] at hqt; simp at hqt
            have hbq : b :: rest' = qj := hqt
            subst hbq
            have hhead := ((pathDown_ends f).1 kj _ hqj).1
            have hb : b = kj.rid := by simpa using hhead
            have hkjmem : kj ∈ pre ++ kj :: post := by simp
            obtain ⟨wj, hwj⟩ : ∃ wj, sweepDown f kj = some wj := by
              cases hw : sweepDown f kj with
              | some w => exact ⟨w, rfl⟩
              | none => exact absurd hfkj (((sweepDown_spec f).1 kj).2 hw)
            have hloop := (down_loop h mp (r :: b :: rest') f).1 kj (hkids kj hkjmem)
              (fun hin => hndc.1 (by simpa [rid] using ids_subset_idsL hkjmem _ hin)) _ wj hqj hwj
              (by
                intro x hx
                have hxr : x ≠ r := fun e => hndc.1 (e ▸ ids_subset_idsL hkjmem x hx)
                simp [hxr]) (postorderL keep ++ [r])
            simp only [rid] at hloop
            rw [hloop]
            simp only [downPart, hb, find_rid_split (rids_nodup hndc.2), Option.bind_some, hwj]

/-- **`TDVPUpdatePathFinder.find_path`**: the flat port (loops over `main_path` and
    `main_path_down`, filters on list membership, `get_leaves` in dict order) equals the structural
    model on every valid mirror, in any dict order. -/
theorem flat_update_path_eq_struct (ft : FTree) (t : RTree) (h : Mirror ft t) :
    ft.updatePath = updatePath t := by
  cases t with
  | node r ks =>
    have hroot : ft.root = some r := by simpa [rid] using h.2.1
    have hwf : (r :: idsL ks).Nodup := by simpa [WF] using h.2.2
    have hndc := List.nodup_cons.mp hwf
    have hself : node r ks ∈ subtrees (node r ks) := by simp
    obtain ⟨_, _, _, _, hkids⟩ := h.node_facts hself
    rw [FTree.updatePath_unfold]
    simp only [flat_find_start_eq_struct ft _ h,
      flat_find_path_to_root_eq_struct ft _ h, updatePath]
    cases hs : findStart (node r ks) with
    | none => simp
    | some s =>
      simp only [Option.bind_some]
      cases hmp : rootPath (node r ks) s with
      | none => simp
      | some mp =>
        simp only [Option.bind_some]
        simp only [rootPath, Option.map_eq_some_iff] at hmp
        obtain ⟨qd, hqd, rfl⟩ := hmp
        have hsm := mem_of_pathDown hqd
        have hrootstep : ∀ up, upStep ft qd.reverse up r =
            (rootDown (node r ks) r ks qd.reverse up).bind fun dn => some (up ++ dn) := by
          intro up
          have : (some r != ft.root) = false := by simp [hroot]
          simp only [upStep, this, Bool.false_eq_true, if_false,
            flat_path_down_from_root_eq_struct ft r ks h, Option.bind_eq_bind]
          cases rootDown (node r ks) r ks qd.reverse up <;> simp
        by_cases hrs : r = s
        · subst hrs
          simp at hqd; subst hqd
          simp only [List.reverse_cons, List.reverse_nil, List.nil_append, List.foldlM_cons,
            List.foldlM_nil, upPart, if_true, Option.bind_some]
          have := hrootstep []
          simp only [List.reverse_cons, List.reverse_nil, List.nil_append] at this
          rw [this]
          cases rootDown (node r ks) r ks [r] [] <;> simp
        · have hsks : s ∈ idsL ks := by
            simp at hsm; rcases hsm with e | e
            · exact absurd e.symm hrs
            · exact e
          obtain ⟨pre, ki, post, rfl, hpre, hski⟩ := first_kid_split hsks
          obtain ⟨qi, hqi, hqt⟩ := pathDown_split (r := r) (post := post) hrs hpre hski
          rw [hqd] at hqt; simp at hqt; subst hqt
          have hkimem : ki ∈ pre ++ ki :: post := by simp
          obtain ⟨wi, hwi⟩ : ∃ wi, sweepUp s ki = some wi := by
            cases hw : sweepUp s ki with
            | some w => exact ⟨w, rfl⟩
            | none => exact absurd hski (((sweepUp_spec s).1 ki).2 hw)
          have hloop := (up_loop h (qi.reverse ++ [r]) s).1 ki (hkids ki hkimem)
            (fun hin => hndc.1 (by simpa [rid] using ids_subset_idsL hkimem _ hin)) qi wi hqi hwi
            (by
              intro x hx
              have hxr : x ≠ r := fun e => hndc.1 (e ▸ ids_subset_idsL hkimem x hx)
              simp [hxr]) []
          have hup : upPart s r (pre ++ ki :: post) = some wi := by
            simp only [upPart, hrs, if_false, findSome_sweepUp_split hpre hski, hwi]
          rw [hup]
          simp only [Option.bind_some]
          rw [List.reverse_cons, List.foldlM_append, hloop]
          simp only [List.nil_append, Option.bind_eq_bind, Option.bind_some, List.foldlM_cons,
            List.foldlM_nil]
          have := hrootstep wi
          rw [List.reverse_cons] at this
          rw [this]
          cases rootDown (node r (pre ++ ki :: post)) r (pre ++ ki :: post) (qi.reverse ++ [r]) wi <;>
            simp

end Ptn.C17
