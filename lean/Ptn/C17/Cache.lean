import Ptn.C17.Linear
import Ptn.C17.Unique
/-! Keys of the initial environment cache (`init_cache_but_one`). -/
namespace Ptn.C17
namespace RTree

theorem unord_swap (a b : Nat) : unord (a, b) = unord (b, a) := by
  simp only [unord]
  by_cases h1 : a ≤ b <;> by_cases h2 : b ≤ a <;> simp [h1, h2]
  · omega
  · omega

@[simp] theorem upKeys_node (p i : Nat) (ks : List RTree) :
    upKeys p (node i ks) = upKeysL i ks ++ [(i, p)] := by simp [upKeys]
@[simp] theorem upKeysL_nil (p : Nat) : upKeysL p [] = [] := by simp [upKeysL]
@[simp] theorem upKeysL_cons (p : Nat) (t : RTree) (ts : List RTree) :
    upKeysL p (t :: ts) = upKeys p t ++ upKeysL p ts := by simp [upKeysL]

theorem upKeysL_append (p : Nat) (l1 l2 : List RTree) :
    upKeysL p (l1 ++ l2) = upKeysL p l1 ++ upKeysL p l2 := by
  induction l1 with
  | nil => simp
  | cons t ts ih => simp [ih]

/-- the blocks of a hanging subtree: one per node, in post-order, each pointing to the parent -/
theorem upKeys_spec :
    (∀ t p, (upKeys p t).map (·.1) = postorder t ∧
        ((upKeys p t).map unord).Perm (((p, t.rid) :: edges t).map unord) ∧
        ∀ u v, (u, v) ∈ upKeys p t → (v, u) ∈ (p, t.rid) :: edges t) ∧
    (∀ ts p, (upKeysL p ts).map (·.1) = postorderL ts ∧
        ((upKeysL p ts).map unord).Perm ((edgesL p ts).map unord) ∧
        ∀ u v, (u, v) ∈ upKeysL p ts → (v, u) ∈ edgesL p ts) := by
  apply induct
  · intro i ks ih p
    obtain ⟨h1, h2, h3⟩ := ih i
    refine ⟨by simp [h1], ?_, ?_⟩
    · simp only [upKeys_node, List.map_append, List.map_cons, List.map_nil, edges_node, rid]
      rw [unord_swap i p]
      exact (List.perm_append_comm).trans (List.Perm.cons _ h2)
    · intro u v h
      simp at h
      rcases h with h | ⟨rfl, rfl⟩
      · simp [h3 u v h]
      · simp [rid]
  · intro p; simp
  · intro t ts iht ihts p
    obtain ⟨h1, h2, h3⟩ := iht p
    obtain ⟨g1, g2, g3⟩ := ihts p
    refine ⟨by simp [h1, g1], ?_, ?_⟩
    · simp only [upKeysL_cons, List.map_append, edgesL_cons, List.map_cons]
      exact (h2.append g2).trans (by simp)
    · intro u v h
      simp at h
      rcases h with h | h
      · have := h3 u v h
        simp at this
        rcases this with ⟨rfl, rfl⟩ | this
        · simp
        · simp [this]
      · simp [g3 u v h]

theorem cacheKeys_node (c i : Nat) (ks : List RTree) :
    cacheKeys c (node i ks) = if i = c then some (upKeysL i ks) else cacheKeysL c i [] ks := by
  simp [cacheKeys]
@[simp] theorem cacheKeysL_nil (c i : Nat) (pre : List RTree) : cacheKeysL c i pre [] = none := by
  simp [cacheKeysL]

theorem cacheKeysL_cons_cases (c i : Nat) (pre : List RTree) (k : RTree) (post : List RTree) :
    (∃ rest, cacheKeys c k = some rest ∧
       cacheKeysL c i pre (k :: post) = some (upKeysL i (pre ++ post) ++ [(i, k.rid)] ++ rest)) ∨
    (cacheKeys c k = none ∧ cacheKeysL c i pre (k :: post) = cacheKeysL c i (pre ++ [k]) post) := by
  cases h : cacheKeys c k with
  | some rest => exact Or.inl ⟨rest, rfl, by rw [cacheKeysL]; simp only [h]⟩
  | none => exact Or.inr ⟨rfl, by rw [cacheKeysL]; simp only [h]⟩

/-- the key list exists exactly for the nodes of the tree; it has one key per node other than `c`
    and one key per edge -/
theorem cacheKeys_spec (c : Nat) :
    (∀ t, (∀ keys, cacheKeys c t = some keys →
        (keys.map (·.1) ++ [c]).Perm (ids t) ∧ (keys.map unord).Perm ((edges t).map unord)) ∧
      (cacheKeys c t = none → c ∉ ids t)) ∧
    (∀ ks i pre, (∀ keys, cacheKeysL c i pre ks = some keys →
        (keys.map (·.1) ++ [c]).Perm (i :: idsL pre ++ idsL ks) ∧
        (keys.map unord).Perm ((edgesL i pre ++ edgesL i ks).map unord)) ∧
      (cacheKeysL c i pre ks = none → c ∉ idsL ks)) := by
  apply induct
  · intro i ks ih
    rw [cacheKeys_node]
    by_cases hic : i = c
    · subst hic
      simp only [if_true, Option.some.injEq, reduceCtorEq, false_imp_iff, and_true]
      intro keys hk; subst hk
      obtain ⟨h1, h2, _⟩ := upKeys_spec.2 ks i
      refine ⟨?_, by simpa using h2⟩
      rw [h1]; simp only [ids_node]
      exact (List.perm_append_comm).trans (by simpa using postorder_perm.2 ks)
    · simp only [hic, if_false]
      have := ih i []
      constructor
      · intro keys hk
        obtain ⟨h1, h2⟩ := this.1 keys hk
        exact ⟨by simpa using h1, by simpa using h2⟩
      · intro hn
        have := this.2 hn
        simp only [ids_node, List.mem_cons, not_or]
        exact ⟨fun e => hic e.symm, this⟩
  · intro i pre; simp
  · intro k post ihk ihpost i pre
    rcases cacheKeysL_cons_cases c i pre k post with ⟨rest, h1, h2⟩ | ⟨h1, h2⟩
    · rw [h2]
      simp only [Option.some.injEq, reduceCtorEq, false_imp_iff, and_true]
      intro keys hk; subst hk
      obtain ⟨e1, e2⟩ := ihk.1 rest h1
      obtain ⟨g1, g2, _⟩ := upKeys_spec.2 (pre ++ post) i
      refine ⟨?_, ?_⟩
      · simp only [List.map_append, g1, List.map_cons, List.map_nil]
        apply List.perm_iff_count.mpr
        intro a
        have c1 := e1.count_eq a
        have c2 := (postorder_perm.2 (pre ++ post)).count_eq a
        simp only [List.count_append, List.count_cons, idsL_append, idsL_cons,
          List.count_nil] at c1 c2 ⊢
        omega
      · simp only [List.map_append, List.map_cons, List.map_nil, edgesL_cons]
        apply List.perm_iff_count.mpr
        intro a
        have c1 := e2.count_eq a
        have c2 := g2.count_eq a
        simp only [List.count_append, List.count_cons, edgesL_append, List.map_append,
          List.count_nil] at c1 c2 ⊢
        omega
    · rw [h2]
      have hk := ihk.2 h1
      have := ihpost i (pre ++ [k])
      constructor
      · intro keys hkeys
        obtain ⟨e1, e2⟩ := this.1 keys hkeys
        refine ⟨e1.trans (by simp [idsL_append]), e2.trans ?_⟩
        simp [edgesL_append]
      · intro hn
        have := this.2 hn
        simp only [idsL_cons, List.mem_append, not_or]
        exact ⟨hk, this⟩

/-! ### Direction of the blocks -/

/-- the source of a block of a hanging forest is a node of that forest -/
theorem upKeysL_src {p : Nat} {ts : List RTree} {u v : Nat} (h : (u, v) ∈ upKeysL p ts) :
    u ∈ idsL ts := by
  have h1 := (upKeys_spec.2 ts p).1
  have : u ∈ (upKeysL p ts).map (·.1) := List.mem_map.mpr ⟨(u, v), h, rfl⟩
  rw [h1] at this
  exact (postorder_perm.2 ts).subset this

/-- Where the blocks point: off the way from the root to `c` toward the parent, on that way toward
    the next node of it. -/
theorem cacheKeys_direction (c : Nat) :
    (∀ t keys pd, cacheKeys c t = some keys → pathDown c t = some pd → (ids t).Nodup →
      ∀ u v, (u, v) ∈ keys →
        (u ∉ pd ∧ (v, u) ∈ edges t) ∨ (∃ l1 l2, pd = l1 ++ u :: v :: l2)) ∧
    (∀ ks i pre keys pd, cacheKeysL c i pre ks = some keys → pathDownL c ks = some pd →
      (idsL pre ++ idsL ks).Nodup → i ∉ idsL pre ++ idsL ks →
      ∀ u v, (u, v) ∈ keys →
        (u ∉ i :: pd ∧ (v, u) ∈ edgesL i (pre ++ ks)) ∨ (∃ l1 l2, i :: pd = l1 ++ u :: v :: l2)) := by
  apply induct
  · intro i ks ih keys pd hk hpd hnd u v huv
    rw [cacheKeys_node] at hk
    simp at hnd
    by_cases hic : i = c
    · subst hic
      simp at hk hpd; subst hk; subst hpd
      left
      have hu := upKeysL_src huv
      refine ⟨?_, by simpa using (upKeys_spec.2 ks i).2.2 u v huv⟩
      simp only [List.mem_singleton]
      intro e; exact hnd.1 (e ▸ hu)
    · simp [hic] at hk hpd
      obtain ⟨pd', hpd', rfl⟩ := hpd
      have := ih i [] keys pd' hk hpd' (by simpa using hnd.2) (by simpa using hnd.1) u v huv
      simpa using this
  · intro i pre keys pd hk; simp at hk
  · intro k post ihk ihpost i pre keys pd hk hpd hnd hi u v huv
    rcases cacheKeysL_cons_cases c i pre k post with ⟨rest, h1, h2⟩ | ⟨h1, h2⟩
    · rw [h2] at hk; simp at hk; subst hk
      have hck : c ∈ ids k := by
        apply Classical.byContradiction
        intro hn
        have := ((cacheKeys_spec c).1 k).1 rest h1
        have hc : c ∈ (rest.map (·.1) ++ [c]) := by simp
        exact hn (this.1.subset hc)
      obtain ⟨pk, hpk⟩ := pathDown_some_of_mem hck
      rw [pathDownL_cons_some hpk] at hpd; simp at hpd; subst hpd
      have hsubk := (pathDown_subset c).1 k pk hpk
      have hnd' := hnd
      simp only [idsL_cons, List.nodup_append, List.mem_append] at hnd' hi
      simp only [List.mem_append, List.mem_cons, Prod.mk.injEq] at huv
      rcases huv with huv | huv | huv
      · -- a block of a branch off the way
        left
        have hu := upKeysL_src huv
        have he := (upKeys_spec.2 (pre ++ post) i).2.2 u v huv
        refine ⟨?_, ?_⟩
        · simp only [List.mem_cons, not_or]
          refine ⟨fun e => ?_, fun hupk => ?_⟩
          · subst e
            rw [idsL_append, List.mem_append] at hu
            rcases hu with hu | hu
            · exact hi (Or.inl hu)
            · exact hi (Or.inr (Or.inr hu))
          · have huk := hsubk u hupk
            rw [idsL_append, List.mem_append] at hu
            rcases hu with hu | hu
            · exact hnd'.2.2 u hu u (Or.inl huk) rfl
            · exact hnd'.2.1.2.2 u huk u hu rfl
        · rw [edgesL_append] at he ⊢
          simp only [List.mem_append, edgesL_cons, List.mem_cons] at he ⊢
          rcases he with he | he
          · exact Or.inl he
          · exact Or.inr (Or.inr (Or.inr he))
      · -- the block of the node of the way itself
        obtain ⟨rfl, rfl⟩ := huv
        right
        have hh := ((pathDown_ends c).1 k pk hpk).1
        cases pk with
        | nil => simp at hh
        | cons y l => simp at hh; subst hh; exact ⟨[], l, by simp⟩
      · have huk : u ∈ ids k := by
          have := ((cacheKeys_spec c).1 k).1 rest h1
          have hu : u ∈ rest.map (·.1) ++ [c] := by
            simp only [List.mem_append, List.mem_map]
            exact Or.inl ⟨(u, v), huv, rfl⟩
          exact this.1.subset hu
        rcases ihk rest pk h1 hpk hnd'.2.1.1 u v huv with ⟨g1, g2⟩ | ⟨l1, l2, g⟩
        · left
          refine ⟨?_, ?_⟩
          · simp only [List.mem_cons, not_or]
            exact ⟨fun e => hi (Or.inr (Or.inl (e ▸ huk))), g1⟩
          · rw [edgesL_append]
            simp [g2]
        · right
          exact ⟨i :: l1, l2, by simp [g]⟩
    · rw [h2] at hk
      have hck := ((cacheKeys_spec c).1 k).2 h1
      rw [pathDownL_cons_none (pathDown_none_of_not_mem hck)] at hpd
      have := ihpost i (pre ++ [k]) keys pd hk hpd (by simpa [idsL_append] using hnd)
        (by simpa [idsL_append] using hi) u v huv
      simpa using this

/-- the first step of `path_from_to(u, c)` when `u` is not on the way from the root to `c`:
    it goes to the parent of `u` -/
theorem next_hop_up {t : RTree} (hwf : t.WF) {u v c : Nat} {pd : List Nat}
    (hpd : pathDown c t = some pd) (hu : u ∉ pd) (he : (v, u) ∈ edges t) :
    ∃ rest, pathFromTo t u c = some (u :: v :: rest) := by
  have hum := (edge_mem_ids he).2
  have hcm := mem_of_pathDown hpd
  have huc : u ≠ c := by
    intro e; subst e
    exact hu (List.mem_of_getLast? ((pathDown_ends u).1 t pd hpd).2)
  obtain ⟨pre, c0, xs, ys, hpa, hpb, hd, hp⟩ := pathFromTo_shape hwf hum hcm huc
  rw [hpd] at hpb; simp at hpb; subst hpb
  obtain ⟨q, h1, h2⟩ := pathDown_edge.1 t v u hwf he
  rw [hpa] at h2; simp at h2
  -- xs is not empty, since u is not on the way to c
  cases hx : xs.reverse with
  | nil =>
    have : xs = [] := by simpa using hx
    subst this
    exfalso
    have : c0 = u := by
      have := congrArg List.getLast? h2
      simpa using this
    subst this
    exact hu (by simp)
  | cons y l =>
    have e : xs = l.reverse ++ [y] := by
      have := congrArg List.reverse hx; simpa using this
    subst e
    have hq : pre ++ c0 :: l.reverse = q ∧ y = u := by
      have : pre ++ c0 :: (l.reverse ++ [y]) = (pre ++ c0 :: l.reverse) ++ [y] := by simp
      rw [this] at h2
      exact List.append_inj' h2 rfl |> fun h => ⟨h.1, by simpa using h.2⟩
    obtain ⟨hq1, rfl⟩ := hq
    have hlast : (pre ++ c0 :: l.reverse).getLast? = some v := by
      rw [hq1]; exact ((pathDown_ends v).1 t q h1).2
    have hhead := head_of_last (ys := ys) hlast
    rw [hp]
    simp only [List.reverse_append, List.reverse_cons, List.reverse_nil, List.nil_append,
      List.reverse_reverse, List.singleton_append, List.cons_append]
    simp only [List.reverse_reverse] at hhead
    cases hr : l ++ c0 :: ys with
    | nil => simp at hr
    | cons z rest =>
      rw [hr] at hhead; simp at hhead; subst hhead
      exact ⟨rest, rfl⟩

/-- the first step of `path_from_to(u, c)` when `u` is on the way from the root to `c`:
    it goes to the next node of that way -/
theorem next_hop_down {t : RTree} (hwf : t.WF) {u v c : Nat} {l1 l2 : List Nat}
    (hpd : pathDown c t = some (l1 ++ u :: v :: l2)) :
    pathFromTo t u c = some (u :: v :: l2) := by
  apply simple_path_eq_pathFromTo hwf
  have hsub := (pathDown_subset c).1 t _ hpd
  have hch := chain_append_right ((pathDown_chain c).1 t _ hpd)
  have hnd := pathDown_nodup hwf hpd
  have hlast := ((pathDown_ends c).1 t _ hpd).2
  refine ⟨by simp, ?_, fun x hx => hsub x (by simp at hx ⊢; exact Or.inr hx), ?_, ?_⟩
  · rw [List.getLast?_append] at hlast
    simpa using hlast
  · exact chain_mono (fun _ _ h => Or.inl h) hch
  · exact (List.nodup_append.mp hnd).2.1

end RTree
end Ptn.C17
