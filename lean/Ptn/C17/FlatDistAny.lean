import Ptn.C17.FlatDist
import Ptn.C17.Reroot
import Ptn.C17.RootStep
/-! Flat port = structural model: `distance_to_node(c)` for an arbitrary centre.  The structural
model is the depth table of the tree re-rooted at `c` (`reroot`); the flat port walks the
neighbour lists.  Link: every node of the re-rooted tree has, in the flat mirror of the *original*
tree, the neighbour list `parent-in-R :: children-in-R` up to the position of the R-parent. -/
namespace Ptn.C17
open RTree

/-- the neighbour lists of the mirror, read along the tree `s` hanging below `par`: the R-parent
    is a neighbour and the other neighbours, in order, are the children in `s` -/
def NbEntry (g : GNode) : Option Nat → List Nat → Prop
  | none, kidIds => g.neighbours = kidIds
  | some p, kidIds => p ∈ g.neighbours ∧ g.neighbours.erase p = kidIds

def NbP (ft : FTree) (par : Option Nat) (s : RTree) : Prop :=
  ∀ e ∈ subtreesP par s, ∃ g, ft.get? e.2.rid = some g ∧ NbEntry g e.1 (e.2.kids.map rid)

theorem NbP.self {ft : FTree} {par : Option Nat} {i : Nat} {ks : List RTree}
    (h : NbP ft par (node i ks)) : ∃ g, ft.get? i = some g ∧ NbEntry g par (ks.map rid) := by
  simpa [rid, kids] using h (par, node i ks) (by simp)

theorem mem_subtreesPL {e : Option Nat × RTree} {p : Option Nat} :
    ∀ {ks : List RTree}, e ∈ subtreesPL p ks ↔ ∃ k ∈ ks, e ∈ subtreesP p k
  | [] => by simp
  | k :: ks => by simp [mem_subtreesPL (ks := ks)]

theorem NbP.kid {ft : FTree} {par : Option Nat} {i : Nat} {ks : List RTree}
    (h : NbP ft par (node i ks)) {k : RTree} (hk : k ∈ ks) : NbP ft (some i) k := by
  intro e he
  apply h e
  simp only [subtreesP_node, List.mem_cons]
  exact Or.inr (mem_subtreesPL.mpr ⟨k, hk, he⟩)

/-- the original subtrees satisfy it (the parent is the head of the neighbour list) -/
theorem KidsP.nbP {ft : FTree} {par : Option Nat} {s : RTree} (h : KidsP ft par s) : NbP ft par s := by
  intro e he
  refine ⟨_, h e he, ?_⟩
  cases hp : e.1 with
  | none => simp [NbEntry, GNode.neighbours]
  | some p => simp [NbEntry, GNode.neighbours]

/-- `_distance_to_node_rec` along a tree whose neighbour lists are found in the mirror -/
theorem distRecF_nb (ft : FTree) :
    (∀ s, ∀ par, NbP ft (some par) s → (ids s).Nodup →
      ∀ fuel, (ids s).length ≤ fuel → ft.distRecF fuel s.rid par = some (depths 0 s)) ∧
    (∀ ks, ∀ i, (∀ k ∈ ks, NbP ft (some i) k) → ∀ f acc,
      (acc.map (·.1) ++ idsL ks).Nodup → (idsL ks).length ≤ f →
      (ks.map rid).foldlM (fun dd nb => do
          let sub ← ft.distRecF f nb i
          pure (dictUpdate dd (incr sub))) acc = some (acc ++ depthsL 1 ks)) := by
  apply induct
  · intro i ks ih par hok hnd fuel hf
    obtain ⟨f, rfl⟩ : ∃ f, fuel = f + 1 := ⟨fuel - 1, by simp at hf; omega⟩
    obtain ⟨g, hg, hin, her⟩ := hok.self

    simp at hnd
    have := ih i (fun k hk => hok.kid hk) f [(i, 0)] (by simpa using hnd) (by simp at hf; omega)
    simp only [rid, FTree.distRecF, hg, Option.bind_eq_bind, Option.bind_some]
    simp only [Option.bind_eq_bind] at this
    have hc : g.neighbours.contains par = true := by simpa using hin
    simp only [hc, Bool.not_true, Bool.false_eq_true, if_false, her]
    simpa using this
  · intro i _ f acc _ _; simp
  · intro k ks ihk ihks i hok f acc hnd hf
    simp only [idsL_cons, List.length_append] at hf
    have hndk : (ids k).Nodup := by
      simp only [idsL_cons, List.nodup_append] at hnd; exact hnd.2.1.1
    have h1 := ihk i (hok k (by simp)) hndk f (by omega)
    have hupd : dictUpdate acc (incr (depths 0 k)) = acc ++ depths 1 k := by
      rw [← (depths_succ.1 k 0)]
      apply dictUpdate_append
      · intro e he hea
        have : e.1 ∈ ids k := mem_ids_of_mem_depths (d := 0 + 1) (k := e.2) he
        simp only [idsL_cons, List.nodup_append, List.mem_append] at hnd
        exact hnd.2.2 e.1 hea e.1 (Or.inl this) rfl
      · rw [depths_keys.1 k (0 + 1)]; exact hndk
    have h2 := ihks i (fun k' hk' => hok k' (by simp [hk'])) f (acc ++ depths 1 k) (by
      simp only [List.map_append, depths_keys.1 k 1]
      simpa using hnd) (by omega)
    simp only [List.map_cons, List.foldlM_cons, h1, Option.bind_eq_bind, Option.bind_some,
      Option.pure_def, hupd] at h2 ⊢
    rw [h2]; simp

/-- `distance_to_node(c)` on a mirror whose neighbour lists follow the tree `R` rooted at `c` -/
theorem distanceToNode_nb {ft : FTree} {R : RTree} (h : NbP ft none R) (hnd : (ids R).Nodup)
    (hf : (ids R).length ≤ ft.fuel) : ft.distanceToNode R.rid = some (depths 0 R) := by
  cases R with
  | node c ks =>
    obtain ⟨g, hg, hnb⟩ := h.self
    simp only [NbEntry] at hnb
    have hnd' : (c :: idsL ks).Nodup := by simpa using hnd
    have := (distRecF_nb ft).2 ks c (fun k hk => h.kid hk) ft.fuel [(c, 0)]
      (by simpa using hnd') (by simp at hf; omega)
    simp only [rid, FTree.distanceToNode, hg, hnb, Option.bind_eq_bind, Option.bind_some]
    simp only [Option.bind_eq_bind] at this
    rw [this]; simp

theorem subtreesPL_append (p : Option Nat) (l1 l2 : List RTree) :
    subtreesPL p (l1 ++ l2) = subtreesPL p l1 ++ subtreesPL p l2 := by
  induction l1 with
  | nil => simp
  | cons t ts ih => simp [ih]

theorem erase_middle {a : Nat} {l1 l2 : List Nat} (h : a ∉ l1) :
    (l1 ++ a :: l2).erase a = l1 ++ l2 := by
  rw [List.erase_append_right _ h, List.erase_cons_head]

theorem KidsP.kid' {ft : FTree} {p0 : Option Nat} {s : RTree} (h : KidsP ft p0 s) {k : RTree}
    (hk : k ∈ s.kids) : KidsP ft (some s.rid) k := by
  cases s with
  | node i ks => exact h.kid (by simpa [kids] using hk)

/-- the re-rooted tree is a tree of neighbour lists of the mirror of the original tree -/
theorem reroot_nbP (ft : FTree) (c : Nat) :
    (∀ t0, ∀ up R, reroot c up t0 = some R →
      (∃ par, ft.get? t0.rid = some ⟨par, t0.kids.map rid⟩ ∧ par.toList = up.map rid) →
      (∀ u ∈ up, NbP ft (some t0.rid) u) → (∀ k ∈ t0.kids, KidsP ft (some t0.rid) k) →
      (ids t0).Nodup → (∀ u ∈ up, u.rid ∉ ids t0) → NbP ft none R) ∧
    (∀ ks, ∀ i up pre R, rerootL c i up pre ks = some R →
      (∃ par, ft.get? i = some ⟨par, (pre ++ ks).map rid⟩ ∧ par.toList = up.map rid) →
      (∀ u ∈ up, NbP ft (some i) u) → (∀ k ∈ pre ++ ks, KidsP ft (some i) k) →
      (i :: idsL (pre ++ ks)).Nodup → (∀ u ∈ up, u.rid ∉ i :: idsL (pre ++ ks)) →
      NbP ft none R) := by
  apply induct
  · intro i ks ih up R hR hent hup hkids hnd hupr
    rw [reroot_node] at hR
    simp only [rid, kids] at hent hup hkids
    by_cases hic : i = c
    · simp [hic] at hR; subst hR
      obtain ⟨par, hg, hpar⟩ := hent
      intro e he
      simp only [subtreesP_node, List.mem_cons] at he
      rcases he with rfl | he
      · refine ⟨_, by simpa [rid, hic] using hg, ?_⟩
        simp [NbEntry, GNode.neighbours, kids, hpar]
      · rw [subtreesPL_append, List.mem_append] at he
        rcases he with he | he
        · obtain ⟨u, hu, heu⟩ := mem_subtreesPL.mp he
          exact hup u hu e (hic ▸ heu)
        · obtain ⟨k, hk, hek⟩ := mem_subtreesPL.mp he
          exact (hkids k hk).nbP e (hic ▸ hek)
    · simp [hic] at hR
      exact ih i up [] R hR (by simpa using hent) hup (by simpa using hkids) (by simpa using hnd)
        (by simpa using hupr)
  · intro i up pre R hR; simp at hR
  · intro k post ihk ihpost i up pre R hR hent hup hkids hnd hupr
    rcases rerootL_cons_cases c i up pre k post with ⟨R', h1, h2⟩ | ⟨h1, h2⟩
    · rw [h2] at hR; simp at hR; subst hR
      obtain ⟨par, hg, hpar⟩ := hent
      have hkmem : k ∈ pre ++ k :: post := by simp
      have hkP := hkids k hkmem
      have hndl := List.nodup_cons.mp hnd
      have hsubl : (ids k).Sublist (idsL (pre ++ k :: post)) := by
        rw [idsL_append, idsL_cons]
        exact (List.sublist_append_left _ _).trans (List.sublist_append_right _ _)
      have hndk : (ids k).Nodup := hsubl.nodup hndl.2
      have hik : i ∉ ids k := fun hin => hndl.1 (hsubl.subset hin)
      have hridsnd := rids_nodup hndl.2
      -- the identifier of k is neither that of the parent of i nor that of an earlier child
      have hk_up : k.rid ∉ up.map rid := by
        intro hm
        obtain ⟨u, hu, e⟩ := List.mem_map.mp hm
        apply hupr u hu
        rw [e]
        simp only [List.mem_cons, idsL_append, idsL_cons, List.mem_append]
        exact Or.inr (Or.inr (Or.inl (rid_mem_ids k)))
      have hk_pre : k.rid ∉ pre.map rid := by
        intro hm
        rw [List.map_append, List.map_cons, List.nodup_append] at hridsnd
        exact hridsnd.2.2 k.rid hm k.rid (by simp) rfl
      apply ihk [node i (up ++ pre ++ post)] R' h1
      · cases k with
        | node j js =>
          have := hkP.self
          exact ⟨some i, by simpa [rid, kids] using this, by simp [rid]⟩
      · intro u hu
        simp at hu; subst hu
        intro e he
        simp only [subtreesP_node, List.mem_cons] at he
        rcases he with rfl | he
        · refine ⟨_, hg, ?_⟩
          simp only [NbEntry, GNode.neighbours, kids, hpar, List.map_append, List.map_cons]
          refine ⟨by simp, ?_⟩
          have : k.rid ∉ up.map rid ++ pre.map rid := by
            simp only [List.mem_append, not_or]; exact ⟨hk_up, hk_pre⟩
          have e1 : up.map rid ++ (pre.map rid ++ k.rid :: post.map rid)
              = (up.map rid ++ pre.map rid) ++ k.rid :: post.map rid := by simp
          rw [e1, erase_middle this]; simp
        · have he' : e ∈ subtreesPL (some i) up ∨ e ∈ subtreesPL (some i) pre ∨
              e ∈ subtreesPL (some i) post := by
            simpa [subtreesPL_append, or_assoc] using he
          rcases he' with he | he | he
          · obtain ⟨u, hu, heu⟩ := mem_subtreesPL.mp he
            exact hup u hu e heu
          · obtain ⟨k', hk', hek⟩ := mem_subtreesPL.mp he
            exact (hkids k' (by simp [hk'])).nbP e hek
          · obtain ⟨k', hk', hek⟩ := mem_subtreesPL.mp he
            exact (hkids k' (by simp [hk'])).nbP e hek
      · intro k' hk'
        exact hkP.kid' hk'
      · exact hndk
      · intro u hu
        rw [List.mem_singleton] at hu; subst hu
        simpa [rid] using hik
    · rw [h2] at hR
      exact ihpost i up (pre ++ [k]) R hR (by simpa using hent) hup (by simpa using hkids)
        (by simpa using hnd) (by simpa using hupr)

/-- **`distance_to_node(c)`** for an arbitrary centre: the flat port returns the depth table of the
    tree re-rooted at `c`, in the same order. -/
theorem flat_distance_eq_struct (ft : FTree) (t : RTree) (h : Mirror ft t) (c : Nat) :
    ft.distanceToNode c = distanceToNode t c := by
  by_cases hc : c ∈ ids t
  · obtain ⟨R, hR⟩ := (reroot_isSome c).1 t [] hc
    obtain ⟨hrid, hperm, _⟩ := (reroot_spec c).1 t [] R hR
    simp only [idsL_nil, List.nil_append] at hperm
    have hnb : NbP ft none R := by
      apply (reroot_nbP ft c).1 t [] R hR
      · cases t with
        | node r ks => exact ⟨none, by simpa [rid, kids] using h.kidsP.self, by simp⟩
      · simp
      · intro k hk; exact h.kidsP.kid' hk
      · exact h.2.2
      · simp
    have := distanceToNode_nb hnb (hperm.symm.nodup h.2.2)
      (by rw [h.fuel_eq, hperm.length_eq]; omega)
    rw [hrid] at this
    simp [this, distanceToNode, hR]
  · have h1 : ft.get? c = none := h.get_none hc
    have h2 : reroot c [] t = none := by
      cases hr : reroot c [] t with
      | none => rfl
      | some R =>
        obtain ⟨hrid, hperm, _⟩ := (reroot_spec c).1 t [] R hr
        simp only [idsL_nil, List.nil_append] at hperm
        exact absurd (hperm.subset (hrid ▸ rid_mem_ids R)) hc
    simp [FTree.distanceToNode, h1, distanceToNode, h2]

end Ptn.C17
