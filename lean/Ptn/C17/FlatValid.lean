import Ptn.C17.Flat
/-! The driver's decision procedure `FTree.toRTree` is sound for `Mirror`: whenever it accepts a
flat mirror and returns `t`, the mirror is a valid flat representation of `t`. -/
namespace Ptn.C17
open RTree

/-- pigeonhole: a duplicate-free list contained in a list that is not longer is a rearrangement -/
theorem perm_of_nodup_subset_length {α : Type} [DecidableEq α] : ∀ {l1 l2 : List α}, l1.Nodup →
    (∀ x ∈ l1, x ∈ l2) → l2.length ≤ l1.length → l1.Perm l2
  | [], l2, _, _, hl => by
    have : l2 = [] := List.length_eq_zero_iff.mp (by simpa using hl)
    subst this; exact List.Perm.refl _
  | a :: l1, l2, hnd, hsub, hl => by
    have hnd' := List.nodup_cons.mp hnd
    have ha : a ∈ l2 := hsub a (by simp)
    have hsub' : ∀ x ∈ l1, x ∈ l2.erase a := by
      intro x hx
      have hxa : x ≠ a := fun e => hnd'.1 (e ▸ hx)
      exact (List.mem_erase_of_ne hxa).mpr (hsub x (by simp [hx]))
    have hlen : (l2.erase a).length ≤ l1.length := by
      rw [List.length_erase_of_mem ha]; simp at hl; omega
    have ih := perm_of_nodup_subset_length hnd'.2 hsub' hlen
    exact (List.Perm.cons a ih).trans (List.perm_cons_erase ha).symm

theorem mapM_some_mem {α β : Type} {g : α → Option β} : ∀ {l : List α} {ks : List β},
    l.mapM g = some ks → ∀ k ∈ ks, ∃ c ∈ l, g c = some k
  | [], ks, h, k, hk => by simp at h; subst h; simp at hk
  | a :: l, ks, h, k, hk => by
    rw [List.mapM_cons] at h
    cases ha : g a with
    | none => simp [ha] at h
    | some b =>
      cases hl : l.mapM g with
      | none => simp [ha, hl] at h
      | some bs =>
        simp [ha, hl] at h; subst h
        rcases List.mem_cons.mp hk with rfl | hk
        · exact ⟨a, by simp, ha⟩
        · obtain ⟨c, hc, hg⟩ := mapM_some_mem hl k hk
          exact ⟨c, by simp [hc], hg⟩

theorem mem_idsL_iff {y : Nat} : ∀ {ks : List RTree}, y ∈ idsL ks ↔ ∃ k ∈ ks, y ∈ ids k
  | [] => by simp
  | k :: ks => by simp [mem_idsL_iff (ks := ks)]

/-- every node of the tree built from a flat mirror was found in the mirror -/
theorem buildF_keys (ft : FTree) : ∀ (f x : Nat) (t : RTree), ft.buildF f x = some t →
    t.rid = x ∧ ∀ y ∈ ids t, y ∈ ft.nodes.map (·.1)
  | 0, x, t, h => by simp [FTree.buildF] at h
  | f + 1, x, t, h => by
    simp only [FTree.buildF, Option.bind_eq_bind] at h
    cases hn : ft.get? x with
    | none => simp [hn] at h
    | some n =>
      cases hks : n.children.mapM (ft.buildF f) with
      | none => simp [hn, hks] at h
      | some ks =>
        simp [hn, hks] at h; subst h
        refine ⟨rfl, ?_⟩
        intro y hy
        simp only [ids_node, List.mem_cons] at hy
        rcases hy with rfl | hy
        · -- the looked-up key is a key
          simp only [FTree.get?] at hn
          have := List.lookup_eq_some_iff.mp hn
          obtain ⟨l1, l2, e, _⟩ := this
          rw [e]; simp
        · obtain ⟨k, hk, hyk⟩ := mem_idsL_iff.mp hy
          obtain ⟨c, _, hc⟩ := mapM_some_mem hks k hk
          exact (buildF_keys ft f c k hc).2 y hyk

/-- **Soundness of the driver's validity check.** -/
theorem toRTree_mirror (ft : FTree) (t : RTree) (h : ft.toRTree = some t) : Mirror ft t := by
  simp only [FTree.toRTree, Option.bind_eq_bind] at h
  cases hr : ft.root with
  | none => simp [hr] at h
  | some r =>
    cases hb : ft.buildF ft.fuel r with
    | none => simp [hr, hb] at h
    | some t' =>
      simp only [hr, hb, Option.bind_some] at h
      split at h
      · rename_i hcond
        simp at h; subst h
        simp only [Bool.and_eq_true, beq_iff_eq, List.all_eq_true, decide_eq_true_eq] at hcond
        obtain ⟨⟨hlen, hall⟩, hcount⟩ := hcond
        obtain ⟨hrid, hkeys⟩ := buildF_keys ft ft.fuel r t' hb
        have hwf : t'.WF := by
          rw [WF, List.nodup_iff_count]
          intro a
          by_cases ha : a ∈ ids t'
          · have := hcount a ha; omega
          · rw [List.count_eq_zero_of_not_mem ha]; omega
        have hflen : (flatten t').nodes.length = (ids t').length := by
          simp only [flatten]
          rw [← flatten_keys.1 t' none]; simp
        -- keys of ft are the ids
        have hkperm : (ids t').Perm (ft.nodes.map (·.1)) :=
          perm_of_nodup_subset_length hwf hkeys (by simp; omega)
        have hknd : (ft.nodes.map (·.1)).Nodup := hkperm.nodup hwf
        have hnd : ft.nodes.Nodup := by
          rw [List.nodup_iff_pairwise_ne] at hknd ⊢
          exact (List.pairwise_map.mp hknd).imp (fun hne e => hne (by rw [e]))
        have hsub : ∀ e ∈ ft.nodes, e ∈ flattenAux none t' := by
          intro e he
          have := hall e he
          simp only [flatten] at this
          have := List.lookup_eq_some_iff.mp this
          obtain ⟨l1, l2, e', _⟩ := this
          rw [e']; simp
        refine ⟨perm_of_nodup_subset_length hnd hsub (by simp only [flatten] at hlen; omega),
          by rw [hrid]; exact hr, hwf⟩
      · simp at h

end Ptn.C17
