import Ptn.C17.SegHop
import Ptn.C17.Contig
/-! The steps of the two sweeps inside a subtree. -/
namespace Ptn.C17
namespace RTree

theorem mem_ids_of_sweepUp {s : Nat} {k : RTree} {q : List Nat} (h : sweepUp s k = some q) :
    ∀ y ∈ q, y ∈ ids k := fun y hy => (((sweepUp_spec s).1 k).1 q h).1.subset hy

theorem mem_ids_of_sweepDown {f : Nat} {k : RTree} {q : List Nat} (h : sweepDown f k = some q) :
    ∀ y ∈ q, y ∈ ids k := fun y hy => (((sweepDown_spec f).1 k).1 q h).1.subset hy

/-- in the upward sweep no node is followed by one of its descendants -/
theorem sweepUp_notAnc (s : Nat) :
    (∀ k q, sweepUp s k = some q → (ids k).Nodup → Chain (NotAnc k) q) ∧
    (∀ ks r pre q, sweepUpL s r pre ks = some q → (r :: (idsL pre ++ idsL ks)).Nodup →
      Chain (NotAnc (node r (pre ++ ks))) q) := by
  apply induct
  · intro r ks ih q hq hnd
    rw [sweepUp_node] at hq
    by_cases hrs : r = s
    · simp [hrs] at hq; subst hq
      have := postorder_notAnc.1 (node r ks) hnd
      simpa [hrs] using this
    · simp [hrs] at hq
      simpa using ih r [] q hq (by simpa using hnd)
  · intro r pre q hq; simp at hq
  · intro k post ihk ihpost r pre q hq hnd
    rcases sweepUpL_cons_cases s r pre k post with ⟨q0, h1, h2⟩ | ⟨h1, h2⟩
    · rw [h2] at hq; simp only [Option.some.injEq] at hq; subst hq
      have hT : (r :: idsL (pre ++ k :: post)).Nodup := by simpa [idsL_append] using hnd
      have hndc := List.nodup_cons.mp hT
      have hkmem : k ∈ pre ++ k :: post := by simp
      have hsub : ∀ k' ∈ pre ++ post, k' ∈ pre ++ k :: post := by
        intro k' hk'; simp at hk' ⊢; rcases hk' with h | h
        · exact Or.inl h
        · exact Or.inr (Or.inr h)
      simp only [idsL_cons, List.nodup_cons, List.nodup_append, List.mem_append] at hnd
      have hndpp : (idsL (pre ++ post)).Nodup := by
        rw [idsL_append, List.nodup_append]
        exact ⟨hnd.2.1, hnd.2.2.1.2.1, fun a ha b hb => hnd.2.2.2 a ha b (Or.inr hb)⟩
      have hq0 := mem_ids_of_sweepUp h1
      have hne_r : ∀ y ∈ idsL (pre ++ k :: post), y ≠ r := fun y hy e => hndc.1 (e ▸ hy)
      have hk_r : ∀ y ∈ ids k, y ≠ r := fun y hy => hne_r y (ids_subset_idsL hkmem y hy)
      have hpp_r : ∀ y ∈ idsL (pre ++ post), y ≠ r := by
        intro y hy
        obtain ⟨k', hk', hyk⟩ := exists_kid_of_mem_idsL hy
        exact hne_r y (ids_subset_idsL (hsub k' hk') y hyk)
      have hdisj : ∀ y ∈ ids k, y ∉ idsL (pre ++ post) := by
        intro y hy hyp
        rw [idsL_append, List.mem_append] at hyp
        rcases hyp with h | h
        · exact hnd.2.2.2 y h y (Or.inl hy) rfl
        · exact hnd.2.2.1.2.2 y hy y h rfl
      rw [List.append_assoc]
      apply chain_append
      · apply chain_mono_mem _ (ihk q0 h1 hnd.2.2.1.1)
        intro a ha b hb hab
        exact notAnc_kid hT hkmem (hq0 b hb) (hk_r a (hq0 a ha)) hab
      · apply chain_append
        · apply chain_mono_mem _ (postorder_notAnc.2 (pre ++ post) hndpp)
          intro a ha b hb hab
          have ha' := mem_idsL_of_mem_postorderL ha
          have hb' := mem_idsL_of_mem_postorderL hb
          exact notAnc_forest hT hsub hndpp hb' (hpp_r a ha') hab
        · simp [Chain]
        · intro y hy z hz
          simp at hz; subst hz
          exact notAnc_root (hpp_r y (mem_idsL_of_mem_postorderL hy))
      · intro y hy z hz
        rcases List.mem_append.mp hz with hz | hz
        · have hz' := mem_idsL_of_mem_postorderL hz
          exact notAnc_forest_cross hT hsub hz' (hk_r y (hq0 y hy)) (hdisj y (hq0 y hy))
        · simp at hz; subst hz
          exact notAnc_root (hk_r y (hq0 y hy))
    · rw [h2] at hq
      have := ihpost r (pre ++ [k]) q hq (by simpa [idsL_append] using hnd)
      simpa using this

/-- every step of the downward sweep toward `f` is a good step -/
theorem sweepDown_stepOK (f : Nat) :
    (∀ k q, sweepDown f k = some q → (ids k).Nodup → Chain (StepOK k f) q) ∧
    (∀ ks x pre q, sweepDownL f x pre ks = some q → (x :: (idsL pre ++ idsL ks)).Nodup →
      Chain (StepOK (node x (pre ++ ks)) f) q) := by
  apply induct
  · intro x ks ih q hq hnd
    rw [sweepDown_node] at hq
    by_cases hxf : x = f
    · subst hxf
      simp at hq; subst hq
      have hT : (x :: idsL ks).Nodup := by simpa using hnd
      have hc := postorder_notAnc.1 (node x ks) hnd
      simp only [postorder_node] at hc
      apply chain_mono_mem _ hc
      intro a ha b hb hab
      refine Or.inl ⟨hab, ?_⟩
      intro p hp
      simp at hp; subst hp
      -- the root is above every node, so `a` (which is above nothing that follows) is not the root
      intro hax
      simp at hax; subst hax
      have hb' : b ∈ ids (node a ks) := by
        have := (postorder_perm.1 (node a ks)).subset (by simpa using hb)
        exact this
      obtain ⟨pb, hpb⟩ := pathDown_some_of_mem hb'
      have hh := ((pathDown_ends b).1 _ pb hpb).1
      exact hab pb hpb (by simpa [rid] using List.mem_of_head? hh)
    · simp [hxf] at hq
      simpa using ih x [] q hq (by simpa using hnd)
  · intro x pre q hq; simp at hq
  · intro k post ihk ihpost x pre q hq hnd
    rcases sweepDownL_cons_cases f x pre k post with ⟨q0, h1, h2⟩ | ⟨h1, h2⟩
    · rw [h2] at hq; simp only [Option.some.injEq] at hq; subst hq
      have hT : (x :: idsL (pre ++ k :: post)).Nodup := by simpa [idsL_append] using hnd
      have hwfT : (node x (pre ++ k :: post)).WF := by simpa [WF] using hT
      have hndc := List.nodup_cons.mp hT
      have hkmem : k ∈ pre ++ k :: post := by simp
      have hsub : ∀ k' ∈ pre ++ post, k' ∈ pre ++ k :: post := by
        intro k' hk'; simp at hk' ⊢; rcases hk' with h | h
        · exact Or.inl h
        · exact Or.inr (Or.inr h)
      simp only [idsL_cons, List.nodup_cons, List.nodup_append, List.mem_append] at hnd
      have hndpp : (idsL (pre ++ post)).Nodup := by
        rw [idsL_append, List.nodup_append]
        exact ⟨hnd.2.1, hnd.2.2.1.2.1, fun a ha b hb => hnd.2.2.2 a ha b (Or.inr hb)⟩
      have hq0 := mem_ids_of_sweepDown h1
      have hfk : f ∈ ids k := (((sweepDown_spec f).1 k).1 q0 h1).2.1
      have hne_x : ∀ y ∈ idsL (pre ++ k :: post), y ≠ x := fun y hy e => hndc.1 (e ▸ hy)
      have hk_x : ∀ y ∈ ids k, y ≠ x := fun y hy => hne_x y (ids_subset_idsL hkmem y hy)
      have hpp_x : ∀ y ∈ idsL (pre ++ post), y ≠ x := by
        intro y hy
        obtain ⟨k', hk', hyk⟩ := exists_kid_of_mem_idsL hy
        exact hne_x y (ids_subset_idsL (hsub k' hk') y hyk)
      have hdisj : ∀ y ∈ idsL (pre ++ post), y ∉ ids k := by
        intro y hyp hy
        rw [idsL_append, List.mem_append] at hyp
        rcases hyp with h | h
        · exact hnd.2.2.2 y h y (Or.inl hy) rfl
        · exact hnd.2.2.1.2.2 y hy y h rfl
      -- nodes of the other branches are above neither their successor nor f
      have hoff : ∀ y ∈ idsL (pre ++ post), NotAnc (node x (pre ++ k :: post)) y f := by
        intro y hy
        exact notAnc_forest_cross hT (fs := [k]) (by simpa using hkmem) (by simpa using hfk)
          (hpp_x y hy) (by simpa using hdisj y hy)
      -- the root of this subtree is above every node of the branch toward f, through k
      have hdown : ∀ z ∈ ids k, StepOK (node x (pre ++ k :: post)) f x z := by
        intro z hz
        obtain ⟨qz, _, hpz⟩ := pathDown_via_kid hwfT hkmem hz
        obtain ⟨qf, _, hpf⟩ := pathDown_via_kid hwfT hkmem hfk
        exact Or.inr ⟨k.rid, [], qz, [], qf, by simpa using hpz, by simpa using hpf⟩
      rw [List.append_assoc]
      apply chain_append
      · apply chain_mono_mem _ (postorder_notAnc.2 (pre ++ post) hndpp)
        intro a ha b hb hab
        have ha' := mem_idsL_of_mem_postorderL ha
        have hb' := mem_idsL_of_mem_postorderL hb
        exact Or.inl ⟨notAnc_forest hT hsub hndpp hb' (hpp_x a ha') hab, hoff a ha'⟩
      · apply chain_append (l1 := [x])
        · simp [Chain]
        · apply chain_mono_mem _ (ihk q0 h1 hnd.2.2.1.1)
          intro a ha b hb hab
          exact stepOK_kid hT hkmem hfk (hq0 a ha) (hq0 b hb) hab
        · intro y hy z hz
          simp at hy; subst hy
          exact hdown z (hq0 z hz)
      · intro y hy z hz
        have hy' := mem_idsL_of_mem_postorderL hy
        rcases List.mem_cons.mp hz with hz | hz
        · subst hz
          exact Or.inl ⟨notAnc_root (hpp_x y hy'), hoff y hy'⟩
        · refine Or.inl ⟨?_, hoff y hy'⟩
          exact notAnc_forest_cross hT (fs := [k]) (by simpa using hkmem)
            (by simpa using hq0 z hz) (hpp_x y hy') (by simpa using hdisj y hy')
    · rw [h2] at hq
      have := ihpost x (pre ++ [k]) q hq (by simpa [idsL_append] using hnd)
      simpa using this

end RTree
end Ptn.C17
