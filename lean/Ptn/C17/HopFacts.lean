import Ptn.C17.DistTree
/-! Facts about first hops used by the cache-freshness discipline (C05). -/
namespace Ptn.C17
open RTree

theorem adj_mem {t : RTree} {a b : Nat} (h : Adj t a b) : a ∈ ids t ∧ b ∈ ids t := by
  rcases h with h | h
  · exact edge_mem_ids h
  · exact ⟨(edge_mem_ids h).2, (edge_mem_ids h).1⟩

theorem adj_ne {t : RTree} (hwf : t.WF) {a b : Nat} (h : Adj t a b) : a ≠ b := by
  rcases h with h | h
  · exact edge_ne hwf h
  · exact fun e => edge_ne hwf h e.symm

/-- the way between neighbours is the edge -/
theorem pathFromTo_adj {t : RTree} (hwf : t.WF) {a b : Nat} (h : Adj t a b) :
    pathFromTo t a b = some [a, b] := by
  apply simple_path_eq_pathFromTo hwf
  have hm := adj_mem h
  exact ⟨by simp, by simp, by intro x hx; simp at hx; rcases hx with rfl | rfl <;> simp [hm],
    by simp [Chain, h], by simp [adj_ne hwf h]⟩

/-- **Fact 1**: the first hop toward a neighbour is that neighbour. -/
theorem firstHop_adj {t : RTree} (hwf : t.WF) {a b : Nat} (h : Adj t a b) :
    firstHop t a b = some b := by
  simp [firstHop, pathFromTo_adj hwf h]

/-- the way from `x` to a different node has at least two nodes, starting `x, firstHop, …` -/
theorem pathFromTo_cons_cons {t : RTree} (hwf : t.WF) {x v : Nat} (hx : x ∈ ids t) (hv : v ∈ ids t)
    (hne : x ≠ v) : ∃ h rest, pathFromTo t x v = some (x :: h :: rest) ∧ firstHop t x v = some h := by
  obtain ⟨q, hq, h1, h2, _, _, _⟩ := pathFromTo_isSimplePath hwf hx hv
  cases q with
  | nil => simp at h1
  | cons y l =>
    simp at h1; subst h1
    cases l with
    | nil => simp at h2; exact absurd h2 hne
    | cons h rest => exact ⟨h, rest, hq, by simp [firstHop, hq]⟩

/-- **Fact 2**: a block pointing toward `v` does not point away from `v`: if `h` is the first hop
    from `x` to `v`, then `x` is not the first hop from `h` to `v`. -/
theorem toward_not_back {t : RTree} (hwf : t.WF) {x v h : Nat} (hx : x ∈ ids t) (hv : v ∈ ids t)
    (hne : x ≠ v) (hh : firstHop t x v = some h) : firstHop t h v ≠ some x := by
  obtain ⟨h', rest, hp, hh'⟩ := pathFromTo_cons_cons hwf hx hv hne
  rw [hh] at hh'; simp at hh'; subst hh'
  obtain ⟨htail, _, hhm⟩ := pathFromTo_tail hwf hx hv hp
  intro hback
  have hnd' : (x :: h :: rest).Nodup := by
    obtain ⟨q, hq, hs⟩ := pathFromTo_isSimplePath hwf hx hv
    rw [hp] at hq; simp at hq; subst hq; exact hs.2.2.2.2
  simp only [firstHop, htail, Option.bind_some] at hback
  cases rest with
  | nil => simp at hback
  | cons y l =>
    simp at hback
    subst hback
    simp at hnd'

/-- **Fact 3**: for neighbours `a`, `b` and a third node `x` the first hops from `x` toward `a` and
    toward `b` coincide. -/
theorem firstHop_adj_same {t : RTree} (hwf : t.WF) {a b x : Nat} (hab : Adj t a b)
    (hx : x ∈ ids t) (hxa : x ≠ a) (hxb : x ≠ b) : firstHop t x b = firstHop t x a := by
  have hm := adj_mem hab
  -- look from a toward x
  obtain ⟨v, rest, hp, _⟩ := pathFromTo_cons_cons hwf hm.1 hx (Ne.symm hxa)
  by_cases hbv : b = v
  · -- b is the first hop from a to x: the way from b to x is the rest
    subst hbv
    obtain ⟨htail, _, _⟩ := pathFromTo_tail hwf hm.1 hx hp
    have r1 := pathFromTo_reverse hwf hm.1 hx hp
    have r2 := pathFromTo_reverse hwf hm.2 hx htail
    cases hr : rest.reverse with
    | nil =>
      have : rest = [] := by simpa using hr
      subst this
      -- then the way from b to x is [b], i.e. x = b
      obtain ⟨q, hq, hs⟩ := pathFromTo_isSimplePath hwf hm.2 hx
      rw [htail] at hq; simp at hq; subst hq
      have := hs.2.1
      simp at this
      exact absurd this.symm hxb
    | cons y l =>
      simp only [List.reverse_cons, hr] at r1 r2
      simp [firstHop, r1, r2]
      cases l <;> simp
  · -- otherwise b reaches x through a
    have hvia := pathFromTo_via hwf hm.1 hx hp hab hbv
    have r1 := pathFromTo_reverse hwf hm.1 hx hp
    have r2 := pathFromTo_reverse hwf hm.2 hx hvia
    simp only [List.reverse_cons] at r1 r2
    cases hr : rest.reverse with
    | nil =>
      simp [firstHop, r1, r2, hr]
    | cons y l =>
      simp [firstHop, r1, r2, hr]
      cases l <;> simp

end Ptn.C17
