import Ptn.C17.Subtree
import Ptn.C17.Unique
/-! The TDVP update path: `argmaxFirst`, the sweeps, and the step at the root. -/
namespace Ptn.C17

/-! ### `max(d, key=d.get)` -/

theorem argmaxGo_spec : ∀ (rest : List (Nat × Nat)) (bk bv : Nat),
    ∃ v, ((argmaxGo bk bv rest, v) = (bk, bv) ∨ (argmaxGo bk bv rest, v) ∈ rest) ∧ bv ≤ v ∧
      ∀ e ∈ rest, e.2 ≤ v
  | [], bk, bv => ⟨bv, by simp [argmaxGo]⟩
  | (k, w) :: rest, bk, bv => by
    by_cases h : bv < w
    · obtain ⟨v, h1, h2, h3⟩ := argmaxGo_spec rest k w
      refine ⟨v, ?_, by omega, ?_⟩
      · simp only [argmaxGo, h, if_true]
        rcases h1 with h1 | h1
        · right; simp [h1]
        · right; simp [h1]
      · intro e he
        simp at he
        rcases he with rfl | he
        · exact h2
        · exact h3 e he
    · obtain ⟨v, h1, h2, h3⟩ := argmaxGo_spec rest bk bv
      refine ⟨v, ?_, h2, ?_⟩
      · simp only [argmaxGo, h, if_false]
        rcases h1 with h1 | h1
        · left; exact h1
        · right; simp [h1]
      · intro e he
        simp at he
        rcases he with rfl | he
        · simp; omega
        · exact h3 e he

/-- `max(d, key=d.get)` returns a key of `d` whose value is maximal. -/
theorem argmaxFirst_spec {l : List (Nat × Nat)} {k : Nat} (h : argmaxFirst l = some k) :
    ∃ v, (k, v) ∈ l ∧ ∀ e ∈ l, e.2 ≤ v := by
  cases l with
  | nil => simp [argmaxFirst] at h
  | cons e rest =>
    obtain ⟨k0, v0⟩ := e
    simp only [argmaxFirst, Option.some.injEq] at h
    subst h
    obtain ⟨v, h1, h2, h3⟩ := argmaxGo_spec rest k0 v0
    refine ⟨v, ?_, ?_⟩
    · rcases h1 with h1 | h1
      · simp [h1]
      · simp [h1]
    · intro e he
      simp at he
      rcases he with rfl | he
      · exact h2
      · exact h3 e he

theorem argmaxFirst_isSome {l : List (Nat × Nat)} (h : l ≠ []) : ∃ k, argmaxFirst l = some k := by
  cases l with
  | nil => exact absurd rfl h
  | cons e rest => obtain ⟨k0, v0⟩ := e; exact ⟨argmaxGo k0 v0 rest, by simp [argmaxFirst]⟩

namespace RTree

/-! ### The sweeps inside a subtree -/

theorem sweepUp_node (s r : Nat) (ks : List RTree) :
    sweepUp s (node r ks) = if r = s then some (postorderL ks ++ [r]) else sweepUpL s r [] ks := by
  simp [sweepUp]
@[simp] theorem sweepUpL_nil (s r : Nat) (pre : List RTree) : sweepUpL s r pre [] = none := by
  simp [sweepUpL]

theorem sweepUpL_cons_cases (s r : Nat) (pre : List RTree) (k : RTree) (post : List RTree) :
    (∃ p, sweepUp s k = some p ∧
          sweepUpL s r pre (k :: post) = some (p ++ postorderL (pre ++ post) ++ [r])) ∨
    (sweepUp s k = none ∧ sweepUpL s r pre (k :: post) = sweepUpL s r (pre ++ [k]) post) := by
  cases h : sweepUp s k with
  | some p => exact Or.inl ⟨p, rfl, by rw [sweepUpL]; simp only [h]⟩
  | none => exact Or.inr ⟨rfl, by rw [sweepUpL]; simp only [h]⟩

theorem sweepUp_spec (s : Nat) :
    (∀ k, (∀ p, sweepUp s k = some p →
        p.Perm (ids k) ∧ s ∈ ids k ∧ ((∀ e ∈ edges k, e.1 ≠ s) → p.head? = some s)) ∧
      (sweepUp s k = none → s ∉ ids k)) ∧
    (∀ ks r pre, (∀ p, sweepUpL s r pre ks = some p →
        p.Perm (r :: idsL pre ++ idsL ks) ∧ s ∈ idsL ks ∧
          ((∀ e ∈ edgesL r ks, e.1 ≠ s) → p.head? = some s)) ∧
      (sweepUpL s r pre ks = none → s ∉ idsL ks)) := by
  apply induct
  · intro r ks ih
    rw [sweepUp_node]
    by_cases hrs : r = s
    · subst hrs
      simp only [if_true, Option.some.injEq, reduceCtorEq, false_imp_iff, and_true]
      intro p hp; subst hp
      refine ⟨?_, by simp, ?_⟩
      · simp only [ids_node]
        exact (List.perm_append_comm).trans (by simpa using postorder_perm.2 ks)
      · intro hleaf
        cases ks with
        | nil => simp
        | cons k ks' => exact absurd rfl (hleaf (r, k.rid) (by simp))
    · simp only [hrs, if_false]
      have := ih r []
      constructor
      · intro p hp
        obtain ⟨h1, h2, h3⟩ := this.1 p hp
        exact ⟨by simpa using h1, by simp [h2], by simpa using h3⟩
      · intro hn
        have := this.2 hn
        simp only [ids_node, List.mem_cons, not_or]
        exact ⟨fun e => hrs e.symm, this⟩
  · intro r pre; simp
  · intro k post ihk ihpost r pre
    rcases sweepUpL_cons_cases s r pre k post with ⟨p0, h1, h2⟩ | ⟨h1, h2⟩
    · rw [h2]
      simp only [Option.some.injEq, reduceCtorEq, false_imp_iff, and_true]
      intro p hp; subst hp
      obtain ⟨e1, e2, e3⟩ := ihk.1 p0 h1
      refine ⟨?_, by simp [e2], ?_⟩
      · apply List.perm_iff_count.mpr
        intro a
        have c1 := e1.count_eq a
        have c2 := (postorder_perm.2 (pre ++ post)).count_eq a
        simp only [List.count_append, List.count_cons, idsL_append, idsL_cons,
          List.count_nil] at c1 c2 ⊢
        omega
      · intro hleaf
        have := e3 (fun e he => hleaf e (by simp [he]))
        cases p0 with
        | nil => simp at this
        | cons y l => simpa using this
    · rw [h2]
      have hk := ihk.2 h1
      have := ihpost r (pre ++ [k])
      constructor
      · intro p hp
        obtain ⟨e1, e2, e3⟩ := this.1 p hp
        refine ⟨?_, by simp [e2], fun hleaf => e3 (fun e he => hleaf e (by simp [he]))⟩
        refine e1.trans ?_
        simp [idsL_append]
      · intro hn
        have := this.2 hn
        simp only [idsL_cons, List.mem_append, not_or]
        exact ⟨hk, this⟩

theorem sweepDown_node (f x : Nat) (ks : List RTree) :
    sweepDown f (node x ks) =
      if x = f then some (postorderL ks ++ [x]) else sweepDownL f x [] ks := by
  simp [sweepDown]
@[simp] theorem sweepDownL_nil (f x : Nat) (pre : List RTree) : sweepDownL f x pre [] = none := by
  simp [sweepDownL]

theorem sweepDownL_cons_cases (f x : Nat) (pre : List RTree) (k : RTree) (post : List RTree) :
    (∃ p, sweepDown f k = some p ∧
          sweepDownL f x pre (k :: post) = some (postorderL (pre ++ post) ++ [x] ++ p)) ∨
    (sweepDown f k = none ∧ sweepDownL f x pre (k :: post) = sweepDownL f x (pre ++ [k]) post) := by
  cases h : sweepDown f k with
  | some p => exact Or.inl ⟨p, rfl, by rw [sweepDownL]; simp only [h]⟩
  | none => exact Or.inr ⟨rfl, by rw [sweepDownL]; simp only [h]⟩

theorem sweepDown_spec (f : Nat) :
    (∀ k, (∀ p, sweepDown f k = some p →
        p.Perm (ids k) ∧ f ∈ ids k ∧ p.getLast? = some f) ∧
      (sweepDown f k = none → f ∉ ids k)) ∧
    (∀ ks x pre, (∀ p, sweepDownL f x pre ks = some p →
        p.Perm (x :: idsL pre ++ idsL ks) ∧ f ∈ idsL ks ∧ p.getLast? = some f) ∧
      (sweepDownL f x pre ks = none → f ∉ idsL ks)) := by
  apply induct
  · intro x ks ih
    rw [sweepDown_node]
    by_cases hxf : x = f
    · subst hxf
      simp only [if_true, Option.some.injEq, reduceCtorEq, false_imp_iff, and_true]
      intro p hp; subst hp
      refine ⟨?_, by simp, by simp⟩
      simp only [ids_node]
      exact (List.perm_append_comm).trans (by simpa using postorder_perm.2 ks)
    · simp only [hxf, if_false]
      have := ih x []
      constructor
      · intro p hp
        obtain ⟨h1, h2, h3⟩ := this.1 p hp
        exact ⟨by simpa using h1, by simp [h2], h3⟩
      · intro hn
        have := this.2 hn
        simp only [ids_node, List.mem_cons, not_or]
        exact ⟨fun e => hxf e.symm, this⟩
  · intro x pre; simp
  · intro k post ihk ihpost x pre
    rcases sweepDownL_cons_cases f x pre k post with ⟨p0, h1, h2⟩ | ⟨h1, h2⟩
    · rw [h2]
      simp only [Option.some.injEq, reduceCtorEq, false_imp_iff, and_true]
      intro p hp; subst hp
      obtain ⟨e1, e2, e3⟩ := ihk.1 p0 h1
      refine ⟨?_, by simp [e2], ?_⟩
      · apply List.perm_iff_count.mpr
        intro a
        have c1 := e1.count_eq a
        have c2 := (postorder_perm.2 (pre ++ post)).count_eq a
        simp only [List.count_append, List.count_cons, idsL_append, idsL_cons,
          List.count_nil] at c1 c2 ⊢
        omega
      · cases p0 with
        | nil => simp at e3
        | cons y l => rw [List.getLast?_append]; simp [e3]
    · rw [h2]
      have hk := ihk.2 h1
      have := ihpost x (pre ++ [k])
      constructor
      · intro p hp
        obtain ⟨e1, e2, e3⟩ := this.1 p hp
        refine ⟨?_, by simp [e2], e3⟩
        refine e1.trans ?_
        simp [idsL_append]
      · intro hn
        have := this.2 hn
        simp only [idsL_cons, List.mem_append, not_or]
        exact ⟨hk, this⟩

end RTree
end Ptn.C17
