import Ptn.C17.Lemmas
/-! Structural lemmas about `RTree`: induction principle, identifiers, edges, root paths. -/
namespace Ptn.C17
namespace RTree

/-- Simultaneous induction over trees and forests. -/
theorem induct {P : RTree → Prop} {Q : List RTree → Prop}
    (hnode : ∀ i ks, Q ks → P (.node i ks)) (hnil : Q [])
    (hcons : ∀ t ts, P t → Q ts → Q (t :: ts)) : (∀ t, P t) ∧ (∀ ts, Q ts) :=
  ⟨fun t => RTree.rec (motive_1 := P) (motive_2 := Q) hnode hnil hcons t,
   fun ts => RTree.rec_1 (motive_1 := P) (motive_2 := Q) hnode hnil hcons ts⟩

/-! ### Chains -/

theorem chain_cons_cons {R : Nat → Nat → Prop} {a b : Nat} {l : List Nat} :
    Chain R (a :: b :: l) ↔ R a b ∧ Chain R (b :: l) := by
  simp [Chain]

theorem chain_mono {R S : Nat → Nat → Prop} (h : ∀ a b, R a b → S a b) :
    ∀ {l : List Nat}, Chain R l → Chain S l
  | [], _ => by simp [Chain]
  | [_], _ => by simp [Chain]
  | a :: b :: l, hc => by
    rw [chain_cons_cons] at hc ⊢
    exact ⟨h _ _ hc.1, chain_mono h hc.2⟩

theorem chain_tail {R : Nat → Nat → Prop} {a : Nat} : ∀ {l : List Nat}, Chain R (a :: l) → Chain R l
  | [], _ => by simp [Chain]
  | _ :: _, hc => (chain_cons_cons.mp hc).2

theorem chain_append_right {R : Nat → Nat → Prop} :
    ∀ {l1 l2 : List Nat}, Chain R (l1 ++ l2) → Chain R l2
  | [], _, h => h
  | _ :: l1, _, h => chain_append_right (l1 := l1) (chain_tail h)

/-- glue two chains that share the element `c` -/
theorem chain_glue {R : Nat → Nat → Prop} {c : Nat} :
    ∀ {l1 l2 : List Nat}, Chain R (l1 ++ [c]) → Chain R (c :: l2) → Chain R (l1 ++ c :: l2)
  | [], _, _, h2 => h2
  | [a], l2, h1, h2 => by
    have : R a c := by simpa [Chain] using h1
    exact chain_cons_cons.mpr ⟨this, h2⟩
  | a :: b :: l1, l2, h1, h2 => by
    have h1' : R a b ∧ Chain R (b :: l1 ++ [c]) := by simpa [Chain] using h1
    have := chain_glue (l1 := b :: l1) h1'.2 h2
    exact chain_cons_cons.mpr ⟨h1'.1, this⟩

theorem chain_snoc {R : Nat → Nat → Prop} {a b : Nat} :
    ∀ {l : List Nat}, Chain R (l ++ [a]) → R a b → Chain R (l ++ [a, b])
  | l, h, hab => by
    have : Chain R (a :: [b]) := by simp [Chain, hab]
    simpa using chain_glue h this

theorem chain_reverse {R : Nat → Nat → Prop} :
    ∀ {l : List Nat}, Chain R l → Chain (fun a b => R b a) l.reverse
  | [], _ => by simp [Chain]
  | [_], _ => by simp [Chain]
  | a :: b :: l, h => by
    have h' := chain_cons_cons.mp h
    have ih := chain_reverse h'.2
    have : (a :: b :: l).reverse = l.reverse ++ [b, a] := by simp
    rw [this]
    apply chain_snoc
    · simpa using ih
    · exact h'.1

/-! ### Identifiers -/

@[simp] theorem ids_node (i : Nat) (ks : List RTree) : ids (node i ks) = i :: idsL ks := by
  simp [ids]
@[simp] theorem idsL_nil : idsL [] = [] := by simp [idsL]
@[simp] theorem idsL_cons (t : RTree) (ts : List RTree) : idsL (t :: ts) = ids t ++ idsL ts := by
  simp [idsL]

theorem idsL_append (l1 l2 : List RTree) : idsL (l1 ++ l2) = idsL l1 ++ idsL l2 := by
  induction l1 with
  | nil => simp
  | cons t ts ih => simp [ih]

theorem rid_mem_ids (t : RTree) : t.rid ∈ ids t := by
  cases t; simp [rid]

theorem ids_eq_rid_cons (t : RTree) : ids t = t.rid :: idsL t.kids := by
  cases t; simp [rid, kids]

/-! ### Root paths -/

@[simp] theorem pathDown_node (a i : Nat) (ks : List RTree) :
    pathDown a (node i ks) = if i = a then some [i] else (pathDownL a ks).map (fun p => i :: p) := by
  simp [pathDown]
@[simp] theorem pathDownL_nil (a : Nat) : pathDownL a [] = none := by simp [pathDownL]
theorem pathDownL_cons_some {a : Nat} {t : RTree} {ts : List RTree} {p : List Nat}
    (h : pathDown a t = some p) : pathDownL a (t :: ts) = some p := by
  simp [pathDownL, h]

theorem pathDownL_cons_none {a : Nat} {t : RTree} {ts : List RTree}
    (h : pathDown a t = none) : pathDownL a (t :: ts) = pathDownL a ts := by
  simp [pathDownL, h]

theorem pathDownL_cons_cases (a : Nat) (t : RTree) (ts : List RTree) :
    (∃ p, pathDown a t = some p ∧ pathDownL a (t :: ts) = some p) ∨
    (pathDown a t = none ∧ pathDownL a (t :: ts) = pathDownL a ts) := by
  cases h : pathDown a t with
  | some p => exact Or.inl ⟨p, rfl, pathDownL_cons_some h⟩
  | none => exact Or.inr ⟨rfl, pathDownL_cons_none h⟩

/-- a root path exists exactly for the nodes of the tree -/
theorem pathDown_isSome_iff (a : Nat) :
    (∀ t, (pathDown a t).isSome ↔ a ∈ ids t) ∧ (∀ ts, (pathDownL a ts).isSome ↔ a ∈ idsL ts) := by
  apply induct
  · intro i ks ih
    by_cases h : i = a
    · simp [h]
    · have h' : ¬ a = i := fun e => h e.symm
      simp [h, h', ih]
  · simp
  · intro t ts iht ihts
    rcases pathDownL_cons_cases a t ts with ⟨p, hp, hL⟩ | ⟨hp, hL⟩
    · have : a ∈ ids t := iht.mp (by simp [hp])
      simp [hL, this]
    · have : a ∉ ids t := fun hm => by have := iht.mpr hm; simp [hp] at this
      simp [hL, this, ihts]

theorem pathDown_none_of_not_mem {a : Nat} {t : RTree} (h : a ∉ ids t) : pathDown a t = none := by
  cases hp : pathDown a t with
  | none => rfl
  | some p => exact absurd ((pathDown_isSome_iff a).1 t |>.mp (by simp [hp])) h

theorem pathDown_some_of_mem {a : Nat} {t : RTree} (h : a ∈ ids t) : ∃ p, pathDown a t = some p := by
  have := (pathDown_isSome_iff a).1 t |>.mpr h
  exact Option.isSome_iff_exists.mp this

theorem mem_of_pathDown {a : Nat} {t : RTree} {p : List Nat} (h : pathDown a t = some p) :
    a ∈ ids t := (pathDown_isSome_iff a).1 t |>.mp (by simp [h])

theorem mem_of_pathDownL {a : Nat} {ts : List RTree} {p : List Nat} (h : pathDownL a ts = some p) :
    a ∈ idsL ts := (pathDown_isSome_iff a).2 ts |>.mp (by simp [h])

/-- the nodes of a root path are nodes of the tree -/
theorem pathDown_subset (a : Nat) :
    (∀ t p, pathDown a t = some p → ∀ x ∈ p, x ∈ ids t) ∧
    (∀ ts p, pathDownL a ts = some p → ∀ x ∈ p, x ∈ idsL ts) := by
  apply induct
  · intro i ks ih p hp x hx
    by_cases h : i = a
    · simp [h] at hp; subst hp; simp at hx; simp [hx, h]
    · simp [h] at hp
      obtain ⟨q, hq, rfl⟩ := hp
      simp at hx
      rcases hx with rfl | hx
      · simp
      · simp [ih q hq x hx]
  · simp
  · intro t ts iht ihts p hp x hx
    rcases pathDownL_cons_cases a t ts with ⟨q, hpt, hL⟩ | ⟨hpt, hL⟩
    · rw [hL] at hp; simp at hp; subst hp
      simp [iht q hpt x hx]
    · rw [hL] at hp
      simp [ihts p hp x hx]

/-- a root path starts at the root and ends at its target -/
theorem pathDown_ends (a : Nat) :
    (∀ t p, pathDown a t = some p → p.head? = some t.rid ∧ p.getLast? = some a) ∧
    (∀ ts p, pathDownL a ts = some p → p.getLast? = some a ∧ p ≠ []) := by
  apply induct
  · intro i ks ih p hp
    by_cases h : i = a
    · simp [h] at hp; subst hp; simp [rid, h]
    · simp [h] at hp
      obtain ⟨q, hq, rfl⟩ := hp
      have := ih q hq
      refine ⟨by simp [rid], ?_⟩
      cases q with
      | nil => exact absurd rfl this.2
      | cons y ys => rw [List.getLast?_cons_cons]; exact this.1
  · simp
  · intro t ts iht ihts p hp
    rcases pathDownL_cons_cases a t ts with ⟨q, hpt, hL⟩ | ⟨hpt, hL⟩
    · rw [hL] at hp; simp at hp; subst hp
      have := iht q hpt
      refine ⟨this.2, ?_⟩
      intro hq; subst hq; simp at this
    · rw [hL] at hp
      exact ihts p hp

/-- a root path is a subsequence of the pre-order, hence duplicate free in a well-formed tree -/
theorem pathDown_sublist (a : Nat) :
    (∀ t p, pathDown a t = some p → p.Sublist (ids t)) ∧
    (∀ ts p, pathDownL a ts = some p → p.Sublist (idsL ts)) := by
  apply induct
  · intro i ks ih p hp
    by_cases h : i = a
    · simp [h] at hp; subst hp; simp [h]
    · simp [h] at hp
      obtain ⟨q, hq, rfl⟩ := hp
      simpa using (ih q hq)
  · simp
  · intro t ts iht ihts p hp
    rcases pathDownL_cons_cases a t ts with ⟨q, hpt, hL⟩ | ⟨hpt, hL⟩
    · rw [hL] at hp; simp at hp; subst hp
      simpa using (iht q hpt).trans (List.sublist_append_left _ _)
    · rw [hL] at hp
      simpa using (ihts p hp).trans (List.sublist_append_right _ _)

theorem pathDown_nodup {a : Nat} {t : RTree} {p : List Nat} (hwf : t.WF)
    (h : pathDown a t = some p) : p.Nodup :=
  ((pathDown_sublist a).1 t p h).nodup hwf

/-! ### Edges -/

@[simp] theorem edges_node (i : Nat) (ks : List RTree) : edges (node i ks) = edgesL i ks := by
  simp [edges]
@[simp] theorem edgesL_nil (i : Nat) : edgesL i [] = [] := by simp [edgesL]
@[simp] theorem edgesL_cons (i : Nat) (t : RTree) (ts : List RTree) :
    edgesL i (t :: ts) = (i, t.rid) :: (edges t ++ edgesL i ts) := by simp [edgesL]

theorem edgesL_append (i : Nat) (l1 l2 : List RTree) :
    edgesL i (l1 ++ l2) = edgesL i l1 ++ edgesL i l2 := by
  induction l1 with
  | nil => simp
  | cons t ts ih => simp [ih]

/-- end points of edges are nodes; the lower end point is never the root -/
theorem edges_mem :
    (∀ t p x, (p, x) ∈ edges t → p ∈ ids t ∧ x ∈ idsL t.kids) ∧
    (∀ ts i p x, (p, x) ∈ edgesL i ts → (p = i ∨ p ∈ idsL ts) ∧ x ∈ idsL ts) := by
  apply induct
  · intro i ks ih p x h
    simp at h
    have := ih i p x h
    simp [kids]
    exact ⟨this.1, this.2⟩
  · simp
  · intro t ts iht ihts i p x h
    simp at h
    rcases h with ⟨rfl, rfl⟩ | h | h
    · exact ⟨Or.inl rfl, by simp [rid_mem_ids]⟩
    · have := iht p x h
      refine ⟨Or.inr (by simp [this.1]), ?_⟩
      rw [idsL_cons, ids_eq_rid_cons t]; simp [this.2]
    · have := ihts i p x h
      refine ⟨?_, by simp [this.2]⟩
      rcases this.1 with h1 | h1
      · exact Or.inl h1
      · exact Or.inr (by simp [h1])

theorem edge_mem_ids {t : RTree} {p x : Nat} (h : (p, x) ∈ edges t) : p ∈ ids t ∧ x ∈ ids t := by
  have := edges_mem.1 t p x h
  refine ⟨this.1, ?_⟩
  rw [ids_eq_rid_cons]; simp [this.2]

/-- consecutive nodes of a root path are (parent, child) pairs -/
theorem pathDown_chain (a : Nat) :
    (∀ t p, pathDown a t = some p → Chain (fun x y => (x, y) ∈ edges t) p) ∧
    (∀ ts i p, pathDownL a ts = some p → Chain (fun x y => (x, y) ∈ edgesL i ts) (i :: p)) := by
  apply induct
  · intro i ks ih p hp
    by_cases h : i = a
    · simp [h] at hp; subst hp; simp [Chain]
    · simp [h] at hp
      obtain ⟨q, hq, rfl⟩ := hp
      simpa using ih i q hq
  · simp
  · intro t ts iht ihts i p hp
    rcases pathDownL_cons_cases a t ts with ⟨q, hpt, hL⟩ | ⟨hpt, hL⟩
    · rw [hL] at hp; simp at hp; subst hp
      have hc := iht q hpt
      have hh := ((pathDown_ends a).1 t q hpt).1
      cases q with
      | nil => simp at hh
      | cons y ys =>
        simp at hh; subst hh
        apply chain_cons_cons.mpr
        refine ⟨by simp, ?_⟩
        exact chain_mono (fun a b hab => by simp [hab]) hc
    · rw [hL] at hp
      exact chain_mono (fun a b hab => by simp [hab]) (ihts i p hp)

/-- Two root paths run together and then separate for good. -/
theorem pathDown_fork (a b : Nat) :
    (∀ t pa pb, (ids t).Nodup → pathDown a t = some pa → pathDown b t = some pb →
      ∃ pre c xs ys, pa = pre ++ c :: xs ∧ pb = pre ++ c :: ys ∧ ∀ x ∈ xs, x ∉ ys) ∧
    (∀ ts pa pb, (idsL ts).Nodup → pathDownL a ts = some pa → pathDownL b ts = some pb →
      (∃ pre c xs ys, pa = pre ++ c :: xs ∧ pb = pre ++ c :: ys ∧ ∀ x ∈ xs, x ∉ ys) ∨
      (∀ x ∈ pa, x ∉ pb)) := by
  apply induct
  · intro i ks ih pa pb hnd ha hb
    simp at hnd
    by_cases h1 : i = a
    · simp [h1] at ha; subst ha
      have hh := ((pathDown_ends b).1 _ pb hb).1
      cases pb with
      | nil => simp at hh
      | cons y ys =>
        simp [rid] at hh; subst hh
        exact ⟨[], y, [], ys, by simp [h1], by simp, by simp⟩
    · simp [h1] at ha
      obtain ⟨qa, hqa, rfl⟩ := ha
      by_cases h2 : i = b
      · simp [h2] at hb; subst hb
        exact ⟨[], i, qa, [], by simp, by simp [h2], by simp⟩
      · simp [h2] at hb
        obtain ⟨qb, hqb, rfl⟩ := hb
        rcases ih qa qb hnd.2 hqa hqb with ⟨pre, c, xs, ys, e1, e2, hd⟩ | hd
        · exact ⟨i :: pre, c, xs, ys, by simp [e1], by simp [e2], hd⟩
        · exact ⟨[], i, qa, qb, by simp, by simp, hd⟩
  · simp
  · intro t ts iht ihts pa pb hnd ha hb
    simp at hnd
    rw [List.nodup_append] at hnd
    obtain ⟨hn1, hn2, hdis⟩ := hnd
    rcases pathDownL_cons_cases a t ts with ⟨qa, hpa, hLa⟩ | ⟨hpa, hLa⟩ <;>
    rcases pathDownL_cons_cases b t ts with ⟨qb, hpb, hLb⟩ | ⟨hpb, hLb⟩
    · rw [hLa] at ha; rw [hLb] at hb; simp at ha hb; subst ha; subst hb
      exact Or.inl (iht _ _ hn1 hpa hpb)
    · rw [hLa] at ha; rw [hLb] at hb; simp at ha; subst ha
      right
      intro x hx hx'
      exact hdis x ((pathDown_subset a).1 t _ hpa x hx) x ((pathDown_subset b).2 ts _ hb x hx') rfl
    · rw [hLa] at ha; rw [hLb] at hb; simp at hb; subst hb
      right
      intro x hx hx'
      exact hdis x ((pathDown_subset b).1 t _ hpb x hx') x ((pathDown_subset a).2 ts _ ha x hx) rfl
    · rw [hLa] at ha; rw [hLb] at hb
      exact ihts _ _ hn2 ha hb

/-- In a well-formed tree the root path of a child is the root path of its parent extended by
    the child. -/
theorem pathDown_edge :
    (∀ t p x, (ids t).Nodup → (p, x) ∈ edges t →
      ∃ q, pathDown p t = some q ∧ pathDown x t = some (q ++ [x])) ∧
    (∀ ts i p x, (idsL ts).Nodup → i ∉ idsL ts → (p, x) ∈ edgesL i ts →
      (p = i ∧ pathDownL x ts = some [x]) ∨
      (∃ q, pathDownL p ts = some q ∧ pathDownL x ts = some (q ++ [x]))) := by
  apply induct
  · intro i ks ih p x hnd h
    simp at hnd h
    have hx := (edges_mem.2 ks i p x h).2
    have hxi : ¬ i = x := fun e => hnd.1 (e ▸ hx)
    rcases ih i p x hnd.2 hnd.1 h with ⟨rfl, h2⟩ | ⟨q, h1, h2⟩
    · exact ⟨[p], by simp, by simp [hxi, h2]⟩
    · have hp := mem_of_pathDownL h1
      have hpi : ¬ i = p := fun e => hnd.1 (e ▸ hp)
      exact ⟨i :: q, by simp [hpi, h1], by simp [hxi, h2]⟩
  · simp
  · intro t ts iht ihts i p x hnd hi h
    simp at hnd hi h
    rw [List.nodup_append] at hnd
    obtain ⟨hn1, hn2, hdis⟩ := hnd
    rcases h with ⟨rfl, rfl⟩ | h | h
    · left
      refine ⟨rfl, pathDownL_cons_some ?_⟩
      cases t; simp [rid]
    · right
      obtain ⟨q, h1, h2⟩ := iht p x hn1 h
      exact ⟨q, pathDownL_cons_some h1, pathDownL_cons_some h2⟩
    · have hm := edges_mem.2 ts i p x h
      have hxt : x ∉ ids t := fun hx => hdis x hx x hm.2 rfl
      have hxn := pathDown_none_of_not_mem hxt
      rcases ihts i p x hn2 hi.2 h with ⟨rfl, h2⟩ | ⟨q, h1, h2⟩
      · left
        exact ⟨rfl, by rw [pathDownL_cons_none hxn]; exact h2⟩
      · right
        have hp := mem_of_pathDownL h1
        have hpt : p ∉ ids t := fun hp' => hdis p hp' p hp rfl
        exact ⟨q, by rw [pathDownL_cons_none (pathDown_none_of_not_mem hpt)]; exact h1,
               by rw [pathDownL_cons_none hxn]; exact h2⟩

end RTree
end Ptn.C17
