import Ptn.C17.Tree
/-! `linearise` (post-order), subtree size, depth table of the root. -/
namespace Ptn.C17
namespace RTree

@[simp] theorem postorder_node (i : Nat) (ks : List RTree) :
    postorder (node i ks) = postorderL ks ++ [i] := by simp [postorder]
@[simp] theorem postorderL_nil : postorderL [] = [] := by simp [postorderL]
@[simp] theorem postorderL_cons (t : RTree) (ts : List RTree) :
    postorderL (t :: ts) = postorder t ++ postorderL ts := by simp [postorderL]

theorem postorderL_append (l1 l2 : List RTree) :
    postorderL (l1 ++ l2) = postorderL l1 ++ postorderL l2 := by
  induction l1 with
  | nil => simp
  | cons t ts ih => simp [ih]

/-- post-order and pre-order list the same nodes -/
theorem postorder_perm :
    (∀ t, (postorder t).Perm (ids t)) ∧ (∀ ts, (postorderL ts).Perm (idsL ts)) := by
  apply induct
  · intro i ks ih
    simp only [postorder_node, ids_node]
    exact (List.perm_append_comm).trans (by simpa using ih)
  · simp
  · intro t ts iht ihts
    simpa using iht.append ihts

theorem postorder_last (t : RTree) : (postorder t).getLast? = some t.rid := by
  cases t; simp [rid]

/-- `x` occurs before `p` in `l` -/
def Before (x p : Nat) (l : List Nat) : Prop := ∃ l1 l2 l3, l = l1 ++ x :: l2 ++ p :: l3

theorem Before.append_right {x p : Nat} {l : List Nat} (h : Before x p l) (r : List Nat) :
    Before x p (l ++ r) := by
  obtain ⟨l1, l2, l3, rfl⟩ := h
  exact ⟨l1, l2, l3 ++ r, by simp⟩

theorem Before.append_left {x p : Nat} {l : List Nat} (h : Before x p l) (r : List Nat) :
    Before x p (r ++ l) := by
  obtain ⟨l1, l2, l3, rfl⟩ := h
  exact ⟨r ++ l1, l2, l3, by simp⟩

/-- in the post-order every child comes before its parent -/
theorem postorder_child_before :
    (∀ t p x, (p, x) ∈ edges t → Before x p (postorder t)) ∧
    (∀ ts i p x, (p, x) ∈ edgesL i ts → Before x p (postorderL ts ++ [i])) := by
  apply induct
  · intro i ks ih p x h
    simp at h
    simpa using ih i p x h
  · simp
  · intro t ts iht ihts i p x h
    simp at h
    rcases h with ⟨rfl, rfl⟩ | h | h
    · cases t with
      | node j js =>
        exact ⟨postorderL js, postorderL ts, [], by simp [rid]⟩
    · have := (iht p x h).append_right (postorderL ts ++ [i])
      simpa using this
    · have := (ihts i p x h).append_left (postorder t)
      simpa using this

/-! ### subtree size -/

@[simp] theorem sizeL_nil : sizeL [] = 0 := by simp [sizeL]
@[simp] theorem sizeL_cons (t : RTree) (ts : List RTree) : sizeL (t :: ts) = size t + sizeL ts := by
  simp [sizeL]

theorem size_eq :
    (∀ t, size t = (ids t).length) ∧ (∀ ts, sizeL ts = (idsL ts).length) := by
  apply induct
  · intro i ks ih
    cases ks with
    | nil => simp [size]
    | cons k ks' => simp [size, ih]; omega
  · simp
  · intro t ts iht ihts
    simp [iht, ihts]

/-! ### depth table of the root -/

@[simp] theorem depths_node (d i : Nat) (ks : List RTree) :
    depths d (node i ks) = (i, d) :: depthsL (d + 1) ks := by simp [depths]
@[simp] theorem depthsL_nil (d : Nat) : depthsL d [] = [] := by simp [depthsL]
@[simp] theorem depthsL_cons (d : Nat) (t : RTree) (ts : List RTree) :
    depthsL d (t :: ts) = depths d t ++ depthsL d ts := by simp [depthsL]

/-- the keys of the depth table are the nodes in pre-order -/
theorem depths_keys :
    (∀ t d, (depths d t).map (·.1) = ids t) ∧ (∀ ts d, (depthsL d ts).map (·.1) = idsL ts) := by
  apply induct
  · intro i ks ih d; simp [ih]
  · simp
  · intro t ts iht ihts d; simp [iht, ihts]

theorem mem_ids_of_mem_depths {t : RTree} {d v k : Nat} (h : (v, k) ∈ depths d t) : v ∈ ids t := by
  rw [← depths_keys.1 t d]; exact List.mem_map.mpr ⟨(v, k), h, rfl⟩

theorem mem_idsL_of_mem_depthsL {ts : List RTree} {d v k : Nat} (h : (v, k) ∈ depthsL d ts) :
    v ∈ idsL ts := by
  rw [← depths_keys.2 ts d]; exact List.mem_map.mpr ⟨(v, k), h, rfl⟩

/-- the value stored for `v` is the number of edges of its root path (plus the offset) -/
theorem depths_value :
    (∀ t d v k, (ids t).Nodup → (v, k) ∈ depths d t →
        ∃ p, pathDown v t = some p ∧ k + 1 = d + p.length) ∧
    (∀ ts d v k, (idsL ts).Nodup → (v, k) ∈ depthsL d ts →
        ∃ p, pathDownL v ts = some p ∧ k + 1 = d + p.length) := by
  apply induct
  · intro i ks ih d v k hnd h
    simp at hnd h
    rcases h with ⟨rfl, rfl⟩ | h
    · exact ⟨[v], by simp, by simp⟩
    · obtain ⟨p, hp, hk⟩ := ih (d + 1) v k hnd.2 h
      have hv := mem_idsL_of_mem_depthsL h
      have hvi : ¬ i = v := fun e => hnd.1 (e ▸ hv)
      exact ⟨i :: p, by simp [hvi, hp], by simp; omega⟩
  · simp
  · intro t ts iht ihts d v k hnd h
    simp at hnd h
    rw [List.nodup_append] at hnd
    obtain ⟨hn1, hn2, hdis⟩ := hnd
    rcases h with h | h
    · obtain ⟨p, hp, hk⟩ := iht d v k hn1 h
      exact ⟨p, pathDownL_cons_some hp, hk⟩
    · obtain ⟨p, hp, hk⟩ := ihts d v k hn2 h
      have hv := mem_idsL_of_mem_depthsL h
      have hvt : v ∉ ids t := fun hv' => hdis v hv' v hv rfl
      exact ⟨p, by rw [pathDownL_cons_none (pathDown_none_of_not_mem hvt)]; exact hp, hk⟩

end RTree
end Ptn.C17
