import Ptn.C17.Flat
import Ptn.C17.Cut
/-! Flat port = structural model for the routines that recurse over the child lists:
`linearise`, `find_subtree_of_node`, `leaves_under_node`, `find_subtree_size_of_node`,
`_path_for_branch_rec`. -/
namespace Ptn.C17
open RTree

/-- every subtree of `s` is found in the flat mirror with its child identifiers -/
def KidsOK (ft : FTree) (s : RTree) : Prop :=
  ∀ s' ∈ subtrees s, ∃ p, ft.get? s'.rid = some ⟨p, s'.kids.map rid⟩

theorem Mirror.kidsOK {ft : FTree} {t : RTree} (h : Mirror ft t) : KidsOK ft t := by
  intro s hs
  obtain ⟨p, hp⟩ := flatten_subtree.1 t none s hs
  exact ⟨p, h.get_of_mem hp⟩

theorem KidsOK.self {ft : FTree} {i : Nat} {ks : List RTree} (h : KidsOK ft (node i ks)) :
    ∃ p, ft.get? i = some ⟨p, ks.map rid⟩ := by
  simpa [rid, kids] using h (node i ks) (by simp)

theorem KidsOK.kid {ft : FTree} {i : Nat} {ks : List RTree} (h : KidsOK ft (node i ks)) {k : RTree}
    (hk : k ∈ ks) : KidsOK ft k := by
  intro s hs
  exact h s (by simp only [subtrees_node, List.mem_cons]; exact Or.inr (mem_subtreesL.mpr ⟨k, hk, hs⟩))

theorem KidsOK.sub {ft : FTree} {t s : RTree} (h : KidsOK ft t) (hs : s ∈ subtrees t) : KidsOK ft s := by
  intro s' hs'
  -- subtrees of a subtree are subtrees
  have key : (∀ t, ∀ s ∈ subtrees t, ∀ s' ∈ subtrees s, s' ∈ subtrees t) ∧
      (∀ ts, ∀ s ∈ subtreesL ts, ∀ s' ∈ subtrees s, s' ∈ subtreesL ts) := by
    apply induct
    · intro i ks ih s hs s' hs'
      simp only [subtrees_node, List.mem_cons] at hs ⊢
      rcases hs with rfl | hs
      · simpa using hs'
      · exact Or.inr (ih s hs s' hs')
    · simp
    · intro t ts iht ihts s hs s' hs'
      simp only [subtreesL_cons, List.mem_append] at hs ⊢
      rcases hs with hs | hs
      · exact Or.inl (iht s hs s' hs')
      · exact Or.inr (ihts s hs s' hs')
  exact h s' (key.1 t s hs s' hs')

theorem ids_length_pos (t : RTree) : 1 ≤ (ids t).length := by cases t; simp

/-- `_linearised_rec` -/
theorem lineariseF_eq (ft : FTree) :
    (∀ s, KidsOK ft s → ∀ fuel, (ids s).length ≤ fuel →
      ft.lineariseF fuel s.rid = some (postorder s)) ∧
    (∀ ks, (∀ k ∈ ks, KidsOK ft k) → ∀ f acc, (idsL ks).length ≤ f →
      (ks.map rid).foldlM (fun acc c => do
          let sub ← ft.lineariseF f c
          pure (acc ++ sub)) acc = some (acc ++ postorderL ks)) := by
  apply induct
  · intro i ks ih hok fuel hf
    obtain ⟨f, rfl⟩ : ∃ f, fuel = f + 1 := ⟨fuel - 1, by simp at hf; omega⟩
    obtain ⟨p, hp⟩ := hok.self
    have := ih (fun k hk => hok.kid hk) f [] (by simp at hf; omega)
    simp only [rid, FTree.lineariseF, hp, Option.bind_eq_bind, Option.bind_some]
    simp only [Option.bind_eq_bind] at this
    rw [this]; simp
  · intro _ f acc _; simp
  · intro k ks ihk ihks hok f acc hf
    simp only [idsL_cons, List.length_append] at hf
    have h1 := ihk (hok k (by simp)) f (by omega)
    have h2 := ihks (fun k' hk' => hok k' (by simp [hk'])) f (acc ++ postorder k) (by omega)
    simp only [List.map_cons, List.foldlM_cons, h1, Option.bind_eq_bind, Option.bind_some,
      Option.pure_def] at h2 ⊢
    rw [h2]; simp

/-- **`linearise`** -/
theorem flat_linearise_eq_struct (ft : FTree) (t : RTree) (h : Mirror ft t) :
    ft.linearise = some (postorder t) := by
  have := (lineariseF_eq ft).1 t h.kidsOK ft.fuel (by rw [h.fuel_eq]; omega)
  simp [FTree.linearise, h.2.1, this]

/-- `find_subtree_size_of_node` below the root of a subtree -/
theorem subtreeSizeF_eq (ft : FTree) :
    (∀ s, KidsOK ft s → ∀ fuel, (ids s).length ≤ fuel →
      ft.subtreeSizeF fuel s.rid = some (size s)) ∧
    (∀ ks, (∀ k ∈ ks, KidsOK ft k) → ∀ f acc, (idsL ks).length ≤ f →
      (ks.map rid).foldlM (fun acc c => do
          let s ← ft.subtreeSizeF f c
          pure (acc + s)) acc = some (acc + sizeL ks)) := by
  apply induct
  · intro i ks ih hok fuel hf
    obtain ⟨f, rfl⟩ : ∃ f, fuel = f + 1 := ⟨fuel - 1, by simp at hf; omega⟩
    obtain ⟨p, hp⟩ := hok.self
    have := ih (fun k hk => hok.kid hk) f 1 (by simp at hf; omega)
    simp only [rid, FTree.subtreeSizeF, hp, Option.bind_eq_bind, Option.bind_some]
    cases ks with
    | nil => simp [size]
    | cons k ks' =>
      simp only [Option.bind_eq_bind] at this
      simp only [List.map_cons, List.isEmpty_cons, Bool.false_eq_true, if_false]
      rw [← List.map_cons, this]; simp [size]
  · intro _ f acc _; simp
  · intro k ks ihk ihks hok f acc hf
    simp only [idsL_cons, List.length_append] at hf
    have h1 := ihk (hok k (by simp)) f (by omega)
    have h2 := ihks (fun k' hk' => hok k' (by simp [hk'])) f (acc + size k) (by omega)
    simp only [List.map_cons, List.foldlM_cons, h1, Option.bind_eq_bind, Option.bind_some,
      Option.pure_def] at h2 ⊢
    rw [h2]; simp [Nat.add_assoc]

/-- a query about node `x`: the subtree at `x` is a subtree, with small enough size -/
theorem subtree_query {ft : FTree} {t : RTree} (h : Mirror ft t) {x : Nat} (hx : x ∈ ids t) :
    ∃ s, subtreeAt x t = some s ∧ s.rid = x ∧ KidsOK ft s ∧ (ids s).length ≤ ft.fuel ∧
      (ids s).Nodup := by
  obtain ⟨s, hs⟩ := (subtreeAt_isSome x).1 t hx
  have hb := (subtreeAt_basic x).1 t s hs
  refine ⟨s, hs, hb.1, h.kidsOK.sub ((subtreeAt_mem_subtrees x).1 t s hs), ?_, hb.2.1.nodup h.2.2⟩
  rw [h.fuel_eq]
  have := hb.2.1.length_le
  omega

theorem flat_absent {ft : FTree} {t : RTree} (h : Mirror ft t) {x : Nat} (hx : x ∉ ids t) :
    ft.get? x = none ∧ subtreeAt x t = none :=
  ⟨h.get_none hx, subtreeAt_none_of_not_mem hx⟩

/-- **`find_subtree_size_of_node`** -/
theorem flat_subtree_size_eq_struct (ft : FTree) (t : RTree) (h : Mirror ft t) (x : Nat) :
    ft.subtreeSize x = subtreeSize t x := by
  by_cases hx : x ∈ ids t
  · obtain ⟨s, hs, hr, hok, hf, _⟩ := subtree_query h hx
    have := (subtreeSizeF_eq ft).1 s hok ft.fuel hf
    rw [hr] at this
    simp [FTree.subtreeSize, RTree.subtreeSize, this, hs]
  · obtain ⟨h1, h2⟩ := flat_absent h hx
    simp [FTree.subtreeSize, RTree.subtreeSize, FTree.fuel, FTree.subtreeSizeF, h1, h2]

theorem filter_not_contains_of_disjoint {acc sub : List Nat} (h : ∀ y ∈ sub, y ∉ acc) :
    sub.filter (fun k => !acc.contains k) = sub := by
  apply List.filter_eq_self.mpr
  intro y hy
  simpa using h y hy

/-- `find_subtree_of_node` (dict keys are merged: no effect, the identifiers are distinct) -/
theorem subtreeF_eq (ft : FTree) :
    (∀ s, KidsOK ft s → (ids s).Nodup → ∀ fuel, (ids s).length ≤ fuel →
      ft.subtreeF fuel s.rid = some (ids s)) ∧
    (∀ ks, (∀ k ∈ ks, KidsOK ft k) → ∀ f acc, (acc ++ idsL ks).Nodup → (idsL ks).length ≤ f →
      (ks.map rid).foldlM (fun acc c => do
          let sub ← ft.subtreeF f c
          pure (acc ++ sub.filter (fun k => !acc.contains k))) acc = some (acc ++ idsL ks)) := by
  apply induct
  · intro i ks ih hok hnd fuel hf
    obtain ⟨f, rfl⟩ : ∃ f, fuel = f + 1 := ⟨fuel - 1, by simp at hf; omega⟩
    obtain ⟨p, hp⟩ := hok.self
    have := ih (fun k hk => hok.kid hk) f [i] (by simpa using hnd) (by simp at hf; omega)
    simp only [rid, FTree.subtreeF, hp, Option.bind_eq_bind, Option.bind_some]
    cases ks with
    | nil => simp
    | cons k ks' =>
      simp only [Option.bind_eq_bind] at this
      simp only [List.map_cons, List.isEmpty_cons, Bool.false_eq_true, if_false]
      rw [← List.map_cons, this]; simp
  · intro _ f acc _ _; simp
  · intro k ks ihk ihks hok f acc hnd hf
    simp only [idsL_cons, List.length_append] at hf
    have hnd' : ((acc ++ ids k) ++ idsL ks).Nodup := by simpa using hnd
    have hndk : (ids k).Nodup := by
      simp only [idsL_cons, List.nodup_append] at hnd; exact hnd.2.1.1
    have hdis : ∀ y ∈ ids k, y ∉ acc := by
      intro y hy hya
      simp only [idsL_cons, List.nodup_append, List.mem_append] at hnd
      exact hnd.2.2 y hya y (Or.inl hy) rfl
    have h1 := ihk (hok k (by simp)) hndk f (by omega)
    have h2 := ihks (fun k' hk' => hok k' (by simp [hk'])) f (acc ++ ids k) hnd' (by omega)
    simp only [List.map_cons, List.foldlM_cons, h1, Option.bind_eq_bind, Option.bind_some,
      Option.pure_def, filter_not_contains_of_disjoint hdis] at h2 ⊢
    rw [h2]; simp

/-- **`find_subtree_of_node`** (keys of the returned dict, in order) -/
theorem flat_subtree_eq_struct (ft : FTree) (t : RTree) (h : Mirror ft t) (x : Nat) :
    ft.subtree x = subtreeIds t x := by
  by_cases hx : x ∈ ids t
  · obtain ⟨s, hs, hr, hok, hf, hnd⟩ := subtree_query h hx
    have := (subtreeF_eq ft).1 s hok hnd ft.fuel hf
    rw [hr] at this
    simp [FTree.subtree, RTree.subtreeIds, this, hs]
  · obtain ⟨h1, h2⟩ := flat_absent h hx
    simp [FTree.subtree, RTree.subtreeIds, FTree.fuel, FTree.subtreeF, h1, h2]

/-- `leaves_under_node` -/
theorem leavesUnderF_eq (ft : FTree) :
    (∀ s, KidsOK ft s → (ids s).Nodup → ∀ fuel, (ids s).length ≤ fuel →
      ft.leavesUnderF fuel s.rid = some (leavesOf s)) ∧
    (∀ ks, (∀ k ∈ ks, KidsOK ft k) → ∀ f acc, (acc ++ idsL ks).Nodup → (idsL ks).length ≤ f →
      (ks.map rid).foldlM (fun acc c => do
          let sub ← ft.leavesUnderF f c
          pure (acc ++ sub.filter (fun k => !acc.contains k))) acc = some (acc ++ leavesOfL ks)) := by
  apply induct
  · intro i ks ih hok hnd fuel hf
    obtain ⟨f, rfl⟩ : ∃ f, fuel = f + 1 := ⟨fuel - 1, by simp at hf; omega⟩
    obtain ⟨p, hp⟩ := hok.self
    have := ih (fun k hk => hok.kid hk) f [] (by simp at hnd; simpa using hnd.2)
      (by simp at hf; omega)
    simp only [rid, FTree.leavesUnderF, hp, Option.bind_eq_bind, Option.bind_some]
    rw [leavesOf_node]
    cases ks with
    | nil => simp
    | cons k ks' =>
      simp only [Option.bind_eq_bind] at this
      simp only [List.map_cons, List.isEmpty_cons, Bool.false_eq_true, if_false]
      rw [← List.map_cons, this]; simp
  · intro _ f acc _ _; simp
  · intro k ks ihk ihks hok f acc hnd hf
    simp only [idsL_cons, List.length_append] at hf
    have hndk : (ids k).Nodup := by
      simp only [idsL_cons, List.nodup_append] at hnd; exact hnd.2.1.1
    have hdis : ∀ y ∈ leavesOf k, y ∉ acc := by
      intro y hy hya
      simp only [idsL_cons, List.nodup_append, List.mem_append] at hnd
      exact hnd.2.2 y hya y (Or.inl (leavesOf_subset.1 k y hy)) rfl
    have hnd' : ((acc ++ leavesOf k) ++ idsL ks).Nodup := by
      have hsub : (acc ++ leavesOf k ++ idsL ks).Sublist (acc ++ ids k ++ idsL ks) := by
        apply List.Sublist.append _ (List.Sublist.refl _)
        apply List.Sublist.append (List.Sublist.refl _)
        rw [leavesOf_eq_filter.1 k hndk]
        exact List.filter_sublist
      exact hsub.nodup (by simpa using hnd)
    have h1 := ihk (hok k (by simp)) hndk f (by omega)
    have h2 := ihks (fun k' hk' => hok k' (by simp [hk'])) f (acc ++ leavesOf k) hnd' (by omega)
    simp only [List.map_cons, List.foldlM_cons, h1, Option.bind_eq_bind, Option.bind_some,
      Option.pure_def, filter_not_contains_of_disjoint hdis] at h2 ⊢
    rw [h2]; simp

/-- **`leaves_under_node`** -/
theorem flat_leaves_under_eq_struct (ft : FTree) (t : RTree) (h : Mirror ft t) (x : Nat) :
    ft.leavesUnder x = leavesUnder t x := by
  by_cases hx : x ∈ ids t
  · obtain ⟨s, hs, hr, hok, hf, hnd⟩ := subtree_query h hx
    have := (leavesUnderF_eq ft).1 s hok hnd ft.fuel hf
    rw [hr] at this
    simp [FTree.leavesUnder, RTree.leavesUnder, this, hs]
  · obtain ⟨h1, h2⟩ := flat_absent h hx
    simp [FTree.leavesUnder, RTree.leavesUnder, FTree.fuel, FTree.leavesUnderF, h1, h2]

end Ptn.C17
