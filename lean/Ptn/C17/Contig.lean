import Ptn.C17.UpdatePath
/-! The nodes of every subtree are visited consecutively by the update path. -/
namespace Ptn.C17
namespace RTree

mutual
/-- all subtrees (the tree itself first) -/
def subtrees : RTree → List RTree
  | node i ks => node i ks :: subtreesL ks
def subtreesL : List RTree → List RTree
  | [] => []
  | t :: ts => subtrees t ++ subtreesL ts
end

@[simp] theorem subtrees_node (i : Nat) (ks : List RTree) :
    subtrees (node i ks) = node i ks :: subtreesL ks := by simp [subtrees]
@[simp] theorem subtreesL_nil : subtreesL [] = [] := by simp [subtreesL]
@[simp] theorem subtreesL_cons (t : RTree) (ts : List RTree) :
    subtreesL (t :: ts) = subtrees t ++ subtreesL ts := by simp [subtreesL]

theorem subtreesL_append (l1 l2 : List RTree) :
    subtreesL (l1 ++ l2) = subtreesL l1 ++ subtreesL l2 := by
  induction l1 with
  | nil => simp
  | cons t ts ih => simp [ih]

theorem mem_subtreesL {s : RTree} : ∀ {ks : List RTree}, s ∈ subtreesL ks ↔ ∃ k ∈ ks, s ∈ subtrees k
  | [] => by simp
  | k :: ks => by simp [mem_subtreesL (ks := ks)]

/-- the nodes of a subtree are nodes of the tree -/
theorem subtrees_ids :
    (∀ t s, s ∈ subtrees t → ∀ y ∈ ids s, y ∈ ids t) ∧
    (∀ ts s, s ∈ subtreesL ts → ∀ y ∈ ids s, y ∈ idsL ts) := by
  apply induct
  · intro i ks ih s hs y hy
    simp at hs
    rcases hs with rfl | hs
    · exact hy
    · simp [ih s hs y hy]
  · simp
  · intro t ts iht ihts s hs y hy
    simp at hs
    rcases hs with hs | hs
    · simp [iht s hs y hy]
    · simp [ihts s hs y hy]

/-- `S`-members form one block of `l` -/
def Contig (S l : List Nat) : Prop :=
  ∃ A B C, l = A ++ B ++ C ∧ (∀ y ∈ B, y ∈ S) ∧ (∀ y ∈ A, y ∉ S) ∧ (∀ y ∈ C, y ∉ S)

theorem contig_all {S l : List Nat} (h : ∀ y ∈ l, y ∈ S) : Contig S l :=
  ⟨[], l, [], by simp, h, by simp, by simp⟩

theorem contig_none {S l : List Nat} (h : ∀ y ∈ l, y ∉ S) : Contig S l :=
  ⟨l, [], [], by simp, by simp, h, by simp⟩

theorem Contig.append_out {S l m : List Nat} (h : Contig S l) (hm : ∀ y ∈ m, y ∉ S) :
    Contig S (l ++ m) := by
  obtain ⟨A, B, C, rfl, h1, h2, h3⟩ := h
  refine ⟨A, B, C ++ m, by simp, h1, h2, ?_⟩
  intro y hy
  rcases List.mem_append.mp hy with hy | hy
  · exact h3 y hy
  · exact hm y hy

theorem Contig.out_append {S l m : List Nat} (h : Contig S l) (hm : ∀ y ∈ m, y ∉ S) :
    Contig S (m ++ l) := by
  obtain ⟨A, B, C, rfl, h1, h2, h3⟩ := h
  refine ⟨m ++ A, B, C, by simp, h1, ?_, h3⟩
  intro y hy
  rcases List.mem_append.mp hy with hy | hy
  · exact hm y hy
  · exact h2 y hy

/-! ### number of side changes -/

def flips (f : Nat → Bool) : List Nat → Nat
  | a :: b :: rest => (if f a != f b then 1 else 0) + flips f (b :: rest)
  | _ => 0

theorem flips_const {f : Nat → Bool} {v : Bool} : ∀ {l : List Nat}, (∀ y ∈ l, f y = v) → flips f l = 0
  | [], _ => by simp [flips]
  | [_], _ => by simp [flips]
  | a :: b :: rest, h => by
    have h1 := h a (by simp)
    have h2 := h b (by simp)
    have := flips_const (l := b :: rest) (fun y hy => h y (by simp [hy]))
    simp [flips, h1, h2, this]

theorem flips_append_le {f : Nat → Bool} : ∀ (l1 l2 : List Nat),
    flips f (l1 ++ l2) ≤ flips f l1 + flips f l2 + 1
  | [], l2 => by simp [flips]
  | [a], l2 => by
    cases l2 with
    | nil => simp [flips]
    | cons b rest => simp only [List.singleton_append, flips]; split <;> omega
  | a :: b :: rest, l2 => by
    have := flips_append_le (f := f) (b :: rest) l2
    simp only [List.cons_append, flips] at this ⊢
    omega

theorem flips_contig {f : Nat → Bool} {S l : List Nat} (h : Contig S l)
    (hf : ∀ y, f y = true ↔ y ∈ S) : flips f l ≤ 2 := by
  obtain ⟨A, B, C, rfl, h1, h2, h3⟩ := h
  have fA : flips f A = 0 := flips_const (v := false) (fun y hy => by
    have := h2 y hy; rw [← hf] at this; simpa using this)
  have fB : flips f B = 0 := flips_const (v := true) (fun y hy => (hf y).mpr (h1 y hy))
  have fC : flips f C = 0 := flips_const (v := false) (fun y hy => by
    have := h3 y hy; rw [← hf] at this; simpa using this)
  have e1 := flips_append_le (f := f) (A ++ B) C
  have e2 := flips_append_le (f := f) A B
  omega

/-! ### contiguity -/

theorem mem_idsL_of_mem_postorderL {ts : List RTree} {y : Nat} (h : y ∈ postorderL ts) :
    y ∈ idsL ts := (postorder_perm.2 ts).subset h

theorem mem_ids_of_mem_postorder {t : RTree} {y : Nat} (h : y ∈ postorder t) :
    y ∈ ids t := (postorder_perm.1 t).subset h

/-- in the post-order every subtree is one block -/
theorem postorder_contig :
    (∀ t, (ids t).Nodup → ∀ s ∈ subtrees t, Contig (ids s) (postorder t)) ∧
    (∀ ts, (idsL ts).Nodup → ∀ s ∈ subtreesL ts, Contig (ids s) (postorderL ts)) := by
  apply induct
  · intro i ks ih hnd s hs
    simp at hnd hs
    rcases hs with rfl | hs
    · exact contig_all (fun y hy => mem_ids_of_mem_postorder hy)
    · have := ih hnd.2 s hs
      simp only [postorder_node]
      apply this.append_out
      intro y hy
      simp at hy; subst hy
      exact fun h => hnd.1 (subtrees_ids.2 ks s hs y h)
  · simp
  · intro t ts iht ihts hnd s hs
    simp at hnd hs
    rw [List.nodup_append] at hnd
    obtain ⟨hn1, hn2, hdis⟩ := hnd
    simp only [postorderL_cons]
    rcases hs with hs | hs
    · apply (iht hn1 s hs).append_out
      intro y hy hys
      exact hdis y (subtrees_ids.1 t s hs y hys) y (mem_idsL_of_mem_postorderL hy) rfl
    · apply (ihts hn2 s hs).out_append
      intro y hy hys
      exact hdis y (mem_ids_of_mem_postorder hy) y (subtrees_ids.2 ts s hs y hys) rfl

/-- in the upward sweep every subtree is one block -/
theorem sweepUp_contig (s0 : Nat) :
    (∀ k, ∀ p, sweepUp s0 k = some p → (ids k).Nodup → ∀ s ∈ subtrees k, Contig (ids s) p) ∧
    (∀ ks r pre, ∀ p, sweepUpL s0 r pre ks = some p → (r :: (idsL pre ++ idsL ks)).Nodup →
      ∀ s ∈ subtreesL (pre ++ ks), Contig (ids s) p) := by
  apply induct
  · intro r ks ih p hp hnd s hs
    rw [sweepUp_node] at hp
    by_cases hrs : r = s0
    · simp [hrs] at hp; subst hp
      have := postorder_contig.1 (node r ks) hnd s hs
      simpa [hrs] using this
    · simp [hrs] at hp
      simp only [subtrees_node, List.mem_cons] at hs
      rcases hs with rfl | hs
      · have hperm := (((sweepUp_spec s0).2 ks r []).1 p hp).1
        exact contig_all (fun y hy => by simpa using hperm.subset hy)
      · exact ih r [] p hp (by simpa using hnd) s (by simpa using hs)
  · intro r pre p hp; simp at hp
  · intro k post ihk ihpost r pre p hp hnd s hs
    rcases sweepUpL_cons_cases s0 r pre k post with ⟨p0, h1, h2⟩ | ⟨h1, h2⟩
    · rw [h2] at hp; simp at hp; subst hp
      have hp0 := (((sweepUp_spec s0).1 k).1 p0 h1).1
      simp only [idsL_cons, List.nodup_cons, List.nodup_append, List.mem_append] at hnd
      simp only [subtreesL_append, subtreesL_cons, List.mem_append] at hs
      have hsplit : s ∈ subtrees k ∨ s ∈ subtreesL (pre ++ post) := by
        rw [subtreesL_append, List.mem_append]
        rcases hs with hs | hs | hs
        · exact Or.inr (Or.inl hs)
        · exact Or.inl hs
        · exact Or.inr (Or.inr hs)
      rcases hsplit with hs | hs
      · have hsub := subtrees_ids.1 k s hs
        have c1 := ihk p0 h1 hnd.2.2.1.1 s hs
        have c2 := c1.append_out (m := postorderL (pre ++ post)) (by
          intro y hy hys
          have hyk := hsub y hys
          have := mem_idsL_of_mem_postorderL hy
          rw [idsL_append, List.mem_append] at this
          rcases this with h | h
          · exact hnd.2.2.2 y h y (Or.inl hyk) rfl
          · exact hnd.2.2.1.2.2 y hyk y h rfl)
        have c3 := c2.append_out (m := [r]) (by
          intro y hy hys
          simp at hy; subst hy
          exact hnd.1 (Or.inr (Or.inl (hsub y hys))))
        simpa using c3
      · have hsub := subtrees_ids.2 (pre ++ post) s hs
        have hndpp : (idsL (pre ++ post)).Nodup := by
          rw [idsL_append, List.nodup_append]
          refine ⟨hnd.2.1, hnd.2.2.1.2.1, ?_⟩
          intro a ha b hb
          exact hnd.2.2.2 a ha b (Or.inr hb)
        have c1 := postorder_contig.2 (pre ++ post) hndpp s hs
        have c2 := c1.out_append (m := p0) (by
          intro y hy hys
          have hyk := hp0.subset hy
          have := hsub y hys
          rw [idsL_append, List.mem_append] at this
          rcases this with h | h
          · exact hnd.2.2.2 y h y (Or.inl hyk) rfl
          · exact hnd.2.2.1.2.2 y hyk y h rfl)
        have c3 := c2.append_out (m := [r]) (by
          intro y hy hys
          simp at hy; subst hy
          have := hsub y hys
          rw [idsL_append, List.mem_append] at this
          rcases this with h | h
          · exact hnd.1 (Or.inl h)
          · exact hnd.1 (Or.inr (Or.inr h)))
        simpa using c3
    · rw [h2] at hp
      apply ihpost r (pre ++ [k]) p hp
      · have : (r :: (idsL (pre ++ [k]) ++ idsL post)) = r :: (idsL pre ++ idsL (k :: post)) := by
          simp [idsL_append]
        rw [this]; exact hnd
      · simpa using hs

/-- in the downward sweep every subtree is one block -/
theorem sweepDown_contig (f : Nat) :
    (∀ k, ∀ p, sweepDown f k = some p → (ids k).Nodup → ∀ s ∈ subtrees k, Contig (ids s) p) ∧
    (∀ ks x pre, ∀ p, sweepDownL f x pre ks = some p → (x :: (idsL pre ++ idsL ks)).Nodup →
      ∀ s ∈ subtreesL (pre ++ ks), Contig (ids s) p) := by
  apply induct
  · intro r ks ih p hp hnd s hs
    rw [sweepDown_node] at hp
    by_cases hrs : r = f
    · simp [hrs] at hp; subst hp
      have := postorder_contig.1 (node r ks) hnd s hs
      simpa [hrs] using this
    · simp [hrs] at hp
      simp only [subtrees_node, List.mem_cons] at hs
      rcases hs with rfl | hs
      · have hperm := (((sweepDown_spec f).2 ks r []).1 p hp).1
        exact contig_all (fun y hy => by simpa using hperm.subset hy)
      · exact ih r [] p hp (by simpa using hnd) s (by simpa using hs)
  · intro r pre p hp; simp at hp
  · intro k post ihk ihpost r pre p hp hnd s hs
    rcases sweepDownL_cons_cases f r pre k post with ⟨p0, h1, h2⟩ | ⟨h1, h2⟩
    · rw [h2] at hp; simp at hp; subst hp
      have hp0 := (((sweepDown_spec f).1 k).1 p0 h1).1
      simp only [idsL_cons, List.nodup_cons, List.nodup_append, List.mem_append] at hnd
      simp only [subtreesL_append, subtreesL_cons, List.mem_append] at hs
      have hsplit : s ∈ subtrees k ∨ s ∈ subtreesL (pre ++ post) := by
        rw [subtreesL_append, List.mem_append]
        rcases hs with hs | hs | hs
        · exact Or.inr (Or.inl hs)
        · exact Or.inl hs
        · exact Or.inr (Or.inr hs)
      rcases hsplit with hs | hs
      · have hsub := subtrees_ids.1 k s hs
        have c1 := ihk p0 h1 hnd.2.2.1.1 s hs
        have c2 := c1.out_append (m := [r]) (by
          intro y hy hys
          simp at hy; subst hy
          exact hnd.1 (Or.inr (Or.inl (hsub y hys))))
        have c3 := c2.out_append (m := postorderL (pre ++ post)) (by
          intro y hy hys
          have hyk := hsub y hys
          have := mem_idsL_of_mem_postorderL hy
          rw [idsL_append, List.mem_append] at this
          rcases this with h | h
          · exact hnd.2.2.2 y h y (Or.inl hyk) rfl
          · exact hnd.2.2.1.2.2 y hyk y h rfl)
        simpa using c3
      · have hsub := subtrees_ids.2 (pre ++ post) s hs
        have hndpp : (idsL (pre ++ post)).Nodup := by
          rw [idsL_append, List.nodup_append]
          refine ⟨hnd.2.1, hnd.2.2.1.2.1, ?_⟩
          intro a ha b hb
          exact hnd.2.2.2 a ha b (Or.inr hb)
        have c1 := postorder_contig.2 (pre ++ post) hndpp s hs
        have c2 := c1.append_out (m := [r]) (by
          intro y hy hys
          simp at hy; subst hy
          have := hsub y hys
          rw [idsL_append, List.mem_append] at this
          rcases this with h | h
          · exact hnd.1 (Or.inl h)
          · exact hnd.1 (Or.inr (Or.inr h)))
        have c3 := c2.append_out (m := p0) (by
          intro y hy hys
          have hyk := hp0.subset hy
          have := hsub y hys
          rw [idsL_append, List.mem_append] at this
          rcases this with h | h
          · exact hnd.2.2.2 y h y (Or.inl hyk) rfl
          · exact hnd.2.2.1.2.2 y hyk y h rfl)
        simpa using c3
    · rw [h2] at hp
      apply ihpost r (pre ++ [k]) p hp
      · have : (r :: (idsL (pre ++ [k]) ++ idsL post)) = r :: (idsL pre ++ idsL (k :: post)) := by
          simp [idsL_append]
        rw [this]; exact hnd
      · simpa using hs

/-- in the update path every proper subtree is one block -/
theorem updatePath_contig {r : Nat} {ks : List RTree} (hwf : (node r ks).WF) {p : List Nat} {s : Nat}
    (hshape : UpShape r ks p s) : ∀ s' ∈ subtreesL ks, Contig (ids s') p := by
  intro s' hs'
  simp only [WF, ids_node, List.nodup_cons] at hwf
  obtain ⟨hr, hnd⟩ := hwf
  have hrids := rids_nodup hnd
  have hs'sub := subtrees_ids.2 ks s' hs'
  rcases hshape with ⟨rfl, _⟩ | ⟨ki, up, rfl, hup, rfl⟩ | ⟨ki, kj, up, dn, f, hki, hkj, hne, hup, hdn, rfl⟩
  · simp at hs'
  · simp at hs' hnd
    have c1 := (sweepUp_contig s).1 ki up hup hnd s' hs'
    apply c1.append_out
    intro y hy hys
    simp at hy; subst hy
    exact hr (by simpa using hs'sub y hys)
  · obtain ⟨k, hk, hsk⟩ := mem_subtreesL.mp hs'
    have hsub := subtrees_ids.1 k s' hsk
    have hupperm := (((sweepUp_spec s).1 ki).1 up hup).1
    have hdnperm := (((sweepDown_spec f).1 kj).1 dn hdn).1
    have hp2 := idsL_remove_two hrids hki hkj hne
    have hnd2 := hp2.nodup hnd
    simp only [List.nodup_append, List.mem_append] at hnd2
    generalize hkeep : ks.filter (fun k => !(k.rid == ki.rid || k.rid == kj.rid)) = keep at *
    have hkeepsub : ∀ y ∈ idsL keep, y ∈ idsL ks := by
      intro y hy
      exact hp2.symm.subset (by simp [hy])
    by_cases h1 : k.rid = ki.rid
    · have := eq_of_rid_eq hrids hk hki h1
      subst this
      have c1 := (sweepUp_contig s).1 k up hup hnd2.1.1 s' hsk
      apply c1.append_out
      intro y hy hys
      have hyk := hsub y hys
      simp only [List.mem_append, List.mem_singleton] at hy
      rcases hy with (hy | hy) | hy
      · exact hnd2.2.2 y (Or.inl hyk) y (mem_idsL_of_mem_postorderL hy) rfl
      · subst hy; exact hr (ids_subset_idsL hk y hyk)
      · exact hnd2.1.2.2 y hyk y (hdnperm.subset hy) rfl
    · by_cases h2 : k.rid = kj.rid
      · have := eq_of_rid_eq hrids hk hkj h2
        subst this
        have c1 := (sweepDown_contig f).1 k dn hdn hnd2.1.2.1 s' hsk
        have c2 := c1.out_append (m := up ++ (postorderL keep ++ [r])) (by
          intro y hy hys
          have hyk := hsub y hys
          simp only [List.mem_append, List.mem_singleton] at hy
          rcases hy with hy | hy | hy
          · exact hnd2.1.2.2 y (hupperm.subset hy) y hyk rfl
          · exact hnd2.2.2 y (Or.inr hyk) y (mem_idsL_of_mem_postorderL hy) rfl
          · subst hy; exact hr (ids_subset_idsL hk y hyk))
        simpa using c2
      · have hkk : k ∈ keep := by
          rw [← hkeep, List.mem_filter]
          exact ⟨hk, by simp [h1, h2]⟩
        have hs'k : s' ∈ subtreesL keep := mem_subtreesL.mpr ⟨k, hkk, hsk⟩
        have hsubk := subtrees_ids.2 keep s' hs'k
        have c1 := postorder_contig.2 keep hnd2.2.1 s' hs'k
        have c2 := c1.append_out (m := [r] ++ dn) (by
          intro y hy hys
          have hyk := hsubk y hys
          simp only [List.mem_append, List.mem_singleton] at hy
          rcases hy with hy | hy
          · subst hy; exact hr (hkeepsub y hyk)
          · exact hnd2.2.2 y (Or.inr (hdnperm.subset hy)) y hyk rfl)
        have c3 := c2.out_append (m := up) (by
          intro y hy hys
          have hyk := hsubk y hys
          exact hnd2.2.2 y (Or.inl (hupperm.subset hy)) y hyk rfl)
        simpa using c3

end RTree
end Ptn.C17
