import Ptn.C17.Cache
import Ptn.C17.RootStep
/-! Toward "the first hop from `u_i` to `u_{i+1}` is the first hop from `u_i` to the last node of the
update path": ancestor-free steps, transfer between a tree and the children of its root. -/
namespace Ptn.C17
namespace RTree

/-- `a` is not on the way from the root to `b` -/
def NotAnc (t : RTree) (a b : Nat) : Prop := ∀ p, pathDown b t = some p → a ∉ p
def NotAncL (ts : List RTree) (a b : Nat) : Prop := ∀ p, pathDownL b ts = some p → a ∉ p

/-- a step `a → b` of a sweep whose target is `f`: either `a` is above neither `b` nor `f`
    (both first hops go to the parent of `a`), or `a` is above both, through the same child -/
def StepOK (t : RTree) (f a b : Nat) : Prop :=
  (NotAnc t a b ∧ NotAnc t a f) ∨
  (∃ v l1 l2 l1' l2', pathDown b t = some (l1 ++ a :: v :: l2) ∧
      pathDown f t = some (l1' ++ a :: v :: l2'))

theorem chain_append {R : Nat → Nat → Prop} : ∀ {l1 l2 : List Nat}, Chain R l1 → Chain R l2 →
    (∀ y ∈ l1, ∀ z ∈ l2, R y z) → Chain R (l1 ++ l2)
  | [], _, _, h2, _ => h2
  | [a], l2, _, h2, hx => by
    cases l2 with
    | nil => simp [Chain]
    | cons b l => exact chain_cons_cons.mpr ⟨hx a (by simp) b (by simp), h2⟩
  | a :: b :: l1, l2, h1, h2, hx => by
    have h1' := chain_cons_cons.mp h1
    have := chain_append (l1 := b :: l1) h1'.2 h2 (fun y hy z hz => hx y (by simp [hy]) z hz)
    exact chain_cons_cons.mpr ⟨h1'.1, this⟩

theorem chain_mono_mem {R S : Nat → Nat → Prop} : ∀ {l : List Nat},
    (∀ a ∈ l, ∀ b ∈ l, R a b → S a b) → Chain R l → Chain S l
  | [], _, _ => by simp [Chain]
  | [_], _, _ => by simp [Chain]
  | a :: b :: l, h, hc => by
    have hc' := chain_cons_cons.mp hc
    exact chain_cons_cons.mpr ⟨h a (by simp) b (by simp) hc'.1,
      chain_mono_mem (fun x hx y hy => h x (by simp [hx]) y (by simp [hy])) hc'.2⟩

theorem exists_kid_of_mem_idsL {b : Nat} : ∀ {ts : List RTree}, b ∈ idsL ts → ∃ k ∈ ts, b ∈ ids k
  | k :: ts, h => by
    simp at h
    rcases h with h | h
    · exact ⟨k, by simp, h⟩
    · obtain ⟨k', hk', hb⟩ := exists_kid_of_mem_idsL h
      exact ⟨k', by simp [hk'], hb⟩

/-- the root path of a node of a sub-forest of the children of the root -/
theorem pathDown_in_forest {r : Nat} {ks : List RTree} (hT : (r :: idsL ks).Nodup)
    {fs : List RTree} (hsub : ∀ k ∈ fs, k ∈ ks) {b : Nat} (hb : b ∈ idsL fs) :
    ∃ k q, k ∈ fs ∧ pathDown b k = some q ∧ pathDown b (node r ks) = some (r :: q) ∧
      ∀ x ∈ q, x ∈ idsL fs := by
  obtain ⟨k, hk, hbk⟩ := exists_kid_of_mem_idsL hb
  obtain ⟨q, hq⟩ := pathDown_some_of_mem hbk
  have hnd := List.nodup_cons.mp hT
  have hrb : ¬ r = b := fun e => hnd.1 (e ▸ ids_subset_idsL (hsub k hk) b hbk)
  refine ⟨k, q, hk, hq, ?_, ?_⟩
  · simp [hrb, pathDownL_of_mem hnd.2 (hsub k hk) hq]
  · intro x hx
    exact ids_subset_idsL hk x ((pathDown_subset b).1 k q hq x hx)

theorem notAnc_forest_cross {r : Nat} {ks : List RTree} (hT : (r :: idsL ks).Nodup)
    {fs : List RTree} (hsub : ∀ k ∈ fs, k ∈ ks) {a b : Nat} (hb : b ∈ idsL fs) (har : a ≠ r)
    (ha : a ∉ idsL fs) : NotAnc (node r ks) a b := by
  obtain ⟨k, q, _, _, hp, hq⟩ := pathDown_in_forest hT hsub hb
  intro p hp'
  rw [hp] at hp'; simp at hp'; subst hp'
  simp only [List.mem_cons, not_or]
  exact ⟨har, fun h => ha (hq a h)⟩

theorem notAnc_forest {r : Nat} {ks : List RTree} (hT : (r :: idsL ks).Nodup)
    {fs : List RTree} (hsub : ∀ k ∈ fs, k ∈ ks) (hfs : (idsL fs).Nodup) {a b : Nat}
    (hb : b ∈ idsL fs) (har : a ≠ r) (h : NotAncL fs a b) : NotAnc (node r ks) a b := by
  obtain ⟨k, q, hk, hq, hp, _⟩ := pathDown_in_forest hT hsub hb
  intro p hp'
  rw [hp] at hp'; simp at hp'; subst hp'
  simp only [List.mem_cons, not_or]
  exact ⟨har, h q (pathDownL_of_mem hfs hk hq)⟩

theorem notAnc_kid {r : Nat} {ks : List RTree} (hT : (r :: idsL ks).Nodup) {k : RTree}
    (hk : k ∈ ks) {a b : Nat} (hb : b ∈ ids k) (har : a ≠ r) (h : NotAnc k a b) :
    NotAnc (node r ks) a b := by
  obtain ⟨q, hq⟩ := pathDown_some_of_mem hb
  have hnd := List.nodup_cons.mp hT
  have hrb : ¬ r = b := fun e => hnd.1 (e ▸ ids_subset_idsL hk b hb)
  intro p hp
  simp [hrb, pathDownL_of_mem hnd.2 hk hq] at hp
  subst hp
  simp only [List.mem_cons, not_or]
  exact ⟨har, h q hq⟩

theorem notAnc_root {r : Nat} {ks : List RTree} {a : Nat} (har : a ≠ r) :
    NotAnc (node r ks) a r := by
  intro p hp
  simp at hp; subst hp; simpa using har

theorem stepOK_kid {r : Nat} {ks : List RTree} (hT : (r :: idsL ks).Nodup) {k : RTree}
    (hk : k ∈ ks) {f a b : Nat} (hf : f ∈ ids k) (ha : a ∈ ids k) (hb : b ∈ ids k)
    (h : StepOK k f a b) : StepOK (node r ks) f a b := by
  have hnd := List.nodup_cons.mp hT
  have har : a ≠ r := fun e => hnd.1 (e ▸ ids_subset_idsL hk a ha)
  have lift : ∀ {y : Nat} {q : List Nat}, pathDown y k = some q →
      pathDown y (node r ks) = some (r :: q) := by
    intro y q hq
    have hy := mem_of_pathDown hq
    have hry : ¬ r = y := fun e => hnd.1 (e ▸ ids_subset_idsL hk y hy)
    simp [hry, pathDownL_of_mem hnd.2 hk hq]
  rcases h with ⟨h1, h2⟩ | ⟨v, l1, l2, l1', l2', h1, h2⟩
  · exact Or.inl ⟨notAnc_kid hT hk hb har h1, notAnc_kid hT hk hf har h2⟩
  · exact Or.inr ⟨v, r :: l1, l2, r :: l1', l2', by simpa using lift h1, by simpa using lift h2⟩

/-- in the post-order no node is followed by one of its descendants -/
theorem postorder_notAnc :
    (∀ t, (ids t).Nodup → Chain (NotAnc t) (postorder t)) ∧
    (∀ ts, (idsL ts).Nodup → Chain (NotAncL ts) (postorderL ts)) := by
  apply induct
  · intro i ks ih hnd
    have hT : (i :: idsL ks).Nodup := by simpa using hnd
    have hnd' := List.nodup_cons.mp hT
    simp only [postorder_node]
    apply chain_append
    · apply chain_mono_mem _ (ih hnd'.2)
      intro a ha b hb hab
      have ha' := (postorder_perm.2 ks).subset ha
      have hb' := (postorder_perm.2 ks).subset hb
      exact notAnc_forest hT (fun k hk => hk) hnd'.2 hb' (fun e => hnd'.1 (e ▸ ha')) hab
    · simp [Chain]
    · intro y hy z hz
      simp at hz; subst hz
      have hy' := (postorder_perm.2 ks).subset hy
      exact notAnc_root (fun e => hnd'.1 (e ▸ hy'))
  · simp [Chain]
  · intro k ts ihk ihts hnd
    simp only [idsL_cons] at hnd
    rw [List.nodup_append] at hnd
    obtain ⟨hn1, hn2, hdis⟩ := hnd
    simp only [postorderL_cons]
    apply chain_append
    · apply chain_mono_mem _ (ihk hn1)
      intro a _ b hb hab p hp
      have hb' := (postorder_perm.1 k).subset hb
      obtain ⟨q, hq⟩ := pathDown_some_of_mem hb'
      rw [pathDownL_cons_some hq] at hp; simp at hp; subst hp
      exact hab q hq
    · apply chain_mono_mem _ (ihts hn2)
      intro a _ b hb hab p hp
      have hb' := (postorder_perm.2 ts).subset hb
      have hbk : b ∉ ids k := fun h => hdis b h b hb' rfl
      rw [pathDownL_cons_none (pathDown_none_of_not_mem hbk)] at hp
      exact hab p hp
    · intro y hy z hz p hp
      have hy' := (postorder_perm.1 k).subset hy
      have hz' := (postorder_perm.2 ts).subset hz
      have hzk : z ∉ ids k := fun h => hdis z h z hz' rfl
      rw [pathDownL_cons_none (pathDown_none_of_not_mem hzk)] at hp
      intro hyp
      exact hdis y hy' y ((pathDown_subset z).2 ts p hp y hyp) rfl

end RTree
end Ptn.C17
