import Ptn.C17.UpdatePath
/-! The last two nodes of the update path are neighbours. -/
namespace Ptn.C17
namespace RTree

/-- the upward sweep of a subtree ends at the root of that subtree -/
theorem sweepUp_last (s : Nat) :
    (∀ k p, sweepUp s k = some p → p.getLast? = some k.rid) ∧
    (∀ ks r pre p, sweepUpL s r pre ks = some p → p.getLast? = some r) := by
  apply induct
  · intro r ks ih p hp
    rw [sweepUp_node] at hp
    by_cases hrs : r = s
    · simp [hrs] at hp; subst hp; simp [rid, hrs]
    · simp [hrs] at hp
      simpa [rid] using ih r [] p hp
  · intro r pre p hp; simp at hp
  · intro k post _ ihpost r pre p hp
    rcases sweepUpL_cons_cases s r pre k post with ⟨p0, h1, h2⟩ | ⟨h1, h2⟩
    · rw [h2] at hp; simp at hp; subst hp; simp
    · rw [h2] at hp; exact ihpost r (pre ++ [k]) p hp

/-- the downward sweep toward a leaf `f` ends with the parent of `f` followed by `f` -/
theorem sweepDown_last_two (f : Nat) :
    (∀ k p, sweepDown f k = some p → (∀ e ∈ edges k, e.1 ≠ f) →
      (p = [f] ∧ k.rid = f) ∨ ∃ l y, p = l ++ [y, f] ∧ (y, f) ∈ edges k) ∧
    (∀ ks x pre p, sweepDownL f x pre ks = some p → (∀ e ∈ edgesL x ks, e.1 ≠ f) →
      ∃ l y, p = l ++ [y, f] ∧ (y, f) ∈ edgesL x ks) := by
  apply induct
  · intro x ks ih p hp hleaf
    rw [sweepDown_node] at hp
    by_cases hxf : x = f
    · subst hxf
      simp at hp; subst hp
      cases ks with
      | nil => left; simp [rid]
      | cons k ks' => exact absurd rfl (hleaf (x, k.rid) (by simp))
    · simp [hxf] at hp
      right
      simpa using ih x [] p hp (by simpa using hleaf)
  · intro x pre p hp; simp at hp
  · intro k post ihk ihpost x pre p hp hleaf
    rcases sweepDownL_cons_cases f x pre k post with ⟨p0, h1, h2⟩ | ⟨h1, h2⟩
    · rw [h2] at hp; simp at hp; subst hp
      rcases ihk p0 h1 (fun e he => hleaf e (by simp [he])) with ⟨rfl, hk⟩ | ⟨l, y, rfl, hy⟩
      · exact ⟨postorderL (pre ++ post), x, by simp, by simp [hk]⟩
      · exact ⟨postorderL (pre ++ post) ++ x :: l, y, by simp, by simp [hy]⟩
    · rw [h2] at hp
      obtain ⟨l, y, e, hy⟩ := ihpost x (pre ++ [k]) p hp (fun e he => hleaf e (by simp [he]))
      exact ⟨l, y, e, by simp [hy]⟩

theorem updatePath_last_two (r : Nat) (ks : List RTree) (hwf : (node r ks).WF) (hks : ks ≠ []) :
    ∃ p l y z, updatePath (node r ks) = some p ∧ p = l ++ [y, z] ∧ Adj (node r ks) y z := by
  obtain ⟨p, s, hp, _, _, _, hend, hshape⟩ := updatePath_spec r ks hwf
  rcases hshape with ⟨rfl, _⟩ | ⟨ki, up, rfl, hup, rfl⟩ | ⟨ki, kj, up, dn, f, hki, hkj, hne, hup, hdn, rfl⟩
  · exact absurd rfl hks
  · have hlast := (sweepUp_last s).1 ki up hup
    obtain ⟨l, hl⟩ : ∃ l, up = l ++ [ki.rid] := by
      cases hr : up.reverse with
      | nil =>
        have : up = [] := by simpa using hr
        subst this; simp at hlast
      | cons y l =>
        have e : up = l.reverse ++ [y] := by
          have := congrArg List.reverse hr; simpa using this
        subst e
        rw [List.getLast?_concat] at hlast
        simp at hlast
        exact ⟨l.reverse, by simp [hlast]⟩
    refine ⟨_, l, ki.rid, r, hp, by simp [hl], Or.inr (by simp)⟩
  · -- the last node is the leaf f
    have hdnlast := (((sweepDown_spec f).1 kj).1 dn hdn).2.2
    have hleaf : isLeaf (node r ks) f = true := by
      rcases hend with ⟨hlen, _⟩ | ⟨f', hl, hf'⟩
      · exfalso
        have h1 : ki ∈ ks := hki
        have h2 : kj ∈ ks := hkj
        cases ks with
        | nil => simp at h1
        | cons a l =>
          cases l with
          | nil =>
            simp at h1 h2
            exact hne (by rw [h1, h2])
          | cons b l' => simp at hlen
      · have : f' = f := by
          cases dn with
          | nil => simp at hdnlast
          | cons y l =>
            rw [List.getLast?_append, List.getLast?_append] at hl
            simp [hdnlast] at hl
            exact hl.symm
        exact this ▸ hf'
    have hleafk : ∀ e ∈ edges kj, e.1 ≠ f := fun e he =>
      (isLeaf_iff.mp hleaf) e (by simpa using edges_kid_subset (r := r) hkj he)
    rcases (sweepDown_last_two f).1 kj dn hdn hleafk with ⟨rfl, hk⟩ | ⟨l, y, rfl, hy⟩
    · refine ⟨_, up ++ postorderL (ks.filter (fun k => !(k.rid == ki.rid || k.rid == kj.rid))),
        r, f, hp, by simp, Or.inl ?_⟩
      -- (r, kj.rid) is an edge of the root
      have hmem : ∀ {ks' : List RTree}, kj ∈ ks' → (r, kj.rid) ∈ edgesL r ks' := by
        intro ks' h
        induction ks' with
        | nil => simp at h
        | cons a l ih =>
          rcases List.mem_cons.mp h with rfl | h
          · simp
          · simp [ih h]
      simpa [hk] using hmem hkj
    · refine ⟨_, up ++ postorderL (ks.filter (fun k => !(k.rid == ki.rid || k.rid == kj.rid)))
          ++ [r] ++ l, y, f, hp, by simp, Or.inl ?_⟩
      simpa using edges_kid_subset (r := r) hkj hy

end RTree
end Ptn.C17
