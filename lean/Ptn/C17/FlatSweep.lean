import Ptn.C17.FlatBranch
/-! Flat port = structural model: the loops of `find_path` over `main_path` and of
`path_down_from_root` over `main_path_down` are the structural sweeps. -/
namespace Ptn.C17
open RTree

namespace RTree

/-- the first child holding `s` decides the upward sweep -/
theorem sweepUpL_split {s r : Nat} : ∀ (ks pre0 : List RTree) {w : List Nat},
    sweepUpL s r pre0 ks = some w →
    ∃ pre k post wk, ks = pre ++ k :: post ∧ (∀ k' ∈ pre, s ∉ ids k') ∧ sweepUp s k = some wk ∧
      w = wk ++ postorderL (pre0 ++ pre ++ post) ++ [r]
  | [], pre0, w, h => by simp at h
  | k :: post, pre0, w, h => by
    rcases sweepUpL_cons_cases s r pre0 k post with ⟨wk, h1, h2⟩ | ⟨h1, h2⟩
    · rw [h2] at h; simp only [Option.some.injEq] at h
      exact ⟨[], k, post, wk, by simp, by simp, h1, by simp [← h]⟩
    · rw [h2] at h
      obtain ⟨pre, k', post', wk, e, hpre, hk, hw⟩ := sweepUpL_split post (pre0 ++ [k]) h
      refine ⟨k :: pre, k', post', wk, by simp [e], ?_, hk, by simp [hw]⟩
      intro k'' hk''
      rcases List.mem_cons.mp hk'' with rfl | hk''
      · exact ((sweepUp_spec s).1 _).2 h1
      · exact hpre k'' hk''

theorem sweepDownL_split {f r : Nat} : ∀ (ks pre0 : List RTree) {w : List Nat},
    sweepDownL f r pre0 ks = some w →
    ∃ pre k post wk, ks = pre ++ k :: post ∧ (∀ k' ∈ pre, f ∉ ids k') ∧ sweepDown f k = some wk ∧
      w = postorderL (pre0 ++ pre ++ post) ++ [r] ++ wk
  | [], pre0, w, h => by simp at h
  | k :: post, pre0, w, h => by
    rcases sweepDownL_cons_cases f r pre0 k post with ⟨wk, h1, h2⟩ | ⟨h1, h2⟩
    · rw [h2] at h; simp only [Option.some.injEq] at h
      exact ⟨[], k, post, wk, by simp, by simp, h1, by simp [← h]⟩
    · rw [h2] at h
      obtain ⟨pre, k', post', wk, e, hpre, hk, hw⟩ := sweepDownL_split post (pre0 ++ [k]) h
      refine ⟨k :: pre, k', post', wk, by simp [e], ?_, hk, by simp [hw]⟩
      intro k'' hk''
      rcases List.mem_cons.mp hk'' with rfl | hk''
      · exact ((sweepDown_spec f).1 _).2 h1
      · exact hpre k'' hk''

theorem pathDownL_skip {s : Nat} : ∀ (pre : List RTree) (rest : List RTree),
    (∀ k' ∈ pre, s ∉ ids k') → pathDownL s (pre ++ rest) = pathDownL s rest
  | [], _, _ => by simp
  | k :: pre, rest, h => by
    have h1 := h k (by simp)
    rw [List.cons_append, pathDownL_cons_none (pathDown_none_of_not_mem h1)]
    exact pathDownL_skip pre rest (fun k' hk' => h k' (by simp [hk']))

/-- the root path below a node that is not the target: through the first child holding it -/
theorem pathDown_split {s r : Nat} {pre post : List RTree} {k : RTree} (hrs : r ≠ s)
    (hpre : ∀ k' ∈ pre, s ∉ ids k') (hk : s ∈ ids k) :
    ∃ qk, pathDown s k = some qk ∧ pathDown s (node r (pre ++ k :: post)) = some (r :: qk) := by
  obtain ⟨qk, hq⟩ := pathDown_some_of_mem hk
  refine ⟨qk, hq, ?_⟩
  simp [hrs, pathDownL_skip pre (k :: post) hpre, pathDownL_cons_some hq]

end RTree

/-- children on the listed path are dropped, the others kept (`child_id not in main_path`) -/
theorem filter_off_path {pre post : List RTree} {k : RTree} {L : List Nat}
    (hk : k.rid ∈ L) (hpre : ∀ k' ∈ pre, k'.rid ∉ L) (hpost : ∀ k' ∈ post, k'.rid ∉ L) :
    ((pre ++ k :: post).map rid).filter (fun c => !L.contains c) = (pre ++ post).map rid := by
  rw [filter_rids, List.filter_append, List.filter_cons]
  have h1 : pre.filter (fun k' => !L.contains k'.rid) = pre :=
    List.filter_eq_self.mpr (fun k' hk' => by simpa using hpre k' hk')
  have h2 : post.filter (fun k' => !L.contains k'.rid) = post :=
    List.filter_eq_self.mpr (fun k' hk' => by simpa using hpost k' hk')
  have h3 : (!L.contains k.rid) = false := by simpa using hk
  rw [h1, h2, h3]; simp

theorem filter_none_on_path {ks : List RTree} {L : List Nat} (h : ∀ k' ∈ ks, k'.rid ∉ L) :
    (ks.map rid).filter (fun c => !L.contains c) = ks.map rid := by
  rw [filter_rids]
  congr 1
  exact List.filter_eq_self.mpr (fun k' hk' => by simpa using h k' hk')

/-- body of the loop of `find_path` -/
def upStep (ft : FTree) (mainPath path : List Nat) (origin : Nat) : Option (List Nat) := do
  let ext ← if some origin != ft.root then ft.pathForBranch mainPath origin
            else ft.pathDownFromRoot mainPath path
  pure (path ++ ext)

/-- body of the loop of `path_down_from_root` -/
def downStep (ft : FTree) (r : Nat) (mainPath mpd acc : List Nat) (origin : Nat) :
    Option (List Nat) := do
  let bp ← if origin == r then ft.branchDownRoot mainPath mpd else ft.branchDown origin mpd
  pure (acc ++ bp)

theorem upStep_branch {ft : FTree} {t : RTree} (h : Mirror ft t) {mainPath path : List Nat}
    {x : Nat} (hx : x ≠ t.rid) {p : Option Nat} {kidIds : List Nat}
    (hget : ft.get? x = some ⟨p, kidIds⟩) {fs : List RTree} (hsm : Small ft fs)
    (hfilter : kidIds.filter (fun c => !mainPath.contains c) = fs.map rid) :
    upStep ft mainPath path x = some (path ++ postorderL fs ++ [x]) := by
  have hne : (some x != ft.root) = true := by
    rw [h.2.1]; simpa using hx
  simp only [upStep, hne, if_true, FTree.pathForBranch, hget, Option.bind_eq_bind,
    Option.bind_some, hfilter, branchesThen_eq fs hsm x]
  simp

theorem downStep_branch {ft : FTree} {r : Nat} {mainPath mpd acc : List Nat}
    {x : Nat} (hx : x ≠ r) {p : Option Nat} {kidIds : List Nat}
    (hget : ft.get? x = some ⟨p, kidIds⟩) {fs : List RTree} (hsm : Small ft fs)
    (hfilter : kidIds.filter (fun c => !mpd.contains c) = fs.map rid) :
    downStep ft r mainPath mpd acc x = some (acc ++ postorderL fs ++ [x]) := by
  have hne : (x == r) = false := by simpa using hx
  simp only [downStep, hne, FTree.branchDown, hget, Option.bind_eq_bind,
    Option.bind_some, hfilter, branchesThen_eq fs hsm x]
  simp

/-- facts about a subtree `node r' ks` of a mirrored tree -/
theorem Mirror.node_facts {ft : FTree} {t : RTree} (h : Mirror ft t) {r' : Nat} {ks : List RTree}
    (hk : node r' ks ∈ subtrees t) :
    (∃ p, ft.get? r' = some ⟨p, ks.map rid⟩) ∧ Small ft ks ∧ r' ∉ idsL ks ∧ (idsL ks).Nodup ∧
      ∀ k' ∈ ks, k' ∈ subtrees t := by
  have hget := h.kidsOK (node r' ks) hk
  have hsm : Small ft ks := by simpa [kids] using h.small_kids hk
  have hsub : (∀ t, ∀ s ∈ subtrees t, (ids s).Sublist (ids t)) ∧
      (∀ ts, ∀ s ∈ subtreesL ts, (ids s).Sublist (idsL ts)) := by
    apply induct
    · intro i ks ih s hs
      simp only [subtrees_node, List.mem_cons] at hs
      rcases hs with rfl | hs
      · exact List.Sublist.refl _
      · simpa using (ih s hs).trans (List.sublist_cons_self _ _)
    · simp
    · intro t ts iht ihts s hs
      simp only [subtreesL_cons, List.mem_append] at hs
      rcases hs with hs | hs
      · simpa using (iht s hs).trans (List.sublist_append_left _ _)
      · simpa using (ihts s hs).trans (List.sublist_append_right _ _)
  have hnd : (ids (node r' ks)).Nodup := (hsub.1 t _ hk).nodup h.2.2
  simp only [ids_node, List.nodup_cons] at hnd
  have htrans : (∀ t, ∀ s ∈ subtrees t, ∀ s' ∈ subtrees s, s' ∈ subtrees t) ∧
      (∀ ts, ∀ s ∈ subtreesL ts, ∀ s' ∈ subtrees s, s' ∈ subtreesL ts) := by
    apply induct
    · intro i ks ih s hs s' hs'
      simp only [subtrees_node, List.mem_cons] at hs ⊢
      rcases hs with rfl | hs
      · simpa using hs'
      · exact Or.inr (ih s hs s' hs')
    · simp
    · intro t ts iht ihts s hs s' hs'
      simp only [subtreesL_cons, List.mem_append] at hs ⊢
      rcases hs with hs | hs
      · exact Or.inl (iht s hs s' hs')
      · exact Or.inr (ihts s hs s' hs')
  refine ⟨by simpa [rid, kids] using hget, hsm, hnd.1, hnd.2, ?_⟩
  intro k' hk'
  apply htrans.1 t _ hk k'
  simp only [subtrees_node, List.mem_cons]
  exact Or.inr (mem_subtreesL.mpr ⟨k', hk', by cases k'; simp⟩)

/-- The loop of `find_path` over the part of `main_path` inside a subtree produces the upward
    sweep of that subtree. -/
theorem up_loop {ft : FTree} {t : RTree} (h : Mirror ft t) (mainPath : List Nat) (s : Nat) :
    (∀ k, k ∈ subtrees t → t.rid ∉ ids k → ∀ q w, pathDown s k = some q → sweepUp s k = some w →
      (∀ x ∈ ids k, x ∈ mainPath ↔ x ∈ q) →
      ∀ acc, q.reverse.foldlM (upStep ft mainPath) acc = some (acc ++ w)) ∧
    (∀ ks : List RTree, ∀ k ∈ ks, k ∈ subtrees t → t.rid ∉ ids k → ∀ q w, pathDown s k = some q →
      sweepUp s k = some w → (∀ x ∈ ids k, x ∈ mainPath ↔ x ∈ q) →
      ∀ acc, q.reverse.foldlM (upStep ft mainPath) acc = some (acc ++ w)) := by
  apply induct
  · intro r' ks ih hk hroot q w hq hw hmp acc
    obtain ⟨⟨p, hget⟩, hsm, hr'ks, hndks, hkids⟩ := h.node_facts hk
    have hr't : r' ≠ t.rid := fun e => hroot (by simp [e])
    rw [sweepUp_node] at hw
    by_cases hrs : r' = s
    · subst hrs
      simp at hq hw; subst hq; subst hw
      have hfilter : (ks.map rid).filter (fun c => !mainPath.contains c) = ks.map rid := by
        apply filter_none_on_path
        intro k' hk' hin
        have hmem : k'.rid ∈ ids (node r' ks) := by
          simp [ids_subset_idsL hk' k'.rid (rid_mem_ids k')]
        have := (hmp k'.rid hmem).mp hin
        simp at this
        exact hr'ks (this ▸ ids_subset_idsL hk' k'.rid (rid_mem_ids k'))
      simp only [List.reverse_cons, List.reverse_nil, List.nil_append, List.foldlM_cons,
        List.foldlM_nil, upStep_branch h hr't hget hsm hfilter, Option.bind_eq_bind,
        Option.bind_some, Option.pure_def]
      simp
    · simp [hrs] at hw
      obtain ⟨pre, ki, post, wi, rfl, hpre, hwi, rfl⟩ := sweepUpL_split ks [] hw
      have hski := (((sweepUp_spec s).1 ki).1 wi hwi).2.1
      obtain ⟨qi, hqi, hqk⟩ := pathDown_split (r := r') (post := post) hrs hpre hski
      rw [hq] at hqk; simp at hqk; subst hqk
      have hkimem : ki ∈ pre ++ ki :: post := by simp
      -- disjointness of the children
      have hnd' := hndks
      simp only [idsL_append, idsL_cons, List.nodup_append, List.mem_append] at hnd'
      have hqi_sub := (pathDown_subset s).1 ki qi hqi
      have hhead := ((pathDown_ends s).1 ki qi hqi).1
      have hkirid : ki.rid ∈ qi := List.mem_of_head? hhead
      have hoff : ∀ k' ∈ pre ++ post, k'.rid ∉ mainPath := by
        intro k' hk' hin
        have hk'ks : k' ∈ pre ++ ki :: post := by
          simp at hk' ⊢; rcases hk' with h1 | h1
          · exact Or.inl h1
          · exact Or.inr (Or.inr h1)
        have hmem : k'.rid ∈ ids (node r' (pre ++ ki :: post)) := by
          simp only [ids_node, List.mem_cons]
          exact Or.inr (ids_subset_idsL hk'ks k'.rid (rid_mem_ids k'))
        have := (hmp k'.rid hmem).mp hin
        simp only [List.mem_cons] at this
        rcases this with e | hin'
        · exact hr'ks (e ▸ ids_subset_idsL hk'ks k'.rid (rid_mem_ids k'))
        · have h1 := hqi_sub _ hin'
          simp at hk'
          rcases hk' with hp' | hp'
          · exact hnd'.2.2 k'.rid (ids_subset_idsL hp' _ (rid_mem_ids k')) k'.rid (Or.inl h1) rfl
          · exact hnd'.2.1.2.2 k'.rid h1 k'.rid (ids_subset_idsL hp' _ (rid_mem_ids k')) rfl
      have hon : ki.rid ∈ mainPath := by
        apply (hmp ki.rid (by
          simp only [ids_node, List.mem_cons]
          exact Or.inr (ids_subset_idsL hkimem _ (rid_mem_ids ki)))).mpr
        simp [hkirid]
      have hfilter : ((pre ++ ki :: post).map rid).filter (fun c => !mainPath.contains c)
          = (pre ++ post).map rid :=
        filter_off_path hon (fun k' hk' => hoff k' (by simp [hk']))
          (fun k' hk' => hoff k' (by simp [hk']))
      have hsm' : Small ft (pre ++ post) := by
        intro k' hk'
        apply hsm k'
        simp at hk' ⊢; rcases hk' with h1 | h1
        · exact Or.inl h1
        · exact Or.inr (Or.inr h1)
      -- the loop inside the child
      have hih := ih ki hkimem (hkids ki hkimem)
        (fun hin => hroot (by simp [ids_subset_idsL hkimem _ hin])) qi wi hqi hwi (by
          intro x hx
          have hxk : x ∈ ids (node r' (pre ++ ki :: post)) := by
            simp [ids_subset_idsL hkimem x hx]
          rw [hmp x hxk]
          simp only [List.mem_cons]
          constructor
          · rintro (e | h1)
            · exact absurd (e ▸ ids_subset_idsL hkimem x hx) hr'ks
            · exact h1
          · exact Or.inr) acc
      rw [List.reverse_cons, List.foldlM_append, hih]
      simp only [Option.bind_eq_bind, Option.bind_some, List.foldlM_cons, List.foldlM_nil,
        upStep_branch h hr't hget hsm' hfilter, Option.pure_def]
      simp
  · intro k hk; simp at hk
  · intro k ks ihk ihks k' hk'
    rcases List.mem_cons.mp hk' with rfl | hk'
    · exact ihk
    · exact ihks k' hk'

/-- The loop of `path_down_from_root` over the part of `main_path_down` inside a subtree (not
    holding the root) produces the downward sweep of that subtree. -/
theorem down_loop {ft : FTree} {t : RTree} (h : Mirror ft t) (mainPath0 mainPath : List Nat) (s : Nat) :
    (∀ k, k ∈ subtrees t → t.rid ∉ ids k → ∀ q w, pathDown s k = some q → sweepDown s k = some w →
      (∀ x ∈ ids k, x ∈ mainPath ↔ x ∈ q) →
      ∀ acc, q.foldlM (downStep ft t.rid mainPath0 mainPath) acc = some (acc ++ w)) ∧
    (∀ ks : List RTree, ∀ k ∈ ks, k ∈ subtrees t → t.rid ∉ ids k → ∀ q w, pathDown s k = some q →
      sweepDown s k = some w → (∀ x ∈ ids k, x ∈ mainPath ↔ x ∈ q) →
      ∀ acc, q.foldlM (downStep ft t.rid mainPath0 mainPath) acc = some (acc ++ w)) := by
  apply induct
  · intro r' ks ih hk hroot q w hq hw hmp acc
    obtain ⟨⟨p, hget⟩, hsm, hr'ks, hndks, hkids⟩ := h.node_facts hk
    have hr't : r' ≠ t.rid := fun e => hroot (by simp [e])
    rw [sweepDown_node] at hw
    by_cases hrs : r' = s
    · subst hrs
      simp at hq hw; subst hq; subst hw
      have hfilter : (ks.map rid).filter (fun c => !mainPath.contains c) = ks.map rid := by
        apply filter_none_on_path
        intro k' hk' hin
        have hmem : k'.rid ∈ ids (node r' ks) := by
          simp [ids_subset_idsL hk' k'.rid (rid_mem_ids k')]
        have := (hmp k'.rid hmem).mp hin
        simp at this
        exact hr'ks (this ▸ ids_subset_idsL hk' k'.rid (rid_mem_ids k'))
      simp only [List.foldlM_cons,
        List.foldlM_nil, downStep_branch hr't hget hsm hfilter, Option.bind_eq_bind,
        Option.bind_some, Option.pure_def]
      simp
    · simp [hrs] at hw
      obtain ⟨pre, ki, post, wi, rfl, hpre, hwi, rfl⟩ := sweepDownL_split ks [] hw
      have hski := (((sweepDown_spec s).1 ki).1 wi hwi).2.1
      obtain ⟨qi, hqi, hqk⟩ := pathDown_split (r := r') (post := post) hrs hpre hski
      rw [hq] at hqk; simp at hqk; subst hqk
      have hkimem : ki ∈ pre ++ ki :: post := by simp
      -- disjointness of the children
      have hnd' := hndks
      simp only [idsL_append, idsL_cons, List.nodup_append, List.mem_append] at hnd'
      have hqi_sub := (pathDown_subset s).1 ki qi hqi
      have hhead := ((pathDown_ends s).1 ki qi hqi).1
      have hkirid : ki.rid ∈ qi := List.mem_of_head? hhead
      have hoff : ∀ k' ∈ pre ++ post, k'.rid ∉ mainPath := by
        intro k' hk' hin
        have hk'ks : k' ∈ pre ++ ki :: post := by
          simp at hk' ⊢; rcases hk' with h1 | h1
          · exact Or.inl h1
          · exact Or.inr (Or.inr h1)
        have hmem : k'.rid ∈ ids (node r' (pre ++ ki :: post)) := by
          simp only [ids_node, List.mem_cons]
          exact Or.inr (ids_subset_idsL hk'ks k'.rid (rid_mem_ids k'))
        have := (hmp k'.rid hmem).mp hin
        simp only [List.mem_cons] at this
        rcases this with e | hin'
        · exact hr'ks (e ▸ ids_subset_idsL hk'ks k'.rid (rid_mem_ids k'))
        · have h1 := hqi_sub _ hin'
          simp at hk'
          rcases hk' with hp' | hp'
          · exact hnd'.2.2 k'.rid (ids_subset_idsL hp' _ (rid_mem_ids k')) k'.rid (Or.inl h1) rfl
          · exact hnd'.2.1.2.2 k'.rid h1 k'.rid (ids_subset_idsL hp' _ (rid_mem_ids k')) rfl
      have hon : ki.rid ∈ mainPath := by
        apply (hmp ki.rid (by
          simp only [ids_node, List.mem_cons]
          exact Or.inr (ids_subset_idsL hkimem _ (rid_mem_ids ki)))).mpr
        simp [hkirid]
      have hfilter : ((pre ++ ki :: post).map rid).filter (fun c => !mainPath.contains c)
          = (pre ++ post).map rid :=
        filter_off_path hon (fun k' hk' => hoff k' (by simp [hk']))
          (fun k' hk' => hoff k' (by simp [hk']))
      have hsm' : Small ft (pre ++ post) := by
        intro k' hk'
        apply hsm k'
        simp at hk' ⊢; rcases hk' with h1 | h1
        · exact Or.inl h1
        · exact Or.inr (Or.inr h1)
      -- the loop inside the child
      have hih := ih ki hkimem (hkids ki hkimem)
        (fun hin => hroot (by simp [ids_subset_idsL hkimem _ hin])) qi wi hqi hwi (by
          intro x hx
          have hxk : x ∈ ids (node r' (pre ++ ki :: post)) := by
            simp [ids_subset_idsL hkimem x hx]
          rw [hmp x hxk]
          simp only [List.mem_cons]
          constructor
          · rintro (e | h1)
            · exact absurd (e ▸ ids_subset_idsL hkimem x hx) hr'ks
            · exact h1
          · exact Or.inr) (acc ++ postorderL (pre ++ post) ++ [r'])
      simp only [List.foldlM_cons, downStep_branch hr't hget hsm' hfilter, Option.bind_eq_bind,
        Option.bind_some]
      rw [hih]
      simp
  · intro k hk; simp at hk
  · intro k ks ihk ihks k' hk'
    rcases List.mem_cons.mp hk' with rfl | hk'
    · exact ihk
    · exact ihks k' hk'

end Ptn.C17
