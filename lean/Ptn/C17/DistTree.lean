import Ptn.C17.Reroot
import Ptn.C17.Segments
/-! The distance table of a tree seen from a node `c`: every other node has exactly one neighbour
that is closer to `c` - the first node on its way to `c` - and all its other neighbours are farther
away by one.  (Input of the canonical-form gauge theorem of C03.) -/
namespace Ptn.C17
namespace RTree

theorem distanceToNode_spec {t : RTree} (hwf : t.WF) {c : Nat} (hc : c ∈ ids t) :
    ∃ tbl, distanceToNode t c = some tbl ∧ (tbl.map (·.1)).Perm (ids t) ∧
      ∀ v d, (v, d) ∈ tbl → ∃ p, pathFromTo t c v = some p ∧ d + 1 = p.length := by
  obtain ⟨r, hr⟩ := (reroot_isSome c).1 t [] hc
  obtain ⟨hrid, hperm, hadj⟩ := (reroot_spec c).1 t [] r hr
  simp only [idsL_nil, List.nil_append, edgesL_nil] at hperm hadj
  have hwfr : r.WF := hperm.symm.nodup hwf
  refine ⟨depths 0 r, by simp [distanceToNode, hr], ?_, ?_⟩
  · rw [depths_keys.1 r 0]; exact hperm
  · intro v d hvd
    obtain ⟨p, hp, hd⟩ := depths_value.1 r 0 v d hwfr hvd
    refine ⟨p, ?_, by omega⟩
    apply simple_path_eq_pathFromTo hwf
    obtain ⟨h1, h2, h3, h4, h5⟩ := pathDown_isSimplePath hwfr hp
    refine ⟨hrid ▸ h1, h2, fun x hx => hperm.subset (h3 x hx), ?_, h5⟩
    exact chain_mono (fun a b hab => (hadj a b).mp hab) h4

theorem adj_symm {t : RTree} {a b : Nat} (h : Adj t a b) : Adj t b a := h.symm

/-- the way back is the reversed way -/
theorem pathFromTo_reverse {t : RTree} (hwf : t.WF) {a b : Nat} {p : List Nat}
    (ha : a ∈ ids t) (hb : b ∈ ids t) (hp : pathFromTo t a b = some p) :
    pathFromTo t b a = some p.reverse := by
  obtain ⟨p', hp', h1, h2, h3, h4, h5⟩ := pathFromTo_isSimplePath hwf ha hb
  rw [hp] at hp'; simp at hp'; subst hp'
  apply simple_path_eq_pathFromTo hwf
  refine ⟨?_, ?_, fun x hx => h3 x (by simpa using hx), ?_, nodup_reverse.mpr h5⟩
  · rw [List.head?_reverse]; exact h2
  · rw [List.getLast?_reverse]; exact h1
  · exact chain_mono (fun x y h => adj_symm h) (chain_reverse h4)

/-- the rest of a way is the way of its second node -/
theorem pathFromTo_tail {t : RTree} (hwf : t.WF) {a c v : Nat} {rest : List Nat}
    (ha : a ∈ ids t) (hc : c ∈ ids t) (hp : pathFromTo t a c = some (a :: v :: rest)) :
    pathFromTo t v c = some (v :: rest) ∧ Adj t a v ∧ v ∈ ids t := by
  obtain ⟨p', hp', h1, h2, h3, h4, h5⟩ := pathFromTo_isSimplePath hwf ha hc
  rw [hp] at hp'; simp at hp'; subst hp'
  have h4' := chain_cons_cons.mp h4
  refine ⟨?_, h4'.1, h3 v (by simp)⟩
  apply simple_path_eq_pathFromTo hwf
  refine ⟨by simp, ?_, fun x hx => h3 x (by simp [hx]), h4'.2, (List.nodup_cons.mp h5).2⟩
  rw [List.getLast?_cons_cons] at h2; exact h2

/-- a neighbour of `a` other than the first node on the way from `a` to `c` reaches `c` through
    `a` -/
theorem pathFromTo_via {t : RTree} (hwf : t.WF) {a c v m : Nat} {rest : List Nat}
    (ha : a ∈ ids t) (hc : c ∈ ids t) (hp : pathFromTo t a c = some (a :: v :: rest))
    (hm : Adj t a m) (hmv : m ≠ v) : pathFromTo t m c = some (m :: a :: v :: rest) := by
  obtain ⟨p', hp', h1, h2, h3, h4, h5⟩ := pathFromTo_isSimplePath hwf ha hc
  rw [hp] at hp'; simp at hp'; subst hp'
  have hmi : m ∈ ids t := by
    rcases hm with h | h
    · exact (edge_mem_ids h).2
    · exact (edge_mem_ids h).1
  have hma : m ≠ a := by
    intro e; subst e
    rcases hm with h | h <;> exact edge_ne hwf h rfl
  have hnot : m ∉ a :: v :: rest := by
    intro hmem
    simp only [List.mem_cons] at hmem
    rcases hmem with h | h | h
    · exact hma h
    · exact hmv h
    · -- the way a, v, …, m and the edge a - m would be two different simple paths
      obtain ⟨r1, r2, rfl⟩ := List.append_of_mem h
      have hs1 : IsSimplePath t (a :: v :: (r1 ++ [m])) a m := by
        refine ⟨by simp, ?_, ?_, ?_, ?_⟩
        · have : a :: v :: (r1 ++ [m]) = (a :: v :: r1) ++ [m] := by simp
          rw [this, List.getLast?_concat]
        · intro x hx; apply h3 x; simp at hx ⊢
          rcases hx with h | h | h | h
          · exact Or.inl h
          · exact Or.inr (Or.inl h)
          · exact Or.inr (Or.inr (Or.inl h))
          · exact Or.inr (Or.inr (Or.inr (Or.inl h)))
        · have e : a :: v :: (r1 ++ m :: r2) = (a :: v :: (r1 ++ [m])) ++ r2 := by simp
          rw [e] at h4
          -- a prefix of a chain is a chain
          have hpre : ∀ (l1 l2 : List Nat), Chain (Adj t) (l1 ++ l2) → Chain (Adj t) l1 := by
            intro l1
            induction l1 with
            | nil => intro _ _; simp [Chain]
            | cons x xs ih =>
              intro l2 hch
              cases xs with
              | nil => simp [Chain]
              | cons y ys =>
                have := chain_cons_cons.mp (by simpa using hch)
                exact chain_cons_cons.mpr ⟨this.1, ih l2 (by simpa using this.2)⟩
          exact hpre _ _ h4
        · have e : a :: v :: (r1 ++ m :: r2) = (a :: v :: (r1 ++ [m])) ++ r2 := by simp
          rw [e] at h5
          exact (List.nodup_append.mp h5).1
      have hs2 : IsSimplePath t [a, m] a m :=
        ⟨by simp, by simp, by intro x hx; simp at hx; rcases hx with rfl | rfl <;> assumption,
         by simp [Chain, hm], by simp; exact fun e => hma e.symm⟩
      have e1 := simple_path_eq_pathFromTo hwf hs1
      have e2 := simple_path_eq_pathFromTo hwf hs2
      rw [e1] at e2
      have := congrArg List.length (Option.some.inj e2)
      simp at this
  apply simple_path_eq_pathFromTo hwf
  refine ⟨by simp, ?_, ?_, chain_cons_cons.mpr ⟨adj_symm hm, h4⟩, List.nodup_cons.mpr ⟨hnot, h5⟩⟩
  · rw [List.getLast?_cons_cons]; exact h2
  · intro x hx
    rcases List.mem_cons.mp hx with rfl | hx
    · exact hmi
    · exact h3 x hx

end RTree

open RTree

/-- `m` is a neighbour of `n` exactly when it is listed by `neighbouring_nodes()` -/
theorem mem_nbrsOf (t : RTree) (n m : Nat) : m ∈ nbrsOf t n ↔ Adj t n m := by
  simp only [nbrsOf, List.mem_append, List.mem_map, List.mem_filter, beq_iff_eq, Adj]
  constructor
  · rintro (⟨e, ⟨he, h2⟩, h1⟩ | ⟨e, ⟨he, h1⟩, h2⟩)
    · right; obtain ⟨x, y⟩ := e; simp at h1 h2; subst h1; subst h2; exact he
    · left; obtain ⟨x, y⟩ := e; simp at h1 h2; subst h1; subst h2; exact he
  · rintro (h | h)
    · exact Or.inr ⟨(n, m), ⟨h, rfl⟩, rfl⟩
    · exact Or.inl ⟨(m, n), ⟨h, rfl⟩, rfl⟩

/-- The distance table seen from `c`: its keys are the nodes, `c` has distance 0, and every other
    node `n` at distance `d` has the first node on its way to `c` as a neighbour at distance `d - 1`
    while all its other neighbours are at distance `d + 1`. -/
theorem dist_table (t : RTree) (hwf : t.WF) (c : Nat) (hc : c ∈ ids t) :
    ∃ tbl, distanceToNode t c = some tbl ∧ (tbl.map (·.1)).Nodup ∧
      (tbl.map (·.1)).Perm (ids t) ∧ (c, 0) ∈ tbl ∧
      ∀ n d, (n, d) ∈ tbl → n ≠ c →
        ∃ v d', firstHop t n c = some v ∧ Adj t n v ∧ d = d' + 1 ∧ (v, d') ∈ tbl ∧
          ∀ m, Adj t n m → m ≠ v → (m, d + 1) ∈ tbl := by
  obtain ⟨tbl, htbl, hperm, hval⟩ := distanceToNode_spec hwf hc
  have hnd : (tbl.map (·.1)).Nodup := hperm.symm.nodup hwf
  -- the entry of a node: its distance is the length of its way to c minus one
  have entry : ∀ x, x ∈ ids t → ∀ q, pathFromTo t x c = some q → ∃ d, (x, d) ∈ tbl ∧ d + 1 = q.length := by
    intro x hx q hq
    have : x ∈ tbl.map (·.1) := hperm.symm.subset hx
    obtain ⟨e, he, rfl⟩ := List.mem_map.mp this
    obtain ⟨p, hp, hd⟩ := hval e.1 e.2 he
    have := pathFromTo_reverse hwf hc hx hp
    rw [hq] at this
    have hl : q.length = p.length := by rw [Option.some.inj this]; simp
    exact ⟨e.2, he, by omega⟩
  have uniq : ∀ x d d', (x, d) ∈ tbl → (x, d') ∈ tbl → d = d' := by
    intro x d d' h1 h2
    obtain ⟨p, hp, e1⟩ := hval x d h1
    obtain ⟨p', hp', e2⟩ := hval x d' h2
    rw [hp] at hp'; simp at hp'; subst hp'; omega
  refine ⟨tbl, htbl, hnd, hperm, ?_, ?_⟩
  · obtain ⟨d, hd, hl⟩ := entry c hc [c] (by simp [pathFromTo])
    simp at hl; subst hl; exact hd
  · intro n d hnd' hnc
    have hn : n ∈ ids t := hperm.subset (List.mem_map.mpr ⟨(n, d), hnd', rfl⟩)
    obtain ⟨q, hq, hs⟩ := pathFromTo_isSimplePath hwf hn hc
    -- the way from n to c has at least two nodes
    obtain ⟨v, rest, rfl⟩ : ∃ v rest, q = n :: v :: rest := by
      obtain ⟨h1, h2, _, _, _⟩ := hs
      cases q with
      | nil => simp at h1
      | cons x l =>
        simp at h1; subst h1
        cases l with
        | nil => simp at h2; exact absurd h2 hnc
        | cons v rest => exact ⟨v, rest, rfl⟩
    obtain ⟨hvq, hadj, hv⟩ := pathFromTo_tail hwf hn hc hq
    obtain ⟨dn, hdn, hln⟩ := entry n hn _ hq
    obtain ⟨dv, hdv, hlv⟩ := entry v hv _ hvq
    have hdd : d = dn := uniq n d dn hnd' hdn
    refine ⟨v, dv, firstHop_of_path hq, hadj, by simp at hln hlv; omega, hdv, ?_⟩
    intro m hm hmv
    have hmq := pathFromTo_via hwf hn hc hq hm hmv
    have hmi : m ∈ ids t := by
      rcases hm with h | h
      · exact (edge_mem_ids h).2
      · exact (edge_mem_ids h).1
    obtain ⟨dm, hdm, hlm⟩ := entry m hmi _ hmq
    have : dm = d + 1 := by simp at hln hlm; omega
    exact this ▸ hdm

end Ptn.C17
