import Ptn.C17.Contig
/-! The line-by-line flat port agrees with the structural model whenever the flat mirror is a valid
representation of the tree: same entries as `flatten t`, in any dict order. -/
namespace Ptn.C17
open RTree

/-- `ft` is a valid flat representation of `t`: its dict holds exactly the entries of `flatten t`
    (identifier ↦ parent, child identifiers in order) in an arbitrary insertion order, `root_id` is
    the root, and the identifiers are distinct. -/
def Mirror (ft : FTree) (t : RTree) : Prop :=
  ft.nodes.Perm (flattenAux none t) ∧ ft.root = some t.rid ∧ t.WF

namespace RTree

@[simp] theorem flattenAux_node (p : Option Nat) (i : Nat) (ks : List RTree) :
    flattenAux p (node i ks) = (i, ⟨p, ks.map rid⟩) :: flattenL (some i) ks := by simp [flattenAux]
@[simp] theorem flattenL_nil (p : Option Nat) : flattenL p [] = [] := by simp [flattenL]
@[simp] theorem flattenL_cons (p : Option Nat) (t : RTree) (ts : List RTree) :
    flattenL p (t :: ts) = flattenAux p t ++ flattenL p ts := by simp [flattenL]

/-- the keys of the flat mirror are the identifiers in pre-order -/
theorem flatten_keys :
    (∀ t p, (flattenAux p t).map (·.1) = ids t) ∧ (∀ ts p, (flattenL p ts).map (·.1) = idsL ts) := by
  apply induct
  · intro i ks ih p; simp [ih]
  · simp
  · intro t ts iht ihts p; simp [iht, ihts]

/-- the parent recorded for a node: `p0` for the root, otherwise its parent in the tree -/
theorem flatten_parent :
    (∀ t p0 x g, (x, g) ∈ flattenAux p0 t →
      (x = t.rid ∧ g.parent = p0) ∨ ∃ p, g.parent = some p ∧ (p, x) ∈ edges t) ∧
    (∀ ts i x g, (x, g) ∈ flattenL (some i) ts → ∃ p, g.parent = some p ∧ (p, x) ∈ edgesL i ts) := by
  apply induct
  · intro i ks ih p0 x g h
    simp at h
    rcases h with ⟨rfl, rfl⟩ | h
    · exact Or.inl ⟨rfl, rfl⟩
    · exact Or.inr (by simpa using ih i x g h)
  · simp
  · intro t ts iht ihts i x g h
    simp at h
    rcases h with h | h
    · rcases iht (some i) x g h with ⟨rfl, hp⟩ | ⟨p, hp, he⟩
      · exact ⟨i, hp, by simp⟩
      · exact ⟨p, hp, by simp [he]⟩
    · obtain ⟨p, hp, he⟩ := ihts i x g h
      exact ⟨p, hp, by simp [he]⟩

/-- every subtree has its entry: its root with the identifiers of its children in order -/
theorem flatten_subtree :
    (∀ t p0, ∀ s ∈ subtrees t, ∃ p, (s.rid, (⟨p, s.kids.map rid⟩ : GNode)) ∈ flattenAux p0 t) ∧
    (∀ ts p0, ∀ s ∈ subtreesL ts, ∃ p, (s.rid, (⟨p, s.kids.map rid⟩ : GNode)) ∈ flattenL p0 ts) := by
  apply induct
  · intro i ks ih p0 s hs
    simp at hs
    rcases hs with rfl | hs
    · exact ⟨p0, by simp [rid, kids]⟩
    · obtain ⟨p, hp⟩ := ih (some i) s hs
      exact ⟨p, by simp [hp]⟩
  · simp
  · intro t ts iht ihts p0 s hs
    simp at hs
    rcases hs with hs | hs
    · obtain ⟨p, hp⟩ := iht p0 s hs
      exact ⟨p, by simp [hp]⟩
    · obtain ⟨p, hp⟩ := ihts p0 s hs
      exact ⟨p, by simp [hp]⟩

end RTree

/-- lookup in an association list with distinct keys -/
theorem lookup_of_mem_nodup {l : List (Nat × GNode)} (hnd : (l.map (·.1)).Nodup) {x : Nat}
    {g : GNode} (h : (x, g) ∈ l) : l.lookup x = some g := by
  induction l with
  | nil => simp at h
  | cons e rest ih =>
    simp only [List.map_cons, List.nodup_cons] at hnd
    rcases List.mem_cons.mp h with rfl | h'
    · simp [List.lookup]
    · have hne : ¬ x = e.1 := fun e' => hnd.1 (e' ▸ List.mem_map.mpr ⟨(x, g), h', rfl⟩)
      have hb : (x == e.1) = false := by simpa using hne
      cases e with
      | mk k v =>
        simp only [List.lookup, hb]
        exact ih hnd.2 h'

theorem lookup_none_of_not_mem {l : List (Nat × GNode)} {x : Nat} (h : x ∉ l.map (·.1)) :
    l.lookup x = none := by
  induction l with
  | nil => simp
  | cons e rest ih =>
    obtain ⟨k, v⟩ := e
    simp only [List.map_cons, List.mem_cons, not_or] at h
    have : (x == k) = false := by simpa using h.1
    simp only [List.lookup, this]
    exact ih h.2

namespace Mirror

theorem keys_perm {ft : FTree} {t : RTree} (h : Mirror ft t) : (ft.nodes.map (·.1)).Perm (ids t) := by
  have := h.1.map (·.1)
  rwa [flatten_keys.1 t none] at this

theorem keys_nodup {ft : FTree} {t : RTree} (h : Mirror ft t) : (ft.nodes.map (·.1)).Nodup :=
  h.keys_perm.symm.nodup h.2.2

theorem get_of_mem {ft : FTree} {t : RTree} (h : Mirror ft t) {x : Nat} {g : GNode}
    (hm : (x, g) ∈ flattenAux none t) : ft.get? x = some g :=
  lookup_of_mem_nodup h.keys_nodup (h.1.symm.subset hm)

theorem get_none {ft : FTree} {t : RTree} (h : Mirror ft t) {x : Nat} (hx : x ∉ ids t) :
    ft.get? x = none :=
  lookup_none_of_not_mem (fun hm => hx (h.keys_perm.subset hm))

theorem get_some {ft : FTree} {t : RTree} (h : Mirror ft t) {x : Nat} (hx : x ∈ ids t) :
    ∃ g, ft.get? x = some g ∧ (x, g) ∈ flattenAux none t := by
  rw [← flatten_keys.1 t none] at hx
  obtain ⟨e, he, rfl⟩ := List.mem_map.mp hx
  exact ⟨e.2, h.get_of_mem he, he⟩

theorem fuel_eq {ft : FTree} {t : RTree} (h : Mirror ft t) : ft.fuel = (ids t).length + 1 := by
  have := h.keys_perm.length_eq
  simp at this
  simp [FTree.fuel, this]

end Mirror

/-- the parent-pointer walk computes the reversed root path -/
theorem findPathToRootF_eq {ft : FTree} {t : RTree} (h : Mirror ft t) :
    ∀ (n : Nat) (q : List Nat) (x : Nat), q.length = n → pathDown x t = some q →
      ∀ fuel, n ≤ fuel → ft.findPathToRootF fuel x = some q.reverse
  | 0, q, x, hl, hq, _, _ => by
    have : q = [] := List.length_eq_zero_iff.mp hl
    subst this
    have := ((pathDown_ends x).1 t [] hq).1
    simp at this
  | n + 1, q, x, hl, hq, fuel, hf => by
    obtain ⟨f, rfl⟩ : ∃ f, fuel = f + 1 := ⟨fuel - 1, by omega⟩
    have hx := mem_of_pathDown hq
    obtain ⟨g, hg, hmem⟩ := h.get_some hx
    rcases flatten_parent.1 t none x g hmem with ⟨rfl, hp⟩ | ⟨p, hp, he⟩
    · -- the root
      have hq' : q = [t.rid] := by
        cases t with
        | node i ks => simp [rid] at hq; exact hq.symm
      simp [FTree.findPathToRootF, hg, hp, hq']
    · obtain ⟨qp, h1, h2⟩ := pathDown_edge.1 t p x h.2.2 he
      rw [hq] at h2; simp at h2; subst h2
      have hlen : qp.length = n := by simp at hl; exact hl
      have ih := findPathToRootF_eq h n qp p hlen h1 f (by omega)
      simp [FTree.findPathToRootF, hg, hp, ih]

/-- **`find_path_to_root`**: the flat port equals the structural model on every valid mirror. -/
theorem flat_find_path_to_root_eq_struct (ft : FTree) (t : RTree) (h : Mirror ft t) (x : Nat) :
    ft.findPathToRoot x = rootPath t x := by
  by_cases hx : x ∈ ids t
  · obtain ⟨q, hq⟩ := pathDown_some_of_mem hx
    have hlen : q.length ≤ (ids t).length := ((pathDown_sublist x).1 t q hq).length_le
    rw [FTree.findPathToRoot, findPathToRootF_eq h q.length q x rfl hq ft.fuel (by rw [h.fuel_eq]; omega)]
    simp [rootPath, hq]
  · have : ft.findPathToRoot x = none := by
      simp [FTree.findPathToRoot, FTree.fuel, FTree.findPathToRootF, h.get_none hx]
    rw [this]
    simp [rootPath, pathDown_none_of_not_mem hx]

/-- **`path_from_to`**: the flat port (parent-pointer walks, duplicate count, the two slices) equals
    the structural model on every valid mirror, in any dict order. -/
theorem flat_path_from_to_eq_struct (ft : FTree) (t : RTree) (h : Mirror ft t) (a b : Nat) :
    ft.pathFromTo a b = pathFromTo t a b := by
  simp only [FTree.pathFromTo, pathFromTo, flat_find_path_to_root_eq_struct ft t h]

end Ptn.C17
