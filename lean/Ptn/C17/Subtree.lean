import Ptn.C17.Linear
/-! `find_subtree_of_node`, `leaves_under_node`, `find_subtree_size_of_node`. -/
namespace Ptn.C17
namespace RTree

theorem subtreeAt_node (x i : Nat) (ks : List RTree) :
    subtreeAt x (node i ks) = if i = x then some (node i ks) else subtreeAtL x ks := by
  simp [subtreeAt]
@[simp] theorem subtreeAtL_nil (x : Nat) : subtreeAtL x [] = none := by simp [subtreeAtL]

theorem subtreeAtL_cons_cases (x : Nat) (t : RTree) (ts : List RTree) :
    (∃ s, subtreeAt x t = some s ∧ subtreeAtL x (t :: ts) = some s) ∨
    (subtreeAt x t = none ∧ subtreeAtL x (t :: ts) = subtreeAtL x ts) := by
  cases h : subtreeAt x t with
  | some s => exact Or.inl ⟨s, rfl, by simp [subtreeAtL, h]⟩
  | none => exact Or.inr ⟨rfl, by simp [subtreeAtL, h]⟩

/-- the subtree found has `x` on top and its nodes and edges are nodes and edges of the tree -/
theorem subtreeAt_basic (x : Nat) :
    (∀ t s, subtreeAt x t = some s →
      s.rid = x ∧ (ids s).Sublist (ids t) ∧ ∀ e ∈ edges s, e ∈ edges t) ∧
    (∀ ts s, subtreeAtL x ts = some s →
      s.rid = x ∧ (ids s).Sublist (idsL ts) ∧ ∀ i, ∀ e ∈ edges s, e ∈ edgesL i ts) := by
  apply induct
  · intro i ks ih s h
    rw [subtreeAt_node] at h
    by_cases hix : i = x
    · subst hix; simp at h; subst h; simp [rid]
    · simp [hix] at h
      obtain ⟨e1, e2, e3⟩ := ih s h
      exact ⟨e1, by simpa using e2.trans (List.sublist_cons_self _ _), by simpa using e3 i⟩
  · simp
  · intro t ts iht ihts s h
    rcases subtreeAtL_cons_cases x t ts with ⟨s', h1, h2⟩ | ⟨h1, h2⟩
    · rw [h2] at h; simp at h; subst h
      obtain ⟨e1, e2, e3⟩ := iht _ h1
      refine ⟨e1, by simpa using e2.trans (List.sublist_append_left _ _), ?_⟩
      intro i e he; simp [e3 e he]
    · rw [h2] at h
      obtain ⟨e1, e2, e3⟩ := ihts s h
      refine ⟨e1, by simpa using e2.trans (List.sublist_append_right _ _), ?_⟩
      intro i e he; simp [e3 i e he]

theorem subtreeAt_isSome (x : Nat) :
    (∀ t, x ∈ ids t → ∃ s, subtreeAt x t = some s) ∧
    (∀ ts, x ∈ idsL ts → ∃ s, subtreeAtL x ts = some s) := by
  apply induct
  · intro i ks ih h
    rw [subtreeAt_node]
    by_cases hix : i = x
    · simp [hix]
    · simp [hix]
      simp at h
      rcases h with h | h
      · exact absurd h.symm hix
      · exact ih h
  · simp
  · intro t ts iht ihts h
    rcases subtreeAtL_cons_cases x t ts with ⟨s', h1, h2⟩ | ⟨h1, h2⟩
    · exact ⟨s', h2⟩
    · rw [h2]
      simp at h
      rcases h with h | h
      · obtain ⟨s, hs⟩ := iht h; rw [hs] at h1; simp at h1
      · exact ihts h

theorem subtreeAt_mem {x : Nat} {t s : RTree} (h : subtreeAt x t = some s) : x ∈ ids t := by
  have := (subtreeAt_basic x).1 t s h
  exact this.2.1.subset (this.1 ▸ rid_mem_ids s)

theorem subtreeAt_none_of_not_mem {x : Nat} {t : RTree} (h : x ∉ ids t) : subtreeAt x t = none := by
  cases hs : subtreeAt x t with
  | none => rfl
  | some s => exact absurd (subtreeAt_mem hs) h

/-- the nodes of the subtree are exactly the nodes below `x` -/
theorem subtreeAt_below (x y : Nat) :
    (∀ t s, (ids t).Nodup → subtreeAt x t = some s →
      (y ∈ ids s ↔ ∃ p, pathDown y t = some p ∧ x ∈ p)) ∧
    (∀ ts s, (idsL ts).Nodup → subtreeAtL x ts = some s →
      (y ∈ ids s ↔ ∃ p, pathDownL y ts = some p ∧ x ∈ p)) := by
  apply induct
  · intro i ks ih s hnd h
    rw [subtreeAt_node] at h
    simp at hnd
    by_cases hix : i = x
    · subst hix; simp at h; subst h
      constructor
      · intro hy
        obtain ⟨p, hp⟩ := pathDown_some_of_mem hy
        have hh := ((pathDown_ends y).1 _ p hp).1
        exact ⟨p, hp, by simpa [rid] using List.mem_of_head? hh⟩
      · rintro ⟨p, hp, _⟩
        exact mem_of_pathDown hp
    · simp [hix] at h
      have hsub := ((subtreeAt_basic x).2 ks s h).2.1
      rw [ih s hnd.2 h]
      constructor
      · rintro ⟨p, hp, hx⟩
        have hy := mem_of_pathDownL hp
        have hiy : ¬ i = y := fun e => hnd.1 (e ▸ hy)
        exact ⟨i :: p, by simp [hiy, hp], by simp [hx]⟩
      · rintro ⟨p, hp, hx⟩
        by_cases hiy : i = y
        · subst hiy; simp at hp; subst hp; simp at hx; exact absurd hx.symm hix
        · simp [hiy] at hp
          obtain ⟨q, hq, rfl⟩ := hp
          simp at hx
          rcases hx with hx | hx
          · exact absurd hx.symm hix
          · exact ⟨q, hq, hx⟩
  · simp
  · intro t ts iht ihts s hnd h
    simp at hnd
    rw [List.nodup_append] at hnd
    obtain ⟨hn1, hn2, hdis⟩ := hnd
    rcases subtreeAtL_cons_cases x t ts with ⟨s', h1, h2⟩ | ⟨h1, h2⟩
    · rw [h2] at h; simp at h; subst h
      have hxt := subtreeAt_mem h1
      rw [iht _ hn1 h1]
      constructor
      · rintro ⟨p, hp, hx⟩
        exact ⟨p, pathDownL_cons_some hp, hx⟩
      · rintro ⟨p, hp, hx⟩
        rcases pathDownL_cons_cases y t ts with ⟨q, hq, hL⟩ | ⟨hq, hL⟩
        · rw [hL] at hp; simp at hp; subst hp; exact ⟨q, hq, hx⟩
        · rw [hL] at hp
          exact absurd rfl (hdis x hxt x ((pathDown_subset y).2 ts p hp x hx))
    · rw [h2] at h
      have hxts : x ∈ idsL ts := by
        have := (subtreeAt_basic x).2 ts s h
        exact this.2.1.subset (this.1 ▸ rid_mem_ids s)
      rw [ihts s hn2 h]
      constructor
      · rintro ⟨p, hp, hx⟩
        have hy := mem_of_pathDownL hp
        have hyt : y ∉ ids t := fun hy' => hdis y hy' y hy rfl
        exact ⟨p, by rw [pathDownL_cons_none (pathDown_none_of_not_mem hyt)]; exact hp, hx⟩
      · rintro ⟨p, hp, hx⟩
        rcases pathDownL_cons_cases y t ts with ⟨q, hq, hL⟩ | ⟨hq, hL⟩
        · rw [hL] at hp; simp at hp; subst hp
          exact absurd rfl (hdis x ((pathDown_subset y).1 t q hq x hx) x hxts)
        · rw [hL] at hp; exact ⟨p, hp, hx⟩

/-! ### leaves -/

theorem leavesOf_node (i : Nat) (ks : List RTree) :
    leavesOf (node i ks) = if ks.isEmpty then [i] else leavesOfL ks := by simp [leavesOf]
@[simp] theorem leavesOfL_nil : leavesOfL [] = [] := by simp [leavesOfL]
@[simp] theorem leavesOfL_cons (t : RTree) (ts : List RTree) :
    leavesOfL (t :: ts) = leavesOf t ++ leavesOfL ts := by simp [leavesOfL]

/-- the source of an edge below `i` is `i` or a node of the forest -/
theorem edgesL_src {ts : List RTree} {i : Nat} {e : Nat × Nat} (h : e ∈ edgesL i ts) :
    e.1 = i ∨ e.1 ∈ idsL ts := (edges_mem.2 ts i e.1 e.2 h).1

theorem edges_src {t : RTree} {e : Nat × Nat} (h : e ∈ edges t) : e.1 ∈ ids t :=
  (edges_mem.1 t e.1 e.2 h).1

/-- `leaves_under_node` of the root lists the childless nodes in pre-order -/
theorem leavesOf_eq_filter :
    (∀ t, (ids t).Nodup → leavesOf t = (ids t).filter (isLeaf t)) ∧
    (∀ ts i, (idsL ts).Nodup → i ∉ idsL ts →
      leavesOfL ts = (idsL ts).filter (fun y => (edgesL i ts).all (fun e => e.1 != y))) := by
  apply induct
  · intro i ks ih hnd
    simp at hnd
    rw [leavesOf_node]
    cases ks with
    | nil => simp [isLeaf]
    | cons k ks' =>
      have := ih i hnd.2 hnd.1
      have hfun : isLeaf (node i (k :: ks')) =
          fun y => (edgesL i (k :: ks')).all (fun e => e.1 != y) := by
        funext y; simp [isLeaf]
      simp only [List.isEmpty_cons, Bool.false_eq_true, if_false, ids_node]
      rw [this, hfun, List.filter_cons]
      simp
  · simp
  · intro t ts iht ihts i hnd hi
    simp at hnd hi
    rw [List.nodup_append] at hnd
    obtain ⟨hn1, hn2, hdis⟩ := hnd
    rw [leavesOfL_cons, iht hn1, ihts i hn2 hi.2, idsL_cons, List.filter_append]
    congr 1
    · apply List.filter_congr
      intro y hy
      have hiy : i ≠ y := fun e => hi.1 (e ▸ hy)
      have h3 : (edgesL i ts).all (fun e => e.1 != y) = true := by
        rw [List.all_eq_true]
        intro e he
        rcases edgesL_src he with h | h
        · simp [h, hiy]
        · have : e.1 ≠ y := fun e' => hdis y hy e.1 h e'.symm
          simp [this]
      simp [isLeaf, hiy, h3]
    · apply List.filter_congr
      intro y hy
      have hiy : i ≠ y := fun e => hi.2 (e ▸ hy)
      have h3 : (edges t).all (fun e => e.1 != y) = true := by
        rw [List.all_eq_true]
        intro e he
        have : e.1 ≠ y := fun e' => hdis e.1 (edges_src he) y hy e'
        simp [this]
      simp [hiy, h3]

/-- all edges of the tree that start inside the subtree are edges of the subtree -/
theorem subtreeAt_edges (x : Nat) :
    (∀ t s, (ids t).Nodup → subtreeAt x t = some s →
      ∀ e ∈ edges t, e.1 ∈ ids s → e ∈ edges s) ∧
    (∀ ts s i, (idsL ts).Nodup → i ∉ idsL ts → subtreeAtL x ts = some s →
      ∀ e ∈ edgesL i ts, e.1 ∈ ids s → e ∈ edges s) := by
  apply induct
  · intro i ks ih s hnd h e he hes
    rw [subtreeAt_node] at h
    simp at hnd
    by_cases hix : i = x
    · subst hix; simp at h; subst h; exact he
    · simp [hix] at h
      exact ih s i hnd.2 hnd.1 h e (by simpa using he) hes
  · simp
  · intro t ts iht ihts s i hnd hi h e he hes
    simp at hnd hi
    rw [List.nodup_append] at hnd
    obtain ⟨hn1, hn2, hdis⟩ := hnd
    rcases subtreeAtL_cons_cases x t ts with ⟨s', h1, h2⟩ | ⟨h1, h2⟩
    · rw [h2] at h; simp at h; subst h
      have hsub := ((subtreeAt_basic x).1 t _ h1).2.1.subset
      have het := hsub hes
      simp at he
      rcases he with rfl | he | he
      · exact absurd het hi.1
      · exact iht _ hn1 h1 e he hes
      · rcases edgesL_src he with h | h
        · exact absurd (h ▸ het) hi.1
        · exact absurd rfl (hdis _ het _ h)
    · rw [h2] at h
      have hsub := ((subtreeAt_basic x).2 ts s h).2.1.subset
      have hets := hsub hes
      simp at he
      rcases he with rfl | he | he
      · exact absurd hets hi.2
      · exact absurd rfl (hdis _ (edges_src he) _ hets)
      · exact ihts s i hn2 hi.2 h e he hes

theorem isLeaf_subtree {x : Nat} {t s : RTree} (hwf : t.WF) (h : subtreeAt x t = some s)
    {y : Nat} (hy : y ∈ ids s) : isLeaf s y = isLeaf t y := by
  have h1 := ((subtreeAt_basic x).1 t s h).2.2
  have h2 := (subtreeAt_edges x).1 t s hwf h
  simp only [isLeaf]
  rw [Bool.eq_iff_iff, List.all_eq_true, List.all_eq_true]
  constructor
  · intro hs e he
    by_cases hey : e.1 = y
    · exact hs e (h2 e he (hey ▸ hy))
    · simp [hey]
  · intro ht e he
    exact ht e (h1 e he)

theorem subtree_nodup {x : Nat} {t s : RTree} (hwf : t.WF) (h : subtreeAt x t = some s) :
    (ids s).Nodup := ((subtreeAt_basic x).1 t s h).2.1.nodup hwf

end RTree
end Ptn.C17
