import Ptn.C17.FlatBranch
/-! `nearest_neighbours` and `get_leaves` of the flat port against the structural model (C17).
Both depend on the dictionary order, so they agree with the structural lists up to order only. -/
namespace Ptn.C17
open RTree

/-- the `(node, child)` pairs listed by a flat node list -/
def nnOf (l : List (Nat × GNode)) : List (Nat × Nat) :=
  l.flatMap (fun e => e.2.children.map (fun c => (e.1, c)))

theorem nnOf_append (a b : List (Nat × GNode)) : nnOf (a ++ b) = nnOf a ++ nnOf b := by
  simp [nnOf]

theorem map_pair_rid (i : Nat) (ks : List RTree) :
    (ks.map rid).map (fun c => (i, c)) = ks.map (fun k => (i, k.rid)) := by
  simp [List.map_map, Function.comp_def]

/-- the pairs of the flattened tree are its edges, up to order -/
theorem nnOf_flatten :
    (∀ t p, (nnOf (flattenAux p t)).Perm (edges t)) ∧
    (∀ ts i, (ts.map (fun k => (i, k.rid)) ++ nnOf (flattenL (some i) ts)).Perm (edgesL i ts)) := by
  apply induct
  · intro i ks ih p
    rw [flattenAux_node]
    show (nnOf ((i, ⟨p, ks.map rid⟩) :: flattenL (some i) ks)).Perm (edges (node i ks))
    have : nnOf ((i, (⟨p, ks.map rid⟩ : GNode)) :: flattenL (some i) ks)
        = ks.map (fun k => (i, k.rid)) ++ nnOf (flattenL (some i) ks) := by
      simp [nnOf, List.map_map, Function.comp_def]
    rw [this]
    simpa [edges] using ih i
  · intro i; simp [nnOf, edgesL]
  · intro t ts iht ihts i
    rw [flattenL_cons, nnOf_append]
    simp only [List.map_cons, List.cons_append, edgesL]
    apply List.Perm.cons
    -- ts.map … ++ (nnOf (flattenAux (some i) t) ++ nnOf (flattenL (some i) ts)) ~ edges t ++ edgesL i ts
    have h1 := iht (some i)
    have h2 := ihts i
    have hx : (ts.map (fun k => (i, k.rid)) ++ (nnOf (flattenAux (some i) t) ++ nnOf (flattenL (some i) ts))).Perm
        (nnOf (flattenAux (some i) t) ++ (ts.map (fun k => (i, k.rid)) ++ nnOf (flattenL (some i) ts))) := by
      rw [← List.append_assoc, ← List.append_assoc]
      exact List.Perm.append_right _ List.perm_append_comm
    exact hx.trans (List.Perm.append h1 h2)

/-- **`nearest_neighbours`** of every valid mirror, in any dict order, lists exactly the tree edges
`(parent, child)`, each once -/
theorem Mirror.nearestNeighbours_perm {ft : FTree} {t : RTree} (h : Mirror ft t) :
    ft.nearestNeighbours.Perm (edges t) := by
  have h1 : ft.nearestNeighbours = nnOf ft.nodes := rfl
  rw [h1]
  exact (List.Perm.flatMap_right _ h.1).trans (nnOf_flatten.1 t none)


/-- **`nearest_neighbours`** (flat port, any dict order) = the tree edges `(parent, child)`, each once -/
theorem flat_nearest_neighbours_perm {ft : FTree} {t : RTree} (h : Mirror ft t) :
    ft.nearestNeighbours.Perm (edges t) := h.nearestNeighbours_perm

/-- **`get_leaves`** (flat port, any dict order) = the leaves of the tree, each once -/
theorem flat_get_leaves_perm {ft : FTree} {t : RTree} (h : Mirror ft t) :
    ft.getLeaves.Perm (leavesOf t) := by
  have hk : (ft.nodes.map (·.1)).Nodup := by
    have := (h.1.map (·.1)).nodup_iff.2 (by rw [flatten_keys.1 t none]; exact h.2.2)
    exact this
  have h1 : ft.getLeaves.Nodup := by
    unfold FTree.getLeaves
    exact (List.Sublist.map _ List.filter_sublist).nodup hk
  have h2 : (leavesOf t).Nodup := by
    rw [leavesOf_eq_filter.1 t h.2.2]
    exact (List.filter_sublist (l := ids t)).nodup h.2.2
  exact (List.perm_ext_iff_of_nodup h1 h2).2 (fun x => h.mem_getLeaves x)

example : (⟨[(5, ⟨some 0, [6]⟩), (3, ⟨some 1, []⟩), (0, ⟨none, [1, 2, 5]⟩), (7, ⟨some 6, []⟩),
      (1, ⟨some 0, [3, 4]⟩), (6, ⟨some 5, [7]⟩), (2, ⟨some 0, []⟩), (4, ⟨some 1, []⟩)], some 0⟩ : FTree).nearestNeighbours
    = [(5, 6), (0, 1), (0, 2), (0, 5), (1, 3), (1, 4), (6, 7)] := by decide

end Ptn.C17
