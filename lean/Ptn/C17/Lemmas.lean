import Ptn.C17.Model
/-! Helper lemmas for C17 (core Lean only). -/
namespace Ptn.C17

/-! ## The list core of `path_from_to` -/

theorem pySliceTo_neg (l : List Nat) (d : Nat) (hd : 0 < d) :
    pySliceTo l (-(d : Int)) = l.take (l.length - d) := by
  unfold pySliceTo
  have h : ¬ (0 ≤ -(d : Int)) := by omega
  have h2 : (-(d : Int)).natAbs = d := by omega
  rw [if_neg h, h2]

theorem count_combined (xs ys cs : List Nat) (c j : Nat) :
    List.count j ((xs ++ c :: cs) ++ (ys ++ c :: cs)) =
      List.count j xs + List.count j ys + 2 * List.count j (c :: cs) := by
  simp only [List.count_append]; omega

theorem count_le_one {xs ys cs : List Nat} {c : Nat}
    (hnd : (xs ++ ys ++ c :: cs).Nodup) (j : Nat) :
    List.count j xs + List.count j ys + List.count j (c :: cs) ≤ 1 := by
  have := List.nodup_iff_count.mp hnd j
  simpa only [List.count_append] using this

theorem count_combined_left {xs ys cs : List Nat} {c : Nat}
    (hnd : (xs ++ ys ++ c :: cs).Nodup) {j : Nat} (hj : j ∈ xs) :
    List.count j ((xs ++ c :: cs) ++ (ys ++ c :: cs)) = 1 := by
  have h1 := count_le_one hnd j
  have h2 := List.count_pos_iff.mpr hj
  rw [count_combined]; omega

theorem count_combined_right {xs ys cs : List Nat} {c : Nat}
    (hnd : (xs ++ ys ++ c :: cs).Nodup) {j : Nat} (hj : j ∈ ys) :
    List.count j ((xs ++ c :: cs) ++ (ys ++ c :: cs)) = 1 := by
  have h1 := count_le_one hnd j
  have h2 := List.count_pos_iff.mpr hj
  rw [count_combined]; omega

theorem count_combined_common {xs ys cs : List Nat} {c : Nat}
    (hnd : (xs ++ ys ++ c :: cs).Nodup) {j : Nat} (hj : j ∈ c :: cs) :
    List.count j ((xs ++ c :: cs) ++ (ys ++ c :: cs)) = 2 := by
  have h1 := count_le_one hnd j
  have h2 := List.count_pos_iff.mpr hj
  rw [count_combined]; omega

theorem numDuplicates_two_root_paths {xs ys cs : List Nat} {c : Nat}
    (hnd : (xs ++ ys ++ c :: cs).Nodup) :
    numDuplicates ((xs ++ c :: cs) ++ (ys ++ c :: cs)) = cs.length + 1 := by
  unfold numDuplicates
  generalize hL : (xs ++ c :: cs) ++ (ys ++ c :: cs) = L
  have hx : xs.filter (fun j => L.count j != 1) = [] := by
    apply List.filter_eq_nil_iff.mpr
    intro j hj
    subst hL
    rw [count_combined_left hnd hj]; simp
  have hy : ys.filter (fun j => L.count j != 1) = [] := by
    apply List.filter_eq_nil_iff.mpr
    intro j hj
    subst hL
    rw [count_combined_right hnd hj]; simp
  have hc : (c :: cs).filter (fun j => L.count j != 1) = c :: cs := by
    apply List.filter_eq_self.mpr
    intro j hj
    subst hL
    rw [count_combined_common hnd hj]; simp
  have : L.filter (fun j => L.count j != 1) = (c :: cs) ++ (c :: cs) := by
    conv => lhs; arg 2; rw [← hL]
    rw [List.filter_append, List.filter_append, List.filter_append, hx, hy, hc]
    simp
  rw [this]
  simp
  omega

/-- The combinatorial heart of `path_from_to`: for two root paths with common part `c :: cs`
    the duplicate count and the two slices glue to `xs ++ [c] ++ ys.reverse`. -/
theorem mergeRootPaths_two_root_paths {xs ys cs : List Nat} {c : Nat}
    (hnd : (xs ++ ys ++ c :: cs).Nodup) :
    mergeRootPaths (xs ++ c :: cs) (ys ++ c :: cs) = xs ++ [c] ++ ys.reverse := by
  unfold mergeRootPaths
  rw [numDuplicates_two_root_paths hnd]
  have hs2 : pySliceTo (ys ++ c :: cs) (-((cs.length + 1 : Nat) : Int)) = ys := by
    rw [pySliceTo_neg _ _ (by omega)]
    have : (ys ++ c :: cs).length - (cs.length + 1) = ys.length := by simp
    rw [this]; simp
  simp only [hs2]
  cases cs with
  | nil => simp
  | cons c' cs' =>
    have hne : (-(((c' :: cs').length + 1 : Nat) : Int) + 1 != 0) = true := by
      simp; omega
    simp only [hne, if_true]
    have : -(((c' :: cs').length + 1 : Nat) : Int) + 1 = -(((cs'.length + 1 : Nat)) : Int) := by
      simp; omega
    rw [this, pySliceTo_neg _ _ (by omega)]
    have : (xs ++ c :: c' :: cs').length - (cs'.length + 1) = xs.length + 1 := by
      simp; omega
    rw [this]
    have : xs ++ c :: c' :: cs' = (xs ++ [c]) ++ (c' :: cs') := by simp
    rw [this, List.take_left' (by simp)]

end Ptn.C17
