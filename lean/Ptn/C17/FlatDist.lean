import Ptn.C17.FlatKids
/-! Flat port = structural model for `distance_to_node(root)` and `find_start_node_id`. -/
namespace Ptn.C17
open RTree

namespace RTree
mutual
/-- all subtrees with the identifier of the parent of their root -/
def subtreesP : Option Nat → RTree → List (Option Nat × RTree)
  | p, node i ks => (p, node i ks) :: subtreesPL (some i) ks
def subtreesPL : Option Nat → List RTree → List (Option Nat × RTree)
  | _, [] => []
  | p, t :: ts => subtreesP p t ++ subtreesPL p ts
end

@[simp] theorem subtreesP_node (p : Option Nat) (i : Nat) (ks : List RTree) :
    subtreesP p (node i ks) = (p, node i ks) :: subtreesPL (some i) ks := by simp [subtreesP]
@[simp] theorem subtreesPL_nil (p : Option Nat) : subtreesPL p [] = [] := by simp [subtreesPL]
@[simp] theorem subtreesPL_cons (p : Option Nat) (t : RTree) (ts : List RTree) :
    subtreesPL p (t :: ts) = subtreesP p t ++ subtreesPL p ts := by simp [subtreesPL]

theorem flatten_subtreeP :
    (∀ t p0, ∀ e ∈ subtreesP p0 t,
      (e.2.rid, (⟨e.1, e.2.kids.map rid⟩ : GNode)) ∈ flattenAux p0 t) ∧
    (∀ ts p0, ∀ e ∈ subtreesPL p0 ts,
      (e.2.rid, (⟨e.1, e.2.kids.map rid⟩ : GNode)) ∈ flattenL p0 ts) := by
  apply induct
  · intro i ks ih p0 e he
    simp at he
    rcases he with rfl | he
    · simp [rid, kids]
    · simp [ih (some i) e he]
  · simp
  · intro t ts iht ihts p0 e he
    simp at he
    rcases he with he | he
    · simp [iht p0 e he]
    · simp [ihts p0 e he]

theorem depths_succ :
    (∀ t d, depths (d + 1) t = incr (depths d t)) ∧
    (∀ ts d, depthsL (d + 1) ts = incr (depthsL d ts)) := by
  apply induct
  · intro i ks ih d; simp [incr, ih (d + 1)]
  · simp [incr]
  · intro t ts iht ihts d; simp [incr, iht d, ihts d] 

end RTree

/-- every subtree of `s` (hanging below `p0`) is found in the mirror with parent and children -/
def KidsP (ft : FTree) (p0 : Option Nat) (s : RTree) : Prop :=
  ∀ e ∈ subtreesP p0 s, ft.get? e.2.rid = some ⟨e.1, e.2.kids.map rid⟩

theorem Mirror.kidsP {ft : FTree} {t : RTree} (h : Mirror ft t) : KidsP ft none t :=
  fun e he => h.get_of_mem (flatten_subtreeP.1 t none e he)

theorem KidsP.self {ft : FTree} {p0 : Option Nat} {i : Nat} {ks : List RTree}
    (h : KidsP ft p0 (node i ks)) : ft.get? i = some ⟨p0, ks.map rid⟩ := by
  simpa [rid, kids] using h (p0, node i ks) (by simp)

theorem KidsP.kid {ft : FTree} {p0 : Option Nat} {i : Nat} {ks : List RTree}
    (h : KidsP ft p0 (node i ks)) {k : RTree} (hk : k ∈ ks) : KidsP ft (some i) k := by
  intro e he
  apply h e
  simp only [subtreesP_node, List.mem_cons]
  right
  clear h
  induction ks with
  | nil => simp at hk
  | cons a l ih =>
    rcases List.mem_cons.mp hk with rfl | hk
    · simp [he]
    · simp [ih hk]

theorem dictSet_new {d : List (Nat × Nat)} {k v : Nat} (h : k ∉ d.map (·.1)) :
    dictSet d k v = d ++ [(k, v)] := by
  have : d.any (fun e => e.1 == k) = false := by
    rw [List.any_eq_false]
    intro e he
    have : ¬ e.1 = k := fun e' => h (e' ▸ List.mem_map.mpr ⟨e, he, rfl⟩)
    simpa using this
  simp [dictSet, this]

/-- updating a dict with entries whose keys are new and distinct appends them -/
theorem dictUpdate_append : ∀ (new d : List (Nat × Nat)), (∀ e ∈ new, e.1 ∉ d.map (·.1)) →
    (new.map (·.1)).Nodup → dictUpdate d new = d ++ new
  | [], d, _, _ => by simp [dictUpdate]
  | e :: new, d, h, hnd => by
    simp only [List.map_cons, List.nodup_cons] at hnd
    have h1 := dictSet_new (v := e.2) (h e (by simp))
    have ih := dictUpdate_append new (d ++ [(e.1, e.2)]) (by
      intro e' he'
      simp only [List.map_append, List.map_cons, List.map_nil, List.mem_append,
        List.mem_singleton, not_or]
      exact ⟨h e' (by simp [he']), fun eq => hnd.1 (eq ▸ List.mem_map.mpr ⟨e', he', rfl⟩)⟩) hnd.2
    simp only [dictUpdate, List.foldl_cons] at ih ⊢
    rw [h1, ih]; simp

theorem incr_keys (d : List (Nat × Nat)) : (incr d).map (·.1) = d.map (·.1) := by
  simp [incr, Function.comp_def]

/-- `_distance_to_node_rec` below a node, coming from its parent -/
theorem distRecF_eq (ft : FTree) :
    (∀ s, ∀ par, KidsP ft (some par) s → par ∉ ids s → (ids s).Nodup →
      ∀ fuel, (ids s).length ≤ fuel → ft.distRecF fuel s.rid par = some (depths 0 s)) ∧
    (∀ ks, ∀ i, (∀ k ∈ ks, KidsP ft (some i) k) → i ∉ idsL ks → ∀ f acc,
      (acc.map (·.1) ++ idsL ks).Nodup → (idsL ks).length ≤ f →
      (ks.map rid).foldlM (fun dd nb => do
          let sub ← ft.distRecF f nb i
          pure (dictUpdate dd (incr sub))) acc = some (acc ++ depthsL 1 ks)) := by
  apply induct
  · intro i ks ih par hok hpar hnd fuel hf
    obtain ⟨f, rfl⟩ : ∃ f, fuel = f + 1 := ⟨fuel - 1, by simp at hf; omega⟩
    have hp := hok.self
    simp at hnd hpar
    have hpk : par ∉ ks.map rid := fun h =>
      hpar.2 ((rids_sublist ks).subset h)
    have := ih i (fun k hk => hok.kid hk) hnd.1 f [(i, 0)] (by simpa using hnd) (by simp at hf; omega)
    simp only [rid, FTree.distRecF, hp, GNode.neighbours, Option.toList, List.cons_append,
      List.nil_append, Option.bind_eq_bind, Option.bind_some]
    simp only [Option.bind_eq_bind] at this
    simp [List.erase_cons_head]
    simpa using this
  · intro i _ _ f acc _ _; simp
  · intro k ks ihk ihks i hok hi f acc hnd hf
    simp only [idsL_cons, List.length_append] at hf
    simp only [idsL_cons, List.mem_append, not_or] at hi
    have hndk : (ids k).Nodup := by
      simp only [idsL_cons, List.nodup_append] at hnd; exact hnd.2.1.1
    have h1 := ihk i (hok k (by simp)) hi.1 hndk f (by omega)
    have hupd : dictUpdate acc (incr (depths 0 k)) = acc ++ depths 1 k := by
      rw [← (depths_succ.1 k 0)]
      apply dictUpdate_append
      · intro e he hea
        have : e.1 ∈ ids k := mem_ids_of_mem_depths (d := 0 + 1) (k := e.2) he
        simp only [idsL_cons, List.nodup_append, List.mem_append] at hnd
        exact hnd.2.2 e.1 hea e.1 (Or.inl this) rfl
      · rw [depths_keys.1 k (0 + 1)]; exact hndk
    have h2 := ihks i (fun k' hk' => hok k' (by simp [hk'])) hi.2 f (acc ++ depths 1 k) (by
      simp only [List.map_append, depths_keys.1 k 1]
      simpa using hnd) (by omega)
    simp only [List.map_cons, List.foldlM_cons, h1, Option.bind_eq_bind, Option.bind_some,
      Option.pure_def, hupd] at h2 ⊢
    rw [h2]; simp

/-- **`distance_to_node(root_id)`**: the flat port returns the depth table in the same order -/
theorem flat_distance_root_eq_struct (ft : FTree) (t : RTree) (h : Mirror ft t) :
    ft.distanceToNode t.rid = some (depths 0 t) := by
  cases t with
  | node r ks =>
    have hwf : (r :: idsL ks).Nodup := by simpa [WF] using h.2.2
    have hnd := List.nodup_cons.mp hwf
    have hp := h.kidsP.self
    have := (distRecF_eq ft).2 ks r (fun k hk => h.kidsP.kid hk) hnd.1 ft.fuel [(r, 0)]
      (by simpa using hwf) (by rw [h.fuel_eq]; simp; omega)
    simp only [rid, FTree.distanceToNode, hp, GNode.neighbours, Option.toList, List.nil_append,
      Option.bind_eq_bind, Option.bind_some]
    simp only [Option.bind_eq_bind] at this
    rw [this]; simp

/-- **`find_start_node_id`** -/
theorem flat_find_start_eq_struct (ft : FTree) (t : RTree) (h : Mirror ft t) :
    ft.findStart = findStart t := by
  simp [FTree.findStart, h.2.1, flat_distance_root_eq_struct ft t h, RTree.findStart]

end Ptn.C17
