import Ptn.C17.Sweep
/-! Lemmas for the step of the update path at the root: the children of the root, selecting and
removing children by identifier, existence of the final leaf. -/
namespace Ptn.C17
namespace RTree

theorem ids_subset_idsL {k : RTree} : ∀ {ks : List RTree}, k ∈ ks → ∀ x ∈ ids k, x ∈ idsL ks
  | k0 :: ks0, hk, x, hx => by
    rcases List.mem_cons.mp hk with rfl | hk
    · simp [hx]
    · simp [ids_subset_idsL hk x hx]

theorem rids_sublist : ∀ ks : List RTree, (ks.map rid).Sublist (idsL ks)
  | [] => by simp
  | k :: ks => by
    simp only [List.map_cons, idsL_cons]
    rw [ids_eq_rid_cons k]
    exact (rids_sublist ks).cons_cons _ |>.trans (by
      simpa using List.Sublist.append (List.Sublist.refl [k.rid])
        ((List.sublist_append_right (idsL k.kids) (idsL ks))))

theorem rids_nodup {ks : List RTree} (h : (idsL ks).Nodup) : (ks.map rid).Nodup :=
  (rids_sublist ks).nodup h

/-- children of one node are told apart by their identifiers -/
theorem eq_of_rid_eq : ∀ {ks : List RTree}, (ks.map rid).Nodup → ∀ {k k' : RTree}, k ∈ ks → k' ∈ ks →
    k.rid = k'.rid → k = k'
  | k0 :: ks0, hnd, k, k', hk, hk', he => by
    simp only [List.map_cons, List.nodup_cons, List.mem_map, not_exists, not_and] at hnd
    rcases List.mem_cons.mp hk with h1 | h1 <;> rcases List.mem_cons.mp hk' with h2 | h2
    · rw [h1, h2]
    · exact absurd (h1 ▸ he.symm) (hnd.1 k' h2)
    · exact absurd (h2 ▸ he) (hnd.1 k h1)
    · exact eq_of_rid_eq hnd.2 h1 h2 he

theorem find_by_rid : ∀ {ks : List RTree}, (ks.map rid).Nodup → ∀ {k : RTree}, k ∈ ks →
    ks.find? (fun k' => k'.rid == k.rid) = some k
  | k0 :: ks0, hnd, k, hk => by
    simp only [List.map_cons, List.nodup_cons, List.mem_map, not_exists, not_and] at hnd
    rcases List.mem_cons.mp hk with rfl | hk
    · simp
    · have : ¬ k0.rid = k.rid := fun e => hnd.1 k hk e.symm
      simp [List.find?_cons, this, find_by_rid hnd.2 hk]

/-- taking one child out -/
theorem idsL_remove : ∀ {ks : List RTree}, (ks.map rid).Nodup → ∀ {k : RTree}, k ∈ ks →
    (idsL ks).Perm (ids k ++ idsL (ks.filter (fun k' => !(k'.rid == k.rid))))
  | k0 :: ks0, hnd, k, hk => by
    have hnd' := hnd
    simp only [List.map_cons, List.nodup_cons, List.mem_map, not_exists, not_and] at hnd
    by_cases he : k0.rid = k.rid
    · have hk0 : k = k0 := by
        rcases List.mem_cons.mp hk with h | h
        · exact h
        · exact absurd he.symm (hnd.1 k h)
      subst hk0
      have : ks0.filter (fun k' => !(k'.rid == k.rid)) = ks0 := by
        apply List.filter_eq_self.mpr
        intro k' hk'
        have : ¬ k'.rid = k.rid := hnd.1 k' hk'
        simp [this]
      simp [List.filter_cons, this]
    · have hk' : k ∈ ks0 := by
        rcases List.mem_cons.mp hk with h | h
        · exact absurd (h ▸ rfl) he
        · exact h
      have ih := idsL_remove hnd.2 hk'
      have hf : (k0 :: ks0).filter (fun k' => !(k'.rid == k.rid))
          = k0 :: ks0.filter (fun k' => !(k'.rid == k.rid)) := by
        simp [List.filter_cons, he]
      rw [hf]
      simp only [idsL_cons]
      apply List.perm_iff_count.mpr
      intro a
      have c := ih.count_eq a
      simp only [List.count_append] at c ⊢
      omega

theorem mem_filter_ne {ks : List RTree} {k k' : RTree} (hk : k ∈ ks) (hne : k.rid ≠ k'.rid) :
    k ∈ ks.filter (fun x => !(x.rid == k'.rid)) := by
  simp [List.mem_filter, hk, hne]

/-- taking two different children out, with the filter as written in the update-path finder -/
theorem idsL_remove_two {ks : List RTree} (hnd : (ks.map rid).Nodup) {ki kj : RTree}
    (hi : ki ∈ ks) (hj : kj ∈ ks) (hne : ki.rid ≠ kj.rid) :
    (idsL ks).Perm (ids ki ++ ids kj ++
      idsL (ks.filter (fun k => !(k.rid == ki.rid || k.rid == kj.rid)))) := by
  have h1 := idsL_remove hnd hi
  have hnd1 : ((ks.filter (fun k' => !(k'.rid == ki.rid))).map rid).Nodup :=
    ((List.filter_sublist).map rid).nodup hnd
  have h2 := idsL_remove hnd1 (mem_filter_ne hj (Ne.symm hne))
  rw [List.filter_filter] at h2
  have hf : ks.filter (fun a => (!(a.rid == kj.rid)) && !(a.rid == ki.rid))
      = ks.filter (fun k => !(k.rid == ki.rid || k.rid == kj.rid)) := by
    apply List.filter_congr
    intro x _
    cases (x.rid == ki.rid) <;> cases (x.rid == kj.rid) <;> rfl
  rw [hf] at h2
  apply List.perm_iff_count.mpr
  intro a
  have c1 := h1.count_eq a
  have c2 := h2.count_eq a
  simp only [List.count_append] at c1 c2 ⊢
  omega

/-- the upward sweep below the root is the sweep of the child that holds the start node -/
theorem findSome_sweepUp {s : Nat} : ∀ {ks : List RTree}, s ∈ idsL ks →
    ∃ k p, k ∈ ks ∧ sweepUp s k = some p ∧ ks.findSome? (sweepUp s) = some p
  | k0 :: ks0, hs => by
    cases h : sweepUp s k0 with
    | some p => exact ⟨k0, p, by simp, h, by simp [List.findSome?_cons, h]⟩
    | none =>
      have hn := ((sweepUp_spec s).1 k0).2 h
      have : s ∈ idsL ks0 := by
        simp at hs; rcases hs with hs | hs
        · exact absurd hs hn
        · exact hs
      obtain ⟨k, p, hk, hp, hf⟩ := findSome_sweepUp this
      exact ⟨k, p, by simp [hk], hp, by simp [List.findSome?_cons, h, hf]⟩

/-- the root path of a node below a child of the root -/
theorem pathDownL_of_mem {v : Nat} {q : List Nat} : ∀ {ks : List RTree}, (idsL ks).Nodup →
    ∀ {k : RTree}, k ∈ ks → pathDown v k = some q → pathDownL v ks = some q
  | k0 :: ks0, hnd, k, hk, hq => by
    simp only [idsL_cons] at hnd
    rw [List.nodup_append] at hnd
    rcases List.mem_cons.mp hk with rfl | hk
    · exact pathDownL_cons_some hq
    · have hv : v ∈ idsL ks0 := ids_subset_idsL hk v (mem_of_pathDown hq)
      have : v ∉ ids k0 := fun h => hnd.2.2 v h v hv rfl
      rw [pathDownL_cons_none (pathDown_none_of_not_mem this)]
      exact pathDownL_of_mem hnd.2.1 hk hq

theorem pathDown_via_kid {r v : Nat} {ks : List RTree} (hwf : (node r ks).WF) {k : RTree}
    (hk : k ∈ ks) (hv : v ∈ ids k) :
    ∃ q, pathDown v k = some (k.rid :: q) ∧ pathDown v (node r ks) = some (r :: k.rid :: q) := by
  simp only [WF, ids_node, List.nodup_cons] at hwf
  obtain ⟨p, hp⟩ := pathDown_some_of_mem hv
  have hh := ((pathDown_ends v).1 k p hp).1
  cases p with
  | nil => simp at hh
  | cons y q =>
    simp at hh; subst hh
    have hrv : ¬ r = v := fun e => hwf.1 (e ▸ ids_subset_idsL hk v hv)
    exact ⟨q, hp, by simp [hrv, pathDownL_of_mem hwf.2 hk hp]⟩

/-! ### leaves exist -/

theorem leavesOf_ne_nil :
    (∀ t, leavesOf t ≠ []) ∧ (∀ ts, ts ≠ [] → leavesOfL ts ≠ []) := by
  apply induct
  · intro i ks ih
    rw [leavesOf_node]
    cases ks with
    | nil => simp
    | cons k ks' => simpa using ih (by simp)
  · simp
  · intro t ts iht _ _
    simp [iht]

theorem leavesOf_subset :
    (∀ t, ∀ x ∈ leavesOf t, x ∈ ids t) ∧ (∀ ts, ∀ x ∈ leavesOfL ts, x ∈ idsL ts) := by
  apply induct
  · intro i ks ih x hx
    rw [leavesOf_node] at hx
    cases ks with
    | nil => simp at hx; simp [hx]
    | cons k ks' =>
      have := ih x (by simpa using hx)
      simp only [ids_node, List.mem_cons]
      exact Or.inr this
  · simp
  · intro t ts iht ihts x hx
    simp at hx
    rcases hx with hx | hx
    · simp [iht x hx]
    · simp [ihts x hx]

theorem leavesOfL_mem {x : Nat} : ∀ {ks : List RTree}, x ∈ leavesOfL ks → ∃ k ∈ ks, x ∈ leavesOf k
  | k0 :: ks0, hx => by
    simp at hx
    rcases hx with hx | hx
    · exact ⟨k0, by simp, hx⟩
    · obtain ⟨k, hk, h⟩ := leavesOfL_mem hx
      exact ⟨k, by simp [hk], h⟩

theorem leavesOfL_of_mem {x : Nat} {k : RTree} : ∀ {ks : List RTree}, k ∈ ks → x ∈ leavesOf k →
    x ∈ leavesOfL ks
  | k0 :: ks0, hk, hx => by
    rcases List.mem_cons.mp hk with rfl | hk
    · simp [hx]
    · simp [leavesOfL_of_mem hk hx]

theorem length_le_one_of_all_eq {a : Nat} : ∀ {l : List Nat}, l.Nodup → (∀ x ∈ l, x = a) →
    l.length ≤ 1
  | [], _, _ => by simp
  | [_], _, _ => by simp
  | x :: y :: l, hnd, h => by
    have h1 := h x (by simp)
    have h2 := h y (by simp)
    simp [h1, h2] at hnd

/-- a node with at least two children has a child other than a given one -/
theorem exists_other_kid {ks : List RTree} (hnd : (ks.map rid).Nodup) (hlen : 2 ≤ ks.length)
    (a : Nat) : ∃ k ∈ ks, k.rid ≠ a := by
  apply Classical.byContradiction
  intro hno
  have : ∀ x ∈ ks.map rid, x = a := by
    intro x hx
    obtain ⟨k, hk, rfl⟩ := List.mem_map.mp hx
    apply Classical.byContradiction
    intro hne
    exact hno ⟨k, hk, hne⟩
  have := length_le_one_of_all_eq hnd this
  simp at this
  omega

end RTree
end Ptn.C17
