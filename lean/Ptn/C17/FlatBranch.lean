import Ptn.C17.FlatDist
/-! Flat port = structural model: `_path_for_branch_rec`, the branch helpers, `get_leaves`. -/
namespace Ptn.C17
open RTree

/-- `_path_for_branch_rec` -/
theorem branchRecF_eq (ft : FTree) :
    (∀ s, KidsOK ft s → ∀ fuel, (ids s).length ≤ fuel →
      ft.branchRecF fuel s.rid = some (postorder s)) ∧
    (∀ ks, (∀ k ∈ ks, KidsOK ft k) → ∀ f acc, (idsL ks).length ≤ f →
      (ks.map rid).foldlM (fun acc c => do
          let sub ← ft.branchRecF f c
          pure (acc ++ sub)) acc = some (acc ++ postorderL ks)) := by
  apply induct
  · intro i ks ih hok fuel hf
    obtain ⟨f, rfl⟩ : ∃ f, fuel = f + 1 := ⟨fuel - 1, by simp at hf; omega⟩
    obtain ⟨p, hp⟩ := hok.self
    have := ih (fun k hk => hok.kid hk) f [] (by simp at hf; omega)
    simp only [rid, FTree.branchRecF, hp, Option.bind_eq_bind, Option.bind_some]
    cases ks with
    | nil => simp
    | cons k ks' =>
      simp only [Option.bind_eq_bind] at this
      simp only [List.map_cons, List.isEmpty_cons, Bool.false_eq_true, if_false]
      rw [← List.map_cons, this]; simp
  · intro _ f acc _; simp
  · intro k ks ihk ihks hok f acc hf
    simp only [idsL_cons, List.length_append] at hf
    have h1 := ihk (hok k (by simp)) f (by omega)
    have h2 := ihks (fun k' hk' => hok k' (by simp [hk'])) f (acc ++ postorder k) (by omega)
    simp only [List.map_cons, List.foldlM_cons, h1, Option.bind_eq_bind, Option.bind_some,
      Option.pure_def] at h2 ⊢
    rw [h2]; simp

/-- a list of subtrees of the tree, small enough for the fuel -/
def Small (ft : FTree) (fs : List RTree) : Prop :=
  ∀ k ∈ fs, KidsOK ft k ∧ (ids k).length ≤ ft.fuel

/-- `branchesThen`: the post-orders of the given branches, then the origin -/
theorem branchesThen_eq {ft : FTree} : ∀ (fs : List RTree), Small ft fs → ∀ (origin : Nat),
    ft.branchesThen (fs.map rid) origin = some (postorderL fs ++ [origin]) := by
  intro fs hs origin
  have key : ∀ (fs : List RTree), Small ft fs → ∀ acc,
      (fs.map rid).foldlM (fun acc c => do
          let sub ← ft.branchRec c
          pure (acc ++ sub)) acc = some (acc ++ postorderL fs) := by
    intro fs
    induction fs with
    | nil => intro _ acc; simp
    | cons k fs ih =>
      intro hs acc
      have hk := hs k (by simp)
      have h1 : ft.branchRec k.rid = some (postorder k) := (branchRecF_eq ft).1 k hk.1 ft.fuel hk.2
      have h2 := ih (fun k' hk' => hs k' (by simp [hk'])) (acc ++ postorder k)
      simp only [List.map_cons, List.foldlM_cons, h1, Option.bind_eq_bind, Option.bind_some,
        Option.pure_def] at h2 ⊢
      rw [h2]; simp
  have := key fs hs []
  simp only [FTree.branchesThen, Option.bind_eq_bind] at this ⊢
  rw [this]; simp

/-- the children of a node of a mirror, as subtrees -/
theorem Mirror.small_kids {ft : FTree} {t : RTree} (h : Mirror ft t) {s : RTree}
    (hs : s ∈ subtrees t) : Small ft s.kids := by
  intro k hk
  have hsub : k ∈ subtrees t := by
    have hok := h.kidsOK
    -- k is a subtree of s, hence of t
    cases s with
    | node i ks =>
      have : k ∈ subtrees (node i ks) := by
        simp only [subtrees_node, List.mem_cons]
        exact Or.inr (mem_subtreesL.mpr ⟨k, hk, by cases k; simp⟩)
      have key : (∀ t, ∀ s ∈ subtrees t, ∀ s' ∈ subtrees s, s' ∈ subtrees t) ∧
          (∀ ts, ∀ s ∈ subtreesL ts, ∀ s' ∈ subtrees s, s' ∈ subtreesL ts) := by
        apply induct
        · intro i ks ih s hs s' hs'
          simp only [subtrees_node, List.mem_cons] at hs ⊢
          rcases hs with rfl | hs
          · simpa using hs'
          · exact Or.inr (ih s hs s' hs')
        · simp
        · intro t ts iht ihts s hs s' hs'
          simp only [subtreesL_cons, List.mem_append] at hs ⊢
          rcases hs with hs | hs
          · exact Or.inl (iht s hs s' hs')
          · exact Or.inr (ihts s hs s' hs')
      exact key.1 t _ hs k this
  refine ⟨h.kidsOK.sub hsub, ?_⟩
  rw [h.fuel_eq]
  have := (subtrees_ids.1 t k hsub)
  have hnd : (ids k).Nodup := by
    -- a subtree of a well-formed tree is well-formed: its ids are a sublist
    have key : (∀ t, ∀ s ∈ subtrees t, (ids s).Sublist (ids t)) ∧
        (∀ ts, ∀ s ∈ subtreesL ts, (ids s).Sublist (idsL ts)) := by
      apply induct
      · intro i ks ih s hs
        simp only [subtrees_node, List.mem_cons] at hs
        rcases hs with rfl | hs
        · exact List.Sublist.refl _
        · simpa using (ih s hs).trans (List.sublist_cons_self _ _)
      · simp
      · intro t ts iht ihts s hs
        simp only [subtreesL_cons, List.mem_append] at hs
        rcases hs with hs | hs
        · simpa using (iht s hs).trans (List.sublist_append_left _ _)
        · simpa using (ihts s hs).trans (List.sublist_append_right _ _)
    exact (key.1 t k hsub).nodup h.2.2
  have := List.Nodup.length_le_of_subset hnd (fun x hx => subtrees_ids.1 t k hsub x hx)
  omega

/-- filtering child identifiers = filtering children -/
theorem filter_rids (ks : List RTree) (p : Nat → Bool) :
    (ks.map rid).filter p = (ks.filter (fun k => p k.rid)).map rid := by
  rw [List.filter_map]; rfl

theorem Small.filter {ft : FTree} {fs : List RTree} (h : Small ft fs) (p : RTree → Bool) :
    Small ft (fs.filter p) := fun k hk => h k (List.mem_filter.mp hk).1

/-- `get_leaves` lists exactly the leaves (in dict order) -/
theorem Mirror.mem_getLeaves {ft : FTree} {t : RTree} (h : Mirror ft t) (x : Nat) :
    x ∈ ft.getLeaves ↔ x ∈ leavesOf t := by
  rw [leavesOf_eq_filter.1 t h.2.2, List.mem_filter]
  simp only [FTree.getLeaves, List.mem_map, List.mem_filter]
  constructor
  · rintro ⟨e, ⟨he, hl⟩, rfl⟩
    have he' := h.1.subset he
    have hx : e.1 ∈ ids t := by
      rw [← flatten_keys.1 t none]; exact List.mem_map.mpr ⟨e, he', rfl⟩
    refine ⟨hx, ?_⟩
    -- its subtree has no children
    obtain ⟨s, hs⟩ := (subtreeAt_isSome e.1).1 t hx
    have hsr := ((subtreeAt_basic e.1).1 t s hs).1
    obtain ⟨p, hp⟩ := flatten_subtree.1 t none s ((subtreeAt_mem_subtrees e.1).1 t s hs)
    have h1 := h.get_of_mem hp
    have h2 := h.get_of_mem (x := e.1) (g := e.2) he'
    rw [hsr] at h1
    rw [h1] at h2
    have hk : s.kids.map rid = e.2.children := by
      have := Option.some.inj h2; rw [← this]
    have hempty : s.kids = [] := by
      have : e.2.children = [] := by simpa using hl
      rw [this] at hk; simpa using hk
    rw [← isLeaf_subtree h.2.2 hs (hsr ▸ rid_mem_ids s)]
    cases s with
    | node i js => simp [kids] at hempty; subst hempty; simp [isLeaf]
  · rintro ⟨hx, hleaf⟩
    obtain ⟨s, hs⟩ := (subtreeAt_isSome x).1 t hx
    have hsr := ((subtreeAt_basic x).1 t s hs).1
    obtain ⟨p, hp⟩ := flatten_subtree.1 t none s ((subtreeAt_mem_subtrees x).1 t s hs)
    rw [hsr] at hp
    refine ⟨(x, ⟨p, s.kids.map rid⟩), ⟨h.1.symm.subset hp, ?_⟩, rfl⟩
    have hl := isLeaf_subtree h.2.2 hs (hsr ▸ rid_mem_ids s)
    rw [hleaf] at hl
    cases s with
    | node i js =>
      cases js with
      | nil => simp [kids]
      | cons k js' =>
        exfalso
        have := isLeaf_iff.mp hl (i, k.rid) (by simp)
        simp [rid] at hsr
        exact this (by simp [hsr])

end Ptn.C17
