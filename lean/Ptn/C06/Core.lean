import Ptn.C06.Model
import Ptn.C05.Lemmas
import Ptn.C05.Core
/-! Property theorems for C06: completion of the one-site schedules, the centre at the end of a
step, and time-reversibility of a palindromic composition of invertible local flows. -/
namespace Ptn.C06
open Ptn.C05

/-! ### Completion -/

/-- The first-order schedule is defined for every sweep (also a single node): `m` site updates and
    `m-1` link updates. -/
theorem first_length (segs : List Seg) (last : Nat) :
    (first segs last).length = 2 * segs.length + 1 := by
  simp only [first, List.length_append, List.length_flatMap, List.length_cons, List.length_nil]
  have : (segs.map fun _ => 2).sum = 2 * segs.length := by
    induction segs with
    | nil => rfl
    | cons a l ih => simp [ih]; omega
  simp [this]

/-- The second-order schedule is defined exactly for sweeps over at least two nodes, whatever the
    shape of the tree (in particular when the root has a single child). -/
theorem second_defined_iff (segs : List Seg) (last : Nat) :
    (second segs last).isSome ↔ segs ≠ [] := by
  unfold second
  cases h : segs.reverse with
  | nil => simp [List.reverse_eq_nil_iff.mp h]
  | cons s rest =>
    have : segs ≠ [] := by
      intro hs; simp [hs] at h
    simp [this]

/-! ### The centre at the end of a step is the first node of the sweep -/

private theorem centre_flat_fwd (c : Nat) (l : List Seg) (d1 d2 : Int) (tail : List Ev) :
    centreAfter c (l.flatMap (fun s => [Ev.site s.1 d1, Ev.link s.1 s.2 d2]) ++ tail) =
      centreAfter (match l.getLast? with | some s => s.2 | none => c) tail := by
  induction l generalizing c with
  | nil => simp
  | cons s rest ih =>
    simp only [List.flatMap_cons, List.cons_append, List.nil_append, centreAfter]
    rw [ih]
    cases rest with
    | nil => simp
    | cons t r =>
      have hl := List.getLast?_eq_some_getLast (l := t :: r) (by simp)
      simp [List.getLast?_cons_cons, hl]

private theorem centre_flat_bwd (c : Nat) (l : List Seg) (d1 d2 : Int) :
    centreAfter c (l.flatMap (fun t => [Ev.link t.2 t.1 d1, Ev.site t.1 d2])) =
      match l.getLast? with | some s => s.1 | none => c := by
  induction l generalizing c with
  | nil => simp [centreAfter]
  | cons s rest ih =>
    simp only [List.flatMap_cons, List.cons_append, List.nil_append, centreAfter]
    rw [ih]
    cases rest with
    | nil => simp
    | cons t r =>
      have hl := List.getLast?_eq_some_getLast (l := t :: r) (by simp)
      simp [List.getLast?_cons_cons, hl]

/-- Second-order one-site: after forward and backward sweep the centre sits on the first node of
    the update path. -/
theorem second_final_centre (init : List Seg) (s : Seg) (last c : Nat) :
    ∃ tr, second (init ++ [s]) last = some tr ∧
      centreAfter c tr = (match (init ++ [s]).head? with | some t => t.1 | none => c) := by
  refine ⟨_, second_defined init s last, ?_⟩
  simp only [List.append_assoc]
  rw [centre_flat_fwd]
  simp only [List.cons_append, List.nil_append, centreAfter]
  rw [centre_flat_bwd]
  cases init with
  | nil => simp
  | cons t r =>
    simp only [List.reverse_cons, List.cons_append, List.head?_cons]
    rw [List.getLast?_append]
    simp

/-- First-order one-site: the sweep ends on `last`; the centre is then moved back to the first
    node by `_reset_for_next_time_step` (not an event of the schedule). -/
theorem first_sweep_end (segs : List Seg) (last c : Nat) :
    centreAfter c (first segs last) = (match segs.getLast? with | some s => s.2 | none => c) := by
  unfold first
  rw [centre_flat_fwd]
  simp [centreAfter]

/-! ### Time reversibility -/

theorem runFlow_append {α : Type} (φ : Pos → Int → α → α) (s t : Sched) (x : α) :
    runFlow φ (s ++ t) x = runFlow φ t (runFlow φ s x) := by
  simp [runFlow, List.foldl_append]

/-- Undoing a composition: run the negated schedule in reverse order. -/
theorem runFlow_neg_reverse {α : Type} (φ : Pos → Int → α → α)
    (hinv : ∀ p t x, φ p (-t) (φ p t x) = x) (s : Sched) (x : α) :
    runFlow φ (negSched s.reverse) (runFlow φ s x) = x := by
  induction s generalizing x with
  | nil => rfl
  | cons pt rest ih =>
    have h1 : runFlow φ (pt :: rest) x = runFlow φ rest (φ pt.1 pt.2 x) := rfl
    have h2 : negSched (pt :: rest).reverse = negSched rest.reverse ++ [(pt.1, -pt.2)] := by
      simp [negSched]
    rw [h1, h2, runFlow_append, ih]
    simp [runFlow, hinv]

/-- **Reversibility**: if every local flow is undone by the same flow with the negated duration and
    the schedule is a palindrome, a step with `-H` undoes a step with `H`. -/
theorem palindromic_reversible {α : Type} (φ : Pos → Int → α → α)
    (hinv : ∀ p t x, φ p (-t) (φ p t x) = x) (s : Sched) (hpal : s.reverse = s) (x : α) :
    runFlow φ (negSched s) (runFlow φ s x) = x := by
  have := runFlow_neg_reverse φ hinv s x
  rwa [hpal] at this

/-- **Conservation along a whole step**: a quantity (norm, energy) that every local flow leaves
    unchanged is unchanged by any schedule — by induction over the trace.  The per-update facts are
    `local_update_conserves_norm/energy` (Props.lean). -/
theorem runFlow_conserves {α β : Type} (φ : Pos → Int → α → α) (F : α → β)
    (hF : ∀ p t x, F (φ p t x) = F x) (s : Sched) (x : α) : F (runFlow φ s x) = F x := by
  induction s generalizing x with
  | nil => rfl
  | cons pt rest ih =>
    have : runFlow φ (pt :: rest) x = runFlow φ rest (φ pt.1 pt.2 x) := rfl
    rw [this, ih, hF]

/-- A quantity that no local flow increases (fixed-rank projections, truncations) is not increased
    by any schedule. -/
theorem runFlow_monotone {α : Type} (φ : Pos → Int → α → α) (F : α → Int)
    (hF : ∀ p t x, F (φ p t x) ≤ F x) (s : Sched) (x : α) : F (runFlow φ s x) ≤ F x := by
  induction s generalizing x with
  | nil => exact Int.le_refl _
  | cons pt rest ih =>
    have : runFlow φ (pt :: rest) x = runFlow φ rest (φ pt.1 pt.2 x) := rfl
    rw [this]
    exact Int.le_trans (ih _) (hF _ _ _)

/-- Two adjacent updates of the same position compose additively when the flow is a one-parameter
    group: the full step on the last node is two half steps, which is what makes the second-order
    schedule a palindrome. -/
theorem runFlow_merge {α : Type} (φ : Pos → Int → α → α)
    (hadd : ∀ p s t x, φ p t (φ p s x) = φ p (s + t) x) (p : Pos) (a b : Sched) (x : α) :
    runFlow φ (a ++ [(p, 1), (p, 1)] ++ b) x = runFlow φ (a ++ [(p, 2)] ++ b) x := by
  simp only [runFlow_append]
  congr 1
  simp [runFlow, hadd]

/-- The second-order schedule (with the full step on the last node split in two halves) is a
    palindrome as a sequence of (position, duration). -/
theorem second_sched_palindrome (init : List Seg) (s : Seg) (last : Nat) (hadj : s.2 = last) :
    let half := schedOf ((init ++ [s]).flatMap (fun s => [Ev.site s.1 1, Ev.link s.1 s.2 (-1)]))
    let back := schedOf ([Ev.link last s.1 (-1), Ev.site s.1 1]
        ++ init.reverse.flatMap (fun t => [Ev.link t.2 t.1 (-1), Ev.site t.1 1]))
    (half ++ [(Pos.site last, 1), (Pos.site last, 1)] ++ back).reverse
      = half ++ [(Pos.site last, 1), (Pos.site last, 1)] ++ back := by
  intro half back
  have hb : back = half.reverse := by
    have := second_palindromic init s last hadj
    simp only at this
    simp only [back, half, schedOf]
    rw [this, ← List.map_reverse, List.map_map]
    apply List.map_congr_left
    intro e _
    cases e with
    | site v d => rfl
    | link a b d =>
      simp only [Function.comp, Ev.pos, Ev.dur]
      by_cases h : a ≤ b <;> by_cases h' : b ≤ a <;> simp [h, h']
      · have : a = b := by omega
        simp [this]
      · omega
    | two a b d => rfl
  rw [hb]
  simp [List.reverse_append]

/-! ### Non-vacuity -/

example : centreAfter 1 ((second [(1, 0), (2, 0), (0, 3)] 3).getD []) = 1 := by decide
example : (second [(0, 1)] 1).isSome = true := by decide      -- root 0 with the single child 1
example :
    let φ : Pos → Int → Int → Int := fun p t x => x + t * (match p with | .site v => v + 1 | .bond a b => a + b + 7)
    (∀ p t x, φ p (-t) (φ p t x) = x) := by
  intro φ p t x; simp only [φ]; rw [Int.neg_mul]; omega

end Ptn.C06
