/-! Model for property C06 (core Lean only; no Mathlib). -/
namespace Ptn.C06
end Ptn.C06
