import Ptn.C05.Model
/-! Model for property C06 (one-site TDVP as a composition of local flows); core Lean only.

The schedule itself is `Ptn.C05.first` / `Ptn.C05.second`.  Here:
* `centreAfter` tracks the orthogonality centre through the events (a site update stays, a link
  update from `a` to `b` moves the centre to `b`);
* a step is the composition of *local flows* `φ e t : α → α` (`e` = which site/bond, `t` = signed
  duration in half steps) over the state space `α` — `runFlow`. -/
namespace Ptn.C06
open Ptn.C05

def centreAfter (c : Nat) : List Ev → Nat
  | [] => c
  | .site _ _ :: tr => centreAfter c tr
  | .link _ b _ :: tr => centreAfter b tr
  | .two _ b _ :: tr => centreAfter b tr

/-- Position of an event irrespective of orientation and duration. -/
inductive Pos where
  | site (v : Nat)
  | bond (a b : Nat)     -- unordered: normalised with the smaller id first
deriving DecidableEq, Repr

def Ev.pos : Ev → Pos
  | .site v _ => .site v
  | .link a b _ => if a ≤ b then .bond a b else .bond b a
  | .two a b _ => if a ≤ b then .bond a b else .bond b a

/-- A step as a sequence of (position, signed duration). -/
abbrev Sched := List (Pos × Int)

def schedOf (tr : List Ev) : Sched := tr.map fun e => (Ev.pos e, Ev.dur e)

/-- Apply the local flows in order. -/
def runFlow {α : Type} (φ : Pos → Int → α → α) (s : Sched) (x : α) : α :=
  s.foldl (fun x pt => φ pt.1 pt.2 x) x

/-- The same schedule with every duration negated: a step with `-H` (the local generator
    `-i t EᴴHE` only sees the product `t·H`). -/
def negSched (s : Sched) : Sched := s.map fun pt => (pt.1, -pt.2)

end Ptn.C06
