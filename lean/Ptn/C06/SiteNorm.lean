import Ptn.C06.SiteCanon
import Ptn.C06.Value
/-! The doubled tree built from a valued network (`Ptn.C03.kidsOf`, conjugation `star`) is a ket tree with its
conjugated relabelled copy (`Ptn.Ein.Kids.IsConj`), the relabelling being `dswap` (ket copy of a leg ↔ bra copy). -/
namespace Ptn.C06.Gauge

open Ptn.Ein Ptn.C17 Ptn.C17.RTree Ptn.C03

set_option linter.unusedSectionVars false
variable {R : Type} [CommSemiring R] [StarRing R]

/-- ket copy of a leg ↔ bra copy -/
def dswap : DL → DL
  | .ket l => .bra l
  | .bra l => .ket l

theorem dswap_injective : Function.Injective dswap := by
  intro x y h
  cases x <;> cases y <;> simp [dswap] at h ⊢ <;> exact h

theorem ddim_dswap (dim : Nat → Nat) (l : DL) : ddim dim (dswap l) = ddim dim l := by
  cases l <;> rfl

theorem braT_eq_cjr (T : Asg Nat → R) : braT (star : R → R) T = cjr dswap (ketT T) := rfl

theorem physOf_conj (N : VNet R) (k : Nat) (X : List Nat) : ∀ p ∈ physOf N k X, p.2 = dswap p.1 := by
  intro p hp
  obtain ⟨l, _, rfl⟩ := List.mem_map.1 hp
  rfl

/-- the doubled tree of a network is a ket tree with its conjugated copy -/
theorem subOf_isConj (N : VNet R) (up dn : Nat → Nat) :
    (∀ t : RTree, (subOf (star : R → R) N up dn t).IsConj dswap) ∧
    (∀ ks : List RTree, (kidsOf (star : R → R) N up dn ks).IsConj dswap) := by
  apply induct
  · intro k ks ih
    rw [subOf, Sub.IsConj]
    exact ⟨braT_eq_cjr _, rfl, physOf_conj N k _, ih⟩
  · rw [kidsOf, Kids.IsConj]; trivial
  · intro t ts iht ihts
    rw [kidsOf, Kids.IsConj]
    exact ⟨rfl, iht, ihts⟩

end Ptn.C06.Gauge
