import Ptn.C06.SiteCanon
/-! The two halves of a QR gauge move (builder B70): the network DURING a link update.

`Ptn.C03.gaugeStep` (the move of `Ptn.C03.IsoStep`) absorbs the `R` factor into the neighbour at once.  During
`OneSiteTDVP._update_link` the `R` factor is a node of its own (the link tensor, identifier `ℓ`):

* `qrHalf dim N n ℓ a F`: the tensor of `n` becomes `Q` (legs `q :: legs n \ a`), the NEW node `ℓ` carries `R` with
  the legs `[r, a]`; the fresh bond `(q, r)` joins `n` with `ℓ`, the old bond `p` (ends `a`, `b`) now joins `ℓ` with
  `m`; the tensor of `m` is untouched;
* `absorbHalf dim M ℓ m p b r`: the node `ℓ` is contracted into `m` over the bond `p`.

`absorbHalf_qrHalf`: the composition is `gaugeStep` (node set, bonds, counter, and the legs and the tensor of every
node); `absorbHalf_qrHalf_value`: hence the same value.  `qrHalf_wf`: the intermediate network is well-formed. -/
namespace Ptn.C06.Gauge

open Ptn.Ein Ptn.C17 Ptn.C17.RTree Ptn.C03

set_option linter.unusedSectionVars false
set_option linter.unusedVariables false
variable {R : Type} [CommSemiring R]

/-- first half of a move: `n` carries `Q`, the new node `ℓ` carries `R` on the legs `[r, a]` -/
def qrHalf (dim : Nat → Nat) (N : VNet R) (n ℓ a : Nat)
    (F : QRFact dim (N.tens n) (N.legs n) a N.next (N.next + 1)) : VNet R where
  ids := ℓ :: N.ids
  legs := fun k => if k = ℓ then [N.next + 1, a]
    else if k = n then N.next :: (N.legs n).erase a else N.legs k
  tens := fun k => if k = ℓ then F.Rm else if k = n then F.Q else N.tens k
  bonds := N.bonds ++ [(N.next, N.next + 1)]
  next := N.next + 2

/-- second half: the node `ℓ` is contracted into `m` over the bond `p` (end `b` at `m`); `r` is the leg of `ℓ`
that `m` inherits -/
def absorbHalf (dim : Nat → Nat) (M : VNet R) (ℓ m : Nat) (p : Nat × Nat) (b r : Nat) : VNet R where
  ids := M.ids.erase ℓ
  legs := fun k => if k = m then r :: (M.legs m).erase b else M.legs k
  tens := fun k => if k = m then (fun τ => sumPairs dim [p] (fun ρ => M.tens ℓ ρ * M.tens m ρ) τ) else M.tens k
  bonds := M.bonds.erase p
  next := M.next

/-- **`gaugeStep = absorbHalf ∘ qrHalf` (record).**  Same nodes, bonds and counter; every node has the same legs
and the same tensor. -/
theorem absorbHalf_qrHalf (dim : Nat → Nat) (N : VNet R) {n m ℓ : Nat} {p : Nat × Nat} {a b : Nat}
    (F : QRFact dim (N.tens n) (N.legs n) a N.next (N.next + 1)) (hn : n ∈ N.ids) (hm : m ∈ N.ids)
    (hnm : n ≠ m) (hℓ : ℓ ∉ N.ids) (hp : p ∈ N.bonds) :
    (absorbHalf dim (qrHalf dim N n ℓ a F) ℓ m p b (N.next + 1)).ids = (gaugeStep dim N n m p a b F).ids ∧
    (absorbHalf dim (qrHalf dim N n ℓ a F) ℓ m p b (N.next + 1)).bonds = (gaugeStep dim N n m p a b F).bonds ∧
    (absorbHalf dim (qrHalf dim N n ℓ a F) ℓ m p b (N.next + 1)).next = (gaugeStep dim N n m p a b F).next ∧
    ∀ k ∈ N.ids,
      (absorbHalf dim (qrHalf dim N n ℓ a F) ℓ m p b (N.next + 1)).legs k = (gaugeStep dim N n m p a b F).legs k ∧
      (absorbHalf dim (qrHalf dim N n ℓ a F) ℓ m p b (N.next + 1)).tens k = (gaugeStep dim N n m p a b F).tens k := by
  have hnℓ : n ≠ ℓ := fun e => hℓ (e ▸ hn)
  have hmℓ : m ≠ ℓ := fun e => hℓ (e ▸ hm)
  refine ⟨?_, ?_, rfl, ?_⟩
  · show (ℓ :: N.ids).erase ℓ = N.ids
    exact List.erase_cons_head ..
  · show (N.bonds ++ [(N.next, N.next + 1)]).erase p = N.bonds.erase p ++ [(N.next, N.next + 1)]
    exact List.erase_append_left _ hp
  · intro k hk
    have hkℓ : k ≠ ℓ := fun e => hℓ (e ▸ hk)
    by_cases h1 : k = n
    · subst h1
      simp [absorbHalf, qrHalf, gaugeStep, hnm, hkℓ]
    · by_cases h2 : k = m
      · subst h2
        simp [absorbHalf, qrHalf, gaugeStep, h1, hkℓ]
      · simp [absorbHalf, qrHalf, gaugeStep, h1, h2, hkℓ]

/-- **`gaugeStep = absorbHalf ∘ qrHalf` (value).** -/
theorem absorbHalf_qrHalf_value (dim : Nat → Nat) (N : VNet R) {n m ℓ : Nat} {p : Nat × Nat} {a b : Nat}
    (F : QRFact dim (N.tens n) (N.legs n) a N.next (N.next + 1)) (hn : n ∈ N.ids) (hm : m ∈ N.ids)
    (hnm : n ≠ m) (hℓ : ℓ ∉ N.ids) (hp : p ∈ N.bonds) (σ : Asg Nat) :
    (absorbHalf dim (qrHalf dim N n ℓ a F) ℓ m p b (N.next + 1)).value dim σ =
      (gaugeStep dim N n m p a b F).value dim σ := by
  obtain ⟨h1, h2, _, h4⟩ := absorbHalf_qrHalf dim N (b := b) F hn hm hnm hℓ hp
  unfold VNet.value
  rw [h1, h2]
  have : (gaugeStep dim N n m p a b F).ids.map
        (absorbHalf dim (qrHalf dim N n ℓ a F) ℓ m p b (N.next + 1)).tens =
      (gaugeStep dim N n m p a b F).ids.map (gaugeStep dim N n m p a b F).tens :=
    List.map_congr_left (fun k hk => (h4 k hk).2)
  rw [this]

section
variable {dim : Nat → Nat} {N : VNet R} {n ℓ a : Nat}
  {F : QRFact dim (N.tens n) (N.legs n) a N.next (N.next + 1)}

theorem qrHalf_legs_l : (qrHalf dim N n ℓ a F).legs ℓ = [N.next + 1, a] := by simp [qrHalf]

theorem qrHalf_legs_n (h : n ≠ ℓ) : (qrHalf dim N n ℓ a F).legs n = N.next :: (N.legs n).erase a := by
  simp [qrHalf, h]

theorem qrHalf_legs_other {k : Nat} (h1 : k ≠ ℓ) (h2 : k ≠ n) : (qrHalf dim N n ℓ a F).legs k = N.legs k := by
  simp [qrHalf, h1, h2]

theorem qrHalf_tens_other {k : Nat} (h1 : k ≠ ℓ) (h2 : k ≠ n) : (qrHalf dim N n ℓ a F).tens k = N.tens k := by
  simp [qrHalf, h1, h2]

theorem qrHalf_tens_n (h : n ≠ ℓ) : (qrHalf dim N n ℓ a F).tens n = F.Q := by simp [qrHalf, h]

/-- where a leg of the intermediate network sits -/
theorem qrHalf_mem (h : N.WF) (hn : n ∈ N.ids) (hℓ : ℓ ∉ N.ids) (ha : a ∈ N.legs n) {k l : Nat}
    (hk : k ∈ ℓ :: N.ids) (hl : l ∈ (qrHalf dim N n ℓ a F).legs k) :
    (k = ℓ ∧ (l = N.next + 1 ∨ l = a)) ∨ (k = n ∧ l = N.next) ∨
      (k ∈ N.ids ∧ l ∈ N.legs k ∧ l ≠ a ∧ l < N.next) := by
  by_cases h1 : k = ℓ
  · subst h1
    rw [qrHalf_legs_l] at hl
    simp at hl
    exact Or.inl ⟨rfl, hl⟩
  · have hk' : k ∈ N.ids := by
      rcases List.mem_cons.1 hk with e | e
      · exact absurd e h1
      · exact e
    by_cases h2 : k = n
    · subst h2
      rw [qrHalf_legs_n h1] at hl
      rcases List.mem_cons.1 hl with e | e
      · exact Or.inr (Or.inl ⟨rfl, e⟩)
      · have := ((h.legs_nodup k hk').mem_erase_iff).1 e
        exact Or.inr (Or.inr ⟨hk', this.2, this.1, h.fresh k hk' l this.2⟩)
    · rw [qrHalf_legs_other h1 h2] at hl
      refine Or.inr (Or.inr ⟨hk', hl, ?_, h.fresh k hk' l hl⟩)
      intro e
      exact h2 (h.owner k hk' n hn l hl (e ▸ ha))

/-- **the intermediate network (link tensor as its own node) is well-formed** -/
theorem qrHalf_wf (h : N.WF) (hn : n ∈ N.ids) (hℓ : ℓ ∉ N.ids) (ha : a ∈ N.legs n) :
    (qrHalf dim N n ℓ a F).WF := by
  have hnℓ : n ≠ ℓ := fun e => hℓ (e ▸ hn)
  have ha_lt : a < N.next := h.fresh n hn a ha
  refine ⟨List.nodup_cons.2 ⟨hℓ, h.ids_nodup⟩, ?_, ?_, ?_, ?_, ?_, ?_⟩
  · intro k hk
    by_cases h1 : k = ℓ
    · subst h1
      rw [qrHalf_legs_l]
      simp; omega
    · have hk' : k ∈ N.ids := by
        rcases List.mem_cons.1 hk with e | e
        · exact absurd e h1
        · exact e
      by_cases h2 : k = n
      · subst h2
        rw [qrHalf_legs_n h1, List.nodup_cons]
        refine ⟨fun hmem => ?_, (h.legs_nodup k hk').erase a⟩
        have := h.fresh k hk' _ (List.mem_of_mem_erase hmem); omega
      · rw [qrHalf_legs_other h1 h2]; exact h.legs_nodup k hk'
  · intro k1 hk1 k2 hk2 l hl1 hl2
    have g1 := qrHalf_mem (F := F) h hn hℓ ha hk1 hl1
    have g2 := qrHalf_mem (F := F) h hn hℓ ha hk2 hl2
    rcases g1 with ⟨e1, f1⟩ | ⟨e1, f1⟩ | ⟨e1, f1, f1', f1''⟩ <;>
      rcases g2 with ⟨e2, f2⟩ | ⟨e2, f2⟩ | ⟨e2, f2, f2', f2''⟩
    · rw [e1, e2]
    · exfalso; rcases f1 with f | f <;> omega
    · exfalso; rcases f1 with f | f
      · omega
      · exact f2' f
    · exfalso; rcases f2 with f | f <;> omega
    · rw [e1, e2]
    · exfalso; omega
    · exfalso; rcases f2 with f | f
      · omega
      · exact f1' f
    · exfalso; omega
    · exact h.owner k1 e1 k2 e2 l f1 f2
  · intro k hk
    by_cases h1 : k = ℓ
    · subst h1
      have : (qrHalf dim N n k a F).tens k = F.Rm := by simp [qrHalf]
      rw [this, qrHalf_legs_l]
      refine F.readsR.mono (fun l hl => ?_)
      simpa using hl
    · have hk' : k ∈ N.ids := by
        rcases List.mem_cons.1 hk with e | e
        · exact absurd e h1
        · exact e
      by_cases h2 : k = n
      · subst h2
        rw [qrHalf_tens_n h1, qrHalf_legs_n h1]
        exact F.readsQ
      · rw [qrHalf_tens_other h1 h2, qrHalf_legs_other h1 h2]; exact h.reads k hk'
  · show (Expr.pairLegs (N.bonds ++ [(N.next, N.next + 1)])).Nodup
    rw [(Expr.pairLegs_append _ _).nodup_iff, List.nodup_append]
    refine ⟨h.bonds_nodup, by simp [Expr.pairLegs], ?_⟩
    intro x hx y hy hxy
    subst hxy
    have := h.bond_lt x hx
    simp [Expr.pairLegs] at hy
    omega
  · intro p' hp'
    show (∃ k ∈ ℓ :: N.ids, p'.1 ∈ (qrHalf dim N n ℓ a F).legs k) ∧
      (∃ k ∈ ℓ :: N.ids, p'.2 ∈ (qrHalf dim N n ℓ a F).legs k)
    have key : ∀ l k, k ∈ N.ids → l ∈ N.legs k → ∃ k' ∈ ℓ :: N.ids, l ∈ (qrHalf dim N n ℓ a F).legs k' := by
      intro l k hk hl
      by_cases e : l = a
      · exact ⟨ℓ, List.mem_cons_self, by rw [qrHalf_legs_l, e]; simp⟩
      · have hkℓ : k ≠ ℓ := fun e => hℓ (e ▸ hk)
        refine ⟨k, List.mem_cons_of_mem _ hk, ?_⟩
        by_cases h2 : k = n
        · subst h2
          rw [qrHalf_legs_n hkℓ]
          exact List.mem_cons_of_mem _ (((h.legs_nodup k hk).mem_erase_iff).2 ⟨e, hl⟩)
        · rw [qrHalf_legs_other hkℓ h2]; exact hl
    rcases List.mem_append.1 hp' with hp' | hp'
    · obtain ⟨⟨k1, hk1, hl1⟩, ⟨k2, hk2, hl2⟩⟩ := h.bonds_legs p' hp'
      exact ⟨key _ k1 hk1 hl1, key _ k2 hk2 hl2⟩
    · simp only [List.mem_cons, List.not_mem_nil, or_false] at hp'
      subst hp'
      refine ⟨⟨n, List.mem_cons_of_mem _ hn, ?_⟩, ⟨ℓ, List.mem_cons_self, ?_⟩⟩
      · rw [qrHalf_legs_n hnℓ]; exact List.mem_cons_self
      · rw [qrHalf_legs_l]; simp
  · intro k hk l hl
    show l < N.next + 2
    rcases qrHalf_mem (F := F) h hn hℓ ha hk hl with ⟨_, f | f⟩ | ⟨_, f⟩ | ⟨_, _, _, f⟩ <;> omega

end

/-- **The network DURING a link update, locally** (partial: the two neighbours of the link tensor; the sub-trees
behind them are not re-assembled into a `Kids` here).  A move of `n` toward `m` over the bond `p` (ends `a`, `b`)
with the full QR contract, `ℓ` an unused identifier; if the tensor of `m` is an isometry toward its end `b` of
`p` (the record before a link update: every node other than `n` points toward `n`), then in the intermediate
network `M = qrHalf …` - well-formed - the link node `ℓ` is joined to `n` by the fresh bond and to `m` by `p`, its
tensor is `R` on exactly these two legs, and BOTH neighbours are isometries (index form) toward the link node;
contracting `ℓ` into `m` gives the network of the `IsoStep`, with the same value. -/
theorem link_neighbours_iso_partial (dim : Nat → Nat) (cj : R → R) {N : VNet R} (h : N.WF) {n m ℓ : Nat}
    {p : Nat × Nat} {a b : Nat} (hn : n ∈ N.ids) (hm : m ∈ N.ids) (hnm : n ≠ m) (hℓ : ℓ ∉ N.ids)
    (hj : N.Joined n m p a b) (F : QRFact dim (N.tens n) (N.legs n) a N.next (N.next + 1))
    (hiso : IsoToward dim cj F.Q (N.next :: (N.legs n).erase a) N.next)
    (hb : IsoToward dim cj (N.tens m) (N.legs m) b) :
    (qrHalf dim N n ℓ a F).WF ∧
    (qrHalf dim N n ℓ a F).Joined n ℓ (N.next, N.next + 1) N.next (N.next + 1) ∧
    (qrHalf dim N n ℓ a F).Joined m ℓ p b a ∧
    (qrHalf dim N n ℓ a F).legs ℓ = [N.next + 1, a] ∧ (qrHalf dim N n ℓ a F).tens ℓ = F.Rm ∧
    IsoToward dim cj ((qrHalf dim N n ℓ a F).tens n) ((qrHalf dim N n ℓ a F).legs n) N.next ∧
    IsoToward dim cj ((qrHalf dim N n ℓ a F).tens m) ((qrHalf dim N n ℓ a F).legs m) b ∧
    ∀ σ, (absorbHalf dim (qrHalf dim N n ℓ a F) ℓ m p b (N.next + 1)).value dim σ =
        (gaugeStep dim N n m p a b F).value dim σ := by
  obtain ⟨hp, hab, ha, hbm⟩ := hj
  have hnℓ : n ≠ ℓ := fun e => hℓ (e ▸ hn)
  have hmℓ : m ≠ ℓ := fun e => hℓ (e ▸ hm)
  have hmn : m ≠ n := fun e => hnm e.symm
  refine ⟨qrHalf_wf h hn hℓ ha, ⟨?_, Or.inl rfl, ?_, ?_⟩, ⟨?_, ?_, ?_, ?_⟩, qrHalf_legs_l, by simp [qrHalf], ?_, ?_,
    fun σ => absorbHalf_qrHalf_value dim N F hn hm hnm hℓ hp σ⟩
  · show _ ∈ N.bonds ++ [(N.next, N.next + 1)]; simp
  · rw [qrHalf_legs_n hnℓ]; exact List.mem_cons_self
  · rw [qrHalf_legs_l]; simp
  · show p ∈ N.bonds ++ [(N.next, N.next + 1)]; exact List.mem_append_left _ hp
  · rcases hab with e | e
    · exact Or.inr e
    · exact Or.inl e
  · rw [qrHalf_legs_other hmℓ hmn]; exact hbm
  · rw [qrHalf_legs_l]; simp
  · rw [qrHalf_tens_n hnℓ, qrHalf_legs_n hnℓ]; exact hiso
  · rw [qrHalf_tens_other hmℓ hmn, qrHalf_legs_other hmℓ hmn]; exact hb

end Ptn.C06.Gauge
