import Ptn.C02.CompositeWF
/-! # Structural corollaries for C06 / C07 (TDVP), proved on the structural TTN model of C02

The tree surgery of a TDVP step, modelled in `Ptn/C02/Composite.lean` line by line from
`pytreenet/time_evolution/tdvp_algorithms/{onesitetdvp,twositetdvp}.py` and
`pytreenet/core/canonical_form.py`:

* `linkUpdate a b link bd`    = `OneSiteTDVP._update_link(a, b)`:
    `split_node_qr(a, q, r, q_identifier=a, r_identifier=link, mode=KEEP)`, access of the link tensor,
    `contract_nodes(link, b, new_identifier=b)`;
* `twoSiteUpdate a b ts bd`   = `TwoSiteTDVP._update_two_site_nodes(a, b)`:
    `legs_before_combination(a, b)`, `contract_nodes(a, b, new_identifier=ts)`, access,
    `split_node_svd(ts, u, v, u_identifier=a, v_identifier=b)`;
* `centreMove a b rid bd`     = `split_qr_contract_r_to_neighbour(ttn, a, b)` (every step of
    `move_orthogonalization_center` / `canonical_form`).

`t.S k = some (parent, children)` is the structure of node `k` (`none`: no such node).  Each theorem
holds for both orientations of the pair and for any numbers of further children and open legs; the new
bond dimension `bd` is arbitrary.

**Proved**: well-formedness (`TTN.WF`: one root, symmetric links, a tree, equal key sets, Node invariants,
recorded shapes = stored shapes), same root, same identifiers, same parent of every node, same children of
every node, and the exact child ORDER afterwards.

**Not proved (hence `_partial`)**: that every node keeps its open legs in order (and, for the exact
QR-based updates, all leg dimensions).  The structural model computes them (the driver prints open labels
and shapes, `C02 hist … link:… twosite:… move:…`), and the harness-side comparison with the library found no
difference, but there is no theorem about them.  Core Lean only. -/
namespace Ptn.C06
open Ptn.C02

/-- **One-site link update** `_update_link(a, b)`.  With `top` the upper and `bot` the lower node of the
    pair `{a, b}`: every node other than `top` has its structure (parent, children list) unchanged, `top`
    keeps its parent and its children, and `bot` has become its FIRST child (the other children keep
    their relative order). -/
theorem link_update_structure_partial {t t' : TTN} {a b link : Id} {bd : Nat} (h : t.WF)
    (hfresh : t.N link = none) (hs : t.linkUpdate a b link bd = some t') :
    t'.WF ∧ t'.root = t.root ∧
    ∃ top bot Tn, ((top = a ∧ bot = b) ∨ (top = b ∧ bot = a)) ∧ t.N top = some Tn ∧ bot ∈ Tn.children ∧
      (∀ k, k ≠ top → t'.S k = t.S k) ∧
      t'.S top = some (Tn.parent, bot :: Tn.children.erase bot) := by
  obtain ⟨w, R, A, hA, hcase⟩ := link_update_full h hfresh hs
  refine ⟨w, R, ?_⟩
  rcases hcase with ⟨hb, S'⟩ | ⟨hp, S'⟩
  · exact ⟨a, b, A, Or.inl ⟨rfl, rfl⟩, hA, hb, promote_explicit hA S'⟩
  · obtain ⟨B, hB, hm⟩ := parent_node h hA hp
    exact ⟨b, a, B, Or.inr ⟨rfl, rfl⟩, hB, hm, promote_explicit hB S'⟩

/-- **Two-site update** `_update_two_site_nodes(a, b)`: as for the link update – the lower node of the pair
    becomes the FIRST child of the upper one, nothing else changes. -/
theorem two_site_update_structure_partial {t t' : TTN} {a b ts : Id} {bd : Nat} (h : t.WF)
    (hfresh : t.N ts = none) (hs : t.twoSiteUpdate a b ts bd = some t') :
    t'.WF ∧ t'.root = t.root ∧
    ∃ top bot Tn, ((top = a ∧ bot = b) ∨ (top = b ∧ bot = a)) ∧ t.N top = some Tn ∧ bot ∈ Tn.children ∧
      (∀ k, k ≠ top → t'.S k = t.S k) ∧
      t'.S top = some (Tn.parent, bot :: Tn.children.erase bot) := by
  obtain ⟨w, R, A, hA, hcase⟩ := two_site_full h hfresh hs
  refine ⟨w, R, ?_⟩
  rcases hcase with ⟨hb, S'⟩ | ⟨hp, S'⟩
  · exact ⟨a, b, A, Or.inl ⟨rfl, rfl⟩, hA, hb, promote_explicit hA S'⟩
  · obtain ⟨B, hB, hm⟩ := parent_node h hA hp
    exact ⟨b, a, B, Or.inr ⟨rfl, rfl⟩, hB, hm, promote_explicit hB S'⟩

/-- **Centre move** `split_qr_contract_r_to_neighbour(a, b)`.  Towards a child `b` of `a`: `b` becomes the
    FIRST child of `a`.  Towards the parent `b` of `a`: `a` becomes the LAST child of `b` (here
    `contract_nodes` is called with the neighbour first).  Nothing else changes. -/
theorem centre_move_structure_partial {t t' : TTN} {a b rid : Id} {bd : Nat} (h : t.WF)
    (hfresh : t.N rid = none) (hs : t.centreMove a b rid bd = some t') :
    t'.WF ∧ t'.root = t.root ∧
    ((∃ A, t.N a = some A ∧ b ∈ A.children ∧ (∀ k, k ≠ a → t'.S k = t.S k) ∧
        t'.S a = some (A.parent, b :: A.children.erase b)) ∨
     (∃ A B, t.N a = some A ∧ A.parent = some b ∧ t.N b = some B ∧ a ∈ B.children ∧
        (∀ k, k ≠ b → t'.S k = t.S k) ∧
        t'.S b = some (B.parent, B.children.erase a ++ [a]))) := by
  obtain ⟨w, R, A, hA, hcase⟩ := centre_move_full h hfresh hs
  refine ⟨w, R, ?_⟩
  rcases hcase with ⟨hb, S'⟩ | ⟨hp, S'⟩
  · exact Or.inl ⟨A, hA, hb, promote_explicit hA S'⟩
  · obtain ⟨B, hB, hm⟩ := parent_node h hA hp
    exact Or.inr ⟨A, B, hA, hp, hB, hm, demote_explicit hB S'⟩

/-- **Any sequence** of site accesses, link updates, two-site updates, centre moves (and
    `contract_and_split_with_parent`s) – i.e. a TDVP time step of any order, including the initial
    canonicalisation – keeps the network well-formed (so it composes with `Ptn.C02.ops_preserve_wf`) and
    preserves the root, the identifiers, the parent of every node and the children of every node up to
    order. -/
theorem tdvp_step_structure_partial {t t' : TTN} {es : List TdvpEvent} (h : t.WF) (hr : TdvpRun t es t') :
    t'.WF ∧ t'.root = t.root ∧
    (∀ k, t'.N k = none ↔ t.N k = none) ∧
    (∀ k n, t.N k = some n →
      ∃ n', t'.N k = some n' ∧ n'.parent = n.parent ∧ n'.children.Perm n.children) := by
  obtain ⟨w, R, E⟩ := tdvp_run_structure h hr
  exact ⟨w, R, treeEq_explicit E⟩

/-! ### non-vacuity -/

/-- The network `1 — {2, 3}` (root `1` with one open leg, leaves `2`, `3`), built from nothing. -/
def buildOps : List TOp :=
  [.root 1 [⟨0, 2⟩, ⟨100, 3⟩, ⟨101, 2⟩],
   .child 2 [⟨100, 3⟩, ⟨1, 2⟩] 0 1 1,
   .child 3 [⟨2, 2⟩, ⟨101, 2⟩] 1 1 2]

theorem buildOps_run : ∃ t, TRun TTN.empty buildOps t ∧ t.S 1 = some (none, [2, 3]) :=
  ⟨_, .cons ⟨rfl, rfl⟩ rfl (.cons trivial rfl (.cons trivial rfl (.nil _))), rfl⟩

/-- Link update from the leaf `3` to the root: succeeds, `50` is unused, and `3` has become the first
    child of `1`. -/
example : ∃ t t', TRun TTN.empty buildOps t ∧ t.WF ∧ t.N 50 = none ∧ t.linkUpdate 3 1 50 2 = some t' ∧
    t'.S 1 = some (none, [3, 2]) :=
  ⟨_, _, .cons ⟨rfl, rfl⟩ rfl (.cons trivial rfl (.cons trivial rfl (.nil _))),
    built_wf (show TRun TTN.empty buildOps _ from
      .cons ⟨rfl, rfl⟩ rfl (.cons trivial rfl (.cons trivial rfl (.nil _)))),
    rfl, rfl, rfl⟩

/-- Link update from the root down to `3`: same effect. -/
example : ∃ t t', TRun TTN.empty buildOps t ∧ t.linkUpdate 1 3 50 2 = some t' ∧
    t'.S 1 = some (none, [3, 2]) :=
  ⟨_, _, .cons ⟨rfl, rfl⟩ rfl (.cons trivial rfl (.cons trivial rfl (.nil _))), rfl, rfl⟩

/-- Two-site update of `(1, 3)` with a truncated bond. -/
example : ∃ t t', TRun TTN.empty buildOps t ∧ t.N 51 = none ∧ t.twoSiteUpdate 1 3 51 1 = some t' ∧
    t'.S 1 = some (none, [3, 2]) :=
  ⟨_, _, .cons ⟨rfl, rfl⟩ rfl (.cons trivial rfl (.cons trivial rfl (.nil _))), rfl, rfl, rfl⟩

/-- Centre moves: `2 → 1` makes `2` the last child (here: `[3, 2]`), `1 → 3` makes `3` the first child. -/
example : ∃ t t', TRun TTN.empty buildOps t ∧ t.N 52 = none ∧ t.centreMove 2 1 52 2 = some t' ∧
    t'.S 1 = some (none, [3, 2]) :=
  ⟨_, _, .cons ⟨rfl, rfl⟩ rfl (.cons trivial rfl (.cons trivial rfl (.nil _))), rfl, rfl, rfl⟩

/-- A run of events (move, access, link update, two-site update). -/
example : ∃ t t', TRun TTN.empty buildOps t ∧
    TdvpRun t [.move 3 1 60 2, .access 1, .link 1 2 61 3, .access 2, .twoSite 2 1 62 2] t' :=
  ⟨_, _, .cons ⟨rfl, rfl⟩ rfl (.cons trivial rfl (.cons trivial rfl (.nil _))),
    .cons rfl rfl (.cons trivial rfl (.cons rfl rfl (.cons trivial rfl (.cons rfl rfl (.nil _)))))⟩

end Ptn.C06
