import Ptn.C02.CompositeWF
import Ptn.C02.BuildLabels
/-! # Structural corollaries for C06 / C07 (TDVP), proved on the structural TTN model of C02

The tree surgery of a TDVP step, modelled in `Ptn/C02/Composite.lean` line by line from
`pytreenet/time_evolution/tdvp_algorithms/{onesitetdvp,twositetdvp}.py` and
`pytreenet/core/canonical_form.py`:

* `linkUpdate a b link bd`    = `OneSiteTDVP._update_link(a, b)`:
    `split_node_qr(a, q, r, q_identifier=a, r_identifier=link, mode=KEEP)`, access of the link tensor,
    `contract_nodes(link, b, new_identifier=b)`;
* `twoSiteUpdate a b ts bd`   = `TwoSiteTDVP._update_two_site_nodes(a, b)`:
    `legs_before_combination(a, b)`, `contract_nodes(a, b, new_identifier=ts)`, access,
    `split_node_svd(ts, u, v, u_identifier=a, v_identifier=b)`;
* `centreMove a b rid bd`     = `split_qr_contract_r_to_neighbour(ttn, a, b)` (every step of
    `move_orthogonalization_center` / `canonical_form`).

`t.S k = some (parent, children)` is the structure of node `k` (`none`: no such node); `t.openAxes k` are
the open axes (label, dimension) of node `k` in order; `t.LWF` is the label invariant of C02 (the two ends of
every bond carry the same label and dimension).  Each theorem holds for both orientations of the pair and
for any numbers of further children and open legs; the new bond dimension `bd` is arbitrary.

**Proved**: well-formedness (`TTN.WF`) and the label invariant are preserved; same root, same identifiers,
same parent of every node, same children of every node with the exact child ORDER afterwards; and **every
node keeps exactly its open legs – same labels, same order, same dimensions** (so only bond dimensions
change).  The `…_partial` theorems are the structure-only versions (no hypothesis on the labels).
Core Lean only. -/
namespace Ptn.C06
open Ptn.C02

/-- Reading of "the lower node of the pair `{a, b}` has become the first child of the upper one, nothing
    else has changed". -/
def PromotedIn (t t' : TTN) (a b : Id) : Prop :=
  ∃ top bot Tn, ((top = a ∧ bot = b) ∨ (top = b ∧ bot = a)) ∧ t.N top = some Tn ∧ bot ∈ Tn.children ∧
    (∀ k, k ≠ top → t'.S k = t.S k) ∧
    t'.S top = some (Tn.parent, bot :: Tn.children.erase bot)

theorem promotedIn_of {t t' : TTN} {a b : Id} (h : t.WF)
    (hc : ∃ A, t.N a = some A ∧
      ((b ∈ A.children ∧ t'.S = promoteS t.S a b) ∨ (A.parent = some b ∧ t'.S = promoteS t.S b a))) :
    PromotedIn t t' a b := by
  obtain ⟨A, hA, hcase⟩ := hc
  rcases hcase with ⟨hb, S'⟩ | ⟨hp, S'⟩
  · exact ⟨a, b, A, Or.inl ⟨rfl, rfl⟩, hA, hb, promote_explicit hA S'⟩
  · obtain ⟨B, hB, hm⟩ := parent_node h hA hp
    exact ⟨b, a, B, Or.inr ⟨rfl, rfl⟩, hB, hm, promote_explicit hB S'⟩

/-- Reading of the effect of a centre move `a → b` on the structure. -/
def CentreMovedIn (t t' : TTN) (a b : Id) : Prop :=
  (∃ A, t.N a = some A ∧ b ∈ A.children ∧ (∀ k, k ≠ a → t'.S k = t.S k) ∧
      t'.S a = some (A.parent, b :: A.children.erase b)) ∨
  (∃ A B, t.N a = some A ∧ A.parent = some b ∧ t.N b = some B ∧ a ∈ B.children ∧
      (∀ k, k ≠ b → t'.S k = t.S k) ∧
      t'.S b = some (B.parent, B.children.erase a ++ [a]))

theorem centreMovedIn_of {t t' : TTN} {a b : Id} (h : t.WF)
    (hc : ∃ A, t.N a = some A ∧
      ((b ∈ A.children ∧ t'.S = promoteS t.S a b) ∨ (A.parent = some b ∧ t'.S = demoteS t.S b a))) :
    CentreMovedIn t t' a b := by
  obtain ⟨A, hA, hcase⟩ := hc
  rcases hcase with ⟨hb, S'⟩ | ⟨hp, S'⟩
  · exact Or.inl ⟨A, hA, hb, promote_explicit hA S'⟩
  · obtain ⟨B, hB, hm⟩ := parent_node h hA hp
    exact Or.inr ⟨A, B, hA, hp, hB, hm, demote_explicit hB S'⟩

/-! ### structure and labels -/

/-- **One-site link update** `_update_link(a, b)`.  The network stays well-formed and label-consistent; with
    `top` the upper and `bot` the lower node of the pair: every node other than `top` has its structure
    (parent, children list) unchanged, `top` keeps its parent and its children, and `bot` has become its FIRST
    child (the other children keep their relative order); **every node keeps exactly its open legs** (labels,
    order, dimensions). -/
theorem link_update_structure {t t' : TTN} {a b link : Id} {bd : Nat} (h : t.WF) (hl : t.LWF)
    (hfresh : t.N link = none) (hs : t.linkUpdate a b link bd = some t') :
    t'.WF ∧ t'.LWF ∧ t'.root = t.root ∧ PromotedIn t t' a b ∧ ∀ k, t'.openAxes k = t.openAxes k := by
  obtain ⟨w, R, hc⟩ := link_update_full (TTN.WFX.ofLWF h hl) hfresh hs
  exact ⟨w.wf, w.lwf trivial, R, promotedIn_of h hc, w.op trivial⟩

/-- **Two-site update** `_update_two_site_nodes(a, b)` (any truncated bond dimension): as for the link update. -/
theorem two_site_update_structure {t t' : TTN} {a b ts : Id} {bd : Nat} (h : t.WF) (hl : t.LWF)
    (hfresh : t.N ts = none) (hs : t.twoSiteUpdate a b ts bd = some t') :
    t'.WF ∧ t'.LWF ∧ t'.root = t.root ∧ PromotedIn t t' a b ∧ ∀ k, t'.openAxes k = t.openAxes k := by
  obtain ⟨w, R, hc⟩ := two_site_full (TTN.WFX.ofLWF h hl) hfresh hs
  exact ⟨w.wf, w.lwf trivial, R, promotedIn_of h hc, w.op trivial⟩

/-- **Centre move** `split_qr_contract_r_to_neighbour(a, b)`.  Towards a child `b` of `a`: `b` becomes the
    FIRST child of `a`.  Towards the parent `b` of `a`: `a` becomes the LAST child of `b`.  Nothing else
    changes in the structure, and every node keeps exactly its open legs. -/
theorem centre_move_structure {t t' : TTN} {a b rid : Id} {bd : Nat} (h : t.WF) (hl : t.LWF)
    (hfresh : t.N rid = none) (hs : t.centreMove a b rid bd = some t') :
    t'.WF ∧ t'.LWF ∧ t'.root = t.root ∧ CentreMovedIn t t' a b ∧ ∀ k, t'.openAxes k = t.openAxes k := by
  obtain ⟨w, R, hc⟩ := centre_move_full (TTN.WFX.ofLWF h hl) hfresh hs
  exact ⟨w.wf, w.lwf trivial, R, centreMovedIn_of h hc, w.op trivial⟩

/-- **Any sequence** of site accesses, link updates, two-site updates, centre moves (and
    `contract_and_split_with_parent`s) – i.e. a TDVP time step of any order, including the initial
    canonicalisation: the network stays well-formed (so the statement composes with
    `Ptn.C02.ops_preserve_wf`) and label-consistent; root, identifiers and the parent of every node are
    preserved, the children of every node up to order; **every node keeps exactly its open legs, in order, with
    their dimensions – only bond dimensions change**. -/
theorem tdvp_step_structure {t t' : TTN} {es : List TdvpEvent} (h : t.WF) (hl : t.LWF)
    (hr : TdvpRun t es t') :
    t'.WF ∧ t'.LWF ∧ t'.root = t.root ∧
    (∀ k, t'.N k = none ↔ t.N k = none) ∧
    (∀ k n, t.N k = some n →
      ∃ n', t'.N k = some n' ∧ n'.parent = n.parent ∧ n'.children.Perm n.children) ∧
    (∀ k, t'.openAxes k = t.openAxes k) := by
  obtain ⟨w, l, R, E, o⟩ := tdvp_run_labels h hl hr
  exact ⟨w, l, R, (treeEq_explicit E).1, (treeEq_explicit E).2, o⟩

/-! ### structure only (no hypothesis on the labels) -/

theorem link_update_structure_partial {t t' : TTN} {a b link : Id} {bd : Nat} (h : t.WF)
    (hfresh : t.N link = none) (hs : t.linkUpdate a b link bd = some t') :
    t'.WF ∧ t'.root = t.root ∧
    ∃ top bot Tn, ((top = a ∧ bot = b) ∨ (top = b ∧ bot = a)) ∧ t.N top = some Tn ∧ bot ∈ Tn.children ∧
      (∀ k, k ≠ top → t'.S k = t.S k) ∧
      t'.S top = some (Tn.parent, bot :: Tn.children.erase bot) := by
  obtain ⟨w, R, hc⟩ := link_update_full (TTN.WFX.ofWF h) hfresh hs
  exact ⟨w.wf, R, promotedIn_of h hc⟩

theorem two_site_update_structure_partial {t t' : TTN} {a b ts : Id} {bd : Nat} (h : t.WF)
    (hfresh : t.N ts = none) (hs : t.twoSiteUpdate a b ts bd = some t') :
    t'.WF ∧ t'.root = t.root ∧
    ∃ top bot Tn, ((top = a ∧ bot = b) ∨ (top = b ∧ bot = a)) ∧ t.N top = some Tn ∧ bot ∈ Tn.children ∧
      (∀ k, k ≠ top → t'.S k = t.S k) ∧
      t'.S top = some (Tn.parent, bot :: Tn.children.erase bot) := by
  obtain ⟨w, R, hc⟩ := two_site_full (TTN.WFX.ofWF h) hfresh hs
  exact ⟨w.wf, R, promotedIn_of h hc⟩

theorem centre_move_structure_partial {t t' : TTN} {a b rid : Id} {bd : Nat} (h : t.WF)
    (hfresh : t.N rid = none) (hs : t.centreMove a b rid bd = some t') :
    t'.WF ∧ t'.root = t.root ∧
    ((∃ A, t.N a = some A ∧ b ∈ A.children ∧ (∀ k, k ≠ a → t'.S k = t.S k) ∧
        t'.S a = some (A.parent, b :: A.children.erase b)) ∨
     (∃ A B, t.N a = some A ∧ A.parent = some b ∧ t.N b = some B ∧ a ∈ B.children ∧
        (∀ k, k ≠ b → t'.S k = t.S k) ∧
        t'.S b = some (B.parent, B.children.erase a ++ [a]))) := by
  obtain ⟨w, R, hc⟩ := centre_move_full (TTN.WFX.ofWF h) hfresh hs
  exact ⟨w.wf, R, centreMovedIn_of h hc⟩

theorem tdvp_step_structure_partial {t t' : TTN} {es : List TdvpEvent} (h : t.WF) (hr : TdvpRun t es t') :
    t'.WF ∧ t'.root = t.root ∧
    (∀ k, t'.N k = none ↔ t.N k = none) ∧
    (∀ k n, t.N k = some n →
      ∃ n', t'.N k = some n' ∧ n'.parent = n.parent ∧ n'.children.Perm n.children) := by
  obtain ⟨w, R, E⟩ := tdvp_run_structure h hr
  exact ⟨w, R, treeEq_explicit E⟩

/-! ### non-vacuity -/

/-- The network `1 — {2, 3}` (root `1` with one open leg, leaves `2`, `3`), built from nothing. -/
def buildOps : List TOp :=
  [.root 1 [⟨0, 2⟩, ⟨100, 3⟩, ⟨101, 2⟩],
   .child 2 [⟨100, 3⟩, ⟨1, 2⟩] 0 1 1,
   .child 3 [⟨2, 2⟩, ⟨101, 2⟩] 1 1 2]

theorem buildOps_run : ∃ t, TRun TTN.empty buildOps t ∧ t.S 1 = some (none, [2, 3]) :=
  ⟨_, .cons ⟨rfl, rfl⟩ rfl (.cons trivial rfl (.cons trivial rfl (.nil _))), rfl⟩

/-- Link update from the leaf `3` to the root: succeeds, `50` is unused, and `3` has become the first
    child of `1`. -/
example : ∃ t t', TRun TTN.empty buildOps t ∧ t.WF ∧ t.N 50 = none ∧ t.linkUpdate 3 1 50 2 = some t' ∧
    t'.S 1 = some (none, [3, 2]) :=
  ⟨_, _, .cons ⟨rfl, rfl⟩ rfl (.cons trivial rfl (.cons trivial rfl (.nil _))),
    built_wf (show TRun TTN.empty buildOps _ from
      .cons ⟨rfl, rfl⟩ rfl (.cons trivial rfl (.cons trivial rfl (.nil _)))),
    rfl, rfl, rfl⟩

/-- Link update from the root down to `3`: same effect. -/
example : ∃ t t', TRun TTN.empty buildOps t ∧ t.linkUpdate 1 3 50 2 = some t' ∧
    t'.S 1 = some (none, [3, 2]) :=
  ⟨_, _, .cons ⟨rfl, rfl⟩ rfl (.cons trivial rfl (.cons trivial rfl (.nil _))), rfl, rfl⟩

/-- Two-site update of `(1, 3)` with a truncated bond. -/
example : ∃ t t', TRun TTN.empty buildOps t ∧ t.N 51 = none ∧ t.twoSiteUpdate 1 3 51 1 = some t' ∧
    t'.S 1 = some (none, [3, 2]) :=
  ⟨_, _, .cons ⟨rfl, rfl⟩ rfl (.cons trivial rfl (.cons trivial rfl (.nil _))), rfl, rfl, rfl⟩

/-- Centre moves: `2 → 1` makes `2` the last child (here: `[3, 2]`), `1 → 3` makes `3` the first child. -/
example : ∃ t t', TRun TTN.empty buildOps t ∧ t.N 52 = none ∧ t.centreMove 2 1 52 2 = some t' ∧
    t'.S 1 = some (none, [3, 2]) :=
  ⟨_, _, .cons ⟨rfl, rfl⟩ rfl (.cons trivial rfl (.cons trivial rfl (.nil _))), rfl, rfl, rfl⟩

/-- A run of events (move, access, link update, two-site update). -/
example : ∃ t t', TRun TTN.empty buildOps t ∧
    TdvpRun t [.move 3 1 60 2, .access 1, .link 1 2 61 3, .access 2, .twoSite 2 1 62 2] t' :=
  ⟨_, _, .cons ⟨rfl, rfl⟩ rfl (.cons trivial rfl (.cons trivial rfl (.nil _))),
    .cons rfl rfl (.cons trivial rfl (.cons rfl rfl (.cons trivial rfl (.cons rfl rfl (.nil _)))))⟩

/-- The same network is label-consistent (it is built with matching bond labels `100`, `101`), so the
    hypotheses of the label-level theorems are satisfiable; a two-site update with a truncated bond keeps the
    open axes of every node (`⟨0, 2⟩` at the root, `⟨1, 2⟩` at `2`, `⟨2, 2⟩` at `3`). -/
example : ∃ t t', TRunL TTN.empty buildOps t ∧ t.WF ∧ t.LWF ∧ t.N 51 = none ∧
    t.twoSiteUpdate 1 3 51 1 = some t' ∧
    t.openAxes 1 = [⟨0, 2⟩] ∧ t'.openAxes 1 = [⟨0, 2⟩] ∧ t'.openAxes 2 = [⟨1, 2⟩] ∧ t'.openAxes 3 = [⟨2, 2⟩] :=
  ⟨_, _, .cons ⟨rfl, rfl⟩ trivial rfl (.cons trivial ⟨_, rfl, rfl⟩ rfl (.cons trivial ⟨_, rfl, rfl⟩ rfl (.nil _))),
    (builtL_labels (show TRunL TTN.empty buildOps _ from
      .cons ⟨rfl, rfl⟩ trivial rfl (.cons trivial ⟨_, rfl, rfl⟩ rfl (.cons trivial ⟨_, rfl, rfl⟩ rfl (.nil _))))).1,
    (builtL_labels (show TRunL TTN.empty buildOps _ from
      .cons ⟨rfl, rfl⟩ trivial rfl (.cons trivial ⟨_, rfl, rfl⟩ rfl (.cons trivial ⟨_, rfl, rfl⟩ rfl (.nil _))))).2,
    rfl, rfl, rfl, rfl, rfl, rfl⟩

end Ptn.C06
