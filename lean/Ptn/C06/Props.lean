import Ptn.C06.Core
import Ptn.Common.AnalysisLocal
import Ptn.C06.Structure
/-! Property theorems for C06, part 2 (Mathlib): the combinatorial theorems are in `Core.lean`
(core Lean only, same namespace); here the linear-algebra consequences. -/
namespace Ptn.C06

/-! ### Every local update conserves norm and energy (instances of `Ptn.Analysis`, Mathlib)

By C05 every local update evolves the local tensor `φ` with `K = EᴴHE`, `E` the embedding of that
tensor given all other current tensors; by C03 `E` is an isometry (a partial isometry with projector
`P = EᴴE`, `Pφ = φ`, under zero-padded bonds in the shape-keeping mode).  Hence each local update —
forward or backward in time — leaves the norm and (for Hermitian `H`) the energy of the represented
state `Eφ` unchanged; a time step is a composition of such updates and gauge moves that do not
change the state. -/

open Matrix NormedSpace in
theorem local_update_conserves_norm {N d : Type} [Fintype N] [Fintype d] [DecidableEq N]
    [DecidableEq d] (E : Matrix N d ℂ) (H : Matrix N N ℂ) (hE : Eᴴ * E = 1) (hH : Hᴴ = H)
    (t : ℝ) (φ : d → ℂ) :
    star (E *ᵥ (exp ((-Complex.I * (t : ℂ)) • (Eᴴ * H * E)) *ᵥ φ)) ⬝ᵥ
        (E *ᵥ (exp ((-Complex.I * (t : ℂ)) • (Eᴴ * H * E)) *ᵥ φ))
      = star (E *ᵥ φ) ⬝ᵥ (E *ᵥ φ) :=
  Ptn.Analysis.local_flow_norm E H hE hH t φ

open Matrix NormedSpace in
theorem local_update_conserves_energy {N d : Type} [Fintype N] [Fintype d] [DecidableEq N]
    [DecidableEq d] (E : Matrix N d ℂ) (H : Matrix N N ℂ) (hH : Hᴴ = H) (t : ℝ) (φ : d → ℂ) :
    star (E *ᵥ (exp ((-Complex.I * (t : ℂ)) • (Eᴴ * H * E)) *ᵥ φ)) ⬝ᵥ
        (H *ᵥ (E *ᵥ (exp ((-Complex.I * (t : ℂ)) • (Eᴴ * H * E)) *ᵥ φ)))
      = star (E *ᵥ φ) ⬝ᵥ (H *ᵥ (E *ᵥ φ)) :=
  Ptn.Analysis.local_flow_energy E H hH t φ

open Matrix NormedSpace in
/-- The same with zero-padded bonds: `E` only a partial isometry. -/
theorem local_update_conserves_norm_padded {N d : Type} [Fintype N] [Fintype d] [DecidableEq N]
    [DecidableEq d] (E : Matrix N d ℂ) (H : Matrix N N ℂ) (P : Matrix d d ℂ)
    (hE : Eᴴ * E = P) (hP : P * P = P) (hH : Hᴴ = H) (c : ℂ) (hc : star c = -c)
    (φ : d → ℂ) (hφ : P *ᵥ φ = φ) :
    star (E *ᵥ (exp (c • (Eᴴ * H * E)) *ᵥ φ)) ⬝ᵥ (E *ᵥ (exp (c • (Eᴴ * H * E)) *ᵥ φ))
      = star (E *ᵥ φ) ⬝ᵥ (E *ᵥ φ) :=
  Ptn.Analysis.local_flow_norm_partial E H P hE hP hH c hc φ hφ

open Matrix NormedSpace in
/-- Saturated bonds: with a *unitary* embedding the local generator is the full Hamiltonian in
    another basis, so the local flow is the full propagator: `E exp(cK) Eᴴ = exp(cH)`. -/
theorem saturated_local_flow_is_full {n : Type} [Fintype n] [DecidableEq n]
    (E H : Matrix n n ℂ) (hE : Eᴴ * E = 1) (hE' : E * Eᴴ = 1) (c : ℂ) :
    E * exp (c • (Eᴴ * H * E)) * Eᴴ = exp (c • H) := by
  have h := Ptn.Analysis.exp_unitary_conj E (c • (Eᴴ * H * E)) hE
  rw [h]
  congr 1
  rw [Matrix.mul_smul, Matrix.smul_mul]
  congr 1
  calc E * (Eᴴ * H * E) * Eᴴ = (E * Eᴴ) * H * (E * Eᴴ) := by
        simp only [Matrix.mul_assoc]
    _ = H := by rw [hE']; simp

end Ptn.C06
