import Ptn.C06.Core
import Ptn.Common.AnalysisLocal
import Ptn.C06.Structure
import Ptn.C06.Value
import Ptn.C06.Demo
import Ptn.C06.Gauge
import Ptn.C06.SiteCanon
import Ptn.C06.SiteNorm
import Ptn.C06.Link
import Ptn.C06.LinkCanon
import Ptn.C03.Props
import Ptn.C17.Examples
/-! Property theorems for C06, part 2 (Mathlib): the combinatorial theorems are in `Core.lean`
(core Lean only, same namespace); here the linear-algebra consequences. -/
namespace Ptn.C06

/-! ### Every local update conserves norm and energy (instances of `Ptn.Analysis`, Mathlib)

By C05 every local update evolves the local tensor `φ` with `K = EᴴHE`, `E` the embedding of that
tensor given all other current tensors; by C03 `E` is an isometry (a partial isometry with projector
`P = EᴴE`, `Pφ = φ`, under zero-padded bonds in the shape-keeping mode).  Hence each local update —
forward or backward in time — leaves the norm and (for Hermitian `H`) the energy of the represented
state `Eφ` unchanged; a time step is a composition of such updates and gauge moves that do not
change the state. -/

open Matrix NormedSpace in
theorem local_update_conserves_norm {N d : Type} [Fintype N] [Fintype d] [DecidableEq N]
    [DecidableEq d] (E : Matrix N d ℂ) (H : Matrix N N ℂ) (hE : Eᴴ * E = 1) (hH : Hᴴ = H)
    (t : ℝ) (φ : d → ℂ) :
    star (E *ᵥ (exp ((-Complex.I * (t : ℂ)) • (Eᴴ * H * E)) *ᵥ φ)) ⬝ᵥ
        (E *ᵥ (exp ((-Complex.I * (t : ℂ)) • (Eᴴ * H * E)) *ᵥ φ))
      = star (E *ᵥ φ) ⬝ᵥ (E *ᵥ φ) :=
  Ptn.Analysis.local_flow_norm E H hE hH t φ

open Matrix NormedSpace in
theorem local_update_conserves_energy {N d : Type} [Fintype N] [Fintype d] [DecidableEq N]
    [DecidableEq d] (E : Matrix N d ℂ) (H : Matrix N N ℂ) (hH : Hᴴ = H) (t : ℝ) (φ : d → ℂ) :
    star (E *ᵥ (exp ((-Complex.I * (t : ℂ)) • (Eᴴ * H * E)) *ᵥ φ)) ⬝ᵥ
        (H *ᵥ (E *ᵥ (exp ((-Complex.I * (t : ℂ)) • (Eᴴ * H * E)) *ᵥ φ)))
      = star (E *ᵥ φ) ⬝ᵥ (H *ᵥ (E *ᵥ φ)) :=
  Ptn.Analysis.local_flow_energy E H hH t φ

open Matrix NormedSpace in
/-- The same with zero-padded bonds: `E` only a partial isometry. -/
theorem local_update_conserves_norm_padded {N d : Type} [Fintype N] [Fintype d] [DecidableEq N]
    [DecidableEq d] (E : Matrix N d ℂ) (H : Matrix N N ℂ) (P : Matrix d d ℂ)
    (hE : Eᴴ * E = P) (hP : P * P = P) (hH : Hᴴ = H) (c : ℂ) (hc : star c = -c)
    (φ : d → ℂ) (hφ : P *ᵥ φ = φ) :
    star (E *ᵥ (exp (c • (Eᴴ * H * E)) *ᵥ φ)) ⬝ᵥ (E *ᵥ (exp (c • (Eᴴ * H * E)) *ᵥ φ))
      = star (E *ᵥ φ) ⬝ᵥ (E *ᵥ φ) :=
  Ptn.Analysis.local_flow_norm_partial E H P hE hP hH c hc φ hφ

open Matrix NormedSpace in
/-- Saturated bonds: with a *unitary* embedding the local generator is the full Hamiltonian in
    another basis, so the local flow is the full propagator: `E exp(cK) Eᴴ = exp(cH)`. -/
theorem saturated_local_flow_is_full {n : Type} [Fintype n] [DecidableEq n]
    (E H : Matrix n n ℂ) (hE : Eᴴ * E = 1) (hE' : E * Eᴴ = 1) (c : ℂ) :
    E * exp (c • (Eᴴ * H * E)) * Eᴴ = exp (c • H) := by
  have h := Ptn.Analysis.exp_unitary_conj E (c • (Eᴴ * H * E)) hE
  rw [h]
  congr 1
  rw [Matrix.mul_smul, Matrix.smul_mul]
  congr 1
  calc E * (Eᴴ * H * E) * Eᴴ = (E * Eᴴ) * H * (E * Eᴴ) := by
        simp only [Matrix.mul_assoc]
    _ = H := by rw [hE']; simp

/-! ### Value level: the embedding is an isometry BECAUSE the state is canonical at the updated site

`Ptn/Common/EinsumIso.lean`: the norm network seen from the centre is a tree of doubled sub-trees
(`Ptn.Ein.Sub` / `Kids`: any number of children, any depth, any number of open legs).  `Kids.Canon dim k`:
every non-centre node reads only its own legs and satisfies the isometry condition TOWARD THE CENTRE in
index form, `Σ_{all legs of n except the one toward the centre} T_n · Tc_n = δ` (which neighbour that is for
`canonical_form`: `Ptn.C03.canon_gauge_tree` — the first node on the path to the centre).  The theorems hold
for every tree, all dimensions, every commutative semiring. -/

section value
open Ptn.Ein
open scoped Kronecker

variable {L : Type} [DecidableEq L]

/-- **The contracted environment of the centre is the identity**: summing the product of all tensors and
conjugated tensors of all non-centre nodes over every pair of open legs and every bond not at the centre
gives `Π_k δ(x_k, y_k)` over the centre's bonds. -/
theorem environment_is_identity {R : Type} [CommSemiring R] (dim : L → Nat) (k : Kids L R)
    (hc : k.Canon dim) (hnd : k.labels.Nodup) (σ : Asg L)
    (hr : ∀ p ∈ k.ups, σ p.1 < dim p.1 ∧ σ p.2 < dim p.2) :
    netValue dim k.inBinds k.leaves σ = deltaProd k.ups σ :=
  Ptn.Ein.environment_is_identity dim k hc hnd σ hr

/-- **The embedding of the centre tensor is an isometry (index form)**: `Σ_phys Ec[phys; r] · E[phys; c] = δ_rc`,
`E` the ket half of the environment (all ket tensors of the non-centre nodes contracted over their own
bonds), `Ec` the bra half. -/
theorem embedding_isometry_of_canonical {R : Type} [CommSemiring R] (dim : L → Nat) (k : Kids L R)
    (hc : k.Canon dim) (hnd : k.labels.Nodup) (σ : Asg L)
    (hr : ∀ p ∈ k.ups, σ p.1 < dim p.1 ∧ σ p.2 < dim p.2) :
    sumPairs dim k.physAll (fun τ => k.E dim τ * k.Ec dim τ) σ = deltaProd k.ups σ :=
  Ptn.Ein.embedding_isometry_of_canonical dim k hc hnd σ hr

/-- the same as a matrix identity over the index tuples: `Ecᵀ · E = 1` -/
theorem embedding_matrix_isometry {R : Type} [CommSemiring R] (dim : L → Nat) (k : Kids L R)
    (hc : k.Canon dim) (hnd : k.labels.Nodup) :
    (envMatrixC dim k).transpose * envMatrix dim k = 1 :=
  Ptn.Ein.embedding_matrix_isometry dim k hc hnd

/-- **The norm computed from the centre tensor alone equals the full norm** (value of the norm network). -/
theorem centre_norm_eq_full_norm_value {R : Type} [CommSemiring R] (dim : L → Nat) (c : Centre L R)
    (hc : c.Canon dim) (hnd : c.labels.Nodup) (σ : Asg L) :
    netValue dim c.normBinds c.normLeaves σ = netValue dim (c.phys ++ c.kids.pairs) [c.C, c.Cc] σ :=
  Ptn.Ein.centre_norm_eq_full_norm_value dim c hc hnd σ

/-- the premises are satisfiable: the demo tree `centre — B — A`, `centre — A2` (bond dimension 4 between the
centre and `B`, permutation-like isometries, bra copy = conjugated ket with labels `l + 10`) -/
example : Demo.kids.Canon Demo.dim ∧ Demo.kids.labels.Nodup ∧ Demo.kids.IsConj Demo.pr ∧
    Function.Injective Demo.pr ∧ (∀ l, Demo.dim (Demo.pr l) = Demo.dim l) ∧
    Demo.centre.Canon Demo.dim ∧ Demo.centre.labels.Nodup ∧ Demo.kids.ups = [(4, 14), (2, 12)] :=
  ⟨Demo.kids_canon, Demo.kids_nodup, Demo.kids_isConj, Demo.pr_inj, Demo.dim_pr, Demo.centre_canon,
    Demo.centre_nodup, rfl⟩

/-- in-range assignments of the centre's bonds exist -/
example : ∀ p ∈ Demo.kids.ups, (fun l => if l = 4 ∨ l = 14 then 3 else 1 : Asg Nat) p.1 < Demo.dim p.1 ∧
    (fun l => if l = 4 ∨ l = 14 then 3 else 1 : Asg Nat) p.2 < Demo.dim p.2 := by
  intro p hp
  simp only [Demo.kids, Kids.ups, Demo.subB, Demo.subA2, Sub.u, Sub.u', List.mem_cons, List.not_mem_nil,
    or_false] at hp
  rcases hp with rfl | rfl <;> decide

/-- **One-site update, state canonical at the updated site: the norm is conserved.**  `k`: the sub-trees
around the updated node, every node canonical toward it, the bra tensors the conjugated relabelled ket
tensors (`IsConj`); `P`: the open legs of the updated node; the embedding
`E = envMatrix ⊗ 1_P` is BUILT from the network (no isometry hypothesis); `H` any Hermitian matrix on
the full space.  The local update `φ ↦ exp(-i t EᴴHE) φ` conserves the norm of the represented state `Eφ`. -/
theorem one_site_update_conserves_norm_of_canonical (dim : L → Nat) (pr : L → L)
    (hinj : Function.Injective pr) (hdim : ∀ l, dim (pr l) = dim l) (k : Kids L ℂ)
    (hc : k.Canon dim) (hnd : k.labels.Nodup) (hk : k.IsConj pr)
    (P : Type) [Fintype P] [DecidableEq P]
    (H : Matrix (Idx dim k.physAll × P) (Idx dim k.physAll × P) ℂ) (hH : H.conjTranspose = H)
    (t : ℝ) (φ : Idx dim k.ups × P → ℂ) :
    let E := siteEmbedding dim k P
    star (E.mulVec ((NormedSpace.exp ((-Complex.I * (t : ℂ)) • (E.conjTranspose * H * E))).mulVec φ)) ⬝ᵥ
        (E.mulVec ((NormedSpace.exp ((-Complex.I * (t : ℂ)) • (E.conjTranspose * H * E))).mulVec φ))
      = star (E.mulVec φ) ⬝ᵥ (E.mulVec φ) :=
  local_update_conserves_norm _ H
    (siteEmbedding_isometry dim k hc hnd (envMatrixC_eq_conj dim pr hinj hdim k hc hnd hk) P) hH t φ

/-- the energy (no canonical form needed — stated for the same embedding for completeness) -/
theorem one_site_update_conserves_energy_of_canonical (dim : L → Nat) (k : Kids L ℂ)
    (P : Type) [Fintype P] [DecidableEq P]
    (H : Matrix (Idx dim k.physAll × P) (Idx dim k.physAll × P) ℂ) (hH : H.conjTranspose = H)
    (t : ℝ) (φ : Idx dim k.ups × P → ℂ) :
    let E := siteEmbedding dim k P
    star (E.mulVec ((NormedSpace.exp ((-Complex.I * (t : ℂ)) • (E.conjTranspose * H * E))).mulVec φ)) ⬝ᵥ
        (H.mulVec (E.mulVec ((NormedSpace.exp ((-Complex.I * (t : ℂ)) • (E.conjTranspose * H * E))).mulVec φ)))
      = star (E.mulVec φ) ⬝ᵥ (H.mulVec (E.mulVec φ)) :=
  local_update_conserves_energy _ H hH t φ

/-- **Canonical form: the norm of the represented state is the norm of the centre tensor** (matrix form). -/
theorem centre_norm_eq_full_norm_of_canonical (dim : L → Nat) (pr : L → L)
    (hinj : Function.Injective pr) (hdim : ∀ l, dim (pr l) = dim l) (k : Kids L ℂ)
    (hc : k.Canon dim) (hnd : k.labels.Nodup) (hk : k.IsConj pr)
    (P : Type) [Fintype P] [DecidableEq P] (φ : Idx dim k.ups × P → ℂ) :
    star ((siteEmbedding dim k P).mulVec φ) ⬝ᵥ ((siteEmbedding dim k P).mulVec φ) = star φ ⬝ᵥ φ :=
  Ptn.Analysis.isometry_norm _
    (siteEmbedding_isometry dim k hc hnd (envMatrixC_eq_conj dim pr hinj hdim k hc hnd hk) P) φ

/-- a Hermitian matrix on the full space of the demo network (open legs of A, B, A2 and one open leg of
dimension 3 at the centre) -/
example : ((1 : Matrix (Idx Demo.dim Demo.kids.physAll × Fin 3) (Idx Demo.dim Demo.kids.physAll × Fin 3) ℂ)).conjTranspose
    = 1 := Matrix.conjTranspose_one

end value

/-! ### The state TDVP holds at every local update is canonical at the update site (builder B32)

The gauge machine `Ptn.C06.Gauge` (`GaugeModel.lean`) runs the events of a whole time step - the sequences
`eventsFirst` / `eventsSecond` / `eventsTwoSite` of the C05 discipline machine, which are tied to the code by
C05 - on the C03 gauge record: `move` / `hop` / `link` / `two a b` record the QR (SVD) split of `a` toward `b`
(`a` then points to `b`, `b` loses its record), `site` keeps the record.  `CanonAt t dir c`: `c` has no record and
every other node points to the first node on its way to `c`. -/

section gauge
open Ptn.C17 Ptn.C17.RTree Ptn.C05.Disc Ptn.C06.Gauge

/-- **At every event of a whole time step the record is canonical where the event happens** - all three
schemes, every well-formed tree.  Started canonical at the first node `s` of the sweep:
* before a site update `site v` the record is canonical at `v`;
* before a link update `link a b` it is canonical at `a`, `a` and `b` are neighbours, and WHILE the link tensor is
  evolved (after the QR split of `a`, before the contraction into `b`) it is canonical at the link: every node,
  `a` and `b` included, points toward the link;
* before a two-site update `two a b` it is canonical at `a`, and while the merged tensor is evolved it is
  canonical at the pair: every node other than `a`, `b` points to its first hop toward `a` = toward `b`;
* every QR of a centre move (`move`, `hop`) splits the current centre toward a neighbour;
* after the step the record is canonical at `s` again and the machine's centre is `s`. -/
theorem tdvp_site_update_canonical (t : RTree) (hwf : t.WF) (sch : Scheme) (hdef : sch.Defined t) :
    ∃ u s evs, updatePath t = some u ∧ u.head? = some s ∧ sch.events t = some evs ∧
      ∀ dir : Rec, CanonAt t dir s →
        (∀ p v q, evs = p ++ .site v :: q →
          (grun ⟨s, dir⟩ p).centre = v ∧ CanonAt t (grun ⟨s, dir⟩ p).dir v) ∧
        (∀ p a b q, evs = p ++ .link a b :: q →
          (grun ⟨s, dir⟩ p).centre = a ∧ Adj t a b ∧ CanonAt t (grun ⟨s, dir⟩ p).dir a ∧
          CanonLink t (during (grun ⟨s, dir⟩ p).dir (.link a b)) a b) ∧
        (∀ p a b q, evs = p ++ .two a b :: q →
          (grun ⟨s, dir⟩ p).centre = a ∧ Adj t a b ∧ CanonAt t (grun ⟨s, dir⟩ p).dir a ∧
          CanonPair t (during (grun ⟨s, dir⟩ p).dir (.two a b)) a b) ∧
        (∀ p a b q, evs = p ++ .move a b :: q ∨ evs = p ++ .hop a b :: q →
          (grun ⟨s, dir⟩ p).centre = a ∧ Adj t a b ∧ CanonAt t (grun ⟨s, dir⟩ p).dir a) ∧
        CanonAt t (grun ⟨s, dir⟩ evs).dir s ∧ (grun ⟨s, dir⟩ evs).centre = s := by
  obtain ⟨u, s, evs, hu, hs, _, hev, hw⟩ := scheme_walk t hwf sch hdef
  refine ⟨u, s, evs, hu, hs, hev, ?_⟩
  intro dir hc
  obtain ⟨hgood, hfin, hcen⟩ := goodRun_of_walk hwf evs ⟨s, dir⟩ s hw hc
  refine ⟨?_, ?_, ?_, ?_, hfin, hcen⟩
  · intro p v q h
    obtain ⟨hp, hcan, _⟩ := goodRun_split hgood p _ q h
    have : (grun ⟨s, dir⟩ p).centre = v := by
      simp only [gpre, pre, Bool.and_eq_true, beq_iff_eq] at hp; exact hp.1
    exact ⟨this, this ▸ hcan⟩
  · intro p a b q h
    obtain ⟨hp, hcan, hl⟩ := goodRun_split hgood p _ q h
    obtain ⟨hca, hab⟩ := gpre_pair (Or.inr (Or.inl rfl)) hp
    exact ⟨hca, hab, hca ▸ hcan, hl⟩
  · intro p a b q h
    obtain ⟨hp, hcan, hl⟩ := goodRun_split hgood p _ q h
    obtain ⟨hca, hab⟩ := gpre_pair (Or.inr (Or.inr (Or.inl rfl))) hp
    exact ⟨hca, hab, hca ▸ hcan, hl⟩
  · intro p a b q h
    rcases h with h | h
    · obtain ⟨hp, hcan, _⟩ := goodRun_split hgood p _ q h
      obtain ⟨hca, hab⟩ := gpre_pair (Or.inl rfl) hp
      exact ⟨hca, hab, hca ▸ hcan⟩
    · obtain ⟨hp, hcan, _⟩ := goodRun_split hgood p _ q h
      obtain ⟨hca, hab⟩ := gpre_pair (Or.inr (Or.inr (Or.inr rfl))) hp
      exact ⟨hca, hab, hca ▸ hcan⟩

/-- **The invariant over the life of the algorithm object.**  The constructor leaves a record canonical at the
first node `s` of the sweep - by `canonical_form(s)` on a state without centre (C03 `canon_gauge_tree`:
`canonRec`), or by `move_orthogonalization_center(s)` from a state canonical at any node `c0` (QR hops along the
way from `c0` to `s`) - and from a record canonical at `s` ANY number `k` of time steps keeps every event `Good`
(centre where the event starts, canonical there, canonical at the link / pair during link and two-site
updates) and ends canonical at `s`. -/
theorem tdvp_gauge_invariant (t : RTree) (hwf : t.WF) (sch : Scheme) (hdef : sch.Defined t) :
    ∃ u s evs, updatePath t = some u ∧ u.head? = some s ∧ sch.events t = some evs ∧
      (∃ ops dir0, canonRec t s = some (ops, dir0) ∧ CanonAt t dir0 s) ∧
      (∀ c0 ∈ ids t, ∀ dir : Rec, CanonAt t dir c0 → ∃ p, pathFromTo t c0 s = some p ∧
        GoodRun t ⟨c0, dir⟩ (hopsAlong p) ∧
        CanonAt t (grun ⟨c0, dir⟩ (hopsAlong p)).dir s ∧ (grun ⟨c0, dir⟩ (hopsAlong p)).centre = s) ∧
      ∀ dir : Rec, CanonAt t dir s → ∀ k : Nat,
        GoodRun t ⟨s, dir⟩ (List.replicate k evs).flatten ∧
        CanonAt t (grun ⟨s, dir⟩ (List.replicate k evs).flatten).dir s ∧
        (grun ⟨s, dir⟩ (List.replicate k evs).flatten).centre = s := by
  obtain ⟨u, s, evs, hu, hs, hsm, hev, hw⟩ := scheme_walk t hwf sch hdef
  refine ⟨u, s, evs, hu, hs, hev, canonRec_canon t hwf s hsm, ?_, ?_⟩
  · intro c0 hc0 dir hc
    obtain ⟨p, hp, hwp⟩ := walk_path_hops hwf hc0 hsm
    exact ⟨p, hp, goodRun_of_walk hwf _ ⟨c0, dir⟩ s hwp hc⟩
  · intro dir hc k
    exact goodRun_of_walk hwf _ ⟨s, dir⟩ s (walk_replicate hw k) hc

/-- **The STATE is canonical at every update** - the record read as a statement about the tensors, with the
contracts of the external factorisations as explicit hypotheses.  `α`: tensors, `iso A m`: "`A` is an isometry
toward the neighbour `m`"; `TRun iso T0 p T`: the tensors `T` after the events `p`, where an event may replace
ANY tensors it writes (`site v`: the tensor of `v`; a split of `a` toward `b`: those of `a` and `b`) subject only
to the QR / SVD contract that the factor left at `a` is an isometry toward `b` (`Writes`).  Started with a record
canonical at `s` that is true of the tensors (`Sound`), over any number `k` of time steps: before every event the
tensor of every node other than the machine's centre - which is where the event starts - is an isometry toward
the first node on its way to the centre; during a link update (tensors `T1` after the split of `a`) every
tensor is an isometry toward the link; during a two-site update every tensor other than the two merged ones is
an isometry toward the pair. -/
theorem tdvp_site_update_isometric {α : Type} (iso : α → Nat → Prop) (t : RTree) (hwf : t.WF)
    (sch : Scheme) (hdef : sch.Defined t) :
    ∃ u s evs, updatePath t = some u ∧ u.head? = some s ∧ sch.events t = some evs ∧
      ∀ (dir : Rec) (T0 : Nat → α), CanonAt t dir s → Sound iso dir T0 →
      ∀ (k : Nat) (p q : List DEv) (e : DEv) (T : Nat → α),
        (List.replicate k evs).flatten = p ++ e :: q → TRun iso T0 p T →
        gpre t (grun ⟨s, dir⟩ p).centre e = true ∧
        IsoCanonAt iso t T (grun ⟨s, dir⟩ p).centre ∧
        (∀ a b, e = .link a b → ∀ T1 : Nat → α, (∀ n, n ≠ a → T1 n = T n) → iso (T1 a) b →
          IsoCanonLink iso t T1 a b) ∧
        (∀ a b, e = .two a b → IsoCanonPair iso t T a b) := by
  obtain ⟨u, s, evs, hu, hs, _, hev, hw⟩ := scheme_walk t hwf sch hdef
  refine ⟨u, s, evs, hu, hs, hev, ?_⟩
  intro dir T0 hc hsd k p q e T hsplit hr
  obtain ⟨hp, hiso⟩ := state_canonical_at_event (st := ⟨s, dir⟩) hwf (walk_replicate hw k) hc hsd hsplit hr
  refine ⟨hp, hiso, ?_, ?_⟩
  · intro a b he T1 hk hi
    subst he
    obtain ⟨hca, hab⟩ := gpre_pair (Or.inr (Or.inl rfl)) hp
    exact isoCanonLink_of_split hwf hab (hca ▸ hiso) hk hi
  · intro a b he
    subst he
    obtain ⟨hca, hab⟩ := gpre_pair (Or.inr (Or.inr (Or.inl rfl))) hp
    exact isoCanonPair_of_at hwf hab (hca ▸ hiso)

/-! Non-vacuity: the 8-node tree of the C17 examples (root 0 with the branches 1-(3,4), 2, 5-6-7); the sweep
starts at node 7. -/

example : exTree.WF ∧ Scheme.Defined exTree .first ∧ Scheme.Defined exTree .second ∧
    Scheme.Defined exTree .twoSite := by
  refine ⟨by decide, trivial, ?_, ?_⟩ <;> (show exTree.kids ≠ []; decide)

/-- the record after `canonical_form(7)` is canonical at 7 (executable form), the machine checks every event of
one first-order, one second-order and one two-site step, and ends canonical at 7 -/
example : (canonRec exTree 7).map (fun r => showRec exTree r.2) = some "0>5 1>0 3>1 4>1 2>0 5>6 6>7 7>-" := by
  decide
example : ((canonRec exTree 7).bind fun r => (eventsSecond exTree).map fun evs =>
    canonAtB exTree r.2 7 && allGoodB exTree ⟨7, r.2⟩ evs &&
      canonAtB exTree (grun ⟨7, r.2⟩ evs).dir 7) = some true := by decide
example : ((canonRec exTree 7).bind fun r => (eventsTwoSite exTree).map fun evs =>
    allGoodB exTree ⟨7, r.2⟩ evs && canonAtB exTree (grun ⟨7, r.2⟩ evs).dir 7) = some true := by decide
example : ((canonRec exTree 7).bind fun r => (eventsFirst exTree).map fun evs =>
    allGoodB exTree ⟨7, r.2⟩ evs && canonAtB exTree (grun ⟨7, r.2⟩ evs).dir 7) = some true := by decide
/-- the splits of one second-order step begin with the link update 7 -> 6 -/
example : (eventsSecond exTree).map (fun evs => (opsOf evs).take 3) =
    some [⟨.qr, 7, 6⟩, ⟨.qr, 6, 5⟩, ⟨.qr, 5, 0⟩] := by decide

/-- the tensor-level hypotheses are satisfiable: tensors abstracted to "the neighbour I am an isometry toward"
(`α = Option Nat`, `iso A m := A = some m`), the record itself as the tensor state, the first two events of a
step -/
example : ∃ dir : Rec, CanonAt exTree dir 7 ∧ Sound (fun (A : Option Nat) m => A = some m) dir dir ∧
    TRun (fun (A : Option Nat) m => A = some m) dir [.site 7, .link 7 6]
      (Ptn.C03.applyOp dir ⟨7, 6⟩) := by
  obtain ⟨ops, dir, _, hc⟩ := canonRec_canon exTree (by decide) 7 (by decide)
  refine ⟨dir, hc, fun _ _ h => h, ?_⟩
  refine TRun.cons (T1 := dir) (fun _ _ => rfl) (TRun.cons ⟨?_, ?_⟩ (TRun.nil _))
  · intro n h1 h2; simp [Ptn.C03.applyOp, h1, h2]
  · simp [Ptn.C03.applyOp]

end gauge


/-! ### From the gauge record to `Kids.Canon` at every site update (value level, builder B45)

The events of a time step are run on a VALUED network (`Ptn.C03.VNet`: per node its legs and its tensor as a function
of index assignments, bonds, any commutative semiring): `VStep` / `VRun` (`SiteCanon.lean`) - a centre move is one
`Ptn.C03.IsoStep` (QR contract: factorisation, `Q` an isometry in index form toward the fresh bond, one dimension
for the fresh bond - hypotheses per call), a site update replaces the tensor of the site by ANY tensor on the same
legs, a link update is the split of `a` toward `b` followed by the replacement of the tensor of `b` (which has
absorbed the evolved link tensor) by any tensor on its legs.  No canonical-form hypothesis on any intermediate
state: only the initial network is assumed to satisfy its record. -/
section siteCanon
open Ptn.Ein Ptn.C17 Ptn.C17.RTree Ptn.C05.Disc Ptn.C06.Gauge Ptn.C03

/-- **At every site update of a time step the doubled tree around the update site is canonical in index form.**
Every well-formed tree `t`, each scheme, `k` time steps, `dim` any dimensions, any commutative semiring and conjugation.  Start: a
well-formed valued network `N0` containing the nodes of `t` whose bonds have one dimension, with a record `dir`
canonical at the first node `s` of the sweep and true of `N0` (`GaugeInv`: every recorded node is an isometry in
index form toward the bond to the recorded neighbour - what `canonical_form_isometric_tree` of C03 proves after
the constructor).  Then for EVERY site-update event `site v` of the `k` steps and every value-level run `N` of the
events before it: `N` is well-formed with the nodes of `N0`; the tree `r` = `t` re-rooted at `v` exists; there are
bond ends `up`, `dn` such that every edge of `r` satisfies `EdgeOK` (the bond exists in `N`, has one dimension, the
child's tensor is an isometry toward it); the doubled tree around `v` satisfies `Kids.Canon` and `Centre.Canon`,
its labels are pairwise distinct, its centre legs are the legs of `v`; and the norm network of `N` along `r` has
the value of the tensor of `v` alone. -/
theorem tdvp_update_site_kids_canon {R : Type} [CommSemiring R] (dim : Nat → Nat) (cj : R → R)
    (t : RTree) (hwf : t.WF) (sch : Scheme) (hdef : sch.Defined t) :
    ∃ u s evs, updatePath t = some u ∧ u.head? = some s ∧ sch.events t = some evs ∧
      ∀ (dir : Rec) (N0 : VNet R), CanonAt t dir s → N0.WF → BondDims dim N0 → (∀ n ∈ ids t, n ∈ N0.ids) →
        GaugeInv dim cj N0 dir →
      ∀ (k : Nat) (p q : List DEv) (v : Nat) (N : VNet R),
        (List.replicate k evs).flatten = p ++ DEv.site v :: q → VRun dim cj N0 p N →
        N.WF ∧ N.ids = N0.ids ∧ v ∈ ids t ∧
        ∃ r : RTree, reroot v [] t = some r ∧ r.rid = v ∧ (ids r).Perm (ids t) ∧
          ∃ up dn : Nat → Nat, (∀ e ∈ edges r, EdgeOK dim cj N up dn e.1 e.2) ∧
            (kidsOf cj N up dn r.kids).Canon (ddim dim) ∧ (centreOf cj N up dn r).Canon (ddim dim) ∧
            (centreOf cj N up dn r).labels.Nodup ∧
            ((centreOf cj N up dn r).phys ++ (kidsOf cj N up dn r.kids).pairs).Perm ((N.legs v).map dbl) ∧
            ∀ σ, netValue (ddim dim) (centreOf cj N up dn r).normBinds ((ids t).flatMap (nodeLeaves cj N)) σ =
              netValue (ddim dim) ((N.legs v).map dbl) [ketT (N.tens v), braT cj (N.tens v)] σ := by
  obtain ⟨u, s, evs, hu, hs, _, hev, hw⟩ := scheme_walk t hwf sch hdef
  refine ⟨u, s, evs, hu, hs, hev, ?_⟩
  intro dir N0 hc hwf0 hbd hids hinv k p q v N hsplit hr
  obtain ⟨hpre, hcan, hI⟩ := net_canonical_at_event (st := ⟨s, dir⟩) (ids0 := N0.ids) hwf
    (walk_replicate hw k) hc ⟨hwf0, hbd, rfl, hinv⟩ hsplit hr
  simp only [gpre, pre, Bool.and_eq_true, beq_iff_eq, List.contains_iff_mem] at hpre
  obtain ⟨hcv, hv⟩ := hpre
  have hv' : v ∈ ids t := by simpa using hv
  rw [hcv] at hcan
  have hI' : VInv dim cj N.ids N (grun ⟨s, dir⟩ p).dir := ⟨hI.wf, hI.bd, rfl, hI.inv⟩
  obtain ⟨r, hr1, hr2, hr3, up, dn, h1, h2, h3, h4, h5, h6⟩ :=
    site_canon_of_record dim cj hwf hv' hcan hI' (fun n hn => hI.ids ▸ hids n hn)
  exact ⟨hI.wf, hI.ids, hv', r, hr1, hr2, hr3, up, dn, h1, h2, h3, h4, h5, h6⟩

/-- **Before EVERY event of a time step (site, link and two-site updates, centre moves) the doubled tree around the
node the event starts from is canonical in index form** - the general form of `tdvp_update_site_kids_canon`, all
three schemes (the value-level two-site step: `VStep.two`, see `notes/C07.md`).  `c` is the machine's centre before
the event `e`: `e` starts there (`gpre`), and the conclusions of `tdvp_update_site_kids_canon` hold with `v := c`. -/
theorem tdvp_event_centre_kids_canon {R : Type} [CommSemiring R] (dim : Nat → Nat) (cj : R → R)
    (t : RTree) (hwf : t.WF) (sch : Scheme) (hdef : sch.Defined t) :
    ∃ u s evs, updatePath t = some u ∧ u.head? = some s ∧ sch.events t = some evs ∧
      ∀ (dir : Rec) (N0 : VNet R), CanonAt t dir s → N0.WF → BondDims dim N0 → (∀ n ∈ ids t, n ∈ N0.ids) →
        GaugeInv dim cj N0 dir →
      ∀ (k : Nat) (p q : List DEv) (e : DEv) (N : VNet R),
        (List.replicate k evs).flatten = p ++ e :: q → VRun dim cj N0 p N →
        gpre t (grun ⟨s, dir⟩ p).centre e = true ∧ N.WF ∧ N.ids = N0.ids ∧
        ∃ r : RTree, reroot (grun ⟨s, dir⟩ p).centre [] t = some r ∧ r.rid = (grun ⟨s, dir⟩ p).centre ∧
          (ids r).Perm (ids t) ∧
          ∃ up dn : Nat → Nat, (∀ e ∈ edges r, EdgeOK dim cj N up dn e.1 e.2) ∧
            (kidsOf cj N up dn r.kids).Canon (ddim dim) ∧ (centreOf cj N up dn r).Canon (ddim dim) ∧
            (centreOf cj N up dn r).labels.Nodup ∧
            ((centreOf cj N up dn r).phys ++ (kidsOf cj N up dn r.kids).pairs).Perm
              ((N.legs (grun ⟨s, dir⟩ p).centre).map dbl) ∧
            ∀ σ, netValue (ddim dim) (centreOf cj N up dn r).normBinds ((ids t).flatMap (nodeLeaves cj N)) σ =
              netValue (ddim dim) ((N.legs (grun ⟨s, dir⟩ p).centre).map dbl)
                [ketT (N.tens (grun ⟨s, dir⟩ p).centre), braT cj (N.tens (grun ⟨s, dir⟩ p).centre)] σ := by
  obtain ⟨u, s, evs, hu, hs, _, hev, hw⟩ := scheme_walk t hwf sch hdef
  refine ⟨u, s, evs, hu, hs, hev, ?_⟩
  intro dir N0 hc hwf0 hbd hids hinv k p q e N hsplit hr
  obtain ⟨hpre, hcan, hI⟩ := net_canonical_at_event (st := ⟨s, dir⟩) (ids0 := N0.ids) hwf
    (walk_replicate hw k) hc ⟨hwf0, hbd, rfl, hinv⟩ hsplit hr
  have hv' := gpre_centre_mem hpre
  have hI' : VInv dim cj N.ids N (grun ⟨s, dir⟩ p).dir := ⟨hI.wf, hI.bd, rfl, hI.inv⟩
  obtain ⟨r, hr1, hr2, hr3, up, dn, h1, h2, h3, h4, h5, h6⟩ :=
    site_canon_of_record dim cj hwf hv' hcan hI' (fun n hn => hI.ids ▸ hids n hn)
  exact ⟨hpre, hI.wf, hI.ids, r, hr1, hr2, hr3, up, dn, h1, h2, h3, h4, h5, h6⟩

open Matrix NormedSpace in
/-- **Every one-site update of a TDVP time step conserves the norm** - no canonical-form hypothesis other than the
per-QR contracts of the run (`VRun`: each split's `Q` is an isometry toward the fresh bond) and the truth of the
record of the INITIAL network.  Over the complex numbers with conjugation `star`: before every event `site v` the
doubled tree `kidsOf star N up dn r.kids` around `v` (`r` = `t` re-rooted at `v`) is built from the current network
`N`, the embedding `E = siteEmbedding … = envMatrix ⊗ 1_P` is BUILT from it (`P`: the open legs of `v`), and for every
Hermitian `H` the update `φ ↦ exp(-i τ EᴴHE) φ` conserves `|Eφ|²`
(`tdvp_update_site_kids_canon` + `subOf_isConj` + `one_site_update_conserves_norm_of_canonical`). -/
theorem tdvp_one_site_update_conserves_norm (dim : Nat → Nat) (t : RTree) (hwf : t.WF) (sch : Scheme)
    (hdef : sch.Defined t) :
    ∃ u s evs, updatePath t = some u ∧ u.head? = some s ∧ sch.events t = some evs ∧
      ∀ (dir : Rec) (N0 : VNet ℂ), CanonAt t dir s → N0.WF → BondDims dim N0 → (∀ n ∈ ids t, n ∈ N0.ids) →
        GaugeInv dim (star : ℂ → ℂ) N0 dir →
      ∀ (k : Nat) (p q : List DEv) (v : Nat) (N : VNet ℂ),
        (List.replicate k evs).flatten = p ++ DEv.site v :: q → VRun dim (star : ℂ → ℂ) N0 p N →
        ∃ r : RTree, reroot v [] t = some r ∧ r.rid = v ∧
          ∃ up dn : Nat → Nat, (∀ e ∈ edges r, EdgeOK dim (star : ℂ → ℂ) N up dn e.1 e.2) ∧
            ∀ (P : Type) [Fintype P] [DecidableEq P]
              (H : Matrix (Idx (ddim dim) (kidsOf (star : ℂ → ℂ) N up dn r.kids).physAll × P)
                (Idx (ddim dim) (kidsOf (star : ℂ → ℂ) N up dn r.kids).physAll × P) ℂ),
              H.conjTranspose = H → ∀ (τ : ℝ)
              (φ : Idx (ddim dim) (kidsOf (star : ℂ → ℂ) N up dn r.kids).ups × P → ℂ),
              let E := siteEmbedding (ddim dim) (kidsOf (star : ℂ → ℂ) N up dn r.kids) P
              star (E.mulVec ((exp ((-Complex.I * (τ : ℂ)) • (E.conjTranspose * H * E))).mulVec φ)) ⬝ᵥ
                  (E.mulVec ((exp ((-Complex.I * (τ : ℂ)) • (E.conjTranspose * H * E))).mulVec φ))
                = star (E.mulVec φ) ⬝ᵥ (E.mulVec φ) := by
  obtain ⟨u, s, evs, hu, hs, hev, hall⟩ := tdvp_update_site_kids_canon dim (star : ℂ → ℂ) t hwf sch hdef
  refine ⟨u, s, evs, hu, hs, hev, ?_⟩
  intro dir N0 hc hwf0 hbd hids hinv k p q v N hsplit hr
  obtain ⟨_, _, _, r, hr1, hr2, _, up, dn, hE, hK, _, hL, _, _⟩ :=
    hall dir N0 hc hwf0 hbd hids hinv k p q v N hsplit hr
  refine ⟨r, hr1, hr2, up, dn, hE, ?_⟩
  intro P _ _ H hH τ φ
  have hnd : (kidsOf (star : ℂ → ℂ) N up dn r.kids).labels.Nodup := by
    have : (centreOf (star : ℂ → ℂ) N up dn r).labels =
        Expr.pairLegs (centreOf (star : ℂ → ℂ) N up dn r).phys ++
          (kidsOf (star : ℂ → ℂ) N up dn r.kids).labels := rfl
    rw [this] at hL
    exact (List.nodup_append.1 hL).2.1
  exact one_site_update_conserves_norm_of_canonical (ddim dim) dswap dswap_injective (ddim_dswap dim)
    _ hK hnd ((subOf_isConj N up dn).2 r.kids) P H hH τ φ

/-! Non-vacuity of the hypotheses of `tdvp_update_site_kids_canon`: the tree `0 → 1` (the sweep starts at node 1),
the integer network `Ptn.C03.isoNet'` (node 0 is the `Q` factor of a QR move toward node 1), the record `0 > 1`,
`1 > -`; the first site update `site 1` of a first-order step (the other events of the step: `link 1 0`, `site 0`,
`hop 0 1`, `init 1`), and a value-level site update on this network. -/
example :
    let t : RTree := .node 0 [.node 1 []]
    let dir : Rec := applyOps (fun _ => none) [⟨0, 1⟩]
    t.WF ∧ Scheme.Defined t .first ∧ updatePath t = some [1, 0] ∧
    Scheme.events t .first = some [.site 1, .link 1 0, .site 0, .hop 0 1, .init 1] ∧
    CanonAt t dir 1 ∧ isoNet'.WF ∧ BondDims demoDim isoNet' ∧ (∀ n ∈ ids t, n ∈ isoNet'.ids) ∧
    GaugeInv demoDim id isoNet' dir ∧
    (List.replicate 1 [DEv.site 1, .link 1 0, .site 0, .hop 0 1, .init 1]).flatten =
      [] ++ DEv.site 1 :: [.link 1 0, .site 0, .hop 0 1, .init 1] ∧
    VRun demoDim id isoNet' [] isoNet' ∧
    VRun demoDim id isoNet' [.site 1] (siteWrite isoNet' 1 (fun σ => (σ 3 : Int) + 7)) := by
  obtain ⟨h1, h2, _, h4, _⟩ := run_isometric demoDim id isoNet_wf isoNet_run (fun _ => none)
    (gaugeInv_none _ _ _)
  have hbd : BondDims demoDim isoNet := by
    intro p hp
    simp only [isoNet, List.mem_cons, List.not_mem_nil, or_false] at hp
    subst hp; rfl
  refine ⟨by decide, trivial, by decide, by decide, (canonAtB_iff _ _ _).1 (by decide), h2, h4 hbd, by decide,
    h1, rfl, VRun.nil _, VRun.cons (VStep.site _ 1 _ ?_) (VRun.nil _)⟩
  intro σ τ h
  have h3 := h 3 (by simp [isoNet', gaugeStep, isoNet])
  simp [h3]

end siteCanon

/-! ### The link update: the move split into its two halves (builder B70)

`qrHalf` (the tensor of `a` becomes `Q`, the `R` factor is the tensor of a NEW node `ℓ` sitting on the edge) and
`absorbHalf` (`ℓ` contracted into `b`), `Link.lean`. -/
section linkHalves
open Ptn.Ein Ptn.C06.Gauge Ptn.C03

/-- **`IsoStep = absorbHalf ∘ qrHalf`, record and value.**  For every move of `Ptn.C03.IsoStep` (hence every
`move` / `hop` / `link` event of `VStep`) on a well-formed network and every unused identifier `ℓ`: there are the
bond `p`, its ends `a`, `b` and the factorisation `F` of the move such that the result is `gaugeStep …`, the
intermediate network `qrHalf …` is well-formed, and contracting `ℓ` into the neighbour gives the same nodes, bonds,
counter, the same legs and tensor at every node, and the same value as the move. -/
theorem link_move_is_absorb_after_qr {R : Type} [CommSemiring R] (dim : Nat → Nat) (cj : R → R) {N N' : VNet R}
    {n m ℓ : Nat} (h : N.WF) (hs : IsoStep dim cj N ⟨n, m⟩ N') (hℓ : ℓ ∉ N.ids) :
    ∃ (p : Nat × Nat) (a b : Nat) (F : QRFact dim (N.tens n) (N.legs n) a N.next (N.next + 1)),
      N.Joined n m p a b ∧ N' = gaugeStep dim N n m p a b F ∧ (qrHalf dim N n ℓ a F).WF ∧
      (absorbHalf dim (qrHalf dim N n ℓ a F) ℓ m p b (N.next + 1)).ids = N'.ids ∧
      (absorbHalf dim (qrHalf dim N n ℓ a F) ℓ m p b (N.next + 1)).bonds = N'.bonds ∧
      (absorbHalf dim (qrHalf dim N n ℓ a F) ℓ m p b (N.next + 1)).next = N'.next ∧
      (∀ k ∈ N.ids, (absorbHalf dim (qrHalf dim N n ℓ a F) ℓ m p b (N.next + 1)).legs k = N'.legs k ∧
        (absorbHalf dim (qrHalf dim N n ℓ a F) ℓ m p b (N.next + 1)).tens k = N'.tens k) ∧
      ∀ σ, (absorbHalf dim (qrHalf dim N n ℓ a F) ℓ m p b (N.next + 1)).value dim σ = N'.value dim σ := by
  cases hs with
  | mk _ _ p a b hn hm hnm hj F hiso hdim =>
    obtain ⟨h1, h2, h3, h4⟩ := absorbHalf_qrHalf dim N (ℓ := ℓ) (b := b) F hn hm hnm hℓ hj.1
    exact ⟨p, a, b, F, hj, rfl, qrHalf_wf h hn hℓ hj.2.2.1, h1, h2, h3, h4,
      fun σ => absorbHalf_qrHalf_value dim N F hn hm hnm hℓ hj.1 σ⟩

/-- non-vacuity: the move `0 → 1` on the integer network `Ptn.C03.isoNet`, link identifier 2 -/
example : isoNet.WF ∧ IsoStep demoDim id isoNet ⟨0, 1⟩ isoNet' ∧ 2 ∉ isoNet.ids :=
  ⟨isoNet_wf, by cases isoNet_run with | cons hs hr => cases hr; exact hs, by simp [isoNet]⟩

end linkHalves

/-! ### The link update: canonical form around the link tensor (builder B72)

The network DURING `link a b` (`qrHalf …`: the `R` factor is the tensor of the new node `ℓ`) is canonical around
`ℓ`, for every time step, every tree, every value-level run of the events before (`LinkCanon.lean`). -/
section linkCanon
open Ptn.Ein Ptn.C17 Ptn.C17.RTree Ptn.C05.Disc Ptn.C06.Gauge Ptn.C03

/-- **During every link update the state is canonical around the link tensor.**  Every well-formed tree, every
scheme, `k` steps; hypotheses on the INITIAL network only (as in `tdvp_event_centre_kids_canon`).  Before every
event `link a b`, for every value-level run of the events before it: the tree re-rooted at `a` is
`node a (k1 ++ node b kb :: k2)`, with bond ends `up`, `dn` satisfying `EdgeOK` on every edge; and for EVERY unused
identifier `ℓ` and EVERY factorisation `F` of the tensor of `a` along its leg `dn b` toward `b` whose `Q` is an
isometry toward the fresh bond of one dimension (the QR contract): the intermediate network `M = qrHalf …` is
well-formed, the tree `r' = node ℓ [node a (k1 ++ k2), node b kb]` has the nodes of the old tree and `ℓ`, every edge
of `r'` satisfies `EdgeOK` in `M`, the doubled sub-trees of the two neighbours of the link tensor are canonical
(`Kids.Canon`), the norm network around `ℓ` is `Centre.Canon` with distinct labels, and the legs of the centre are
the two legs of `R`. -/
theorem tdvp_link_update_kids_canon {R : Type} [CommSemiring R] (dim : Nat → Nat) (cj : R → R)
    (t : RTree) (hwf : t.WF) (sch : Scheme) (hdef : sch.Defined t) :
    ∃ u s evs, updatePath t = some u ∧ u.head? = some s ∧ sch.events t = some evs ∧
      ∀ (dir : Rec) (N0 : VNet R), CanonAt t dir s → N0.WF → BondDims dim N0 → (∀ n ∈ ids t, n ∈ N0.ids) →
        GaugeInv dim cj N0 dir →
      ∀ (k : Nat) (p q : List DEv) (a b : Nat) (N : VNet R),
        (List.replicate k evs).flatten = p ++ DEv.link a b :: q → VRun dim cj N0 p N →
        N.WF ∧ N.ids = N0.ids ∧ Adj t a b ∧
        ∃ (k1 kb k2 : List RTree), reroot a [] t = some (RTree.node a (k1 ++ RTree.node b kb :: k2)) ∧
          ∃ up dn : Nat → Nat,
            (∀ e ∈ edges (RTree.node a (k1 ++ RTree.node b kb :: k2)), EdgeOK dim cj N up dn e.1 e.2) ∧
            ∀ (ℓ : Nat), ℓ ∉ N.ids → ∀ (F : QRFact dim (N.tens a) (N.legs a) (dn b) N.next (N.next + 1)),
              IsoToward dim cj F.Q (N.next :: (N.legs a).erase (dn b)) N.next → dim (N.next + 1) = dim N.next →
              let M := qrHalf dim N a ℓ (dn b) F
              let r' := linkTree ℓ a b k1 k2 kb
              M.WF ∧ (ids r').Nodup ∧ (ids r').Perm (ℓ :: ids (RTree.node a (k1 ++ RTree.node b kb :: k2))) ∧
              (∀ e ∈ edges r', EdgeOK dim cj M (linkUp N up a) (linkDn N dn a) e.1 e.2) ∧
              (kidsOf cj M (linkUp N up a) (linkDn N dn a) r'.kids).Canon (ddim dim) ∧
              (centreOf cj M (linkUp N up a) (linkDn N dn a) r').Canon (ddim dim) ∧
              (centreOf cj M (linkUp N up a) (linkDn N dn a) r').labels.Nodup ∧
              ((centreOf cj M (linkUp N up a) (linkDn N dn a) r').phys ++
                (kidsOf cj M (linkUp N up a) (linkDn N dn a) r'.kids).pairs).Perm
                  ([N.next + 1, dn b].map dbl) := by
  obtain ⟨u, s, evs, hu, hs, hev, hall⟩ := tdvp_event_centre_kids_canon dim cj t hwf sch hdef
  refine ⟨u, s, evs, hu, hs, hev, ?_⟩
  intro dir N0 hc hwf0 hbd hids hinv k p q a b N hsplit hr
  obtain ⟨hpre, hNwf, hNids, r, hr1, hr2, hr3, up, dn, hE, _⟩ :=
    hall dir N0 hc hwf0 hbd hids hinv k p q (DEv.link a b) N hsplit hr
  obtain ⟨hca, hab⟩ := gpre_pair (Or.inr (Or.inl rfl)) hpre
  rw [hca] at hr1 hr2
  obtain ⟨hrwf, _, k1, kb, k2, hk⟩ := c06_reroot_adj_child hwf hab hr1
  obtain ⟨c, ks⟩ := r
  simp only [rid] at hr2
  simp only [kids] at hk
  subst hr2
  subst hk
  refine ⟨hNwf, hNids, hab, k1, kb, k2, hr1, up, dn, hE, ?_⟩
  intro ℓ hℓ F hiso hdim
  have hsub : ∀ n ∈ ids (RTree.node c (k1 ++ RTree.node b kb :: k2)), n ∈ N.ids :=
    fun n hn => hNids ▸ hids n (hr3.subset hn)
  exact link_kids_canon dim cj hNwf hrwf hsub hℓ hE F hiso hdim

open Matrix NormedSpace in
/-- **Every link update of a TDVP time step conserves the norm.**  Over the complex numbers with conjugation
`star`, under the hypotheses of `tdvp_link_update_kids_canon`: during every event `link a b` the embedding
`E = siteEmbedding …` BUILT from the doubled sub-trees of the two neighbours of the link tensor in the intermediate
network satisfies, for every Hermitian `H` and every `τ` (the link update runs backward in time: `τ < 0`), that
`φ ↦ exp(-i τ EᴴHE) φ` conserves `|Eφ|²`.  `P` is the space of the open legs of the centre; the link tensor has none
(`P = PUnit`), the statement holds for every `P`. -/
theorem tdvp_link_update_conserves_norm (dim : Nat → Nat) (t : RTree) (hwf : t.WF) (sch : Scheme)
    (hdef : sch.Defined t) :
    ∃ u s evs, updatePath t = some u ∧ u.head? = some s ∧ sch.events t = some evs ∧
      ∀ (dir : Rec) (N0 : VNet ℂ), CanonAt t dir s → N0.WF → BondDims dim N0 → (∀ n ∈ ids t, n ∈ N0.ids) →
        GaugeInv dim (star : ℂ → ℂ) N0 dir →
      ∀ (k : Nat) (p q : List DEv) (a b : Nat) (N : VNet ℂ),
        (List.replicate k evs).flatten = p ++ DEv.link a b :: q → VRun dim (star : ℂ → ℂ) N0 p N →
        ∃ (k1 kb k2 : List RTree), reroot a [] t = some (RTree.node a (k1 ++ RTree.node b kb :: k2)) ∧
          ∃ up dn : Nat → Nat,
            (∀ e ∈ edges (RTree.node a (k1 ++ RTree.node b kb :: k2)),
              EdgeOK dim (star : ℂ → ℂ) N up dn e.1 e.2) ∧
            ∀ (ℓ : Nat), ℓ ∉ N.ids → ∀ (F : QRFact dim (N.tens a) (N.legs a) (dn b) N.next (N.next + 1)),
              IsoToward dim (star : ℂ → ℂ) F.Q (N.next :: (N.legs a).erase (dn b)) N.next →
              dim (N.next + 1) = dim N.next →
              let K := kidsOf (star : ℂ → ℂ) (qrHalf dim N a ℓ (dn b) F) (linkUp N up a) (linkDn N dn a)
                (linkTree ℓ a b k1 k2 kb).kids
              ∀ (P : Type) [Fintype P] [DecidableEq P]
                (H : Matrix (Idx (ddim dim) K.physAll × P) (Idx (ddim dim) K.physAll × P) ℂ),
                H.conjTranspose = H → ∀ (τ : ℝ) (φ : Idx (ddim dim) K.ups × P → ℂ),
                let E := siteEmbedding (ddim dim) K P
                star (E.mulVec ((exp ((-Complex.I * (τ : ℂ)) • (E.conjTranspose * H * E))).mulVec φ)) ⬝ᵥ
                    (E.mulVec ((exp ((-Complex.I * (τ : ℂ)) • (E.conjTranspose * H * E))).mulVec φ))
                  = star (E.mulVec φ) ⬝ᵥ (E.mulVec φ) := by
  obtain ⟨u, s, evs, hu, hs, hev, hall⟩ := tdvp_link_update_kids_canon dim (star : ℂ → ℂ) t hwf sch hdef
  refine ⟨u, s, evs, hu, hs, hev, ?_⟩
  intro dir N0 hc hwf0 hbd hids hinv k p q a b N hsplit hr
  obtain ⟨_, _, _, k1, kb, k2, hr1, up, dn, hE, hlink⟩ := hall dir N0 hc hwf0 hbd hids hinv k p q a b N hsplit hr
  refine ⟨k1, kb, k2, hr1, up, dn, hE, ?_⟩
  intro ℓ hℓ F hiso hdim K P _ _ H hH τ φ
  obtain ⟨_, _, _, _, hK, _, hL, _⟩ := hlink ℓ hℓ F hiso hdim
  have hnd : K.labels.Nodup := by
    have : (centreOf (star : ℂ → ℂ) (qrHalf dim N a ℓ (dn b) F) (linkUp N up a) (linkDn N dn a)
        (linkTree ℓ a b k1 k2 kb)).labels =
        Expr.pairLegs (centreOf (star : ℂ → ℂ) (qrHalf dim N a ℓ (dn b) F) (linkUp N up a) (linkDn N dn a)
          (linkTree ℓ a b k1 k2 kb)).phys ++ K.labels := rfl
    rw [this] at hL
    exact (List.nodup_append.1 hL).2.1
  exact one_site_update_conserves_norm_of_canonical (ddim dim) dswap dswap_injective (ddim_dswap dim)
    _ hK hnd ((subOf_isConj _ _ _).2 _) P H hH τ φ

/-! Non-vacuity of the run hypotheses of `tdvp_link_update_kids_canon` / `tdvp_link_update_conserves_norm`: the tree
`0 → 1`, the integer network `Ptn.C03.isoNet'`, the record `0 > 1`; the event `link 1 0` of a first-order step comes
after `site 1`, and a value-level run of `site 1` exists; the identifier 2 is unused.  (The hypotheses on the initial
network are those of `tdvp_update_site_kids_canon`, see the example there.  An integer factorisation `F` of the
updated tensor of node 1 with an isometric `Q` is NOT exhibited.) -/
example :
    let t : RTree := .node 0 [.node 1 []]
    t.WF ∧ Scheme.events t .first = some [.site 1, .link 1 0, .site 0, .hop 0 1, .init 1] ∧
    (List.replicate 1 [DEv.site 1, .link 1 0, .site 0, .hop 0 1, .init 1]).flatten =
      [DEv.site 1] ++ DEv.link 1 0 :: [.site 0, .hop 0 1, .init 1] ∧
    VRun demoDim id isoNet' [.site 1] (siteWrite isoNet' 1 (fun σ => (σ 3 : Int) + 7)) ∧
    2 ∉ (siteWrite isoNet' 1 (fun σ => (σ 3 : Int) + 7)).ids := by
  refine ⟨by decide, by decide, rfl, VRun.cons (VStep.site _ 1 _ ?_) (VRun.nil _), by
    simp [siteWrite, isoNet', gaugeStep, isoNet]⟩
  intro σ τ h
  have h3 := h 3 (by simp [isoNet', gaugeStep, isoNet])
  simp [h3]

end linkCanon

end Ptn.C06
