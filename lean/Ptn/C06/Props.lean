import Ptn.C06.Core
import Ptn.Common.AnalysisLocal
import Ptn.C06.Structure
import Ptn.C06.Value
import Ptn.C06.Demo
/-! Property theorems for C06, part 2 (Mathlib): the combinatorial theorems are in `Core.lean`
(core Lean only, same namespace); here the linear-algebra consequences. -/
namespace Ptn.C06

/-! ### Every local update conserves norm and energy (instances of `Ptn.Analysis`, Mathlib)

By C05 every local update evolves the local tensor `φ` with `K = EᴴHE`, `E` the embedding of that
tensor given all other current tensors; by C03 `E` is an isometry (a partial isometry with projector
`P = EᴴE`, `Pφ = φ`, under zero-padded bonds in the shape-keeping mode).  Hence each local update —
forward or backward in time — leaves the norm and (for Hermitian `H`) the energy of the represented
state `Eφ` unchanged; a time step is a composition of such updates and gauge moves that do not
change the state. -/

open Matrix NormedSpace in
theorem local_update_conserves_norm {N d : Type} [Fintype N] [Fintype d] [DecidableEq N]
    [DecidableEq d] (E : Matrix N d ℂ) (H : Matrix N N ℂ) (hE : Eᴴ * E = 1) (hH : Hᴴ = H)
    (t : ℝ) (φ : d → ℂ) :
    star (E *ᵥ (exp ((-Complex.I * (t : ℂ)) • (Eᴴ * H * E)) *ᵥ φ)) ⬝ᵥ
        (E *ᵥ (exp ((-Complex.I * (t : ℂ)) • (Eᴴ * H * E)) *ᵥ φ))
      = star (E *ᵥ φ) ⬝ᵥ (E *ᵥ φ) :=
  Ptn.Analysis.local_flow_norm E H hE hH t φ

open Matrix NormedSpace in
theorem local_update_conserves_energy {N d : Type} [Fintype N] [Fintype d] [DecidableEq N]
    [DecidableEq d] (E : Matrix N d ℂ) (H : Matrix N N ℂ) (hH : Hᴴ = H) (t : ℝ) (φ : d → ℂ) :
    star (E *ᵥ (exp ((-Complex.I * (t : ℂ)) • (Eᴴ * H * E)) *ᵥ φ)) ⬝ᵥ
        (H *ᵥ (E *ᵥ (exp ((-Complex.I * (t : ℂ)) • (Eᴴ * H * E)) *ᵥ φ)))
      = star (E *ᵥ φ) ⬝ᵥ (H *ᵥ (E *ᵥ φ)) :=
  Ptn.Analysis.local_flow_energy E H hH t φ

open Matrix NormedSpace in
/-- The same with zero-padded bonds: `E` only a partial isometry. -/
theorem local_update_conserves_norm_padded {N d : Type} [Fintype N] [Fintype d] [DecidableEq N]
    [DecidableEq d] (E : Matrix N d ℂ) (H : Matrix N N ℂ) (P : Matrix d d ℂ)
    (hE : Eᴴ * E = P) (hP : P * P = P) (hH : Hᴴ = H) (c : ℂ) (hc : star c = -c)
    (φ : d → ℂ) (hφ : P *ᵥ φ = φ) :
    star (E *ᵥ (exp (c • (Eᴴ * H * E)) *ᵥ φ)) ⬝ᵥ (E *ᵥ (exp (c • (Eᴴ * H * E)) *ᵥ φ))
      = star (E *ᵥ φ) ⬝ᵥ (E *ᵥ φ) :=
  Ptn.Analysis.local_flow_norm_partial E H P hE hP hH c hc φ hφ

open Matrix NormedSpace in
/-- Saturated bonds: with a *unitary* embedding the local generator is the full Hamiltonian in
    another basis, so the local flow is the full propagator: `E exp(cK) Eᴴ = exp(cH)`. -/
theorem saturated_local_flow_is_full {n : Type} [Fintype n] [DecidableEq n]
    (E H : Matrix n n ℂ) (hE : Eᴴ * E = 1) (hE' : E * Eᴴ = 1) (c : ℂ) :
    E * exp (c • (Eᴴ * H * E)) * Eᴴ = exp (c • H) := by
  have h := Ptn.Analysis.exp_unitary_conj E (c • (Eᴴ * H * E)) hE
  rw [h]
  congr 1
  rw [Matrix.mul_smul, Matrix.smul_mul]
  congr 1
  calc E * (Eᴴ * H * E) * Eᴴ = (E * Eᴴ) * H * (E * Eᴴ) := by
        simp only [Matrix.mul_assoc]
    _ = H := by rw [hE']; simp

/-! ### Value level: the embedding is an isometry BECAUSE the state is canonical at the updated site

`Ptn/Common/EinsumIso.lean`: the norm network seen from the centre is a tree of doubled sub-trees
(`Ptn.Ein.Sub` / `Kids`: any number of children, any depth, any number of open legs).  `Kids.Canon dim k`:
every non-centre node reads only its own legs and satisfies the isometry condition TOWARD THE CENTRE in
index form, `Σ_{all legs of n except the one toward the centre} T_n · Tc_n = δ` (which neighbour that is for
`canonical_form`: `Ptn.C03.canon_gauge_tree` — the first node on the path to the centre).  The theorems hold
for every tree, all dimensions, every commutative semiring. -/

section value
open Ptn.Ein
open scoped Kronecker

variable {L : Type} [DecidableEq L]

/-- **The contracted environment of the centre is the identity**: summing the product of all tensors and
conjugated tensors of all non-centre nodes over every pair of open legs and every bond not at the centre
gives `Π_k δ(x_k, y_k)` over the centre's bonds. -/
theorem environment_is_identity {R : Type} [CommSemiring R] (dim : L → Nat) (k : Kids L R)
    (hc : k.Canon dim) (hnd : k.labels.Nodup) (σ : Asg L)
    (hr : ∀ p ∈ k.ups, σ p.1 < dim p.1 ∧ σ p.2 < dim p.2) :
    netValue dim k.inBinds k.leaves σ = deltaProd k.ups σ :=
  Ptn.Ein.environment_is_identity dim k hc hnd σ hr

/-- **The embedding of the centre tensor is an isometry (index form)**: `Σ_phys Ec[phys; r] · E[phys; c] = δ_rc`,
`E` the ket half of the environment (all ket tensors of the non-centre nodes contracted over their own
bonds), `Ec` the bra half. -/
theorem embedding_isometry_of_canonical {R : Type} [CommSemiring R] (dim : L → Nat) (k : Kids L R)
    (hc : k.Canon dim) (hnd : k.labels.Nodup) (σ : Asg L)
    (hr : ∀ p ∈ k.ups, σ p.1 < dim p.1 ∧ σ p.2 < dim p.2) :
    sumPairs dim k.physAll (fun τ => k.E dim τ * k.Ec dim τ) σ = deltaProd k.ups σ :=
  Ptn.Ein.embedding_isometry_of_canonical dim k hc hnd σ hr

/-- the same as a matrix identity over the index tuples: `Ecᵀ · E = 1` -/
theorem embedding_matrix_isometry {R : Type} [CommSemiring R] (dim : L → Nat) (k : Kids L R)
    (hc : k.Canon dim) (hnd : k.labels.Nodup) :
    (envMatrixC dim k).transpose * envMatrix dim k = 1 :=
  Ptn.Ein.embedding_matrix_isometry dim k hc hnd

/-- **The norm computed from the centre tensor alone equals the full norm** (value of the norm network). -/
theorem centre_norm_eq_full_norm_value {R : Type} [CommSemiring R] (dim : L → Nat) (c : Centre L R)
    (hc : c.Canon dim) (hnd : c.labels.Nodup) (σ : Asg L) :
    netValue dim c.normBinds c.normLeaves σ = netValue dim (c.phys ++ c.kids.pairs) [c.C, c.Cc] σ :=
  Ptn.Ein.centre_norm_eq_full_norm_value dim c hc hnd σ

/-- the premises are satisfiable: the demo tree `centre — B — A`, `centre — A2` (bond dimension 4 between the
centre and `B`, permutation-like isometries, bra copy = conjugated ket with labels `l + 10`) -/
example : Demo.kids.Canon Demo.dim ∧ Demo.kids.labels.Nodup ∧ Demo.kids.IsConj Demo.pr ∧
    Function.Injective Demo.pr ∧ (∀ l, Demo.dim (Demo.pr l) = Demo.dim l) ∧
    Demo.centre.Canon Demo.dim ∧ Demo.centre.labels.Nodup ∧ Demo.kids.ups = [(4, 14), (2, 12)] :=
  ⟨Demo.kids_canon, Demo.kids_nodup, Demo.kids_isConj, Demo.pr_inj, Demo.dim_pr, Demo.centre_canon,
    Demo.centre_nodup, rfl⟩

/-- in-range assignments of the centre's bonds exist -/
example : ∀ p ∈ Demo.kids.ups, (fun l => if l = 4 ∨ l = 14 then 3 else 1 : Asg Nat) p.1 < Demo.dim p.1 ∧
    (fun l => if l = 4 ∨ l = 14 then 3 else 1 : Asg Nat) p.2 < Demo.dim p.2 := by
  intro p hp
  simp only [Demo.kids, Kids.ups, Demo.subB, Demo.subA2, Sub.u, Sub.u', List.mem_cons, List.not_mem_nil,
    or_false] at hp
  rcases hp with rfl | rfl <;> decide

/-- **One-site update, state canonical at the updated site: the norm is conserved.**  `k`: the sub-trees
around the updated node, every node canonical toward it, the bra tensors the conjugated relabelled ket
tensors (`IsConj`); `P`: the open legs of the updated node; the embedding
`E = envMatrix ⊗ 1_P` is BUILT from the network (no isometry hypothesis); `H` any Hermitian matrix on
the full space.  The local update `φ ↦ exp(-i t EᴴHE) φ` conserves the norm of the represented state `Eφ`. -/
theorem one_site_update_conserves_norm_of_canonical (dim : L → Nat) (pr : L → L)
    (hinj : Function.Injective pr) (hdim : ∀ l, dim (pr l) = dim l) (k : Kids L ℂ)
    (hc : k.Canon dim) (hnd : k.labels.Nodup) (hk : k.IsConj pr)
    (P : Type) [Fintype P] [DecidableEq P]
    (H : Matrix (Idx dim k.physAll × P) (Idx dim k.physAll × P) ℂ) (hH : H.conjTranspose = H)
    (t : ℝ) (φ : Idx dim k.ups × P → ℂ) :
    let E := siteEmbedding dim k P
    star (E.mulVec ((NormedSpace.exp ((-Complex.I * (t : ℂ)) • (E.conjTranspose * H * E))).mulVec φ)) ⬝ᵥ
        (E.mulVec ((NormedSpace.exp ((-Complex.I * (t : ℂ)) • (E.conjTranspose * H * E))).mulVec φ))
      = star (E.mulVec φ) ⬝ᵥ (E.mulVec φ) :=
  local_update_conserves_norm _ H
    (siteEmbedding_isometry dim k hc hnd (envMatrixC_eq_conj dim pr hinj hdim k hc hnd hk) P) hH t φ

/-- the energy (no canonical form needed — stated for the same embedding for completeness) -/
theorem one_site_update_conserves_energy_of_canonical (dim : L → Nat) (k : Kids L ℂ)
    (P : Type) [Fintype P] [DecidableEq P]
    (H : Matrix (Idx dim k.physAll × P) (Idx dim k.physAll × P) ℂ) (hH : H.conjTranspose = H)
    (t : ℝ) (φ : Idx dim k.ups × P → ℂ) :
    let E := siteEmbedding dim k P
    star (E.mulVec ((NormedSpace.exp ((-Complex.I * (t : ℂ)) • (E.conjTranspose * H * E))).mulVec φ)) ⬝ᵥ
        (H.mulVec (E.mulVec ((NormedSpace.exp ((-Complex.I * (t : ℂ)) • (E.conjTranspose * H * E))).mulVec φ)))
      = star (E.mulVec φ) ⬝ᵥ (H.mulVec (E.mulVec φ)) :=
  local_update_conserves_energy _ H hH t φ

/-- **Canonical form: the norm of the represented state is the norm of the centre tensor** (matrix form). -/
theorem centre_norm_eq_full_norm_of_canonical (dim : L → Nat) (pr : L → L)
    (hinj : Function.Injective pr) (hdim : ∀ l, dim (pr l) = dim l) (k : Kids L ℂ)
    (hc : k.Canon dim) (hnd : k.labels.Nodup) (hk : k.IsConj pr)
    (P : Type) [Fintype P] [DecidableEq P] (φ : Idx dim k.ups × P → ℂ) :
    star ((siteEmbedding dim k P).mulVec φ) ⬝ᵥ ((siteEmbedding dim k P).mulVec φ) = star φ ⬝ᵥ φ :=
  Ptn.Analysis.isometry_norm _
    (siteEmbedding_isometry dim k hc hnd (envMatrixC_eq_conj dim pr hinj hdim k hc hnd hk) P) φ

/-- a Hermitian matrix on the full space of the demo network (open legs of A, B, A2 and one open leg of
dimension 3 at the centre) -/
example : ((1 : Matrix (Idx Demo.dim Demo.kids.physAll × Fin 3) (Idx Demo.dim Demo.kids.physAll × Fin 3) ℂ)).conjTranspose
    = 1 := Matrix.conjTranspose_one

end value

end Ptn.C06
