import Ptn.C06.Model
/-! Property theorems for C06. Only property theorems and non-vacuity examples live here. -/
namespace Ptn.C06
end Ptn.C06
