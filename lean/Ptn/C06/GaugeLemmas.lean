import Ptn.C06.GaugeModel
import Ptn.C05.Discipline
/-! The gauge machine of the TDVP sweeps: canonical form at the centre is preserved by every event, and holds at the
updated position while a link / two-site update runs.  Core Lean only. -/
namespace Ptn.C06.Gauge
open Ptn.C17 Ptn.C17.RTree Ptn.C05.Disc Ptn.C03

/-- **canonical at `c`**: `c` carries no record and every other node is recorded as an isometry toward the first
    node on its way to `c` -/
def CanonAt (t : RTree) (dir : Rec) (c : Nat) : Prop :=
  dir c = none ∧ ∀ x ∈ ids t, x ≠ c → ∃ h, firstHop t x c = some h ∧ dir x = some h

/-- **canonical at the link between `a` and `b`** (the R factor of `a`, not yet contracted into `b`): every node
    points toward the link - the nodes on `a`'s side, `a` included, toward `b`, those on `b`'s side, `b` included,
    toward `a` -/
def CanonLink (t : RTree) (dir : Rec) (a b : Nat) : Prop :=
  ∀ x ∈ ids t, (x ≠ b → ∃ h, firstHop t x b = some h ∧ dir x = some h) ∧
    (x ≠ a → ∃ h, firstHop t x a = some h ∧ dir x = some h)

/-- **canonical at the merged pair `a`, `b`**: neither carries a record, every other node points to its first hop
    toward `a`, which is also its first hop toward `b` -/
def CanonPair (t : RTree) (dir : Rec) (a b : Nat) : Prop :=
  dir a = none ∧ dir b = none ∧
    ∀ x ∈ ids t, x ≠ a → x ≠ b → ∃ h, firstHop t x a = some h ∧ firstHop t x b = some h ∧ dir x = some h

/-- what is claimed of one event in the state it starts in: the machine's centre is where the code's event starts
    (and the two nodes are neighbours), the record is canonical at that centre, and while a link / two-site update
    runs it is canonical at the link / at the merged pair -/
def Good (t : RTree) (st : GSt) (e : DEv) : Prop :=
  gpre t st.centre e = true ∧ CanonAt t st.dir st.centre ∧
  match e with
  | .link a b => CanonLink t (during st.dir e) a b
  | .two a b => CanonPair t (during st.dir e) a b
  | _ => True

/-- `Good` for every event of a list, each in the state the earlier events lead to -/
def GoodRun (t : RTree) : GSt → List DEv → Prop
  | _, [] => True
  | st, e :: rest => Good t st e ∧ GoodRun t (gstep st e) rest

/-- the centre after an event -/
def target (c : Nat) : DEv → Nat
  | .site _ => c
  | .move _ b => b
  | .link _ b => b
  | .two _ b => b
  | .hop _ b => b
  | .init _ => c

/-- the centre tracked through a list of events; `none` if a precondition fails -/
def walk (t : RTree) : Nat → List DEv → Option Nat
  | c, [] => some c
  | c, e :: rest => if gpre t c e = true then walk t (target c e) rest else none

theorem gstep_centre (st : GSt) (e : DEv) : (gstep st e).centre = target st.centre e := by
  cases e <;> rfl

theorem grun_cons (st : GSt) (e : DEv) (rest : List DEv) :
    grun st (e :: rest) = grun (gstep st e) rest := rfl

theorem grun_append (st : GSt) (l1 l2 : List DEv) : grun st (l1 ++ l2) = grun (grun st l1) l2 := by
  simp [grun, List.foldl_append]

/-! ### one factorisation -/

/-- QR / SVD split of the centre `a` toward its neighbour `b`: canonical at `b` afterwards -/
theorem canon_split {t : RTree} (hwf : t.WF) {dir : Rec} {a b : Nat} (hab : Adj t a b)
    (h : CanonAt t dir a) : CanonAt t (applyOp dir ⟨a, b⟩) b := by
  have hne := adj_ne hwf hab
  have hm := adj_mem hab
  refine ⟨by simp [applyOp, Ne.symm hne], ?_⟩
  intro x hx hxb
  by_cases hxa : x = a
  · subst hxa
    exact ⟨b, firstHop_adj hwf hab, by simp [applyOp]⟩
  · obtain ⟨h', hh, hd⟩ := h.2 x hx hxa
    refine ⟨h', by rw [firstHop_adj_same hwf hab hx hxa hxb]; exact hh, ?_⟩
    simp [applyOp, hxa, hxb, hd]

/-- while the link tensor of `link a b` is evolved the record is canonical at the link -/
theorem canon_link_during {t : RTree} (hwf : t.WF) {dir : Rec} {a b : Nat} (hab : Adj t a b)
    (h : CanonAt t dir a) : CanonLink t (during dir (.link a b)) a b := by
  have hne := adj_ne hwf hab
  intro x hx
  constructor
  · intro hxb
    by_cases hxa : x = a
    · subst hxa
      exact ⟨b, firstHop_adj hwf hab, by simp [during]⟩
    · obtain ⟨h', hh, hd⟩ := h.2 x hx hxa
      exact ⟨h', by rw [firstHop_adj_same hwf hab hx hxa hxb]; exact hh, by simp [during, hxa, hd]⟩
  · intro hxa
    obtain ⟨h', hh, hd⟩ := h.2 x hx hxa
    exact ⟨h', hh, by simp [during, hxa, hd]⟩

/-- while the two-site tensor of `two a b` is evolved the record is canonical at the merged pair -/
theorem canon_pair_during {t : RTree} (hwf : t.WF) {dir : Rec} {a b : Nat} (hab : Adj t a b)
    (h : CanonAt t dir a) : CanonPair t (during dir (.two a b)) a b := by
  refine ⟨by simp [during], by simp [during], ?_⟩
  intro x hx hxa hxb
  obtain ⟨h', hh, hd⟩ := h.2 x hx hxa
  exact ⟨h', hh, by rw [firstHop_adj_same hwf hab hx hxa hxb]; exact hh, by simp [during, hxa, hxb, hd]⟩

/-! ### one event -/

theorem gpre_pair {t : RTree} {c a b : Nat} {e : DEv}
    (he : e = .move a b ∨ e = .link a b ∨ e = .two a b ∨ e = .hop a b) (h : gpre t c e = true) :
    c = a ∧ Adj t a b := by
  rcases he with rfl | rfl | rfl | rfl <;>
    · simp only [gpre, pre, Bool.and_eq_true, beq_iff_eq] at h
      exact ⟨h.1, (adjB_iff t a b).mp h.2⟩

/-- an event whose precondition holds, started in a record canonical at the centre: `Good`, and canonical at the
    new centre afterwards -/
theorem good_step {t : RTree} (hwf : t.WF) {st : GSt} {e : DEv} (hpre : gpre t st.centre e = true)
    (h : CanonAt t st.dir st.centre) :
    Good t st e ∧ CanonAt t (gstep st e).dir (gstep st e).centre := by
  cases e with
  | site v => exact ⟨⟨hpre, h, trivial⟩, h⟩
  | init c => exact ⟨⟨hpre, h, trivial⟩, h⟩
  | move a b =>
    obtain ⟨hc, hab⟩ := gpre_pair (Or.inl rfl) hpre
    exact ⟨⟨hpre, h, trivial⟩, canon_split hwf hab (hc ▸ h)⟩
  | hop a b =>
    obtain ⟨hc, hab⟩ := gpre_pair (Or.inr (Or.inr (Or.inr rfl))) hpre
    exact ⟨⟨hpre, h, trivial⟩, canon_split hwf hab (hc ▸ h)⟩
  | link a b =>
    obtain ⟨hc, hab⟩ := gpre_pair (Or.inr (Or.inl rfl)) hpre
    exact ⟨⟨hpre, h, canon_link_during hwf hab (hc ▸ h)⟩, canon_split hwf hab (hc ▸ h)⟩
  | two a b =>
    obtain ⟨hc, hab⟩ := gpre_pair (Or.inr (Or.inr (Or.inl rfl))) hpre
    exact ⟨⟨hpre, h, canon_pair_during hwf hab (hc ▸ h)⟩, canon_split hwf hab (hc ▸ h)⟩

/-! ### lists of events -/

/-- **The generic invariant.**  Any list of events whose centre preconditions hold when the centre is tracked from
    `c` (`walk`), started in a record canonical at `c`: every event is `Good`, the final record is canonical at the
    final centre. -/
theorem goodRun_of_walk {t : RTree} (hwf : t.WF) : ∀ (evs : List DEv) (st : GSt) (c' : Nat),
    walk t st.centre evs = some c' → CanonAt t st.dir st.centre →
    GoodRun t st evs ∧ CanonAt t (grun st evs).dir c' ∧ (grun st evs).centre = c'
  | [], st, c', hw, h => by
    simp only [walk, Option.some.injEq] at hw
    subst hw
    exact ⟨trivial, h, rfl⟩
  | e :: rest, st, c', hw, h => by
    simp only [walk] at hw
    split at hw
    · rename_i hpre
      obtain ⟨hg, hn⟩ := good_step hwf hpre h
      rw [← gstep_centre] at hw
      obtain ⟨r1, r2, r3⟩ := goodRun_of_walk hwf rest (gstep st e) c' hw hn
      exact ⟨⟨hg, r1⟩, r2, r3⟩
    · simp at hw

theorem goodRun_append {t : RTree} : ∀ {l1 l2 : List DEv} {st : GSt},
    GoodRun t st l1 → GoodRun t (grun st l1) l2 → GoodRun t st (l1 ++ l2)
  | [], _, _, _, h2 => h2
  | e :: l1, l2, st, h1, h2 => ⟨h1.1, goodRun_append (l1 := l1) h1.2 (by rwa [grun_cons] at h2)⟩

/-- `GoodRun` read event by event -/
theorem goodRun_split {t : RTree} : ∀ {evs : List DEv} {st : GSt}, GoodRun t st evs →
    ∀ p e q, evs = p ++ e :: q → Good t (grun st p) e
  | [], _, _, p, e, q, h => by simp at h
  | e0 :: rest, st, hg, p, e, q, h => by
    cases p with
    | nil =>
      simp only [List.nil_append, List.cons.injEq] at h
      obtain ⟨rfl, _⟩ := h
      exact hg.1
    | cons p0 p' =>
      simp only [List.cons_append, List.cons.injEq] at h
      obtain ⟨rfl, h'⟩ := h
      rw [grun_cons]
      exact goodRun_split hg.2 p' e q h'

/-! ### the tie to the discipline machine: a successful run of `Ptn.C05.Disc` is a walk -/

theorem pre_eq_gpre (t : RTree) (st : DSt) (e : DEv) : pre t st e = gpre t st.centre e := by
  cases e <;> rfl

theorem step_walk {t : RTree} {st s1 : DSt} {e : DEv} (h : step t st e = some s1) :
    gpre t st.centre e = true ∧ s1.centre = target st.centre e := by
  unfold step at h
  split at h
  · rename_i hc
    simp only [Bool.and_eq_true] at hc
    simp only [Option.some.injEq] at h
    subst h
    refine ⟨by rw [← pre_eq_gpre]; exact hc.1, ?_⟩
    have hp := hc.1
    cases e with
    | site v =>
      -- the precondition says the centre is the site
      simp only [pre, Bool.and_eq_true, beq_iff_eq] at hp
      exact hp.1.symm
    | init c =>
      simp only [pre, Bool.and_eq_true, beq_iff_eq] at hp
      exact hp.1.symm
    | move a b => rfl
    | link a b => rfl
    | two a b => rfl
    | hop a b => rfl
  · simp at h

theorem walk_of_run {t : RTree} : ∀ (evs : List DEv) (st st' : DSt), run t st evs = some st' →
    walk t st.centre evs = some st'.centre
  | [], st, st', h => by simp only [run, Option.some.injEq] at h; subst h; rfl
  | e :: rest, st, st', h => by
    simp only [run] at h
    cases hs : step t st e with
    | none => rw [hs] at h; simp at h
    | some s1 =>
      rw [hs] at h
      simp only [Option.bind_some] at h
      obtain ⟨hp, hc⟩ := step_walk hs
      simp only [walk, hp, if_true]
      rw [← hc]
      exact walk_of_run rest s1 st' h

/-- a list of events the discipline machine accepts from every state with its invariant (`OK`) is a walk -/
theorem walk_of_OK {t : RTree} (hwf : t.WF) {c c' : Nat} {evs : List DEv} (hc : c ∈ ids t)
    (h : OK t c evs c') : walk t c evs = some c' := by
  obtain ⟨st', hr, _, hc'⟩ := h ⟨c, (blocks t).filter (away t c)⟩
    (init_ok hwf (st := ⟨c, []⟩) rfl hc).2 rfl
  have := walk_of_run evs _ _ (stepsOK_run hr)
  rw [hc'] at this
  exact this

/-! ### plain centre moves (constructor with a state that already has a centre, first-order reset) -/

theorem walk_hops {t : RTree} {a l : Nat} {p : List Nat} (hch : Chain (Adj t) (a :: p))
    (hl : (a :: p).getLast? = some l) : walk t a (hopsAlong (a :: p)) = some l := by
  obtain ⟨st', hr, hc⟩ := hops_run p a hch hl ⟨a, []⟩ rfl
  have := walk_of_run _ _ _ hr
  rw [hc] at this
  exact this

/-- `move_orthogonalization_center(s)` from the centre `c`: the QR hops along the way from `c` to `s` -/
theorem walk_path_hops {t : RTree} (hwf : t.WF) {c s : Nat} (hc : c ∈ ids t) (hs : s ∈ ids t) :
    ∃ p, pathFromTo t c s = some p ∧ walk t c (hopsAlong p) = some s := by
  by_cases hne : c = s
  · subst hne
    obtain ⟨q, hq, h1, h2, _, _, hnd⟩ := pathFromTo_isSimplePath hwf hc hc
    refine ⟨q, hq, ?_⟩
    -- a simple way from `c` to `c` is `[c]`
    cases q with
    | nil => simp at h1
    | cons y l =>
      simp at h1; subst h1
      cases l with
      | nil => simp [hopsAlong, walk]
      | cons z r =>
        exfalso
        have hmem : y ∈ z :: r := List.mem_of_getLast? (by rw [List.getLast?_cons_cons] at h2; exact h2)
        exact (List.nodup_cons.mp hnd).1 hmem
  · obtain ⟨h, r, hp, _, hch, hl, _⟩ := path_facts hwf hc hs hne
    refine ⟨c :: h :: r, hp, walk_hops hch ?_⟩
    rw [List.getLast?_cons_cons]; exact hl

end Ptn.C06.Gauge
