import Ptn.C06.Model
/-! Line-protocol handler for the C06 model (core Lean only). -/
namespace Ptn.C06
def handle (args : List String) : String := "bad-op"
end Ptn.C06
