import Ptn.C06.Model
import Ptn.C05.Driver
import Ptn.C06.GaugeModel
import Ptn.C17.Driver
/-! Line-protocol handler for C06 (core Lean only).

  sweepend first|second|twosite <start> <last> <u0:h0> …  → centre after the events of one step
                                                            (before `_reset_for_next_time_step` in
                                                            the first-order variant), or `none`
  gauge first|second|twosite <k> canon|move:<c0> tree <root|-> <node> …
        (tree tokens as in `C17 struct tree`) → the gauge machine `Ptn.C06.Gauge` on the tree:
        `ok init <ops> | step <ops> | rec <record> | good|notgood`
        init: the factorisations of the constructor (`canon`: `canonical_form(s)` on a state without centre, C03
        `canonOps`; `move:<c0>`: the state is canonical at `c0`, QR hops along the way to the first node `s` of the
        sweep); step: the factorisations (`qr a>b` / `svd a>b`) of ONE time step in order; rec: the record
        (`x>y`, `x>-` without record) after `k` steps; `good`: the model's own check (`allGoodB`) of every event of
        the `k` steps and canonical at `s` at the end; `err` where the code raises (second / twosite on one node).
-/
namespace Ptn.C06
open Ptn.C05

open Ptn.C17 Ptn.C17.RTree Ptn.C05.Disc Ptn.C06.Gauge in
def gaugeAnswer (t : RTree) (which : String) (k : Nat) (init : String) : String :=
  match eventsOf t which with
  | none => "bad-op"
  | some none => "err"
  | some (some evs) =>
    match (updatePath t).bind (·.head?) with
    | none => "err"
    | some s =>
      let start : Option (Option (List String × Rec)) :=
        if init == "canon" then
          some ((canonRec t s).map fun r => (r.1.map fun o => s!"qr {o.node}>{o.target}", r.2))
        else match init.splitOn ":" with
          | ["move", c0] =>
            c0.toNat?.map fun c0 =>
              (canonRec t c0).bind fun r => (pathFromTo t c0 s).map fun p =>
                ((opsOf (hopsAlong p)).map showOp, (grun ⟨c0, r.2⟩ (hopsAlong p)).dir)
          | _ => none
      match start with
      | none => "bad-op"
      | some none => "err"
      | some (some (initOps, dir0)) =>
        let all := (List.replicate k evs).flatten
        let fin := grun ⟨s, dir0⟩ all
        let good := canonAtB t dir0 s && allGoodB t ⟨s, dir0⟩ all && canonAtB t fin.dir s && fin.centre == s
        " ".intercalate ("ok init" :: initOps) ++ " | " ++
          " ".intercalate ("step" :: (opsOf evs).map showOp) ++ " | rec " ++ showRec t fin.dir ++
          (if good then " | good" else " | notgood")

def handle (args : List String) : String :=
  match args with
  | "gauge" :: which :: k :: init :: "tree" :: treeToks =>
    match k.toNat?, Ptn.C17.parseTree treeToks with
    | some k, some ft =>
      match ft.toRTree with
      | none => "bad-op"
      | some t => gaugeAnswer t which k init
    | _, _ => "bad-op"
  | "sweepend" :: variant :: start :: last :: segs =>
    match start.toNat?, last.toNat?, segs.mapM parseSeg with
    | some c, some l, some ss =>
      let out : Option (Option (List Ev)) :=
        match variant with
        | "first" => some (some (first ss l))
        | "second" => some (second ss l)
        | "twosite" => some (twoSite ss l)
        | _ => none
      match out with
      | none => "bad-op"
      | some none => "none"
      | some (some tr) => toString (centreAfter c tr)
    | _, _, _ => "bad-op"
  | _ => "bad-op"

end Ptn.C06
