import Ptn.C06.Model
import Ptn.C05.Driver
/-! Line-protocol handler for C06 (core Lean only).

  sweepend first|second|twosite <start> <last> <u0:h0> …  → centre after the events of one step
                                                            (before `_reset_for_next_time_step` in
                                                            the first-order variant), or `none`
-/
namespace Ptn.C06
open Ptn.C05

def handle (args : List String) : String :=
  match args with
  | "sweepend" :: variant :: start :: last :: segs =>
    match start.toNat?, last.toNat?, segs.mapM parseSeg with
    | some c, some l, some ss =>
      let out : Option (Option (List Ev)) :=
        match variant with
        | "first" => some (some (first ss l))
        | "second" => some (second ss l)
        | "twosite" => some (twoSite ss l)
        | _ => none
      match out with
      | none => "bad-op"
      | some none => "none"
      | some (some tr) => toString (centreAfter c tr)
    | _, _, _ => "bad-op"
  | _ => "bad-op"

end Ptn.C06
