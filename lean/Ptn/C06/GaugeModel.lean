import Ptn.C05.DiscModel
import Ptn.C03.Model
/-! The gauge machine of the TDVP sweeps (core Lean only; used by the C06 driver).

The events of a whole time step are those of the C05 discipline machine (`Ptn.C05.Disc.DEv`, the sequences
`eventsFirst` / `eventsSecond` / `eventsTwoSite`, proved to follow the sweeps of the code and compared with the
real event trace on every run of C05).  Here they are run on the C03 gauge record (`Ptn.C03.applyOp`): for every
node the neighbour its tensor is an isometry toward (`none`: no record - the orthogonality centre).

* `move a b`, `hop a b` - `move_orthogonalization_center` over one edge: `split_node_qr` at `a` with the R factor
  toward `b`, R contracted into `b`: `a` then points to `b`, `b` loses its record;
* `link a b` - `OneSiteTDVP._update_link`: `split_node_qr` at `a` (Q keeps the identifier `a`, R is the temporary
  link node), the link tensor is evolved, then contracted into `b`: the same effect on the record; WHILE the link
  tensor is evolved `a` already points to `b` and `b` still carries its old record (`during`);
* `two a b` - `TwoSiteTDVP._update_two_site_nodes`: `a` and `b` are contracted, the two-site tensor is evolved (their
  records are void meanwhile, `during`), `split_node_svd` gives `a` the factor U (an isometry toward `b`) and `b`
  the factor S V: `a` points to `b`, `b` has no record;
* `site v` - `_update_site`: replaces the tensor of the centre, which has no record; the record is kept;
* `init c` - a new cache: no tensor is touched. -/
namespace Ptn.C06.Gauge
open Ptn.C17 Ptn.C17.RTree Ptn.C05.Disc

/-- the C03 record: the neighbour a node's tensor is an isometry toward -/
abbrev Rec := Nat → Option Nat

inductive SplitKind where
  | qr
  | svd
deriving DecidableEq, Repr

/-- one factorisation observed from outside (`split_node_qr` / `split_node_svd`): the node that keeps the isometric
    factor and the neighbour the other factor goes to -/
structure GOp where
  kind : SplitKind
  node : Nat
  toward : Nat
deriving DecidableEq, Repr

/-- the factorisation an event performs -/
def opOf : DEv → Option GOp
  | .site _ => none
  | .move a b => some ⟨.qr, a, b⟩
  | .link a b => some ⟨.qr, a, b⟩
  | .two a b => some ⟨.svd, a, b⟩
  | .hop a b => some ⟨.qr, a, b⟩
  | .init _ => none

structure GSt where
  centre : Nat
  dir : Rec

/-- one event on the record -/
def gstep (st : GSt) : DEv → GSt
  | .site _ => st
  | .move a b => ⟨b, Ptn.C03.applyOp st.dir ⟨a, b⟩⟩
  | .link a b => ⟨b, Ptn.C03.applyOp st.dir ⟨a, b⟩⟩
  | .two a b => ⟨b, Ptn.C03.applyOp st.dir ⟨a, b⟩⟩
  | .hop a b => ⟨b, Ptn.C03.applyOp st.dir ⟨a, b⟩⟩
  | .init _ => st

def grun (st : GSt) (evs : List DEv) : GSt := evs.foldl gstep st

/-- the record WHILE the local update of an event runs (the `time_evolve` call): for a link update the node `a` was
    already split toward `b`; for a two-site update `a` and `b` are merged into one tensor -/
def during (dir : Rec) : DEv → Rec
  | .link a b => fun n => if n = a then some b else dir n
  | .two a b => fun n => if n = a ∨ n = b then none else dir n
  | _ => dir

/-- the events that evolve a tensor -/
def isUpdate : DEv → Bool
  | .site _ => true
  | .link _ _ => true
  | .two _ _ => true
  | _ => false

/-- the centre and adjacency precondition of an event (that of the discipline machine) -/
def gpre (t : RTree) (c : Nat) (e : DEv) : Bool := pre t ⟨c, []⟩ e

/-- the factorisations of a list of events, in order -/
def opsOf (evs : List DEv) : List GOp := evs.filterMap opOf

/-- executable form of "canonical at `c`": the centre has no record, every other node points to its first hop toward `c` -/
def canonAtB (t : RTree) (dir : Rec) (c : Nat) : Bool :=
  (dir c).isNone && (ids t).all fun x => x == c || ((firstHop t x c).isSome && dir x == firstHop t x c)

/-- executable form of "canonical at the link between `a` and `b`" -/
def canonLinkB (t : RTree) (dir : Rec) (a b : Nat) : Bool :=
  (ids t).all fun x =>
    (x == b || ((firstHop t x b).isSome && dir x == firstHop t x b)) &&
    (x == a || ((firstHop t x a).isSome && dir x == firstHop t x a))

/-- executable form of "canonical at the merged pair `a`, `b`" -/
def canonPairB (t : RTree) (dir : Rec) (a b : Nat) : Bool :=
  (dir a).isNone && (dir b).isNone &&
  (ids t).all fun x => x == a || x == b ||
    ((firstHop t x a).isSome && dir x == firstHop t x a && dir x == firstHop t x b)

/-- the check of one event in a state: precondition, canonical at the centre, canonical at the updated position
    while the update runs -/
def goodB (t : RTree) (st : GSt) (e : DEv) : Bool :=
  gpre t st.centre e && canonAtB t st.dir st.centre &&
  match e with
  | .link a b => canonLinkB t (during st.dir e) a b
  | .two a b => canonPairB t (during st.dir e) a b
  | _ => true

/-- all events of a list checked in turn -/
def allGoodB (t : RTree) : GSt → List DEv → Bool
  | _, [] => true
  | st, e :: rest => goodB t st e && allGoodB t (gstep st e) rest

/-- the record after `canonical_form(c)` of a state without centre (C03: `canonOps` on the distance table) -/
def canonRec (t : RTree) (c : Nat) : Option (List Ptn.C03.Op × Rec) :=
  (distanceToNode t c).map fun dist =>
    let ops := Ptn.C03.canonOps dist (nbrsOf t)
    (ops, Ptn.C03.applyOps (fun _ => none) ops)

def eventsOf (t : RTree) (which : String) : Option (Option (List DEv)) :=
  if which == "first" then some (eventsFirst t)
  else if which == "second" then some (eventsSecond t)
  else if which == "twosite" then some (eventsTwoSite t)
  else none

def showOp (o : GOp) : String :=
  (match o.kind with | .qr => "qr " | .svd => "svd ") ++ s!"{o.node}>{o.toward}"

def showRec (t : RTree) (dir : Rec) : String :=
  " ".intercalate ((ids t).map fun x => match dir x with
    | some y => s!"{x}>{y}"
    | none => s!"{x}>-")

end Ptn.C06.Gauge
