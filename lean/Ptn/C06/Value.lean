import Mathlib.Data.Fintype.BigOperators
import Ptn.Common.EinsumIso
import Ptn.Common.AnalysisLocal
/-! Value level for C06 / C07: the embedding of the updated tensor is an isometry BECAUSE the state is in
canonical form at the updated site — as a matrix identity, from the index-form theorem
`Ptn.Ein.embedding_isometry_of_canonical`. -/
namespace Ptn.Ein

open Finset

set_option linter.unusedSectionVars false
variable {L : Type} [DecidableEq L] {R : Type} [CommSemiring R]

/-! ### finite index types for a list of pairs: one index within the dimension per pair -/

/-- a tuple of indices, one per pair of the list, each below the dimension of the first leg of its pair -/
def Idx (dim : L → Nat) : List (L × L) → Type
  | [] => Unit
  | p :: ps => Fin (dim p.1) × Idx dim ps

instance Idx.fintype (dim : L → Nat) : ∀ ps : List (L × L), Fintype (Idx dim ps)
  | [] => inferInstanceAs (Fintype Unit)
  | p :: ps => @instFintypeProd (Fin (dim p.1)) (Idx dim ps) _ (Idx.fintype dim ps)

instance Idx.decEq (dim : L → Nat) : ∀ ps : List (L × L), DecidableEq (Idx dim ps)
  | [] => inferInstanceAs (DecidableEq Unit)
  | p :: ps => @instDecidableEqProd (Fin (dim p.1)) (Idx dim ps) _ (Idx.decEq dim ps)

/-- write the tuple `x` on the first legs and the tuple `y` on the second legs of the pairs -/
def decPair (dim : L → Nat) : (ps : List (L × L)) → Idx dim ps → Idx dim ps → Asg L → Asg L
  | [], _, _, σ => σ
  | p :: ps, (i, x), (j, y), σ => decPair dim ps x y (upd (upd σ p.1 i.1) p.2 j.1)

/-- the nested sums of `sumPairs` as one sum over the index tuples -/
theorem sumPairs_eq_sum (dim : L → Nat) (ps : List (L × L)) (f : Asg L → R) (σ : Asg L) :
    sumPairs dim ps f σ = ∑ x : Idx dim ps, f (decPair dim ps x x σ) := by
  induction ps generalizing σ with
  | nil =>
    show f σ = ∑ x : Unit, f σ
    simp
  | cons p ps ih =>
    obtain ⟨a, b⟩ := p
    show sumR (dim a) (fun i => sumPairs dim ps f (upd (upd σ a i) b i)) =
      ∑ x : Fin (dim a) × Idx dim ps, f (decPair dim ps x.2 x.2 (upd (upd σ a x.1.1) b x.1.1))
    rw [sumR_eq, ← Fin.sum_univ_eq_sum_range, Fintype.sum_prod_type]
    apply Finset.sum_congr rfl
    intro i _
    exact ih _

theorem decPair_congr_at (dim : L → Nat) (ps : List (L × L)) (x y : Idx dim ps) {σ σ' : Asg L} {l : L}
    (h : σ l = σ' l) : decPair dim ps x y σ l = decPair dim ps x y σ' l := by
  induction ps generalizing σ σ' with
  | nil => exact h
  | cons p ps ih =>
    obtain ⟨i, x⟩ := x; obtain ⟨j, y⟩ := y
    show decPair dim ps x y _ l = decPair dim ps x y _ l
    apply ih
    simp only [upd, h]

/-- a label that is not a second leg does not see the second tuple -/
theorem decPair_of_not_snd (dim : L → Nat) (ps : List (L × L)) (x y y' : Idx dim ps) (σ : Asg L) {l : L}
    (h : l ∉ ps.map Prod.snd) : decPair dim ps x y σ l = decPair dim ps x y' σ l := by
  induction ps generalizing σ with
  | nil => rfl
  | cons p ps ih =>
    obtain ⟨i, x⟩ := x; obtain ⟨j, y⟩ := y; obtain ⟨j', y'⟩ := y'
    simp only [List.map_cons, List.mem_cons, not_or] at h
    show decPair dim ps x y _ l = decPair dim ps x y' _ l
    rw [ih x y y' _ h.2]
    apply decPair_congr_at
    simp [upd, h.1]

/-- a label that is not a first leg does not see the first tuple -/
theorem decPair_of_not_fst (dim : L → Nat) (ps : List (L × L)) (x x' y : Idx dim ps) (σ : Asg L) {l : L}
    (h : l ∉ ps.map Prod.fst) : decPair dim ps x y σ l = decPair dim ps x' y σ l := by
  induction ps generalizing σ with
  | nil => rfl
  | cons p ps ih =>
    obtain ⟨i, x⟩ := x; obtain ⟨i', x'⟩ := x'; obtain ⟨j, y⟩ := y
    simp only [List.map_cons, List.mem_cons, not_or] at h
    show decPair dim ps x y _ l = decPair dim ps x' y _ l
    rw [ih x x' y _ h.2]
    apply decPair_congr_at
    simp [upd, h.1]

theorem decPair_not_mem (dim : L → Nat) (ps : List (L × L)) (x y : Idx dim ps) (σ : Asg L) {l : L}
    (h : l ∉ Expr.pairLegs ps) : decPair dim ps x y σ l = σ l := by
  induction ps generalizing σ with
  | nil => rfl
  | cons p ps ih =>
    obtain ⟨i, x⟩ := x; obtain ⟨j, y⟩ := y
    rw [mem_pairLegs_cons] at h
    simp only [not_or] at h
    show decPair dim ps x y _ l = σ l
    rw [ih x y _ h.2.2]
    simp [upd, h.1, h.2.1]

/-- the written indices are within the dimensions -/
theorem decPair_lt (dim : L → Nat) (ps : List (L × L)) (x y : Idx dim ps) (σ : Asg L)
    (hnd : (Expr.pairLegs ps).Nodup) (hd : ∀ p ∈ ps, dim p.2 = dim p.1) :
    ∀ p ∈ ps, decPair dim ps x y σ p.1 < dim p.1 ∧ decPair dim ps x y σ p.2 < dim p.2 := by
  induction ps generalizing σ with
  | nil => intro p hp; simp at hp
  | cons q ps ih =>
    obtain ⟨i, x⟩ := x; obtain ⟨j, y⟩ := y
    have hnd' := (pairLegs_cons_perm q ps).nodup_iff.1 hnd
    simp only [List.nodup_cons, List.mem_cons, not_or] at hnd'
    obtain ⟨⟨hab, ha⟩, hb, hnd''⟩ := hnd'
    intro p hp
    rcases List.mem_cons.1 hp with rfl | hp
    · show decPair dim ps x y _ p.1 < _ ∧ decPair dim ps x y _ p.2 < _
      rw [decPair_not_mem dim ps x y _ ha, decPair_not_mem dim ps x y _ hb]
      have := hd p (by simp)
      constructor
      · simp [upd, hab, i.2]
      · simp only [upd, if_true]; rw [this]; exact j.2
    · exact ih x y _ hnd'' (fun p hp => hd p (by simp [hp])) p hp

theorem deltaProd_decPair_aux (dim : L → Nat) (ps : List (L × L)) (x y : Idx dim ps) (σ : Asg L)
    (hnd : (Expr.pairLegs ps).Nodup) :
    (x = y → deltaProd ps (decPair dim ps x y σ) = (1 : R)) ∧
    (x ≠ y → deltaProd ps (decPair dim ps x y σ) = (0 : R)) := by
  induction ps generalizing σ with
  | nil => exact ⟨fun _ => rfl, fun h => absurd (@Subsingleton.elim Unit _ x y) h⟩
  | cons q ps ih =>
    obtain ⟨i, x⟩ := x; obtain ⟨j, y⟩ := y
    have hnd' := (pairLegs_cons_perm q ps).nodup_iff.1 hnd
    simp only [List.nodup_cons, List.mem_cons, not_or] at hnd'
    obtain ⟨⟨hab, ha⟩, hb, hnd''⟩ := hnd'
    have ih' := ih x y (upd (upd σ q.1 i.1) q.2 j.1) hnd''
    have e1 : upd (upd σ q.1 i.1) q.2 j.1 q.1 = i.1 := by simp [upd, hab]
    have e2 : upd (upd σ q.1 i.1) q.2 j.1 q.2 = j.1 := by simp [upd]
    have key : deltaProd (q :: ps) (decPair dim (q :: ps) (i, x) (j, y) σ) =
        (if i.1 = j.1 then (1 : R) else 0) *
          deltaProd ps (decPair dim ps x y (upd (upd σ q.1 i.1) q.2 j.1)) := by
      show (if decPair dim ps x y _ q.1 = decPair dim ps x y _ q.2 then (1 : R) else 0) * _ = _
      rw [decPair_not_mem dim ps x y _ ha, decPair_not_mem dim ps x y _ hb, e1, e2]
      rfl
    constructor
    · intro h
      have h3 := Prod.ext_iff.1 h
      rw [key, if_pos (congrArg Fin.val h3.1), ih'.1 h3.2, mul_one]
    · intro h
      rw [key]
      by_cases hij : i.1 = j.1
      · have : x ≠ y := fun e => h (Prod.ext (Fin.ext hij) e)
        rw [ih'.2 this, mul_zero]
      · rw [if_neg hij, zero_mul]

/-- `Π_k δ(x_k, y_k)` is the Kronecker delta of the tuples -/
theorem deltaProd_decPair (dim : L → Nat) (ps : List (L × L)) (x y : Idx dim ps) (σ : Asg L)
    (hnd : (Expr.pairLegs ps).Nodup) :
    deltaProd ps (decPair dim ps x y σ) = (if x = y then (1 : R) else 0) := by
  by_cases h : x = y
  · rw [if_pos h]; exact (deltaProd_decPair_aux dim ps x y σ hnd).1 h
  · rw [if_neg h]; exact (deltaProd_decPair_aux dim ps x y σ hnd).2 h

/-! ### the embedding as a matrix -/

/-- **The embedding matrix** of the centre's bond indices into the open legs of all other nodes:
`E[n, c]` is the ket half of the environment at the open-leg indices `n` and the bond indices `c`
(`Kids.E`: all ket tensors of the non-centre nodes contracted over their own bonds). -/
def envMatrix (dim : L → Nat) (k : Kids L R) : Matrix (Idx dim k.physAll) (Idx dim k.ups) R :=
  fun n c => k.E dim (decPair dim k.physAll n n (decPair dim k.ups c c (fun _ => 0)))

/-- the same for the conjugated copies -/
def envMatrixC (dim : L → Nat) (k : Kids L R) : Matrix (Idx dim k.physAll) (Idx dim k.ups) R :=
  fun n r => k.Ec dim (decPair dim k.physAll n n (decPair dim k.ups r r (fun _ => 0)))

/-- **Canonical form makes the embedding an isometry (matrix form, any commutative semiring).**
`Σ_n Ec[n, r] · E[n, c] = δ_rc`. -/
theorem embedding_matrix_isometry (dim : L → Nat) (k : Kids L R) (hc : k.Canon dim) (hnd : k.labels.Nodup) :
    (envMatrixC dim k).transpose * envMatrix dim k = 1 := by
  ext r c
  rw [Matrix.mul_apply, Matrix.one_apply]
  have hu := Kids.ups_nodup hnd
  have h := embedding_isometry_of_canonical dim k hc hnd (decPair dim k.ups c r (fun _ => 0))
    (decPair_lt dim k.ups c r _ hu hc.ups_dim)
  rw [sumPairs_eq_sum, deltaProd_decPair dim k.ups c r _ hu] at h
  have e : (if c = r then (1 : R) else 0) = if r = c then 1 else 0 := by
    by_cases hrc : r = c
    · rw [if_pos hrc, if_pos hrc.symm]
    · rw [if_neg hrc, if_neg (fun h => hrc h.symm)]
  rw [← e, ← h]
  apply Finset.sum_congr rfl
  intro n _
  rw [Matrix.transpose_apply, mul_comm]
  congr 1
  · -- the ket half does not read the bra labels
    apply Kids.E_dependsOn dim k hc
    intro l hl
    apply decPair_congr_at
    exact decPair_of_not_snd dim k.ups c c r _
      (fun h => Kids.ket_bra_disjoint hnd l hl (Kids.ups_snd_sub k l h))
  · apply Kids.Ec_dependsOn dim k hc
    intro l hl
    apply decPair_congr_at
    exact decPair_of_not_fst dim k.ups r c r _
      (fun h => Kids.ket_bra_disjoint hnd l (Kids.ups_fst_sub k l h) hl)

end Ptn.Ein

/-! ### the bra copy is the conjugate of the ket: structural form, and what it gives -/

namespace Ptn.Ein

open Finset

set_option linter.unusedSectionVars false
set_option linter.unusedVariables false
variable {L : Type} [DecidableEq L] {R : Type} [CommSemiring R] [StarRing R]

/-- the conjugated copy of a tensor, read through the relabelling `pr` (ket label ↦ bra label) -/
def cjr (pr : L → L) (f : Asg L → R) : Asg L → R := fun τ => star (f (fun l => τ (pr l)))

mutual
/-- the doubled tree is a ket tree together with its conjugated, relabelled copy -/
def Sub.IsConj (pr : L → L) : Sub L R → Prop
  | .node T Tc u u' phys kids => Tc = cjr pr T ∧ u' = pr u ∧ (∀ p ∈ phys, p.2 = pr p.1) ∧ kids.IsConj pr
def Kids.IsConj (pr : L → L) : Kids L R → Prop
  | .nil => True
  | .cons d d' s rest => d' = pr d ∧ s.IsConj pr ∧ rest.IsConj pr
end

theorem Sub.IsConj.u' {pr : L → L} {s : Sub L R} (h : s.IsConj pr) : s.u' = pr s.u := by
  cases s; exact h.2.1

mutual
theorem Sub.braBinds_eq (pr : L → L) : ∀ s : Sub L R, s.IsConj pr → s.braBinds = s.ketBinds.map (Prod.map pr pr)
  | .node _ _ _ _ _ kids, h => Kids.braBinds_eq pr kids h.2.2.2
theorem Kids.braBinds_eq (pr : L → L) : ∀ k : Kids L R, k.IsConj pr → k.braBinds = k.ketBinds.map (Prod.map pr pr)
  | .nil, _ => rfl
  | .cons d d' s rest, h => by
    obtain ⟨hd, hs, hr⟩ := h
    simp only [Kids.braBinds, Kids.ketBinds, List.map_cons, List.map_append, Prod.map,
      Sub.braBinds_eq pr s hs, Kids.braBinds_eq pr rest hr, hd, hs.u']
end

theorem Kids.braIn_eq (pr : L → L) : ∀ k : Kids L R, k.IsConj pr → k.braIn = k.ketIn.map (Prod.map pr pr)
  | .nil, _ => rfl
  | .cons d d' s rest, h => by
    obtain ⟨hd, hs, hr⟩ := h
    simp only [Kids.braIn, Kids.ketIn, List.map_append, Sub.braBinds_eq pr s hs, Kids.braIn_eq pr rest hr]

mutual
theorem Sub.braLeaves_eq (pr : L → L) : ∀ s : Sub L R, s.IsConj pr → s.braLeaves = s.ketLeaves.map (cjr pr)
  | .node _ _ _ _ _ kids, h => by
    simp only [Sub.braLeaves, Sub.ketLeaves, List.map_cons, Kids.braLeaves_eq pr kids h.2.2.2, h.1]
theorem Kids.braLeaves_eq (pr : L → L) : ∀ k : Kids L R, k.IsConj pr → k.braLeaves = k.ketLeaves.map (cjr pr)
  | .nil, _ => rfl
  | .cons d d' s rest, h => by
    obtain ⟨hd, hs, hr⟩ := h
    simp only [Kids.braLeaves, Kids.ketLeaves, List.map_append, Sub.braLeaves_eq pr s hs,
      Kids.braLeaves_eq pr rest hr]
end

mutual
theorem Sub.braLabels_eq (pr : L → L) : ∀ s : Sub L R, s.IsConj pr → s.braLabels = s.ketLabels.map pr
  | .node _ _ u u' phys kids, h => by
    obtain ⟨_, hu, hp, hk⟩ := h
    simp only [Sub.braLabels, Sub.ketLabels, List.map_cons, List.map_append, List.map_map,
      Kids.braLabels_eq pr kids hk, hu]
    congr 2
    apply List.map_congr_left
    intro p hp'
    exact hp p hp'
theorem Kids.braLabels_eq (pr : L → L) : ∀ k : Kids L R, k.IsConj pr → k.braLabels = k.ketLabels.map pr
  | .nil, _ => rfl
  | .cons d d' s rest, h => by
    obtain ⟨hd, hs, hr⟩ := h
    simp only [Kids.braLabels, Kids.ketLabels, List.map_cons, List.map_append, Sub.braLabels_eq pr s hs,
      Kids.braLabels_eq pr rest hr, hd]
end

theorem Kids.braInner_eq (pr : L → L) : ∀ k : Kids L R, k.IsConj pr → k.braInner = k.ketInner.map pr
  | .nil, _ => rfl
  | .cons d d' s rest, h => by
    obtain ⟨hd, hs, hr⟩ := h
    simp only [Kids.braInner, Kids.ketInner, List.map_append, Sub.braLabels_eq pr s hs,
      Kids.braInner_eq pr rest hr]

mutual
theorem Sub.physAll_conj (pr : L → L) : ∀ s : Sub L R, s.IsConj pr → ∀ p ∈ s.physAll, p.2 = pr p.1
  | .node _ _ _ _ phys kids, h, p, hp => by
    simp only [Sub.physAll, List.mem_append] at hp
    rcases hp with hp | hp
    · exact h.2.2.1 p hp
    · exact Kids.physAll_conj pr kids h.2.2.2 p hp
theorem Kids.physAll_conj (pr : L → L) : ∀ k : Kids L R, k.IsConj pr → ∀ p ∈ k.physAll, p.2 = pr p.1
  | .nil, _, p, hp => by simp [Kids.physAll] at hp
  | .cons d d' s rest, h, p, hp => by
    simp only [Kids.physAll, List.mem_append] at hp
    rcases hp with hp | hp
    · exact Sub.physAll_conj pr s h.2.1 p hp
    · exact Kids.physAll_conj pr rest h.2.2 p hp
end

theorem Kids.ups_conj (pr : L → L) : ∀ k : Kids L R, k.IsConj pr → ∀ p ∈ k.ups, p.2 = pr p.1
  | .nil, _, p, hp => by simp [Kids.ups] at hp
  | .cons d d' s rest, h, p, hp => by
    simp only [Kids.ups, List.mem_cons] at hp
    rcases hp with rfl | hp
    · exact h.2.1.u'
    · exact Kids.ups_conj pr rest h.2.2 p hp

mutual
theorem Sub.physAll_fst_sub : ∀ (s : Sub L R) (l : L), l ∈ s.physAll.map Prod.fst → l ∈ s.ketLabels
  | .node _ _ _ _ phys kids, l, h => by
    simp only [Sub.physAll, List.map_append, List.mem_append] at h
    simp only [Sub.ketLabels, List.mem_cons, List.mem_append]
    rcases h with h | h
    · exact Or.inr (Or.inl h)
    · exact Or.inr (Or.inr (Kids.physAll_fst_sub' kids l h))
theorem Kids.physAll_fst_sub' : ∀ (k : Kids L R) (l : L), l ∈ k.physAll.map Prod.fst → l ∈ k.ketLabels
  | .nil, l, h => by simp [Kids.physAll] at h
  | .cons d d' s rest, l, h => by
    simp only [Kids.physAll, List.map_append, List.mem_append] at h
    simp only [Kids.ketLabels, List.mem_cons, List.mem_append]
    rcases h with h | h
    · exact Or.inr (Or.inl (Sub.physAll_fst_sub s l h))
    · exact Or.inr (Or.inr (Kids.physAll_fst_sub' rest l h))
end

theorem Kids.physAll_fst_sub : ∀ (k : Kids L R) (l : L), l ∈ k.physAll.map Prod.fst → l ∈ k.ketInner
  | .nil, l, h => by simp [Kids.physAll] at h
  | .cons d d' s rest, l, h => by
    simp only [Kids.physAll, List.map_append, List.mem_append] at h
    simp only [Kids.ketInner, List.mem_append]
    rcases h with h | h
    · exact Or.inl (Sub.physAll_fst_sub s l h)
    · exact Or.inr (Kids.physAll_fst_sub rest l h)

theorem prodL_star (xs : List R) : prodL (xs.map star) = star (prodL xs) := by
  induction xs with
  | nil => simp [prodL]
  | cons x xs ih => simp only [List.map_cons, prodL, ih, star_mul']

/-- **The conjugated, relabelled copy of a network evaluates to the conjugate of the network.** -/
theorem netValue_cjr (dim : L → Nat) (pr : L → L) (hinj : Function.Injective pr) (hdim : ∀ l, dim (pr l) = dim l)
    (bs : List (L × L)) (ls : List (Asg L → R)) (τ : Asg L) :
    netValue dim (bs.map (Prod.map pr pr)) (ls.map (cjr pr)) τ = star (netValue dim bs ls (fun l => τ (pr l))) := by
  unfold netValue
  induction bs generalizing τ with
  | nil =>
    simp only [List.map_nil, sumPairs, List.map_map]
    rw [← prodL_star, List.map_map]
    rfl
  | cons p bs ih =>
    obtain ⟨a, b⟩ := p
    simp only [List.map_cons, Prod.map, sumPairs, sumR_eq, hdim, star_sum]
    apply Finset.sum_congr rfl
    intro i _
    rw [ih]
    congr 2
    funext l
    simp only [upd, hinj.eq_iff]

theorem Kids.Ec_eq_star_E (dim : L → Nat) (pr : L → L) (hinj : Function.Injective pr)
    (hdim : ∀ l, dim (pr l) = dim l) (k : Kids L R) (hk : k.IsConj pr) (τ : Asg L) :
    k.Ec dim τ = star (k.E dim (fun l => τ (pr l))) := by
  unfold Kids.Ec Kids.E
  rw [Kids.braIn_eq pr k hk, Kids.braLeaves_eq pr k hk]
  exact netValue_cjr dim pr hinj hdim _ _ τ

/-- writing the same tuple on both legs of pairs `(a, pr a)` commutes with reading through `pr` -/
theorem decPair_pr (dim : L → Nat) (pr : L → L) (hinj : Function.Injective pr) (ps : List (L × L))
    (hps : ∀ p ∈ ps, p.2 = pr p.1) (x : Idx dim ps) {σ σ' : Asg L} {l : L}
    (h1 : l ∉ ps.map Prod.snd) (h2 : pr l ∉ ps.map Prod.fst) (h : σ (pr l) = σ' l) :
    decPair dim ps x x σ (pr l) = decPair dim ps x x σ' l := by
  induction ps generalizing σ σ' with
  | nil => exact h
  | cons p ps ih =>
    obtain ⟨i, x⟩ := x
    simp only [List.map_cons, List.mem_cons, not_or] at h1 h2
    have hp := hps p (by simp)
    show decPair dim ps x x _ (pr l) = decPair dim ps x x _ l
    apply ih (fun q hq => hps q (by simp [hq])) x h1.2 h2.2
    show upd (upd σ p.1 i.1) p.2 i.1 (pr l) = upd (upd σ' p.1 i.1) p.2 i.1 l
    unfold upd
    rw [if_neg h1.1, if_neg h2.1]
    by_cases hl : l = p.1
    · rw [if_pos hl, if_pos (by rw [hp, hl])]
    · rw [if_neg hl, if_neg (by rw [hp]; exact fun e => hl (hinj e)), h]

/-- **the bra half of the embedding matrix is the entrywise conjugate of the ket half** -/
theorem envMatrixC_eq_conj (dim : L → Nat) (pr : L → L) (hinj : Function.Injective pr)
    (hdim : ∀ l, dim (pr l) = dim l) (k : Kids L R) (hc : k.Canon dim) (hnd : k.labels.Nodup)
    (hk : k.IsConj pr) : envMatrixC dim k = (envMatrix dim k).map star := by
  ext n r
  simp only [envMatrixC, envMatrix, Matrix.map_apply]
  rw [Kids.Ec_eq_star_E dim pr hinj hdim k hk]
  congr 1
  apply Kids.E_dependsOn dim k hc
  intro l hl
  have hbra : pr l ∈ k.braInner := by
    rw [Kids.braInner_eq pr k hk]; exact List.mem_map_of_mem hl
  have hl' : l ∉ k.braInner := Kids.ket_bra_disjoint hnd l hl
  have hpl : pr l ∉ k.ketInner := fun h => Kids.ket_bra_disjoint hnd _ h hbra
  show decPair dim k.physAll n n _ (pr l) = decPair dim k.physAll n n _ l
  apply decPair_pr dim pr hinj k.physAll (Kids.physAll_conj pr k hk) n
  · intro h
    obtain ⟨p, hp, rfl⟩ := List.mem_map.1 h
    apply hl'
    rw [Kids.physAll_conj pr k hk p hp, Kids.braInner_eq pr k hk]
    exact List.mem_map_of_mem (Kids.physAll_fst_sub k _ (List.mem_map_of_mem hp))
  · exact fun h => hpl (Kids.physAll_fst_sub k _ h)
  · apply decPair_pr dim pr hinj k.ups (Kids.ups_conj pr k hk) r
    · exact fun h => hl' (Kids.ups_snd_sub k l h)
    · exact fun h => hpl (Kids.ups_fst_sub k _ h)
    · rfl

end Ptn.Ein

namespace Ptn.C06

open Ptn.Ein Matrix
open scoped Kronecker

variable {L : Type} [DecidableEq L]

/-- `Eᴴ E = 1` for the embedding matrix of a network in canonical form whose bra tensors are the conjugates
of the ket tensors (`hconj`: the bra half of the environment is, entry by entry, the complex conjugate of
the ket half). -/
theorem envMatrix_isometry (dim : L → Nat) (k : Kids L ℂ) (hc : k.Canon dim) (hnd : k.labels.Nodup)
    (hconj : envMatrixC dim k = (envMatrix dim k).map star) :
    (envMatrix dim k)ᴴ * envMatrix dim k = 1 := by
  have h := embedding_matrix_isometry dim k hc hnd
  rw [hconj] at h
  rw [← transpose_map] at h
  exact h

/-- **The embedding of the updated tensor**: the environment on the bonds, the identity on the open legs `P`
of the updated site itself (one site: its physical legs; two sites: the open legs of both). -/
def siteEmbedding (dim : L → Nat) (k : Kids L ℂ) (P : Type) [Fintype P] [DecidableEq P] :
    Matrix (Idx dim k.physAll × P) (Idx dim k.ups × P) ℂ :=
  envMatrix dim k ⊗ₖ (1 : Matrix P P ℂ)

theorem siteEmbedding_isometry (dim : L → Nat) (k : Kids L ℂ) (hc : k.Canon dim) (hnd : k.labels.Nodup)
    (hconj : envMatrixC dim k = (envMatrix dim k).map star) (P : Type) [Fintype P] [DecidableEq P] :
    (siteEmbedding dim k P)ᴴ * siteEmbedding dim k P = 1 :=
  Ptn.Analysis.isometry_kronecker _ _ (envMatrix_isometry dim k hc hnd hconj) (by simp)

end Ptn.C06
