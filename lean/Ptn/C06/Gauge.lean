import Ptn.C06.GaugeLemmas
import Ptn.C06.GaugeDecide
import Ptn.C03.Tree
/-! The gauge machine on the events of a WHOLE time step of the three TDVP schemes, the constructor, and the
meaning of the record for the tensors (QR / SVD contracts as explicit hypotheses). -/
namespace Ptn.C06.Gauge
open Ptn.C17 Ptn.C17.RTree Ptn.C05.Disc Ptn.C03

/-- the three schemes -/
inductive Scheme where
  | first
  | second
  | twoSite
deriving DecidableEq, Repr

/-- the events of one `run_one_time_step` -/
def Scheme.events (t : RTree) : Scheme → Option (List DEv)
  | .first => eventsFirst t
  | .second => eventsSecond t
  | .twoSite => eventsTwoSite t

/-- the second-order schemes need two nodes (`backwards_update_path[1]`, `update_path[-2]`) -/
def Scheme.Defined (t : RTree) : Scheme → Prop
  | .first => True
  | .second => t.kids ≠ []
  | .twoSite => t.kids ≠ []

/-- the events of one time step form a walk from the first node of the sweep back to it -/
theorem scheme_walk (t : RTree) (hwf : t.WF) (sch : Scheme) (hdef : sch.Defined t) :
    ∃ u s evs, updatePath t = some u ∧ u.head? = some s ∧ s ∈ ids t ∧ sch.events t = some evs ∧
      walk t s evs = some s := by
  obtain ⟨u0, s0, hu0, hs0, hm0, _⟩ := updatePath_facts t hwf
  have hsm : ∀ u s, updatePath t = some u → u.head? = some s → s ∈ ids t := by
    intro u s hu hs
    rw [hu0] at hu; simp at hu; subst hu
    exact hm0 s (List.mem_of_head? hs)
  cases sch with
  | first =>
    obtain ⟨u, s, body, reset, l, hu, hs, _, hev, _, _, hrun⟩ := reads_fresh_first t hwf
    have hs' := hsm u s hu hs
    refine ⟨u, s, body ++ reset, hu, hs, hs', hev, ?_⟩
    have := walk_of_run _ _ _ (hrun ⟨s, (blocks t).filter (away t s)⟩
      (init_ok hwf (st := ⟨s, []⟩) rfl hs').2 rfl)
    exact this
  | second =>
    obtain ⟨u, s, evs, hu, hs, hev, hok⟩ := reads_fresh_second t hwf hdef
    exact ⟨u, s, evs, hu, hs, hsm u s hu hs, hev, walk_of_OK hwf (hsm u s hu hs) hok⟩
  | twoSite =>
    obtain ⟨u, s, evs, hu, hs, hev, hok⟩ := reads_fresh_two_site t hwf hdef
    exact ⟨u, s, evs, hu, hs, hsm u s hu hs, hev, walk_of_OK hwf (hsm u s hu hs) hok⟩

theorem walk_append {t : RTree} : ∀ {l1 l2 : List DEv} {c c1 c2 : Nat}, walk t c l1 = some c1 →
    walk t c1 l2 = some c2 → walk t c (l1 ++ l2) = some c2
  | [], _, _, _, _, h1, h2 => by simp only [walk, Option.some.injEq] at h1; subst h1; exact h2
  | e :: l1, l2, c, c1, c2, h1, h2 => by
    simp only [walk, List.cons_append] at h1 ⊢
    split at h1
    · rename_i hp
      simp only [hp, if_true]
      exact walk_append h1 h2
    · simp at h1

theorem walk_replicate {t : RTree} {s : Nat} {evs : List DEv} (h : walk t s evs = some s) :
    ∀ k, walk t s (List.replicate k evs).flatten = some s
  | 0 => by simp [walk]
  | k + 1 => by
    rw [List.replicate_succ, List.flatten_cons]
    exact walk_append h (walk_replicate h k)

/-! ### the record after the constructor -/

/-- `canonical_form(c)` (C03 `canon_gauge_tree`): the record of the QR operations of `canonical_form` on a state
    without centre is canonical at `c` -/
theorem canonRec_canon (t : RTree) (hwf : t.WF) (c : Nat) (hc : c ∈ ids t) :
    ∃ ops dir, canonRec t c = some (ops, dir) ∧ CanonAt t dir c := by
  obtain ⟨dist, hd, _, _, _, hall, hcn⟩ := canon_gauge_tree t hwf c hc
  refine ⟨canonOps dist (nbrsOf t), applyOps (fun _ => none) (canonOps dist (nbrsOf t)),
    by simp [canonRec, hd], hcn, ?_⟩
  intro x hx hxc
  exact hall x hx hxc

/-! ### the meaning of the record for the tensors

`α`: tensors; `T n`: the tensor of node `n`; `iso A m`: "`A` is an isometry toward the neighbour `m`" (for a
shape-keeping factorisation: a partial isometry).  `Writes` is the contract of an event: which tensors it may
replace, and - the contract of `numpy.linalg.qr` / `svd` behind `split_node_qr` / `split_node_svd` - that the
factor left at `a` is an isometry toward `b`.  Nothing else is assumed about the new tensors. -/

section tensors
variable {α : Type} (iso : α → Nat → Prop)

/-- every record is true of the tensors -/
def Sound (dir : Rec) (T : Nat → α) : Prop := ∀ n m, dir n = some m → iso (T n) m

/-- the contract of one event on the tensors -/
def Writes (T T' : Nat → α) : DEv → Prop
  | .site v => ∀ n, n ≠ v → T' n = T n
  | .move a b => (∀ n, n ≠ a → n ≠ b → T' n = T n) ∧ iso (T' a) b
  | .link a b => (∀ n, n ≠ a → n ≠ b → T' n = T n) ∧ iso (T' a) b
  | .two a b => (∀ n, n ≠ a → n ≠ b → T' n = T n) ∧ iso (T' a) b
  | .hop a b => (∀ n, n ≠ a → n ≠ b → T' n = T n) ∧ iso (T' a) b
  | .init _ => T' = T

/-- the tensors along a list of events -/
inductive TRun : (Nat → α) → List DEv → (Nat → α) → Prop
  | nil (T : Nat → α) : TRun T [] T
  | cons {T T1 T' : Nat → α} {e : DEv} {rest : List DEv} :
      Writes iso T T1 e → TRun T1 rest T' → TRun T (e :: rest) T'

/-- **the state is canonical at `c`**: the tensor of every other node is an isometry toward the first node on
    its way to `c` -/
def IsoCanonAt (t : RTree) (T : Nat → α) (c : Nat) : Prop :=
  ∀ x ∈ ids t, x ≠ c → ∃ h, firstHop t x c = some h ∧ iso (T x) h

/-- the state is canonical at the pair `a`, `b` (the merged two-site tensor) -/
def IsoCanonPair (t : RTree) (T : Nat → α) (a b : Nat) : Prop :=
  ∀ x ∈ ids t, x ≠ a → x ≠ b → ∃ h, firstHop t x a = some h ∧ firstHop t x b = some h ∧ iso (T x) h

/-- the state is canonical at the link between `a` and `b` (tensors after the split of `a`) -/
def IsoCanonLink (t : RTree) (T : Nat → α) (a b : Nat) : Prop :=
  ∀ x ∈ ids t, (x ≠ b → ∃ h, firstHop t x b = some h ∧ iso (T x) h) ∧
    (x ≠ a → ∃ h, firstHop t x a = some h ∧ iso (T x) h)

variable {iso}

theorem isoCanonAt_of_sound {t : RTree} {dir : Rec} {T : Nat → α} {c : Nat} (hc : CanonAt t dir c)
    (hs : Sound iso dir T) : IsoCanonAt iso t T c := by
  intro x hx hxc
  obtain ⟨h, hh, hd⟩ := hc.2 x hx hxc
  exact ⟨h, hh, hs x h hd⟩

/-- a split of `a` toward `b` keeps the record true -/
theorem sound_split {dir : Rec} {a b : Nat} {T T' : Nat → α} (hs : Sound iso dir T)
    (hk : ∀ n, n ≠ a → n ≠ b → T' n = T n) (hi : iso (T' a) b) :
    Sound iso (applyOp dir ⟨a, b⟩) T' := by
  intro n m hd
  simp only [applyOp] at hd
  by_cases hna : n = a
  · rw [if_pos hna] at hd
    have : b = m := Option.some.inj hd
    rw [hna, ← this]; exact hi
  · rw [if_neg hna] at hd
    by_cases hnb : n = b
    · rw [if_pos hnb] at hd; simp at hd
    · rw [if_neg hnb] at hd
      rw [hk n hna hnb]; exact hs n m hd

/-- one event keeps the record true: it writes only the centre (which has no record) and, for a split, its
    neighbour `b` (which loses its record), and the new tensor of `a` is an isometry toward `b` -/
theorem sound_step {t : RTree} {st : GSt} {e : DEv} {T T' : Nat → α}
    (hpre : gpre t st.centre e = true) (hcn : st.dir st.centre = none) (hs : Sound iso st.dir T)
    (hw : Writes iso T T' e) : Sound iso (gstep st e).dir T' := by
  cases e with
  | site v =>
    have hc : st.centre = v := by
      simp only [gpre, pre, Bool.and_eq_true, beq_iff_eq] at hpre; exact hpre.1
    intro n m hd
    simp only [gstep] at hd
    have hnv : n ≠ v := by
      intro e; rw [e, ← hc, hcn] at hd; simp at hd
    rw [hw n hnv]; exact hs n m hd
  | init c =>
    simp only [Writes] at hw; subst hw; exact hs
  | move a b => exact sound_split hs hw.1 hw.2
  | link a b => exact sound_split hs hw.1 hw.2
  | two a b => exact sound_split hs hw.1 hw.2
  | hop a b => exact sound_split hs hw.1 hw.2

/-- the record stays true along a walk; with it the STATE is canonical at the centre before every event -/
theorem sound_run {t : RTree} (hwf : t.WF) : ∀ (evs : List DEv) (st : GSt) (c' : Nat) (T T' : Nat → α),
    walk t st.centre evs = some c' → CanonAt t st.dir st.centre → Sound iso st.dir T →
    TRun iso T evs T' → Sound iso (grun st evs).dir T'
  | [], st, c', T, T', _, _, hs, hr => by cases hr; exact hs
  | e :: rest, st, c', T, T', hw, hc, hs, hr => by
    cases hr with
    | cons hwr hrest =>
      simp only [walk] at hw
      split at hw
      · rename_i hpre
        obtain ⟨_, hn⟩ := good_step hwf hpre hc
        rw [← gstep_centre] at hw
        rw [grun_cons]
        exact sound_run hwf rest (gstep st e) c' _ T' hw hn (sound_step hpre hc.1 hs hwr) hrest
      · simp at hw

theorem trun_split : ∀ {evs : List DEv} {T T' : Nat → α}, TRun iso T evs T' →
    ∀ p q, evs = p ++ q → ∃ Tm, TRun iso T p Tm ∧ TRun iso Tm q T'
  | _, T, T', hr, [], q, h => by
    simp only [List.nil_append] at h; subst h
    exact ⟨T, TRun.nil T, hr⟩
  | _, _, _, TRun.nil T, p0 :: p', q, h => by simp at h
  | _, _, _, TRun.cons hw hrest, p0 :: p', q, h => by
    simp only [List.cons_append, List.cons.injEq] at h
    obtain ⟨rfl, h'⟩ := h
    obtain ⟨Tm, h1, h2⟩ := trun_split hrest p' q h'
    exact ⟨Tm, TRun.cons hw h1, h2⟩

/-- canonical at `a` is canonical at the merged pair `a`, `b` -/
theorem isoCanonPair_of_at {t : RTree} (hwf : t.WF) {T : Nat → α} {a b : Nat} (hab : Adj t a b)
    (h : IsoCanonAt iso t T a) : IsoCanonPair iso t T a b := by
  intro x hx hxa hxb
  obtain ⟨h', hh, hi⟩ := h x hx hxa
  exact ⟨h', hh, by rw [firstHop_adj_same hwf hab hx hxa hxb]; exact hh, hi⟩

/-- canonical at `a`, then `a` split toward `b` (contract: the factor left at `a` is an isometry toward `b`, no
    other tensor is touched): canonical at the link -/
theorem isoCanonLink_of_split {t : RTree} (hwf : t.WF) {T T1 : Nat → α} {a b : Nat} (hab : Adj t a b)
    (h : IsoCanonAt iso t T a) (hk : ∀ n, n ≠ a → T1 n = T n) (hi : iso (T1 a) b) :
    IsoCanonLink iso t T1 a b := by
  intro x hx
  constructor
  · intro hxb
    by_cases hxa : x = a
    · subst hxa; exact ⟨b, firstHop_adj hwf hab, hi⟩
    · obtain ⟨h', hh, hi'⟩ := h x hx hxa
      exact ⟨h', by rw [firstHop_adj_same hwf hab hx hxa hxb]; exact hh, by rw [hk x hxa]; exact hi'⟩
  · intro hxa
    obtain ⟨h', hh, hi'⟩ := h x hx hxa
    exact ⟨h', hh, by rw [hk x hxa]; exact hi'⟩

/-- **the state at every event of a walk**: started canonical (record canonical at the centre and true of the
    tensors), whatever the events do within their contracts, before every event the STATE is canonical at the
    machine's centre, which is where the event starts -/
theorem state_canonical_at_event {t : RTree} (hwf : t.WF) {evs : List DEv} {st : GSt} {c' : Nat}
    {T0 : Nat → α} (hw : walk t st.centre evs = some c') (hc : CanonAt t st.dir st.centre)
    (hs : Sound iso st.dir T0) {p q : List DEv} {e : DEv} {T : Nat → α} (hsplit : evs = p ++ e :: q)
    (hr : TRun iso T0 p T) :
    gpre t (grun st p).centre e = true ∧ IsoCanonAt iso t T (grun st p).centre := by
  -- the prefix is a walk
  have hwp : ∃ cm, walk t st.centre p = some cm := by
    clear hr hs hc
    subst hsplit
    induction p generalizing st with
    | nil => exact ⟨_, rfl⟩
    | cons p0 p' ih =>
      simp only [walk, List.cons_append] at hw ⊢
      split at hw
      · rename_i hp
        simp only [hp, if_true]
        have := ih (st := gstep st p0) (by rw [gstep_centre]; exact hw)
        rw [gstep_centre] at this
        exact this
      · simp at hw
  obtain ⟨cm, hcm⟩ := hwp
  obtain ⟨_, hcanon, hcentre⟩ := goodRun_of_walk hwf p st cm hcm hc
  have hsound := sound_run hwf p st cm T0 T hcm hc hs hr
  obtain ⟨hgood, _, _⟩ := goodRun_of_walk hwf evs st c' hw hc
  have hg := goodRun_split hgood p e q hsplit
  refine ⟨hg.1, ?_⟩
  rw [hcentre]
  exact isoCanonAt_of_sound hcanon hsound

end tensors

end Ptn.C06.Gauge
