import Ptn.C03.CentreNorm
import Ptn.C06.Gauge
/-! The value-level run of the one-site TDVP events, and the translation of the gauge record at a site update
into the index-form canonical form `Ptn.Ein.Kids.Canon` of the doubled tree re-rooted at the update site.

`VStep dim cj N e N'`: the event `e` on a valued network (`Ptn.C03.VNet`):
* `move a b`, `hop a b`: one `Ptn.C03.IsoStep` (QR of `a` toward `b` with the full contract: factorisation,
  `Q` an isometry toward the fresh bond, one dimension for the fresh bond; `R` absorbed into `b`);
* `site v`: the tensor of `v` is replaced by ANY tensor reading the legs of `v`; nothing else changes;
* `link a b`: an `IsoStep` of `a` toward `b`, then the tensor of `b` (which has absorbed `R`) is replaced by ANY
  tensor reading the legs of `b` (the evolved link tensor contracted into `b`);
* `init c`: nothing is touched.
* `two a b` (two-site update, `notes/C07.md`): the bond between `a` and `b` is replaced by a fresh one as in a
  move (an `IsoStep`, which fixes the legs and the bond of the result), then BOTH tensors are replaced: `a` gets ANY
  tensor `U` on its legs that is an isometry toward the fresh bond (the contract of `split_node_svd`), `b` any
  tensor on its legs.  Restriction: the `IsoStep` demands an exact factorisation of the old tensor of `a` over the
  fresh bond, so a truncation below that rank is outside this step.

`vrun_inv`: along every walk the record of the gauge machine stays TRUE of the network (`Ptn.C03.GaugeInv`:
index-form isometry toward the bond to the recorded neighbour), the network stays well-formed, bonds keep one
dimension.  `site_canon_of_record`: a record canonical at `v` that is true of the network gives `EdgeOK` on every
edge of the tree re-rooted at `v`, hence `Kids.Canon`. -/
namespace Ptn.C06.Gauge

open Ptn.Ein Ptn.C17 Ptn.C17.RTree Ptn.C05.Disc Ptn.C03

set_option linter.unusedSectionVars false
set_option linter.unusedVariables false
variable {R : Type} [CommSemiring R]

/-- the network with the tensor of `v` replaced by `A` -/
def siteWrite (N : VNet R) (v : Nat) (A : Asg Nat → R) : VNet R where
  ids := N.ids
  legs := N.legs
  tens := fun k => if k = v then A else N.tens k
  bonds := N.bonds
  next := N.next

/-- one TDVP event on a valued network (one-site schemes) -/
inductive VStep (dim : Nat → Nat) (cj : R → R) : VNet R → DEv → VNet R → Prop
  | site (N : VNet R) (v : Nat) (A : Asg Nat → R) (hA : DependsOn (· ∈ N.legs v) A) :
      VStep dim cj N (.site v) (siteWrite N v A)
  | init (N : VNet R) (c : Nat) : VStep dim cj N (.init c) N
  | move {N N' : VNet R} {a b : Nat} : IsoStep dim cj N ⟨a, b⟩ N' → VStep dim cj N (.move a b) N'
  | hop {N N' : VNet R} {a b : Nat} : IsoStep dim cj N ⟨a, b⟩ N' → VStep dim cj N (.hop a b) N'
  | link {N N1 : VNet R} {a b : Nat} (A : Asg Nat → R) : IsoStep dim cj N ⟨a, b⟩ N1 →
      DependsOn (· ∈ N1.legs b) A → VStep dim cj N (.link a b) (siteWrite N1 b A)
  | two {N N1 : VNet R} {a b : Nat} (U B : Asg Nat → R) : IsoStep dim cj N ⟨a, b⟩ N1 →
      DependsOn (· ∈ N1.legs a) U → DependsOn (· ∈ N1.legs b) B →
      IsoToward dim cj U (N1.legs a) N.next → VStep dim cj N (.two a b) (siteWrite (siteWrite N1 a U) b B)

inductive VRun (dim : Nat → Nat) (cj : R → R) : VNet R → List DEv → VNet R → Prop
  | nil (N : VNet R) : VRun dim cj N [] N
  | cons {N N1 N2 : VNet R} {e : DEv} {rest : List DEv} :
      VStep dim cj N e N1 → VRun dim cj N1 rest N2 → VRun dim cj N (e :: rest) N2

/-- what is kept along a run: well-formed, one dimension per bond, the same nodes, the record is true -/
structure VInv (dim : Nat → Nat) (cj : R → R) (ids0 : List Nat) (N : VNet R) (dir : Rec) : Prop where
  wf : N.WF
  bd : BondDims dim N
  ids : N.ids = ids0
  inv : GaugeInv dim cj N dir

theorem siteWrite_wf {N : VNet R} (h : N.WF) {v : Nat} {A : Asg Nat → R}
    (hA : DependsOn (· ∈ N.legs v) A) : (siteWrite N v A).WF where
  ids_nodup := h.ids_nodup
  legs_nodup := h.legs_nodup
  owner := h.owner
  reads := by
    intro n hn
    show DependsOn (· ∈ N.legs n) (if n = v then A else N.tens n)
    by_cases e : n = v
    · subst e; simpa using hA
    · simpa [e] using h.reads n hn
  bonds_nodup := h.bonds_nodup
  bonds_legs := h.bonds_legs
  fresh := h.fresh

/-- replacing the tensor of a node without record keeps the record true -/
theorem siteWrite_inv {dim : Nat → Nat} {cj : R → R} {N : VNet R} {dir : Rec} {v : Nat} {A : Asg Nat → R}
    (hinv : GaugeInv dim cj N dir) (hv : dir v = none) : GaugeInv dim cj (siteWrite N v A) dir := by
  intro n m hd
  have hnv : n ≠ v := by
    intro e; rw [e, hv] at hd; simp at hd
  obtain ⟨h1, h2, p, a, b, hj, hi⟩ := hinv n m hd
  refine ⟨h1, h2, p, a, b, hj, ?_⟩
  have : (siteWrite N v A).tens n = N.tens n := by simp [siteWrite, hnv]
  rw [this]
  exact hi

theorem siteWrite_vinv {dim : Nat → Nat} {cj : R → R} {ids0 : List Nat} {N : VNet R} {dir : Rec} {v : Nat}
    {A : Asg Nat → R} (h : VInv dim cj ids0 N dir) (hv : dir v = none)
    (hA : DependsOn (· ∈ N.legs v) A) : VInv dim cj ids0 (siteWrite N v A) dir :=
  ⟨siteWrite_wf h.wf hA, h.bd, h.ids, siteWrite_inv h.inv hv⟩

theorem isoStep_vinv {dim : Nat → Nat} {cj : R → R} {ids0 : List Nat} {N N' : VNet R} {dir : Rec} {o : Op}
    (h : VInv dim cj ids0 N dir) (hs : IsoStep dim cj N o N') : VInv dim cj ids0 N' (applyOp dir o) := by
  refine ⟨step_wf dim h.wf hs.step, isoStep_bondDims dim cj hs h.bd, ?_, isoStep_inv dim cj h.wf hs h.inv⟩
  have : N'.ids = N.ids := by cases hs; rfl
  rw [this]; exact h.ids

theorem isoStep_ne {dim : Nat → Nat} {cj : R → R} {N N' : VNet R} {a b : Nat}
    (hs : IsoStep dim cj N ⟨a, b⟩ N') : a ≠ b := by
  cases hs with
  | mk n m p a' b' hn hm hnm hj F hiso hdim => exact hnm

/-- after a move of `a` toward `b` the two nodes are joined by the fresh bond -/
theorem isoStep_joined {dim : Nat → Nat} {cj : R → R} {N N' : VNet R} {a b : Nat}
    (hs : IsoStep dim cj N ⟨a, b⟩ N') :
    a ∈ N'.ids ∧ b ∈ N'.ids ∧ N'.Joined a b (N.next, N.next + 1) N.next (N.next + 1) := by
  cases hs with
  | mk n m p a' b' hn hm hnm hj F hiso hdim =>
    refine ⟨hn, hm, ?_, Or.inl rfl, ?_, ?_⟩
    · show _ ∈ N.bonds.erase p ++ [(N.next, N.next + 1)]; simp
    · rw [gaugeStep_legs_n]; exact List.mem_cons_self
    · rw [gaugeStep_legs_m hnm]; exact List.mem_cons_self

/-- replacing the tensor of a recorded node by an isometry toward the same bond keeps the record true -/
theorem siteWrite_inv_iso {dim : Nat → Nat} {cj : R → R} {N : VNet R} {dir : Rec} {v m : Nat} {A : Asg Nat → R}
    {p : Nat × Nat} {x y : Nat} (hinv : GaugeInv dim cj N dir) (hv : dir v = some m)
    (hJ : v ∈ N.ids ∧ m ∈ N.ids ∧ N.Joined v m p x y) (hi : IsoToward dim cj A (N.legs v) x) :
    GaugeInv dim cj (siteWrite N v A) dir := by
  intro n m' hd
  by_cases hnv : n = v
  · subst hnv
    rw [hv] at hd
    cases hd
    refine ⟨hJ.1, hJ.2.1, p, x, y, hJ.2.2, ?_⟩
    have : (siteWrite N n A).tens n = A := by simp [siteWrite]
    rw [this]
    exact hi
  · obtain ⟨h1, h2, p', a, b, hj, hi'⟩ := hinv n m' hd
    refine ⟨h1, h2, p', a, b, hj, ?_⟩
    have : (siteWrite N v A).tens n = N.tens n := by simp [siteWrite, hnv]
    rw [this]
    exact hi'

/-- **one event keeps the record true** -/
theorem vstep_inv {dim : Nat → Nat} {cj : R → R} {ids0 : List Nat} {t : RTree} {st : GSt} {e : DEv}
    {N N' : VNet R} (hpre : gpre t st.centre e = true) (hcn : st.dir st.centre = none)
    (h : VInv dim cj ids0 N st.dir) (hs : VStep dim cj N e N') : VInv dim cj ids0 N' (gstep st e).dir := by
  cases hs with
  | site v A hA =>
    have hc : st.centre = v := by
      simp only [gpre, pre, Bool.and_eq_true, beq_iff_eq] at hpre; exact hpre.1
    exact siteWrite_vinv h (hc ▸ hcn) hA
  | init c => exact h
  | move hs => exact isoStep_vinv h hs
  | hop hs => exact isoStep_vinv h hs
  | @link N1 a b A hs hA =>
    have h1 := isoStep_vinv h hs
    have hne := isoStep_ne hs
    have hb : applyOp st.dir ⟨a, b⟩ b = none := by
      unfold applyOp
      simp [Ne.symm hne]
    exact siteWrite_vinv h1 hb hA
  | @two N1 a b U B hs hU hB hiso =>
    have h1 := isoStep_vinv h hs
    have hne := isoStep_ne hs
    have ha : applyOp st.dir ⟨a, b⟩ a = some b := by
      unfold applyOp
      simp
    have hb : applyOp st.dir ⟨a, b⟩ b = none := by
      unfold applyOp
      simp [Ne.symm hne]
    have h2 : VInv dim cj ids0 (siteWrite N1 a U) (applyOp st.dir ⟨a, b⟩) :=
      ⟨siteWrite_wf h1.wf hU, h1.bd, h1.ids, siteWrite_inv_iso h1.inv ha (isoStep_joined hs) hiso⟩
    exact siteWrite_vinv h2 hb hB

/-- **the record stays true along a walk** -/
theorem vrun_inv {dim : Nat → Nat} {cj : R → R} {ids0 : List Nat} {t : RTree} (hwf : t.WF) :
    ∀ (evs : List DEv) (st : GSt) (c' : Nat) (N N' : VNet R),
    walk t st.centre evs = some c' → CanonAt t st.dir st.centre → VInv dim cj ids0 N st.dir →
    VRun dim cj N evs N' → VInv dim cj ids0 N' (grun st evs).dir
  | [], st, c', N, N', _, _, hs, hr => by cases hr; exact hs
  | e :: rest, st, c', N, N', hw, hc, hs, hr => by
    cases hr with
    | cons hwr hrest =>
      simp only [walk] at hw
      split at hw
      · rename_i hpre
        obtain ⟨_, hn⟩ := good_step hwf hpre hc
        rw [← gstep_centre] at hw
        rw [grun_cons]
        exact vrun_inv hwf rest (gstep st e) c' _ N' hw hn (vstep_inv hpre hc.1 hs hwr) hrest
      · simp at hw

theorem walk_prefix {t : RTree} : ∀ {p : List DEv} {c c' : Nat} {q : List DEv},
    walk t c (p ++ q) = some c' → ∃ cm, walk t c p = some cm
  | [], c, _, _, _ => ⟨c, rfl⟩
  | p0 :: p', c, c', q, hw => by
    simp only [walk, List.cons_append] at hw ⊢
    split at hw
    · rename_i hp
      simp only [hp, if_true]
      exact walk_prefix hw
    · simp at hw

/-- **the network before every event of a walk**: record canonical at the machine's centre, which is where
the event starts, and true of the network -/
theorem net_canonical_at_event {dim : Nat → Nat} {cj : R → R} {ids0 : List Nat} {t : RTree} (hwf : t.WF)
    {evs : List DEv} {st : GSt} {c' : Nat} {N0 N : VNet R} (hw : walk t st.centre evs = some c')
    (hc : CanonAt t st.dir st.centre) (hs : VInv dim cj ids0 N0 st.dir) {p q : List DEv} {e : DEv}
    (hsplit : evs = p ++ e :: q) (hr : VRun dim cj N0 p N) :
    gpre t (grun st p).centre e = true ∧ CanonAt t (grun st p).dir (grun st p).centre ∧
      VInv dim cj ids0 N (grun st p).dir := by
  obtain ⟨cm, hcm⟩ := walk_prefix (hsplit ▸ hw)
  obtain ⟨_, hcanon, hcentre⟩ := goodRun_of_walk hwf p st cm hcm hc
  have hinv := vrun_inv hwf p st cm N0 N hcm hc hs hr
  obtain ⟨hgood, _, _⟩ := goodRun_of_walk hwf evs st c' hw hc
  have hg := goodRun_split hgood p e q hsplit
  exact ⟨hg.1, hcentre ▸ hcanon, hinv⟩

/-- the centre an event starts from is a node of the tree -/
theorem gpre_centre_mem {t : RTree} {c : Nat} {e : DEv} (h : gpre t c e = true) : c ∈ ids t := by
  cases e with
  | site v =>
    simp only [gpre, pre, Bool.and_eq_true, beq_iff_eq, List.contains_iff_mem] at h
    rw [h.1]; simpa using h.2
  | init v =>
    simp only [gpre, pre, Bool.and_eq_true, beq_iff_eq, List.contains_iff_mem] at h
    rw [h.1]; simpa using h.2
  | move a b =>
    obtain ⟨e1, e2⟩ := gpre_pair (Or.inl rfl) h
    rw [e1]; exact (adj_mem e2).1
  | link a b =>
    obtain ⟨e1, e2⟩ := gpre_pair (Or.inr (Or.inl rfl)) h
    rw [e1]; exact (adj_mem e2).1
  | two a b =>
    obtain ⟨e1, e2⟩ := gpre_pair (Or.inr (Or.inr (Or.inl rfl))) h
    rw [e1]; exact (adj_mem e2).1
  | hop a b =>
    obtain ⟨e1, e2⟩ := gpre_pair (Or.inr (Or.inr (Or.inr rfl))) h
    rw [e1]; exact (adj_mem e2).1

/-- **From the record to the index form.**  `t` a well-formed tree, `v` one of its nodes, the record `dir`
canonical at `v` and true of the well-formed network `N` (bonds of one dimension, the nodes of `t` are nodes of
`N`): the tree `r` re-rooted at `v` exists, and there are bond ends `up`, `dn` with `EdgeOK` on every edge of
`r`; the doubled tree around `v` is canonical (`Kids.Canon`), its labels are pairwise distinct, the open and
bond legs of `v` are its legs, and the norm network has the value of the tensor of `v` alone. -/
theorem site_canon_of_record (dim : Nat → Nat) (cj : R → R) {t : RTree} (hwf : t.WF) {v : Nat} (hv : v ∈ ids t)
    {N : VNet R} {dir : Rec} (hc : CanonAt t dir v) (h : VInv dim cj N.ids N dir)
    (hids : ∀ n ∈ ids t, n ∈ N.ids) :
    ∃ r : RTree, reroot v [] t = some r ∧ r.rid = v ∧ (ids r).Perm (ids t) ∧
      ∃ up dn : Nat → Nat, (∀ e ∈ edges r, EdgeOK dim cj N up dn e.1 e.2) ∧
        (centreOf cj N up dn r).kids.Canon (ddim dim) ∧ (centreOf cj N up dn r).Canon (ddim dim) ∧
        (centreOf cj N up dn r).labels.Nodup ∧
        ((centreOf cj N up dn r).phys ++ (centreOf cj N up dn r).kids.pairs).Perm ((N.legs v).map dbl) ∧
        ∀ σ, netValue (ddim dim) (centreOf cj N up dn r).normBinds ((ids t).flatMap (nodeLeaves cj N)) σ =
          netValue (ddim dim) ((N.legs v).map dbl) [ketT (N.tens v), braT cj (N.tens v)] σ := by
  obtain ⟨r, hr⟩ := (reroot_isSome v).1 t [] hv
  obtain ⟨hwr, hrid, hperm, hhop⟩ := firstHop_reroot hwf hr
  refine ⟨r, hr, hrid, hperm, ?_⟩
  have hI : ∀ i k, (i, k) ∈ edges r → IsoAt dim cj N k i := by
    intro i k he
    obtain ⟨hk, hkc, hfh⟩ := hhop i k he
    obtain ⟨x, hx, hd⟩ := hc.2 k hk hkc
    rw [hfh] at hx
    cases hx
    exact h.inv k i hd
  obtain ⟨up, dn, hE⟩ := edgeOK_of_isoAt dim cj h.bd r hwr hI
  have hsub : ∀ n ∈ ids r, n ∈ N.ids := fun n hn => hids n (hperm.subset hn)
  obtain ⟨hC, hL, hP⟩ := centre_canon_of_tree (cj := cj) (dim := dim) (up := up) (dn := dn) h.wf r hwr hsub hE
  refine ⟨up, dn, hE, hC.2.2, hC, hL, hrid ▸ hP, ?_⟩
  intro σ
  have := centre_norm_of_tree (cj := cj) (dim := dim) (up := up) (dn := dn) h.wf r hwr hsub hE σ
  rw [hrid, centreOf_normLeaves] at this
  rw [← this]
  unfold netValue
  apply sumPairs_congr
  intro τ
  exact Ptn.Ein.prodL_perm (((hperm.symm.flatMap_right (nodeLeaves cj N)).map _))

end Ptn.C06.Gauge
