import Ptn.C06.Link
/-! The doubled tree around the link tensor (builder B72).

Before `link a b` the network is canonical around `a`: the tree re-rooted at `a` is `node a (k1 ++ node b kb :: k2)`
with `EdgeOK` on every edge.  In the intermediate network `qrHalf …` (link tensor `ℓ` a node of its own) the tree
`node ℓ [node a (k1 ++ k2), node b kb]` satisfies `EdgeOK` on every edge, with the bond ends `up[a ↦ q]`, `dn[a ↦ r]`
(`link_edgeOK`); hence `Kids.Canon` of the two sub-trees hanging at the link tensor (`link_kids_canon`). -/
namespace Ptn.C06.Gauge

open Ptn.Ein Ptn.C17 Ptn.C17.RTree Ptn.C03

set_option linter.unusedSectionVars false
set_option linter.unusedVariables false
variable {R : Type} [CommSemiring R]

/-- copy of `Ptn.C07.rootEdge_child_list` -/
theorem c06_rootEdge_child_list : ∀ (ks : List RTree) (a b : Nat), a ∉ idsL ks → SAdj (edgesL a ks) a b →
    ∃ k1 kb k2, ks = k1 ++ RTree.node b kb :: k2
  | [], a, b, _, h => by simp [SAdj] at h
  | k :: ks, a, b, ha, h => by
    rw [idsL_cons, List.mem_append, not_or] at ha
    obtain ⟨hak, haks⟩ := ha
    have hrec : SAdj (edgesL a ks) a b → ∃ k1 kb k2, k :: ks = k1 ++ RTree.node b kb :: k2 := by
      intro h'
      obtain ⟨k1, kb, k2, e⟩ := c06_rootEdge_child_list ks a b haks h'
      exact ⟨k :: k1, kb, k2, by rw [e]; rfl⟩
    simp only [SAdj, edgesL_cons, List.mem_cons, List.mem_append, Prod.mk.injEq] at h
    rcases h with (⟨_, hb⟩ | h | h) | (⟨hb, hr⟩ | h | h)
    · cases k with
      | node i kb =>
        simp only [rid] at hb
        exact ⟨[], kb, ks, by rw [hb]; rfl⟩
    · exact absurd (edge_mem_ids h).1 hak
    · exact hrec (Or.inl h)
    · exact absurd (by rw [hr]; exact rid_mem_ids k) hak
    · exact absurd (edge_mem_ids h).2 hak
    · exact hrec (Or.inr h)

/-- copy of `Ptn.C07.rootEdge_child`: an edge at the root of a well-formed tree is a child of the root -/
theorem c06_rootEdge_child {r : RTree} (hwf : r.WF) {b : Nat} (h : Adj r r.rid b) :
    ∃ k1 kb k2, r.kids = k1 ++ RTree.node b kb :: k2 := by
  cases r with
  | node a ks =>
    simp only [kids]
    have hnd : (a :: idsL ks).Nodup := by simpa [WF] using hwf
    refine c06_rootEdge_child_list ks a b (List.nodup_cons.1 hnd).1 ?_
    simpa [Adj, SAdj, rid] using h

/-- copy of `Ptn.C07.reroot_adj_child` -/
theorem c06_reroot_adj_child {t : RTree} (hwf : t.WF) {a b : Nat} (hab : Adj t a b) {r : RTree}
    (hr : reroot a [] t = some r) :
    r.WF ∧ r.rid = a ∧ ∃ k1 kb k2, r.kids = k1 ++ RTree.node b kb :: k2 := by
  obtain ⟨h1, h2, h3⟩ := (reroot_spec a).1 t [] r hr
  have hp : (ids r).Perm (ids t) := by simpa using h2
  have hrwf : r.WF := hp.nodup_iff.2 hwf
  refine ⟨hrwf, h1, c06_rootEdge_child hrwf ?_⟩
  rw [h1]
  have := (h3 a b).2 (by simpa [SAdj, Adj] using hab)
  exact this

/-- the tree around the link tensor: `ℓ` with the two children `a` (without its child `b`) and `b` -/
def linkTree (ℓ a b : Nat) (k1 k2 kb : List RTree) : RTree :=
  .node ℓ [.node a (k1 ++ k2), .node b kb]

/-- bond ends after the first half of the move: `a` now hangs at the link tensor by the fresh bond -/
def linkUp (N : VNet R) (up : Nat → Nat) (a : Nat) : Nat → Nat := fun k => if k = a then N.next else up k
def linkDn (N : VNet R) (dn : Nat → Nat) (a : Nat) : Nat → Nat := fun k => if k = a then N.next + 1 else dn k

/-- **`EdgeOK` around the link tensor.**  `N` well-formed, canonical around `a` along the tree
`node a (k1 ++ node b kb :: k2)` (`EdgeOK` on every edge), `ℓ` unused, `F` the factorisation of the move of `a`
toward `b` (the end of the bond at `a` is `dn b`) with `Q` an isometry toward the fresh bond of one dimension: in
the intermediate network every edge of `node ℓ [node a (k1 ++ k2), node b kb]` satisfies `EdgeOK`. -/
theorem link_edgeOK (dim : Nat → Nat) (cj : R → R) {N : VNet R} (h : N.WF) {a b ℓ : Nat}
    {k1 k2 kb : List RTree} (hnd : (ids (RTree.node a (k1 ++ RTree.node b kb :: k2))).Nodup)
    (hℓ : ℓ ∉ N.ids) {up dn : Nat → Nat}
    (hE : ∀ e ∈ edges (RTree.node a (k1 ++ RTree.node b kb :: k2)), EdgeOK dim cj N up dn e.1 e.2)
    (F : QRFact dim (N.tens a) (N.legs a) (dn b) N.next (N.next + 1))
    (hiso : IsoToward dim cj F.Q (N.next :: (N.legs a).erase (dn b)) N.next)
    (hdim : dim (N.next + 1) = dim N.next) :
    ∀ e ∈ edges (linkTree ℓ a b k1 k2 kb),
      EdgeOK dim cj (qrHalf dim N a ℓ (dn b) F) (linkUp N up a) (linkDn N dn a) e.1 e.2 := by
  -- the edge a - b
  have hab : (a, b) ∈ edges (RTree.node a (k1 ++ RTree.node b kb :: k2)) := by
    rw [edges_node, edgesL_append, edgesL_cons]
    exact List.mem_append_right _ List.mem_cons_self
  obtain ⟨ha, hb, ⟨p, hj⟩, hd, hib⟩ := hE _ hab
  simp only at ha hb hj hd hib
  have haℓ : a ≠ ℓ := fun e => hℓ (e ▸ ha)
  have hbℓ : b ≠ ℓ := fun e => hℓ (e ▸ hb)
  -- nodup facts
  rw [ids_node, idsL_append, idsL_cons, ids_node] at hnd
  have hnd1 := List.nodup_cons.1 hnd
  have hba : b ≠ a := by
    intro e
    apply hnd1.1
    rw [← e]
    exact List.mem_append_right _ List.mem_cons_self
  have hadn : dn b ∈ N.legs a := hj.2.2.2
  have hjne := (joined_share h hj hj (Or.inl rfl)).1
  -- an old edge keeps `EdgeOK`
  have hold : ∀ i k, EdgeOK dim cj N up dn i k → k ≠ a → (i = a → dn k ≠ dn b) →
      EdgeOK dim cj (qrHalf dim N a ℓ (dn b) F) (linkUp N up a) (linkDn N dn a) i k := by
    intro i k ⟨hi, hk, ⟨p', hj'⟩, hd', hik⟩ hka hidn
    have hkℓ : k ≠ ℓ := fun e => hℓ (e ▸ hk)
    have hiℓ : i ≠ ℓ := fun e => hℓ (e ▸ hi)
    have e1 : linkUp N up a k = up k := by simp [linkUp, hka]
    have e2 : linkDn N dn a k = dn k := by simp [linkDn, hka]
    rw [EdgeOK, e1, e2, qrHalf_tens_other hkℓ hka, qrHalf_legs_other hkℓ hka]
    refine ⟨List.mem_cons_of_mem _ hi, List.mem_cons_of_mem _ hk, ⟨p', ?_, hj'.2.1, ?_, ?_⟩, hd', hik⟩
    · show p' ∈ N.bonds ++ [(N.next, N.next + 1)]
      exact List.mem_append_left _ hj'.1
    · rw [qrHalf_legs_other hkℓ hka]; exact hj'.2.2.1
    · by_cases hia : i = a
      · subst hia
        rw [qrHalf_legs_n hiℓ]
        exact List.mem_cons_of_mem _ (((h.legs_nodup i hi).mem_erase_iff).2 ⟨hidn rfl, hj'.2.2.2⟩)
      · rw [qrHalf_legs_other hiℓ hia]; exact hj'.2.2.2
  intro e he
  simp only [linkTree, edges_node, edgesL_cons, edgesL_nil, List.append_nil, List.mem_cons, List.mem_append,
    rid] at he
  rcases he with rfl | he | rfl | he
  · -- the new edge ℓ - a
    have e1 : linkUp N up a a = N.next := by simp [linkUp]
    have e2 : linkDn N dn a a = N.next + 1 := by simp [linkDn]
    show EdgeOK dim cj _ _ _ ℓ a
    rw [EdgeOK, e1, e2, qrHalf_tens_n haℓ, qrHalf_legs_n haℓ]
    refine ⟨List.mem_cons_self, List.mem_cons_of_mem _ ha, ⟨(N.next, N.next + 1), ?_, Or.inl rfl, ?_, ?_⟩, hdim,
      hiso⟩
    · show _ ∈ N.bonds ++ [(N.next, N.next + 1)]; simp
    · rw [qrHalf_legs_n haℓ]; exact List.mem_cons_self
    · rw [qrHalf_legs_l]; simp
  · -- an edge below a (without b)
    obtain ⟨i, k⟩ := e
    have hmem : (i, k) ∈ edges (RTree.node a (k1 ++ RTree.node b kb :: k2)) := by
      rw [edges_node, edgesL_append, edgesL_cons]
      rw [edgesL_append] at he
      rcases List.mem_append.1 he with he | he
      · exact List.mem_append_left _ he
      · exact List.mem_append_right _ (List.mem_cons_of_mem _ (List.mem_append_right _ he))
    have hk : k ∈ idsL (k1 ++ k2) := by
      have := (edges_mem.1 (RTree.node a (k1 ++ k2)) i k (by rw [edges_node]; exact he)).2
      simpa [kids] using this
    have hkb : k ≠ b := by
      intro e
      subst e
      rw [idsL_append] at hk
      have hnd2 := hnd1.2
      rw [List.nodup_append] at hnd2
      rcases List.mem_append.1 hk with hk | hk
      · exact hnd2.2.2 _ hk _ List.mem_cons_self rfl
      · have := (List.nodup_append.1 hnd2.2.1)
        have h3 := this.2.2 k List.mem_cons_self k hk
        exact h3 rfl
    have hka : k ≠ a := by
      intro e
      apply hnd1.1
      rw [← e, idsL_append] at *
      rcases List.mem_append.1 hk with hk | hk
      · exact List.mem_append_left _ hk
      · exact List.mem_append_right _ (List.mem_append_right _ hk)
    have hEk := hE _ hmem
    refine hold i k hEk hka ?_
    intro hia hdk
    obtain ⟨_, hkN, ⟨p', hj'⟩, _, _⟩ := hEk
    simp only at hj' hkN
    obtain ⟨_, hs⟩ := joined_share h hj hj' (Or.inr (Or.inr (Or.inr hdk.symm)))
    rcases hs with ⟨hs1, _⟩ | ⟨hs1, _⟩
    · exact hkb (h.owner k hkN b hb (up b) (by rw [hs1]; exact hj'.2.2.1) hj.2.2.1)
    · exact hjne (hs1.trans hdk)
  · -- the edge ℓ - b
    have e1 : linkUp N up a b = up b := by simp [linkUp, hba]
    have e2 : linkDn N dn a b = dn b := by simp [linkDn, hba]
    show EdgeOK dim cj _ _ _ ℓ b
    rw [EdgeOK, e1, e2, qrHalf_tens_other hbℓ hba, qrHalf_legs_other hbℓ hba]
    refine ⟨List.mem_cons_self, List.mem_cons_of_mem _ hb, ⟨p, ?_, hj.2.1, ?_, ?_⟩, hd, hib⟩
    · show p ∈ N.bonds ++ [(N.next, N.next + 1)]
      exact List.mem_append_left _ hj.1
    · rw [qrHalf_legs_other hbℓ hba]; exact hj.2.2.1
    · rw [qrHalf_legs_l]; simp
  · -- an edge below b
    obtain ⟨i, k⟩ := e
    have hmem : (i, k) ∈ edges (RTree.node a (k1 ++ RTree.node b kb :: k2)) := by
      rw [edges_node, edgesL_append, edgesL_cons]
      exact List.mem_append_right _ (List.mem_cons_of_mem _ (List.mem_append_left _
        (by rw [edges_node]; exact he)))
    have hik := edges_mem.1 (RTree.node b kb) i k (by rw [edges_node]; exact he)
    have hin : ∀ x, x ∈ ids (RTree.node b kb) → x ≠ a := by
      intro x hx e
      apply hnd1.1
      rw [← e]
      exact List.mem_append_right _ (List.mem_append_left _ (by rw [← ids_node]; exact hx))
    have hka : k ≠ a := hin k (by rw [ids_node]; exact List.mem_cons_of_mem _ (by simpa [kids] using hik.2))
    have hia : i ≠ a := hin i hik.1
    exact hold i k (hE _ hmem) hka (fun e => absurd e hia)

/-- **The network DURING a link update is canonical around the link tensor.**  Under the hypotheses of
`link_edgeOK` (and `ℓ` not a node of the tree): the intermediate network is well-formed, every edge of the tree
around `ℓ` satisfies `EdgeOK`, the doubled sub-trees of the two neighbours form a canonical `Kids`
(`Kids.Canon`), the norm network around `ℓ` is in canonical form with pairwise distinct labels, and the open and
bond legs of the centre are the two legs `[r, dn b]` of the link tensor. -/
theorem link_kids_canon (dim : Nat → Nat) (cj : R → R) {N : VNet R} (h : N.WF) {a b ℓ : Nat}
    {k1 k2 kb : List RTree} (hnd : (ids (RTree.node a (k1 ++ RTree.node b kb :: k2))).Nodup)
    (hsub : ∀ n ∈ ids (RTree.node a (k1 ++ RTree.node b kb :: k2)), n ∈ N.ids)
    (hℓ : ℓ ∉ N.ids) {up dn : Nat → Nat}
    (hE : ∀ e ∈ edges (RTree.node a (k1 ++ RTree.node b kb :: k2)), EdgeOK dim cj N up dn e.1 e.2)
    (F : QRFact dim (N.tens a) (N.legs a) (dn b) N.next (N.next + 1))
    (hiso : IsoToward dim cj F.Q (N.next :: (N.legs a).erase (dn b)) N.next)
    (hdim : dim (N.next + 1) = dim N.next) :
    let M := qrHalf dim N a ℓ (dn b) F
    let r' := linkTree ℓ a b k1 k2 kb
    M.WF ∧ (ids r').Nodup ∧ (ids r').Perm (ℓ :: ids (RTree.node a (k1 ++ RTree.node b kb :: k2))) ∧
    (∀ e ∈ edges r', EdgeOK dim cj M (linkUp N up a) (linkDn N dn a) e.1 e.2) ∧
    (kidsOf cj M (linkUp N up a) (linkDn N dn a) r'.kids).Canon (ddim dim) ∧
    (centreOf cj M (linkUp N up a) (linkDn N dn a) r').Canon (ddim dim) ∧
    (centreOf cj M (linkUp N up a) (linkDn N dn a) r').labels.Nodup ∧
    ((centreOf cj M (linkUp N up a) (linkDn N dn a) r').phys ++
      (kidsOf cj M (linkUp N up a) (linkDn N dn a) r'.kids).pairs).Perm ([N.next + 1, dn b].map dbl) := by
  intro M r'
  have ha : a ∈ N.ids := hsub a (by rw [ids_node]; exact List.mem_cons_self)
  have hab : (a, b) ∈ edges (RTree.node a (k1 ++ RTree.node b kb :: k2)) := by
    rw [edges_node, edgesL_append, edgesL_cons]
    exact List.mem_append_right _ List.mem_cons_self
  have hadn : dn b ∈ N.legs a := (hE _ hab).2.2.1.choose_spec.2.2.2
  have hMwf : M.WF := qrHalf_wf h ha hℓ hadn
  have hperm : (ids r').Perm (ℓ :: ids (RTree.node a (k1 ++ RTree.node b kb :: k2))) := by
    simp only [r', linkTree, ids_node, idsL_cons, idsL_append, idsL_nil, List.append_nil]
    refine List.Perm.cons _ ?_
    simp only [List.cons_append]
    refine List.Perm.cons _ ?_
    rw [List.append_assoc]
    refine List.Perm.append_left _ ?_
    have : b :: (idsL kb ++ idsL k2) = (b :: idsL kb) ++ idsL k2 := rfl
    rw [this]
    exact List.perm_append_comm
  have hℓt : ℓ ∉ ids (RTree.node a (k1 ++ RTree.node b kb :: k2)) := fun hm => hℓ (hsub ℓ hm)
  have hnd' : (ids r').Nodup := hperm.nodup_iff.2 (List.nodup_cons.2 ⟨hℓt, hnd⟩)
  have hsub' : ∀ n ∈ ids r', n ∈ M.ids := by
    intro n hn
    rcases List.mem_cons.1 (hperm.subset hn) with e | e
    · rw [e]; exact List.mem_cons_self
    · exact List.mem_cons_of_mem _ (hsub n e)
  have hE' := link_edgeOK dim cj h hnd hℓ hE F hiso hdim
  obtain ⟨hC, hL, hP⟩ := centre_canon_of_tree (cj := cj) (dim := dim) (up := linkUp N up a)
    (dn := linkDn N dn a) hMwf r' hnd' hsub' hE'
  refine ⟨hMwf, hnd', hperm, hE', hC.2.2, hC, hL, ?_⟩
  have : M.legs r'.rid = [N.next + 1, dn b] := qrHalf_legs_l
  rw [← this]
  exact hP

end Ptn.C06.Gauge
