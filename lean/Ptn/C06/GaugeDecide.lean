import Ptn.C06.GaugeLemmas
/-! The executable checks of the gauge machine (`canonAtB`, `canonLinkB`, `canonPairB`, `goodB`, `allGoodB` - used by the
driver answer `good` and by the non-vacuity examples) decide the propositions the theorems are about.  Core Lean only. -/
namespace Ptn.C06.Gauge
open Ptn.C17 Ptn.C17.RTree Ptn.C05.Disc Ptn.C03

theorem hopB_iff (o r : Option Nat) : (o.isSome && r == o) = true ↔ ∃ h, o = some h ∧ r = some h := by
  constructor
  · intro h
    simp only [Bool.and_eq_true, beq_iff_eq] at h
    obtain ⟨v, hv⟩ := Option.isSome_iff_exists.mp h.1
    exact ⟨v, hv, by rw [h.2, hv]⟩
  · rintro ⟨v, hv, hr⟩
    simp [hv, hr]

/-- the executable check used by the driver and the examples decides `CanonAt` -/
theorem canonAtB_iff (t : RTree) (dir : Rec) (c : Nat) : canonAtB t dir c = true ↔ CanonAt t dir c := by
  simp only [canonAtB, CanonAt, Bool.and_eq_true, List.all_eq_true, Bool.or_eq_true, beq_iff_eq,
    Option.isNone_iff_eq_none]
  constructor
  · rintro ⟨h0, h⟩
    refine ⟨h0, ?_⟩
    intro x hx hxc
    rcases h x hx with e | ⟨h1, h2⟩
    · exact absurd e hxc
    · exact (hopB_iff _ _).mp (by simp [h1, h2])
  · rintro ⟨h0, h⟩
    refine ⟨h0, ?_⟩
    intro x hx
    by_cases hxc : x = c
    · exact Or.inl hxc
    · have := (hopB_iff _ _).mpr (h x hx hxc)
      simp only [Bool.and_eq_true, beq_iff_eq] at this
      exact Or.inr this

theorem canonLinkB_iff (t : RTree) (dir : Rec) (a b : Nat) :
    canonLinkB t dir a b = true ↔ CanonLink t dir a b := by
  simp only [canonLinkB, CanonLink, Bool.and_eq_true, List.all_eq_true, Bool.or_eq_true, beq_iff_eq]
  constructor
  · intro h x hx
    obtain ⟨h1, h2⟩ := h x hx
    constructor
    · intro hxb
      rcases h1 with e | ⟨p1, p2⟩
      · exact absurd e hxb
      · exact (hopB_iff _ _).mp (by simp [p1, p2])
    · intro hxa
      rcases h2 with e | ⟨p1, p2⟩
      · exact absurd e hxa
      · exact (hopB_iff _ _).mp (by simp [p1, p2])
  · intro h x hx
    obtain ⟨h1, h2⟩ := h x hx
    constructor
    · by_cases hxb : x = b
      · exact Or.inl hxb
      · have := (hopB_iff _ _).mpr (h1 hxb)
        simp only [Bool.and_eq_true, beq_iff_eq] at this
        exact Or.inr this
    · by_cases hxa : x = a
      · exact Or.inl hxa
      · have := (hopB_iff _ _).mpr (h2 hxa)
        simp only [Bool.and_eq_true, beq_iff_eq] at this
        exact Or.inr this

theorem canonPairB_iff (t : RTree) (dir : Rec) (a b : Nat) :
    canonPairB t dir a b = true ↔ CanonPair t dir a b := by
  simp only [canonPairB, CanonPair, Bool.and_eq_true, List.all_eq_true, Bool.or_eq_true, beq_iff_eq,
    Option.isNone_iff_eq_none]
  constructor
  · rintro ⟨⟨ha, hb⟩, h⟩
    refine ⟨ha, hb, ?_⟩
    intro x hx hxa hxb
    rcases h x hx with (e | e) | ⟨⟨h1, h2⟩, h3⟩
    · exact absurd e hxa
    · exact absurd e hxb
    · obtain ⟨v, hv⟩ := Option.isSome_iff_exists.mp h1
      exact ⟨v, hv, by rw [← h3, h2, hv], by rw [h2, hv]⟩
  · rintro ⟨ha, hb, h⟩
    refine ⟨⟨ha, hb⟩, ?_⟩
    intro x hx
    by_cases hxa : x = a
    · exact Or.inl (Or.inl hxa)
    · by_cases hxb : x = b
      · exact Or.inl (Or.inr hxb)
      · obtain ⟨v, h1, h2, h3⟩ := h x hx hxa hxb
        exact Or.inr ⟨⟨by simp [h1], by rw [h3, h1]⟩, by rw [h3, h2]⟩

theorem goodB_iff (t : RTree) (st : GSt) (e : DEv) : goodB t st e = true ↔ Good t st e := by
  cases e <;>
    simp only [goodB, Good, Bool.and_eq_true, canonAtB_iff, canonLinkB_iff, canonPairB_iff, and_assoc,
      and_true]

/-- the executable check of a whole list of events decides `GoodRun` -/
theorem allGoodB_iff (t : RTree) : ∀ (evs : List DEv) (st : GSt), allGoodB t st evs = true ↔ GoodRun t st evs
  | [], _ => by simp [allGoodB, GoodRun]
  | e :: rest, st => by
    simp only [allGoodB, GoodRun, Bool.and_eq_true, goodB_iff, allGoodB_iff t rest]

end Ptn.C06.Gauge
