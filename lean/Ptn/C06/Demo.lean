import Ptn.C06.Value
/-! A concrete doubled tree in canonical form (non-vacuity of the hypotheses of the value-level theorems):
centre — B — A and centre — A2, over ℂ, with permutation-like isometries; bond dimension 4 between the
centre and B (B reshapes its open leg and its bond to A into its bond toward the centre). Ket labels 0..8,
the bra copy has the labels `l + 10`. -/
namespace Ptn.C06.Demo

open Ptn.Ein

def dim (l : Nat) : Nat := if l % 10 = 4 ∨ l % 10 = 5 then 4 else 2
def pr (l : Nat) : Nat := l + 10

/-- `δ(u, p)`: a leaf node whose open leg is copied to its bond -/
def tA (u p : Nat) : Asg Nat → ℂ := fun σ => if σ u = σ p then 1 else 0
/-- the reshaping isometry `(open leg 6, bond 8 to A) → bond 4` -/
def tB : Asg Nat → ℂ := fun σ => if σ 4 = 2 * σ 6 + σ 8 then 1 else 0

def subA : Sub Nat ℂ := .node (tA 0 1) (cjr pr (tA 0 1)) 0 10 [(1, 11)] .nil
def subA2 : Sub Nat ℂ := .node (tA 2 3) (cjr pr (tA 2 3)) 2 12 [(3, 13)] .nil
def subB : Sub Nat ℂ := .node tB (cjr pr tB) 4 14 [(6, 16)] (.cons 8 18 subA .nil)
/-- the sub-trees around the centre: `B` (with `A` below it) on the centre's legs `(5, 15)`, `A2` on `(7, 17)` -/
def kids : Kids Nat ℂ := .cons 5 15 subB (.cons 7 17 subA2 .nil)

theorem pr_inj : Function.Injective pr := fun a b h => by simp only [pr] at h; omega
theorem dim_pr (l : Nat) : dim (pr l) = dim l := by
  have : (l + 10) % 10 = l % 10 := by omega
  simp only [dim, pr, this]

theorem kids_nodup : kids.labels.Nodup := by
  simp [kids, subB, subA, subA2, Sub.labels, Kids.labels, Expr.pairLegs]

theorem kids_isConj : kids.IsConj pr := by
  simp [kids, subB, subA, subA2, Kids.IsConj, Sub.IsConj, pr]

theorem subA_canon : subA.Canon dim := by
  refine ⟨?_, ?_, by decide, ?_, trivial⟩
  · intro σ τ h
    have h0 := h 0 (by simp [Kids.kd]); have h1 := h 1 (by simp [Kids.kd])
    simp only [tA, h0, h1]
  · intro σ τ h
    have h0 := h 10 (by simp [Kids.bd]); have h1 := h 11 (by simp [Kids.bd])
    show star (if σ 10 = σ 11 then (1 : ℂ) else 0) = star (if τ 10 = τ 11 then (1 : ℂ) else 0)
    rw [h0, h1]
  · intro τ h0 h1
    have e0 : dim 0 = 2 := by decide
    have e1 : dim 10 = 2 := by decide
    rw [e0] at h0; rw [e1] at h1
    simp only [Kids.pairs, List.append_nil, sumPairs, sumR, cjr, tA, pr, upd]
    have : dim 1 = 2 := by decide
    rw [this]
    have c0 : τ 0 = 0 ∨ τ 0 = 1 := by omega
    have c1 : τ 10 = 0 ∨ τ 10 = 1 := by omega
    rcases c0 with c0 | c0 <;> rcases c1 with c1 | c1 <;> simp [List.range_succ, c0, c1]

theorem subA2_canon : subA2.Canon dim := by
  refine ⟨?_, ?_, by decide, ?_, trivial⟩
  · intro σ τ h
    have h0 := h 2 (by simp [Kids.kd]); have h1 := h 3 (by simp [Kids.kd])
    simp only [tA, h0, h1]
  · intro σ τ h
    have h0 := h 12 (by simp [Kids.bd]); have h1 := h 13 (by simp [Kids.bd])
    show star (if σ 12 = σ 13 then (1 : ℂ) else 0) = star (if τ 12 = τ 13 then (1 : ℂ) else 0)
    rw [h0, h1]
  · intro τ h0 h1
    have e0 : dim 2 = 2 := by decide
    have e1 : dim 12 = 2 := by decide
    rw [e0] at h0; rw [e1] at h1
    simp only [Kids.pairs, List.append_nil, sumPairs, sumR, cjr, tA, pr, upd]
    have : dim 3 = 2 := by decide
    rw [this]
    have c0 : τ 2 = 0 ∨ τ 2 = 1 := by omega
    have c1 : τ 12 = 0 ∨ τ 12 = 1 := by omega
    rcases c0 with c0 | c0 <;> rcases c1 with c1 | c1 <;> simp [List.range_succ, c0, c1]

theorem subB_canon : subB.Canon dim := by
  refine ⟨?_, ?_, by decide, ?_, by decide, by decide, subA_canon, trivial⟩
  · intro σ τ h
    have h0 := h 4 (by simp [Kids.kd]); have h1 := h 6 (by simp [Kids.kd]); have h2 := h 8 (by simp [Kids.kd])
    simp only [tB, h0, h1, h2]
  · intro σ τ h
    have h0 := h 14 (by simp [Kids.bd]); have h1 := h 16 (by simp [Kids.bd]); have h2 := h 18 (by simp [Kids.bd])
    show star (if σ 14 = 2 * σ 16 + σ 18 then (1 : ℂ) else 0) = star (if τ 14 = 2 * τ 16 + τ 18 then (1 : ℂ) else 0)
    rw [h0, h1, h2]
  · intro τ h0 h1
    have e0 : dim 4 = 4 := by decide
    have e1 : dim 14 = 4 := by decide
    rw [e0] at h0; rw [e1] at h1
    simp only [Kids.pairs, List.cons_append, List.nil_append, sumPairs, sumR, cjr, tB, pr, upd]
    have d6 : dim 6 = 2 := by decide
    have d8 : dim 8 = 2 := by decide
    rw [d6, d8]
    have c0 : τ 4 = 0 ∨ τ 4 = 1 ∨ τ 4 = 2 ∨ τ 4 = 3 := by omega
    have c1 : τ 14 = 0 ∨ τ 14 = 1 ∨ τ 14 = 2 ∨ τ 14 = 3 := by omega
    rcases c0 with c0 | c0 | c0 | c0 <;> rcases c1 with c1 | c1 | c1 | c1 <;> simp [List.range_succ, c0, c1]

theorem kids_canon : kids.Canon dim :=
  ⟨by decide, by decide, subB_canon, by decide, by decide, subA2_canon, trivial⟩

/-- a centre tensor on the legs `5` (to B), `7` (to A2) and the open leg `9` -/
def tC : Asg Nat → ℂ := fun σ => (σ 5 : ℂ) + 2 * σ 7 + 3 * σ 9 + 1

def centre : Centre Nat ℂ := ⟨tC, cjr pr tC, [(9, 19)], kids⟩

theorem centre_nodup : centre.labels.Nodup := by
  simp [centre, Centre.labels, kids, subB, subA, subA2, Sub.labels, Kids.labels, Expr.pairLegs]

theorem centre_canon : centre.Canon dim := by
  refine ⟨?_, ?_, kids_canon⟩
  · intro σ τ h
    have h0 := h 5 (by simp [centre, kids, Kids.kd]); have h1 := h 7 (by simp [centre, kids, Kids.kd])
    have h2 := h 9 (by simp [centre])
    simp only [centre, tC, h0, h1, h2]
  · intro σ τ h
    have h0 := h 15 (by simp [centre, kids, Kids.bd]); have h1 := h 17 (by simp [centre, kids, Kids.bd])
    have h2 := h 19 (by simp [centre])
    show star ((σ 15 : ℂ) + 2 * σ 17 + 3 * σ 19 + 1) = star ((τ 15 : ℂ) + 2 * τ 17 + 3 * τ 19 + 1)
    rw [h0, h1, h2]

end Ptn.C06.Demo
