/-! Model for property C18: the evolution driver (`TimeEvolution` in
`pytreenet/time_evolution/time_evolution.py`).  Core Lean only.

* `numSteps`      ↔ `_compute_num_time_steps` (with "0.1" read as the double nearest 0.1)
* `numCols`       ↔ `init_results`
* `shouldEval`    ↔ `should_evaluate`
* `resultIndex`   ↔ `result_index`
* `run`           ↔ `run` (loop over `range(num_time_steps+1)`, step unless `i = 0`,
                    then `evaluate_and_save_results`)
* `operatorIndex` ↔ `_init_operator_index_dict` / `operator_result`
-/
namespace Ptn.C18

/-- The IEEE double nearest to 0.1, as an exact rational. -/
def c01 : Rat := 3602879701896397 / 36028797018963968

/-- `_compute_num_time_steps` on the exact value `q` of the double `final_time / time_step_size`
    (`q > 0` is enforced by `positivity_check`).  `modf` splits `q` exactly. -/
def numSteps (q : Rat) : Int :=
  if q - (q.floor : Rat) < c01 then q.floor else q.floor + 1

/-- Evaluation interval: `some k` for an integer `k`, `none` for `"inf"`. -/
abbrev EvalTime := Option Nat

def numCols (n : Nat) : EvalTime → Nat
  | some k => n / k + 1
  | none => 1

def shouldEval (n : Nat) (ev : EvalTime) (i : Nat) : Bool :=
  match ev with
  | some k => i % k == 0
  | none => i == n

def resultIndex (ev : EvalTime) (i : Nat) : Nat :=
  match ev with
  | some k => i / k
  | none => 0

/-- One write into the results table: column index, time-step number, observed value. -/
structure Write (β : Type) where
  col : Nat
  stepNo : Nat
  val : β
deriving Repr, DecidableEq

/-- Loop body for loop index `i`: step unless `i = 0`, then evaluate-and-save. -/
def body {σ β : Type} (step : σ → σ) (obs : σ → β) (n : Nat) (ev : EvalTime)
    (acc : σ × List (Write β)) (i : Nat) : σ × List (Write β) :=
  let s := if i = 0 then acc.1 else step acc.1
  let ws := if shouldEval n ev i then acc.2 ++ [⟨resultIndex ev i, i, obs s⟩] else acc.2
  (s, ws)

/-- `run`: the final state and the chronological list of table writes. -/
def run {σ β : Type} (step : σ → σ) (obs : σ → β) (n : Nat) (ev : EvalTime) (s0 : σ) :
    σ × List (Write β) :=
  (List.range (n + 1)).foldl (body step obs n ev) (s0, [])

/-- The table: column `j` holds the last write to `j` (or `none` if never written: the zero
    initialisation of `init_results`). -/
def table {β : Type} (ncols : Nat) (ws : List (Write β)) : List (Option (Write β)) :=
  (List.range ncols).map fun j => (ws.reverse.find? (fun w => w.col == j))

/-- How operators are addressed afterwards. -/
inductive OpSpec where
  | single
  | list (len : Nat)
  | dict (keys : List String)

def OpSpec.count : OpSpec → Nat
  | .single => 1
  | .list n => n
  | .dict ks => ks.length

/-- `_init_operator_index_dict`: only a dict yields key → position; Python dict keys are unique,
    a later duplicate cannot occur. -/
def operatorIndex (spec : OpSpec) (key : String) : Option Nat :=
  match spec with
  | .dict ks => let i := ks.idxOf key; if i < ks.length then some i else none
  | _ => none

/-- The refined machine of the concrete classes: the state seen by the user plus data derived from
    it (gauge centre, environment cache).  `reset` restores the user state and re-derives. -/
structure Refined (υ δ : Type) where
  derive : υ → δ
  step : υ × δ → υ × δ

def Refined.init {υ δ : Type} (m : Refined υ δ) (u0 : υ) : υ × δ := (u0, m.derive u0)
def Refined.reset {υ δ : Type} (m : Refined υ δ) (u0 : υ) (_cur : υ × δ) : υ × δ := m.init u0

end Ptn.C18
