/-! Model for property C18 (core Lean only; no Mathlib). -/
namespace Ptn.C18
end Ptn.C18
