import Ptn.C18.MachineLemmas
/-! The invariant of the driver machine and its preservation, event by event (core Lean only).
The property theorems built from these lemmas are in `History.lean`. -/
namespace Ptn.C18

variable {σ β γ : Type}

/-- "Record arrays of the right length": without results the bond-dimension record is absent or
    empty; with results the table has one row per operator plus the time row, exactly `ncols`
    columns, every column written (none still at the zeros of `init_results`), and the
    bond-dimension record (if kept) has exactly one entry per column. -/
def RecordShape (s : Drv σ β γ) : Prop :=
  match s.results with
  | none => s.bond = none ∨ s.bond = some []
  | some r =>
    r.nrows = s.ops.count + 1 ∧ r.cols.length = r.ncols ∧ (∀ c ∈ r.cols, c ≠ none) ∧
      (∀ b, s.bond = some b → b.length = r.ncols)

/-- Every derived datum equals what a fresh construction with the CURRENT user parameters would
    compute. -/
structure DerivedConsistent (P : Params σ β γ) (s : Drv σ β γ) : Prop where
  /-- the stored propagator / Trotter exponents were computed for the current step size -/
  prop_current : s.prop = s.dt
  /-- the key table is the one `_init_operator_index_dict` builds from the operators -/
  index_table : ∀ key, s.opIdx.lookup key = operatorIndex s.ops key
  /-- whenever a fresh construction with the current `(final_time, time_step_size)` exists (both
      positive), it computes the stored number of steps -/
  num_steps : 0 < s.dt → 0 < s.T → (s.n : Int) = numSteps (P.rnd (s.T / s.dt))
  record : RecordShape s

/-- The part of the invariant that does not depend on arithmetic. -/
structure Structural (s : Drv σ β γ) : Prop where
  prop_current : s.prop = s.dt
  index_table : ∀ key, s.opIdx.lookup key = operatorIndex s.ops key
  record : RecordShape s

/-- A call that returns normally and whose float arithmetic honours the contract
    "the step count recomputed from the new `(final_time, time_step_size)` is the requested one".
    For exact arithmetic the contract is a theorem (`admissible_exact`); for IEEE doubles the harness
    validates it on every live setter call. -/
def Admissible (P : Params σ β γ) (s : Drv σ β γ) : Event → Prop
  | .run ev => ev ≠ some 0
  | .reset => True
  | .step => True
  | .setN m => 0 ≤ m ∧
      (0 < s.dt → 0 < P.rnd ((m : Rat) * s.dt) →
        numSteps (P.rnd (P.rnd ((m : Rat) * s.dt) / s.dt)) = m)
  | .setC m => 0 < m ∧
      (0 < s.T → 0 < P.rnd (s.T / (m : Rat)) →
        numSteps (P.rnd (s.T / P.rnd (s.T / (m : Rat)))) = m)

/-- Admissibility along a history (each call judged in the state the earlier calls produced). -/
def AdmHist (P : Params σ β γ) : Drv σ β γ → List Event → Prop
  | _, [] => True
  | s, e :: es => Admissible P s e ∧ AdmHist P (apply P e s).1 es

/-- The calls that return normally (no contract on the arithmetic). -/
def Returns : Event → Prop
  | .run ev => ev ≠ some 0
  | .reset => True
  | .step => True
  | .setN m => 0 ≤ m
  | .setC m => 0 < m

theorem RecordShape.congr {s s' : Drv σ β γ} (h : RecordShape s) (h1 : s'.results = s.results)
    (h2 : s'.bond = s.bond) (h3 : s'.ops = s.ops) : RecordShape s' := by
  unfold RecordShape at *
  rw [h1, h2, h3]
  exact h

theorem recordShape_runEvent (P : Params σ β γ) (ev : EvalTime) (hev : ev ≠ some 0)
    (s : Drv σ β γ) : RecordShape (runEvent P ev s) := by
  cases ev with
  | none =>
    rw [runEvent_inf]
    simp only [RecordShape]
    refine ⟨trivial, by simp, by simp, ?_⟩
    intro b hb
    cases hs : s.bond with
    | none => simp [hs] at hb
    | some b0 => simp [hs] at hb; subst hb; simp
  | some k =>
    have hk : 0 < k := by
      rcases Nat.eq_zero_or_pos k with h | h
      · exact absurd (by rw [h]) hev
      · exact h
    rw [runEvent_some P k hk]
    simp only [RecordShape]
    refine ⟨trivial, by simp, ?_, ?_⟩
    · intro c hc
      simp only [List.mem_map] at hc
      obtain ⟨j, _, rfl⟩ := hc
      simp
    · intro b hb
      cases hs : s.bond with
      | none => simp [hs] at hb
      | some b0 => simp [hs] at hb; subst hb; simp

/-- The structural part is preserved by EVERY call, raising or not. -/
theorem structural_apply (P : Params σ β γ) (e : Event) (s : Drv σ β γ) (h : Structural s) :
    Structural (apply P e s).1 := by
  cases e with
  | run ev =>
    cases ev with
    | none =>
      exact ⟨by simp [apply, runEvent, h.prop_current], by simpa [apply, runEvent] using h.index_table,
        by simpa [apply] using recordShape_runEvent P none (by simp) s⟩
    | some k =>
      cases k with
      | zero => simpa [apply] using h
      | succ k =>
        exact ⟨by simp [apply, runEvent, h.prop_current],
          by simpa [apply, runEvent] using h.index_table,
          by simpa [apply] using recordShape_runEvent P (some (k + 1)) (by simp) s⟩
  | reset =>
    exact ⟨h.prop_current, h.index_table, h.record.congr rfl rfl rfl⟩
  | step =>
    exact ⟨h.prop_current, h.index_table, h.record.congr rfl rfl rfl⟩
  | setN m =>
    simp only [apply]
    split
    · exact h
    · exact ⟨h.prop_current, h.index_table, h.record.congr rfl rfl rfl⟩
  | setC m =>
    simp only [apply]
    split
    · exact h
    · split
      · exact ⟨h.prop_current, h.index_table, h.record.congr rfl rfl rfl⟩
      · exact ⟨rfl, h.index_table, h.record.congr rfl rfl rfl⟩

theorem structural_exec (P : Params σ β γ) (es : List Event) (s : Drv σ β γ) (h : Structural s) :
    Structural (exec P es s) := by
  induction es generalizing s with
  | nil => exact h
  | cons e es ih =>
    simp only [exec, List.foldl_cons]
    exact ih _ (structural_apply P e s h)

theorem structural_construct (P : Params σ β γ) (s0 : σ) (dt T : Rat) (ops : OpSpec) (rb : Bool)
    (s : Drv σ β γ) (h : construct P s0 dt T ops rb = some s) : Structural s := by
  unfold construct at h
  split at h
  · cases h
  · split at h
    · cases h
    · cases h
      refine ⟨rfl, fun key => lookup_indexTable ops key, ?_⟩
      simp only [RecordShape]
      cases rb <;> simp

/-- Fields a fresh construction sets (used by the construction case of the invariant). -/
theorem construct_fields (P : Params σ β γ) (s0 : σ) (dt T : Rat) (ops : OpSpec) (rb : Bool)
    (s : Drv σ β γ) (h : construct P s0 dt T ops rb = some s) :
    0 < dt ∧ 0 < T ∧ s.init = s0 ∧ s.cur = s0 ∧ s.dt = dt ∧ s.T = T ∧
      s.n = (numSteps (P.rnd (T / dt))).toNat ∧ s.prop = dt ∧ s.results = none ∧
      s.bond = (if rb then some [] else none) := by
  unfold construct at h
  split at h
  · cases h
  · split at h
    · cases h
    · cases h
      refine ⟨?_, ?_, rfl, rfl, rfl, rfl, rfl, rfl, rfl, rfl⟩
      · exact Rat.not_le.mp ‹_›
      · exact Rat.not_le.mp ‹_›

/-- The counting instance used in the examples: exact arithmetic, the state counts the steps and
    remembers the tag of the last propagator used. -/
def exactCounting : Params (Nat × Rat) Nat Nat where
  rnd := id
  stepWith := fun tag s => (s.1 + 1, tag)
  obs := fun s => s.1
  bd := fun s => s.1

/-- The same counting instance with IEEE-754 double arithmetic (what the driver protocol runs). -/
def ieeeCounting : Params (Nat × Rat) Nat Nat where
  rnd := fl
  stepWith := fun tag s => (s.1 + 1, tag)
  obs := fun s => s.1
  bd := fun s => s.1

end Ptn.C18
