import Ptn.C18.Model
/-! Line-protocol handler for the C18 model (core Lean only). -/
namespace Ptn.C18
def handle (args : List String) : String := "bad-op"
end Ptn.C18
