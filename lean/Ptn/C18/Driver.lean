import Ptn.C18.Model
/-! Line-protocol handler for the C18 model (core Lean only).

  numsteps <num> <den>      → numSteps (num/den)
  sched <n> <k|inf>         → `<ncols>;<col>:<step>,<col>:<step>,…` (chronological writes)
  opidx <key> <k1> … <km>   → row of `key` in a dict with keys k1…km, or `none`
-/
namespace Ptn.C18

def handle (args : List String) : String :=
  match args with
  | ["numsteps", a, b] =>
    match a.toInt?, b.toNat? with
    | some num, some den => if den = 0 then "bad-op" else toString (numSteps (mkRat num den))
    | _, _ => "bad-op"
  | ["sched", a, b] =>
    match a.toNat? with
    | none => "bad-op"
    | some n =>
      let ev? : Option EvalTime :=
        if b = "inf" then some none else
          match b.toNat? with
          | some k => if k = 0 then none else some (some k)   -- k = 0 raises ZeroDivisionError
          | none => none
      match ev? with
      | none => "bad-op"
      | some ev =>
        let r := run (fun s : Nat => s + 1) (fun s => s) n ev 0
        let ws := r.2.map fun w => s!"{w.col}:{w.stepNo}:{w.val}"
        s!"{numCols n ev};{r.1};" ++ ",".intercalate ws
  | "opidx" :: key :: ks =>
    match operatorIndex (.dict ks) key with
    | some i => toString i
    | none => "none"
  | _ => "bad-op"

end Ptn.C18
