import Ptn.C18.Model
import Ptn.C18.Machine
/-! Line-protocol handler for the C18 model (core Lean only).

  numsteps <num> <den>      → numSteps (num/den)
  sched <n> <k|inf>         → `<ncols>;<col>:<step>,<col>:<step>,…` (chronological writes)
  opidx <key> <k1> … <km>   → row of `key` in a dict with keys k1…km, or `none`
  hist <dtnum> <dtden> <Tnum> <Tden> <recordbond 0|1> <nops> <event> …
                            → the object machine of `Machine.lean` with IEEE double arithmetic (`fl`);
                              events `run:<k|inf>`, `reset`, `setn:<m>`, `setc:<m>`, `step`; answer: one
                              summary for the construction and one after every event, joined by `;`:
                              `<ok|Exception>|n|dt|T|tag|steps|results|bond` where `steps` is the
                              run-length encoded list of propagator tags used since construction / the last
                              reset (oldest first, `num/den*count`), `results` is `none` or
                              `<rows>x<cols>:<time>@<steps at evaluation>,…` (`z` = column still zero),
                              `bond` is `none` or the recorded entries `[v,…]`
-/
namespace Ptn.C18

def ratStr (q : Rat) : String := s!"{q.num}/{q.den}"

/-- The state of the driver instance: run-length encoded tags of the propagators used, newest first. -/
abbrev Rle := List (Rat × Nat)

def rleStep (tag : Rat) : Rle → Rle
  | (t, c) :: rest => if t = tag then (t, c + 1) :: rest else (tag, 1) :: (t, c) :: rest
  | [] => [(tag, 1)]

def rleCount (s : Rle) : Nat := s.foldl (fun a p => a + p.2) 0

def histParams : Params Rle Nat Nat where
  rnd := fl
  stepWith := rleStep
  obs := rleCount
  bd := rleCount

def parseEvent (tok : String) : Option Event :=
  match tok.splitOn ":" with
  | ["reset"] => some .reset
  | ["step"] => some .step
  | ["run", "inf"] => some (.run none)
  | ["run", k] => k.toNat?.map fun k => .run (some k)
  | ["setn", m] => m.toInt?.map .setN
  | ["setc", m] => m.toInt?.map .setC
  | _ => none

def summary (exc : Option String) (s : Drv Rle Nat Nat) : String :=
  let steps := ",".intercalate (s.cur.reverse.map fun p => s!"{ratStr p.1}*{p.2}")
  let res := match s.results with
    | none => "none"
    | some r => s!"{r.nrows}x{r.ncols}:" ++ ",".intercalate (r.cols.map fun (c : Option (Column Nat)) =>
        match c with
        | some c => s!"{ratStr c.time}@{c.vals}"
        | none => "z")
  let bond := match s.bond with
    | none => "none"
    | some b => "[" ++ ",".intercalate (b.map toString) ++ "]"
  s!"{exc.getD "ok"}|{s.n}|{ratStr s.dt}|{ratStr s.T}|{ratStr s.prop}|{steps}|{res}|{bond}"

def histRun (s : Drv Rle Nat Nat) : List Event → List String → List String
  | [], acc => acc.reverse
  | e :: es, acc =>
    let r := apply histParams e s
    histRun r.1 es (summary r.2 r.1 :: acc)

def handleHist (args : List String) : String :=
  match args with
  | a :: b :: c :: d :: rb :: nops :: evs =>
    match a.toInt?, b.toNat?, c.toInt?, d.toNat?, nops.toNat?, evs.mapM parseEvent with
    | some dn, some dd, some tn, some td, some nops, some es =>
      if dd = 0 ∨ td = 0 ∨ (rb ≠ "0" ∧ rb ≠ "1") then "bad-op" else
        match construct histParams [] (mkRat dn dd) (mkRat tn td) (.list nops) (rb == "1") with
        | none => "ValueError"
        | some s => ";".intercalate (histRun s es [summary none s])
    | _, _, _, _, _, _ => "bad-op"
  | _ => "bad-op"

def handle (args : List String) : String :=
  match args with
  | ["numsteps", a, b] =>
    match a.toInt?, b.toNat? with
    | some num, some den => if den = 0 then "bad-op" else toString (numSteps (mkRat num den))
    | _, _ => "bad-op"
  | ["sched", a, b] =>
    match a.toNat? with
    | none => "bad-op"
    | some n =>
      let ev? : Option EvalTime :=
        if b = "inf" then some none else
          match b.toNat? with
          | some k => if k = 0 then none else some (some k)   -- k = 0 raises ZeroDivisionError
          | none => none
      match ev? with
      | none => "bad-op"
      | some ev =>
        let r := run (fun s : Nat => s + 1) (fun s => s) n ev 0
        let ws := r.2.map fun w => s!"{w.col}:{w.stepNo}:{w.val}"
        s!"{numCols n ev};{r.1};" ++ ",".intercalate ws
  | "opidx" :: key :: ks =>
    match operatorIndex (.dict ks) key with
    | some i => toString i
    | none => "none"
  | "hist" :: rest => handleHist rest
  | _ => "bad-op"

end Ptn.C18
