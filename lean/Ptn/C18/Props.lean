import Ptn.C18.Core
import Ptn.C18.History
import Ptn.Common.AnalysisExp
/-! Property theorems for C18, part 2 (Mathlib); the schedule theorems are in `Core.lean`, the
theorems on histories of the driver object (setters, reset, reruns) and on `times()` in `History.lean`. -/
namespace Ptn.C18

open Matrix NormedSpace in
/-- The exact reference evolution multiplies by `U = exp(-i dt H)` once per step (`run_state`:
    exactly `n` steps), so after `j` steps the state is `exp(-i (j dt) H) psi`. -/
theorem exact_evolution {n : Type} [Fintype n] [DecidableEq n] (H : Matrix n n ℂ) (dt : ℂ) (j : ℕ) :
    exp ((-Complex.I * dt) • H) ^ j = exp ((((j : ℂ)) * (-Complex.I * dt)) • H) :=
  Ptn.Analysis.exp_smul_pow H (-Complex.I * dt) j

end Ptn.C18
