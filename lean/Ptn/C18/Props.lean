import Ptn.C18.Model
/-! Property theorems for C18. Only property theorems and non-vacuity examples live here. -/
namespace Ptn.C18
end Ptn.C18
