import Ptn.C18.Machine
import Ptn.C18.Core
/-! Helper lemmas for the driver machine (core Lean only). -/
namespace Ptn.C18

/-! ### The operator index table -/

theorem lookup_enumFrom (ks : List String) (i : Nat) (key : String) :
    (enumFrom i ks).lookup key =
      if ks.idxOf key < ks.length then some (i + ks.idxOf key) else none := by
  induction ks generalizing i with
  | nil => simp [enumFrom]
  | cons k ks ih =>
    by_cases h : k = key
    · subst h; simp [enumFrom]
    · have h1 : (key == k) = false := by
        simp only [beq_eq_false_iff_ne, ne_eq]; exact fun e => h e.symm
      have h2 : (k == key) = false := by
        simp only [beq_eq_false_iff_ne, ne_eq]; exact h
      simp only [enumFrom, List.lookup_cons, h1, List.idxOf_cons, h2, cond_false, List.length_cons,
        Nat.add_lt_add_iff_right, ih]
      split
      · simp; omega
      · rfl

theorem lookup_indexTable (ops : OpSpec) (key : String) :
    (indexTable ops).lookup key = operatorIndex ops key := by
  cases ops with
  | single => simp [indexTable, operatorIndex]
  | list len => simp [indexTable, operatorIndex]
  | dict ks => simp [indexTable, operatorIndex, lookup_enumFrom]

/-! ### The table of one run -/

theorem table_run_some {σ β : Type} (step : σ → σ) (obs : σ → β) (n k : Nat) (hk : 0 < k)
    (s0 : σ) :
    table (numCols n (some k)) (run step obs n (some k) s0).2 =
      (List.range (n / k + 1)).map
        (fun j => some (⟨j, j * k, obs (iter step (j * k) s0)⟩ : Write β)) := by
  apply List.ext_getElem?
  intro j
  by_cases hj : j < numCols n (some k)
  · rw [table_lookup step obs n k hk s0 j hj]
    simp only [numCols] at hj
    simp [List.getElem?_map, List.getElem?_range hj]
  · simp only [numCols] at hj
    have h1 : (table (numCols n (some k)) (run step obs n (some k) s0).2)[j]? = none := by
      apply List.getElem?_eq_none
      simp [table, numCols]; omega
    have h2 : ((List.range (n / k + 1)).map
        (fun j => some (⟨j, j * k, obs (iter step (j * k) s0)⟩ : Write β)))[j]? = none := by
      apply List.getElem?_eq_none
      simp; omega
    rw [h1, h2]

theorem table_one {β : Type} (w : Write β) (h : w.col = 0) : table 1 [w] = [some w] := by
  simp [table, List.range_succ, h]

/-! ### What `runEvent` produces -/

theorem runEvent_some {σ β γ : Type} (P : Params σ β γ) (k : Nat) (hk : 0 < k) (s : Drv σ β γ) :
    runEvent P (some k) s =
      { s with
        cur := iter (P.stepWith s.prop) s.n s.cur
        results := some
          { nrows := s.ops.count + 1, ncols := s.n / k + 1,
            cols := (List.range (s.n / k + 1)).map fun j =>
              some { vals := P.obs (iter (P.stepWith s.prop) (j * k) s.cur),
                     time := P.rnd (((j * k : Nat) : Rat) * s.dt) } }
        bond := s.bond.map fun _ =>
          (List.range (s.n / k + 1)).map fun j => P.bd (iter (P.stepWith s.prop) (j * k) s.cur) } := by
  unfold runEvent
  have ht := table_run_some (P.stepWith s.prop) (fun x => (P.obs x, P.bd x)) s.n k hk s.cur
  have hr := run_record (P.stepWith s.prop) (fun x => (P.obs x, P.bd x)) s.n k hk s.cur
  simp only [ht]
  simp only [run_state, hr]
  simp [numCols, Function.comp_def]

theorem runEvent_inf {σ β γ : Type} (P : Params σ β γ) (s : Drv σ β γ) :
    runEvent P none s =
      { s with
        cur := iter (P.stepWith s.prop) s.n s.cur
        results := some
          { nrows := s.ops.count + 1, ncols := 1,
            cols := [some { vals := P.obs (iter (P.stepWith s.prop) s.n s.cur),
                            time := P.rnd ((s.n : Rat) * s.dt) }] }
        bond := s.bond.map fun _ => [P.bd (iter (P.stepWith s.prop) s.n s.cur)] } := by
  unfold runEvent
  have h := (run_record_inf (P.stepWith s.prop) (fun x => (P.obs x, P.bd x)) s.n s.cur).1
  simp only [run_state, h, numCols]
  rw [table_one _ rfl]
  simp

/-! ### The IEEE rounding keeps the sign -/

theorem pow2_pos (e : Int) : 0 < pow2 e := by
  unfold pow2
  split
  · exact Rat.natCast_pos.mpr (Nat.pow_pos (by decide))
  · rw [Rat.div_def, Rat.one_mul]
    exact Rat.inv_pos.mpr (Rat.natCast_pos.mpr (Nat.pow_pos (by decide)))

theorem roundEven_nonneg (x : Rat) (hx : 0 ≤ x) : 0 ≤ roundEven x := by
  have h0 : (0 : Int) ≤ x.floor := Rat.le_floor_iff.mpr (by simpa using hx)
  unfold roundEven
  simp only []
  split
  · exact h0
  · split
    · omega
    · split <;> omega

theorem fl_nonneg (x : Rat) (hx : 0 ≤ x) : 0 ≤ fl x := by
  unfold fl
  split
  · exact Rat.le_refl
  · have hneg : ¬ x < 0 := Rat.not_lt.mpr hx
    simp only [hneg, if_false]
    apply Rat.mul_nonneg
    · apply Rat.intCast_nonneg.mpr
      apply roundEven_nonneg
      rw [Rat.div_def]
      exact Rat.mul_nonneg hx (Rat.le_of_lt (Rat.inv_pos.mpr (pow2_pos _)))
    · exact Rat.le_of_lt (pow2_pos _)

end Ptn.C18
