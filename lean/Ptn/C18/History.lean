import Ptn.C18.Invariant
/-! Property theorems for C18, part 3: histories of the driver object with the public setters
(`run`, `reset_to_initial_state`, `set_num_time_steps`, `set_num_time_steps_constant_final_time`,
`run_one_time_step`), and the addressing of `results` / `times()`.  Core Lean only; only property
theorems and non-vacuity examples live here (definitions: `Machine.lean`, `Invariant.lean`). -/
namespace Ptn.C18

variable {σ β γ : Type}

/-! ### The invariant -/

/-- After construction every derived datum is the freshly computed one.  (`hr`: rounding keeps the
    sign - a contract of the arithmetic, trivially true for exact arithmetic and for IEEE doubles.) -/
theorem derived_consistent_construct (P : Params σ β γ) (hr : ∀ x, 0 ≤ x → 0 ≤ P.rnd x)
    (s0 : σ) (dt T : Rat) (ops : OpSpec) (rb : Bool) (s : Drv σ β γ)
    (h : construct P s0 dt T ops rb = some s) : DerivedConsistent P s := by
  have hs := structural_construct P s0 dt T ops rb s h
  obtain ⟨hdt, hT, _, _, e1, e2, e3, _, _, _⟩ := construct_fields P s0 dt T ops rb s h
  refine ⟨hs.prop_current, hs.index_table, ?_, hs.record⟩
  intro _ _
  rw [e1, e2, e3]
  have hq : (0 : Rat) ≤ T / dt := by
    rw [Rat.div_def]
    exact Rat.le_of_lt (Rat.mul_pos hT (Rat.inv_pos.mpr hdt))
  have h0 : (0 : Int) ≤ (P.rnd (T / dt)).floor := Rat.le_floor_iff.mpr (by simpa using hr _ hq)
  have := (num_steps_bounds (P.rnd (T / dt))).1
  omega

/-- Every admissible call preserves the invariant. -/
theorem derived_consistent_apply (P : Params σ β γ) (e : Event) (s : Drv σ β γ)
    (ha : Admissible P s e) (h : DerivedConsistent P s) :
    DerivedConsistent P (apply P e s).1 := by
  have hs := structural_apply P e s ⟨h.prop_current, h.index_table, h.record⟩
  refine ⟨hs.prop_current, hs.index_table, ?_, hs.record⟩
  cases e with
  | run ev =>
    cases ev with
    | none => simpa [apply, runEvent] using h.num_steps
    | some k =>
      cases k with
      | zero => simpa [apply] using h.num_steps
      | succ k => simpa [apply, runEvent] using h.num_steps
  | reset => exact h.num_steps
  | step => exact h.num_steps
  | setN m =>
    obtain ⟨hm, hc⟩ := ha
    have hneg : ¬ m < 0 := by omega
    simp only [apply, hneg, if_false]
    intro h1 h2
    rw [hc h1 h2]
    exact Int.toNat_of_nonneg hm
  | setC m =>
    obtain ⟨hm, hc⟩ := ha
    have hneg : ¬ m < 0 := by omega
    have hz : ¬ m = 0 := by omega
    simp only [apply, hneg, hz, if_false]
    intro h1 h2
    rw [hc h2 h1]
    exact Int.toNat_of_nonneg (by omega)

/-- **The invariant theorem.**  `DerivedConsistent` holds after construction and after every
    admissible history (induction over the list of calls): the number of steps is the one a fresh
    construction computes, the key table is the constructor's, the propagator / Trotter exponents
    are the ones for the CURRENT step size, the record arrays have the right lengths. -/
theorem derived_consistent_invariant (P : Params σ β γ) (hr : ∀ x, 0 ≤ x → 0 ≤ P.rnd x)
    (s0 : σ) (dt T : Rat) (ops : OpSpec) (rb : Bool) (c : Drv σ β γ)
    (hc : construct P s0 dt T ops rb = some c) (es : List Event) (ha : AdmHist P c es) :
    DerivedConsistent P (exec P es c) := by
  have h0 := derived_consistent_construct P hr s0 dt T ops rb c hc
  clear hc
  induction es generalizing c with
  | nil => exact h0
  | cons e es ih =>
    simp only [exec, List.foldl_cons]
    exact ih _ ha.2 (derived_consistent_apply P e c ha.1 h0)

/-- The arithmetic-free part (propagator for the current step size, key table, record shapes) holds
    after EVERY history - including calls that raise (`set_num_time_steps(-1)`,
    `set_num_time_steps_constant_final_time(0)`, `run(evaluation_time=0)`) and are caught. -/
theorem structural_invariant_all_histories (P : Params σ β γ) (s0 : σ) (dt T : Rat) (ops : OpSpec)
    (rb : Bool) (c : Drv σ β γ) (hc : construct P s0 dt T ops rb = some c) (es : List Event) :
    Structural (exec P es c) :=
  structural_exec P es c (structural_construct P s0 dt T ops rb c hc)

/-- With exact arithmetic the contract in `Admissible` is a theorem: every call that returns
    normally is admissible. -/
theorem admissible_exact (P : Params σ β γ) (hP : ∀ x, P.rnd x = x) (s : Drv σ β γ) (e : Event)
    (he : Returns e) : Admissible P s e := by
  cases e with
  | run ev => exact he
  | reset => trivial
  | step => trivial
  | setN m =>
    refine ⟨he, ?_⟩
    intro hdt _
    rw [hP, hP, Rat.mul_div_cancel (Rat.ne_of_gt hdt)]
    exact num_steps_int m
  | setC m =>
    refine ⟨he, ?_⟩
    intro hT _
    have hm : (0 : Rat) < (m : Rat) := Rat.intCast_pos.mpr he
    have hq : s.T / (s.T / (m : Rat)) = (m : Rat) := by
      rw [Rat.div_def, Rat.div_def, Rat.inv_mul_rev, Rat.inv_inv, ← Rat.mul_assoc,
        Rat.mul_comm s.T, Rat.mul_assoc, Rat.mul_inv_cancel _ (Rat.ne_of_gt hT), Rat.mul_one]
    rw [hP, hP, hq]
    exact num_steps_int m

/-- Exact arithmetic: every history of normally returning calls is admissible. -/
theorem admHist_exact (P : Params σ β γ) (hP : ∀ x, P.rnd x = x) (es : List Event)
    (he : ∀ e ∈ es, Returns e) (s : Drv σ β γ) : AdmHist P s es := by
  induction es generalizing s with
  | nil => trivial
  | cons e es ih =>
    exact ⟨admissible_exact P hP s e (he e (by simp)),
      ih (fun e' h' => he e' (by simp [h'])) _⟩

/-- Exact arithmetic: the invariant after every history of normally returning calls, no contract. -/
theorem derived_consistent_invariant_exact (P : Params σ β γ) (hP : ∀ x, P.rnd x = x)
    (s0 : σ) (dt T : Rat) (ops : OpSpec) (rb : Bool) (c : Drv σ β γ)
    (hc : construct P s0 dt T ops rb = some c) (es : List Event) (he : ∀ e ∈ es, Returns e) :
    DerivedConsistent P (exec P es c) :=
  derived_consistent_invariant P (fun x hx => by rw [hP]; exact hx) s0 dt T ops rb c hc es
    (admHist_exact P hP es he c)

/-! ### Corollaries: a run after any history -/

/-- `_initial_state` is never reassigned. -/
theorem init_const (P : Params σ β γ) (es : List Event) (s : Drv σ β γ) :
    (exec P es s).init = s.init := by
  induction es generalizing s with
  | nil => rfl
  | cons e es ih =>
    simp only [exec, List.foldl_cons]
    have h1 : (apply P e s).1.init = s.init := by
      cases e with
      | run ev =>
        cases ev with
        | none => simp [apply, runEvent]
        | some k => cases k <;> simp [apply, runEvent]
      | reset => rfl
      | step => rfl
      | setN m => simp only [apply]; split <;> rfl
      | setC m => simp only [apply]; split <;> (try split) <;> rfl
    have := ih (apply P e s).1
    simp only [exec] at this
    rw [this, h1]

/-- F-C18c excluded: after ANY history (setters, earlier runs, resets, direct steps, caught
    exceptions) a run with interval `k ≥ 1` records in column `j` the observation of
    `step_{dt'}^(j·k)` applied to the state the history left, where `dt'` is the CURRENT step size,
    together with the time `j·k·dt'` (rounded once, as `save_time` computes it). -/
theorem run_after_setter_uses_new_dt (P : Params σ β γ) (s0 : σ) (dt T : Rat) (ops : OpSpec)
    (rb : Bool) (c : Drv σ β γ) (hc : construct P s0 dt T ops rb = some c) (es : List Event)
    (k : Nat) (hk : 0 < k) :
    let s := exec P es c
    let s' := (apply P (.run (some k)) s).1
    s'.cur = iter (P.stepWith s.dt) s.n s.cur ∧
    ∃ r, s'.results = some r ∧ r.ncols = numCols s.n (some k) ∧
      ∀ j, j < numCols s.n (some k) →
        r.cols[j]? = some (some
          { vals := P.obs (iter (P.stepWith s.dt) (j * k) s.cur),
            time := P.rnd (((j * k : Nat) : Rat) * s.dt) }) := by
  intro s s'
  have hs : Structural s := structural_invariant_all_histories P s0 dt T ops rb c hc es
  obtain ⟨k', rfl⟩ := Nat.exists_eq_succ_of_ne_zero (Nat.pos_iff_ne_zero.mp hk)
  have e : s' = runEvent P (some (k' + 1)) s := by simp [s', apply]
  rw [e, runEvent_some P (k' + 1) hk, hs.prop_current]
  refine ⟨rfl, _, rfl, rfl, ?_⟩
  intro j hj
  simp only [numCols] at hj
  simp [List.getElem?_map, List.getElem?_range hj]

/-- … and when the history ends with `reset_to_initial_state`, that state is the initial state
    handed to the constructor. -/
theorem run_after_reset_uses_new_dt (P : Params σ β γ) (s0 : σ) (dt T : Rat) (ops : OpSpec)
    (rb : Bool) (c : Drv σ β γ) (hc : construct P s0 dt T ops rb = some c) (es : List Event)
    (k : Nat) (hk : 0 < k) :
    let s := exec P (es ++ [.reset]) c
    let s' := (apply P (.run (some k)) s).1
    ∃ r, s'.results = some r ∧ r.ncols = numCols s.n (some k) ∧
      ∀ j, j < numCols s.n (some k) →
        r.cols[j]? = some (some
          { vals := P.obs (iter (P.stepWith s.dt) (j * k) s0),
            time := P.rnd (((j * k : Nat) : Rat) * s.dt) }) := by
  have hcur : (exec P (es ++ [.reset]) c).cur = s0 := by
    have h1 : exec P (es ++ [.reset]) c = (apply P .reset (exec P es c)).1 := by
      simp [exec, List.foldl_append]
    rw [h1]
    simp only [apply]
    rw [init_const]
    exact (construct_fields P s0 dt T ops rb c hc).2.2.1
  intro s s'
  have := (run_after_setter_uses_new_dt P s0 dt T ops rb c hc (es ++ [.reset]) k hk).2
  rw [hcur] at this
  exact this

/-- F-C18d excluded: a run started in ANY state (in particular after any history, with old results
    and an old bond-dimension record present) produces a table of exactly `numCols n ev` columns
    and `len(operators) + 1` rows, a `times()` vector and - if bond dimensions are recorded - a
    bond-dimension record of exactly that many entries: nothing is appended to old records. -/
theorem rerun_record_length (P : Params σ β γ) (s : Drv σ β γ) (ev : EvalTime)
    (hev : ev ≠ some 0) :
    let s' := (apply P (.run ev) s).1
    ∃ r, s'.results = some r ∧ r.nrows = s.ops.count + 1 ∧ r.ncols = numCols s.n ev ∧
      r.cols.length = numCols s.n ev ∧ (times r).length = numCols s.n ev ∧
      s'.bond.isSome = s.bond.isSome ∧ ∀ b, s'.bond = some b → b.length = numCols s.n ev := by
  intro s'
  cases ev with
  | none =>
    have e : s' = runEvent P none s := by simp [s', apply]
    rw [e, runEvent_inf]
    refine ⟨_, rfl, rfl, rfl, rfl, rfl, by simp, ?_⟩
    intro b hb
    cases hs : s.bond with
    | none => simp [hs] at hb
    | some b0 => simp [hs] at hb; subst hb; simp [numCols]
  | some k =>
    obtain ⟨k', rfl⟩ := Nat.exists_eq_succ_of_ne_zero (show k ≠ 0 from fun h => hev (by rw [h]))
    have e : s' = runEvent P (some (k' + 1)) s := by simp [s', apply]
    rw [e, runEvent_some P (k' + 1) (by omega)]
    refine ⟨_, rfl, rfl, rfl, by simp [numCols], by simp [times, numCols], by simp, ?_⟩
    intro b hb
    cases hs : s.bond with
    | none => simp [hs] at hb
    | some b0 => simp [hs] at hb; subst hb; simp [numCols]

/-- The record is the record of the LAST run: `reset_to_initial_state`, both setters (raising or
    not), a direct `run_one_time_step` and a `run` that raises leave `_results` (hence `times()`)
    and the bond-dimension record exactly as they were - in particular a setter does not rescale the
    stored times to the new step size. -/
theorem record_untouched_between_runs (P : Params σ β γ) (s : Drv σ β γ) (e : Event)
    (he : ∀ ev, e = .run ev → ev = some 0) :
    (apply P e s).1.results = s.results ∧ (apply P e s).1.bond = s.bond := by
  cases e with
  | run ev =>
    have := he ev rfl
    subst this
    exact ⟨rfl, rfl⟩
  | reset => exact ⟨rfl, rfl⟩
  | step => exact ⟨rfl, rfl⟩
  | setN m => simp only [apply]; split <;> exact ⟨rfl, rfl⟩
  | setC m => simp only [apply]; split <;> (try split) <;> exact ⟨rfl, rfl⟩

/-! ### `results` / `times()` addressing -/

/-- `times()` after a run started in any state: for an integer interval `k ≥ 1` entry `j` is
    `j·k·dt` (`j = 0 … n / k`, the current `dt`, one rounding); for `"inf"` the single entry is
    `n·dt`. -/
theorem times_row_spec (P : Params σ β γ) (s : Drv σ β γ) :
    (∀ k, 0 < k → ∃ r, (apply P (.run (some k)) s).1.results = some r ∧
        times r = (List.range (s.n / k + 1)).map fun j => P.rnd (((j * k : Nat) : Rat) * s.dt)) ∧
    (∃ r, (apply P (.run none) s).1.results = some r ∧ times r = [P.rnd ((s.n : Rat) * s.dt)]) := by
  constructor
  · intro k hk
    obtain ⟨k', rfl⟩ := Nat.exists_eq_succ_of_ne_zero (Nat.pos_iff_ne_zero.mp hk)
    have e : (apply P (.run (some (k' + 1))) s).1 = runEvent P (some (k' + 1)) s := by simp [apply]
    rw [e, runEvent_some P (k' + 1) hk]
    exact ⟨_, rfl, by simp [times, Function.comp_def]⟩
  · have e : (apply P (.run none) s).1 = runEvent P none s := by simp [apply]
    rw [e, runEvent_inf]
    exact ⟨_, rfl, by simp [times]⟩

/-- Rows: the table of a run has one row per operator plus the time row, and a dict of operators
    is addressed through the stored key table exactly as `result_keys` states. -/
theorem results_rows_spec (P : Params σ β γ) (s0 : σ) (dt T : Rat) (ks : List String)
    (hnd : ks.Nodup) (rb : Bool) (c : Drv σ β γ)
    (hc : construct P s0 dt T (.dict ks) rb = some c) (es : List Event) (i : Nat)
    (hi : i < ks.length) :
    (exec P es c).opIdx.lookup ks[i] = some i := by
  have hs := structural_invariant_all_histories P s0 dt T (.dict ks) rb c hc es
  have hops : (exec P es c).ops = .dict ks := by
    have h0 : c.ops = .dict ks := by
      unfold construct at hc
      split at hc
      · cases hc
      · split at hc
        · cases hc
        · cases hc; rfl
    rw [← h0]
    clear hc hs h0
    induction es generalizing c with
    | nil => rfl
    | cons e es ih =>
      simp only [exec, List.foldl_cons]
      have h1 : (apply P e c).1.ops = c.ops := by
        cases e with
        | run ev =>
          cases ev with
          | none => simp [apply, runEvent]
          | some k => cases k <;> simp [apply, runEvent]
        | reset => rfl
        | step => rfl
        | setN m => simp only [apply]; split <;> rfl
        | setC m => simp only [apply]; split <;> (try split) <;> rfl
      have := ih (apply P e c).1
      simp only [exec] at this
      rw [this, h1]
  rw [hs.index_table, hops]
  exact result_keys ks hnd i hi

/-! ### A caught exception leaves a half-updated object (witness, see notes: F-C18e candidate) -/

/-- `set_num_time_steps_constant_final_time(0)` raises `ZeroDivisionError` AFTER it has stored
    `num_time_steps = 0`: the object then reports 0 steps although final time 1 and step size 1/10
    are unchanged (a fresh construction computes 10) - the step-count clause of the invariant does
    NOT survive this caught exception, which is why `derived_consistent_invariant` is stated for
    admissible calls and `structural_invariant_all_histories` for the rest. -/
theorem setc_zero_leaves_stale_step_count :
    let c := (construct exactCounting (0, 0) (1 / 10) 1 .single false).get (by decide +kernel)
    (apply exactCounting (.setC 0) c).2 = some "ZeroDivisionError" ∧
      ¬ DerivedConsistent exactCounting (apply exactCounting (.setC 0) c).1 := by
  intro c
  refine ⟨by decide +kernel, ?_⟩
  intro h
  have := h.num_steps (by decide +kernel) (by decide +kernel)
  revert this
  decide +kernel

/-! ### Non-vacuity -/

/-- A history with both setters, a direct step, a caught exception and two runs; the last run uses
    the propagator of the new step size 1/4 (tag in the state) and stores the times `j·2·(1/4)`. -/
example :
    let c := (construct exactCounting (0, 0) (1 / 10) 1 (.dict ["a", "b"]) true).get
      (by decide +kernel)
    let s := exec exactCounting [.run (some 1), .setN 6, .step, .setC 0, .reset, .setC 4] c
    let s' := (apply exactCounting (.run (some 2)) s).1
    c.n = 10 ∧ s.n = 4 ∧ s.T = 3 / 5 ∧ s.dt = 3 / 20 ∧ s.prop = 3 / 20 ∧
      s'.cur = (4, 3 / 20) ∧ s'.bond = some [0, 2, 4] ∧
      s'.results.map times = some [0, 3 / 10, 3 / 5] ∧
      s'.results.map (fun r => (r.nrows, r.ncols)) = some (3, 3) := by
  decide +kernel

/-- The hypotheses of `derived_consistent_invariant` are satisfiable with a non-trivial history:
    exact arithmetic, both setters with positive arguments. -/
example : AdmHist exactCounting
    ((construct exactCounting (0, 0) (3 / 10) 1 .single true).get (by decide +kernel))
    [.run none, .setC 7, .reset, .setN 3, .run (some 2)] :=
  admHist_exact exactCounting (fun _ => rfl) _ (by
    intro e he
    simp only [List.mem_cons, List.mem_nil_iff, or_false] at he
    rcases he with rfl | rfl | rfl | rfl | rfl <;> simp [Returns]) _

/-- IEEE double arithmetic satisfies the sign contract `hr` of `derived_consistent_invariant` … -/
example : ∀ x, 0 ≤ x → 0 ≤ ieeeCounting.rnd x := fl_nonneg

/-- … and the admissibility contract on a concrete history with inexact quotients: step size the
    double 0.1, final time 1, then 3 steps at constant final time (`1/3` is rounded), a run, and 7
    steps of that size (`7 * fl(1/3)` is rounded). -/
example : AdmHist ieeeCounting
    ((construct ieeeCounting (0, 0) c01 1 .single true).get (by decide +kernel))
    [.setC 3, .run (some 1), .setN 7] := by
  refine ⟨⟨by decide, fun _ _ => by decide +kernel⟩, (by simp : some 1 ≠ some 0),
    ⟨by decide, fun _ _ => by decide +kernel⟩, trivial⟩

end Ptn.C18
