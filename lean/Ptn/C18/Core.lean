import Ptn.C18.Model
import Ptn.C18.Lemmas
/-! Property theorems for C18 (the evolution driver).  Only property theorems and non-vacuity
examples live here; helper lemmas are in `Lemmas.lean`. -/
namespace Ptn.C18

/-! ### Number of time steps -/

/-- The rule of the property: round down when the fractional part is below 0.1 (the double), up
    otherwise. -/
theorem num_steps_spec (q : Rat) :
    (q - (q.floor : Rat) < c01 → numSteps q = q.floor) ∧
    (¬ q - (q.floor : Rat) < c01 → numSteps q = q.floor + 1) := by
  unfold numSteps
  constructor <;> intro h <;> simp [h]

theorem num_steps_bounds (q : Rat) : q.floor ≤ numSteps q ∧ numSteps q ≤ q.floor + 1 := by
  unfold numSteps
  split <;> omega

/-- More final time (or a smaller step) never yields fewer steps. -/
theorem num_steps_mono (q r : Rat) (h : q ≤ r) : numSteps q ≤ numSteps r := by
  have hfl : q.floor ≤ r.floor := Rat.floor_monotone h
  unfold numSteps
  by_cases hq : q - (q.floor : Rat) < c01 <;> by_cases hr : r - (r.floor : Rat) < c01 <;>
    simp only [hq, hr, if_true, if_false]
  · exact hfl
  · omega
  · -- q rounds up, r rounds down: then floor q < floor r
    rcases Int.lt_or_le q.floor r.floor with hlt | hge
    · omega
    · have heq : q.floor = r.floor := by omega
      rw [heq] at hq
      exfalso
      apply hq
      grind
  · omega

/-- An integral quotient is returned unchanged. -/
theorem num_steps_int (z : Int) : numSteps (z : Rat) = z := by
  unfold numSteps
  have : ((z : Rat)).floor = z := Rat.floor_intCast z
  rw [this]
  have h0 : (z : Rat) - (z : Rat) = 0 := Rat.sub_self
  rw [h0]
  have : (0 : Rat) < c01 := by decide +kernel
  simp [this]

/-! ### The schedule of steps and evaluations -/

/-- `run` applies the step function exactly `n` times. -/
theorem run_state {σ β : Type} (step : σ → σ) (obs : σ → β) (n : Nat) (ev : EvalTime) (s0 : σ) :
    (run step obs n ev s0).1 = iter step n s0 := by
  unfold run
  rw [foldl_body_range]

/-- Integer evaluation interval `k ≥ 1`: the chronological writes are exactly one per column
    `j = 0 … n / k`, column `j` receiving the observation of the state after exactly `j * k`
    steps together with step number `j * k` (from which the stored time `j*k*dt` is computed). -/
theorem run_record {σ β : Type} (step : σ → σ) (obs : σ → β) (n k : Nat) (hk : 0 < k) (s0 : σ) :
    (run step obs n (some k) s0).2 =
      (List.range (n / k + 1)).map (fun j => ⟨j, j * k, obs (iter step (j * k) s0)⟩) := by
  unfold run
  rw [foldl_body_range]
  have hw : writeAt step obs n (some k) s0 = fun i =>
      if i % k == 0 then some (⟨i / k, i, obs (iter step i s0)⟩ : Write β) else none := by
    funext i; simp [writeAt, shouldEval, resultIndex]
  rw [hw, filterMap_multiples _ k hk n]
  apply List.map_congr_left
  intro j _
  simp [Nat.mul_div_cancel _ hk]

/-- The number of columns allocated equals the number of writes, and the columns written are
    `0, 1, …, n / k` in this order: every column is written exactly once. -/
theorem run_columns_once {σ β : Type} (step : σ → σ) (obs : σ → β) (n k : Nat) (hk : 0 < k)
    (s0 : σ) :
    ((run step obs n (some k) s0).2.map Write.col) = List.range (numCols n (some k)) := by
  rw [run_record step obs n k hk s0]
  simp [numCols, Function.comp_def]

/-- Evaluation interval `"inf"`: a single column, holding the observation after the last step. -/
theorem run_record_inf {σ β : Type} (step : σ → σ) (obs : σ → β) (n : Nat) (s0 : σ) :
    (run step obs n none s0).2 = [⟨0, n, obs (iter step n s0)⟩] ∧ numCols n none = 1 := by
  unfold run
  rw [foldl_body_range]
  have hw : writeAt step obs n none s0 = fun i =>
      if i == n then some (⟨0, i, obs (iter step i s0)⟩ : Write β) else none := by
    funext i; simp [writeAt, shouldEval, resultIndex]
  rw [hw, filterMap_last _ n n (Nat.le_refl n)]
  simp [numCols]

/-- The table read back: column `j` holds the value for `j * k` steps. -/
theorem table_lookup {σ β : Type} (step : σ → σ) (obs : σ → β) (n k : Nat) (hk : 0 < k) (s0 : σ)
    (j : Nat) (hj : j < numCols n (some k)) :
    (table (numCols n (some k)) (run step obs n (some k) s0).2)[j]? =
      some (some ⟨j, j * k, obs (iter step (j * k) s0)⟩) := by
  rw [run_record step obs n k hk s0]
  unfold table
  simp only [numCols] at hj ⊢
  rw [List.getElem?_map, List.getElem?_range hj]
  simp only [Option.map_some, Option.some.injEq]
  rw [← List.map_reverse, List.find?_map]
  have hmem : j ∈ (List.range (n / k + 1)).reverse := by simp; omega
  have := find_beq_self _ j hmem
  simp only [Function.comp_def]
  rw [this]
  rfl

/-! ### Result addressing -/

/-- A dict of operators is addressed by key: key number `i` (in insertion order, keys distinct as
    in every Python dict) is stored in row `i`. -/
theorem result_keys (ks : List String) (hnd : ks.Nodup) (i : Nat) (hi : i < ks.length) :
    operatorIndex (.dict ks) ks[i] = some i := by
  unfold operatorIndex
  have : ks.idxOf ks[i] = i := idxOf_getElem' ks hnd i hi
  simp [this, hi]

/-- Single operators and lists have no key table: they are addressed by position only. -/
theorem result_positions (key : String) (len : Nat) :
    operatorIndex .single key = none ∧ operatorIndex (.list len) key = none := by
  simp [operatorIndex]

/-! ### Reset -/

/-- In the refined machine of the concrete classes (user state + derived data), a run started
    after `reset` produces the same final state and the same record as the first run, whatever
    state the first run left behind — *because* `reset` re-derives the derived data.  (Before the
    repair F-C18 the TDVP/BUG classes restored only the user component; see DESIGN.md.) -/
theorem reset_reproduces {υ δ β : Type} (m : Refined υ δ) (obs : υ × δ → β) (n : Nat)
    (ev : EvalTime) (u0 : υ) :
    let first := run m.step obs n ev (m.init u0)
    run m.step obs n ev (m.reset u0 first.1) = first := by
  simp [Refined.reset]

/-! ### Non-vacuity: concrete instances -/

example : numSteps (21 / 5) = 5 := by decide +kernel           -- 4.2: fractional part ≥ 0.1 → 5 steps
example : numSteps (41 / 10) = 4 := by decide +kernel          -- exactly 1/10 is below the double 0.1
example : numSteps (4 + 1 / 16) = 4 := by decide +kernel
example : (run (· + 1) (fun s => 10 * s) 7 (some 3) 0).2 =
    [⟨0, 0, 0⟩, ⟨1, 3, 30⟩, ⟨2, 6, 60⟩] := by decide
example : (run (· + 1) (fun s => 10 * s) 7 none 0).2 = [⟨0, 7, 70⟩] := by decide
example : operatorIndex (.dict ["a", "b"]) "b" = some 1 := by decide

end Ptn.C18
