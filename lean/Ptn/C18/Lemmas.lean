import Ptn.C18.Model
/-! Helper lemmas for C18 (core Lean only). -/
namespace Ptn.C18

/-- `iter f n a = f (f (… a))`, `n` applications. -/
def iter {σ : Type} (f : σ → σ) : Nat → σ → σ
  | 0, a => a
  | n + 1, a => f (iter f n a)

/-- The write (if any) produced at loop index `i`. -/
def writeAt {σ β : Type} (step : σ → σ) (obs : σ → β) (n : Nat) (ev : EvalTime) (s0 : σ)
    (i : Nat) : Option (Write β) :=
  if shouldEval n ev i then some ⟨resultIndex ev i, i, obs (iter step i s0)⟩ else none

theorem foldl_body_range {σ β : Type} (step : σ → σ) (obs : σ → β) (n : Nat) (ev : EvalTime)
    (s0 : σ) (m : Nat) :
    (List.range (m + 1)).foldl (body step obs n ev) (s0, []) =
      (iter step m s0, (List.range (m + 1)).filterMap (writeAt step obs n ev s0)) := by
  induction m with
  | zero =>
    by_cases h : shouldEval n ev 0 <;> simp [List.range_succ, body, writeAt, iter, h]
  | succ m ih =>
    rw [List.range_succ, List.foldl_append, ih]
    simp only [List.foldl_cons, List.foldl_nil, body]
    rw [List.filterMap_append]
    simp only [Nat.add_eq_zero_iff, Nat.succ_ne_self, and_false, if_false, iter, writeAt,
      List.filterMap_cons, List.filterMap_nil]
    split <;> simp_all

theorem filterMap_multiples {β : Type} (g : Nat → β) (k : Nat) (_hk : 0 < k) (n : Nat) :
    (List.range (n + 1)).filterMap (fun i => if i % k == 0 then some (g i) else none) =
      (List.range (n / k + 1)).map (fun j => g (j * k)) := by
  induction n with
  | zero => simp
  | succ n ih =>
    rw [List.range_succ, List.filterMap_append, ih]
    by_cases h : (n + 1) % k = 0
    · have hd : k ∣ n + 1 := Nat.dvd_of_mod_eq_zero h
      have h1 : (n + 1) / k = n / k + 1 := by
        rw [Nat.succ_div]; simp [hd]
      have h2 : (n / k + 1) * k = n + 1 := by
        rw [← h1]; exact Nat.div_mul_cancel hd
      rw [h1, List.range_succ (n := n / k + 1), List.map_append]
      simp [h, h2]
    · have hd : ¬ k ∣ n + 1 := fun hd => h (Nat.mod_eq_zero_of_dvd hd)
      have h1 : (n + 1) / k = n / k := by
        rw [Nat.succ_div]; simp [hd]
      rw [h1]
      simp [h]

theorem filterMap_last {β : Type} (g : Nat → β) (n m : Nat) (hm : m ≤ n) :
    (List.range (m + 1)).filterMap (fun i => if i == n then some (g i) else none) =
      if m = n then [g n] else [] := by
  induction m with
  | zero =>
    simp [List.range_succ]
    by_cases h : n = 0 <;> simp [h, eq_comm]
  | succ m ih =>
    rw [List.range_succ, List.filterMap_append, ih (by omega)]
    have : m ≠ n := by omega
    simp [this]
    by_cases h : m + 1 = n <;> simp [h]

theorem find_beq_self (l : List Nat) (j : Nat) (h : j ∈ l) :
    l.find? (fun a => a == j) = some j := by
  induction l with
  | nil => simp at h
  | cons a l ih =>
    by_cases ha : a = j
    · simp [ha]
    · have : j ∈ l := by
        rcases List.mem_cons.mp h with h | h
        · exact absurd h.symm ha
        · exact h
      simp [ha, ih this]

theorem idxOf_getElem' (ks : List String) (hnd : ks.Nodup) (i : Nat) (hi : i < ks.length) :
    ks.idxOf ks[i] = i := by
  induction ks generalizing i with
  | nil => simp at hi
  | cons a l ih =>
    cases i with
    | zero => simp
    | succ i =>
      have hnd' := List.nodup_cons.mp hnd
      have hi' : i < l.length := by simpa using hi
      have hne : (a == l[i]) = false := by
        simp only [beq_eq_false_iff_ne, ne_eq]
        exact fun h => hnd'.1 (h ▸ List.getElem_mem hi')
      simp [List.idxOf_cons, hne, ih hnd'.2 i hi']

end Ptn.C18
