import Ptn.C18.Model
/-! The driver object as a state machine (property C18, histories with the public setters).
Core Lean only.  The code AS IT IS NOW (after the repairs F-C18c, commit b836d48, and F-C18d,
commit 2d27a20).  Anchors: `pytreenet/time_evolution/time_evolution.py` (`TimeEvolution`),
`ttn_time_evolution.py` (`TTNTimeEvolution`: the bond-dimension record), `exact_time_evolution.py`
and `tebd.py` (the precomputed propagator `_time_evolution_operator` / Trotter exponents
`_exponents` and their override of `set_num_time_steps_constant_final_time`).

| definition            | Python lines mirrored |
|---|---|
| `Drv`                 | the attributes set in `TimeEvolution.__init__`, `TTNTimeEvolution.__init__` (`bond_dims`), `ExactTimeEvolution.__init__` (`_time_evolution_operator`) / `TEBD.__init__` (`_exponents`) |
| `indexTable`          | `_init_operator_index_dict`: `{key: i for i, key in enumerate(operators.keys())}` or `{}` |
| `construct`           | `__init__`: the two `positivity_check`s, `_compute_num_time_steps`, `_results = None`, `bond_dims = {} if config.record_bond_dim else None`, propagator computed from `_time_step_size` |
| `runEvent`            | `run`: `init_results` (a NEW zero table of `numCols n ev` columns from the CURRENT `n`; `TTNTimeEvolution.init_results`: `bond_dims = {}` if recording), then the loop (= `run` of `Model.lean`) with `save_operator_results` / `save_time` (`time_step * time_step_size`) / `record_bond_dimensions` (one entry appended per evaluation) |
| `apply … .reset`      | `reset_to_initial_state`: `state = deepcopy(_initial_state)` |
| `apply … (.setN m)`   | `set_num_time_steps`: `non_negativity_check`, `_num_time_steps = m`, `_final_time = m * _time_step_size` |
| `apply … (.setC m)`   | `set_num_time_steps_constant_final_time` of `ExactTimeEvolution` / `TEBD`: `super()` (`non_negativity_check`, `_num_time_steps = m`, `_time_step_size = _final_time / m` - the assignment of `m` happens BEFORE the division can raise), then the propagator / exponents recomputed from the new `_time_step_size` |
| `apply … .step`       | `run_one_time_step` called by the user: uses the stored propagator |
| `times`               | `times()`: `real(results[-1])` |

Float arithmetic enters through one parameter `rnd : Rat → Rat` (the rounding applied after every
`*` and `/` on exact values): `id` gives exact arithmetic, `fl` (below) is IEEE-754 binary64
round-to-nearest-even, used by the driver so that the correspondence with Python is exact. -/
namespace Ptn.C18

/-! ### IEEE double rounding on exact rationals -/

/-- Round to the nearest integer, ties to even. -/
def roundEven (x : Rat) : Int :=
  let f := x.floor
  let r := x - (f : Rat)
  if r < 1 / 2 then f else if (1 : Rat) / 2 < r then f + 1 else if f % 2 = 0 then f else f + 1

/-- `2 ^ e` as a rational, `e` any integer. -/
def pow2 (e : Int) : Rat :=
  if 0 ≤ e then ((2 ^ e.toNat : Nat) : Rat) else 1 / ((2 ^ (-e).toNat : Nat) : Rat)

/-- The binary64 value nearest to `x` (ties to even; subnormals handled through the minimal exponent
    `-1074`; overflow to infinity is not modelled - the harness stays far below `1e308`). -/
def fl (x : Rat) : Rat :=
  if x = 0 then 0 else
    let a := if x < 0 then -x else x
    -- 2^(lp-lq-1) < a < 2^(lp-lq+1)
    let e0 : Int := (a.num.natAbs.log2 : Int) - (a.den.log2 : Int) - 52
    let e1 : Int := if a / pow2 e0 < pow2 52 then e0 - 1 else e0
    let e : Int := if e1 < -1074 then -1074 else e1
    let m : Int := roundEven (a / pow2 e)
    let v : Rat := (m : Rat) * pow2 e
    if x < 0 then -v else v

/-! ### The object -/

/-- What the machine is parametrised by: the arithmetic and the three abstract routines of a concrete
    class.  `stepWith tag` is one time step performed with a propagator that was computed for the
    step size `tag`. -/
structure Params (σ β γ : Type) where
  rnd : Rat → Rat
  stepWith : Rat → σ → σ
  obs : σ → β
  bd : σ → γ

/-- One column of `results`: rows `0 … -2` (operator values, `save_operator_results`) and row `-1`
    (the time, `save_time`). -/
structure Column (β : Type) where
  vals : β
  time : Rat
deriving Repr, DecidableEq

/-- `_results`: `nrows × ncols`; a column is `none` while it still holds the zeros of `init_results`. -/
structure Results (β : Type) where
  nrows : Nat
  ncols : Nat
  cols : List (Option (Column β))
deriving Repr, DecidableEq

/-- `times()` (offset 0): the last row. -/
def times {β : Type} (r : Results β) : List Rat :=
  r.cols.map fun c => match c with
    | some c => c.time
    | none => 0

/-- The attributes of the object. -/
structure Drv (σ β γ : Type) where
  init : σ                          -- `_initial_state`
  cur : σ                           -- `state`
  dt : Rat                          -- `_time_step_size`
  T : Rat                           -- `_final_time`
  n : Nat                           -- `_num_time_steps`
  ops : OpSpec                      -- `operators` as handed over
  opIdx : List (String × Nat)       -- `_operator_index_dict`
  results : Option (Results β)      -- `_results`
  bond : Option (List γ)            -- `bond_dims`: `None`, or the recorded entries (one per evaluation)
  prop : Rat                        -- the step size the stored propagator / exponents were computed for

def enumFrom (i : Nat) : List String → List (String × Nat)
  | [] => []
  | k :: ks => (k, i) :: enumFrom (i + 1) ks

/-- `_init_operator_index_dict`. -/
def indexTable : OpSpec → List (String × Nat)
  | .dict ks => enumFrom 0 ks
  | _ => []

/-- `__init__`; `none` when a `positivity_check` raises. -/
def construct {σ β γ : Type} (P : Params σ β γ) (s0 : σ) (dt T : Rat) (ops : OpSpec)
    (recordBond : Bool) : Option (Drv σ β γ) :=
  if dt ≤ 0 then none
  else if T ≤ 0 then none
  else some
    { init := s0, cur := s0, dt := dt, T := T,
      n := (numSteps (P.rnd (T / dt))).toNat,
      ops := ops, opIdx := indexTable ops, results := none,
      bond := if recordBond then some [] else none,
      prop := dt }

inductive Event where
  | run (ev : EvalTime)
  | reset
  | setN (m : Int)
  | setC (m : Int)
  | step
deriving Repr, DecidableEq

/-- `run(evaluation_time)` for an interval that does not raise. -/
def runEvent {σ β γ : Type} (P : Params σ β γ) (ev : EvalTime) (s : Drv σ β γ) : Drv σ β γ :=
  let ncols := numCols s.n ev
  let r := run (P.stepWith s.prop) (fun x => (P.obs x, P.bd x)) s.n ev s.cur
  { s with
    cur := r.1
    results := some
      { nrows := s.ops.count + 1, ncols := ncols,
        cols := (table ncols r.2).map fun c =>
          c.map fun w => { vals := w.val.1, time := P.rnd ((w.stepNo : Rat) * s.dt) } }
    bond := s.bond.map fun _ => r.2.map fun w => w.val.2 }

/-- One call of a public method: the object afterwards and the exception raised, if any. -/
def apply {σ β γ : Type} (P : Params σ β γ) (e : Event) (s : Drv σ β γ) :
    Drv σ β γ × Option String :=
  match e with
  | .run (some 0) => (s, some "ZeroDivisionError")      -- `num_time_steps // 0` in `init_results`
  | .run ev => (runEvent P ev s, none)
  | .reset => ({ s with cur := s.init }, none)
  | .setN m =>
    if m < 0 then (s, some "ValueError")
    else ({ s with n := m.toNat, T := P.rnd ((m : Rat) * s.dt) }, none)
  | .setC m =>
    if m < 0 then (s, some "ValueError")
    else if m = 0 then ({ s with n := 0 }, some "ZeroDivisionError")
    else
      let dt' := P.rnd (s.T / (m : Rat))
      ({ s with n := m.toNat, dt := dt', prop := dt' }, none)
  | .step => ({ s with cur := P.stepWith s.prop s.cur }, none)

/-- A history: the calls are made one after the other (a caller that catches an exception goes on
    with the object as the raising call left it). -/
def exec {σ β γ : Type} (P : Params σ β γ) (es : List Event) (s : Drv σ β γ) : Drv σ β γ :=
  es.foldl (fun s e => (apply P e s).1) s

end Ptn.C18
