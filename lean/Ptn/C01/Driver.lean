import Ptn.C01.Model
/-! Line-protocol handler for the C01 model (core Lean only).

Request body (after the command word), space separated:

  `<n>  <parent of node 0 … n-1, root = -1>  <children of node 0 … n-1 in reference order, joined by '.', '-' if none>
   <operator dimension of node 0 … n-1>  <T>  then per term: <num> <den> <sym> <k> (<site> <label>)*k`

  denote  … → canonical formal sum denoted by the uncompressed (BASE) diagram of the model
  ham     … → canonical formal sum of the identity-padded Hamiltonian itself
  diagram … → the BASE diagram: per node (index order) `<i>=<label>|<num>/<den>|<gamma>|<vertex positions toward
              parent, children…, joined by '.'>` hyperedges joined by ',', nodes joined by ';', then `;` and the
              edges `<parent>-<child>:<number of vertices>` joined by ','
  single <j> … → canonical formal sum denoted by the single-term diagram of term number j
  fill <tree part> <diagram in the format of `diagram`> (<label>:<dim>)* → the TTNO `from_state_diagram` builds from
              that diagram: per node (index order) `<i>:<bond dims…x phys>:<cell>,…` joined by ';', a cell
              `<indices joined by '.'>=<num>/<den>*<gamma>*<label>+…` for every position holding at least one
              contribution (positions in lexicographic order, contributions in hyperedge order); `raise` where
              the Python code raises (node without hyperedge, vertex index outside the bond)

Canonical formal sum: summands `<num>/<den>*<sym>:<label of node 0>,…,<label of node n-1>` with equal
(assignment, symbols) merged and zero coefficients dropped, sorted by (labels, symbols), joined by ' '; `0` if empty.
Malformed requests answer `bad-op`. -/
namespace Ptn.C01

structure Req where
  n : Nat
  tree : RTree
  par : List Int
  terms : List Term

def parseKids (s : String) : Option (List Nat) :=
  if s = "-" then some [] else (s.splitOn ".").mapM String.toNat?

/-- Build the tree below node `i` (fuel bounds the depth; a cycle exhausts it). -/
def buildTree (kids : Array (List Nat)) (dims : Array Nat) : Nat → Nat → Option RTree
  | 0, _ => none
  | fuel + 1, i =>
    match kids[i]?, dims[i]? with
    | some ks, some d =>
      match ks.mapM (buildTree kids dims fuel) with
      | some ts => some (.node i d ts)
      | none => none
    | _, _ => none

def takeN {α : Type} (n : Nat) (l : List α) : Option (List α × List α) :=
  if l.length < n then none else some (l.take n, l.drop n)

def parseOps : Nat → List String → Option (List (Nat × String) × List String)
  | 0, rest => some ([], rest)
  | k + 1, s :: l :: rest =>
    match s.toNat?, parseOps k rest with
    | some i, some (ops, rest') => some ((i, l) :: ops, rest')
    | _, _ => none
  | _ + 1, _ => none

def parseTerms (n : Nat) : Nat → List String → Option (List Term)
  | 0, [] => some []
  | 0, _ :: _ => none
  | t + 1, num :: den :: sym :: k :: rest =>
    match num.toInt?, den.toNat?, k.toNat? with
    | some a, some b, some kk =>
      if b = 0 then none else
      match parseOps kk rest with
      | some (ops, rest') =>
        let sites := ops.map Prod.fst
        if sites.all (· < n) && sites.eraseDups.length == sites.length then
          match parseTerms n t rest' with
          | some ts => some (⟨mkRat a b, sym, ops⟩ :: ts)
          | none => none
        else none
      | none => none
    | _, _, _ => none
  | _ + 1, _ => none

structure TreeReq where
  n : Nat
  tree : RTree
  par : List Int
  rest : List String

def parseTreeReq (args : List String) : Option TreeReq :=
  match args with
  | [] => none
  | ns :: rest =>
    match ns.toNat? with
    | none => none
    | some n =>
      if n = 0 then none else
      match takeN n rest with
      | none => none
      | some (ps, rest1) =>
        match takeN n rest1 with
        | none => none
        | some (ks, rest2) =>
          match takeN n rest2 with
          | none => none
          | some (ds, rest3) =>
            match ps.mapM String.toInt?, ks.mapM parseKids, ds.mapM String.toNat? with
            | some par, some kids, some dims =>
              -- consistency of parents and child lists
              let okKids := (List.range n).all fun i =>
                let want := (List.range n).filter fun c => par.getD c 0 == (i : Int)
                let got := kids.getD i []
                got.length == want.length && want.all (got.contains ·) && got.all (· < n)
              let roots := (List.range n).filter fun c => par.getD c 0 == -1
              match roots with
              | [r] =>
                if !okKids then none else
                match buildTree kids.toArray dims.toArray (n + 1) r with
                | some tree => if tree.ids.length = n then some ⟨n, tree, par, rest3⟩ else none
                | none => none
              | _ => none
            | _, _, _ => none

def parseReq (args : List String) : Option Req :=
  match parseTreeReq args with
  | none => none
  | some tr =>
    match tr.rest with
    | ts :: rest4 =>
      match ts.toNat? with
      | some t =>
        if t = 0 then none else
        match parseTerms tr.n t rest4 with
        | some terms => some ⟨tr.n, tr.tree, tr.par, terms⟩
        | none => none
      | none => none
    | [] => none

/-! ### canonical output -/

def ratStr (q : Rat) : String := s!"{q.num}/{q.den}"

def symStr (syms : List String) : String := if syms.isEmpty then "1" else ".".intercalate syms

/-- Labels in node-index order (every node occurs exactly once in a well-formed assignment). -/
def labelsOf (n : Nat) (asg : List (Nat × String)) : List String :=
  (List.range n).map fun i => (asg.lookup i).getD "?"

def ltLabels : List String → List String → Bool
  | [], [] => false
  | [], _ :: _ => true
  | _ :: _, [] => false
  | a :: as, b :: bs => if a < b then true else if b < a then false else ltLabels as bs

def keyLt (x y : List String × String) : Bool :=
  if ltLabels x.1 y.1 then true else if ltLabels y.1 x.1 then false else decide (x.2 < y.2)

def insertKey (k : List String × String) (c : Rat) :
    List ((List String × String) × Rat) → List ((List String × String) × Rat)
  | [] => [(k, c)]
  | (k', c') :: rest =>
    if k = k' then (k', c' + c) :: rest
    else if keyLt k k' then (k, c) :: (k', c') :: rest
    else (k', c') :: insertKey k c rest

def canonFSum (n : Nat) (fs : FSum) : String :=
  let merged := fs.foldl (fun acc m => insertKey (labelsOf n m.asg, symStr m.syms) m.coef acc) []
  let kept := merged.filter fun kc => kc.2 != 0
  if kept.isEmpty then "0" else
    " ".intercalate (kept.map fun kc => s!"{ratStr kc.2}*{kc.1.2}:{",".intercalate kc.1.1}")

-- All nodes of a diagram with the identifier of their parent.
mutual
def flattenSD (parent : Option Nat) : SD → List (Nat × Option Nat × Nat × List HE)
  | .node i nv hes kids => (i, parent, nv, hes) :: flattenKids (some i) kids
def flattenKids (parent : Option Nat) : List SD → List (Nat × Option Nat × Nat × List HE)
  | [] => []
  | k :: ks => flattenSD parent k ++ flattenKids parent ks
end

def heStr (h : HE) : String :=
  let pos := (match h.pv with | some p => [p] | none => []) ++ h.kv
  s!"{h.label}|{ratStr h.lam}|{h.gam}|{".".intercalate (pos.map toString)}"

def diagramStr (n : Nat) (d : SD) : String :=
  let flat := flattenSD none d
  let nodes := (List.range n).map fun i =>
    match flat.find? (fun x => x.1 == i) with
    | some (_, _, _, hes) => s!"{i}=" ++ ",".intercalate (hes.map heStr)
    | none => s!"{i}=?"
  let edges := (List.range n).filterMap fun i =>
    match flat.find? (fun x => x.1 == i) with
    | some (_, some p, nv, _) => some s!"{p}-{i}:{nv}"
    | _ => none
  ";".intercalate nodes ++ ";" ++ ",".intercalate edges

/-! ### `fill`: an arbitrary diagram (as read off the library's StateDiagram) and its filled TTNO -/

structure RawHE where
  label : String
  lam : Rat
  gam : String
  pos : List Nat

def parseRatTok (t : String) : Option Rat :=
  match t.splitOn "/" with
  | [a, b] =>
    match a.toInt?, b.toNat? with
    | some x, some y => if y = 0 then none else some (mkRat x y)
    | _, _ => none
  | _ => none

def parseRawHE (t : String) : Option RawHE :=
  match t.splitOn "|" with
  | [l, q, g, ps] =>
    match parseRatTok q, (if ps = "" then some [] else (ps.splitOn ".").mapM String.toNat?) with
    | some r, some pos => some ⟨l, r, g, pos⟩
    | _, _ => none
  | _ => none

/-- node part `<i>=<he>,<he>,…` -/
def parseNodePart (t : String) : Option (Nat × List RawHE) :=
  match t.splitOn "=" with
  | [i, body] =>
    match i.toNat?, (if body = "" then some [] else (body.splitOn ",").mapM parseRawHE) with
    | some k, some hes => some (k, hes)
    | _, _ => none
  | _ => none

/-- edge part `<p>-<c>:<k>` ↦ (c, k) -/
def parseEdgePart (t : String) : Option (Nat × Nat) :=
  match t.splitOn ":" with
  | [pc, k] =>
    match pc.splitOn "-", k.toNat? with
    | [_, c], some kk => (c.toNat?).map fun cc => (cc, kk)
    | _, _ => none
  | _ => none

mutual
def buildSD (hes : List (Nat × List RawHE)) (nvs : List (Nat × Nat)) (isRoot : Bool) : RTree → Option SD
  | .node i _ kids =>
    match hes.lookup i, buildSDKids hes nvs kids with
    | some raw, some ks =>
      let conv := raw.mapM fun (h : RawHE) =>
        if isRoot then some (⟨h.label, h.lam, h.gam, none, h.pos⟩ : HE)
        else match h.pos with
          | p :: rest => some ⟨h.label, h.lam, h.gam, some p, rest⟩
          | [] => none
      match conv with
      | some hs => some (.node i (if isRoot then 0 else (nvs.lookup i).getD 0) hs ks)
      | none => none
    | _, _ => none
def buildSDKids (hes : List (Nat × List RawHE)) (nvs : List (Nat × Nat)) : List RTree → Option (List SD)
  | [] => some []
  | k :: ks =>
    match buildSD hes nvs false k, buildSDKids hes nvs ks with
    | some a, some as => some (a :: as)
    | _, _ => none
end

def parseDiagram (n : Nat) (t : RTree) (s : String) : Option SD :=
  let parts := s.splitOn ";"
  if parts.length ≠ n + 1 then none else
  match (parts.take n).mapM parseNodePart,
        (let e := parts.getD n ""; if e = "" then some [] else (e.splitOn ",").mapM parseEdgePart) with
  | some hes, some nvs => buildSD hes nvs true t
  | _, _ => none

def parseTable : List String → Option (List (String × Nat))
  | [] => some []
  | t :: rest =>
    match t.splitOn ":", parseTable rest with
    | [l, d], some tab => (d.toNat?).map fun dd => (l, dd) :: tab
    | _, _ => none

mutual
def flattenTTNO : TTNO → List (Nat × Option Nat × Nat × Cells × List Nat)
  | .node i pb ph cells kids => (i, pb, ph, cells, contractBonds kids) :: flattenTTNOKids kids
def flattenTTNOKids : List TTNO → List (Nat × Option Nat × Nat × Cells × List Nat)
  | [] => []
  | k :: ks => flattenTTNO k ++ flattenTTNOKids ks
end

def itemStr (it : Item) : String := s!"{ratStr it.lam}*{it.gam}*{it.label}"

def nodeTensorStr (x : Nat × Option Nat × Nat × Cells × List Nat) : String :=
  let (i, pb, ph, cells, kb) := x
  let shape := (match pb with | some b => [b] | none => []) ++ kb ++ [ph]
  let pvs : List (Option Nat) := match pb with
    | some b => (List.range b).map some
    | none => [none]
  let cellStrs := pvs.flatMap fun pv => (allTuples kb).filterMap fun kv =>
    let e := entryAt cells (pv, kv)
    if e.isEmpty then none else
      let pos := (match pv with | some p => [p] | none => []) ++ kv
      some (".".intercalate (pos.map toString) ++ "=" ++ "+".intercalate (e.map itemStr))
  s!"{i}:{"x".intercalate (shape.map toString)}:{",".intercalate cellStrs}"

def fillStr (n : Nat) (T : TTNO) : String :=
  let flat := flattenTTNO T
  ";".intercalate ((List.range n).map fun i =>
    match flat.find? (fun x => x.1 == i) with
    | some x => nodeTensorStr x
    | none => s!"{i}:?")

def handle (args : List String) : String :=
  match args with
  | "denote" :: body =>
    match parseReq body with
    | some r =>
      match baseDiagram r.tree r.terms with
      | some d => canonFSum r.n (sdDenote d)
      | none => "bad-op"
    | none => "bad-op"
  | "ham" :: body =>
    match parseReq body with
    | some r => canonFSum r.n (hamDenote r.tree r.terms)
    | none => "bad-op"
  | "diagram" :: body =>
    match parseReq body with
    | some r =>
      match baseDiagram r.tree r.terms with
      | some d => diagramStr r.n d
      | none => "bad-op"
    | none => "bad-op"
  | "fill" :: body =>
    match parseTreeReq body with
    | some tr =>
      match tr.rest with
      | diag :: table =>
        match parseDiagram tr.n tr.tree diag, parseTable table with
        | some d, some tab =>
          match fillTTNO (fun l => (tab.lookup l).getD 0) d with
          | some T => fillStr tr.n T
          | none => "raise"
        | _, _ => "bad-op"
      | [] => "bad-op"
    | none => "bad-op"
  | "single" :: j :: body =>
    match j.toNat?, parseReq body with
    | some jj, some r =>
      match r.terms[jj]? with
      | some tm => canonFSum r.n (sdDenote (singleTerm r.tree tm))
      | none => "bad-op"
    | _, _ => "bad-op"
  | _ => "bad-op"

end Ptn.C01
