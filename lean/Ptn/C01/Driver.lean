import Ptn.C01.Model
/-! Line-protocol handler for the C01 model (core Lean only). -/
namespace Ptn.C01
def handle (args : List String) : String := "bad-op"
end Ptn.C01
