import Ptn.C01.Model
/-! Line-protocol handler for the C01 model (core Lean only).

Request body (after the command word), space separated:

  `<n>  <parent of node 0 … n-1, root = -1>  <children of node 0 … n-1 in reference order, joined by '.', '-' if none>
   <operator dimension of node 0 … n-1>  <T>  then per term: <num> <den> <sym> <k> (<site> <label>)*k`

  denote  … → canonical formal sum denoted by the uncompressed (BASE) diagram of the model
  ham     … → canonical formal sum of the identity-padded Hamiltonian itself
  diagram … → the BASE diagram: per node (index order) `<i>=<label>|<num>/<den>|<gamma>|<vertex positions toward
              parent, children…, joined by '.'>` hyperedges joined by ',', nodes joined by ';', then `;` and the
              edges `<parent>-<child>:<number of vertices>` joined by ','
  single <j> … → canonical formal sum denoted by the single-term diagram of term number j

Canonical formal sum: summands `<num>/<den>*<sym>:<label of node 0>,…,<label of node n-1>` with equal
(assignment, symbols) merged and zero coefficients dropped, sorted by (labels, symbols), joined by ' '; `0` if empty.
Malformed requests answer `bad-op`. -/
namespace Ptn.C01

structure Req where
  n : Nat
  tree : RTree
  par : List Int
  terms : List Term

def parseKids (s : String) : Option (List Nat) :=
  if s = "-" then some [] else (s.splitOn ".").mapM String.toNat?

/-- Build the tree below node `i` (fuel bounds the depth; a cycle exhausts it). -/
def buildTree (kids : Array (List Nat)) (dims : Array Nat) : Nat → Nat → Option RTree
  | 0, _ => none
  | fuel + 1, i =>
    match kids[i]?, dims[i]? with
    | some ks, some d =>
      match ks.mapM (buildTree kids dims fuel) with
      | some ts => some (.node i d ts)
      | none => none
    | _, _ => none

def takeN {α : Type} (n : Nat) (l : List α) : Option (List α × List α) :=
  if l.length < n then none else some (l.take n, l.drop n)

def parseOps : Nat → List String → Option (List (Nat × String) × List String)
  | 0, rest => some ([], rest)
  | k + 1, s :: l :: rest =>
    match s.toNat?, parseOps k rest with
    | some i, some (ops, rest') => some ((i, l) :: ops, rest')
    | _, _ => none
  | _ + 1, _ => none

def parseTerms (n : Nat) : Nat → List String → Option (List Term)
  | 0, [] => some []
  | 0, _ :: _ => none
  | t + 1, num :: den :: sym :: k :: rest =>
    match num.toInt?, den.toNat?, k.toNat? with
    | some a, some b, some kk =>
      if b = 0 then none else
      match parseOps kk rest with
      | some (ops, rest') =>
        let sites := ops.map Prod.fst
        if sites.all (· < n) && sites.eraseDups.length == sites.length then
          match parseTerms n t rest' with
          | some ts => some (⟨mkRat a b, sym, ops⟩ :: ts)
          | none => none
        else none
      | none => none
    | _, _, _ => none
  | _ + 1, _ => none

def parseReq (args : List String) : Option Req :=
  match args with
  | [] => none
  | ns :: rest =>
    match ns.toNat? with
    | none => none
    | some n =>
      if n = 0 then none else
      match takeN n rest with
      | none => none
      | some (ps, rest1) =>
        match takeN n rest1 with
        | none => none
        | some (ks, rest2) =>
          match takeN n rest2 with
          | none => none
          | some (ds, rest3) =>
            match ps.mapM String.toInt?, ks.mapM parseKids, ds.mapM String.toNat?, rest3 with
            | some par, some kids, some dims, ts :: rest4 =>
              -- consistency of parents and child lists
              let okKids := (List.range n).all fun i =>
                let want := (List.range n).filter fun c => par.getD c 0 == (i : Int)
                let got := kids.getD i []
                got.length == want.length && want.all (got.contains ·) && got.all (· < n)
              let roots := (List.range n).filter fun c => par.getD c 0 == -1
              match roots, ts.toNat? with
              | [r], some t =>
                if !okKids || t = 0 then none else
                match buildTree kids.toArray dims.toArray (n + 1) r, parseTerms n t rest4 with
                | some tree, some terms =>
                  if tree.ids.length = n then some ⟨n, tree, par, terms⟩ else none
                | _, _ => none
              | _, _ => none
            | _, _, _, _ => none

/-! ### canonical output -/

def ratStr (q : Rat) : String := s!"{q.num}/{q.den}"

def symStr (syms : List String) : String := if syms.isEmpty then "1" else ".".intercalate syms

/-- Labels in node-index order (every node occurs exactly once in a well-formed assignment). -/
def labelsOf (n : Nat) (asg : List (Nat × String)) : List String :=
  (List.range n).map fun i => (asg.lookup i).getD "?"

def ltLabels : List String → List String → Bool
  | [], [] => false
  | [], _ :: _ => true
  | _ :: _, [] => false
  | a :: as, b :: bs => if a < b then true else if b < a then false else ltLabels as bs

def keyLt (x y : List String × String) : Bool :=
  if ltLabels x.1 y.1 then true else if ltLabels y.1 x.1 then false else decide (x.2 < y.2)

def insertKey (k : List String × String) (c : Rat) :
    List ((List String × String) × Rat) → List ((List String × String) × Rat)
  | [] => [(k, c)]
  | (k', c') :: rest =>
    if k = k' then (k', c' + c) :: rest
    else if keyLt k k' then (k, c) :: (k', c') :: rest
    else (k', c') :: insertKey k c rest

def canonFSum (n : Nat) (fs : FSum) : String :=
  let merged := fs.foldl (fun acc m => insertKey (labelsOf n m.asg, symStr m.syms) m.coef acc) []
  let kept := merged.filter fun kc => kc.2 != 0
  if kept.isEmpty then "0" else
    " ".intercalate (kept.map fun kc => s!"{ratStr kc.2}*{kc.1.2}:{",".intercalate kc.1.1}")

-- All nodes of a diagram with the identifier of their parent.
mutual
def flattenSD (parent : Option Nat) : SD → List (Nat × Option Nat × Nat × List HE)
  | .node i nv hes kids => (i, parent, nv, hes) :: flattenKids (some i) kids
def flattenKids (parent : Option Nat) : List SD → List (Nat × Option Nat × Nat × List HE)
  | [] => []
  | k :: ks => flattenSD parent k ++ flattenKids parent ks
end

def heStr (h : HE) : String :=
  let pos := (match h.pv with | some p => [p] | none => []) ++ h.kv
  s!"{h.label}|{ratStr h.lam}|{h.gam}|{".".intercalate (pos.map toString)}"

def diagramStr (n : Nat) (d : SD) : String :=
  let flat := flattenSD none d
  let nodes := (List.range n).map fun i =>
    match flat.find? (fun x => x.1 == i) with
    | some (_, _, _, hes) => s!"{i}=" ++ ",".intercalate (hes.map heStr)
    | none => s!"{i}=?"
  let edges := (List.range n).filterMap fun i =>
    match flat.find? (fun x => x.1 == i) with
    | some (_, some p, nv, _) => some s!"{p}-{i}:{nv}"
    | _ => none
  ";".intercalate nodes ++ ";" ++ ",".intercalate edges

def handle (args : List String) : String :=
  match args with
  | "denote" :: body =>
    match parseReq body with
    | some r =>
      match baseDiagram r.tree r.terms with
      | some d => canonFSum r.n (sdDenote d)
      | none => "bad-op"
    | none => "bad-op"
  | "ham" :: body =>
    match parseReq body with
    | some r => canonFSum r.n (hamDenote r.tree r.terms)
    | none => "bad-op"
  | "diagram" :: body =>
    match parseReq body with
    | some r =>
      match baseDiagram r.tree r.terms with
      | some d => diagramStr r.n d
      | none => "bad-op"
    | none => "bad-op"
  | "single" :: j :: body =>
    match j.toNat?, parseReq body with
    | some jj, some r =>
      match r.terms[jj]? with
      | some tm => canonFSum r.n (sdDenote (singleTerm r.tree tm))
      | none => "bad-op"
    | _, _ => "bad-op"
  | _ => "bad-op"

end Ptn.C01
