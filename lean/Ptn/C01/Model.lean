/-! Model for property C01 (core Lean only; no Mathlib). -/
namespace Ptn.C01
end Ptn.C01
