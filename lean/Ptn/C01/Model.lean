/-! Model for property C01: state diagrams of `pytreenet/ttno` as pure data, their denotation as a
formal operator sum, and functional ports of

* `TensorProduct.pad_with_identities` / `Hamiltonian.pad_with_identities`          ↔ `padLabel`
* `SingleTermDiagram.from_single_term` (`_from_single_term_rec`)                    ↔ `singleAt`
* `StateDiagram.sum_states`                                                         ↔ `sumSD`
* `StateDiagram.get_state_diagram_compound` / `from_hamiltonian_base` (method BASE) ↔ `baseDiagram`
* `VertexColl.index_vertices` + `obtain_tensor_shape` (bond = number of vertices)   ↔ `bondDims`

Core Lean only.

A state diagram lives on the reference tree: the Python dictionaries `hyperedge_colls[node_id]` and
`vertex_colls[(parent, child)]` are decorations of the tree's nodes and edges (node identifiers are
unique dictionary keys).  A vertex is identified by its position in the ordered collection of its edge
(this is exactly the index `index_vertices` assigns and the only thing `from_state_diagram` reads); a
hyperedge names one vertex per incident edge: `pv` toward the parent (absent at the root) and `kv`
toward the children in reference order.  Python identifies vertices by object identity; concatenating
two collections (`sum_states`) therefore shifts the positions of the second summand - `shiftHE`. -/
namespace Ptn.C01

/-- Reference tree: identifier, dimension of the operator space of the site (open dimension, 1 if the
    node has no open leg), children in reference order. -/
inductive RTree where
  | node (id : Nat) (dim : Nat) (kids : List RTree)
deriving Repr

def RTree.id : RTree → Nat
  | .node i _ _ => i

def RTree.kids : RTree → List RTree
  | .node _ _ ks => ks

/-- One Hamiltonian term: rational prefactor, symbol (`"1"` = no symbol), operator labels per site. -/
structure Term where
  coef : Rat
  sym : String
  ops : List (Nat × String)
deriving Repr

/-- `pad_with_identities(symbolic=True)`: the label of site `i` (of dimension `dim`) in the padded term. -/
def padLabel (ops : List (Nat × String)) (i dim : Nat) : String :=
  match ops.lookup i with
  | some l => l
  | none => "I" ++ toString dim

/-- A hyperedge: label, rational factor λ, symbolic factor γ, vertex toward the parent, vertices toward
    the children (reference order). -/
structure HE where
  label : String
  lam : Rat
  gam : String
  pv : Option Nat
  kv : List Nat
deriving Repr, DecidableEq

/-- A state diagram on a tree: per node its identifier, the number of vertices on the edge to its
    parent (the ordered vertex collection is `[0, …, nv-1]`; 0 at the root), the ordered list of its
    hyperedges, and the diagrams of the children. -/
inductive SD where
  | node (id : Nat) (nv : Nat) (hes : List HE) (kids : List SD)
deriving Repr

def SD.id : SD → Nat
  | .node i _ _ _ => i
def SD.nv : SD → Nat
  | .node _ n _ _ => n
def SD.hes : SD → List HE
  | .node _ _ h _ => h
def SD.kids : SD → List SD
  | .node _ _ _ ks => ks

/-! ### Formal operator sums -/

/-- One summand: rational coefficient × product of symbols × label assignment (site ↦ label). -/
structure Mono where
  coef : Rat
  syms : List String
  asg : List (Nat × String)
deriving Repr, DecidableEq

/-- A formal sum, as the list of its summands.  The finitely supported map
    (assignment, monomial) ↦ coefficient it stands for is `coeffOf`. -/
abbrev FSum := List Mono

/-- Sorted insertion of a symbol into a monomial (`"1"` is the empty product). -/
def insSym (s : String) : List String → List String
  | [] => [s]
  | t :: ts => if s ≤ t then s :: t :: ts else t :: insSym s ts

def symMono (g : String) : List String := if g = "1" then [] else [g]

def mulSyms (a b : List String) : List String := a.foldr insSym b

def Mono.one : Mono := ⟨1, [], []⟩

def Mono.mul (x y : Mono) : Mono := ⟨x.coef * y.coef, mulSyms x.syms y.syms, x.asg ++ y.asg⟩

def FSum.mul (a b : FSum) : FSum := a.flatMap fun x => b.map fun y => x.mul y

/-- The summand contributed by hyperedge `h` of node `i`, times a summand of the subtrees below. -/
def attach (i : Nat) (h : HE) (m : Mono) : Mono :=
  ⟨h.lam * m.coef, mulSyms (symMono h.gam) m.syms, (i, h.label) :: m.asg⟩

/-- Coefficient of (assignment `a`, monomial `m`) in a formal sum: the finitely supported map. -/
def coeffOf (fs : FSum) (a : List (Nat × String)) (m : List String) : Rat :=
  (fs.filter fun x => x.asg = a ∧ x.syms = m).foldr (fun x acc => x.coef + acc) 0

/-! ### Denotation -/

mutual
/-- Sum over all choices of one hyperedge per node of the subtree that agree on every vertex, given
    the vertex `pv` chosen on the edge to the parent (`none` at the root): product of the λ's and γ's
    times the label assignment.  (Distributivity turns the sum over global choices into this
    node-by-node form: the choices below different children are independent once the hyperedge of
    the node is fixed.) -/
def denoteAt : SD → Option Nat → FSum
  | .node i _ hes kids, pv =>
    hes.flatMap fun h => if h.pv = pv then (denoteKids kids h.kv).map (attach i h) else []
/-- Product over the children; a hyperedge that does not name exactly one vertex per child edge is
    malformed and contributes nothing. -/
def denoteKids : List SD → List Nat → FSum
  | [], [] => [Mono.one]
  | k :: ks, v :: vs => FSum.mul (denoteAt k (some v)) (denoteKids ks vs)
  | [], _ :: _ => []
  | _ :: _, [] => []
end

/-- The formal operator denoted by a state diagram. -/
def sdDenote (d : SD) : FSum := denoteAt d none

/-! The same denotation written out as the explicit sum over *all* global choices of one hyperedge
per node, keeping those that agree on every vertex (`sdDenoteEnum`; equality with `sdDenote` is
theorem `denote_eq_sum_over_choices`). -/

/-- A choice of one hyperedge for every node of a (sub)tree. -/
inductive Choice where
  | node (h : HE) (kids : List Choice)

mutual
/-- All choices: any hyperedge of the node, any choices below the children. -/
def choices : SD → List Choice
  | .node _ _ hes kids => hes.flatMap fun h => (choicesKids kids).map (Choice.node h)
def choicesKids : List SD → List (List Choice)
  | [] => [[]]
  | k :: ks => (choices k).flatMap fun c => (choicesKids ks).map (c :: ·)
end

mutual
/-- The chosen hyperedges agree on every vertex: the hyperedge of the node sits on vertex `pv` of the
    parent edge and each child's hyperedge sits on the vertex the node's hyperedge names. -/
def consistent : Choice → Option Nat → Bool
  | .node h cs, pv => decide (h.pv = pv) && consistentKids cs h.kv
def consistentKids : List Choice → List Nat → Bool
  | [], [] => true
  | c :: cs, v :: vs => consistent c (some v) && consistentKids cs vs
  | [], _ :: _ => false
  | _ :: _, [] => false
end

mutual
/-- Weight and label assignment of a choice: product of all λ, all γ, and the chosen labels. -/
def monoOf : SD → Choice → Mono
  | .node i _ _ kids, .node h cs => attach i h (monoKids kids cs)
def monoKids : List SD → List Choice → Mono
  | k :: ks, c :: cs => (monoOf k c).mul (monoKids ks cs)
  | [], _ => Mono.one
  | _ :: _, [] => Mono.one
end

def sdDenoteEnum (d : SD) : FSum := ((choices d).filter (consistent · none)).map (monoOf d)

/-! ### `SingleTermDiagram.from_single_term` -/

mutual
/-- `_from_single_term_rec`: one hyperedge per node, labelled by the (padded) term, one vertex per
    edge; the coefficient pair sits on the root hyperedge only, every other hyperedge carries the
    default `(Fraction(1), "1")`. -/
def singleAt (ops : List (Nat × String)) (coef : Rat) (sym : String) (isRoot : Bool) : RTree → SD
  | .node i dim kids =>
    .node i (if isRoot then 0 else 1)
      [{ label := padLabel ops i dim,
         lam := if isRoot then coef else 1,
         gam := if isRoot then sym else "1",
         pv := if isRoot then none else some 0,
         kv := kids.map fun _ => 0 }]
      (singleKids ops coef sym kids)
def singleKids (ops : List (Nat × String)) (coef : Rat) (sym : String) : List RTree → List SD
  | [] => []
  | k :: ks => singleAt ops coef sym false k :: singleKids ops coef sym ks
end

def singleTerm (t : RTree) (tm : Term) : SD := singleAt tm.ops tm.coef tm.sym true t

/-! ### `StateDiagram.sum_states` -/

/-- Positions of the second summand's vertices after concatenating the collections. -/
def shiftHE (np : Nat) (nk : List Nat) (h : HE) : HE :=
  { h with pv := h.pv.map (· + np), kv := List.zipWith (· + ·) h.kv nk }

mutual
/-- `sum_states`: per node the hyperedge lists are concatenated, per edge the vertex lists. -/
def sumSD : SD → SD → SD
  | .node i n1 h1 k1, .node _ n2 h2 k2 =>
    .node i (n1 + n2) (h1 ++ h2.map (shiftHE n1 (k1.map SD.nv))) (sumKids k1 k2)
def sumKids : List SD → List SD → List SD
  | a :: as, b :: bs => sumSD a b :: sumKids as bs
  | as, [] => as
  | [], bs => bs
end

/-- `get_state_diagram_compound` after `get_state_diagrams`: left fold of `sum_states` over the
    single-term diagrams; `none` for an empty Hamiltonian (Python returns `None`). -/
def baseDiagram (t : RTree) : List Term → Option SD
  | [] => none
  | tm :: rest => some (rest.foldl (fun acc x => sumSD acc (singleTerm t x)) (singleTerm t tm))

/-! ### What the Hamiltonian itself denotes -/

mutual
/-- The padded label assignment of a term, in the preorder of the tree. -/
def asgOf (ops : List (Nat × String)) : RTree → List (Nat × String)
  | .node i dim kids => (i, padLabel ops i dim) :: asgKids ops kids
def asgKids (ops : List (Nat × String)) : List RTree → List (Nat × String)
  | [] => []
  | k :: ks => asgOf ops k ++ asgKids ops ks
end

def termMono (t : RTree) (tm : Term) : Mono := ⟨tm.coef, symMono tm.sym, asgOf tm.ops t⟩

/-- Σ_k c_k ⊗_sites A_k as a formal sum. -/
def hamDenote (t : RTree) (terms : List Term) : FSum := terms.map (termMono t)

/-! ### Bond dimensions (`index_vertices`, `obtain_tensor_shape`) -/

mutual
/-- (child identifier, number of vertices on the edge parent–child) for every edge below `d`. -/
def bondsBelow : SD → List (Nat × Nat)
  | .node _ _ _ kids => bondsKids kids
def bondsKids : List SD → List (Nat × Nat)
  | [] => []
  | k :: ks => (k.id, k.nv) :: (bondsBelow k ++ bondsKids ks)
end

/-- Bond dimension of every edge of the TTNO filled from the diagram, keyed by the child. -/
def bondDims (d : SD) : List (Nat × Nat) := bondsBelow d

mutual
def RTree.edgesBelow : RTree → List Nat
  | .node _ _ kids => RTree.edgesKids kids
def RTree.edgesKids : List RTree → List Nat
  | [] => []
  | k :: ks => k.id :: (RTree.edgesBelow k ++ RTree.edgesKids ks)
end

mutual
def RTree.ids : RTree → List Nat
  | .node i _ kids => i :: RTree.idsKids kids
def RTree.idsKids : List RTree → List Nat
  | [] => []
  | k :: ks => RTree.ids k ++ RTree.idsKids ks
end

/-! ### Well-formedness (what `from_state_diagram` relies on) -/

/-- `vs` names one existing vertex per child edge. -/
def kvOk : List Nat → List SD → Prop
  | [], [] => True
  | v :: vs, k :: ks => v < k.nv ∧ kvOk vs ks
  | [], _ :: _ => False
  | _ :: _, [] => False

mutual
/-- Every hyperedge names one vertex per incident edge and every such vertex exists in the edge's
    collection (position below the number of vertices).  At the root `nv = 0`, so `pv = none`. -/
def SD.WF : SD → Prop
  | .node _ nv hes kids =>
    (∀ h ∈ hes, (∀ p, h.pv = some p → p < nv) ∧ kvOk h.kv kids) ∧ WFKids kids
def WFKids : List SD → Prop
  | [] => True
  | k :: ks => k.WF ∧ WFKids ks
end

mutual
/-- Two diagrams live on the same tree (same identifiers, same branching). -/
def SameShape : SD → SD → Prop
  | .node i _ _ k1, .node j _ _ k2 => i = j ∧ SameShapeKids k1 k2
def SameShapeKids : List SD → List SD → Prop
  | [], [] => True
  | a :: as, b :: bs => SameShape a b ∧ SameShapeKids as bs
  | [], _ :: _ => False
  | _ :: _, [] => False
end

end Ptn.C01
