/-! Model for property C01: state diagrams of `pytreenet/ttno` as pure data, their denotation as a
formal operator sum, and functional ports of

* `TensorProduct.pad_with_identities` / `Hamiltonian.pad_with_identities`          ↔ `padLabel`
* `SingleTermDiagram.from_single_term` (`_from_single_term_rec`)                    ↔ `singleAt`
* `StateDiagram.sum_states`                                                         ↔ `sumSD`
* `StateDiagram.get_state_diagram_compound` / `from_hamiltonian_base` (method BASE) ↔ `baseDiagram`
* `VertexColl.index_vertices` + `obtain_tensor_shape` (bond = number of vertices)   ↔ `bondDims`

Core Lean only.

A state diagram lives on the reference tree: the Python dictionaries `hyperedge_colls[node_id]` and
`vertex_colls[(parent, child)]` are decorations of the tree's nodes and edges (node identifiers are
unique dictionary keys).  A vertex is identified by its position in the ordered collection of its edge
(this is exactly the index `index_vertices` assigns and the only thing `from_state_diagram` reads); a
hyperedge names one vertex per incident edge: `pv` toward the parent (absent at the root) and `kv`
toward the children in reference order.  Python identifies vertices by object identity; concatenating
two collections (`sum_states`) therefore shifts the positions of the second summand - `shiftHE`. -/
namespace Ptn.C01

/-- Reference tree: identifier, dimension of the operator space of the site (open dimension, 1 if the
    node has no open leg), children in reference order. -/
inductive RTree where
  | node (id : Nat) (dim : Nat) (kids : List RTree)
deriving Repr

def RTree.id : RTree → Nat
  | .node i _ _ => i

def RTree.kids : RTree → List RTree
  | .node _ _ ks => ks

/-- One Hamiltonian term: rational prefactor, symbol (`"1"` = no symbol), operator labels per site. -/
structure Term where
  coef : Rat
  sym : String
  ops : List (Nat × String)
deriving Repr

/-- `pad_with_identities(symbolic=True)`: the label of site `i` (of dimension `dim`) in the padded term. -/
def padLabel (ops : List (Nat × String)) (i dim : Nat) : String :=
  match ops.lookup i with
  | some l => l
  | none => "I" ++ toString dim

/-- A hyperedge: label, rational factor λ, symbolic factor γ, vertex toward the parent, vertices toward
    the children (reference order). -/
structure HE where
  label : String
  lam : Rat
  gam : String
  pv : Option Nat
  kv : List Nat
deriving Repr, DecidableEq

/-- A state diagram on a tree: per node its identifier, the number of vertices on the edge to its
    parent (the ordered vertex collection is `[0, …, nv-1]`; 0 at the root), the ordered list of its
    hyperedges, and the diagrams of the children. -/
inductive SD where
  | node (id : Nat) (nv : Nat) (hes : List HE) (kids : List SD)
deriving Repr

def SD.id : SD → Nat
  | .node i _ _ _ => i
def SD.nv : SD → Nat
  | .node _ n _ _ => n
def SD.hes : SD → List HE
  | .node _ _ h _ => h
def SD.kids : SD → List SD
  | .node _ _ _ ks => ks

/-! ### Formal operator sums -/

/-- One summand: rational coefficient × product of symbols × label assignment (site ↦ label). -/
structure Mono where
  coef : Rat
  syms : List String
  asg : List (Nat × String)
deriving Repr, DecidableEq

/-- A formal sum, as the list of its summands.  The finitely supported map
    (assignment, monomial) ↦ coefficient it stands for is `coeffOf`. -/
abbrev FSum := List Mono

/-- Sorted insertion of a symbol into a monomial (`"1"` is the empty product). -/
def insSym (s : String) : List String → List String
  | [] => [s]
  | t :: ts => if s ≤ t then s :: t :: ts else t :: insSym s ts

def symMono (g : String) : List String := if g = "1" then [] else [g]

def mulSyms (a b : List String) : List String := a.foldr insSym b

def Mono.one : Mono := ⟨1, [], []⟩

def Mono.mul (x y : Mono) : Mono := ⟨x.coef * y.coef, mulSyms x.syms y.syms, x.asg ++ y.asg⟩

def FSum.mul (a b : FSum) : FSum := a.flatMap fun x => b.map fun y => x.mul y

/-- The summand contributed by hyperedge `h` of node `i`, times a summand of the subtrees below. -/
def attach (i : Nat) (h : HE) (m : Mono) : Mono :=
  ⟨h.lam * m.coef, mulSyms (symMono h.gam) m.syms, (i, h.label) :: m.asg⟩

/-- Coefficient of (assignment `a`, monomial `m`) in a formal sum: the finitely supported map. -/
def coeffOf (fs : FSum) (a : List (Nat × String)) (m : List String) : Rat :=
  (fs.filter fun x => x.asg = a ∧ x.syms = m).foldr (fun x acc => x.coef + acc) 0

/-! ### Denotation -/

mutual
/-- Sum over all choices of one hyperedge per node of the subtree that agree on every vertex, given
    the vertex `pv` chosen on the edge to the parent (`none` at the root): product of the λ's and γ's
    times the label assignment.  (Distributivity turns the sum over global choices into this
    node-by-node form: the choices below different children are independent once the hyperedge of
    the node is fixed.) -/
def denoteAt : SD → Option Nat → FSum
  | .node i _ hes kids, pv =>
    hes.flatMap fun h => if h.pv = pv then (denoteKids kids h.kv).map (attach i h) else []
/-- Product over the children; a hyperedge that does not name exactly one vertex per child edge is
    malformed and contributes nothing. -/
def denoteKids : List SD → List Nat → FSum
  | [], [] => [Mono.one]
  | k :: ks, v :: vs => FSum.mul (denoteAt k (some v)) (denoteKids ks vs)
  | [], _ :: _ => []
  | _ :: _, [] => []
end

/-- The formal operator denoted by a state diagram. -/
def sdDenote (d : SD) : FSum := denoteAt d none

/-! The same denotation written out as the explicit sum over *all* global choices of one hyperedge
per node, keeping those that agree on every vertex (`sdDenoteEnum`; equality with `sdDenote` is
theorem `denote_eq_sum_over_choices`). -/

/-- A choice of one hyperedge for every node of a (sub)tree. -/
inductive Choice where
  | node (h : HE) (kids : List Choice)

mutual
/-- All choices: any hyperedge of the node, any choices below the children. -/
def choices : SD → List Choice
  | .node _ _ hes kids => hes.flatMap fun h => (choicesKids kids).map (Choice.node h)
def choicesKids : List SD → List (List Choice)
  | [] => [[]]
  | k :: ks => (choices k).flatMap fun c => (choicesKids ks).map (c :: ·)
end

mutual
/-- The chosen hyperedges agree on every vertex: the hyperedge of the node sits on vertex `pv` of the
    parent edge and each child's hyperedge sits on the vertex the node's hyperedge names. -/
def consistent : Choice → Option Nat → Bool
  | .node h cs, pv => decide (h.pv = pv) && consistentKids cs h.kv
def consistentKids : List Choice → List Nat → Bool
  | [], [] => true
  | c :: cs, v :: vs => consistent c (some v) && consistentKids cs vs
  | [], _ :: _ => false
  | _ :: _, [] => false
end

mutual
/-- Weight and label assignment of a choice: product of all λ, all γ, and the chosen labels. -/
def monoOf : SD → Choice → Mono
  | .node i _ _ kids, .node h cs => attach i h (monoKids kids cs)
def monoKids : List SD → List Choice → Mono
  | k :: ks, c :: cs => (monoOf k c).mul (monoKids ks cs)
  | [], _ => Mono.one
  | _ :: _, [] => Mono.one
end

def sdDenoteEnum (d : SD) : FSum := ((choices d).filter (consistent · none)).map (monoOf d)

/-! ### `SingleTermDiagram.from_single_term` -/

mutual
/-- `_from_single_term_rec`: one hyperedge per node, labelled by the (padded) term, one vertex per
    edge; the coefficient pair sits on the root hyperedge only, every other hyperedge carries the
    default `(Fraction(1), "1")`. -/
def singleAt (ops : List (Nat × String)) (coef : Rat) (sym : String) (isRoot : Bool) : RTree → SD
  | .node i dim kids =>
    .node i (if isRoot then 0 else 1)
      [{ label := padLabel ops i dim,
         lam := if isRoot then coef else 1,
         gam := if isRoot then sym else "1",
         pv := if isRoot then none else some 0,
         kv := kids.map fun _ => 0 }]
      (singleKids ops coef sym kids)
def singleKids (ops : List (Nat × String)) (coef : Rat) (sym : String) : List RTree → List SD
  | [] => []
  | k :: ks => singleAt ops coef sym false k :: singleKids ops coef sym ks
end

def singleTerm (t : RTree) (tm : Term) : SD := singleAt tm.ops tm.coef tm.sym true t

/-! ### `StateDiagram.sum_states` -/

/-- Positions of the second summand's vertices after concatenating the collections. -/
def shiftHE (np : Nat) (nk : List Nat) (h : HE) : HE :=
  { h with pv := h.pv.map (· + np), kv := List.zipWith (· + ·) h.kv nk }

mutual
/-- `sum_states`: per node the hyperedge lists are concatenated, per edge the vertex lists. -/
def sumSD : SD → SD → SD
  | .node i n1 h1 k1, .node _ n2 h2 k2 =>
    .node i (n1 + n2) (h1 ++ h2.map (shiftHE n1 (k1.map SD.nv))) (sumKids k1 k2)
def sumKids : List SD → List SD → List SD
  | a :: as, b :: bs => sumSD a b :: sumKids as bs
  | as, [] => as
  | [], bs => bs
end

/-- `get_state_diagram_compound` after `get_state_diagrams`: left fold of `sum_states` over the
    single-term diagrams; `none` for an empty Hamiltonian (Python returns `None`). -/
def baseDiagram (t : RTree) : List Term → Option SD
  | [] => none
  | tm :: rest => some (rest.foldl (fun acc x => sumSD acc (singleTerm t x)) (singleTerm t tm))

/-! ### What the Hamiltonian itself denotes -/

mutual
/-- The padded label assignment of a term, in the preorder of the tree. -/
def asgOf (ops : List (Nat × String)) : RTree → List (Nat × String)
  | .node i dim kids => (i, padLabel ops i dim) :: asgKids ops kids
def asgKids (ops : List (Nat × String)) : List RTree → List (Nat × String)
  | [] => []
  | k :: ks => asgOf ops k ++ asgKids ops ks
end

def termMono (t : RTree) (tm : Term) : Mono := ⟨tm.coef, symMono tm.sym, asgOf tm.ops t⟩

/-- Σ_k c_k ⊗_sites A_k as a formal sum. -/
def hamDenote (t : RTree) (terms : List Term) : FSum := terms.map (termMono t)

/-! ### Bond dimensions (`index_vertices`, `obtain_tensor_shape`) -/

mutual
/-- (child identifier, number of vertices on the edge parent–child) for every edge below `d`. -/
def bondsBelow : SD → List (Nat × Nat)
  | .node _ _ _ kids => bondsKids kids
def bondsKids : List SD → List (Nat × Nat)
  | [] => []
  | k :: ks => (k.id, k.nv) :: (bondsBelow k ++ bondsKids ks)
end

/-- Bond dimension of every edge of the TTNO filled from the diagram, keyed by the child. -/
def bondDims (d : SD) : List (Nat × Nat) := bondsBelow d

mutual
def RTree.edgesBelow : RTree → List Nat
  | .node _ _ kids => RTree.edgesKids kids
def RTree.edgesKids : List RTree → List Nat
  | [] => []
  | k :: ks => k.id :: (RTree.edgesBelow k ++ RTree.edgesKids ks)
end

mutual
def RTree.ids : RTree → List Nat
  | .node i _ kids => i :: RTree.idsKids kids
def RTree.idsKids : List RTree → List Nat
  | [] => []
  | k :: ks => RTree.ids k ++ RTree.idsKids ks
end

/-! ### `TreeTensorNetworkOperator.from_state_diagram` (tensor filling) and the contraction of a TTNO

`obtain_tensor_shape`: one bond index per vertex of each incident edge (parent first, children in
reference order), physical dimension from the operator table (`dimOf` of the first hyperedge's label).
`find_tensor_position`: the position of a hyperedge is the tuple of the indices of its vertices in the
collections of the incident edges - in the model a vertex *is* that index, so the position is `(pv, kv)`.
The operator `λ · γ · label` is ADDED at that position (`+=`): a cell holds the list of all contributions. -/

/-- One contribution to a tensor entry: `lam · gam · (operator of label)`. -/
structure Item where
  lam : Rat
  gam : String
  label : String
deriving Repr, DecidableEq

/-- Position in a node tensor: index on the parent leg (absent at the root), indices on the child legs. -/
abbrev Pos := Option Nat × List Nat

/-- The non-zero cells of a tensor (finitely supported map position ↦ formal operator sum). -/
abbrev Cells := List (Pos × List Item)

/-- `tensor[position] += item`. -/
def addAt : Cells → Pos → Item → Cells
  | [], p, x => [(p, [x])]
  | (q, xs) :: rest, p, x => if q = p then (q, xs ++ [x]) :: rest else (q, xs) :: addAt rest p x

/-- `tensor[position]` (the empty sum where nothing was written). -/
def entryAt : Cells → Pos → List Item
  | [], _ => []
  | (q, xs) :: rest, p => if q = p then xs else entryAt rest p

def HE.item (h : HE) : Item := ⟨h.lam, h.gam, h.label⟩

/-- The loop `for he in hyperedges: tensor[position(he)] += operator(he)` over one node. -/
def fillCells (hes : List HE) : Cells :=
  hes.foldl (fun T h => addAt T (h.pv, h.kv) h.item) []

/-- The position of a hyperedge lies inside the allocated tensor: parent index below the parent bond
    (no parent index at the root), exactly one index per child leg, each below that leg's bond.
    (Otherwise NumPy raises `IndexError`.) -/
def kvIn : List Nat → List Nat → Bool
  | [], [] => true
  | v :: vs, n :: ns => decide (v < n) && kvIn vs ns
  | [], _ :: _ => false
  | _ :: _, [] => false

def pvIn : Option Nat → Option Nat → Bool
  | none, none => true
  | some p, some n => decide (p < n)
  | none, some _ => false
  | some _, none => false

def inShape (pb : Option Nat) (kb : List Nat) (h : HE) : Bool := pvIn h.pv pb && kvIn h.kv kb

/-- A tree tensor network operator: identifier, bond to the parent (`none` at the root), physical
    dimension, the non-zero cells of the node tensor, children in reference order. -/
inductive TTNO where
  | node (id : Nat) (pbond : Option Nat) (phys : Nat) (cells : Cells) (kids : List TTNO)
deriving Repr

def TTNO.id : TTNO → Nat
  | .node i _ _ _ _ => i
def TTNO.bond : TTNO → Nat
  | .node _ pb _ _ _ => pb.getD 0
def TTNO.kids : TTNO → List TTNO
  | .node _ _ _ _ ks => ks

mutual
/-- `from_state_diagram`: `none` where the Python code raises (a node without hyperedge has no shape,
    a position outside the tensor is an `IndexError`). -/
def fillAt (dimOf : String → Nat) (isRoot : Bool) : SD → Option TTNO
  | .node i nv hes kids =>
    match fillKids dimOf kids with
    | none => none
    | some ks =>
      match hes with
      | [] => none
      | h0 :: _ =>
        if hes.all (inShape (if isRoot then none else some nv) (kids.map SD.nv)) then
          some (.node i (if isRoot then none else some nv) (dimOf h0.label) (fillCells hes) ks)
        else none
def fillKids (dimOf : String → Nat) : List SD → Option (List TTNO)
  | [] => some []
  | k :: ks =>
    match fillAt dimOf false k with
    | none => none
    | some a =>
      match fillKids dimOf ks with
      | none => none
      | some as => some (a :: as)
end

def fillTTNO (dimOf : String → Nat) (d : SD) : Option TTNO := fillAt dimOf true d

/-- All index tuples below the given bond dimensions (lexicographic). -/
def allTuples : List Nat → List (List Nat)
  | [] => [[]]
  | n :: ns => (List.range n).flatMap fun v => (allTuples ns).map (v :: ·)

def attachItem (i : Nat) (it : Item) (m : Mono) : Mono :=
  ⟨it.lam * m.coef, mulSyms (symMono it.gam) m.syms, (i, it.label) :: m.asg⟩

mutual
/-- Contraction of the subtree below a node, for a fixed index `pv` on the leg to its parent: sum over
    ALL index tuples of the child legs of (entry at that position) ⊗ (contractions of the children at
    those indices). -/
def contractAt : TTNO → Option Nat → FSum
  | .node i _ _ cells kids, pv =>
    (allTuples (contractBonds kids)).flatMap fun kv =>
      (entryAt cells (pv, kv)).flatMap fun it => (contractKids kids kv).map (attachItem i it)
def contractKids : List TTNO → List Nat → FSum
  | [], [] => [Mono.one]
  | k :: ks, v :: vs => FSum.mul (contractAt k (some v)) (contractKids ks vs)
  | [], _ :: _ => []
  | _ :: _, [] => []
def contractBonds : List TTNO → List Nat
  | [] => []
  | k :: ks => k.bond :: contractBonds ks
end

/-- The formal operator a TTNO contracts to: sum over all assignments of one index to every edge. -/
def ttnoContract (T : TTNO) : FSum := contractAt T none

/-- Identifiers and parent/child relations. -/
inductive Skel where
  | node (id : Nat) (kids : List Skel)
deriving Repr

mutual
def RTree.skel : RTree → Skel
  | .node i _ kids => .node i (RTree.skelKids kids)
def RTree.skelKids : List RTree → List Skel
  | [] => []
  | k :: ks => k.skel :: RTree.skelKids ks
end
mutual
def SD.skel : SD → Skel
  | .node i _ _ kids => .node i (SD.skelKids kids)
def SD.skelKids : List SD → List Skel
  | [] => []
  | k :: ks => k.skel :: SD.skelKids ks
end
mutual
def TTNO.skel : TTNO → Skel
  | .node i _ _ _ kids => .node i (TTNO.skelKids kids)
def TTNO.skelKids : List TTNO → List Skel
  | [] => []
  | k :: ks => k.skel :: TTNO.skelKids ks
end

mutual
/-- (child identifier, bond dimension) of every edge of a TTNO. -/
def TTNO.bondsBelow : TTNO → List (Nat × Nat)
  | .node _ _ _ _ kids => TTNO.bondsKids kids
def TTNO.bondsKids : List TTNO → List (Nat × Nat)
  | [] => []
  | k :: ks => (k.id, k.bond) :: (TTNO.bondsBelow k ++ TTNO.bondsKids ks)
end

mutual
/-- (identifier, physical dimension) of every node (preorder). -/
def TTNO.physDims : TTNO → List (Nat × Nat)
  | .node i _ ph _ kids => (i, ph) :: TTNO.physKids kids
def TTNO.physKids : List TTNO → List (Nat × Nat)
  | [] => []
  | k :: ks => TTNO.physDims k ++ TTNO.physKids ks
end

mutual
def RTree.dimsOf : RTree → List (Nat × Nat)
  | .node i dim kids => (i, dim) :: RTree.dimsKids kids
def RTree.dimsKids : List RTree → List (Nat × Nat)
  | [] => []
  | k :: ks => RTree.dimsOf k ++ RTree.dimsKids ks
end

mutual
/-- (identifier, label of the first hyperedge) of every node (preorder): `obtain_tensor_shape` reads the
    physical dimension off the first hyperedge of the node's collection. -/
def SD.firstLabels : SD → List (Nat × String)
  | .node i _ hes kids => (i, (hes.head?.map HE.label).getD "") :: SD.firstLabelsKids kids
def SD.firstLabelsKids : List SD → List (Nat × String)
  | [] => []
  | k :: ks => SD.firstLabels k ++ SD.firstLabelsKids ks
end

mutual
/-- Every node has at least one hyperedge, and hyperedges name a vertex on the parent edge exactly at
    the non-root nodes (`r` = "this node is the root"). -/
def Populated (r : Bool) : SD → Prop
  | .node _ _ hes kids => hes ≠ [] ∧ (∀ h ∈ hes, h.pv.isSome = !r) ∧ PopulatedKids kids
def PopulatedKids : List SD → Prop
  | [] => True
  | k :: ks => Populated false k ∧ PopulatedKids ks
end

/-! ### Well-formedness (what `from_state_diagram` relies on) -/

/-- `vs` names one existing vertex per child edge. -/
def kvOk : List Nat → List SD → Prop
  | [], [] => True
  | v :: vs, k :: ks => v < k.nv ∧ kvOk vs ks
  | [], _ :: _ => False
  | _ :: _, [] => False

mutual
/-- Every hyperedge names one vertex per incident edge and every such vertex exists in the edge's
    collection (position below the number of vertices).  At the root `nv = 0`, so `pv = none`. -/
def SD.WF : SD → Prop
  | .node _ nv hes kids =>
    (∀ h ∈ hes, (∀ p, h.pv = some p → p < nv) ∧ kvOk h.kv kids) ∧ WFKids kids
def WFKids : List SD → Prop
  | [] => True
  | k :: ks => k.WF ∧ WFKids ks
end

mutual
/-- Two diagrams live on the same tree (same identifiers, same branching). -/
def SameShape : SD → SD → Prop
  | .node i _ _ k1, .node j _ _ k2 => i = j ∧ SameShapeKids k1 k2
def SameShapeKids : List SD → List SD → Prop
  | [], [] => True
  | a :: as, b :: bs => SameShape a b ∧ SameShapeKids as bs
  | [], _ :: _ => False
  | _ :: _, [] => False
end

end Ptn.C01
