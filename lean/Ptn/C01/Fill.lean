import Ptn.C01.Model
import Ptn.C01.Lemmas
import Mathlib.Data.List.Perm.Basic
import Mathlib.Data.List.Nodup
/-! Lemmas for `from_state_diagram`: the contraction of the filled TTNO is the denotation of the
diagram (up to the order of the summands). -/
namespace Ptn.C01

open List

/-! ### cells -/

theorem entryAt_addAt (T : Cells) (q p : Pos) (x : Item) :
    entryAt (addAt T q x) p = entryAt T p ++ (if q = p then [x] else []) := by
  induction T with
  | nil =>
    simp only [addAt, entryAt]
    by_cases h : q = p <;> simp [h]
  | cons c rest ih =>
    obtain ⟨r, xs⟩ := c
    simp only [addAt]
    by_cases hrq : r = q
    · subst hrq
      simp only [if_true, entryAt]
      by_cases hp : r = p <;> simp [hp]
    · simp only [hrq, if_false, entryAt]
      by_cases hp : r = p
      · have hqp : ¬ q = p := fun h => hrq (hp.trans h.symm)
        simp [hp, hqp]
      · simp [hp, ih]

theorem entryAt_foldl (hes : List HE) (T0 : Cells) (p : Pos) :
    entryAt (hes.foldl (fun T h => addAt T (h.pv, h.kv) h.item) T0) p =
      entryAt T0 p ++ (hes.filter fun h => decide ((h.pv, h.kv) = p)).map HE.item := by
  induction hes generalizing T0 with
  | nil => simp
  | cons h hs ih =>
    rw [List.foldl_cons, ih, entryAt_addAt]
    by_cases hp : (h.pv, h.kv) = p <;> simp [hp]

/-- The entry of the filled tensor at a position: the contributions of exactly the hyperedges sitting
    there, in order (`+=`). -/
theorem entryAt_fillCells (hes : List HE) (p : Pos) :
    entryAt (fillCells hes) p = (hes.filter fun h => decide ((h.pv, h.kv) = p)).map HE.item := by
  unfold fillCells
  rw [entryAt_foldl]
  rfl

/-! ### index tuples -/

theorem mem_allTuples : ∀ (ns vs : List Nat), vs ∈ allTuples ns ↔ kvIn vs ns = true
  | [], [] => by simp [allTuples, kvIn]
  | [], v :: vs => by simp [allTuples, kvIn]
  | n :: ns, [] => by simp [allTuples, kvIn]
  | n :: ns, v :: vs => by
    have ih := mem_allTuples ns vs
    simp only [allTuples, List.mem_flatMap, List.mem_range, List.mem_map, kvIn, Bool.and_eq_true,
      decide_eq_true_eq]
    constructor
    · rintro ⟨a, ha, w, hw, hc⟩
      simp only [List.cons.injEq] at hc
      obtain ⟨rfl, rfl⟩ := hc
      exact ⟨ha, ih.1 hw⟩
    · rintro ⟨h1, h2⟩
      exact ⟨v, h1, vs, ih.2 h2, rfl⟩

theorem nodup_allTuples : ∀ ns : List Nat, (allTuples ns).Nodup
  | [] => by simp [allTuples]
  | n :: ns => by
    have ih := nodup_allTuples ns
    rw [allTuples, List.nodup_flatMap]
    constructor
    · intro v _
      exact ih.map (fun a b h => by simpa using h)
    · have hr : (List.range n).Nodup := List.nodup_range
      refine List.Pairwise.imp ?_ hr
      intro a b hab
      simp only [Function.onFun, List.disjoint_left, List.mem_map]
      rintro x ⟨w, _, rfl⟩ ⟨w', _, hc⟩
      simp only [List.cons.injEq] at hc
      exact hab hc.1.symm

/-! ### partition of a list by a key -/

theorem flatMap_filter_key_perm {α κ : Type} [DecidableEq κ] (key : α → κ) :
    ∀ (l : List α) (K : List κ), K.Nodup → (∀ x ∈ l, key x ∈ K) →
      (K.flatMap fun k => l.filter fun x => decide (key x = k)) ~ l
  | [], K, _, _ => by
    simp
  | a :: l, K, hK, hmem => by
    have ih := flatMap_filter_key_perm key l K hK (fun x hx => hmem x (List.mem_cons_of_mem _ hx))
    have ha : key a ∈ K := hmem a List.mem_cons_self
    have hsplit : ∀ k, (a :: l).filter (fun x => decide (key x = k)) =
        (if key a = k then [a] else []) ++ l.filter (fun x => decide (key x = k)) := by
      intro k
      by_cases h : key a = k <;> simp [h]
    simp only [hsplit]
    refine (List.flatMap_append_perm K _ _).symm.trans ?_
    have hone : (K.flatMap fun k => if key a = k then [a] else []) = [a] := by
      clear hsplit ih hmem
      induction K with
      | nil => simp at ha
      | cons k ks ihk =>
        rw [List.nodup_cons] at hK
        rw [List.flatMap_cons]
        by_cases hk : key a = k
        · have : ∀ k' ∈ ks, (if key a = k' then [a] else []) = [] := by
            intro k' hk'
            have : ¬ key a = k' := by
              intro hc; apply hK.1; rw [← hk, hc]; exact hk'
            simp [this]
          rw [if_pos hk, flatMap_eq_nil_of_forall _ _ this]
          rfl
        · rw [if_neg hk, List.nil_append]
          apply ihk hK.2
          rcases List.mem_cons.1 ha with h | h
          · exact absurd h hk
          · exact h
    rw [hone]
    exact List.Perm.cons a ih

/-! ### permutation congruences for formal sums -/

theorem FSum.mul_perm {a a' b b' : FSum} (ha : a ~ a') (hb : b ~ b') : FSum.mul a b ~ FSum.mul a' b' := by
  unfold FSum.mul
  refine (List.Perm.flatMap_right _ ha).trans ?_
  exact List.Perm.flatMap_left _ (fun x _ => hb.map _)

theorem flatMap_ite_eq_filter {α β : Type} (l : List α) (p : α → Prop) [DecidablePred p]
    (f : α → List β) :
    (l.flatMap fun x => if p x then f x else []) = (l.filter fun x => decide (p x)).flatMap f := by
  induction l with
  | nil => rfl
  | cons a l ih =>
    by_cases h : p a <;> simp [h, ih]

theorem attachItem_item (i : Nat) (h : HE) : attachItem i h.item = attach i h := by
  funext m; simp [attachItem, attach, HE.item]

/-! ### equations -/

theorem contractAt_node (i : Nat) (pb : Option Nat) (ph : Nat) (cells : Cells) (kids : List TTNO)
    (pv : Option Nat) :
    contractAt (.node i pb ph cells kids) pv =
      (allTuples (contractBonds kids)).flatMap fun kv =>
        (entryAt cells (pv, kv)).flatMap fun it => (contractKids kids kv).map (attachItem i it) := by
  rw [contractAt]

theorem contractKids_nil : contractKids [] [] = [Mono.one] := by rw [contractKids]
theorem contractKids_cons (k : TTNO) (ks : List TTNO) (v : Nat) (vs : List Nat) :
    contractKids (k :: ks) (v :: vs) = FSum.mul (contractAt k (some v)) (contractKids ks vs) := by
  rw [contractKids]
theorem contractKids_nil_cons (v : Nat) (vs : List Nat) : contractKids [] (v :: vs) = [] := by
  rw [contractKids]
theorem contractKids_cons_nil (k : TTNO) (ks : List TTNO) : contractKids (k :: ks) [] = [] := by
  rw [contractKids]
theorem contractBonds_cons (k : TTNO) (ks : List TTNO) :
    contractBonds (k :: ks) = k.bond :: contractBonds ks := by rw [contractBonds]
theorem contractBonds_nil : contractBonds [] = [] := by rw [contractBonds]

theorem fillKids_nil (dimOf : String → Nat) : fillKids dimOf [] = some [] := by rw [fillKids]

/-- What a successful fill of a node looks like. -/
theorem fillAt_some (dimOf : String → Nat) (r : Bool) (i nv : Nat) (hes : List HE) (kids : List SD)
    (T : TTNO) (h : fillAt dimOf r (.node i nv hes kids) = some T) :
    ∃ h0 rest ks, hes = h0 :: rest ∧ fillKids dimOf kids = some ks ∧
      hes.all (inShape (if r then none else some nv) (kids.map SD.nv)) = true ∧
      T = .node i (if r then none else some nv) (dimOf h0.label) (fillCells hes) ks := by
  rw [fillAt] at h
  cases hk : fillKids dimOf kids with
  | none => simp [hk] at h
  | some ks =>
    simp only [hk] at h
    cases hes with
    | nil => simp at h
    | cons h0 rest =>
      simp only at h
      by_cases hall : (h0 :: rest).all (inShape (if r then none else some nv) (kids.map SD.nv)) = true
      · rw [if_pos hall] at h
        exact ⟨h0, rest, ks, rfl, rfl, hall, (Option.some.inj h).symm⟩
      · rw [if_neg hall] at h
        simp at h

theorem fillKids_some (dimOf : String → Nat) (k : SD) (kids : List SD) (ks : List TTNO)
    (h : fillKids dimOf (k :: kids) = some ks) :
    ∃ a as, fillAt dimOf false k = some a ∧ fillKids dimOf kids = some as ∧ ks = a :: as := by
  rw [fillKids] at h
  cases ha : fillAt dimOf false k with
  | none => simp [ha] at h
  | some a =>
    cases hb : fillKids dimOf kids with
    | none => simp [ha, hb] at h
    | some as =>
      simp only [ha, hb, Option.some.injEq] at h
      exact ⟨a, as, rfl, rfl, h.symm⟩

theorem fillAt_bond (dimOf : String → Nat) (d : SD) (T : TTNO) (h : fillAt dimOf false d = some T) :
    T.bond = d.nv := by
  cases d with
  | node i nv hes kids =>
    obtain ⟨h0, rest, ks, _, _, _, rfl⟩ := fillAt_some dimOf false i nv hes kids T h
    simp [TTNO.bond, SD.nv]

theorem fillKids_bonds (dimOf : String → Nat) : ∀ (kids : List SD) (ks : List TTNO),
    fillKids dimOf kids = some ks → contractBonds ks = kids.map SD.nv
  | [], ks, h => by
    rw [fillKids_nil] at h
    cases h
    rw [contractBonds_nil]; rfl
  | k :: kids, ks, h => by
    obtain ⟨a, as, ha, hb, rfl⟩ := fillKids_some dimOf k kids ks h
    rw [contractBonds_cons, fillAt_bond dimOf k a ha, fillKids_bonds dimOf kids as hb]
    rfl

/-! ### the main statement -/

mutual
theorem contract_fill_perm (dimOf : String → Nat) : ∀ (d : SD) (r : Bool) (T : TTNO),
    fillAt dimOf r d = some T → ∀ pv : Option Nat, contractAt T pv ~ denoteAt d pv
  | .node i nv hes kids, r, T, hT, pv => by
    obtain ⟨h0, rest, ks, _, hks, hall, rfl⟩ := fillAt_some dimOf r i nv hes kids T hT
    have ihk := contractKids_fill_perm dimOf kids ks hks
    rw [contractAt_node, denoteAt_node, fillKids_bonds dimOf kids ks hks]
    -- entries of the filled tensor
    simp only [entryAt_fillCells, List.flatMap_map, attachItem_item]
    -- children: by induction
    have step1 : ((allTuples (kids.map SD.nv)).flatMap fun kv =>
          (hes.filter fun h => decide ((h.pv, h.kv) = (pv, kv))).flatMap fun h =>
            (contractKids ks kv).map (attach i h)) ~
        ((allTuples (kids.map SD.nv)).flatMap fun kv =>
          (hes.filter fun h => decide ((h.pv, h.kv) = (pv, kv))).flatMap fun h =>
            (denoteKids kids h.kv).map (attach i h)) := by
      apply List.Perm.flatMap_left
      intro kv _
      apply List.Perm.flatMap_left
      intro h hh
      have hkv : h.kv = kv := by
        have := (List.mem_filter.1 hh).2
        simp only [decide_eq_true_eq, Prod.mk.injEq] at this
        exact this.2
      rw [hkv]
      exact (ihk kv).map _
    refine step1.trans ?_
    -- regroup: first filter on the parent index, then partition by the child indices
    have hfil : ∀ kv, (hes.filter fun h => decide ((h.pv, h.kv) = (pv, kv))) =
        ((hes.filter fun h => decide (h.pv = pv)).filter fun h => decide (h.kv = kv)) := by
      intro kv
      rw [List.filter_filter]
      apply List.filter_congr
      intro h _
      by_cases h1 : h.pv = pv <;> by_cases h2 : h.kv = kv <;> simp [h1, h2]
    simp only [hfil]
    rw [flatMap_ite_eq_filter hes (fun h => h.pv = pv)
      (fun h => (denoteKids kids h.kv).map (attach i h))]
    rw [← List.flatMap_assoc]
    apply List.Perm.flatMap_right
    apply flatMap_filter_key_perm (fun h : HE => h.kv) _ _ (nodup_allTuples _)
    intro h hh
    have hmem := (List.mem_filter.1 hh).1
    have hin := List.all_eq_true.1 hall h hmem
    simp only [inShape, Bool.and_eq_true] at hin
    rw [mem_allTuples]
    exact hin.2
theorem contractKids_fill_perm (dimOf : String → Nat) : ∀ (kids : List SD) (ks : List TTNO),
    fillKids dimOf kids = some ks → ∀ vs : List Nat, contractKids ks vs ~ denoteKids kids vs
  | [], ks, h, vs => by
    rw [fillKids_nil] at h
    cases h
    cases vs with
    | nil => rw [contractKids_nil, denoteKids_nil]
    | cons v vs => rw [contractKids_nil_cons, denoteKids_nil_cons]
  | k :: kids, ks, h, vs => by
    obtain ⟨a, as, ha, hb, rfl⟩ := fillKids_some dimOf k kids ks h
    cases vs with
    | nil => rw [contractKids_cons_nil, denoteKids_cons_nil]
    | cons v vs =>
      rw [contractKids_cons, denoteKids_cons]
      exact FSum.mul_perm (contract_fill_perm dimOf k false a ha (some v))
        (contractKids_fill_perm dimOf kids as hb vs)
end

/-! ### the finitely supported map is invariant under permutation of the summands -/

theorem sumCoef_perm {l l' : List Mono} (h : l ~ l') :
    l.foldr (fun x acc => x.coef + acc) (0 : Rat) = l'.foldr (fun x acc => x.coef + acc) 0 := by
  induction h with
  | nil => rfl
  | cons y _ ih => simp only [List.foldr_cons, ih]
  | swap y z l =>
    simp only [List.foldr_cons]
    rw [← Rat.add_assoc, ← Rat.add_assoc, Rat.add_comm z.coef y.coef]
  | trans _ _ ih1 ih2 => exact ih1.trans ih2

theorem coeffOf_perm {a b : FSum} (h : a ~ b) (x : List (Nat × String)) (m : List String) :
    coeffOf a x m = coeffOf b x m := by
  unfold coeffOf
  exact sumCoef_perm (h.filter _)

/-! ### when the fill succeeds -/

theorem Populated_node (r : Bool) (i nv : Nat) (hes : List HE) (kids : List SD) :
    Populated r (.node i nv hes kids) ↔
      hes ≠ [] ∧ (∀ h ∈ hes, h.pv.isSome = !r) ∧ PopulatedKids kids := by rw [Populated]

theorem PopulatedKids_cons (k : SD) (ks : List SD) :
    PopulatedKids (k :: ks) ↔ Populated false k ∧ PopulatedKids ks := by rw [PopulatedKids]

theorem kvIn_of_kvOk : ∀ (vs : List Nat) (kids : List SD), kvOk vs kids → kvIn vs (kids.map SD.nv) = true
  | [], [], _ => by simp [kvIn]
  | v :: vs, k :: ks, h => by
    rw [kvOk_cons] at h
    simp [kvIn, h.1, kvIn_of_kvOk vs ks h.2]
  | [], _ :: _, h => by simp [kvOk] at h
  | _ :: _, [], h => by simp [kvOk] at h

mutual
theorem fill_defined_aux (dimOf : String → Nat) : ∀ (d : SD) (r : Bool), d.WF → Populated r d →
    ∃ T, fillAt dimOf r d = some T
  | .node i nv hes kids, r, w, pop => by
    rw [SD.WF_node] at w
    rw [Populated_node] at pop
    obtain ⟨ks, hks⟩ := fillKids_defined_aux dimOf kids w.2 pop.2.2
    rw [fillAt, hks]
    cases hes with
    | nil => exact absurd rfl pop.1
    | cons h0 rest =>
      have hall : (h0 :: rest).all (inShape (if r then none else some nv) (kids.map SD.nv)) = true := by
        rw [List.all_eq_true]
        intro h hh
        have hw := w.1 h hh
        have hp := pop.2.1 h hh
        simp only [inShape, Bool.and_eq_true]
        refine ⟨?_, kvIn_of_kvOk _ _ hw.2⟩
        cases r with
        | true =>
          cases hpv : h.pv with
          | none => simp [pvIn]
          | some p => rw [hpv] at hp; simp at hp
        | false =>
          cases hpv : h.pv with
          | none => rw [hpv] at hp; simp at hp
          | some p => simp [pvIn, hw.1 p hpv]
      simp only [hall, if_true]
      exact ⟨_, rfl⟩
theorem fillKids_defined_aux (dimOf : String → Nat) : ∀ (kids : List SD), WFKids kids →
    PopulatedKids kids → ∃ ks, fillKids dimOf kids = some ks
  | [], _, _ => ⟨[], by rw [fillKids]⟩
  | k :: kids, w, pop => by
    rw [WFKids_cons] at w
    rw [PopulatedKids_cons] at pop
    obtain ⟨a, ha⟩ := fill_defined_aux dimOf k false w.1 pop.1
    obtain ⟨as, has⟩ := fillKids_defined_aux dimOf kids w.2 pop.2
    exact ⟨a :: as, by rw [fillKids, ha, has]⟩
end

mutual
theorem singleAt_populated (ops : List (Nat × String)) (coef : Rat) (sym : String) (r : Bool) :
    ∀ t : RTree, Populated r (singleAt ops coef sym r t)
  | .node i dim kids => by
    rw [singleAt, Populated_node]
    refine ⟨by simp, ?_, singleKids_populated ops coef sym kids⟩
    intro h hh
    simp only [List.mem_singleton] at hh
    subst hh
    cases r <;> simp
theorem singleKids_populated (ops : List (Nat × String)) (coef : Rat) (sym : String) :
    ∀ ks : List RTree, PopulatedKids (singleKids ops coef sym ks)
  | [] => by rw [singleKids]; simp [PopulatedKids]
  | k :: ks => by
    rw [singleKids, PopulatedKids_cons]
    exact ⟨singleAt_populated ops coef sym false k, singleKids_populated ops coef sym ks⟩
end

mutual
theorem sumSD_populated : ∀ (d1 d2 : SD) (r : Bool), Populated r d1 → Populated r d2 →
    SameShape d1 d2 → Populated r (sumSD d1 d2)
  | .node i n1 h1 k1, .node j n2 h2 k2, r, p1, p2, ss => by
    rw [Populated_node] at p1 p2
    rw [SameShape_node] at ss
    rw [sumSD_node, Populated_node]
    refine ⟨?_, ?_, sumKids_populated k1 k2 p1.2.2 p2.2.2 ss.2⟩
    · intro hc
      exact p1.1 (List.append_eq_nil_iff.1 hc).1
    · intro h hh
      rw [List.mem_append] at hh
      rcases hh with hh | hh
      · exact p1.2.1 h hh
      · rw [List.mem_map] at hh
        obtain ⟨g, hg, rfl⟩ := hh
        rw [shiftHE_pv]
        have := p2.2.1 g hg
        cases hgp : g.pv <;> simp [hgp] at this ⊢ <;> exact this
theorem sumKids_populated : ∀ (k1 k2 : List SD), PopulatedKids k1 → PopulatedKids k2 →
    SameShapeKids k1 k2 → PopulatedKids (sumKids k1 k2)
  | [], [], _, _, _ => by rw [sumKids_nil]; simp [PopulatedKids]
  | a :: as, b :: bs, p1, p2, ss => by
    rw [PopulatedKids_cons] at p1 p2
    rw [SameShapeKids_cons] at ss
    rw [sumKids_cons, PopulatedKids_cons]
    exact ⟨sumSD_populated a b false p1.1 p2.1 ss.1, sumKids_populated as bs p1.2 p2.2 ss.2⟩
  | [], _ :: _, _, _, ss => by simp [SameShapeKids] at ss
  | _ :: _, [], _, _, ss => by simp [SameShapeKids] at ss
end

/-! ### structure: identifiers, relations, bonds, physical dimensions -/

mutual
theorem fill_skel (dimOf : String → Nat) : ∀ (d : SD) (r : Bool) (T : TTNO),
    fillAt dimOf r d = some T → T.skel = d.skel
  | .node i nv hes kids, r, T, h => by
    obtain ⟨h0, rest, ks, _, hks, _, rfl⟩ := fillAt_some dimOf r i nv hes kids T h
    rw [TTNO.skel, SD.skel, fillKids_skel dimOf kids ks hks]
theorem fillKids_skel (dimOf : String → Nat) : ∀ (kids : List SD) (ks : List TTNO),
    fillKids dimOf kids = some ks → TTNO.skelKids ks = SD.skelKids kids
  | [], ks, h => by
    rw [fillKids_nil] at h; cases h
    rw [TTNO.skelKids, SD.skelKids]
  | k :: kids, ks, h => by
    obtain ⟨a, as, ha, hb, rfl⟩ := fillKids_some dimOf k kids ks h
    rw [TTNO.skelKids, SD.skelKids, fill_skel dimOf k false a ha, fillKids_skel dimOf kids as hb]
end

theorem fillAt_id (dimOf : String → Nat) (d : SD) (r : Bool) (T : TTNO)
    (h : fillAt dimOf r d = some T) : T.id = d.id := by
  cases d with
  | node i nv hes kids =>
    obtain ⟨h0, rest, ks, _, _, _, rfl⟩ := fillAt_some dimOf r i nv hes kids T h
    rfl

mutual
theorem fill_bonds (dimOf : String → Nat) : ∀ (d : SD) (r : Bool) (T : TTNO),
    fillAt dimOf r d = some T → T.bondsBelow = bondsBelow d
  | .node i nv hes kids, r, T, h => by
    obtain ⟨h0, rest, ks, _, hks, _, rfl⟩ := fillAt_some dimOf r i nv hes kids T h
    rw [TTNO.bondsBelow, bondsBelow, fillKids_bondsList dimOf kids ks hks]
theorem fillKids_bondsList (dimOf : String → Nat) : ∀ (kids : List SD) (ks : List TTNO),
    fillKids dimOf kids = some ks → TTNO.bondsKids ks = bondsKids kids
  | [], ks, h => by
    rw [fillKids_nil] at h; cases h
    rw [TTNO.bondsKids, bondsKids]
  | k :: kids, ks, h => by
    obtain ⟨a, as, ha, hb, rfl⟩ := fillKids_some dimOf k kids ks h
    rw [TTNO.bondsKids, bondsKids, fill_bonds dimOf k false a ha, fillKids_bondsList dimOf kids as hb,
      fillAt_id dimOf k false a ha, fillAt_bond dimOf k a ha]
end

mutual
theorem fill_phys (dimOf : String → Nat) : ∀ (d : SD) (r : Bool) (T : TTNO),
    fillAt dimOf r d = some T → T.physDims = d.firstLabels.map fun p => (p.1, dimOf p.2)
  | .node i nv hes kids, r, T, h => by
    obtain ⟨h0, rest, ks, hhes, hks, _, rfl⟩ := fillAt_some dimOf r i nv hes kids T h
    subst hhes
    rw [TTNO.physDims, SD.firstLabels, fillKids_phys dimOf kids ks hks]
    simp
theorem fillKids_phys (dimOf : String → Nat) : ∀ (kids : List SD) (ks : List TTNO),
    fillKids dimOf kids = some ks →
      TTNO.physKids ks = (SD.firstLabelsKids kids).map fun p => (p.1, dimOf p.2)
  | [], ks, h => by
    rw [fillKids_nil] at h; cases h
    rw [TTNO.physKids, SD.firstLabelsKids]; rfl
  | k :: kids, ks, h => by
    obtain ⟨a, as, ha, hb, rfl⟩ := fillKids_some dimOf k kids ks h
    rw [TTNO.physKids, SD.firstLabelsKids, fill_phys dimOf k false a ha,
      fillKids_phys dimOf kids as hb, List.map_append]
end

/-! ### the diagrams built from a Hamiltonian -/

mutual
theorem singleAt_skel (ops : List (Nat × String)) (coef : Rat) (sym : String) (r : Bool) :
    ∀ t : RTree, (singleAt ops coef sym r t).skel = t.skel
  | .node i dim kids => by
    rw [singleAt, SD.skel, RTree.skel, singleKids_skel ops coef sym kids]
theorem singleKids_skel (ops : List (Nat × String)) (coef : Rat) (sym : String) :
    ∀ ks : List RTree, SD.skelKids (singleKids ops coef sym ks) = RTree.skelKids ks
  | [] => by rw [singleKids, SD.skelKids, RTree.skelKids]
  | k :: ks => by
    rw [singleKids, SD.skelKids, RTree.skelKids, singleAt_skel ops coef sym false k,
      singleKids_skel ops coef sym ks]
end

mutual
theorem sumSD_skel : ∀ (d1 d2 : SD), SameShape d1 d2 → (sumSD d1 d2).skel = d1.skel
  | .node i n1 h1 k1, .node j n2 h2 k2, ss => by
    rw [SameShape_node] at ss
    rw [sumSD_node, SD.skel, SD.skel, sumKids_skel k1 k2 ss.2]
theorem sumKids_skel : ∀ (k1 k2 : List SD), SameShapeKids k1 k2 →
    SD.skelKids (sumKids k1 k2) = SD.skelKids k1
  | [], [], _ => by rw [sumKids_nil]
  | a :: as, b :: bs, ss => by
    rw [SameShapeKids_cons] at ss
    rw [sumKids_cons, SD.skelKids, SD.skelKids, sumSD_skel a b ss.1, sumKids_skel as bs ss.2]
  | [], _ :: _, ss => by simp [SameShapeKids] at ss
  | _ :: _, [], ss => by simp [SameShapeKids] at ss
end

mutual
theorem singleAt_firstLabels (ops : List (Nat × String)) (coef : Rat) (sym : String) (r : Bool) :
    ∀ t : RTree, (singleAt ops coef sym r t).firstLabels = asgOf ops t
  | .node i dim kids => by
    rw [singleAt, SD.firstLabels, asgOf, singleKids_firstLabels ops coef sym kids]
    rfl
theorem singleKids_firstLabels (ops : List (Nat × String)) (coef : Rat) (sym : String) :
    ∀ ks : List RTree, SD.firstLabelsKids (singleKids ops coef sym ks) = asgKids ops ks
  | [] => by rw [singleKids, SD.firstLabelsKids, asgKids]
  | k :: ks => by
    rw [singleKids, SD.firstLabelsKids, asgKids, singleAt_firstLabels ops coef sym false k,
      singleKids_firstLabels ops coef sym ks]
end

mutual
theorem sumSD_firstLabels : ∀ (d1 d2 : SD) (r : Bool), Populated r d1 → SameShape d1 d2 →
    (sumSD d1 d2).firstLabels = d1.firstLabels
  | .node i n1 h1 k1, .node j n2 h2 k2, r, p1, ss => by
    rw [Populated_node] at p1
    rw [SameShape_node] at ss
    rw [sumSD_node, SD.firstLabels, SD.firstLabels, sumKids_firstLabels k1 k2 p1.2.2 ss.2]
    cases h1 with
    | nil => exact absurd rfl p1.1
    | cons g gs => rfl
theorem sumKids_firstLabels : ∀ (k1 k2 : List SD), PopulatedKids k1 → SameShapeKids k1 k2 →
    SD.firstLabelsKids (sumKids k1 k2) = SD.firstLabelsKids k1
  | [], [], _, _ => by rw [sumKids_nil]
  | a :: as, b :: bs, p1, ss => by
    rw [PopulatedKids_cons] at p1
    rw [SameShapeKids_cons] at ss
    rw [sumKids_cons, SD.firstLabelsKids, SD.firstLabelsKids, sumSD_firstLabels a b false p1.1 ss.1,
      sumKids_firstLabels as bs p1.2 ss.2]
  | [], _ :: _, _, ss => by simp [SameShapeKids] at ss
  | _ :: _, [], _, ss => by simp [SameShapeKids] at ss
end

/-- Invariants of the uncompressed diagram needed by the tensor filling. -/
theorem fold_fillable (t : RTree) (tm0 : Term) :
    ∀ (rest : List Term) (acc : SD), acc.WF → SameShape acc (singleTerm t tm0) → Populated true acc →
      acc.skel = t.skel → acc.firstLabels = asgOf tm0.ops t →
      let d := rest.foldl (fun a x => sumSD a (singleTerm t x)) acc
      d.WF ∧ Populated true d ∧ d.skel = t.skel ∧ d.firstLabels = asgOf tm0.ops t
  | [], acc, w, _, p, sk, fl => ⟨w, p, sk, fl⟩
  | x :: rest, acc, w, ss, p, sk, fl => by
    have hsx : SameShape acc (singleTerm t x) := sameShape_trans_single t tm0 x acc ss
    have wx : (singleTerm t x).WF := singleAt_WF _ _ _ true t
    have px : Populated true (singleTerm t x) := singleAt_populated _ _ _ true t
    have w' := sumSD_WF acc _ w wx hsx
    have ss' := sumSD_sameShape acc _ (singleTerm t tm0) hsx ss
    have p' := sumSD_populated acc _ true p px hsx
    have sk' : (sumSD acc (singleTerm t x)).skel = t.skel := by rw [sumSD_skel acc _ hsx, sk]
    have fl' : (sumSD acc (singleTerm t x)).firstLabels = asgOf tm0.ops t := by
      rw [sumSD_firstLabels acc _ true p hsx, fl]
    exact fold_fillable t tm0 rest _ w' ss' p' sk' fl'

mutual
theorem asg_dims (dimOf : String → Nat) (ops : List (Nat × String)) : ∀ t : RTree,
    (∀ p ∈ t.dimsOf, dimOf (padLabel ops p.1 p.2) = p.2) →
      (asgOf ops t).map (fun p => (p.1, dimOf p.2)) = t.dimsOf
  | .node i dim kids, h => by
    rw [RTree.dimsOf] at h
    rw [asgOf, RTree.dimsOf, List.map_cons,
      asgKids_dims dimOf ops kids (fun p hp => h p (List.mem_cons_of_mem _ hp))]
    have := h (i, dim) List.mem_cons_self
    simp only at this
    rw [this]
theorem asgKids_dims (dimOf : String → Nat) (ops : List (Nat × String)) : ∀ ks : List RTree,
    (∀ p ∈ RTree.dimsKids ks, dimOf (padLabel ops p.1 p.2) = p.2) →
      (asgKids ops ks).map (fun p => (p.1, dimOf p.2)) = RTree.dimsKids ks
  | [], _ => by rw [asgKids, RTree.dimsKids]; rfl
  | k :: ks, h => by
    rw [RTree.dimsKids] at h
    rw [asgKids, RTree.dimsKids, List.map_append,
      asg_dims dimOf ops k (fun p hp => h p (List.mem_append_left _ hp)),
      asgKids_dims dimOf ops ks (fun p hp => h p (List.mem_append_right _ hp))]
end

end Ptn.C01
