import Ptn.C01.Value
import Ptn.Common.EinsumNet
/-! General tree: the flat `Ptn.Ein.netValue` of the TTNO leaves over all tree bonds is the nested
contraction `treeVal` (hence the entrywise value of the formal sum). -/
namespace Ptn.C01

open List Ptn.Ein

/-- the edge (keyed by the child) a bond leg belongs to -/
def bondId : Leg → Option Nat
  | .up c => some c
  | .dn c => some c
  | _ => none

mutual
def treeIds : TTNO → List Nat
  | .node i _ _ _ kids => i :: kidsIds kids
def kidsIds : List TTNO → List Nat
  | [] => []
  | k :: ks => treeIds k ++ kidsIds ks
end

mutual
/-- the root carries no parent bond, every other node does, and the leg dimensions of every edge are
    the child's bond dimension -/
def Proper (dim : Leg → Nat) : Bool → TTNO → Prop
  | r, .node _ pb _ _ kids => pb.isSome = !r ∧ ProperKids dim kids
def ProperKids (dim : Leg → Nat) : List TTNO → Prop
  | [] => True
  | k :: ks => Proper dim false k ∧ dim (.dn k.id) = k.bond ∧ ProperKids dim ks
end

theorem id_mem_treeIds (k : TTNO) : k.id ∈ treeIds k := by
  cases k; simp [treeIds, TTNO.id]

theorem id_mem_kidsIds : ∀ (ks : List TTNO) (k : TTNO), k ∈ ks → k.id ∈ kidsIds ks
  | [], _, h => by simp at h
  | a :: as, k, h => by
    rw [kidsIds, List.mem_append]
    rcases List.mem_cons.1 h with h | h
    · left; rw [h]; exact id_mem_treeIds a
    · right; exact id_mem_kidsIds as k h

section
variable {R : Type} [CommSemiring R] (I : Interp R)

/-- nested sum over the child bonds, one child at a time -/
def nestSum (o n : Nat → Nat) : List TTNO → (List Nat → R) → R
  | [], G => G []
  | k :: ks, G =>
    ((List.range k.bond).map fun v => nestSum o n ks (fun vs => G (v :: vs)) * treeVal I o n k (some v)).sum

theorem sum_map_flatMap {α β : Type} (l : List α) (f : α → List β) (g : β → R) :
    ((l.flatMap f).map g).sum = (l.map fun x => ((f x).map g).sum).sum := by
  induction l with
  | nil => simp
  | cons a l ih => simp [ih]

theorem nestSum_eq (o n : Nat → Nat) : ∀ (ks : List TTNO) (G : List Nat → R),
    ((allTuples (contractBonds ks)).map fun kv => G kv * kidsVal I o n ks kv).sum = nestSum I o n ks G
  | [], G => by
    rw [contractBonds_nil, nestSum]
    simp [allTuples, kidsVal_nil]
  | k :: ks, G => by
    rw [contractBonds_cons, nestSum, allTuples, sum_map_flatMap]
    congr 1
    apply List.map_congr_left
    intro v _
    rw [List.map_map]
    have h : ∀ vs, ((fun kv => G kv * kidsVal I o n (k :: ks) kv) ∘ fun x => v :: x) vs =
        (G (v :: vs) * kidsVal I o n ks vs) * treeVal I o n k (some v) := by
      intro vs
      simp only [Function.comp, kidsVal_cons]
      ac_rfl
    rw [List.map_congr_left (fun vs _ => h vs), List.sum_map_mul_right,
      nestSum_eq o n ks (fun vs => G (v :: vs))]

theorem nestSum_mul_right (o n : Nat → Nat) (c : R) : ∀ (ks : List TTNO) (H : List Nat → R),
    nestSum I o n ks (fun vs => H vs * c) = nestSum I o n ks H * c
  | [], H => by simp [nestSum]
  | k :: ks, H => by
    rw [nestSum, nestSum, ← List.sum_map_mul_right]
    congr 1
    apply List.map_congr_left
    intro v _
    rw [nestSum_mul_right o n c ks (fun vs => H (v :: vs))]
    ac_rfl

/-- legs read inside a set of nodes: physical legs and the bond legs of edges keyed by these nodes -/
def SIn (ids : List Nat) (l : Leg) : Prop := bondId l = none ∨ ∃ j ∈ ids, bondId l = some j

/-- legs that are not bond legs of the edges keyed by these nodes -/
def SOut (ids : List Nat) (l : Leg) : Prop := ∀ j ∈ ids, bondId l ≠ some j

mutual
theorem treeBinds_ids : ∀ (T : TTNO), ∀ p ∈ treeBinds T,
    (∃ j ∈ kidsIds T.kids, bondId p.1 = some j) ∧ (∃ j ∈ kidsIds T.kids, bondId p.2 = some j)
  | .node i pb ph cells kids => by
    rw [treeBinds]
    exact kidsBinds_ids kids
theorem kidsBinds_ids : ∀ (ks : List TTNO), ∀ p ∈ kidsBinds ks,
    (∃ j ∈ kidsIds ks, bondId p.1 = some j) ∧ (∃ j ∈ kidsIds ks, bondId p.2 = some j)
  | [] => by rw [kidsBinds]; simp
  | k :: ks => by
    rw [kidsBinds, kidsIds]
    intro p hp
    rcases List.mem_cons.1 hp with hp | hp
    · subst hp
      exact ⟨⟨k.id, List.mem_append_left _ (id_mem_treeIds k), rfl⟩,
        ⟨k.id, List.mem_append_left _ (id_mem_treeIds k), rfl⟩⟩
    · rcases List.mem_append.1 hp with hp | hp
      · have := treeBinds_ids k p hp
        have hsub : ∀ j, j ∈ kidsIds k.kids → j ∈ treeIds k ++ kidsIds ks := by
          intro j hj
          apply List.mem_append_left
          cases k with
          | node i pb ph cells kids => rw [treeIds]; exact List.mem_cons_of_mem _ hj
        obtain ⟨⟨j1, hj1, e1⟩, ⟨j2, hj2, e2⟩⟩ := this
        exact ⟨⟨j1, hsub j1 hj1, e1⟩, ⟨j2, hsub j2 hj2, e2⟩⟩
      · obtain ⟨⟨j1, hj1, e1⟩, ⟨j2, hj2, e2⟩⟩ := kidsBinds_ids ks p hp
        exact ⟨⟨j1, List.mem_append_right _ hj1, e1⟩, ⟨j2, List.mem_append_right _ hj2, e2⟩⟩
end

theorem pairLegs_ids (ps : List (Leg × Leg)) (ids : List Nat)
    (h : ∀ p ∈ ps, (∃ j ∈ ids, bondId p.1 = some j) ∧ (∃ j ∈ ids, bondId p.2 = some j)) :
    ∀ l ∈ Expr.pairLegs ps, ¬ SOut ids l := by
  intro l hl hS
  simp only [Expr.pairLegs, List.mem_append, List.mem_map] at hl
  rcases hl with ⟨p, hp, rfl⟩ | ⟨p, hp, rfl⟩
  · obtain ⟨j, hj, e⟩ := (h p hp).1
    exact hS j hj e
  · obtain ⟨j, hj, e⟩ := (h p hp).2
    exact hS j hj e

theorem nodeLeaf_dep (i : Nat) (pb : Option Nat) (ph : Nat) (cells : Cells) (kids : List TTNO) :
    DependsOn (SIn (i :: kidsIds kids)) (nodeLeaf I (.node i pb ph cells kids)) := by
  intro σ τ h
  simp only [nodeLeaf]
  have e1 : (fun j => σ (.out j)) = fun j => τ (.out j) := by
    funext j; exact h _ (Or.inl rfl)
  have e2 : (fun j => σ (.inn j)) = fun j => τ (.inn j) := by
    funext j; exact h _ (Or.inl rfl)
  have e3 : σ (.up i) = τ (.up i) := h _ (Or.inr ⟨i, List.mem_cons_self, rfl⟩)
  have e4 : (kids.map fun k => σ (.dn k.id)) = kids.map fun k => τ (.dn k.id) := by
    apply List.map_congr_left
    intro k hk
    exact h _ (Or.inr ⟨k.id, List.mem_cons_of_mem _ (id_mem_kidsIds kids k hk), rfl⟩)
  rw [e1, e2, e3, e4]

mutual
theorem treeLeaves_dep : ∀ (T : TTNO), ∀ f ∈ treeLeaves I T, DependsOn (SIn (treeIds T)) f
  | .node i pb ph cells kids => by
    rw [treeLeaves, treeIds]
    intro f hf
    rcases List.mem_cons.1 hf with hf | hf
    · rw [hf]; exact nodeLeaf_dep I i pb ph cells kids
    · exact (kidsLeaves_dep kids f hf).mono (fun l hl => by
        rcases hl with hl | ⟨j, hj, e⟩
        · exact Or.inl hl
        · exact Or.inr ⟨j, List.mem_cons_of_mem _ hj, e⟩)
theorem kidsLeaves_dep : ∀ (ks : List TTNO), ∀ f ∈ kidsLeaves I ks, DependsOn (SIn (kidsIds ks)) f
  | [] => by rw [kidsLeaves]; simp
  | k :: ks => by
    rw [kidsLeaves, kidsIds]
    intro f hf
    rcases List.mem_append.1 hf with hf | hf
    · exact (treeLeaves_dep k f hf).mono (fun l hl => by
        rcases hl with hl | ⟨j, hj, e⟩
        · exact Or.inl hl
        · exact Or.inr ⟨j, List.mem_append_left _ hj, e⟩)
    · exact (kidsLeaves_dep ks f hf).mono (fun l hl => by
        rcases hl with hl | ⟨j, hj, e⟩
        · exact Or.inl hl
        · exact Or.inr ⟨j, List.mem_append_right _ hj, e⟩)
end

theorem nestSum_congr (o n : Nat → Nat) (ks : List TTNO) {G G' : List Nat → R} (h : ∀ vs, G vs = G' vs) :
    nestSum I o n ks G = nestSum I o n ks G' := by
  have : G = G' := funext h
  rw [this]

variable (dim : Leg → Nat)

mutual
theorem tree_net : ∀ (T : TTNO) (r : Bool), (treeIds T).Nodup → Proper dim r T → ∀ σ : Asg Leg,
    sumPairs dim (treeBinds T) (fun τ => prodL ((treeLeaves I T).map fun f => f τ)) σ =
      treeVal I (fun j => σ (.out j)) (fun j => σ (.inn j)) T (if r then none else some (σ (.up T.id)))
  | .node i pb ph cells kids, r, hnd, hp, σ => by
    rw [treeIds, List.nodup_cons] at hnd
    rw [Proper] at hp
    rw [treeBinds, treeLeaves, treeVal_node]
    have hG : ∀ vs, DependsOn (SOut (kidsIds kids)) (fun τ : Asg Leg =>
        cellVal I (fun j => τ (.out j)) (fun j => τ (.inn j)) i cells (pb.map (fun _ => τ (.up i)), vs)) := by
      intro vs σ₁ σ₂ h
      have e1 : (fun j => σ₁ (.out j)) = fun j => σ₂ (.out j) := by
        funext j; exact h _ (fun _ _ => by simp [bondId])
      have e2 : (fun j => σ₁ (.inn j)) = fun j => σ₂ (.inn j) := by
        funext j; exact h _ (fun _ _ => by simp [bondId])
      have e3 : σ₁ (.up i) = σ₂ (.up i) := h _ (fun j hj e => by
        simp only [bondId, Option.some.injEq] at e
        exact hnd.1 (e ▸ hj))
      simp only [e1, e2, e3]
    have := kids_net kids hnd.2 hp.2 (fun vs τ =>
        cellVal I (fun j => τ (.out j)) (fun j => τ (.inn j)) i cells (pb.map (fun _ => τ (.up i)), vs)) hG σ
    rw [← nestSum_eq] at this
    have hpv : pb.map (fun _ => σ (.up i)) = if r then none else some (σ (.up i)) := by
      cases r <;> cases pb <;> simp at hp ⊢
    simp only [TTNO.id, ← hpv]
    refine Eq.trans ?_ this
    apply sumPairs_congr
    intro τ
    simp only [List.map_cons, prodL, nodeLeaf]
theorem kids_net : ∀ (ks : List TTNO), (kidsIds ks).Nodup → ProperKids dim ks →
    ∀ (G : List Nat → Asg Leg → R), (∀ vs, DependsOn (SOut (kidsIds ks)) (G vs)) → ∀ σ : Asg Leg,
    sumPairs dim (kidsBinds ks) (fun τ => G (ks.map fun k => τ (.dn k.id)) τ *
        prodL ((kidsLeaves I ks).map fun f => f τ)) σ =
      nestSum I (fun j => σ (.out j)) (fun j => σ (.inn j)) ks (fun vs => G vs σ)
  | [], _, _, G, _, σ => by
    simp [kidsBinds, kidsLeaves, sumPairs, prodL, nestSum]
  | k :: ks, hnd, hp, G, hG, σ => by
    rw [kidsIds] at hnd
    rw [ProperKids] at hp
    obtain ⟨hpk, hdk, hpks⟩ := hp
    have hndk : (treeIds k).Nodup := (List.nodup_append.1 hnd).1
    have hndks : (kidsIds ks).Nodup := (List.nodup_append.1 hnd).2.1
    have hdisj : ∀ a, a ∈ treeIds k → a ∈ kidsIds ks → False := by
      intro a ha hb
      have h3 := (List.nodup_append.1 hnd).2.2
      exact h3 a ha a hb rfl
    -- the factor handed to the remaining children
    have hG' : ∀ vs, DependsOn (SOut (kidsIds ks)) (fun τ' : Asg Leg =>
        G (τ' (.dn k.id) :: vs) τ' * prodL ((treeLeaves I k).map fun f => f τ')) := by
      intro vs σ₁ σ₂ h
      have e1 : σ₁ (.dn k.id) = σ₂ (.dn k.id) := h _ (fun j hj e => by
        simp only [bondId, Option.some.injEq] at e
        exact hdisj _ (id_mem_treeIds k) (e ▸ hj))
      have e2 : G (σ₂ (.dn k.id) :: vs) σ₁ = G (σ₂ (.dn k.id) :: vs) σ₂ :=
        hG _ σ₁ σ₂ (fun l hl => h l (fun j hj => hl j (by rw [kidsIds]; exact List.mem_append_right _ hj)))
      have e3 : prodL ((treeLeaves I k).map fun f => f σ₁) = prodL ((treeLeaves I k).map fun f => f σ₂) :=
        prodL_dependsOn (treeLeaves I k) (treeLeaves_dep I k) σ₁ σ₂ (fun l hl => h l (by
        intro j hj e
        rcases hl with hl | ⟨j', hj', e'⟩
        · rw [hl] at e; cases e
        · rw [e'] at e; cases e; exact hdisj _ hj' hj))
      show G (σ₁ (.dn k.id) :: vs) σ₁ * _ = G (σ₂ (.dn k.id) :: vs) σ₂ * _
      rw [e1, e2, e3]
    have inner : ∀ τ : Asg Leg,
        sumPairs dim (kidsBinds ks) (fun τ' => G (τ' (.dn k.id) :: ks.map fun k' => τ' (.dn k'.id)) τ' *
          (prodL ((treeLeaves I k).map fun f => f τ') * prodL ((kidsLeaves I ks).map fun f => f τ'))) τ =
        (fun τ => nestSum I (fun j => τ (.out j)) (fun j => τ (.inn j)) ks
            (fun vs => G (τ (.dn k.id) :: vs) τ)) τ * prodL ((treeLeaves I k).map fun f => f τ) := by
      intro τ
      have := kids_net ks hndks hpks (fun vs τ' =>
        G (τ' (.dn k.id) :: vs) τ' * prodL ((treeLeaves I k).map fun f => f τ')) hG' τ
      rw [nestSum_mul_right] at this
      rw [← this]
      apply sumPairs_congr
      intro τ'
      simp only [mul_assoc]
    -- the nested sum over the remaining children does not read the legs bound inside `k`
    have hA : DependsOn (SOut (kidsIds k.kids)) (fun τ : Asg Leg =>
        nestSum I (fun j => τ (.out j)) (fun j => τ (.inn j)) ks (fun vs => G (τ (.dn k.id) :: vs) τ)) := by
      intro σ₁ σ₂ h
      have hsub : ∀ j, j ∈ kidsIds k.kids → j ∈ treeIds k ∧ j ≠ k.id := by
        intro j hj
        cases k with
        | node i pb ph cells kids =>
          rw [treeIds, List.nodup_cons] at hndk
          refine ⟨by rw [treeIds]; exact List.mem_cons_of_mem _ hj, ?_⟩
          intro e; apply hndk.1; simp only [TTNO.id] at e; rw [← e]; exact hj
      have e1 : (fun j => σ₁ (.out j)) = fun j => σ₂ (.out j) := by
        funext j; exact h _ (fun _ _ => by simp [bondId])
      have e2 : (fun j => σ₁ (.inn j)) = fun j => σ₂ (.inn j) := by
        funext j; exact h _ (fun _ _ => by simp [bondId])
      have e3 : σ₁ (.dn k.id) = σ₂ (.dn k.id) := h _ (fun j hj e => by
        simp only [bondId, Option.some.injEq] at e
        exact (hsub j hj).2 e.symm)
      have e4 : ∀ vs, G (σ₂ (.dn k.id) :: vs) σ₁ = G (σ₂ (.dn k.id) :: vs) σ₂ := fun vs =>
        hG _ σ₁ σ₂ (fun l hl => h l (fun j hj => hl j (by
          rw [kidsIds]; exact List.mem_append_left _ (hsub j hj).1)))
      show nestSum I _ _ ks _ = nestSum I _ _ ks _
      rw [e1, e2, e3]
      exact nestSum_congr I _ _ ks e4
    have hdisA := pairLegs_ids (treeBinds k) (kidsIds k.kids) (treeBinds_ids k)
    rw [kidsBinds, kidsLeaves, nestSum]
    simp only [sumPairs, sumR, hdk, List.map_cons, List.map_append, prodL_append]
    congr 1
    apply List.map_congr_left
    intro v _
    rw [sumPairs_append, sumPairs_congr dim (treeBinds k) inner,
      sumPairs_mul_left dim (treeBinds k) _ _ hA hdisA, tree_net k false hndk hpk]
    have u1 : (fun j => upd (upd σ (.dn k.id) v) (.up k.id) v (.out j)) = fun j => σ (.out j) := by
      funext j; simp [upd]
    have u2 : (fun j => upd (upd σ (.dn k.id) v) (.up k.id) v (.inn j)) = fun j => σ (.inn j) := by
      funext j; simp [upd]
    have u3 : upd (upd σ (.dn k.id) v) (.up k.id) v (.dn k.id) = v := by simp [upd]
    have u4 : upd (upd σ (.dn k.id) v) (.up k.id) v (.up k.id) = v := by simp [upd]
    have u5 : ∀ vs, G vs (upd (upd σ (.dn k.id) v) (.up k.id) v) = G vs σ := by
      intro vs
      apply hG
      intro l hl
      have h1 : l ≠ .up k.id := fun e => hl k.id (by rw [kidsIds]; exact List.mem_append_left _ (id_mem_treeIds k)) (by rw [e]; rfl)
      have h2 : l ≠ .dn k.id := fun e => hl k.id (by rw [kidsIds]; exact List.mem_append_left _ (id_mem_treeIds k)) (by rw [e]; rfl)
      simp [upd, h1, h2]
    simp only [u1, u2, u3, u4, u5, Bool.false_eq_true, if_false]
end

/-- **General tree**: the flat network value over all tree bonds is the nested contraction. -/
theorem netValue_eq_treeVal (T : TTNO) (hnd : (treeIds T).Nodup) (hp : Proper dim true T) (σ : Asg Leg) :
    netValue dim (treeBinds T) (treeLeaves I T) σ =
      treeVal I (fun j => σ (.out j)) (fun j => σ (.inn j)) T none := by
  have := tree_net I dim T true hnd hp σ
  simpa [netValue] using this

end

mutual
theorem fill_proper (dimOf : String → Nat) (dim : Leg → Nat) : ∀ (d : SD) (r : Bool) (T : TTNO),
    fillAt dimOf r d = some T → (∀ p ∈ T.bondsBelow, dim (.dn p.1) = p.2) → Proper dim r T
  | .node i nv hes kids, r, T, h, hb => by
    obtain ⟨h0, rest, ks, _, hks, _, rfl⟩ := fillAt_some dimOf r i nv hes kids T h
    rw [Proper]
    refine ⟨by cases r <;> simp, fillKids_proper dimOf dim kids ks hks ?_⟩
    rw [TTNO.bondsBelow] at hb
    exact hb
theorem fillKids_proper (dimOf : String → Nat) (dim : Leg → Nat) : ∀ (kids : List SD) (ks : List TTNO),
    fillKids dimOf kids = some ks → (∀ p ∈ TTNO.bondsKids ks, dim (.dn p.1) = p.2) → ProperKids dim ks
  | [], ks, h, _ => by
    rw [fillKids_nil] at h; cases h
    rw [ProperKids]; trivial
  | k :: kids, ks, h, hb => by
    obtain ⟨a, as, ha, has, rfl⟩ := fillKids_some dimOf k kids ks h
    rw [TTNO.bondsKids] at hb
    rw [ProperKids]
    refine ⟨fill_proper dimOf dim k false a ha (fun p hp => hb p ?_), hb (a.id, a.bond) List.mem_cons_self,
      fillKids_proper dimOf dim kids as has (fun p hp => hb p ?_)⟩
    · exact List.mem_cons_of_mem _ (List.mem_append_left _ hp)
    · exact List.mem_cons_of_mem _ (List.mem_append_right _ hp)
end

end Ptn.C01
