import Ptn.C01.Model
import Ptn.C01.Lemmas
/-! The node-by-node denotation `denoteAt` equals the explicit sum over all global choices of one
hyperedge per node that agree on every vertex (core Lean only). -/
namespace Ptn.C01

theorem choices_node (i nv : Nat) (hes : List HE) (kids : List SD) :
    choices (.node i nv hes kids) = hes.flatMap fun h => (choicesKids kids).map (Choice.node h) := by
  rw [choices]

theorem choicesKids_nil : choicesKids [] = [[]] := by rw [choicesKids]

theorem choicesKids_cons (k : SD) (ks : List SD) :
    choicesKids (k :: ks) = (choices k).flatMap fun c => (choicesKids ks).map (c :: ·) := by
  rw [choicesKids]

theorem consistent_node (h : HE) (cs : List Choice) (pv : Option Nat) :
    consistent (.node h cs) pv = (decide (h.pv = pv) && consistentKids cs h.kv) := by
  rw [consistent]

theorem consistentKids_cons (c : Choice) (cs : List Choice) (v : Nat) (vs : List Nat) :
    consistentKids (c :: cs) (v :: vs) = (consistent c (some v) && consistentKids cs vs) := by
  rw [consistentKids]

theorem monoOf_node (i nv : Nat) (hes : List HE) (kids : List SD) (h : HE) (cs : List Choice) :
    monoOf (.node i nv hes kids) (.node h cs) = attach i h (monoKids kids cs) := by
  rw [monoOf]

theorem monoKids_cons (k : SD) (ks : List SD) (c : Choice) (cs : List Choice) :
    monoKids (k :: ks) (c :: cs) = (monoOf k c).mul (monoKids ks cs) := by
  rw [monoKids]

theorem filter_false' {α : Type} (l : List α) : l.filter (fun _ => false) = [] := by
  induction l <;> simp [*]

theorem filter_and_const {α : Type} (l : List α) (b : Bool) (p : α → Bool) :
    l.filter (fun x => b && p x) = if b then l.filter p else [] := by
  cases b <;> simp

mutual
theorem enum_eq_denoteAt : ∀ (d : SD) (pv : Option Nat),
    ((choices d).filter (consistent · pv)).map (monoOf d) = denoteAt d pv
  | .node i nv hes kids, pv => by
    have ih := enumKids_eq_denoteKids kids
    rw [choices_node, denoteAt_node, List.filter_flatMap, List.map_flatMap]
    apply flatMap_congr_mem
    intro h _
    rw [List.filter_map, List.map_map]
    have hp : ((fun x => consistent x pv) ∘ Choice.node h) =
        fun cs => (decide (h.pv = pv) && consistentKids cs h.kv) := by
      funext cs; simp [Function.comp, consistent_node]
    have hm : (monoOf (.node i nv hes kids) ∘ Choice.node h) = (attach i h) ∘ (monoKids kids) := by
      funext cs; simp [Function.comp, monoOf_node]
    rw [hp, hm, filter_and_const]
    by_cases hc : h.pv = pv
    · simp only [hc, decide_true, if_true]
      rw [← List.map_map, ih h.kv]
    · simp [hc]
theorem enumKids_eq_denoteKids : ∀ (ks : List SD) (vs : List Nat),
    ((choicesKids ks).filter (consistentKids · vs)).map (monoKids ks) = denoteKids ks vs
  | [], [] => by
    rw [choicesKids_nil, denoteKids_nil]
    have h1 : consistentKids [] [] = true := by rw [consistentKids]
    have h2 : monoKids [] [] = Mono.one := by rw [monoKids]
    simp [h1, h2]
  | [], v :: vs => by
    rw [choicesKids_nil, denoteKids_nil_cons]
    have h1 : consistentKids [] (v :: vs) = false := by rw [consistentKids]
    simp [h1]
  | k :: ks, [] => by
    rw [denoteKids_cons_nil]
    have : (fun x => consistentKids x ([] : List Nat)) = fun cs => match cs with | [] => true | _ :: _ => false := by
      funext cs; cases cs <;> simp [consistentKids]
    rw [choicesKids_cons, List.filter_flatMap]
    have hz : ∀ c ∈ choices k, (List.filter (fun x => consistentKids x ([] : List Nat))
        (List.map (fun x => c :: x) (choicesKids ks))) = [] := by
      intro c _
      rw [List.filter_map]
      have : ((fun x => consistentKids x ([] : List Nat)) ∘ fun x => c :: x) = fun _ => false := by
        funext cs; simp [Function.comp, consistentKids]
      rw [this, filter_false']
      rfl
    rw [flatMap_eq_nil_of_forall _ _ hz]
    rfl
  | k :: ks, v :: vs => by
    have ih1 := enum_eq_denoteAt k (some v)
    have ih2 := enumKids_eq_denoteKids ks vs
    rw [choicesKids_cons, denoteKids_cons, ← ih1, ← ih2, List.filter_flatMap, List.map_flatMap]
    simp only [FSum.mul]
    rw [List.flatMap_map]
    -- both sides are flatMaps over `choices k`; the left one still carries the filter on `c`
    have key : ∀ c : Choice,
        List.map (monoKids (k :: ks))
          (List.filter (fun x => consistentKids x (v :: vs)) (List.map (fun x => c :: x) (choicesKids ks))) =
        if consistent c (some v) then
          List.map (fun y => (monoOf k c).mul y)
            (List.map (monoKids ks) (List.filter (fun x => consistentKids x vs) (choicesKids ks)))
        else [] := by
      intro c
      rw [List.filter_map, List.map_map]
      have hp : ((fun x => consistentKids x (v :: vs)) ∘ fun x => c :: x) =
          fun cs => (consistent c (some v) && consistentKids cs vs) := by
        funext cs; simp [Function.comp, consistentKids_cons]
      have hm : (monoKids (k :: ks) ∘ fun x => c :: x) =
          (fun y => (monoOf k c).mul y) ∘ monoKids ks := by
        funext cs; simp [Function.comp, monoKids_cons]
      rw [hp, hm, filter_and_const]
      cases consistent c (some v) <;> simp
    simp only [key]
    -- flatMap with an `if` = flatMap over the filtered list
    generalize choices k = cl
    induction cl with
    | nil => rfl
    | cons c cl ihc =>
      rw [List.flatMap_cons, ihc]
      cases hcc : consistent c (some v) <;> simp [hcc]
end

end Ptn.C01
