import Ptn.C01.Model
import Ptn.C01.Lemmas
/-! Semantic core of `StateDiagram.combine_subtrees` / `erase_subtree` on the state-diagram model
(core Lean only).

`combine_subtrees(local_hyperedges, parent)` looks, among the hyperedges of a child node, for two with
equal subtree hash, keeps the first (`element1`, sitting on `keep_vertex`), erases the second with
everything below it (`erase_subtree`) and re-attaches every parent-side hyperedge of `del_vertex` to
`keep_vertex`.  On the model:

* `redirect j v2 v1`   - at the parent node, every hyperedge naming vertex `v2` on the edge to child
                         number `j` names `v1` instead                       (the re-attachment);
* `dropOn v2`          - at the child node, the hyperedges sitting on vertex `v2` are removed
                         (the part of `erase_subtree` that matters for the denotation: what hangs
                         below them becomes unreachable);
* `modifyAt path f`    - apply `f` to the sub-diagram reached by following child positions `path`. -/
namespace Ptn.C01

/-- In the list of child-side vertices of a hyperedge replace `v2` by `v1` at child position `j`. -/
def redirectKv : Nat → Nat → Nat → List Nat → List Nat
  | _, _, _, [] => []
  | 0, v2, v1, v :: vs => (if v = v2 then v1 else v) :: vs
  | j + 1, v2, v1, v :: vs => v :: redirectKv j v2 v1 vs

def redirectHE (j v2 v1 : Nat) (h : HE) : HE := { h with kv := redirectKv j v2 v1 h.kv }

/-- Re-attach the parent-side hyperedges of vertex `v2` (edge to child number `j`) to vertex `v1`. -/
def redirect (j v2 v1 : Nat) : SD → SD
  | .node i nv hes kids => .node i nv (hes.map (redirectHE j v2 v1)) kids

/-- Remove the hyperedges of a node that sit on vertex `v2` of the edge to its parent. -/
def dropOn (v2 : Nat) : SD → SD
  | .node i nv hes kids => .node i nv (hes.filter fun h => decide (h.pv ≠ some v2)) kids

/-- Replace element number `j` of a list (no change if there is none). -/
def setNth {α : Type} : List α → Nat → (α → α) → List α
  | [], _, _ => []
  | a :: as, 0, f => f a :: as
  | a :: as, j + 1, f => a :: setNth as j f

/-- Apply `f` to the sub-diagram reached by the child positions `path` (root = `[]`). -/
def modifyAt : List Nat → (SD → SD) → SD → SD
  | [], f, d => f d
  | j :: p, f, .node i nv hes kids => .node i nv hes (setNth kids j (modifyAt p f))

/-- The sub-diagram reached by the child positions `path`. -/
def subAt : List Nat → SD → Option SD
  | [], d => some d
  | j :: p, .node _ _ _ kids =>
    match kids[j]? with
    | some k => subAt p k
    | none => none

/-! ### congruence: a child may be replaced by any diagram with the same denotation -/

theorem denoteKids_setNth (f : SD → SD) :
    ∀ (kids : List SD) (j : Nat) (vs : List Nat),
      (∀ k, kids[j]? = some k → ∀ pv, denoteAt (f k) pv = denoteAt k pv) →
      denoteKids (setNth kids j f) vs = denoteKids kids vs
  | [], _, _, _ => by rw [setNth]
  | k :: ks, 0, [], _ => by rw [setNth, denoteKids_cons_nil, denoteKids_cons_nil]
  | k :: ks, 0, v :: vs, h => by
    rw [setNth, denoteKids_cons, denoteKids_cons, h k (by simp) (some v)]
  | k :: ks, j + 1, [], _ => by rw [setNth, denoteKids_cons_nil, denoteKids_cons_nil]
  | k :: ks, j + 1, v :: vs, h => by
    rw [setNth, denoteKids_cons, denoteKids_cons,
      denoteKids_setNth f ks j vs (fun x hx => h x (by simpa using hx))]

theorem denoteAt_modifyAt (f : SD → SD) :
    ∀ (path : List Nat) (d x : SD), subAt path d = some x →
      (∀ pv, denoteAt (f x) pv = denoteAt x pv) → ∀ pv, denoteAt (modifyAt path f d) pv = denoteAt d pv
  | [], d, x, hs, hf, pv => by
    simp only [subAt, Option.some.injEq] at hs
    subst hs
    rw [modifyAt]
    exact hf pv
  | j :: p, .node i nv hes kids, x, hs, hf, pv => by
    rw [modifyAt, denoteAt_node, denoteAt_node]
    apply flatMap_congr_mem
    intro h _
    rw [denoteKids_setNth (modifyAt p f) kids j h.kv]
    intro k hk pv'
    rw [subAt, hk] at hs
    exact denoteAt_modifyAt f p k x hs hf pv'

/-! ### re-attachment -/

theorem attach_redirect (i j v2 v1 : Nat) (h : HE) : attach i (redirectHE j v2 v1 h) = attach i h := by
  funext m; simp [attach, redirectHE]

theorem denoteKids_redirect (v2 v1 : Nat) :
    ∀ (kids : List SD) (j : Nat) (vs : List Nat),
      (∀ k, kids[j]? = some k → denoteAt k (some v2) = denoteAt k (some v1)) →
      denoteKids kids (redirectKv j v2 v1 vs) = denoteKids kids vs
  | _, _, [], _ => by cases ‹Nat› <;> rw [redirectKv]
  | [], 0, v :: vs, _ => by rw [redirectKv, denoteKids_nil_cons, denoteKids_nil_cons]
  | [], j + 1, v :: vs, _ => by rw [redirectKv, denoteKids_nil_cons, denoteKids_nil_cons]
  | k :: ks, 0, v :: vs, h => by
    rw [redirectKv, denoteKids_cons, denoteKids_cons]
    by_cases hv : v = v2
    · rw [if_pos hv, hv, h k (by simp)]
    · rw [if_neg hv]
  | k :: ks, j + 1, v :: vs, h => by
    rw [redirectKv, denoteKids_cons, denoteKids_cons,
      denoteKids_redirect v2 v1 ks j vs (fun x hx => h x (by simpa using hx))]

/-- Re-attaching the parent-side hyperedges of `v2` to `v1` does not change what the node denotes,
    provided the child denotes the same below both vertices. -/
theorem denoteAt_redirect (j v2 v1 : Nat) (d : SD)
    (h : ∀ k, d.kids[j]? = some k → denoteAt k (some v2) = denoteAt k (some v1)) (pv : Option Nat) :
    denoteAt (redirect j v2 v1 d) pv = denoteAt d pv := by
  cases d with
  | node i nv hes kids =>
    rw [redirect, denoteAt_node, denoteAt_node, List.flatMap_map]
    apply flatMap_congr_mem
    intro g _
    rw [attach_redirect]
    have : (redirectHE j v2 v1 g).pv = g.pv := rfl
    rw [this]
    have hk : (redirectHE j v2 v1 g).kv = redirectKv j v2 v1 g.kv := rfl
    rw [hk, denoteKids_redirect v2 v1 kids j g.kv h]

/-! ### erasing what has become unreachable -/

theorem redirectKv_ne (v2 v1 : Nat) (hne : v1 ≠ v2) :
    ∀ (j : Nat) (vs : List Nat), (redirectKv j v2 v1 vs)[j]? ≠ some v2
  | _, [] => by cases ‹Nat› <;> simp [redirectKv]
  | 0, v :: vs => by
    rw [redirectKv]
    by_cases hv : v = v2
    · simp [hv, hne]
    · simp [hv]
  | j + 1, v :: vs => by
    rw [redirectKv]
    simpa using redirectKv_ne v2 v1 hne j vs

theorem denoteAt_dropOn_ne (v2 : Nat) (d : SD) (v : Nat) (hv : v ≠ v2) :
    denoteAt (dropOn v2 d) (some v) = denoteAt d (some v) := by
  cases d with
  | node i nv hes kids =>
    rw [dropOn, denoteAt_node, denoteAt_node]
    induction hes with
    | nil => rfl
    | cons g gs ih =>
      by_cases hg : g.pv = some v2
      · have hgv : ¬ g.pv = some v := by
          rw [hg]; intro hc; exact hv (Option.some.inj hc).symm
        rw [List.filter_cons_of_neg (by simp [hg]), List.flatMap_cons, if_neg hgv, List.nil_append]
        exact ih
      · rw [List.filter_cons_of_pos (by simp [hg]), List.flatMap_cons, List.flatMap_cons, ih]

theorem denoteKids_dropOn (v2 : Nat) :
    ∀ (kids : List SD) (j : Nat) (vs : List Nat), vs[j]? ≠ some v2 →
      denoteKids (setNth kids j (dropOn v2)) vs = denoteKids kids vs
  | [], _, _, _ => by rw [setNth]
  | k :: ks, 0, [], _ => by rw [setNth, denoteKids_cons_nil, denoteKids_cons_nil]
  | k :: ks, 0, v :: vs, h => by
    have hv : v ≠ v2 := by simpa using h
    rw [setNth, denoteKids_cons, denoteKids_cons, denoteAt_dropOn_ne v2 k v hv]
  | k :: ks, j + 1, [], _ => by rw [setNth, denoteKids_cons_nil, denoteKids_cons_nil]
  | k :: ks, j + 1, v :: vs, h => by
    rw [setNth, denoteKids_cons, denoteKids_cons, denoteKids_dropOn v2 ks j vs (by simpa using h)]

/-- `combine_subtrees` on one pair: re-attach the parents of `v2` to `v1`, then erase the child-side
    hyperedges on `v2`. -/
def mergeAt (j v2 v1 : Nat) : SD → SD
  | d =>
    match redirect j v2 v1 d with
    | .node i nv hes kids => .node i nv hes (setNth kids j (dropOn v2))

theorem denoteAt_mergeAt (j v2 v1 : Nat) (hne : v1 ≠ v2) (d : SD)
    (h : ∀ k, d.kids[j]? = some k → denoteAt k (some v2) = denoteAt k (some v1)) (pv : Option Nat) :
    denoteAt (mergeAt j v2 v1 d) pv = denoteAt d pv := by
  rw [← denoteAt_redirect j v2 v1 d h pv]
  cases d with
  | node i nv hes kids =>
    simp only [mergeAt, redirect]
    rw [denoteAt_node, denoteAt_node]
    apply flatMap_congr_mem
    intro g hg
    rw [List.mem_map] at hg
    obtain ⟨g0, _, rfl⟩ := hg
    have hk : (redirectHE j v2 v1 g0).kv = redirectKv j v2 v1 g0.kv := rfl
    rw [hk, denoteKids_dropOn v2 kids j _ (redirectKv_ne v2 v1 hne j g0.kv)]

/-! ### the V-node de-duplication of `cut_and_optimise` (where multiplicity is lost) -/

/-- `_remove_reduntant_v_hyperedges`: remove hyperedge number `k` of a node. -/
def removeHE (k : Nat) : SD → SD
  | .node i nv hes kids => .node i nv (hes.eraseIdx k) kids

/-! ### the uncompressed diagram: what hangs below vertex `k` of a root edge is term `k` -/

theorem sumKids_getElem? : ∀ (k1 k2 : List SD) (j : Nat) (a b : SD), SameShapeKids k1 k2 →
    k1[j]? = some a → k2[j]? = some b → (sumKids k1 k2)[j]? = some (sumSD a b)
  | [], _, _, _, _, _, h1, _ => by simp at h1
  | _ :: _, [], _, _, _, ss, _, _ => by simp [SameShapeKids] at ss
  | x :: xs, y :: ys, 0, a, b, _, h1, h2 => by
    simp only [List.getElem?_cons_zero, Option.some.injEq] at h1 h2
    subst h1; subst h2
    rw [sumKids_cons]; rfl
  | x :: xs, y :: ys, j + 1, a, b, ss, h1, h2 => by
    rw [SameShapeKids_cons] at ss
    rw [sumKids_cons]
    simpa using sumKids_getElem? xs ys j a b ss.2 (by simpa using h1) (by simpa using h2)

theorem singleKids_getElem? (ops : List (Nat × String)) (coef : Rat) (sym : String) :
    ∀ (ks : List RTree) (j : Nat) (tk : RTree), ks[j]? = some tk →
      (singleKids ops coef sym ks)[j]? = some (singleAt ops coef sym false tk)
  | [], _, _, h => by simp at h
  | k :: ks, 0, tk, h => by
    simp only [List.getElem?_cons_zero, Option.some.injEq] at h
    subst h
    rw [singleKids]; rfl
  | k :: ks, j + 1, tk, h => by
    rw [singleKids]
    simpa using singleKids_getElem? ops coef sym ks j tk (by simpa using h)

theorem WFKids_getElem? : ∀ (ks : List SD) (j : Nat) (k : SD), WFKids ks → ks[j]? = some k → k.WF
  | [], _, _, _, h => by simp at h
  | x :: xs, 0, k, w, h => by
    rw [WFKids_cons] at w
    simp only [List.getElem?_cons_zero, Option.some.injEq] at h
    subst h; exact w.1
  | x :: xs, j + 1, k, w, h => by
    rw [WFKids_cons] at w
    exact WFKids_getElem? xs j k w.2 (by simpa using h)

theorem SameShapeKids_getElem? : ∀ (k1 k2 : List SD) (j : Nat) (a b : SD), SameShapeKids k1 k2 →
    k1[j]? = some a → k2[j]? = some b → SameShape a b
  | [], _, _, _, _, _, h1, _ => by simp at h1
  | _ :: _, [], _, _, _, ss, _, _ => by simp [SameShapeKids] at ss
  | x :: xs, y :: ys, 0, a, b, ss, h1, h2 => by
    rw [SameShapeKids_cons] at ss
    simp only [List.getElem?_cons_zero, Option.some.injEq] at h1 h2
    subst h1; subst h2; exact ss.1
  | x :: xs, y :: ys, j + 1, a, b, ss, h1, h2 => by
    rw [SameShapeKids_cons] at ss
    exact SameShapeKids_getElem? xs ys j a b ss.2 (by simpa using h1) (by simpa using h2)

theorem SameShapeKids_getElem?_none : ∀ (k1 k2 : List SD) (j : Nat), SameShapeKids k1 k2 →
    k1[j]? = none → k2[j]? = none
  | [], [], _, _, _ => by simp
  | [], _ :: _, _, s, _ => by simp [SameShapeKids] at s
  | _ :: _, [], _, _, _ => by simp
  | x :: xs, y :: ys, 0, _, h => by simp at h
  | x :: xs, y :: ys, j + 1, s, h => by
    rw [SameShapeKids_cons] at s
    simpa using SameShapeKids_getElem?_none xs ys j s.2 (by simpa using h)

theorem singleTerm_kids (t : RTree) (tm : Term) :
    (singleTerm t tm).kids = singleKids tm.ops tm.coef tm.sym t.kids := by
  cases t; rw [singleTerm, singleAt]; rfl

theorem sumSD_kids (d1 d2 : SD) : (sumSD d1 d2).kids = sumKids d1.kids d2.kids := by
  cases d1; cases d2; rw [sumSD_node]; rfl

theorem SD.WF_kids (d : SD) (w : d.WF) : WFKids d.kids := by
  cases d; rw [SD.WF_node] at w; exact w.2

theorem SameShape_kids (d1 d2 : SD) (s : SameShape d1 d2) : SameShapeKids d1.kids d2.kids := by
  cases d1; cases d2; rw [SameShape_node] at s; exact s.2

/-- Invariant of the fold building the uncompressed diagram, seen from the root's children. -/
def BelowInv (t : RTree) (acc : SD) (done : List Term) : Prop :=
  ∀ (j : Nat) (dk : SD) (tk : RTree), acc.kids[j]? = some dk → t.kids[j]? = some tk →
    dk.nv = done.length ∧
      ∀ (k : Nat) (tm : Term), done[k]? = some tm →
        denoteAt dk (some k) = [⟨1, [], asgOf tm.ops tk⟩]

theorem fold_below (t : RTree) (tm0 : Term) :
    ∀ (rest : List Term) (acc : SD) (done : List Term), acc.WF → SameShape acc (singleTerm t tm0) →
      BelowInv t acc done →
      BelowInv t (rest.foldl (fun a x => sumSD a (singleTerm t x)) acc) (done ++ rest)
  | [], acc, done, _, _, inv => by simpa using inv
  | x :: rest, acc, done, w, ss, inv => by
    have hsx : SameShape acc (singleTerm t x) := sameShape_trans_single t tm0 x acc ss
    have wx : (singleTerm t x).WF := singleAt_WF _ _ _ true t
    have w' := sumSD_WF acc (singleTerm t x) w wx hsx
    have ss' := sumSD_sameShape acc (singleTerm t x) (singleTerm t tm0) hsx ss
    have inv' : BelowInv t (sumSD acc (singleTerm t x)) (done ++ [x]) := by
      intro j dk tk hdk htk
      rw [sumSD_kids] at hdk
      -- the two summands' children at position j
      have hsk : (singleTerm t x).kids[j]? = some (singleAt x.ops x.coef x.sym false tk) := by
        rw [singleTerm_kids]; exact singleKids_getElem? _ _ _ _ j tk htk
      have hssk := SameShape_kids _ _ hsx
      cases hak : acc.kids[j]? with
      | none =>
        -- impossible: shapes agree
        exfalso
        have := SameShapeKids_getElem?_none _ _ j hssk hak
        rw [hsk] at this
        simp at this
      | some ak =>
        have hsum := sumKids_getElem? _ _ j ak _ hssk hak hsk
        rw [hsum] at hdk
        simp only [Option.some.injEq] at hdk
        subst hdk
        obtain ⟨hnv, hden⟩ := inv j ak tk hak htk
        have wak : ak.WF := WFKids_getElem? _ j ak (SD.WF_kids acc w) hak
        have wsk : (singleAt x.ops x.coef x.sym false tk).WF := singleAt_WF _ _ _ false tk
        have ssk : SameShape ak (singleAt x.ops x.coef x.sym false tk) :=
          SameShapeKids_getElem? _ _ j _ _ hssk hak hsk
        refine ⟨by rw [sumSD_nv, hnv, singleAt_nv]; simp, ?_⟩
        intro k tm hk
        rw [denoteAt_sum ak _ wak wsk ssk (some k)]
        by_cases hlt : k < done.length
        · rw [List.getElem?_append_left hlt] at hk
          rw [hden k tm hk]
          simp [d2part, hnv, hlt]
        · have hk' : k = done.length := by
            have : k < (done ++ [x]).length := by
              rcases Nat.lt_or_ge k (done ++ [x]).length with h | h
              · exact h
              · rw [List.getElem?_eq_none h] at hk; simp at hk
            simp at this; omega
          subst hk'
          simp at hk
          subst hk
          rw [denoteAt_out_of_range ak wak _ (by omega)]
          have hs := denote_singleAt x.ops x.coef x.sym false tk
          simp only [Bool.false_eq_true, if_false] at hs
          simp [d2part, hnv, hs]
    have := fold_below t tm0 rest (sumSD acc (singleTerm t x)) (done ++ [x]) w' ss' inv'
    simpa [List.append_assoc] using this

theorem base_below (t : RTree) (tm0 : Term) (rest : List Term) (d : SD)
    (h : baseDiagram t (tm0 :: rest) = some d) : BelowInv t d (tm0 :: rest) := by
  simp only [baseDiagram, Option.some.injEq] at h
  subst h
  have w0 : (singleTerm t tm0).WF := singleAt_WF _ _ _ true t
  have inv0 : BelowInv t (singleTerm t tm0) [tm0] := by
    intro j dk tk hdk htk
    rw [singleTerm_kids, singleKids_getElem? _ _ _ _ j tk htk] at hdk
    simp only [Option.some.injEq] at hdk
    subst hdk
    refine ⟨by rw [singleAt_nv]; simp, ?_⟩
    intro k tm hk
    cases k with
    | zero =>
      simp only [List.getElem?_cons_zero, Option.some.injEq] at hk
      subst hk
      have hs := denote_singleAt tm0.ops tm0.coef tm0.sym false tk
      simpa using hs
    | succ k => simp at hk
  simpa using fold_below t tm0 rest (singleTerm t tm0) [tm0] w0 (sameShape_refl _) inv0

end Ptn.C01
