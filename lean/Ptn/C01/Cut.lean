import Mathlib.LinearAlgebra.BilinearMap
import Mathlib.Data.Matrix.Mul
import Mathlib.Algebra.Module.BigOperators
import Mathlib.Algebra.BigOperators.Group.Finset.Piecewise
import Mathlib.Data.Fintype.Sum
/-! The bilinear algebra behind `cut_and_optimise` / `_reconnect_hyperedges` (Mathlib: finite sums,
matrices, bilinear maps).

Setting of one cut of the tree at the edge parent–child: the diagram on one side of the edge denotes
partial operators `U u ∈ A` (one per hyperedge/“U node”), the other side partial operators `V v ∈ B`,
the edge carries the coefficient matrix `Γ` (entries: linear forms in the symbols, any commutative
semiring `K`), and the whole operator is `∑ u v, Γ u v • (U u ⊗ V v)`, where `⊗ : A → B → C` is any
`K`-bilinear operation (no commutativity between the factors is used). -/
namespace Ptn.C01

open Finset

variable {K : Type*} [CommSemiring K] {A B C : Type*} [AddCommMonoid A] [AddCommMonoid B]
  [AddCommMonoid C] [Module K A] [Module K B] [Module K C]

/-! ### factorisation `Γ = L · Γ' · R` -/

theorem cut_left {ι κ ι' : Type*} [Fintype ι] [Fintype κ] [Fintype ι']
    (f : A →ₗ[K] B →ₗ[K] C) (U : ι → A) (V : κ → B) (L : Matrix ι ι' K) (M : Matrix ι' κ K) :
    ∑ u, ∑ v, (L * M) u v • f (U u) (V v) =
      ∑ u', ∑ v, M u' v • f (∑ u, L u u' • U u) (V v) := by
  simp only [Matrix.mul_apply, Finset.sum_smul, map_sum, LinearMap.sum_apply, map_smul,
    LinearMap.smul_apply, Finset.smul_sum, smul_smul]
  calc ∑ u, ∑ v, ∑ u', (L u u' * M u' v) • f (U u) (V v)
      = ∑ u, ∑ u', ∑ v, (L u u' * M u' v) • f (U u) (V v) := by
        apply Finset.sum_congr rfl; intro u _; exact Finset.sum_comm
    _ = ∑ u', ∑ u, ∑ v, (L u u' * M u' v) • f (U u) (V v) := Finset.sum_comm
    _ = ∑ u', ∑ v, ∑ u, (L u u' * M u' v) • f (U u) (V v) := by
        apply Finset.sum_congr rfl; intro u' _; exact Finset.sum_comm
    _ = _ := by
        apply Finset.sum_congr rfl; intro u' _
        apply Finset.sum_congr rfl; intro v _
        apply Finset.sum_congr rfl; intro u _
        rw [mul_comm]

theorem cut_right {ι κ κ' : Type*} [Fintype ι] [Fintype κ] [Fintype κ']
    (f : A →ₗ[K] B →ₗ[K] C) (U : ι → A) (V : κ → B) (M : Matrix ι κ' K) (R : Matrix κ' κ K) :
    ∑ u, ∑ v, (M * R) u v • f (U u) (V v) =
      ∑ u, ∑ v', M u v' • f (U u) (∑ v, R v' v • V v) := by
  simp only [Matrix.mul_apply, Finset.sum_smul, map_sum, map_smul, Finset.smul_sum, smul_smul]
  apply Finset.sum_congr rfl; intro u _
  exact Finset.sum_comm

/-- If `Γ = L · Γ' · R` then the operator is the same bilinear sum over the *virtual* nodes
    `∑ u, L u u' • U u` and `∑ v, R v' v • V v` with coefficient matrix `Γ'`. -/
theorem cut_factor_lem {ι κ ι' κ' : Type*} [Fintype ι] [Fintype κ] [Fintype ι'] [Fintype κ']
    (f : A →ₗ[K] B →ₗ[K] C) (U : ι → A) (V : κ → B)
    (Γ : Matrix ι κ K) (L : Matrix ι ι' K) (Γ' : Matrix ι' κ' K) (R : Matrix κ' κ K)
    (h : Γ = L * Γ' * R) :
    ∑ u, ∑ v, Γ u v • f (U u) (V v) =
      ∑ u', ∑ v', Γ' u' v' • f (∑ u, L u u' • U u) (∑ v, R v' v • V v) := by
  subst h
  rw [Matrix.mul_assoc, cut_left f U V L (Γ' * R)]
  exact cut_right f (fun u' => ∑ u, L u u' • U u) V Γ' R

/-! ### routing through a vertex cover -/

/-- A vertex cover of the support of `G`: every non-zero entry lies in a covering row or column. -/
def IsCover {ι κ : Type*} (G : Matrix ι κ K) (Cu : Finset ι) (Cv : Finset κ) : Prop :=
  ∀ i j, G i j ≠ 0 → i ∈ Cu ∨ j ∈ Cv

/-- Every non-zero entry is assigned to its covering row if it has one, else to its covering
    column (the two loops of `_reconnect_hyperedges`: first the U cover, then the V cover for the
    edges not used yet). -/
theorem cut_cover_lem {ι κ : Type*} [Fintype ι] [Fintype κ] [DecidableEq ι] [DecidableEq κ]
    (f : A →ₗ[K] B →ₗ[K] C) (U : ι → A) (V : κ → B) (G : Matrix ι κ K)
    (Cu : Finset ι) (Cv : Finset κ) (hc : IsCover G Cu Cv) :
    ∑ i, ∑ j, G i j • f (U i) (V j) =
      ∑ i ∈ Cu, f (U i) (∑ j, G i j • V j) +
        ∑ j ∈ Cv, f (∑ i ∈ univ.filter (· ∉ Cu), G i j • U i) (V j) := by
  have hsplit : ∑ i, ∑ j, G i j • f (U i) (V j) =
      ∑ i ∈ univ.filter (· ∈ Cu), ∑ j, G i j • f (U i) (V j) +
        ∑ i ∈ univ.filter (· ∉ Cu), ∑ j, G i j • f (U i) (V j) :=
    (Finset.sum_filter_add_sum_filter_not univ (· ∈ Cu) _).symm
  rw [hsplit]
  congr 1
  · have : univ.filter (· ∈ Cu) = Cu := by ext i; simp
    rw [this]
    apply Finset.sum_congr rfl; intro i _
    simp only [map_sum, map_smul]
  · -- rows outside the U cover: only the columns of the V cover carry non-zero entries
    have hrow : ∀ i ∈ univ.filter (· ∉ Cu), ∑ j, G i j • f (U i) (V j) =
        ∑ j ∈ Cv, G i j • f (U i) (V j) := by
      intro i hi
      have hi' : i ∉ Cu := (Finset.mem_filter.mp hi).2
      symm
      apply Finset.sum_subset (Finset.subset_univ _)
      intro j _ hj
      have : G i j = 0 := by
        by_contra hne
        rcases hc i j hne with h | h
        · exact hi' h
        · exact hj h
      rw [this, zero_smul]
    rw [Finset.sum_congr rfl hrow, Finset.sum_comm]
    apply Finset.sum_congr rfl; intro j _
    simp only [map_sum, LinearMap.sum_apply, map_smul, LinearMap.smul_apply]

/-- Left and right factors of the `|Cu| + |Cv|` pure tensors the cut is routed through: one new
    vertex per covering row and per covering column. -/
def routeA {ι κ : Type*} [Fintype ι] [DecidableEq ι] (U : ι → A) (G : Matrix ι κ K)
    (Cu : Finset ι) (Cv : Finset κ) : (↥Cu ⊕ ↥Cv) → A
  | .inl i => U i
  | .inr j => ∑ i ∈ univ.filter (· ∉ Cu), G i j • U i

def routeB {ι κ : Type*} [Fintype κ] (V : κ → B) (G : Matrix ι κ K)
    (Cu : Finset ι) (Cv : Finset κ) : (↥Cu ⊕ ↥Cv) → B
  | .inl i => ∑ j, G i j • V j
  | .inr j => V j

/-- The operator of the cut is a sum of `|Cu| + |Cv|` pure tensors: the bond created at the cut has
    the size of the cover. -/
theorem cut_routes_through_cover_lem {ι κ : Type*} [Fintype ι] [Fintype κ] [DecidableEq ι]
    [DecidableEq κ] (f : A →ₗ[K] B →ₗ[K] C) (U : ι → A) (V : κ → B) (G : Matrix ι κ K)
    (Cu : Finset ι) (Cv : Finset κ) (hc : IsCover G Cu Cv) :
    ∑ k : ↥Cu ⊕ ↥Cv, f (routeA U G Cu Cv k) (routeB V G Cu Cv k) =
        ∑ i, ∑ j, G i j • f (U i) (V j) ∧
      Fintype.card (↥Cu ⊕ ↥Cv) = Cu.card + Cv.card := by
  constructor
  · rw [cut_cover_lem f U V G Cu Cv hc, Fintype.sum_sum_type]
    simp only [routeA, routeB]
    rw [Finset.sum_coe_sort Cu (fun i => f (U i) (∑ j, G i j • V j)),
      Finset.sum_coe_sort Cv (fun j => f (∑ i ∈ univ.filter (· ∉ Cu), G i j • U i) (V j))]
  · simp

/-- **cut preserves**: factorise `Γ = L · Γ' · R` (symbolic Gaussian elimination), cover the
    support of `Γ'`, route every non-zero entry through its covering row or column: the operator is
    unchanged and is a sum of `|Cu| + |Cv|` pure tensors of virtual nodes. -/
theorem cut_preserves_lem {ι κ ι' κ' : Type*} [Fintype ι] [Fintype κ] [Fintype ι'] [Fintype κ']
    [DecidableEq ι'] [DecidableEq κ']
    (f : A →ₗ[K] B →ₗ[K] C) (U : ι → A) (V : κ → B)
    (Γ : Matrix ι κ K) (L : Matrix ι ι' K) (Γ' : Matrix ι' κ' K) (R : Matrix κ' κ K)
    (h : Γ = L * Γ' * R) (Cu : Finset ι') (Cv : Finset κ') (hc : IsCover Γ' Cu Cv) :
    ∑ k : ↥Cu ⊕ ↥Cv,
        f (routeA (fun u' => ∑ u, L u u' • U u) Γ' Cu Cv k)
          (routeB (fun v' => ∑ v, R v' v • V v) Γ' Cu Cv k) =
      ∑ u, ∑ v, Γ u v • f (U u) (V v) := by
  rw [cut_factor_lem f U V Γ L Γ' R h]
  exact (cut_routes_through_cover_lem f _ _ Γ' Cu Cv hc).1

/-! ### reading `Γ` off the terms (`_setup_gamma_matrix`) on a two-node tree -/

section TwoNode

variable {α β : Type*} [DecidableEq α] [DecidableEq β]

/-- Σ_k c_k • (X a_k ⊗ Y b_k) for terms `(c, a, b)`: root label `a`, child label `b`. -/
def hamSum (f : A →ₗ[K] B →ₗ[K] C) (X : α → A) (Y : β → B) (terms : List (K × α × β)) : C :=
  (terms.map fun t => t.1 • f (X t.2.1) (Y t.2.2)).sum

/-- The coefficient the pair `(a, b)` should get: the sum over all terms with that pair. -/
def gammaTrue (terms : List (K × α × β)) (a : α) (b : β) : K :=
  ((terms.filter fun t => t.2 = (a, b)).map (·.1)).sum

/-- The coefficient `_setup_gamma_matrix` stores: `Gamma[u][v] = coefficient` is an assignment, so
    the last term with that pair wins (0 if there is none). -/
def gammaRead (terms : List (K × α × β)) (a : α) (b : β) : K :=
  (((terms.filter fun t => t.2 = (a, b)).map (·.1)).getLast?).getD 0

theorem gammaTrue_cons (t : K × α × β) (ts : List (K × α × β)) (a : α) (b : β) :
    gammaTrue (t :: ts) a b = (if t.2 = (a, b) then t.1 else 0) + gammaTrue ts a b := by
  unfold gammaTrue
  by_cases h : t.2 = (a, b) <;> simp [h]

/-- With the true coefficients the bilinear sum over (root labels) × (child labels) is the
    Hamiltonian - for every list of terms, repeated pairs included. -/
theorem gamma_true_exact_lem (f : A →ₗ[K] B →ₗ[K] C) (X : α → A) (Y : β → B) (SA : Finset α)
    (SB : Finset β) :
    ∀ terms : List (K × α × β), (∀ t ∈ terms, t.2.1 ∈ SA ∧ t.2.2 ∈ SB) →
      ∑ a ∈ SA, ∑ b ∈ SB, gammaTrue terms a b • f (X a) (Y b) = hamSum f X Y terms
  | [], _ => by simp [gammaTrue, hamSum]
  | (c, a0, b0) :: ts, h => by
    have ih := gamma_true_exact_lem f X Y SA SB ts (fun x hx => h x (List.mem_cons_of_mem _ hx))
    obtain ⟨ha, hb⟩ := h (c, a0, b0) List.mem_cons_self
    simp only at ha hb
    simp only [gammaTrue_cons, add_smul, Finset.sum_add_distrib, ih]
    unfold hamSum
    rw [List.map_cons, List.sum_cons]
    congr 1
    -- the indicator picks exactly the pair of the new term
    have hind : ∀ a b, (if (a0, b0) = (a, b) then c else 0) • f (X a) (Y b) =
        if a = a0 then (if b = b0 then c • f (X a0) (Y b0) else 0) else 0 := by
      intro a b
      by_cases h1 : a = a0
      · by_cases h2 : b = b0
        · subst h1; subst h2; simp
        · have hne : ¬ (a0, b0) = (a, b) := fun hc => h2 (Prod.mk.inj hc).2.symm
          rw [if_neg hne, zero_smul, if_pos h1, if_neg h2]
      · have hne : ¬ (a0, b0) = (a, b) := fun hc => h1 (Prod.mk.inj hc).1.symm
        rw [if_neg hne, zero_smul, if_neg h1]
    simp only [hind]
    calc ∑ a ∈ SA, ∑ b ∈ SB, (if a = a0 then (if b = b0 then c • f (X a0) (Y b0) else 0) else 0)
        = ∑ a ∈ SA, (if a = a0 then c • f (X a0) (Y b0) else 0) := by
          apply Finset.sum_congr rfl; intro a _
          by_cases h1 : a = a0
          · simp only [if_pos h1]
            rw [Finset.sum_ite_eq' SB b0 (fun _ => c • f (X a0) (Y b0)), if_pos hb]
          · simp [h1]
      _ = c • f (X a0) (Y b0) := by
          rw [Finset.sum_ite_eq' SA a0 (fun _ => c • f (X a0) (Y b0)), if_pos ha]

/-- **Side condition of the Γ reading**: if no pair (root label, child label) occurs twice, the
    stored coefficient is the true one. -/
theorem gammaRead_eq_true_lem :
    ∀ terms : List (K × α × β), (terms.map (·.2)).Nodup → ∀ a b,
      gammaRead terms a b = gammaTrue terms a b
  | [], _, a, b => by simp [gammaRead, gammaTrue]
  | t :: ts, hnd, a, b => by
    rw [List.map_cons, List.nodup_cons] at hnd
    have ih := gammaRead_eq_true_lem ts hnd.2 a b
    by_cases h : t.2 = (a, b)
    · -- then no later term has this pair
      have hnone : ts.filter (fun x => x.2 = (a, b)) = [] := by
        rw [List.filter_eq_nil_iff]
        intro x hx hc
        apply hnd.1
        rw [h]
        exact List.mem_map.mpr ⟨x, hx, by simpa using hc⟩
      unfold gammaRead gammaTrue
      simp [h, hnone]
    · unfold gammaRead gammaTrue at ih ⊢
      simp only [List.filter_cons, h, decide_false, Bool.false_eq_true, if_false]
      exact ih

/-- End-to-end statement for one cut of a two-node tree : for a
    Hamiltonian with pairwise distinct label pairs, read `Γ` as `_setup_gamma_matrix` does, take
    *any* factorisation `Γ = L · Γ' · R` and *any* vertex cover of the support of `Γ'`; the sum of the
    `|Cu| + |Cv|` pure tensors routed through the cover is the Hamiltonian.
    (Partial: the pointer surgery of `_reconnect_hyperedges` / `_copy_node` realising these virtual
    nodes as hyperedges is not modelled.) -/
theorem sge_two_node_exact_partial_lem {ι' κ' : Type*} [Fintype ι'] [Fintype κ'] [DecidableEq ι']
    [DecidableEq κ'] (f : A →ₗ[K] B →ₗ[K] C) (X : α → A) (Y : β → B)
    (terms : List (K × α × β)) (hnd : (terms.map (·.2)).Nodup) (SA : Finset α) (SB : Finset β)
    (hS : ∀ t ∈ terms, t.2.1 ∈ SA ∧ t.2.2 ∈ SB)
    (L : Matrix ↥SA ι' K) (Γ' : Matrix ι' κ' K) (R : Matrix κ' ↥SB K)
    (hfac : (Matrix.of fun (a : ↥SA) (b : ↥SB) => gammaRead terms a.1 b.1) = L * Γ' * R)
    (Cu : Finset ι') (Cv : Finset κ') (hc : IsCover Γ' Cu Cv) :
    ∑ k : ↥Cu ⊕ ↥Cv,
        f (routeA (fun u' => ∑ a : ↥SA, L a u' • X a.1) Γ' Cu Cv k)
          (routeB (fun v' => ∑ b : ↥SB, R v' b • Y b.1) Γ' Cu Cv k) =
      hamSum f X Y terms := by
  rw [cut_preserves_lem f (fun a : ↥SA => X a.1) (fun b : ↥SB => Y b.1) _ L Γ' R hfac Cu Cv hc]
  rw [← gamma_true_exact_lem f X Y SA SB terms hS]
  simp only [Matrix.of_apply, gammaRead_eq_true_lem terms hnd]
  rw [← Finset.sum_coe_sort SA]
  apply Finset.sum_congr rfl; intro a _
  rw [← Finset.sum_coe_sort SB]

end TwoNode

end Ptn.C01
