import Ptn.C01.Net
import Ptn.C01.Fill
/-! Identifiers of the filled TTNO = identifiers of the reference tree (through the skeleton), and the leg
dimensions read off the TTNO itself (`ttnoDim`) satisfy the dimension contract of `netValue_eq_treeVal`. -/
namespace Ptn.C01

open List

mutual
/-- identifiers of a skeleton in preorder -/
def Skel.ids : Skel → List Nat
  | .node i kids => i :: Skel.idsKids kids
def Skel.idsKids : List Skel → List Nat
  | [] => []
  | k :: ks => Skel.ids k ++ Skel.idsKids ks
end

mutual
theorem treeIds_eq_skel : ∀ T : TTNO, treeIds T = T.skel.ids
  | .node i pb ph cells kids => by rw [treeIds, TTNO.skel, Skel.ids, kidsIds_eq_skel kids]
theorem kidsIds_eq_skel : ∀ ks : List TTNO, kidsIds ks = Skel.idsKids (TTNO.skelKids ks)
  | [] => by rw [kidsIds, TTNO.skelKids, Skel.idsKids]
  | k :: ks => by rw [kidsIds, TTNO.skelKids, Skel.idsKids, treeIds_eq_skel k, kidsIds_eq_skel ks]
end

mutual
theorem rtree_ids_eq_skel : ∀ t : RTree, t.ids = t.skel.ids
  | .node i dim kids => by rw [RTree.ids, RTree.skel, Skel.ids, rtree_idsKids_eq_skel kids]
theorem rtree_idsKids_eq_skel : ∀ ks : List RTree, RTree.idsKids ks = Skel.idsKids (RTree.skelKids ks)
  | [] => by rw [RTree.idsKids, RTree.skelKids, Skel.idsKids]
  | k :: ks => by
    rw [RTree.idsKids, RTree.skelKids, Skel.idsKids, rtree_ids_eq_skel k, rtree_idsKids_eq_skel ks]
end

/-- a TTNO with the reference tree's skeleton has the reference tree's identifiers (preorder) -/
theorem treeIds_of_skel (T : TTNO) (t : RTree) (h : T.skel = t.skel) : treeIds T = t.ids := by
  rw [treeIds_eq_skel, rtree_ids_eq_skel, h]

/-- **`treeIds_of_fill`**: the identifiers of the filled TTNO are those of the diagram's tree; in particular
    those of the reference tree `t` whenever the diagram has `t`'s skeleton. -/
theorem treeIds_of_fill (dimOf : String → Nat) (d : SD) (T : TTNO) (t : RTree)
    (h : fillTTNO dimOf d = some T) (hs : d.skel = t.skel) : treeIds T = t.ids :=
  treeIds_of_skel T t ((fill_skel dimOf d true T h).trans hs)

mutual
theorem bondsBelow_keys : ∀ T : TTNO, T.bondsBelow.map Prod.fst = kidsIds T.kids
  | .node i pb ph cells kids => by rw [TTNO.bondsBelow, TTNO.kids, bondsKids_keys kids]
theorem bondsKids_keys : ∀ ks : List TTNO, (TTNO.bondsKids ks).map Prod.fst = kidsIds ks
  | [] => by rw [TTNO.bondsKids, kidsIds]; rfl
  | k :: ks => by
    rw [TTNO.bondsKids, kidsIds, List.map_cons, List.map_append, bondsBelow_keys k, bondsKids_keys ks]
    cases k with
    | node i pb ph cells kids => simp [treeIds, TTNO.id, TTNO.kids]
end

theorem lookup_of_nodup_keys : ∀ (l : List (Nat × Nat)), (l.map Prod.fst).Nodup →
    ∀ p ∈ l, l.lookup p.1 = some p.2
  | [], _, p, h => by simp at h
  | (a, b) :: l, hnd, p, h => by
    rw [List.map_cons, List.nodup_cons] at hnd
    rcases List.mem_cons.1 h with h | h
    · subst h; simp [List.lookup]
    · have hne : (p.1 == a) = false := by
        rw [beq_eq_false_iff_ne]
        intro e
        apply hnd.1
        rw [← e]
        exact List.mem_map.2 ⟨p, h, rfl⟩
      rw [List.lookup_cons, hne]
      exact lookup_of_nodup_keys l hnd.2 p h

/-- the leg dimensions read off the TTNO itself: every bond leg (`up c` / `dn c`) gets the bond dimension the
    TTNO records for the edge above `c`, every physical leg the node's physical dimension -/
def ttnoDim (T : TTNO) : Leg → Nat :=
  legDim (fun c => (T.bondsBelow.lookup c).getD 0) (fun i => (T.physDims.lookup i).getD 0)

/-- with pairwise different identifiers `ttnoDim` gives every `dn` leg its bond's dimension -/
theorem ttnoDim_bonds (T : TTNO) (hnd : (treeIds T).Nodup) :
    ∀ p ∈ T.bondsBelow, ttnoDim T (.dn p.1) = p.2 := by
  intro p hp
  have hk : (T.bondsBelow.map Prod.fst).Nodup := by
    rw [bondsBelow_keys]
    cases T with
    | node i pb ph cells kids =>
      rw [treeIds, List.nodup_cons] at hnd
      exact hnd.2
  simp only [ttnoDim, legDim]
  rw [lookup_of_nodup_keys T.bondsBelow hk p hp]
  rfl

end Ptn.C01
