import Ptn.C01.Model
/-! Helper lemmas for C01 (core Lean only). -/
namespace Ptn.C01

/-! ### Formal sums -/

theorem mulSyms_nil_right (a : List String) (h : a = [] ∨ ∃ s, a = [s]) : mulSyms a [] = a := by
  rcases h with h | ⟨s, h⟩ <;> subst h <;> simp [mulSyms, insSym]

theorem mulSyms_symMono_nil (g : String) : mulSyms (symMono g) [] = symMono g := by
  apply mulSyms_nil_right
  unfold symMono
  split
  · exact Or.inl rfl
  · exact Or.inr ⟨g, rfl⟩

theorem mulSyms_nil_left (b : List String) : mulSyms [] b = b := by simp [mulSyms]

theorem symMono_one : symMono "1" = [] := by simp [symMono]

theorem fsum_mul_singleton (x y : Mono) : FSum.mul [x] [y] = [x.mul y] := by
  simp [FSum.mul]

/-! ### `denoteAt` / `denoteKids` equations -/

theorem denoteAt_node (i nv : Nat) (hes : List HE) (kids : List SD) (pv : Option Nat) :
    denoteAt (.node i nv hes kids) pv =
      hes.flatMap fun h => if h.pv = pv then (denoteKids kids h.kv).map (attach i h) else [] := by
  rw [denoteAt]

theorem denoteKids_nil : denoteKids [] [] = [Mono.one] := by rw [denoteKids]

theorem denoteKids_cons (k : SD) (ks : List SD) (v : Nat) (vs : List Nat) :
    denoteKids (k :: ks) (v :: vs) = FSum.mul (denoteAt k (some v)) (denoteKids ks vs) := by
  rw [denoteKids]

theorem denoteKids_nil_cons (v : Nat) (vs : List Nat) : denoteKids [] (v :: vs) = [] := by
  rw [denoteKids]

theorem denoteKids_cons_nil (k : SD) (ks : List SD) : denoteKids (k :: ks) [] = [] := by
  rw [denoteKids]

/-! ### Single-term diagrams -/

mutual
theorem denote_singleAt (ops : List (Nat × String)) (coef : Rat) (sym : String) (r : Bool) :
    ∀ t : RTree, denoteAt (singleAt ops coef sym r t) (if r then none else some 0) =
      [⟨if r then coef else 1, if r then symMono sym else [], asgOf ops t⟩]
  | .node i dim kids => by
    have ih := denote_singleKids ops coef sym kids
    rw [singleAt, denoteAt_node, asgOf]
    simp only [List.flatMap_cons, List.flatMap_nil, List.append_nil, if_true]
    rw [ih]
    cases r
    · simp [attach, symMono_one, mulSyms_nil_left, Rat.mul_one]
    · simp [attach, mulSyms_symMono_nil, Rat.mul_one]
theorem denote_singleKids (ops : List (Nat × String)) (coef : Rat) (sym : String) :
    ∀ ks : List RTree, denoteKids (singleKids ops coef sym ks) (ks.map fun _ => 0) =
      [⟨1, [], asgKids ops ks⟩]
  | [] => by
    rw [singleKids, asgKids]
    simp [denoteKids_nil, Mono.one]
  | k :: ks => by
    have ih1 := denote_singleAt ops coef sym false k
    have ih2 := denote_singleKids ops coef sym ks
    rw [singleKids, asgKids, List.map_cons, denoteKids_cons]
    simp only [Bool.false_eq_true, if_false] at ih1
    rw [ih1, ih2, fsum_mul_singleton]
    simp [Mono.mul, mulSyms_nil_left, Rat.mul_one]
end

end Ptn.C01

namespace Ptn.C01

/-! ### Out-of-range vertices -/

theorem flatMap_eq_nil_of_forall {α β : Type} (l : List α) (f : α → List β) (h : ∀ a ∈ l, f a = []) :
    l.flatMap f = [] := by
  induction l with
  | nil => rfl
  | cons a as ih =>
    rw [List.flatMap_cons, h a (List.mem_cons_self), ih (fun b hb => h b (List.mem_cons_of_mem _ hb))]
    rfl

theorem flatMap_congr_mem {α β : Type} (l : List α) (f g : α → List β) (h : ∀ a ∈ l, f a = g a) :
    l.flatMap f = l.flatMap g := by
  induction l with
  | nil => rfl
  | cons a as ih =>
    rw [List.flatMap_cons, List.flatMap_cons, h a (List.mem_cons_self),
      ih (fun b hb => h b (List.mem_cons_of_mem _ hb))]

theorem SD.WF_node (i nv : Nat) (hes : List HE) (kids : List SD) :
    (SD.node i nv hes kids).WF ↔
      (∀ h ∈ hes, (∀ p, h.pv = some p → p < nv) ∧ kvOk h.kv kids) ∧ WFKids kids := by
  rw [SD.WF]

theorem WFKids_cons (k : SD) (ks : List SD) : WFKids (k :: ks) ↔ k.WF ∧ WFKids ks := by
  rw [WFKids]

theorem SameShape_node (i1 n1 : Nat) (h1 : List HE) (k1 : List SD) (i2 n2 : Nat) (h2 : List HE)
    (k2 : List SD) :
    SameShape (.node i1 n1 h1 k1) (.node i2 n2 h2 k2) ↔ i1 = i2 ∧ SameShapeKids k1 k2 := by
  rw [SameShape]

/-- A vertex position beyond the collection is named by no hyperedge of a well-formed diagram. -/
theorem denoteAt_out_of_range (d : SD) (hd : d.WF) (v : Nat) (hv : d.nv ≤ v) :
    denoteAt d (some v) = [] := by
  cases d with
  | node i nv hes kids =>
    rw [denoteAt_node]
    apply flatMap_eq_nil_of_forall
    intro h hh
    have := ((SD.WF_node i nv hes kids).1 hd).1 h hh
    have hne : ¬ h.pv = some v := by
      intro hp
      have := this.1 v hp
      simp [SD.nv] at hv
      omega
    simp [hne]

theorem sumSD_node (i n1 : Nat) (h1 : List HE) (k1 : List SD) (j n2 : Nat) (h2 : List HE)
    (k2 : List SD) :
    sumSD (.node i n1 h1 k1) (.node j n2 h2 k2) =
      .node i (n1 + n2) (h1 ++ h2.map (shiftHE n1 (k1.map SD.nv))) (sumKids k1 k2) := by
  rw [sumSD]

theorem sumKids_cons (a : SD) (as : List SD) (b : SD) (bs : List SD) :
    sumKids (a :: as) (b :: bs) = sumSD a b :: sumKids as bs := by
  rw [sumKids]

theorem sumKids_nil : sumKids [] [] = [] := by
  rw [sumKids]

theorem sumSD_nv (d1 d2 : SD) : (sumSD d1 d2).nv = d1.nv + d2.nv := by
  cases d1; cases d2; rw [sumSD_node]; rfl


theorem SameShapeKids_cons (a : SD) (as : List SD) (b : SD) (bs : List SD) :
    SameShapeKids (a :: as) (b :: bs) ↔ SameShape a b ∧ SameShapeKids as bs := by
  rw [SameShapeKids]

theorem kvOk_cons (v : Nat) (vs : List Nat) (k : SD) (ks : List SD) :
    kvOk (v :: vs) (k :: ks) ↔ v < k.nv ∧ kvOk vs ks := by
  rw [kvOk]

theorem attach_shift (i np : Nat) (nk : List Nat) (h : HE) (m : Mono) :
    attach i (shiftHE np nk h) m = attach i h m := by
  simp [attach, shiftHE]

theorem attach_shift_fun (i np : Nat) (nk : List Nat) (h : HE) :
    attach i (shiftHE np nk h) = attach i h := funext (attach_shift i np nk h)

theorem shiftHE_pv (np : Nat) (nk : List Nat) (h : HE) : (shiftHE np nk h).pv = h.pv.map (· + np) := rfl

theorem shiftHE_kv (np : Nat) (nk : List Nat) (h : HE) :
    (shiftHE np nk h).kv = List.zipWith (· + ·) h.kv nk := rfl

theorem ite_iff_congr {α : Type} {p q : Prop} [Decidable p] [Decidable q] (h : p ↔ q) (a b : α) :
    (if p then a else b) = (if q then a else b) := by
  by_cases hp : p
  · rw [if_pos hp, if_pos (h.1 hp)]
  · rw [if_neg hp, if_neg (fun hq => hp (h.2 hq))]

theorem map_add_eq_none (x : Option Nat) (n : Nat) : (x.map (· + n) = none) ↔ x = none := by
  cases x <;> simp

theorem map_add_eq_some_ge (x : Option Nat) (n v : Nat) (hv : ¬ v < n) :
    (x.map (· + n) = some v) ↔ x = some (v - n) := by
  cases x with
  | none => simp
  | some p => simp; omega

theorem map_add_ne_some_lt (x : Option Nat) (n v : Nat) (hv : v < n) : ¬ (x.map (· + n) = some v) := by
  cases x with
  | none => simp
  | some p => simp; omega

/-- Contribution of the second summand to the sum diagram, seen from vertex `pv` of the parent edge. -/
def d2part (n1 : Nat) (d2 : SD) : Option Nat → FSum
  | none => denoteAt d2 none
  | some v => if v < n1 then [] else denoteAt d2 (some (v - n1))

mutual
theorem denoteAt_sum : ∀ (d1 d2 : SD), d1.WF → d2.WF → SameShape d1 d2 → ∀ pv : Option Nat,
    denoteAt (sumSD d1 d2) pv = denoteAt d1 pv ++ d2part d1.nv d2 pv
  | .node i n1 h1 k1, .node j n2 h2 k2, w1, w2, ss, pv => by
    have hlt := denoteKids_sum_lt k1 k2
    have hge := denoteKids_sum_ge k1 k2
    rw [SD.WF_node] at w1 w2
    rw [SameShape_node] at ss
    obtain ⟨hij, ssk⟩ := ss
    subst hij
    rw [sumSD_node, denoteAt_node, List.flatMap_append]
    congr 1
    · -- hyperedges of the first summand: unchanged, and their children stay in the first summand
      rw [denoteAt_node]
      apply flatMap_congr_mem
      intro h hh
      rw [hlt w1.2 w2.2 ssk h.kv ((w1.1 h hh).2)]
    · -- hyperedges of the second summand: shifted
      rw [List.flatMap_map]
      simp only [SD.nv]
      cases pv with
      | none =>
        simp only [d2part]
        rw [denoteAt_node]
        apply flatMap_congr_mem
        intro h hh
        have hk := hge w1.2 w2.2 ssk h.kv ((w2.1 h hh).2)
        rw [attach_shift_fun, shiftHE_pv, shiftHE_kv, hk]
        exact ite_iff_congr (map_add_eq_none h.pv n1) _ _
      | some v =>
        simp only [d2part]
        by_cases hv : v < n1
        · simp only [hv, if_true]
          apply flatMap_eq_nil_of_forall
          intro h hh
          rw [shiftHE_pv, if_neg (map_add_ne_some_lt h.pv n1 v hv)]
        · simp only [hv, if_false]
          rw [denoteAt_node]
          apply flatMap_congr_mem
          intro h hh
          have hk := hge w1.2 w2.2 ssk h.kv ((w2.1 h hh).2)
          rw [attach_shift_fun, shiftHE_pv, shiftHE_kv, hk]
          exact ite_iff_congr (map_add_eq_some_ge h.pv n1 v hv) _ _
theorem denoteKids_sum_lt : ∀ (k1 k2 : List SD), WFKids k1 → WFKids k2 → SameShapeKids k1 k2 →
    ∀ vs : List Nat, kvOk vs k1 → denoteKids (sumKids k1 k2) vs = denoteKids k1 vs
  | [], [], _, _, _, vs, _ => by rw [sumKids_nil]
  | a :: as, b :: bs, w1, w2, ss, vs, hk => by
    rw [WFKids_cons] at w1 w2
    rw [SameShapeKids_cons] at ss
    cases vs with
    | nil => simp [kvOk] at hk
    | cons v vs =>
      rw [kvOk_cons] at hk
      rw [sumKids_cons, denoteKids_cons, denoteKids_cons,
        denoteAt_sum a b w1.1 w2.1 ss.1 (some v),
        denoteKids_sum_lt as bs w1.2 w2.2 ss.2 vs hk.2]
      simp [d2part, hk.1]
  | [], _ :: _, _, _, ss, _, _ => by simp [SameShapeKids] at ss
  | _ :: _, [], _, _, ss, _, _ => by simp [SameShapeKids] at ss
theorem denoteKids_sum_ge : ∀ (k1 k2 : List SD), WFKids k1 → WFKids k2 → SameShapeKids k1 k2 →
    ∀ vs : List Nat, kvOk vs k2 →
      denoteKids (sumKids k1 k2) (List.zipWith (· + ·) vs (k1.map SD.nv)) = denoteKids k2 vs
  | [], [], _, _, _, vs, hk => by
    cases vs with
    | nil => rw [sumKids_nil]; rfl
    | cons v vs => simp [kvOk] at hk
  | a :: as, b :: bs, w1, w2, ss, vs, hk => by
    rw [WFKids_cons] at w1 w2
    rw [SameShapeKids_cons] at ss
    cases vs with
    | nil => simp [kvOk] at hk
    | cons v vs =>
      rw [kvOk_cons] at hk
      rw [sumKids_cons, List.map_cons, List.zipWith_cons_cons, denoteKids_cons, denoteKids_cons,
        denoteAt_sum a b w1.1 w2.1 ss.1 (some (v + a.nv)),
        denoteKids_sum_ge as bs w1.2 w2.2 ss.2 vs hk.2,
        denoteAt_out_of_range a w1.1 (v + a.nv) (by omega)]
      have hnl : ¬ v + a.nv < a.nv := by omega
      simp [d2part, hnl]
  | [], _ :: _, _, _, ss, _, _ => by simp [SameShapeKids] at ss
  | _ :: _, [], _, _, ss, _, _ => by simp [SameShapeKids] at ss
end


/-! ### Well-formedness and shape of the constructed diagrams -/

theorem singleAt_nv (ops : List (Nat × String)) (coef : Rat) (sym : String) (r : Bool) (t : RTree) :
    (singleAt ops coef sym r t).nv = if r then 0 else 1 := by
  cases t; rw [singleAt]; rfl

theorem kvOk_singleKids (ops : List (Nat × String)) (coef : Rat) (sym : String) :
    ∀ ks : List RTree, kvOk (ks.map fun _ => 0) (singleKids ops coef sym ks)
  | [] => by rw [singleKids]; simp [kvOk]
  | k :: ks => by
    rw [singleKids, List.map_cons, kvOk_cons, singleAt_nv]
    exact ⟨by simp, kvOk_singleKids ops coef sym ks⟩

mutual
theorem singleAt_WF (ops : List (Nat × String)) (coef : Rat) (sym : String) (r : Bool) :
    ∀ t : RTree, (singleAt ops coef sym r t).WF
  | .node i dim kids => by
    rw [singleAt, SD.WF_node]
    refine ⟨?_, singleKids_WF ops coef sym kids⟩
    intro h hh
    simp only [List.mem_singleton] at hh
    subst hh
    refine ⟨?_, kvOk_singleKids ops coef sym kids⟩
    intro p hp
    cases r <;> simp at hp ⊢
    omega
theorem singleKids_WF (ops : List (Nat × String)) (coef : Rat) (sym : String) :
    ∀ ks : List RTree, WFKids (singleKids ops coef sym ks)
  | [] => by rw [singleKids]; simp [WFKids]
  | k :: ks => by
    rw [singleKids, WFKids_cons]
    exact ⟨singleAt_WF ops coef sym false k, singleKids_WF ops coef sym ks⟩
end

mutual
theorem singleAt_sameShape (o1 o2 : List (Nat × String)) (c1 c2 : Rat) (s1 s2 : String) (r : Bool) :
    ∀ t : RTree, SameShape (singleAt o1 c1 s1 r t) (singleAt o2 c2 s2 r t)
  | .node i dim kids => by
    rw [singleAt, singleAt, SameShape_node]
    exact ⟨rfl, singleKids_sameShape o1 o2 c1 c2 s1 s2 kids⟩
theorem singleKids_sameShape (o1 o2 : List (Nat × String)) (c1 c2 : Rat) (s1 s2 : String) :
    ∀ ks : List RTree, SameShapeKids (singleKids o1 c1 s1 ks) (singleKids o2 c2 s2 ks)
  | [] => by rw [singleKids, singleKids]; simp [SameShapeKids]
  | k :: ks => by
    rw [singleKids, singleKids, SameShapeKids_cons]
    exact ⟨singleAt_sameShape o1 o2 c1 c2 s1 s2 false k, singleKids_sameShape o1 o2 c1 c2 s1 s2 ks⟩
end

mutual
theorem sumSD_sameShape : ∀ (d1 d2 d3 : SD), SameShape d1 d2 → SameShape d1 d3 →
    SameShape (sumSD d1 d2) d3
  | .node i n1 h1 k1, .node j n2 h2 k2, .node l n3 h3 k3, s12, s13 => by
    rw [SameShape_node] at s12 s13
    rw [sumSD_node, SameShape_node]
    exact ⟨s13.1, sumKids_sameShape k1 k2 k3 s12.2 s13.2⟩
theorem sumKids_sameShape : ∀ (k1 k2 k3 : List SD), SameShapeKids k1 k2 → SameShapeKids k1 k3 →
    SameShapeKids (sumKids k1 k2) k3
  | [], [], k3, _, s13 => by rw [sumKids_nil]; exact s13
  | a :: as, b :: bs, [], _, s13 => by simp [SameShapeKids] at s13
  | a :: as, b :: bs, c :: cs, s12, s13 => by
    rw [SameShapeKids_cons] at s12 s13
    rw [sumKids_cons, SameShapeKids_cons]
    exact ⟨sumSD_sameShape a b c s12.1 s13.1, sumKids_sameShape as bs cs s12.2 s13.2⟩
  | [], _ :: _, _, s12, _ => by simp [SameShapeKids] at s12
  | _ :: _, [], _, s12, _ => by simp [SameShapeKids] at s12
end

theorem kvOk_sum_left : ∀ (vs : List Nat) (k1 k2 : List SD), SameShapeKids k1 k2 → kvOk vs k1 →
    kvOk vs (sumKids k1 k2)
  | vs, [], [], _, h => by rw [sumKids_nil]; exact h
  | [], a :: as, b :: bs, _, h => by simp [kvOk] at h
  | v :: vs, a :: as, b :: bs, ss, h => by
    rw [SameShapeKids_cons] at ss
    rw [kvOk_cons] at h
    rw [sumKids_cons, kvOk_cons, sumSD_nv]
    exact ⟨by omega, kvOk_sum_left vs as bs ss.2 h.2⟩
  | _, [], _ :: _, ss, _ => by simp [SameShapeKids] at ss
  | _, _ :: _, [], ss, _ => by simp [SameShapeKids] at ss

theorem kvOk_sum_right : ∀ (vs : List Nat) (k1 k2 : List SD), SameShapeKids k1 k2 → kvOk vs k2 →
    kvOk (List.zipWith (· + ·) vs (k1.map SD.nv)) (sumKids k1 k2)
  | [], [], [], _, _ => by rw [sumKids_nil]; simp [kvOk]
  | v :: vs, [], [], _, h => by simp [kvOk] at h
  | [], a :: as, b :: bs, _, h => by simp [kvOk] at h
  | v :: vs, a :: as, b :: bs, ss, h => by
    rw [SameShapeKids_cons] at ss
    rw [kvOk_cons] at h
    rw [sumKids_cons, List.map_cons, List.zipWith_cons_cons, kvOk_cons, sumSD_nv]
    exact ⟨by omega, kvOk_sum_right vs as bs ss.2 h.2⟩
  | _, [], _ :: _, ss, _ => by simp [SameShapeKids] at ss
  | _, _ :: _, [], ss, _ => by simp [SameShapeKids] at ss

mutual
theorem sumSD_WF : ∀ (d1 d2 : SD), d1.WF → d2.WF → SameShape d1 d2 → (sumSD d1 d2).WF
  | .node i n1 h1 k1, .node j n2 h2 k2, w1, w2, ss => by
    rw [SD.WF_node] at w1 w2
    rw [SameShape_node] at ss
    rw [sumSD_node, SD.WF_node]
    refine ⟨?_, sumKids_WF k1 k2 w1.2 w2.2 ss.2⟩
    intro h hh
    rw [List.mem_append] at hh
    rcases hh with hh | hh
    · refine ⟨fun p hp => ?_, kvOk_sum_left h.kv k1 k2 ss.2 (w1.1 h hh).2⟩
      have := (w1.1 h hh).1 p hp
      omega
    · rw [List.mem_map] at hh
      obtain ⟨g, hg, rfl⟩ := hh
      refine ⟨fun p hp => ?_, ?_⟩
      · rw [shiftHE_pv] at hp
        cases hq : g.pv with
        | none => rw [hq] at hp; simp at hp
        | some q =>
          rw [hq] at hp
          simp at hp
          have := (w2.1 g hg).1 q hq
          omega
      · rw [shiftHE_kv]
        exact kvOk_sum_right g.kv k1 k2 ss.2 (w2.1 g hg).2
theorem sumKids_WF : ∀ (k1 k2 : List SD), WFKids k1 → WFKids k2 → SameShapeKids k1 k2 →
    WFKids (sumKids k1 k2)
  | [], [], _, _, _ => by rw [sumKids_nil]; simp [WFKids]
  | a :: as, b :: bs, w1, w2, ss => by
    rw [WFKids_cons] at w1 w2
    rw [SameShapeKids_cons] at ss
    rw [sumKids_cons, WFKids_cons]
    exact ⟨sumSD_WF a b w1.1 w2.1 ss.1, sumKids_WF as bs w1.2 w2.2 ss.2⟩
  | [], _ :: _, _, _, ss => by simp [SameShapeKids] at ss
  | _ :: _, [], _, _, ss => by simp [SameShapeKids] at ss
end

mutual
theorem sameShape_trans : ∀ (d1 d2 d3 : SD), SameShape d1 d2 → SameShape d2 d3 → SameShape d1 d3
  | .node i n1 h1 k1, .node j n2 h2 k2, .node l n3 h3 k3, s12, s23 => by
    rw [SameShape_node] at s12 s23 ⊢
    exact ⟨s12.1.trans s23.1, sameShapeKids_trans k1 k2 k3 s12.2 s23.2⟩
theorem sameShapeKids_trans : ∀ (k1 k2 k3 : List SD), SameShapeKids k1 k2 → SameShapeKids k2 k3 →
    SameShapeKids k1 k3
  | [], [], k3, _, s23 => s23
  | a :: as, b :: bs, [], _, s23 => by simp [SameShapeKids] at s23
  | a :: as, b :: bs, c :: cs, s12, s23 => by
    rw [SameShapeKids_cons] at s12 s23 ⊢
    exact ⟨sameShape_trans a b c s12.1 s23.1, sameShapeKids_trans as bs cs s12.2 s23.2⟩
  | [], _ :: _, _, s12, _ => by simp [SameShapeKids] at s12
  | _ :: _, [], _, s12, _ => by simp [SameShapeKids] at s12
end

mutual
theorem sameShape_refl : ∀ d : SD, SameShape d d
  | .node i n h ks => by
    rw [SameShape_node]
    exact ⟨rfl, sameShapeKids_refl ks⟩
theorem sameShapeKids_refl : ∀ ks : List SD, SameShapeKids ks ks
  | [] => by simp [SameShapeKids]
  | k :: ks => by
    rw [SameShapeKids_cons]
    exact ⟨sameShape_refl k, sameShapeKids_refl ks⟩
end

mutual
theorem asgOf_ids (ops : List (Nat × String)) : ∀ t : RTree, (asgOf ops t).map Prod.fst = t.ids
  | .node i dim kids => by
    rw [asgOf, RTree.ids, List.map_cons, asgKids_ids ops kids]
theorem asgKids_ids (ops : List (Nat × String)) :
    ∀ ks : List RTree, (asgKids ops ks).map Prod.fst = RTree.idsKids ks
  | [] => by rw [asgKids, RTree.idsKids]; rfl
  | k :: ks => by
    rw [asgKids, RTree.idsKids, List.map_append, asgOf_ids ops k, asgKids_ids ops ks]
end

theorem sameShape_trans_single (t : RTree) (tm0 x : Term) (acc : SD)
    (ss : SameShape acc (singleTerm t tm0)) : SameShape acc (singleTerm t x) :=
  sameShape_trans acc _ _ ss (singleAt_sameShape _ _ _ _ _ _ true t)

/-! ### The uncompressed sum -/

/-- Invariant of the left fold in `get_state_diagram_compound`. -/
theorem fold_sum_denote (t : RTree) (tm0 : Term) :
    ∀ (rest : List Term) (acc : SD), acc.WF → SameShape acc (singleTerm t tm0) →
      let d := rest.foldl (fun a x => sumSD a (singleTerm t x)) acc
      d.WF ∧ SameShape d (singleTerm t tm0) ∧
        sdDenote d = sdDenote acc ++ rest.map (termMono t)
  | [], acc, w, ss => by simp [w, ss]
  | x :: rest, acc, w, ss => by
    have hsx : SameShape acc (singleTerm t x) := by
      -- shapes of single-term diagrams of the same tree agree: transport through tm0
      exact sameShape_trans_single t tm0 x acc ss
    have wx : (singleTerm t x).WF := singleAt_WF _ _ _ true t
    have w' := sumSD_WF acc (singleTerm t x) w wx hsx
    have ss' := sumSD_sameShape acc (singleTerm t x) (singleTerm t tm0) hsx ss
    have ih := fold_sum_denote t tm0 rest (sumSD acc (singleTerm t x)) w' ss'
    simp only [List.foldl_cons]
    refine ⟨ih.1, ih.2.1, ?_⟩
    rw [ih.2.2]
    simp only [sdDenote]
    rw [denoteAt_sum acc (singleTerm t x) w wx hsx none]
    simp only [d2part, List.map_cons, List.append_assoc]
    congr 1
    have := denote_singleAt x.ops x.coef x.sym true t
    simp only [if_true] at this
    rw [singleTerm, this]
    rfl

/-! ### Example data used by the non-vacuity examples of `Props.lean` (C01 and C12) -/

/-- A branched tree with a dimension-1 node; node 0 has children 2, 1 in this (reference) order. -/
def exTree : RTree := .node 0 2 [.node 2 3 [], .node 1 2 [.node 3 1 []]]
def exT1 : Term := ⟨2 / 3, "g", [(0, "A"), (3, "B")]⟩
def exT2 : Term := ⟨-5, "1", [(2, "C")]⟩

end Ptn.C01
