import Ptn.C01.Model
import Ptn.C01.Lemmas
import Ptn.C01.Enum
import Ptn.C01.Compress
import Ptn.C01.Cut
import Ptn.C01.Fill
import Ptn.C01.Value
import Ptn.C01.Net
import Ptn.C01.NetTree
/-! Property theorems for C01 (Hamiltonian → state diagram → operator is exact).  Only property theorems
and non-vacuity examples live here; helper lemmas are in `Lemmas.lean`.

What is covered: identity padding, `SingleTermDiagram.from_single_term`, `sum_states` and the
uncompressed construction (`TTNOFinder.BASE`) denote exactly Σ_k c_k ⊗_sites A_k, for every tree (any
branching, any child order, any dimensions) and every Hamiltonian (any number of terms, supports,
repeated or proportional terms, rational prefactors, symbols).  The compressing constructions (SGE,
BIPARTITE, TREE) are not modelled (two of them are false of the code for repeated terms / unequal
coefficients: F-C01a, F-C01b); they are decided per input by the harness. -/
namespace Ptn.C01

/-- Identity padding: a site the term acts on keeps its label, every other site gets the symbolic
    identity of its own dimension. -/
theorem pad_spec (ops : List (Nat × String)) (i dim : Nat) :
    (∀ l, ops.lookup i = some l → padLabel ops i dim = l) ∧
    (ops.lookup i = none → padLabel ops i dim = "I" ++ toString dim) := by
  unfold padLabel
  constructor
  · intro l h; rw [h]
  · intro h; rw [h]

/-- The padded assignment of a term names every node of the tree exactly once, in preorder. -/
theorem asg_covers (ops : List (Nat × String)) (t : RTree) :
    (asgOf ops t).map Prod.fst = t.ids := asgOf_ids ops t

/-- The denotation is the sum over **all** choices of one hyperedge per node that agree on every
    vertex, of (product of the λ's) · (product of the γ's) · (chosen labels): the node-by-node
    definition `denoteAt` and the explicit enumeration produce the same list of summands, for every
    diagram (well-formed or not). -/
theorem denote_eq_sum_over_choices (d : SD) : sdDenote d = sdDenoteEnum d := by
  unfold sdDenote sdDenoteEnum
  exact (enum_eq_denoteAt d none).symm

/-- A single-term diagram denotes exactly that term: for every tree, every label assignment and every
    coefficient pair there is exactly one consistent choice of hyperedges, its label assignment is the
    padded term and its weight is `coef · sym` (the coefficient sits on the root hyperedge, all
    others carry `1 · "1"`). -/
theorem single_term_denote (t : RTree) (tm : Term) :
    sdDenote (singleTerm t tm) = [termMono t tm] := by
  have := denote_singleAt tm.ops tm.coef tm.sym true t
  simpa [sdDenote, singleTerm, termMono] using this

/-- `sum_states` denotes the sum: for any two well-formed diagrams on the same tree. -/
theorem sum_states_denote (d1 d2 : SD) (w1 : d1.WF) (w2 : d2.WF) (ss : SameShape d1 d2) :
    sdDenote (sumSD d1 d2) = sdDenote d1 ++ sdDenote d2 := by
  simp only [sdDenote]
  rw [denoteAt_sum d1 d2 w1 w2 ss none]
  rfl

/-- … and is again a well-formed diagram on that tree (every hyperedge names existing vertices, so
    the tensor filling writes inside the allocated tensors). -/
theorem sum_states_wf (d1 d2 : SD) (w1 : d1.WF) (w2 : d2.WF) (ss : SameShape d1 d2) :
    (sumSD d1 d2).WF ∧ SameShape (sumSD d1 d2) d1 :=
  ⟨sumSD_WF d1 d2 w1 w2 ss, sumSD_sameShape d1 d2 d1 ss (sameShape_refl d1)⟩

/-- **The uncompressed method is exact**: for every tree and every Hamiltonian (duplicates,
    proportional terms, any coefficients included) the diagram built by `from_hamiltonian_base`
    denotes the formal sum Σ_k c_k ⊗_sites A_k of the padded terms, summand by summand. -/
theorem base_exact (t : RTree) (terms : List Term) (d : SD) (h : baseDiagram t terms = some d) :
    sdDenote d = hamDenote t terms := by
  cases terms with
  | nil => simp [baseDiagram] at h
  | cons tm rest =>
    simp only [baseDiagram, Option.some.injEq] at h
    subst h
    have w0 : (singleTerm t tm).WF := singleAt_WF _ _ _ true t
    have := (fold_sum_denote t tm rest (singleTerm t tm) w0 (sameShape_refl _)).2.2
    rw [this, single_term_denote]
    rfl

/-- The same as a statement about the finitely supported map (assignment, monomial) ↦ coefficient. -/
theorem base_exact_coeff (t : RTree) (terms : List Term) (d : SD) (h : baseDiagram t terms = some d)
    (a : List (Nat × String)) (m : List String) :
    coeffOf (sdDenote d) a m = coeffOf (hamDenote t terms) a m := by
  rw [base_exact t terms d h]

/-- The construction succeeds for every non-empty Hamiltonian and its result is well-formed. -/
theorem base_defined (t : RTree) (tm : Term) (rest : List Term) :
    ∃ d, baseDiagram t (tm :: rest) = some d ∧ d.WF := by
  refine ⟨_, rfl, ?_⟩
  exact (fold_sum_denote t tm rest (singleTerm t tm) (singleAt_WF _ _ _ true t) (sameShape_refl _)).1

/-! ### The semantic core of the compressing constructions

`combine_subtrees` (+ `erase_subtree`) and `cut_and_optimise` (+ `_reconnect_hyperedges`) are not
modelled line by line; the theorems below are the identities that make them sound, and the exact
place where soundness is lost for repeated terms (F-C01b, F-C01d). -/

/-- Re-attaching the parent-side hyperedges of vertex `v2` to vertex `v1` (edge to child number `j`
    of the node reached by `path`, anywhere in any tree) preserves the denotation as soon as the child
    denotes the same formal sum below both vertices.  No other hypothesis. -/
theorem reattach_preserves (d x : SD) (path : List Nat) (j v1 v2 : Nat)
    (hx : subAt path d = some x)
    (hbelow : ∀ k, x.kids[j]? = some k → denoteAt k (some v2) = denoteAt k (some v1)) :
    sdDenote (modifyAt path (redirect j v2 v1) d) = sdDenote d :=
  denoteAt_modifyAt _ path d x hx (denoteAt_redirect j v2 v1 x hbelow) none

/-- **`combine_subtrees` is sound without any distinctness condition**: merging two child-side
    vertices `v1 ≠ v2` (re-attach the parents of `v2` to `v1`, erase the hyperedges sitting on `v2`)
    preserves `sdDenote` whenever what hangs below `v2` denotes the same as what hangs below `v1` -
    in particular when the two sub-diagrams are equal as data (equal subtree hashes), *also when they
    come from the same term twice*.  The side condition the design anticipated ("not the same term
    twice") is not needed here; multiplicity is lost later, see `gamma_read_exact` and
    `merge_identical_terms_loses_multiplicity`. -/
theorem merge_equal_subtrees_preserves (d x : SD) (path : List Nat) (j v1 v2 : Nat)
    (hx : subAt path d = some x) (hne : v1 ≠ v2)
    (hbelow : ∀ k, x.kids[j]? = some k → denoteAt k (some v2) = denoteAt k (some v1)) :
    sdDenote (modifyAt path (mergeAt j v2 v1) d) = sdDenote d :=
  denoteAt_modifyAt _ path d x hx (denoteAt_mergeAt j v2 v1 hne x hbelow) none

/-- In the uncompressed diagram the sub-diagram below vertex `k` of a root edge denotes the padded
    labels of term `k` on that subtree (coefficient 1): equal label subtrees - what the SHA-256 subtree
    hash compares - are equal denotations. -/
theorem base_below_vertex (t : RTree) (tm0 : Term) (rest : List Term) (d : SD)
    (h : baseDiagram t (tm0 :: rest) = some d) (j : Nat) (dk : SD) (tk : RTree)
    (hdk : d.kids[j]? = some dk) (htk : t.kids[j]? = some tk) (k : Nat) (tm : Term)
    (hk : (tm0 :: rest)[k]? = some tm) :
    denoteAt dk (some k) = [⟨1, [], asgOf tm.ops tk⟩] :=
  (base_below t tm0 rest d h j dk tk hdk htk).2 k tm hk

/-- First level of `combine_subtrees` on the uncompressed diagram: two terms `k1 ≠ k2` (possibly the
    *same* term twice) whose padded labels agree on the whole subtree of root child `j` can be merged
    there; the diagram still denotes Σ_k c_k ⊗ A_k with every multiplicity. -/
theorem combine_base_preserves (t : RTree) (tm0 : Term) (rest : List Term) (d : SD)
    (h : baseDiagram t (tm0 :: rest) = some d) (j k1 k2 : Nat) (tk : RTree) (t1 t2 : Term)
    (htk : t.kids[j]? = some tk) (h1 : (tm0 :: rest)[k1]? = some t1)
    (h2 : (tm0 :: rest)[k2]? = some t2) (hne : k1 ≠ k2)
    (hlab : asgOf t2.ops tk = asgOf t1.ops tk) :
    sdDenote (mergeAt j k2 k1 d) = hamDenote t (tm0 :: rest) := by
  rw [← base_exact t (tm0 :: rest) d h]
  have := merge_equal_subtrees_preserves d d [] j k1 k2 rfl hne (fun dk hdk => by
    rw [base_below_vertex t tm0 rest d h j dk tk hdk htk k2 t2 h2,
      base_below_vertex t tm0 rest d h j dk tk hdk htk k1 t1 h1, hlab])
  simpa [modifyAt] using this

/-- Where multiplicity is lost.  Two identical terms `A ⊗ B + A ⊗ B` on a two-node tree: merging the
    equal child subtrees is sound (first clause), but afterwards the two root hyperedges are equal as
    data (same label, same vertex, same coefficient) and `_generate_non_redundant_V_dict` /
    `_remove_reduntant_v_hyperedges` keep only one of them: the diagram then denotes `A ⊗ B` once. -/
theorem merge_identical_terms_loses_multiplicity :
    let t : RTree := .node 0 2 [.node 1 2 []]
    let tm : Term := ⟨1, "1", [(0, "A"), (1, "B")]⟩
    ∀ d, baseDiagram t [tm, tm] = some d →
      sdDenote (mergeAt 0 1 0 d) = sdDenote d ∧
      (mergeAt 0 1 0 d).hes[0]? = (mergeAt 0 1 0 d).hes[1]? ∧
      sdDenote (removeHE 1 (mergeAt 0 1 0 d)) = [termMono t tm] ∧
      sdDenote (removeHE 1 (mergeAt 0 1 0 d)) ≠ hamDenote t [tm, tm] := by
  intro t tm d h
  simp only [baseDiagram, Option.some.injEq] at h
  subst h
  decide +kernel

/-- `cut_and_optimise`, step 1 (`gaussian_elimination`): with `Γ = L · Γ' · R` the bilinear sum over
    U and V nodes equals the bilinear sum over the virtual nodes with coefficient matrix `Γ'`.
    `K`: any commutative semiring of coefficients (linear forms in the symbols), `f`: any bilinear
    operation `A → B → C` (the tensor product of the two sides of the edge). -/
theorem cut_factor {K : Type*} [CommSemiring K] {A B C : Type*} [AddCommMonoid A] [AddCommMonoid B]
    [AddCommMonoid C] [Module K A] [Module K B] [Module K C]
    {ι κ ι' κ' : Type*} [Fintype ι] [Fintype κ] [Fintype ι'] [Fintype κ']
    (f : A →ₗ[K] B →ₗ[K] C) (U : ι → A) (V : κ → B)
    (Γ : Matrix ι κ K) (L : Matrix ι ι' K) (Γ' : Matrix ι' κ' K) (R : Matrix κ' κ K)
    (h : Γ = L * Γ' * R) :
    ∑ u, ∑ v, Γ u v • f (U u) (V v) =
      ∑ u', ∑ v', Γ' u' v' • f (∑ u, L u u' • U u) (∑ v, R v' v • V v) :=
  cut_factor_lem f U V Γ L Γ' R h

/-- `cut_and_optimise`, step 2 (`minimum_vertex_cover` + `_reconnect_hyperedges`): if `(Cu, Cv)`
    covers the support of `G`, every non-zero entry can be assigned to its covering row, else to its
    covering column; the sum becomes one pure tensor per covering row and per covering column. -/
theorem cut_cover {K : Type*} [CommSemiring K] {A B C : Type*} [AddCommMonoid A] [AddCommMonoid B]
    [AddCommMonoid C] [Module K A] [Module K B] [Module K C]
    {ι κ : Type*} [Fintype ι] [Fintype κ] [DecidableEq ι] [DecidableEq κ]
    (f : A →ₗ[K] B →ₗ[K] C) (U : ι → A) (V : κ → B) (G : Matrix ι κ K)
    (Cu : Finset ι) (Cv : Finset κ) (hc : IsCover G Cu Cv) :
    ∑ i, ∑ j, G i j • f (U i) (V j) =
      ∑ i ∈ Cu, f (U i) (∑ j, G i j • V j) +
        ∑ j ∈ Cv, f (∑ i ∈ Finset.univ.filter (· ∉ Cu), G i j • U i) (V j) :=
  cut_cover_lem f U V G Cu Cv hc

/-- **`cut_preserves`**: factorise `Γ = L · Γ' · R`, take any vertex cover `(Cu, Cv)` of the support of
    `Γ'`, route every non-zero entry through its covering row or column.  The operator of the cut is
    unchanged and is written with exactly `|Cu| + |Cv|` new vertices (pure tensors of virtual
    nodes): the bond dimension created at the cut is the size of the cover. -/
theorem cut_preserves {K : Type*} [CommSemiring K] {A B C : Type*} [AddCommMonoid A]
    [AddCommMonoid B] [AddCommMonoid C] [Module K A] [Module K B] [Module K C]
    {ι κ ι' κ' : Type*} [Fintype ι] [Fintype κ] [Fintype ι'] [Fintype κ']
    [DecidableEq ι'] [DecidableEq κ']
    (f : A →ₗ[K] B →ₗ[K] C) (U : ι → A) (V : κ → B)
    (Γ : Matrix ι κ K) (L : Matrix ι ι' K) (Γ' : Matrix ι' κ' K) (R : Matrix κ' κ K)
    (h : Γ = L * Γ' * R) (Cu : Finset ι') (Cv : Finset κ') (hc : IsCover Γ' Cu Cv) :
    ∑ k : ↥Cu ⊕ ↥Cv,
        f (routeA (fun u' => ∑ u, L u u' • U u) Γ' Cu Cv k)
          (routeB (fun v' => ∑ v, R v' v • V v) Γ' Cu Cv k) =
        ∑ u, ∑ v, Γ u v • f (U u) (V v) ∧
      Fintype.card (↥Cu ⊕ ↥Cv) = Cu.card + Cv.card :=
  ⟨cut_preserves_lem f U V Γ L Γ' R h Cu Cv hc, by simp⟩

/-- Reading Γ off the terms with the *true* coefficients (sum over all terms with the same pair of
    labels) is exact for every Hamiltonian on a two-node tree, repeated pairs included. -/
theorem gamma_true_exact {K : Type*} [CommSemiring K] {A B C : Type*} [AddCommMonoid A]
    [AddCommMonoid B] [AddCommMonoid C] [Module K A] [Module K B] [Module K C]
    {α β : Type*} [DecidableEq α] [DecidableEq β]
    (f : A →ₗ[K] B →ₗ[K] C) (X : α → A) (Y : β → B) (SA : Finset α) (SB : Finset β)
    (terms : List (K × α × β)) (hS : ∀ t ∈ terms, t.2.1 ∈ SA ∧ t.2.2 ∈ SB) :
    ∑ a ∈ SA, ∑ b ∈ SB, gammaTrue terms a b • f (X a) (Y b) = hamSum f X Y terms :=
  gamma_true_exact_lem f X Y SA SB terms hS

/-- **Side condition of the Γ reading** (`_setup_gamma_matrix` *assigns* `Gamma[u][v] = coefficient`,
    so of several terms with the same pair of labels the last one wins): the stored coefficient is the
    true one for every pair as soon as no pair (root label, child label) occurs twice, i.e. the terms
    are pairwise distinct.  (The condition is also necessary unless the overwritten coefficients of a
    repeated pair happen to sum to zero, see `gamma_read_loses_multiplicity`.) -/
theorem gamma_read_exact {K : Type*} [CommSemiring K] {α β : Type*} [DecidableEq α] [DecidableEq β]
    (terms : List (K × α × β)) (hnd : (terms.map (·.2)).Nodup) (a : α) (b : β) :
    gammaRead terms a b = gammaTrue terms a b :=
  gammaRead_eq_true_lem terms hnd a b

/-- … and it is violated by the smallest repeated pair: the same term twice is read as once
    (F-C01b at the level of Γ). -/
theorem gamma_read_loses_multiplicity :
    gammaRead [((1 : ℕ), (), ()), (1, (), ())] () () = 1 ∧
    gammaTrue [((1 : ℕ), (), ()), (1, (), ())] () () = 2 := by
  constructor <;> decide

/-- End to end for one cut of a two-node tree, all steps abstract but composed: pairwise distinct
    terms; Γ read as the code does; any factorisation `Γ = L · Γ' · R`; any vertex cover of the support
    of `Γ'`; the `|Cu| + |Cv|` pure tensors routed through the cover sum to the Hamiltonian.
    Partial: the pointer surgery realising the virtual nodes as hyperedges (`_create_combined_u_v_lists`,
    `_reconnect_hyperedges`, `_copy_node`) is not modelled. -/
theorem sge_two_node_exact_partial {K : Type*} [CommSemiring K] {A B C : Type*} [AddCommMonoid A]
    [AddCommMonoid B] [AddCommMonoid C] [Module K A] [Module K B] [Module K C]
    {α β : Type*} [DecidableEq α] [DecidableEq β]
    {ι' κ' : Type*} [Fintype ι'] [Fintype κ'] [DecidableEq ι'] [DecidableEq κ']
    (f : A →ₗ[K] B →ₗ[K] C) (X : α → A) (Y : β → B)
    (terms : List (K × α × β)) (hnd : (terms.map (·.2)).Nodup) (SA : Finset α) (SB : Finset β)
    (hS : ∀ t ∈ terms, t.2.1 ∈ SA ∧ t.2.2 ∈ SB)
    (L : Matrix ↥SA ι' K) (Γ' : Matrix ι' κ' K) (R : Matrix κ' ↥SB K)
    (hfac : (Matrix.of fun (a : ↥SA) (b : ↥SB) => gammaRead terms a.1 b.1) = L * Γ' * R)
    (Cu : Finset ι') (Cv : Finset κ') (hc : IsCover Γ' Cu Cv) :
    ∑ k : ↥Cu ⊕ ↥Cv,
        f (routeA (fun u' => ∑ a : ↥SA, L a u' • X a.1) Γ' Cu Cv k)
          (routeB (fun v' => ∑ b : ↥SB, R v' b • Y b.1) Γ' Cu Cv k) =
      hamSum f X Y terms :=
  sge_two_node_exact_partial_lem f X Y terms hnd SA SB hS L Γ' R hfac Cu Cv hc

/-! ### `from_state_diagram`: the bridge from diagrams to operators

A TTNO is a tree of node tensors; a node tensor is a finitely supported map from index tuples
(parent leg, child legs) to formal operator sums `λ · γ · label` (`Cells`, `entryAt`).  `fillTTNO` is the
port of `from_state_diagram` (`obtain_tensor_shape`, `find_tensor_position`, `+=`), `ttnoContract` sums,
over ALL assignments of one index to every edge, the tensor product of the selected entries. -/

/-- **`fill_contract_eq_denote`**: for every tree and every diagram on which the filling succeeds, the
    contraction of the filled TTNO is the denotation of the diagram - the same summands, possibly in
    another order (the contraction runs over index tuples, the denotation over hyperedges), hence the
    same finitely supported map.  A choice of hyperedges that agree on every vertex *is* an index
    assignment; several hyperedges at one position add up (`+=`). -/
theorem fill_contract_eq_denote (dimOf : String → Nat) (d : SD) (T : TTNO)
    (h : fillTTNO dimOf d = some T) :
    (ttnoContract T).Perm (sdDenote d) ∧
      ∀ a m, coeffOf (ttnoContract T) a m = coeffOf (sdDenote d) a m := by
  have hp := contract_fill_perm dimOf d true T h none
  exact ⟨hp, fun a m => coeffOf_perm hp a m⟩

/-- The filling succeeds (no `IndexError`, every node has a shape) on every well-formed diagram whose
    nodes all carry a hyperedge and whose hyperedges name a parent vertex exactly below the root. -/
theorem fill_defined (dimOf : String → Nat) (d : SD) (w : d.WF) (p : Populated true d) :
    ∃ T, fillTTNO dimOf d = some T :=
  fill_defined_aux dimOf d true w p

/-- Every bond dimension of the filled TTNO is the number of vertices of that edge. -/
theorem bond_dims_eq_vertex_counts (dimOf : String → Nat) (d : SD) (T : TTNO)
    (h : fillTTNO dimOf d = some T) : T.bondsBelow = bondDims d :=
  fill_bonds dimOf d true T h

/-- The filled TTNO has the identifiers and parent/child relations (children in the same order) of
    the diagram's tree, and every physical dimension is the operator table's dimension of the node's
    first hyperedge label. -/
theorem ttno_structure (dimOf : String → Nat) (d : SD) (T : TTNO) (h : fillTTNO dimOf d = some T) :
    T.skel = d.skel ∧ T.physDims = d.firstLabels.map fun p => (p.1, dimOf p.2) :=
  ⟨fill_skel dimOf d true T h, fill_phys dimOf d true T h⟩

/-- **`base_ttno_exact`**: for every tree and every non-empty Hamiltonian the uncompressed construction
    followed by the tensor filling succeeds and yields a TTNO that
    * contracts to Σ_k c_k ⊗_sites A_k (summand for summand up to order),
    * has the reference tree's identifiers and parent/child relations,
    * has bond dimension = number of terms on every edge,
    * has the physical dimensions of the first term's padded labels - which are the nodes' own
      dimensions as soon as the operator table gives every label used (or padded) at a node that
      node's dimension. -/
theorem base_ttno_exact (dimOf : String → Nat) (t : RTree) (tm : Term) (rest : List Term) :
    ∃ d T, baseDiagram t (tm :: rest) = some d ∧ fillTTNO dimOf d = some T ∧
      (ttnoContract T).Perm (hamDenote t (tm :: rest)) ∧
      (∀ a m, coeffOf (ttnoContract T) a m = coeffOf (hamDenote t (tm :: rest)) a m) ∧
      T.skel = t.skel ∧
      T.physDims = (asgOf tm.ops t).map (fun p => (p.1, dimOf p.2)) ∧
      ((∀ p ∈ t.dimsOf, dimOf (padLabel tm.ops p.1 p.2) = p.2) → T.physDims = t.dimsOf) := by
  have inv := fold_fillable t tm rest (singleTerm t tm) (singleAt_WF _ _ _ true t) (sameShape_refl _)
    (singleAt_populated _ _ _ true t) (singleAt_skel _ _ _ true t) (singleAt_firstLabels _ _ _ true t)
  obtain ⟨w, pop, sk, fl⟩ := inv
  obtain ⟨T, hT⟩ := fill_defined dimOf _ w pop
  refine ⟨_, T, rfl, hT, ?_, ?_, ?_, ?_, ?_⟩
  · have := (fill_contract_eq_denote dimOf _ T hT).1
    rwa [base_exact t (tm :: rest) _ rfl] at this
  · intro a m
    rw [(fill_contract_eq_denote dimOf _ T hT).2 a m, base_exact t (tm :: rest) _ rfl]
  · rw [(ttno_structure dimOf _ T hT).1, sk]
  · rw [(ttno_structure dimOf _ T hT).2, fl]
  · intro htab
    rw [(ttno_structure dimOf _ T hT).2, fl]
    exact asg_dims dimOf tm.ops t htab

/-! ### Value level: labels ↦ matrices over a commutative semiring

`Interp R` gives every label a matrix `op i l`, every symbol a scalar and embeds the prefactors
multiplicatively; `fsumVal I o n fs` is the entry `[o, n]` (one out- and one in-index per site) of the
formal sum, `Σ_terms coeff · Π_sites A_{term,site}[o_site, n_site]`; `treeVal` contracts the scalar
tensors `W_i[pv, kv, o_i, n_i]` (`cellVal`) of the filled TTNO one bond at a time, `nodeLeaf` /
`treeBinds` / `treeLeaves` present the same tensors as a flat network of `Ptn.Ein`. -/

/-- **All trees, nested sums**: for every diagram on which the filling succeeds and every interpretation
    in every commutative semiring, contracting the filled tensors bond by bond (children first) gives,
    entry by entry, the value of the diagram's denotation. -/
theorem ttno_nested_value {R : Type} [CommSemiring R] (I : Interp R) (dimOf : String → Nat) (d : SD)
    (T : TTNO) (h : fillTTNO dimOf d = some T) (o n : Nat → Nat) :
    treeVal I o n T none = fsumVal I o n (sdDenote d) := by
  rw [treeVal_eq]
  exact fsumVal_perm I o n (fill_contract_eq_denote dimOf d T h).1

/-- **All trees, all Hamiltonians (uncompressed method)**: the TTNO built from a non-empty Hamiltonian
    contracts, entry by entry, to `Σ_k c_k γ_k Π_sites A_{k,site}[o_site, n_site]` of the padded terms. -/
theorem base_ttno_value {R : Type} [CommSemiring R] (I : Interp R) (dimOf : String → Nat) (t : RTree)
    (tm : Term) (rest : List Term) :
    ∃ d T, baseDiagram t (tm :: rest) = some d ∧ fillTTNO dimOf d = some T ∧
      ∀ o n : Nat → Nat, treeVal I o n T none = hamVal I o n t (tm :: rest) := by
  obtain ⟨d, T, hd, hT, hp, _⟩ := base_ttno_exact dimOf t tm rest
  refine ⟨d, T, hd, hT, fun o n => ?_⟩
  rw [treeVal_eq, ← fsumVal_hamDenote]
  exact fsumVal_perm I o n hp

/-- **`ttno_network_value`** (every tree, flat network): instantiate the labels with matrices over a
    commutative semiring; the filled tensors are the leaves `W_i[bond indices…, out_i, in_i]` (`nodeLeaf`), the
    binding record is one pair (parent's leg `dn c`, child's leg `up c`) per tree edge.  If the node identifiers
    are pairwise different and every bond leg has the bond's dimension, `Ptn.Ein.netValue` - the one big sum
    over a common index per tree bond of the product of all leaves - equals, as a function of all
    (out, in) indices, the entrywise value `Σ_terms coeff · Π_n A_{term,n}[out_n, in_n]` of the diagram's
    denotation. -/
theorem ttno_network_value {R : Type} [CommSemiring R] (I : Interp R) (dimOf : String → Nat) (d : SD)
    (T : TTNO) (h : fillTTNO dimOf d = some T) (hnd : (treeIds T).Nodup) (dim : Leg → Nat)
    (hdim : ∀ p ∈ T.bondsBelow, dim (.dn p.1) = p.2) (σ : Ptn.Ein.Asg Leg) :
    Ptn.Ein.netValue dim (treeBinds T) (treeLeaves I T) σ =
      fsumVal I (fun j => σ (.out j)) (fun j => σ (.inn j)) (sdDenote d) := by
  rw [← ttno_nested_value I dimOf d T h]
  exact netValue_eq_treeVal I dim T hnd (fill_proper dimOf dim d true T h hdim) σ

/-- The same for the uncompressed TTNO of every non-empty Hamiltonian on every tree: the flat network
    evaluates to `Σ_k c_k γ_k Π_sites A_{k,site}[out_site, in_site]`. -/
theorem base_ttno_network_value {R : Type} [CommSemiring R] (I : Interp R) (dimOf : String → Nat)
    (t : RTree) (tm : Term) (rest : List Term) :
    ∃ d T, baseDiagram t (tm :: rest) = some d ∧ fillTTNO dimOf d = some T ∧
      ∀ (dim : Leg → Nat) (σ : Ptn.Ein.Asg Leg), (treeIds T).Nodup →
        (∀ p ∈ T.bondsBelow, dim (.dn p.1) = p.2) →
        Ptn.Ein.netValue dim (treeBinds T) (treeLeaves I T) σ =
          hamVal I (fun j => σ (.out j)) (fun j => σ (.inn j)) t (tm :: rest) := by
  obtain ⟨d, T, hd, hT, hval⟩ := base_ttno_value I dimOf t tm rest
  refine ⟨d, T, hd, hT, fun dim σ hnd hdim => ?_⟩
  rw [← hval]
  exact netValue_eq_treeVal I dim T hnd (fill_proper dimOf dim d true T hT hdim) σ

/-- `base_ttno_network_value` with the identifier hypothesis stated on the REFERENCE TREE: for every tree with
    pairwise different identifiers and every non-empty Hamiltonian the filled uncompressed TTNO has exactly the
    tree's identifiers (preorder), and for every leg-dimension function that gives each `dn` leg its bond's
    dimension the flat network evaluates to the value of the Hamiltonian. -/
theorem base_ttno_network_value_of_tree {R : Type} [CommSemiring R] (I : Interp R) (dimOf : String → Nat)
    (t : RTree) (tm : Term) (rest : List Term) (hids : t.ids.Nodup) :
    ∃ d T, baseDiagram t (tm :: rest) = some d ∧ fillTTNO dimOf d = some T ∧ treeIds T = t.ids ∧
      ∀ (dim : Leg → Nat) (σ : Ptn.Ein.Asg Leg),
        (∀ p ∈ T.bondsBelow, dim (.dn p.1) = p.2) →
        Ptn.Ein.netValue dim (treeBinds T) (treeLeaves I T) σ =
          hamVal I (fun j => σ (.out j)) (fun j => σ (.inn j)) t (tm :: rest) := by
  obtain ⟨d, T, hd, hT, hval⟩ := base_ttno_network_value I dimOf t tm rest
  obtain ⟨d', T', hd', hT', _, _, sk, _, _⟩ := base_ttno_exact dimOf t tm rest
  have ed : d' = d := Option.some.inj (hd'.symm.trans hd)
  subst ed
  have eT : T' = T := Option.some.inj (hT'.symm.trans hT)
  subst eT
  have hid : treeIds T' = t.ids := treeIds_of_skel T' t sk
  exact ⟨d', T', hd, hT, hid, fun dim σ hdim => hval dim σ (hid ▸ hids) hdim⟩

/-- **Closed form**: for every tree with pairwise different identifiers and every non-empty Hamiltonian, the flat
    network of the filled uncompressed TTNO, with the leg dimensions read off the TTNO itself (`ttnoDim T`),
    evaluates at every assignment of the open legs to
    `Σ_k c_k γ_k Π_sites A_{k,site}[out_site, in_site]`. No hypothesis besides distinct identifiers. -/
theorem base_ttno_network_value_closed {R : Type} [CommSemiring R] (I : Interp R) (dimOf : String → Nat)
    (t : RTree) (tm : Term) (rest : List Term) (hids : t.ids.Nodup) :
    ∃ d T, baseDiagram t (tm :: rest) = some d ∧ fillTTNO dimOf d = some T ∧
      ∀ σ : Ptn.Ein.Asg Leg,
        Ptn.Ein.netValue (ttnoDim T) (treeBinds T) (treeLeaves I T) σ =
          hamVal I (fun j => σ (.out j)) (fun j => σ (.inn j)) t (tm :: rest) := by
  obtain ⟨d, T, hd, hT, hid, hval⟩ := base_ttno_network_value_of_tree I dimOf t tm rest hids
  exact ⟨d, T, hd, hT, fun σ => hval (ttnoDim T) σ (ttnoDim_bonds T (hid ▸ hids))⟩

/-- The same discharge for every diagram on which the filling succeeds (`ttno_network_value` with `ttnoDim`):
    only the identifiers of the filled TTNO have to be pairwise different. -/
theorem ttno_network_value_closed {R : Type} [CommSemiring R] (I : Interp R) (dimOf : String → Nat)
    (d : SD) (T : TTNO) (h : fillTTNO dimOf d = some T) (hnd : (treeIds T).Nodup) (σ : Ptn.Ein.Asg Leg) :
    Ptn.Ein.netValue (ttnoDim T) (treeBinds T) (treeLeaves I T) σ =
      fsumVal I (fun j => σ (.out j)) (fun j => σ (.inn j)) (sdDenote d) :=
  ttno_network_value I dimOf d T h hnd (ttnoDim T) (ttnoDim_bonds T hnd) σ

/-! ### Non-vacuity: concrete instances -/

-- `exTree`, `exT1`, `exT2` (a branched tree with a dimension-1 node and two terms) are defined in `Lemmas.lean`.

example : sdDenote (singleTerm exTree exT1) =
    [⟨2 / 3, ["g"], [(0, "A"), (2, "I3"), (1, "I2"), (3, "B")]⟩] := by decide +kernel

-- a Hamiltonian with a repeated term: the uncompressed diagram keeps the multiplicity
example : (baseDiagram exTree [exT1, exT2, exT1]).map sdDenote =
    some [⟨2 / 3, ["g"], [(0, "A"), (2, "I3"), (1, "I2"), (3, "B")]⟩,
          ⟨-5, [], [(0, "I2"), (2, "C"), (1, "I2"), (3, "I1")]⟩,
          ⟨2 / 3, ["g"], [(0, "A"), (2, "I3"), (1, "I2"), (3, "B")]⟩] := by decide +kernel

example : coeffOf (hamDenote exTree [exT1, exT2, exT1])
    [(0, "A"), (2, "I3"), (1, "I2"), (3, "B")] ["g"] = 4 / 3 := by decide +kernel

-- hypotheses of `sum_states_denote` are satisfiable by non-trivial diagrams
example : (singleTerm exTree exT1).WF ∧ (singleTerm exTree exT2).WF ∧
    SameShape (singleTerm exTree exT1) (singleTerm exTree exT2) :=
  ⟨singleAt_WF _ _ _ true _, singleAt_WF _ _ _ true _, singleAt_sameShape _ _ _ _ _ _ true _⟩

-- `merge_equal_subtrees_preserves` / `combine_base_preserves` on a branched tree: the two terms agree below child
-- number 1 of the root (nodes 1 and 3) and are merged there
example : (baseDiagram exTree [exT1, ⟨7, "h", [(0, "C"), (3, "B")]⟩]).map (fun d => sdDenote (mergeAt 1 1 0 d)) =
    some (hamDenote exTree [exT1, ⟨7, "h", [(0, "C"), (3, "B")]⟩]) := by decide +kernel

-- … and where they do NOT agree (child number 0 carries I3 resp. C) the same surgery changes the operator
example : (baseDiagram exTree [exT1, exT2]).map (fun d => sdDenote (mergeAt 0 1 0 d)) ≠
    some (hamDenote exTree [exT1, exT2]) := by decide +kernel

-- hypotheses of `cut_preserves`: Γ = all-ones 2×2 = L · Γ' · R through a single virtual node, covered by its row
example : (Matrix.of fun (_ _ : Fin 2) => (1 : ℕ)) =
    (Matrix.of fun (_ : Fin 2) (_ : Fin 1) => (1 : ℕ)) * (Matrix.of fun (_ _ : Fin 1) => (1 : ℕ)) *
      (Matrix.of fun (_ : Fin 1) (_ : Fin 2) => (1 : ℕ)) := by
  ext i j; simp [Matrix.mul_apply]
example : IsCover (Matrix.of fun (_ _ : Fin 1) => (1 : ℕ)) {0} ∅ := by
  intro i j _; left; simp; exact Subsingleton.elim i 0

-- hypotheses of `sge_two_node_exact_partial`: distinct pairs
example : ([((2 : ℕ), "A", "X"), (3, "A", "Y"), (5, "B", "X")].map (·.2)).Nodup := by decide

-- `fill_contract_eq_denote` on a diagram where two hyperedges share one tensor position (`+=` matters) and the
-- contraction runs over 2 × 2 index pairs of which two carry entries
example : (fillTTNO (fun _ => 2) (.node 0 0 [⟨"A", 2, "g", none, [0]⟩, ⟨"B", 3, "1", none, [0]⟩, ⟨"C", 1, "1", none, [1]⟩]
      [.node 1 2 [⟨"X", 1, "1", some 0, []⟩, ⟨"Y", 5, "h", some 1, []⟩] []])).map
    (fun T => (ttnoContract T).map fun m => (m.coef, m.syms, m.asg)) =
    some [(2, ["g"], [(0, "A"), (1, "X")]), (3, [], [(0, "B"), (1, "X")]), (5, ["h"], [(0, "C"), (1, "Y")])] := by
  decide +kernel

-- the filling fails where NumPy raises: a vertex index outside the bond
example : fillTTNO (fun _ => 2) (.node 0 0 [⟨"A", 1, "1", none, [2]⟩] [.node 1 2 [⟨"X", 1, "1", some 0, []⟩] []]) = none := by
  decide +kernel

-- `base_ttno_exact` instance: bonds and physical dimensions of the uncompressed TTNO of two terms
example : ((baseDiagram exTree [exT1, exT2]).bind (fillTTNO fun l => if l = "I3" ∨ l = "C" then 3 else if l = "I1" ∨ l = "B" then 1 else 2)).map
    (fun T => (T.bondsBelow, T.physDims)) =
    some ([(2, 2), (1, 2), (3, 2)], [(0, 2), (2, 3), (1, 2), (3, 1)]) := by decide +kernel

-- the explicit enumeration really enumerates: 2 · 2 · 2 · 2 global choices for two terms on four nodes, two consistent
example : ((baseDiagram exTree [exT1, exT2]).map fun d => ((choices d).length, (sdDenoteEnum d).length)) =
    some (16, 2) := by decide +kernel

-- `denoteAt` is not vacuously empty on malformed input only: an inconsistent pair of hyperedges
-- (vertex 1 toward the child, but the child's only hyperedge sits on vertex 0) denotes nothing
example : sdDenote (.node 0 0 [⟨"A", 1, "1", none, [1]⟩] [.node 1 2 [⟨"B", 1, "1", some 0, []⟩] []]) = [] := by
  decide +kernel

-- value level: the interpretation `exInterp` (over ℚ) and the assignment `exSigma` are defined in `Value.lean`.
-- `ttno_network_value` on the diagram where two hyperedges share one tensor position: the
-- hypotheses hold (the filling succeeds, the bond leg has dimension 2) and the value is a non-trivial number
example : (fillTTNO (fun _ => 2) (.node 0 0 [⟨"A", 2, "g", none, [0]⟩, ⟨"B", 3, "1", none, [0]⟩, ⟨"C", 1, "1", none, [1]⟩]
      [.node 1 2 [⟨"X", 1, "1", some 0, []⟩, ⟨"Y", 5, "h", some 1, []⟩] []])).isSome = true ∧
    legDim (fun _ => 2) (fun _ => 2) (.dn 1) = 2 := by decide +kernel

example : (fillTTNO (fun _ => 2) (.node 0 0 [⟨"A", 2, "g", none, [0]⟩, ⟨"B", 3, "1", none, [0]⟩, ⟨"C", 1, "1", none, [1]⟩]
      [.node 1 2 [⟨"X", 1, "1", some 0, []⟩, ⟨"Y", 5, "h", some 1, []⟩] []])).map
    (fun T => (decide (treeIds T).Nodup, T.bondsBelow)) = some (true, [(1, 2)]) := by decide +kernel

example : fsumVal exInterp (fun j => exSigma (.out j)) (fun j => exSigma (.inn j))
    (sdDenote (.node 0 0 [⟨"A", 2, "g", none, [0]⟩, ⟨"B", 3, "1", none, [0]⟩, ⟨"C", 1, "1", none, [1]⟩]
      [.node 1 2 [⟨"X", 1, "1", some 0, []⟩, ⟨"Y", 5, "h", some 1, []⟩] []])) = 272 := by decide +kernel

-- … and the flat network of the filled tensors evaluates to the same number
example : (fillTTNO (fun _ => 2) (.node 0 0 [⟨"A", 2, "g", none, [0]⟩, ⟨"B", 3, "1", none, [0]⟩, ⟨"C", 1, "1", none, [1]⟩]
      [.node 1 2 [⟨"X", 1, "1", some 0, []⟩, ⟨"Y", 5, "h", some 1, []⟩] []])).map
    (fun T => Ptn.Ein.netValue (legDim (fun _ => 2) (fun _ => 2)) (treeBinds T) (treeLeaves exInterp T) exSigma) =
    some 272 := by decide +kernel

-- `base_ttno_value` instance: the value of the two-term Hamiltonian on the branched example tree
example : hamVal exInterp (fun j => j + 1) (fun j => 2 * j) exTree [exT1, exT2] = -32490 := by decide +kernel

-- `base_ttno_network_value` instance on the branched tree (three bonds of dimension 2, four leaves): the hypotheses
-- hold and the flat network evaluates to the value of the Hamiltonian
example : ((baseDiagram exTree [exT1, exT2]).bind (fillTTNO fun _ => 2)).map
    (fun T => (decide (treeIds T).Nodup, T.bondsBelow,
      Ptn.Ein.netValue (legDim (fun _ => 2) (fun _ => 2)) (treeBinds T) (treeLeaves exInterp T) exSigma)) =
    some (true, [(2, 2), (1, 2), (3, 2)], -32490) := by decide +kernel

-- `base_ttno_network_value_closed` instance: the reference tree's identifiers are pairwise different, the filled
-- TTNO has exactly these identifiers, `ttnoDim` gives the three bonds dimension 2 and the flat network with these
-- dimensions evaluates to the value of the Hamiltonian
example : exTree.ids.Nodup := by decide
example : ((baseDiagram exTree [exT1, exT2]).bind (fillTTNO fun _ => 2)).map
    (fun T => (decide (treeIds T = exTree.ids), [ttnoDim T (.dn 1), ttnoDim T (.dn 2), ttnoDim T (.up 3)],
      Ptn.Ein.netValue (ttnoDim T) (treeBinds T) (treeLeaves exInterp T) exSigma)) =
    some (true, [2, 2, 2], -32490) := by decide +kernel

end Ptn.C01
