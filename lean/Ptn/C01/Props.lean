import Ptn.C01.Model
/-! Property theorems for C01. Only property theorems and non-vacuity examples live here. -/
namespace Ptn.C01
end Ptn.C01
