import Ptn.C01.Model
import Ptn.C01.Lemmas
import Ptn.C01.Enum
/-! Property theorems for C01 (Hamiltonian → state diagram → operator is exact).  Only property theorems
and non-vacuity examples live here; helper lemmas are in `Lemmas.lean`.

What is covered: identity padding, `SingleTermDiagram.from_single_term`, `sum_states` and the
uncompressed construction (`TTNOFinder.BASE`) denote exactly Σ_k c_k ⊗_sites A_k, for every tree (any
branching, any child order, any dimensions) and every Hamiltonian (any number of terms, supports,
repeated or proportional terms, rational prefactors, symbols).  The compressing constructions (SGE,
BIPARTITE, TREE) are not modelled (two of them are false of the code for repeated terms / unequal
coefficients: F-C01a, F-C01b); they are decided per input by the harness. -/
namespace Ptn.C01

/-- Identity padding: a site the term acts on keeps its label, every other site gets the symbolic
    identity of its own dimension. -/
theorem pad_spec (ops : List (Nat × String)) (i dim : Nat) :
    (∀ l, ops.lookup i = some l → padLabel ops i dim = l) ∧
    (ops.lookup i = none → padLabel ops i dim = "I" ++ toString dim) := by
  unfold padLabel
  constructor
  · intro l h; rw [h]
  · intro h; rw [h]

/-- The padded assignment of a term names every node of the tree exactly once, in preorder. -/
theorem asg_covers (ops : List (Nat × String)) (t : RTree) :
    (asgOf ops t).map Prod.fst = t.ids := asgOf_ids ops t

/-- The denotation is the sum over **all** choices of one hyperedge per node that agree on every
    vertex, of (product of the λ's) · (product of the γ's) · (chosen labels): the node-by-node
    definition `denoteAt` and the explicit enumeration produce the same list of summands, for every
    diagram (well-formed or not). -/
theorem denote_eq_sum_over_choices (d : SD) : sdDenote d = sdDenoteEnum d := by
  unfold sdDenote sdDenoteEnum
  exact (enum_eq_denoteAt d none).symm

/-- A single-term diagram denotes exactly that term: for every tree, every label assignment and every
    coefficient pair there is exactly one consistent choice of hyperedges, its label assignment is the
    padded term and its weight is `coef · sym` (the coefficient sits on the root hyperedge, all
    others carry `1 · "1"`). -/
theorem single_term_denote (t : RTree) (tm : Term) :
    sdDenote (singleTerm t tm) = [termMono t tm] := by
  have := denote_singleAt tm.ops tm.coef tm.sym true t
  simpa [sdDenote, singleTerm, termMono] using this

/-- `sum_states` denotes the sum: for any two well-formed diagrams on the same tree. -/
theorem sum_states_denote (d1 d2 : SD) (w1 : d1.WF) (w2 : d2.WF) (ss : SameShape d1 d2) :
    sdDenote (sumSD d1 d2) = sdDenote d1 ++ sdDenote d2 := by
  simp only [sdDenote]
  rw [denoteAt_sum d1 d2 w1 w2 ss none]
  rfl

/-- … and is again a well-formed diagram on that tree (every hyperedge names existing vertices, so
    the tensor filling writes inside the allocated tensors). -/
theorem sum_states_wf (d1 d2 : SD) (w1 : d1.WF) (w2 : d2.WF) (ss : SameShape d1 d2) :
    (sumSD d1 d2).WF ∧ SameShape (sumSD d1 d2) d1 :=
  ⟨sumSD_WF d1 d2 w1 w2 ss, sumSD_sameShape d1 d2 d1 ss (sameShape_refl d1)⟩

/-- **The uncompressed method is exact**: for every tree and every Hamiltonian (duplicates,
    proportional terms, any coefficients included) the diagram built by `from_hamiltonian_base`
    denotes the formal sum Σ_k c_k ⊗_sites A_k of the padded terms, summand by summand. -/
theorem base_exact (t : RTree) (terms : List Term) (d : SD) (h : baseDiagram t terms = some d) :
    sdDenote d = hamDenote t terms := by
  cases terms with
  | nil => simp [baseDiagram] at h
  | cons tm rest =>
    simp only [baseDiagram, Option.some.injEq] at h
    subst h
    have w0 : (singleTerm t tm).WF := singleAt_WF _ _ _ true t
    have := (fold_sum_denote t tm rest (singleTerm t tm) w0 (sameShape_refl _)).2.2
    rw [this, single_term_denote]
    rfl

/-- The same as a statement about the finitely supported map (assignment, monomial) ↦ coefficient. -/
theorem base_exact_coeff (t : RTree) (terms : List Term) (d : SD) (h : baseDiagram t terms = some d)
    (a : List (Nat × String)) (m : List String) :
    coeffOf (sdDenote d) a m = coeffOf (hamDenote t terms) a m := by
  rw [base_exact t terms d h]

/-- The construction succeeds for every non-empty Hamiltonian and its result is well-formed. -/
theorem base_defined (t : RTree) (tm : Term) (rest : List Term) :
    ∃ d, baseDiagram t (tm :: rest) = some d ∧ d.WF := by
  refine ⟨_, rfl, ?_⟩
  exact (fold_sum_denote t tm rest (singleTerm t tm) (singleAt_WF _ _ _ true t) (sameShape_refl _)).1

/-! ### Non-vacuity: concrete instances -/

-- `exTree`, `exT1`, `exT2` (a branched tree with a dimension-1 node and two terms) are defined in `Lemmas.lean`.

example : sdDenote (singleTerm exTree exT1) =
    [⟨2 / 3, ["g"], [(0, "A"), (2, "I3"), (1, "I2"), (3, "B")]⟩] := by decide +kernel

-- a Hamiltonian with a repeated term: the uncompressed diagram keeps the multiplicity
example : (baseDiagram exTree [exT1, exT2, exT1]).map sdDenote =
    some [⟨2 / 3, ["g"], [(0, "A"), (2, "I3"), (1, "I2"), (3, "B")]⟩,
          ⟨-5, [], [(0, "I2"), (2, "C"), (1, "I2"), (3, "I1")]⟩,
          ⟨2 / 3, ["g"], [(0, "A"), (2, "I3"), (1, "I2"), (3, "B")]⟩] := by decide +kernel

example : coeffOf (hamDenote exTree [exT1, exT2, exT1])
    [(0, "A"), (2, "I3"), (1, "I2"), (3, "B")] ["g"] = 4 / 3 := by decide +kernel

-- hypotheses of `sum_states_denote` are satisfiable by non-trivial diagrams
example : (singleTerm exTree exT1).WF ∧ (singleTerm exTree exT2).WF ∧
    SameShape (singleTerm exTree exT1) (singleTerm exTree exT2) :=
  ⟨singleAt_WF _ _ _ true _, singleAt_WF _ _ _ true _, singleAt_sameShape _ _ _ _ _ _ true _⟩

-- the explicit enumeration really enumerates: 2 · 2 · 2 · 2 global choices for two terms on four nodes, two consistent
example : ((baseDiagram exTree [exT1, exT2]).map fun d => ((choices d).length, (sdDenoteEnum d).length)) =
    some (16, 2) := by decide +kernel

-- `denoteAt` is not vacuously empty on malformed input only: an inconsistent pair of hyperedges
-- (vertex 1 toward the child, but the child's only hyperedge sits on vertex 0) denotes nothing
example : sdDenote (.node 0 0 [⟨"A", 1, "1", none, [1]⟩] [.node 1 2 [⟨"B", 1, "1", some 0, []⟩] []]) = [] := by
  decide +kernel

end Ptn.C01
