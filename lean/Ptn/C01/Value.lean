import Ptn.C01.Model
import Ptn.C01.Fill
import Ptn.Common.Einsum
import Mathlib.Algebra.Ring.Rat
/-! Value level for C01: the formal operator sums of `Model.lean` are given VALUES in an arbitrary
commutative semiring (labels ↦ matrices, symbols ↦ scalars, rational prefactors ↦ scalars through a
multiplicative map), the filled TTNO tensors become scalar-valued leaves, and the contraction of the
tensors (nested sums over one bond at a time; for the two-node tree also the flat `Ptn.Ein.netValue`)
is the entrywise value of the formal sum the C01 theorems speak about. -/
namespace Ptn.C01

open List

/-- Interpretation of the formal ingredients of a Hamiltonian in a commutative semiring `R`:
    `q` embeds the rational prefactors (only multiplicativity is used), `sym` gives every symbol a
    scalar, `op i l` is the matrix of label `l` at site `i` (entry `[out, in]`). -/
structure Interp (R : Type) [CommSemiring R] where
  q : Rat → R
  q_one : q 1 = 1
  q_mul : ∀ a b, q (a * b) = q a * q b
  sym : String → R
  op : Nat → String → Nat → Nat → R

section
variable {R : Type} [CommSemiring R] (I : Interp R) (o n : Nat → Nat)

/-- product of the values of a monomial of symbols -/
def symsVal (syms : List String) : R := (syms.map I.sym).prod

/-- `Π_sites A_site[out_site, in_site]` of a label assignment -/
def asgVal (asg : List (Nat × String)) : R := (asg.map fun p => I.op p.1 p.2 (o p.1) (n p.1)).prod

/-- entry `[out, in]` of one summand `coef · syms · ⊗ labels` -/
def monoVal (m : Mono) : R := I.q m.coef * symsVal I m.syms * asgVal I o n m.asg

/-- entry `[out, in]` of a formal sum: `Σ_terms coeff · Π_n A_{term,n}[out_n, in_n]` -/
def fsumVal (fs : FSum) : R := (fs.map (monoVal I o n)).sum

/-- entry of one contribution `λ · γ · label` written into a tensor of node `i` -/
def itemVal (i : Nat) (it : Item) : R :=
  I.q it.lam * symsVal I (symMono it.gam) * I.op i it.label (o i) (n i)

/-- the scalar `W_i[pv, kv, out_i, in_i]` of the filled tensor of node `i` -/
def cellVal (i : Nat) (cells : Cells) (p : Pos) : R := ((entryAt cells p).map (itemVal I o n i)).sum

theorem symsVal_insSym (s : String) (l : List String) :
    symsVal I (insSym s l) = I.sym s * symsVal I l := by
  induction l with
  | nil => simp [insSym, symsVal]
  | cons t ts ih =>
    unfold insSym
    by_cases h : s ≤ t
    · simp [h, symsVal]
    · rw [if_neg h]
      have : symsVal I (t :: insSym s ts) = I.sym t * symsVal I (insSym s ts) := by simp [symsVal]
      rw [this, ih]
      simp [symsVal, mul_left_comm]

theorem symsVal_mulSyms (a b : List String) :
    symsVal I (mulSyms a b) = symsVal I a * symsVal I b := by
  induction a with
  | nil => simp [mulSyms, symsVal]
  | cons s a ih =>
    have h1 : mulSyms (s :: a) b = insSym s (mulSyms a b) := rfl
    rw [h1, symsVal_insSym, ih]
    simp [symsVal, mul_assoc]

theorem asgVal_append (a b : List (Nat × String)) :
    asgVal I o n (a ++ b) = asgVal I o n a * asgVal I o n b := by
  simp [asgVal]

theorem monoVal_one : monoVal I o n Mono.one = 1 := by
  simp [monoVal, Mono.one, symsVal, asgVal, I.q_one]

theorem monoVal_mul (x y : Mono) : monoVal I o n (x.mul y) = monoVal I o n x * monoVal I o n y := by
  simp only [monoVal, Mono.mul, I.q_mul, symsVal_mulSyms, asgVal_append]
  ac_rfl

theorem monoVal_attachItem (i : Nat) (it : Item) (m : Mono) :
    monoVal I o n (attachItem i it m) = itemVal I o n i it * monoVal I o n m := by
  simp only [monoVal, attachItem, itemVal, I.q_mul, symsVal_mulSyms]
  have : asgVal I o n ((i, it.label) :: m.asg) = I.op i it.label (o i) (n i) * asgVal I o n m.asg := by
    simp [asgVal]
  rw [this]
  ac_rfl

theorem fsumVal_nil : fsumVal I o n [] = 0 := by simp [fsumVal]

theorem fsumVal_append (a b : FSum) : fsumVal I o n (a ++ b) = fsumVal I o n a + fsumVal I o n b := by
  simp [fsumVal]

/-- the value does not depend on the order of the summands -/
theorem fsumVal_perm {a b : FSum} (h : a ~ b) : fsumVal I o n a = fsumVal I o n b :=
  (h.map _).sum_eq

theorem fsumVal_flatMap {α : Type} (l : List α) (f : α → FSum) :
    fsumVal I o n (l.flatMap f) = (l.map fun x => fsumVal I o n (f x)).sum := by
  induction l with
  | nil => simp [fsumVal]
  | cons a l ih => rw [List.flatMap_cons, fsumVal_append, ih]; simp

theorem fsumVal_map_mul (x : Mono) (b : FSum) :
    fsumVal I o n (b.map fun y => x.mul y) = monoVal I o n x * fsumVal I o n b := by
  induction b with
  | nil => simp [fsumVal]
  | cons y b ih =>
    have : fsumVal I o n ((y :: b).map fun y => x.mul y) =
        monoVal I o n (x.mul y) + fsumVal I o n (b.map fun y => x.mul y) := by simp [fsumVal]
    rw [this, ih, monoVal_mul]
    have : fsumVal I o n (y :: b) = monoVal I o n y + fsumVal I o n b := by simp [fsumVal]
    rw [this, mul_add]

/-- the value of a product of formal sums is the product of the values (distributivity) -/
theorem fsumVal_mul (a b : FSum) : fsumVal I o n (FSum.mul a b) = fsumVal I o n a * fsumVal I o n b := by
  unfold FSum.mul
  rw [fsumVal_flatMap]
  induction a with
  | nil => simp [fsumVal]
  | cons x a ih =>
    have : fsumVal I o n (x :: a) = monoVal I o n x + fsumVal I o n a := by simp [fsumVal]
    rw [List.map_cons, List.sum_cons, ih, fsumVal_map_mul, this, add_mul]

theorem fsumVal_map_attachItem (i : Nat) (it : Item) (fs : FSum) :
    fsumVal I o n (fs.map (attachItem i it)) = itemVal I o n i it * fsumVal I o n fs := by
  induction fs with
  | nil => simp [fsumVal]
  | cons y b ih =>
    have h1 : fsumVal I o n ((y :: b).map (attachItem i it)) =
        monoVal I o n (attachItem i it y) + fsumVal I o n (b.map (attachItem i it)) := by simp [fsumVal]
    have h2 : fsumVal I o n (y :: b) = monoVal I o n y + fsumVal I o n b := by simp [fsumVal]
    rw [h1, ih, monoVal_attachItem, h2, mul_add]

/-! ### the contraction of the scalar tensors, one bond at a time -/

mutual
/-- Contraction of the scalar tensors of the subtree below a node for a fixed index `pv` on the leg to
    the parent: `Σ_kv W_i[pv, kv, out_i, in_i] · Π_children (value below child at index kv_child)`. -/
def treeVal : TTNO → Option Nat → R
  | .node i _ _ cells kids, pv =>
    ((allTuples (contractBonds kids)).map fun kv =>
      cellVal I o n i cells (pv, kv) * kidsVal kids kv).sum
def kidsVal : List TTNO → List Nat → R
  | [], [] => 1
  | k :: ks, v :: vs => treeVal k (some v) * kidsVal ks vs
  | [], _ :: _ => 0
  | _ :: _, [] => 0
end

theorem treeVal_node (i : Nat) (pb : Option Nat) (ph : Nat) (cells : Cells) (kids : List TTNO)
    (pv : Option Nat) :
    treeVal I o n (.node i pb ph cells kids) pv =
      ((allTuples (contractBonds kids)).map fun kv =>
        cellVal I o n i cells (pv, kv) * kidsVal I o n kids kv).sum := by rw [treeVal]

theorem kidsVal_nil : kidsVal I o n [] [] = 1 := by rw [kidsVal]
theorem kidsVal_cons (k : TTNO) (ks : List TTNO) (v : Nat) (vs : List Nat) :
    kidsVal I o n (k :: ks) (v :: vs) = treeVal I o n k (some v) * kidsVal I o n ks vs := by
  rw [kidsVal]
theorem kidsVal_nil_cons (v : Nat) (vs : List Nat) : kidsVal I o n [] (v :: vs) = 0 := by rw [kidsVal]
theorem kidsVal_cons_nil (k : TTNO) (ks : List TTNO) : kidsVal I o n (k :: ks) [] = 0 := by
  rw [kidsVal]

theorem node_step (i : Nat) (cells : Cells) (p : Pos) (fs : FSum) :
    fsumVal I o n ((entryAt cells p).flatMap fun it => fs.map (attachItem i it)) =
      cellVal I o n i cells p * fsumVal I o n fs := by
  rw [fsumVal_flatMap, cellVal]
  simp only [fsumVal_map_attachItem]
  rw [List.sum_map_mul_right]

mutual
theorem treeVal_eq : ∀ (T : TTNO) (pv : Option Nat),
    treeVal I o n T pv = fsumVal I o n (contractAt T pv)
  | .node i pb ph cells kids, pv => by
    rw [treeVal_node, contractAt_node, fsumVal_flatMap]
    congr 1
    apply List.map_congr_left
    intro kv _
    rw [node_step, kidsVal_eq kids kv]
theorem kidsVal_eq : ∀ (ks : List TTNO) (vs : List Nat),
    kidsVal I o n ks vs = fsumVal I o n (contractKids ks vs)
  | [], [] => by rw [kidsVal_nil, contractKids_nil]; simp [fsumVal, monoVal_one]
  | [], v :: vs => by rw [kidsVal_nil_cons, contractKids_nil_cons, fsumVal_nil]
  | k :: ks, [] => by rw [kidsVal_cons_nil, contractKids_cons_nil, fsumVal_nil]
  | k :: ks, v :: vs => by
    rw [kidsVal_cons, contractKids_cons, fsumVal_mul, treeVal_eq k (some v), kidsVal_eq ks vs]
end

/-- value of the Hamiltonian itself: `Σ_k c_k · γ_k · Π_sites A_{k,site}[out_site, in_site]` -/
def hamVal (t : RTree) (terms : List Term) : R :=
  (terms.map fun tm => I.q tm.coef * symsVal I (symMono tm.sym) * asgVal I o n (asgOf tm.ops t)).sum

theorem fsumVal_hamDenote (t : RTree) (terms : List Term) :
    fsumVal I o n (hamDenote t terms) = hamVal I o n t terms := by
  simp [fsumVal, hamDenote, hamVal, monoVal, termMono, Function.comp_def]

end

/-! ### the flat network of `Ptn.Ein` -/

/-- Leg labels of the TTNO network: the two physical legs of every node and, per edge (keyed by the
    child), the child's leg toward the parent (`up`) and the parent's leg toward the child (`dn`). -/
inductive Leg where
  | out (i : Nat)
  | inn (i : Nat)
  | up (c : Nat)
  | dn (c : Nat)
deriving DecidableEq, Repr

section
variable {R : Type} [CommSemiring R] (I : Interp R)

/-- The leaf `W_i[bond indices…, out_i, in_i]` of a node as a function of the index assignment. -/
def nodeLeaf : TTNO → Ptn.Ein.Asg Leg → R
  | .node i pb _ cells kids, σ =>
    cellVal I (fun j => σ (.out j)) (fun j => σ (.inn j)) i cells
      (pb.map (fun _ => σ (.up i)), kids.map fun k => σ (.dn k.id))

mutual
/-- binding record of the tree: one pair (parent's leg, child's leg) per edge -/
def treeBinds : TTNO → List (Leg × Leg)
  | .node _ _ _ _ kids => kidsBinds kids
def kidsBinds : List TTNO → List (Leg × Leg)
  | [] => []
  | k :: ks => (.dn k.id, .up k.id) :: (treeBinds k ++ kidsBinds ks)
end

mutual
/-- all leaves of the tree, preorder -/
def treeLeaves : TTNO → List (Ptn.Ein.Asg Leg → R)
  | .node i pb ph cells kids => nodeLeaf I (.node i pb ph cells kids) :: kidsLeaves kids
def kidsLeaves : List TTNO → List (Ptn.Ein.Asg Leg → R)
  | [] => []
  | k :: ks => treeLeaves k ++ kidsLeaves ks
end

/-- Two-node tree: the flat `netValue` over the single bond of the two leaves is the nested contraction. -/
theorem two_node_netValue (i c b ph ph' : Nat) (cells cells' : Cells) (dim : Leg → Nat)
    (hd : dim (.dn c) = b) (σ : Ptn.Ein.Asg Leg) :
    Ptn.Ein.netValue dim (treeBinds (.node i none ph cells [.node c (some b) ph' cells' []]))
        (treeLeaves I (.node i none ph cells [.node c (some b) ph' cells' []])) σ =
      treeVal I (fun j => σ (.out j)) (fun j => σ (.inn j))
        (.node i none ph cells [.node c (some b) ph' cells' []]) none := by
  rw [treeVal_node]
  simp only [contractBonds_cons, contractBonds_nil, TTNO.bond, Option.getD_some, allTuples,
    List.map_cons, List.map_nil]
  simp only [Ptn.Ein.netValue, treeBinds, kidsBinds, treeLeaves, kidsLeaves, TTNO.id, List.append_nil,
    Ptn.Ein.sumPairs, Ptn.Ein.sumR, hd, List.map_cons, List.map_nil, Ptn.Ein.prodL,
    nodeLeaf, Option.map_none, Option.map_some, mul_one]
  have hf : ∀ l : List Nat, l.flatMap (fun v => [[v]]) = l.map (fun v => [v]) := by
    intro l; induction l with
    | nil => rfl
    | cons a l ih => simp [ih]
  rw [hf, List.map_map]
  congr 1
  apply List.map_congr_left
  intro v _
  simp only [Function.comp_def, kidsVal_cons, kidsVal_nil, treeVal_node, contractBonds_nil, allTuples,
    List.map_cons, List.map_nil, List.sum_cons, List.sum_nil, mul_one, add_zero]
  simp [Ptn.Ein.upd]

/-- dimension of every leg: bonds from the TTNO's edge table, physical legs from `phys` -/
def legDim (bonds : Nat → Nat) (phys : Nat → Nat) : Leg → Nat
  | .out i => phys i
  | .inn i => phys i
  | .up c => bonds c
  | .dn c => bonds c

end

/-- A concrete interpretation over `ℚ` for the non-vacuity examples: prefactors as themselves, every
    symbol is 2, the entry `[a, b]` of label `l` at site `i` is `a + 2 b + i + |l|`. -/
def exInterp : Interp Rat where
  q := id
  q_one := rfl
  q_mul := fun _ _ => rfl
  sym := fun _ => 2
  op := fun i l a b => ((a + 2 * b + i + l.length : Nat) : Rat)

/-- the index assignment of the examples: `out_j = j + 1`, `in_j = 2 j`, bonds arbitrary (7) -/
def exSigma : Ptn.Ein.Asg Leg
  | .out j => j + 1
  | .inn j => 2 * j
  | _ => 7

end Ptn.C01
