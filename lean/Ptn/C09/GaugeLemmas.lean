import Ptn.C09.GaugeModel
import Ptn.C17.Tree
/-! Lemmas about the BUG gauge machine (core Lean only). -/
namespace Ptn.C09.Gauge
open Ptn.C17 Ptn.C17.RTree

theorem run_append (s : GState) (a b : List GEv) :
    run s (a ++ b) = (run s a).bind fun s' => run s' b := by
  induction a generalizing s with
  | nil => simp [run]
  | cons e es ih =>
    simp only [List.cons_append, run]
    cases step s e with
    | none => simp
    | some s' => simp [ih]

theorem run_cons (s : GState) (e : GEv) (es : List GEv) :
    run s (e :: es) = (step s e).bind fun s' => run s' es := rfl

theorem setDir_same (dir : Nat → Option Nat) (n : Nat) (v : Option Nat) : setDir dir n v n = v := by
  simp [setDir]

theorem setDir_ne (dir : Nat → Option Nat) {n x : Nat} (v : Option Nat) (h : x ≠ n) :
    setDir dir n v x = dir x := by
  simp [setDir, h]

@[simp] theorem nodeEvents_node (fixed : Bool) (p c : Nat) (ks : List RTree) :
    nodeEvents fixed p (node c ks) =
      [GEv.down p c fixed] ++ kidsEvents fixed c ks ++
        (if ks.isEmpty then [] else [GEv.pull c, GEv.absorb c (ks.map rid)]) ++
        [GEv.evolve c, GEv.basis c p (!fixed)] := by
  simp [nodeEvents]

@[simp] theorem kidsEvents_nil (fixed : Bool) (c : Nat) : kidsEvents fixed c [] = [] := by
  simp [kidsEvents]

@[simp] theorem kidsEvents_cons (fixed : Bool) (c : Nat) (k : RTree) (ks : List RTree) :
    kidsEvents fixed c (k :: ks) = nodeEvents fixed c k ++ kidsEvents fixed c ks := by
  simp [kidsEvents]

/-- `contract_all_children(c)` removes exactly the basis-change nodes of the children of `c`. -/
theorem filter_pend {pend : List (Nat × Nat)} {c : Nat} (l : List Nat)
    (h : ∀ e ∈ pend, e.2 ≠ c) :
    (pend ++ l.map fun k => (k, c)).filter (fun e => e.2 != c) = pend := by
  rw [List.filter_append]
  have h1 : pend.filter (fun e => e.2 != c) = pend := by
    apply List.filter_eq_self.mpr
    intro e he
    simpa using h e he
  have h2 : (l.map fun k => (k, c)).filter (fun e => e.2 != c) = [] := by
    apply List.filter_eq_nil_iff.mpr
    intro e he
    obtain ⟨k, _, rfl⟩ := List.mem_map.mp he
    simp
  rw [h1, h2, List.append_nil]

/-- What one `update_node` does to the machine state. -/
structure NodeOut (st st' : GState) (p : Nat) (s : RTree) : Prop where
  frames : st'.frames = st.frames
  pend : st'.pend = st.pend ++ [(s.rid, p)]
  top : st'.dir s.rid = some p
  inner : ∀ e ∈ edges s, st'.dir e.2 = some e.1
  outer : ∀ x, x ∉ ids s → st'.dir x = st.dir x

structure KidsOut (st st' : GState) (c : Nat) (ks : List RTree) : Prop where
  frames : st'.frames = st.frames
  pend : st'.pend = st.pend ++ ks.map fun k => (k.rid, c)
  inner : ∀ e ∈ edgesL c ks, st'.dir e.2 = some e.1
  outer : ∀ x, x ∉ idsL ks → st'.dir x = st.dir x

theorem edgesL_snd_mem {c : Nat} {ks : List RTree} {e : Nat × Nat} (h : e ∈ edgesL c ks) :
    e.2 ∈ idsL ks := (edges_mem.2 ks c e.1 e.2 h).2

theorem edges_snd_mem {s : RTree} {e : Nat × Nat} (h : e ∈ edges s) : e.2 ∈ ids s :=
  (edge_mem_ids (p := e.1) (x := e.2) h).2

/-- **The recursion never gets stuck and leaves every node of the subtree pointing to its parent.** -/
theorem update_runs (fixed : Bool) :
    (∀ s, ∀ p st, (ids s).Nodup → p ∉ ids s → st.frames.head? = some p →
      (∀ e ∈ st.pend, e.2 ∉ ids s) → (∀ e ∈ st.pend, e.1 ∉ ids s) →
      ∃ st', run st (nodeEvents fixed p s) = some st' ∧ NodeOut st st' p s) ∧
    (∀ ks, ∀ c st, (idsL ks).Nodup → c ∉ idsL ks → st.frames.head? = some c →
      (∀ e ∈ st.pend, e.2 ∉ idsL ks) → (∀ e ∈ st.pend, e.1 ∉ idsL ks) →
      ∃ st', run st (kidsEvents fixed c ks) = some st' ∧ KidsOut st st' c ks) := by
  apply induct
  · intro c ks ih p st hnd hp hfr hpend hpend1
    rw [ids_node] at hnd hp
    have hndc := List.nodup_cons.mp hnd
    have hpc : p ≠ c := fun e => hp (by simp [e])
    -- the frame of `c`
    let st0 : GState := { st with frames := c :: st.frames }
    obtain ⟨st1, hrun1, hk⟩ := ih c st0 hndc.2 hndc.1 rfl
      (fun e he h => hpend e he (by simp [h])) (fun e he h => hpend1 e he (by simp [h]))
    have hpendc : ∀ e ∈ st.pend, e.2 ≠ c := fun e he h => hpend e he (by simp [h])
    -- the state after `pull` / `absorb` (or nothing for a leaf)
    have hmid : ∃ st2, run st1 (if ks.isEmpty then [] else [GEv.pull c, GEv.absorb c (ks.map rid)])
          = some st2 ∧ st2.frames = c :: st.frames ∧ st2.pend = st.pend ∧
          (∀ x, x ≠ c → st2.dir x = st1.dir x) := by
      cases ks with
      | nil =>
        refine ⟨st1, by simp [run], hk.frames, ?_, fun _ _ => rfl⟩
        simpa using hk.pend
      | cons k ks' =>
        have hfr1 : st1.frames.head? = some c := by simp [hk.frames, st0]
        have hall : ((k :: ks').map rid).all (fun k' => st1.pend.contains (k', c)) = true := by
          rw [List.all_eq_true]
          intro k' hk'
          rw [hk.pend]
          obtain ⟨kk, hkk, rfl⟩ := List.mem_map.mp hk'
          simp only [List.contains_eq_mem, List.mem_append, List.mem_map, decide_eq_true_eq]
          exact Or.inr ⟨kk, hkk, rfl⟩
        refine ⟨{ st1 with dir := setDir (setDir st1.dir c none) c none,
                           pend := st1.pend.filter (fun e => e.2 != c) }, ?_, hk.frames, ?_, ?_⟩
        · simp only [List.isEmpty_cons, Bool.false_eq_true, if_false, run, step, hfr1, if_true,
            Option.bind_some, hall]
        · show st1.pend.filter (fun e => e.2 != c) = st.pend
          rw [hk.pend]
          have : ((k :: ks').map fun k => (k.rid, c)) = ((k :: ks').map rid).map fun k => (k, c) := by
            simp
          rw [this]
          exact filter_pend _ hpendc
        · intro x hx
          show setDir (setDir st1.dir c none) c none x = st1.dir x
          rw [setDir_ne _ _ hx, setDir_ne _ _ hx]
    obtain ⟨st2, hrun2, hfr2, hpend2, hdir2⟩ := hmid
    have hev : st2.pend.all (fun e => e.2 != c) = true := by
      rw [hpend2, List.all_eq_true]
      intro e he
      simpa using hpendc e he
    have hnotin : (c, p) ∉ st2.pend := by
      rw [hpend2]
      intro hm
      exact hpend1 _ hm (by simp)
    refine ⟨{ dir := setDir st2.dir c (some p), pend := st2.pend ++ [(c, p)],
              frames := st2.frames.tail }, ?_, ?_⟩
    · rw [nodeEvents_node, List.append_assoc, List.append_assoc, List.singleton_append, run_cons]
      have hd : step st (GEv.down p c fixed) = some st0 := by simp [step, hfr, st0]
      rw [hd, Option.bind_some, run_append, hrun1, Option.bind_some, run_append, hrun2,
        Option.bind_some]
      simp [run, step, hfr2, hev, hnotin]
    · refine ⟨by simp [hfr2], by simp [hpend2, rid], by simp [rid, setDir_same], ?_, ?_⟩
      · intro e he
        rw [edges_node] at he
        have hmem := edgesL_snd_mem he
        have hne : e.2 ≠ c := fun h => hndc.1 (h ▸ hmem)
        show setDir st2.dir c (some p) e.2 = some e.1
        rw [setDir_ne _ _ hne, hdir2 _ hne]
        exact hk.inner e he
      · intro x hx
        rw [ids_node] at hx
        have hxc : x ≠ c := fun h => hx (by simp [h])
        have hxk : x ∉ idsL ks := fun h => hx (by simp [h])
        show setDir st2.dir c (some p) x = st.dir x
        rw [setDir_ne _ _ hxc, hdir2 _ hxc, hk.outer x hxk]
  · intro c st _ _ _ _ _
    exact ⟨st, by simp [run], ⟨rfl, by simp, by simp, fun _ _ => rfl⟩⟩
  · intro t ts iht ihts c st hnd hc hfr hpend hpend1
    rw [idsL_cons] at hnd hc
    have hnd' := List.nodup_append.mp hnd
    have hct : c ∉ ids t := fun h => hc (by simp [h])
    have hcts : c ∉ idsL ts := fun h => hc (by simp [h])
    obtain ⟨st1, hrun1, h1⟩ := iht c st hnd'.1 hct hfr
      (fun e he h => hpend e he (by simp [h])) (fun e he h => hpend1 e he (by simp [h]))
    have hdisj : ∀ x, x ∈ ids t → x ∉ idsL ts := fun x hx hx' => hnd'.2.2 x hx x hx' rfl
    obtain ⟨st2, hrun2, h2⟩ := ihts c st1 hnd'.2.1 hcts (by rw [h1.frames]; exact hfr)
      (by
        intro e he
        rw [h1.pend] at he
        rcases List.mem_append.mp he with he | he
        · exact fun h => hpend e he (by simp [h])
        · simp at he; subst he; exact hcts)
      (by
        intro e he
        rw [h1.pend] at he
        rcases List.mem_append.mp he with he | he
        · exact fun h => hpend1 e he (by simp [h])
        · simp at he; subst he; exact hdisj _ (rid_mem_ids t))
    refine ⟨st2, ?_, ?_⟩
    · rw [kidsEvents_cons, run_append, hrun1, Option.bind_some, hrun2]
    · refine ⟨h2.frames.trans h1.frames, by rw [h2.pend, h1.pend]; simp, ?_, ?_⟩
      · intro e he
        rw [edgesL_cons] at he
        rcases List.mem_cons.mp he with rfl | he
        · show st2.dir t.rid = some c
          rw [h2.outer _ (hdisj _ (rid_mem_ids t))]; exact h1.top
        · rcases List.mem_append.mp he with he | he
          · rw [h2.outer _ (hdisj _ (edges_snd_mem he))]; exact h1.inner e he
          · exact h2.inner e he
      · intro x hx
        rw [idsL_cons] at hx
        rw [h2.outer x (fun h => hx (by simp [h])), h1.outer x (fun h => hx (by simp [h]))]

/-- the QR events below a node are its upward blocks in post-order (`Ptn.C17.RTree.upKeys`) -/
theorem qr_events (fixed : Bool) :
    (∀ s p, (nodeEvents fixed p s).filterMap qrOf = (upKeys p s).map fun e => (e.1, e.2, !fixed)) ∧
    (∀ ks c, (kidsEvents fixed c ks).filterMap qrOf =
      (upKeysL c ks).map fun e => (e.1, e.2, !fixed)) := by
  apply induct
  · intro c ks ih p
    have h := ih c
    cases ks with
    | nil => simp [upKeys, upKeysL, List.filterMap_append, List.filterMap_cons, qrOf]
    | cons k ks' =>
      simp only [nodeEvents_node, List.filterMap_append, h]
      simp [upKeys, List.filterMap_cons, qrOf]
  · intro c; simp [upKeysL]
  · intro t ts iht ihts c
    simp [upKeysL, List.filterMap_append, iht c, ihts c]

/-- the centre moves on the working copies are the tree edges in pre-order -/
theorem move_events (fixed : Bool) :
    (∀ s p, (nodeEvents fixed p s).filterMap moveOf =
      ((p, s.rid) :: edges s).map fun e => (e.1, e.2, fixed)) ∧
    (∀ ks c, (kidsEvents fixed c ks).filterMap moveOf =
      (edgesL c ks).map fun e => (e.1, e.2, fixed)) := by
  apply induct
  · intro c ks ih p
    have h := ih c
    cases ks with
    | nil => simp [List.filterMap_append, List.filterMap_cons, moveOf, rid]
    | cons k ks' =>
      simp only [nodeEvents_node, List.filterMap_append, h]
      simp [List.filterMap_cons, moveOf, rid]
  · intro c; simp
  · intro t ts iht ihts c
    simp [List.filterMap_append, iht c, ihts c]

/-- **One whole step** (`root_update`) from any recorded gauge: the machine is never stuck; afterwards
    the root has no record, every other node points to its parent, no basis-change node is left and only
    the frame of the start state remains. -/
theorem root_runs (fixed : Bool) (t : RTree) (hwf : t.WF) (dir0 : Nat → Option Nat) :
    ∃ s, run (start dir0 t) (bugEvents fixed t) = some s ∧
      s.dir t.rid = none ∧ (∀ e ∈ edges t, s.dir e.2 = some e.1) ∧
      s.pend = [] ∧ s.frames = [t.rid] ∧ (∀ x, x ∉ ids t → s.dir x = dir0 x) := by
  cases t with
  | node r ks =>
    have hnd : (r :: idsL ks).Nodup := by simpa [WF] using hwf
    have hndc := List.nodup_cons.mp hnd
    obtain ⟨st1, hrun1, hk⟩ := (update_runs fixed).2 ks r (start dir0 (node r ks)) hndc.2 hndc.1 rfl
      (by simp [start]) (by simp [start])
    have hfr1 : st1.frames = [r] := by rw [hk.frames]; rfl
    have hp1 : st1.pend = (ks.map rid).map fun k => (k, r) := by
      rw [hk.pend]; simp [start]
    have hall : ∀ x ∈ ks, (x.rid, r) ∈ st1.pend := by
      intro x hx
      rw [hp1]
      simp only [List.mem_map]
      exact ⟨x.rid, ⟨x, hx, rfl⟩, rfl⟩
    have hfil : st1.pend.filter (fun e => e.2 != r) = [] := by
      rw [hp1]
      have := filter_pend (pend := []) (c := r) (ks.map rid) (by simp)
      simpa using this
    refine ⟨{ st1 with dir := setDir (setDir (setDir st1.dir r none) r none) r none, pend := [] },
      ?_, by simp [rid, setDir_same], ?_, rfl, hfr1, ?_⟩
    · simp only [bugEvents]
      rw [run_append, hrun1, Option.bind_some]
      simp [run, step, hfr1, hfil]
      rw [if_pos hall]
      simp
    · intro e he
      rw [edges_node] at he
      have hmem := edgesL_snd_mem he
      have hne : e.2 ≠ r := fun h => hndc.1 (h ▸ hmem)
      show setDir (setDir (setDir st1.dir r none) r none) r none e.2 = some e.1
      rw [setDir_ne _ _ hne, setDir_ne _ _ hne, setDir_ne _ _ hne]
      exact hk.inner e he
    · intro x hx
      rw [ids_node] at hx
      have hxr : x ≠ r := fun h => hx (by simp [h])
      show setDir (setDir (setDir st1.dir r none) r none) r none x = dir0 x
      rw [setDir_ne _ _ hxr, setDir_ne _ _ hxr, setDir_ne _ _ hxr, hk.outer x (fun h => hx (by simp [h]))]
      rfl

/-- the QR events of a whole step: every non-root node once, in post-order, toward its parent -/
theorem root_qr_events (fixed : Bool) (t : RTree) :
    (bugEvents fixed t).filterMap qrOf = (upKeysL t.rid t.kids).map fun e => (e.1, e.2, !fixed) := by
  cases t with
  | node r ks =>
    simp only [bugEvents, List.filterMap_append, (qr_events fixed).2 ks r, rid, kids]
    simp [List.filterMap_cons, qrOf]

/-- the centre moves of a whole step: the tree edges in pre-order, parent -> child -/
theorem root_move_events (fixed : Bool) (t : RTree) :
    (bugEvents fixed t).filterMap moveOf = (edges t).map fun e => (e.1, e.2, fixed) := by
  cases t with
  | node r ks =>
    simp only [bugEvents, List.filterMap_append, (move_events fixed).2 ks r, edges_node]
    simp [List.filterMap_cons, moveOf]

end Ptn.C09.Gauge
