import Ptn.C09.StepInv
import Ptn.C10.BondAxes
/-! Every edit of a BUG step succeeds on a well-formed, label-consistent state with pending basis-change nodes and
keeps the invariant `PInv` (core Lean only). -/
namespace Ptn.C09.Step
open Ptn.C02 Ptn.C02.NodeS

/-- **every bond has the dimension it had in `t0`**: the leg of every non-root node `c` towards its parent - for a
    pending `c` both the leg towards its basis-change node and the leg of that node towards the parent - has the
    dimension of the parent leg of `c` in `t0` -/
def DimInvD (bid : Id → Id) (t0 : TTN) (D : Id → Prop) (t : TTN) : Prop :=
  ∀ c p ch ax0, t0.S c = some (some p, ch) → t0.Leg c p ax0 →
    (¬ D c → ∃ ax, t.Leg c p ax ∧ ax.dim = ax0.dim) ∧
    (D c → (∃ ax, t.Leg c (bid c) ax ∧ ax.dim = ax0.dim) ∧ ∃ ax, t.Leg (bid c) p ax ∧ ax.dim = ax0.dim)

theorem DimInvD.congr {bid : Id → Id} {t0 t : TTN} {D D' : Id → Prop} (h : DimInvD bid t0 D t)
    (e : ∀ k, D k ↔ D' k) : DimInvD bid t0 D' t := by
  have : D = D' := funext fun k => propext (e k)
  rw [← this]; exact h

theorem DimInvD.of_legs {bid : Id → Id} {t0 t t' : TTN} {D : Id → Prop} (h : DimInvD bid t0 D t)
    (e : ∀ k, t'.legPairs k = t.legPairs k) : DimInvD bid t0 D t' := by
  intro c p ch ax0 hS hl
  obtain ⟨a, b⟩ := h c p ch ax0 hS hl
  unfold TTN.Leg at a b ⊢
  simp only [e]
  exact ⟨a, b⟩

theorem S_none_of_N' {t : TTN} {k : Id} (h : t.N k = none) : t.S k = none := by simp [TTN.S, h]

/-- the number of legs of a node: one per neighbour, then the open axes -/
theorem nlegs_eq {t : TTN} (h : t.WF) {k : Id} {n : NodeS} (hn : t.N k = some n) :
    n.perm.length = n.nvirt + (t.openAxes k).length := by
  obtain ⟨L, hL, hlen⟩ := logical_some h hn
  rw [openAxes_eq hn hL, List.length_drop, hlen]
  have := (h.node k n hn).virt
  omega

/-- `split_node_replace` of a BUG step: succeeds, `c` becomes pending -/
theorem split_event {bid : Id → Id} {t0 t : TTN} {A D : Id → Prop} {P : Prop} {O : Id → List Axis}
    (X : SCtx bid t0.S t0.hasT t0.root A) (hD : DOK t0.S A D) (hx : t.WFX P O) (h : PInv bid t0.S t.S D)
    {c p : Id} {ch : List Id} (hA : A c) (hc : ¬ D c) (hS0 : t0.S c = some (some p, ch)) (bd : Nat) :
    ∃ t1, bugSplit t c (bid c) bd = some t1 ∧ t1.WFX P O ∧ t1.root = t.root ∧
      PInv bid t0.S t1.S (fun k => D k ∨ k = c) ∧
      (∃ ax, t1.Leg c (bid c) ax ∧ ax.dim = bd) ∧ (∀ ax, t.Leg c p ax → t1.Leg (bid c) p ax) ∧
      (∀ k x ax, t.Leg k x ax → k ≠ c → (x ≠ c ∨ (P ∧ ∃ y ∈ ch, k = sub bid D y)) → t1.Leg k x ax) := by
  have hSc := h.nodes c (some p) ch hS0
  rw [subP_neg hc] at hSc
  obtain ⟨C, hC, eC⟩ := TTN.N_of_S hSc
  simp only [Prod.mk.injEq] at eC
  have hp : C.parent = some p := eC.1.symm
  have hch : C.children = ch.map (sub bid D) := eC.2.symm
  have hl : t.N (bid c) = none := by
    apply N_none_of_S
    refine h.other (bid c) (X.fresh c hA) ?_
    intro c' hc' e
    exact hc (X.inj c c' hA (hD c' hc').1 e ▸ hc')
  have hbc : bid c ≠ c := by intro e; rw [e, hC] at hl; simp at hl
  have adm : SplitAdm t c C ⟨some p, [], [], false⟩ ⟨none, C.children, TTN.openIdx C, false⟩ (bid c) c := by
    refine ⟨hC, Or.inr hl, Or.inl rfl, by simp, ?_⟩
    exact Or.inl ⟨p, hp, rfl, rfl, Or.inl ⟨rfl, rfl⟩⟩
  obtain ⟨t1, hs⟩ := split_nodes_progress hx.wf bd adm hbc (by simp [TTN.openIdx, NodeS.nlegs])
  obtain ⟨w1, S1, R1⟩ := bug_split_full hx hC hp hl hs
  obtain ⟨l1, l2⟩ := bug_split_legs hx.wf hC hp hl hs
  refine ⟨t1, ?_, w1, R1, ?_, ⟨_, (l2 (bid c) _).mpr (Or.inl ⟨rfl, rfl⟩), rfl⟩,
    fun ax ha => (l1 p ax).mpr (Or.inr ⟨rfl, ha⟩), ?_⟩
  · have hC' : dget t.nodes c = some C := hC
    simp only [bugSplit, hC', hp, bind, Option.bind]
    exact hs
  · rw [S1, hch]
    exact pinv_split X hD h hA hc hS0
  · intro k x ax hleg hk hx'
    by_cases hxc : x = c
    · subst hxc
      rcases hx' with hx' | ⟨hP, y, hy, rfl⟩
      · exact absurd rfl hx'
      · have hs1 := (hx.lwf hP).sym _ _ _ hleg
        have hmem : sub bid D y ∈ C.children := by rw [hch]; exact List.mem_map.mpr ⟨y, hy, rfl⟩
        exact (w1.lwf hP).sym _ _ _ ((l2 _ ax).mpr (Or.inr ⟨hmem, hs1⟩))
    · exact Ptn.C10.split_push_other hx.wf adm hs hleg hk hxc

theorem node_ne_fresh {bid : Id → Id} {S0 : Id → Option Struct} {Tk : Id → Bool} {root : Option Id}
    {A : Id → Prop} (X : SCtx bid S0 Tk root A) {k y : Id} {st : Struct} (hk : S0 k = some st) (hy : A y) :
    k ≠ bid y := by
  intro e
  have := X.fresh y hy
  rw [← e, hk] at this; simp at this

theorem parent_is_node {S0 : Id → Option Struct} {Tk : Id → Bool} {root : Option Id} (h : SWF S0 Tk root)
    {c p : Id} {ch : List Id} (hc : S0 c = some (some p, ch)) : ∃ pp pch, S0 p = some (pp, pch) ∧ c ∈ pch :=
  h.up c p ch hc

/-- the bonds keep their dimensions through `split_node_replace` when the new rank is the old dimension -/
theorem split_dims {bid : Id → Id} {t0 t t1 : TTN} {A D : Id → Prop}
    (X : SCtx bid t0.S t0.hasT t0.root A) (hD : DOK t0.S A D) {c p : Id} {ch : List Id} (hA : A c)
    (hc : ¬ D c) (hS0 : t0.S c = some (some p, ch)) {bd : Nat} (hbd : ∀ ax0, t0.Leg c p ax0 → bd = ax0.dim)
    (hdim : DimInvD bid t0 D t)
    (l1 : ∃ ax, t1.Leg c (bid c) ax ∧ ax.dim = bd) (l2 : ∀ ax, t.Leg c p ax → t1.Leg (bid c) p ax)
    (l3 : ∀ k x ax, t.Leg k x ax → k ≠ c → (x ≠ c ∨ (True ∧ ∃ y ∈ ch, k = sub bid D y)) → t1.Leg k x ax) :
    DimInvD bid t0 (fun k => D k ∨ k = c) t1 := by
  intro c' p' ch' ax0 hS' hl'
  by_cases hcc : c' = c
  · subst hcc
    rw [hS0] at hS'; simp only [Option.some.injEq, Prod.mk.injEq] at hS'
    obtain ⟨rfl, rfl⟩ := hS'
    refine ⟨fun hn => absurd (Or.inr rfl) hn, fun _ => ?_⟩
    obtain ⟨ax, hleg, hd⟩ := (hdim c' p ch ax0 hS0 hl').1 hc
    obtain ⟨ax1, hleg1, hd1⟩ := l1
    exact ⟨⟨ax1, hleg1, by rw [hd1]; exact hbd ax0 hl'⟩, ax, l2 ax hleg, hd⟩
  · obtain ⟨a, b⟩ := hdim c' p' ch' ax0 hS' hl'
    have hside : ∀ k, (k = sub bid D c') → (p' ≠ c ∨ (True ∧ ∃ y ∈ ch, k = sub bid D y)) := by
      intro k hk
      by_cases hpc : p' = c
      · right
        subst hpc
        obtain ⟨pp, pch, hp, hm⟩ := X.swf.up c' p' ch' hS'
        rw [hS0] at hp; simp only [Option.some.injEq, Prod.mk.injEq] at hp
        exact ⟨trivial, c', hp.2 ▸ hm, hk⟩
      · exact Or.inl hpc
    constructor
    · intro hn
      have hn' : ¬ D c' := fun h' => hn (Or.inl h')
      obtain ⟨ax, hleg, hd⟩ := a hn'
      exact ⟨ax, l3 _ _ _ hleg hcc (hside c' (sub_neg hn').symm), hd⟩
    · intro hd'
      have hd'' : D c' := hd'.elim id (fun e => absurd e hcc)
      have hA' := (hD c' hd'').1
      obtain ⟨⟨ax1, hl1, hd1⟩, ax2, hl2, hd2⟩ := b hd''
      have hbc : bid c' ≠ c := (node_ne_fresh X hS0 hA').symm
      exact ⟨⟨ax1, l3 _ _ _ hl1 hcc (Or.inl hbc), hd1⟩, ax2, l3 _ _ _ hl2 hbc (hside _ (sub_pos hd'').symm), hd2⟩

/-- the bonds keep their dimensions through one `contract_nodes(n, bid e, new_identifier=n)` -/
theorem absorb_dims {bid : Id → Id} {t0 t t1 : TTN} {A D : Id → Prop}
    (X : SCtx bid t0.S t0.hasT t0.root A) (hD : DOK t0.S A D) {n e : Id} {che : List Id} (he : D e)
    (hS0e : t0.S e = some (some n, che)) (hdim : DimInvD bid t0 D t)
    (lo : ∀ k x ax, t.Leg k x ax → k ≠ bid e → x ≠ bid e → t1.Leg k x ax)
    (ls : ∀ k ax, t.Leg k (bid e) ax → k ≠ n → t1.Leg k n ax) :
    DimInvD bid t0 (fun k => D k ∧ k ≠ e) t1 := by
  have hAe := (hD e he).1
  have hen : e ≠ n := (X.swf.parent_ne hS0e).symm
  intro c' p' ch' ax0 hS' hl'
  obtain ⟨a, b⟩ := hdim c' p' ch' ax0 hS' hl'
  obtain ⟨pp, pch, hp', _⟩ := X.swf.up c' p' ch' hS'
  have h1 : c' ≠ bid e := node_ne_fresh X hS' hAe
  have h2 : p' ≠ bid e := node_ne_fresh X hp' hAe
  by_cases hce : c' = e
  · subst hce
    rw [hS0e] at hS'; simp only [Option.some.injEq, Prod.mk.injEq] at hS'
    obtain ⟨rfl, rfl⟩ := hS'
    refine ⟨fun _ => ?_, fun h' => absurd rfl h'.2⟩
    obtain ⟨⟨ax1, hl1, hd1⟩, _⟩ := b he
    exact ⟨ax1, ls _ _ hl1 hen, hd1⟩
  · constructor
    · intro hn
      have hn' : ¬ D c' := fun h' => hn ⟨h', hce⟩
      obtain ⟨ax, hleg, hd⟩ := a hn'
      exact ⟨ax, lo _ _ _ hleg h1 h2, hd⟩
    · intro hd'
      have hA' := (hD c' hd'.1).1
      obtain ⟨⟨ax1, hl1, hd1⟩, ax2, hl2, hd2⟩ := b hd'.1
      have h3 : bid c' ≠ bid e := fun e' => hce (X.inj c' e hA' hAe e')
      exact ⟨⟨ax1, lo _ _ _ hl1 h1 h3, hd1⟩, ax2, lo _ _ _ hl2 h3 h2, hd2⟩

/-- the loop of `contract_all_children(n)` over the basis-change nodes of the children `F` still to do -/
theorem absorb_loop {bid : Id → Id} {t0 : TTN} {A : Id → Prop} {O : Id → List Axis}
    (X : SCtx bid t0.S t0.hasT t0.root A) (hO : ∀ c, A c → O (bid c) = []) {n : Id} (K : Prop) :
    ∀ (F E : List Id) (D : Id → Prop) (t : TTN), t.WFX True O → DOK t0.S A D →
      PInvX bid t0.S t.S D n (F.map bid ++ E) → (K → DimInvD bid t0 D t) →
      (∀ e ∈ F, D e ∧ ∃ che, t0.S e = some (some n, che)) → F.Nodup → (∃ pp ch, t0.S n = some (pp, ch)) →
      ∃ t', (F.map bid).foldlM (fun (t : TTN) s => t.contractNodes n s n) t = some t' ∧ t'.WFX True O ∧
        t'.root = t.root ∧ PInvX bid t0.S t'.S (fun k => D k ∧ k ∉ F) n (E ++ F) ∧
        (K → DimInvD bid t0 (fun k => D k ∧ k ∉ F) t') := by
  intro F
  induction F with
  | nil =>
    intro E D t w _ inv hdim _ _ _
    refine ⟨t, rfl, w, rfl, ?_, ?_⟩
    · exact inv.congr (fun k => ⟨fun h => ⟨h, by simp⟩, fun h => h.1⟩) (by simp)
    · exact fun hK => (hdim hK).congr (fun k => ⟨fun h => ⟨h, by simp⟩, fun h => h.1⟩)
  | cons e F ih =>
    intro E D t w hD inv hdim hF hnd hn
    obtain ⟨pp, chn, hS0n⟩ := hn
    obtain ⟨he, che, hS0e⟩ := hF e (by simp)
    have hAe := (hD e he).1
    have hne : e ≠ n := (X.swf.parent_ne hS0e).symm
    have hSn := inv.at_n pp chn hS0n
    have hSb := inv.bc e he n che hS0e
    have hSe := inv.nodes e (some n) che hne hS0e
    rw [subP_pos he] at hSe
    simp only [List.map_cons, List.cons_append] at hSn inv
    -- progress
    obtain ⟨Nn, hNn, _⟩ := TTN.N_of_S hSn
    obtain ⟨Nb, hNb, eNb⟩ := TTN.N_of_S hSb
    simp only [Prod.mk.injEq] at eNb
    have hadm : contractAdmB t n (bid e) n = true :=
      (contractAdmB_iff t n (bid e) n).mpr ⟨⟨Nn, Nb, hNn, hNb, Or.inl eNb.1.symm⟩, Or.inl rfl⟩
    obtain ⟨t1, hc⟩ := contract_nodes_progress w.wf (w.lwf trivial) hadm
    obtain ⟨w1, R1, S1⟩ := trunc_step2 w hSn hSb hSe (fun _ => hO e hAe) hc
    have inv1 := pinvx_absorb X hD inv he hS0e hSn
    rw [← S1] at inv1
    have hD1 : DOK t0.S A (fun k => D k ∧ k ≠ e) := fun c hc => hD c hc.1
    have hF1 : ∀ e' ∈ F, (D e' ∧ e' ≠ e) ∧ ∃ che, t0.S e' = some (some n, che) := by
      intro e' he'
      obtain ⟨a, b⟩ := hF e' (by simp [he'])
      exact ⟨⟨a, fun e'' => (List.nodup_cons.mp hnd).1 (e'' ▸ he')⟩, b⟩
    obtain ⟨lo, ls⟩ := Ptn.C10.leg_step2 w.wf hc
    have hdim1 : K → DimInvD bid t0 (fun k => D k ∧ k ≠ e) t1 := fun hK =>
      absorb_dims X hD he hS0e (hdim hK) lo ls
    obtain ⟨t', hrun, w', R', inv', hdim'⟩ := ih (E ++ [e]) (fun k => D k ∧ k ≠ e) t1 w1 hD1
      (inv1.congr (fun _ => Iff.rfl) (by simp)) hdim1 hF1 (List.nodup_cons.mp hnd).2 ⟨pp, chn, hS0n⟩
    have hiff : ∀ k, ((D k ∧ k ≠ e) ∧ k ∉ F) ↔ (D k ∧ k ∉ e :: F) := by
      intro k
      simp only [List.mem_cons, not_or]
      exact ⟨fun h => ⟨h.1.1, h.1.2, h.2⟩, fun h => ⟨⟨h.1, h.2.1⟩, h.2.2⟩⟩
    refine ⟨t', ?_, w', R'.trans R1, ?_, ?_⟩
    · rw [List.map_cons, List.foldlM_cons]
      simp only [hc, bind, Option.bind]
      exact hrun
    · exact inv'.congr hiff (by simp)
    · exact fun hK => (hdim' hK).congr hiff

/-- `contract_all_children(n)` when the basis-change nodes of ALL children of `n` are pending: succeeds; the
    children are not pending any more and the children LIST of `n` is the original one. -/
theorem absorb_event {bid : Id → Id} {t0 t : TTN} {A D : Id → Prop} {O : Id → List Axis}
    (X : SCtx bid t0.S t0.hasT t0.root A) (hO : ∀ c, A c → O (bid c) = []) (hD : DOK t0.S A D)
    (hx : t.WFX True O) (h : PInv bid t0.S t.S D) (K : Prop) (hdim : K → DimInvD bid t0 D t) {n : Id}
    {pp : Option Id} {ch : List Id} (hS0 : t0.S n = some (pp, ch)) (hall : ∀ e ∈ ch, D e) :
    ∃ t', t.contractAllChildren n n = some t' ∧ t'.WFX True O ∧ t'.root = t.root ∧
      PInv bid t0.S t'.S (fun k => D k ∧ k ∉ ch) ∧ (K → DimInvD bid t0 (fun k => D k ∧ k ∉ ch) t') := by
  have hSn := h.nodes n pp ch hS0
  rw [map_sub_all hall] at hSn
  obtain ⟨Nn, hNn, eNn⟩ := TTN.N_of_S hSn
  simp only [Prod.mk.injEq] at eNn
  have hF : ∀ e ∈ ch, D e ∧ ∃ che, t0.S e = some (some n, che) := fun e he =>
    ⟨hall e he, X.swf.down n pp ch e hS0 he⟩
  have inv0 : PInvX bid t0.S t.S D n (ch.map bid ++ []) := by
    have := h.toX hS0
    rw [map_sub_all hall] at this
    simpa using this
  obtain ⟨t', hrun, w', R', inv', hdim'⟩ := absorb_loop X hO K ch [] D t hx hD inv0 hdim hF
    (X.swf.nodup n pp ch hS0) ⟨pp, ch, hS0⟩
  refine ⟨t', ?_, w', R', ?_, hdim'⟩
  · have hNn' : dget t.nodes n = some Nn := hNn
    simp only [TTN.contractAllChildren, hNn', bind, Option.bind, ← eNn.2]
    exact hrun
  · refine inv'.toPInv hS0 ?_
    rw [List.nil_append, map_sub_none (fun y hy h' => h'.2 hy)]

/-- `replace_tensor` of a node with its own axes: succeeds, nothing recorded changes -/
theorem rtp_event {t : TTN} {P : Prop} {O : Id → List Axis} (hx : t.WFX P O) {c : Id} {n : NodeS}
    (hn : t.N c = some n) {q : Option (List Nat)}
    (hq : ∀ l, q = some l → l.Perm (List.range l.length) ∧ l.length = n.perm.length) :
    ∃ t', t.replaceTensorPermuted c q = some t' ∧ t'.WFX P O ∧ t'.root = t.root ∧ t'.S = t.S ∧
      ∀ k, t'.legPairs k = t.legPairs k := by
  obtain ⟨t', hs⟩ := rtp_progress hx.wf hn hq
  obtain ⟨S1, R1⟩ := rtp_S_eq hs
  exact ⟨t', hs, rtp_wfx hx (fun l hl => (hq l hl).1) hs, R1, S1,
    fun k => (rtp_labels hx.wf (fun l hl => (hq l hl).1) hs k).2.1⟩

/-- reading a tensor: succeeds, nothing recorded changes -/
theorem access_event {t : TTN} {P : Prop} {O : Id → List Axis} (hx : t.WFX P O) {c : Id} {n : NodeS}
    (hn : t.N c = some n) :
    ∃ t', (t.access c).map (·.1) = some t' ∧ t'.WFX P O ∧ t'.root = t.root ∧ t'.S = t.S ∧
      ∀ k, t'.legPairs k = t.legPairs k := by
  obtain ⟨t1, T, ha⟩ := access_some hx.wf hn
  obtain ⟨S1, R1⟩ := access_S_eq ha
  exact ⟨t1, by simp [ha], access_wfx hx ha, R1, S1, (access_labels ha).2.2.1⟩

end Ptn.C09.Step
