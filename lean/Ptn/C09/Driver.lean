import Ptn.C09.Model
import Ptn.C09.GaugeModel
import Ptn.C09.StepModel
import Ptn.C02.Driver
/-! Line-protocol handler for C09 (core Lean only).

  order <id:parent> …   (root has parent `-`; children of a node are taken in order of appearance)
      → `<updates, space separated> | <moves p>c …>`
  gauge <0|1> <id:parent> …   (1 = fixed rank) the gauge machine of one BUG step on that tree
      → `<events, separated by ;> | <final record n>v / n>- per node, in pre-order> | pend k | frames …`
        (`stuck` if the machine cannot run: never on a tree)
  sstep <0|1> <id:parent> … / <root:… child:… building ops of the C02 driver> / <b:<c>=<bid> d:<c>=<bdim> p:<c>=<perm>> …
      the same step, event by event, on the structural TTN model of C02 (`Ptn.C09.Step`): the tree entries are those of
      `gauge` (children in visiting order); the building ops (`Ptn.C02.parseHOp`, only `root:` / `child:`) mirror the
      initial `new_state` (children order, leg order, dimensions); parameters: `b` = number of the basis-change node of
      `c`, `d` = rank of the new bond above `c` (both REQUIRED for every non-root node), `p` = the permutation the pull
      of `c` passes to `replace_tensor` (comma list, `-` = empty list; absent = none).
      → `start => <state> # pend -` followed by one field per event of `Gauge.bugEvents`, separated by ` | `:
        `<event as in gauge> => <state> # pend <pending>` with
        <state>   = `Ptn.C02.showTTN` of the structural state after the event (`Step.sTrace`), or `err` from the first
                    failing edit on;
        <pending> = the basis-change nodes pending in the gauge machine after the same prefix of events
                    (`Gauge.run`), as `c>p,…` (the one of `c`, hanging below `p`), `-` if there is none, `stuck` if the
                    gauge machine cannot run that prefix.
      `bad-op` if anything does not parse, a building op fails, or a parameter is missing / given twice.
-/
namespace Ptn.C09

def parseEntry (s : String) : Option (Nat × Option Nat) :=
  match s.splitOn ":" with
  | [a, b] =>
    match a.toNat? with
    | none => none
    | some x => if b = "-" then some (x, none) else (b.toNat?).map fun p => (x, some p)
  | _ => none

mutual
def buildTree (fuel : Nat) (entries : List (Nat × Option Nat)) (id : Nat) : Tree :=
  match fuel with
  | 0 => .node id .nil
  | fuel + 1 =>
    .node id (buildForest fuel entries ((entries.filter (·.2 == some id)).map (·.1)))
def buildForest (fuel : Nat) (entries : List (Nat × Option Nat)) (ids : List Nat) : Forest :=
  match fuel with
  | 0 => .nil
  | fuel + 1 =>
    match ids with
    | [] => .nil
    | i :: rest => .cons (buildTree fuel entries i) (buildForest fuel entries rest)
end

mutual
def Tree.toR : Tree → Ptn.C17.RTree
  | .node id kids => .node id kids.toR
def Forest.toR : Forest → List Ptn.C17.RTree
  | .nil => []
  | .cons t f => t.toR :: f.toR
end

def parseTree (toks : List String) : Option Tree :=
  match toks.mapM parseEntry with
  | none => none
  | some entries =>
    match entries.filter (·.2 == none) with
    | [(r, _)] =>
      let t := buildTree (2 * entries.length + 2) entries r
      if t.ids.length ≠ entries.length then none else some t
    | _ => none

def handleGauge (fixed : Bool) (toks : List String) : String :=
  match parseTree toks with
  | none => "bad-op"
  | some t =>
    let r := t.toR
    let evs := Gauge.bugEvents fixed r
    match Gauge.run (Gauge.start (fun _ => none) r) evs with
    | none => "stuck"
    | some s => " ; ".intercalate (evs.map Gauge.showGEv) ++ " | " ++ Gauge.showState (Ptn.C17.RTree.ids r) s

/-! ### `sstep`: gauge machine and structural model side by side -/

/-- the segments of a token list between lone `/` tokens -/
def splitSlash : List String → List (List String)
  | [] => [[]]
  | tok :: rest =>
    match splitSlash rest with
    | [] => [[tok]]
    | seg :: segs => if tok = "/" then [] :: seg :: segs else (tok :: seg) :: segs

inductive PTok where
  | b (c : Nat) (v : Nat)
  | d (c : Nat) (v : Nat)
  | p (c : Nat) (v : List Nat)

def parsePTok (tok : String) : Option PTok :=
  match tok.splitOn ":" with
  | [k, rest] =>
    match rest.splitOn "=" with
    | [c, v] =>
      match c.toNat? with
      | none => none
      | some c' =>
        if k = "b" then v.toNat?.map (PTok.b c')
        else if k = "d" then v.toNat?.map (PTok.d c')
        else if k = "p" then (Ptn.C02.parseList v).map (PTok.p c')
        else none
    | _ => none
  | _ => none

def lookupN {α : Type} (l : List (Nat × α)) (k : Nat) : Option α := (l.find? (fun e => e.1 == k)).map (·.2)

/-- the parameters: every key at most once, `b` and `d` for every node of `need` -/
def mkParams (ps : List PTok) (need : List Nat) : Option Step.Params :=
  let bs := ps.filterMap fun | .b c v => some (c, v) | _ => none
  let ds := ps.filterMap fun | .d c v => some (c, v) | _ => none
  let qs := ps.filterMap fun | .p c v => some (c, v) | _ => none
  let nodupKeys := fun (l : List Nat) => l.eraseDups.length == l.length
  if !(nodupKeys (bs.map (·.1)) && nodupKeys (ds.map (·.1)) && nodupKeys (qs.map (·.1))) then none
  else if !(need.all fun c => (lookupN bs c).isSome && (lookupN ds c).isSome) then none
  else some ⟨fun c => (lookupN bs c).getD 0, fun c => (lookupN ds c).getD 0, fun c => lookupN qs c⟩

/-- the network built by `root:` / `child:` ops from the empty one (no other op is accepted) -/
def buildTTN (toks : List String) : Option Ptn.C02.TTN :=
  toks.foldlM (fun (t : Ptn.C02.TTN) tok =>
    match Ptn.C02.parseHOp tok with
    | some (.op (.root i ax)) => t.step (.root i ax)
    | some (.op (.child i ax cl p pl)) => t.step (.child i ax cl p pl)
    | _ => none) Ptn.C02.TTN.empty

def showPend (g : Option Gauge.GState) : String :=
  match g with
  | none => "stuck"
  | some s => if s.pend.isEmpty then "-" else ",".intercalate (s.pend.map fun e => s!"{e.1}>{e.2}")

def showSt (t : Option Ptn.C02.TTN) : String :=
  match t with
  | none => "err"
  | some t => Ptn.C02.showTTN t

def handleSStep (fixed : Bool) (toks : List String) : String :=
  match splitSlash toks with
  | [treeToks, opToks, parToks] =>
    match parseTree treeToks, buildTTN opToks, parToks.mapM parsePTok with
    | some t, some net, some ps =>
      let r := t.toR
      let root := Ptn.C17.RTree.rid r
      match mkParams ps ((Ptn.C17.RTree.ids r).filter (· != root)) with
      | none => "bad-op"
      | some P =>
        if opToks.isEmpty then "bad-op" else
        let evs := Gauge.bugEvents fixed r
        let g0 := Gauge.start (fun _ => none) r
        let states := Step.sTrace P net evs              -- the start state, then the state after every event
        let labels := "start" :: evs.map Gauge.showGEv
        let fields := (List.range labels.length).map fun k =>
          s!"{labels.getD k "?"} => {showSt ((states.getD k none))} # pend {showPend (Gauge.run g0 (evs.take k))}"
        " | ".intercalate fields
    | _, _, _ => "bad-op"
  | _ => "bad-op"

def handle (args : List String) : String :=
  match args with
  | "gauge" :: "0" :: toks => handleGauge false toks
  | "sstep" :: "0" :: toks => handleSStep false toks
  | "sstep" :: "1" :: toks => handleSStep true toks
  | "gauge" :: "1" :: toks => handleGauge true toks
  | "order" :: toks =>
    match toks.mapM parseEntry with
    | none => "bad-op"
    | some entries =>
      match entries.filter (·.2 == none) with
      | [(r, _)] =>
        let t := buildTree (2 * entries.length + 2) entries r
        if t.ids.length ≠ entries.length then "bad-op" else
        " ".intercalate (t.updates.map toString) ++ " | " ++
          " ".intercalate (t.moves.map fun m => s!"{m.1}>{m.2}")
      | _ => "bad-op"
  | _ => "bad-op"

end Ptn.C09
