import Ptn.C09.Model
import Ptn.C09.GaugeModel
/-! Line-protocol handler for C09 (core Lean only).

  order <id:parent> …   (root has parent `-`; children of a node are taken in order of appearance)
      → `<updates, space separated> | <moves p>c …>`
  gauge <0|1> <id:parent> …   (1 = fixed rank) the gauge machine of one BUG step on that tree
      → `<events, separated by ;> | <final record n>v / n>- per node, in pre-order> | pend k | frames …`
        (`stuck` if the machine cannot run: never on a tree)
-/
namespace Ptn.C09

def parseEntry (s : String) : Option (Nat × Option Nat) :=
  match s.splitOn ":" with
  | [a, b] =>
    match a.toNat? with
    | none => none
    | some x => if b = "-" then some (x, none) else (b.toNat?).map fun p => (x, some p)
  | _ => none

mutual
def buildTree (fuel : Nat) (entries : List (Nat × Option Nat)) (id : Nat) : Tree :=
  match fuel with
  | 0 => .node id .nil
  | fuel + 1 =>
    .node id (buildForest fuel entries ((entries.filter (·.2 == some id)).map (·.1)))
def buildForest (fuel : Nat) (entries : List (Nat × Option Nat)) (ids : List Nat) : Forest :=
  match fuel with
  | 0 => .nil
  | fuel + 1 =>
    match ids with
    | [] => .nil
    | i :: rest => .cons (buildTree fuel entries i) (buildForest fuel entries rest)
end

mutual
def Tree.toR : Tree → Ptn.C17.RTree
  | .node id kids => .node id kids.toR
def Forest.toR : Forest → List Ptn.C17.RTree
  | .nil => []
  | .cons t f => t.toR :: f.toR
end

def parseTree (toks : List String) : Option Tree :=
  match toks.mapM parseEntry with
  | none => none
  | some entries =>
    match entries.filter (·.2 == none) with
    | [(r, _)] =>
      let t := buildTree (2 * entries.length + 2) entries r
      if t.ids.length ≠ entries.length then none else some t
    | _ => none

def handleGauge (fixed : Bool) (toks : List String) : String :=
  match parseTree toks with
  | none => "bad-op"
  | some t =>
    let r := t.toR
    let evs := Gauge.bugEvents fixed r
    match Gauge.run (Gauge.start (fun _ => none) r) evs with
    | none => "stuck"
    | some s => " ; ".intercalate (evs.map Gauge.showGEv) ++ " | " ++ Gauge.showState (Ptn.C17.RTree.ids r) s

def handle (args : List String) : String :=
  match args with
  | "gauge" :: "0" :: toks => handleGauge false toks
  | "gauge" :: "1" :: toks => handleGauge true toks
  | "order" :: toks =>
    match toks.mapM parseEntry with
    | none => "bad-op"
    | some entries =>
      match entries.filter (·.2 == none) with
      | [(r, _)] =>
        let t := buildTree (2 * entries.length + 2) entries r
        if t.ids.length ≠ entries.length then "bad-op" else
        " ".intercalate (t.updates.map toString) ++ " | " ++
          " ".intercalate (t.moves.map fun m => s!"{m.1}>{m.2}")
      | _ => "bad-op"
  | _ => "bad-op"

end Ptn.C09
