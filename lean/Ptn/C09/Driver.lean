import Ptn.C09.Model
/-! Line-protocol handler for C09 (core Lean only).

  order <id:parent> …   (root has parent `-`; children of a node are taken in order of appearance)
      → `<updates, space separated> | <moves p>c …>`
-/
namespace Ptn.C09

def parseEntry (s : String) : Option (Nat × Option Nat) :=
  match s.splitOn ":" with
  | [a, b] =>
    match a.toNat? with
    | none => none
    | some x => if b = "-" then some (x, none) else (b.toNat?).map fun p => (x, some p)
  | _ => none

mutual
def buildTree (fuel : Nat) (entries : List (Nat × Option Nat)) (id : Nat) : Tree :=
  match fuel with
  | 0 => .node id .nil
  | fuel + 1 =>
    .node id (buildForest fuel entries ((entries.filter (·.2 == some id)).map (·.1)))
def buildForest (fuel : Nat) (entries : List (Nat × Option Nat)) (ids : List Nat) : Forest :=
  match fuel with
  | 0 => .nil
  | fuel + 1 =>
    match ids with
    | [] => .nil
    | i :: rest => .cons (buildTree fuel entries i) (buildForest fuel entries rest)
end

def handle (args : List String) : String :=
  match args with
  | "order" :: toks =>
    match toks.mapM parseEntry with
    | none => "bad-op"
    | some entries =>
      match entries.filter (·.2 == none) with
      | [(r, _)] =>
        let t := buildTree (2 * entries.length + 2) entries r
        if t.ids.length ≠ entries.length then "bad-op" else
        " ".intercalate (t.updates.map toString) ++ " | " ++
          " ".intercalate (t.moves.map fun m => s!"{m.1}>{m.2}")
      | _ => "bad-op"
  | _ => "bad-op"

end Ptn.C09
