import Ptn.C09.Model
/-! Line-protocol handler for the C09 model (core Lean only). -/
namespace Ptn.C09
def handle (args : List String) : String := "bad-op"
end Ptn.C09
