import Ptn.C09.GaugeModel
import Ptn.C09.Structure
/-! # One BUG step on the structural TTN model of C02, in the order of the code (core Lean only)

The gauge machine (`GaugeModel.lean`) emits, for a tree with the children of every node in the order in which
`root_update` / `update_node` visit them, the events of one step.  Here every event gets its edit of `new_state` in the
structural model of `TreeTensorNetwork` (C02), literally as in `common_bug.py`:

* `down p c keep`  - working copies only: `new_state` is untouched;
* `pull c`         - `pull_tensor_from_different_ttn(current_state, new_state, c, …)` =
                     `new_state.replace_tensor(c, tensor, relative_leg_permutation)`: `replaceTensorPermuted c (perm c)`;
* `absorb c kids`  - `new_state.contract_all_children(c)`: the loop over the children LIST of `c` at call time
                     (`TTN.contractAllChildren c c`; the list `kids` of the gauge event is the visiting order and is not used);
* `evolve c`       - `single_site_time_evolution`: reads the tensor of `c` (`access`; for a leaf the code reads the working
                     copy instead - an access changes the storage order of a tensor only, nothing recorded here depends on it);
* `basis c p aug`  - `new_state.split_node_replace(c, M, Q, basis_change_tensor_id(c), c, LegSpecification(parent,[],[]),
                     LegSpecification(None, children, open_legs))` = `bugSplit c (bid c) (bdim c)`; the basis-change node
                     stays PENDING below `p` until `absorb p …`;
* `store r`        - `new_state.replace_tensor(root, updated_tensor)`.

Parameters the structure does not determine: `bid` (`basis_change_tensor_id`), `bdim c` (the rank the QR chose for the
bond above `c`), `perm c` (the permutation `relative_leg_permutation` returned for the pull of `c`). -/
namespace Ptn.C09.Step
open Ptn.C02 Ptn.C09.Gauge

structure Params where
  bid : Nat → Id
  bdim : Nat → Nat
  perm : Nat → Option (List Nat)

/-- the edit of `new_state` that belongs to one event of the gauge machine -/
def sEdit (P : Params) (t : TTN) : GEv → Option TTN
  | .down _ _ _ => some t
  | .pull c => t.replaceTensorPermuted c (P.perm c)
  | .absorb c _ => t.contractAllChildren c c
  | .evolve c => (t.access c).map (·.1)
  | .basis c _ _ => bugSplit t c (P.bid c) (P.bdim c)
  | .store r => t.replaceTensorPermuted r none

def sRun (P : Params) (t : TTN) : List GEv → Option TTN
  | [] => some t
  | e :: es => (sEdit P t e).bind fun t' => sRun P t' es

/-- the gauge machine and the structural model side by side -/
def jstep (P : Params) (s : GState × TTN) (e : GEv) : Option (GState × TTN) :=
  (step s.1 e).bind fun g => (sEdit P s.2 e).map fun t => (g, t)

def jrun (P : Params) (s : GState × TTN) : List GEv → Option (GState × TTN)
  | [] => some s
  | e :: es => (jstep P s e).bind fun s' => jrun P s' es

/-- all states of a structural run (the start included), `none` from the first failing edit on -/
def sTrace (P : Params) (t : TTN) : List GEv → List (Option TTN)
  | [] => [some t]
  | e :: es =>
    some t :: (match sEdit P t e with
      | some t' => sTrace P t' es
      | none => es.map (fun _ => none) ++ [none])

end Ptn.C09.Step
