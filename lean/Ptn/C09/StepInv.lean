import Ptn.C09.StepProgress
/-! The structure of `new_state` while basis-change nodes are pending (core Lean only).

`S0` is the structure map of the state at the start of the step, `D` the set of nodes whose basis-change node is
present.  `PInv`: the current structure is `S0` with, for every `c ∈ D` with parent `p`, the node `bid c` put between
`c` and `p` - in the children list of `p` at the POSITION of `c`.  `PInvX` is the same with the children list of one
node `n` given explicitly (the loop of `contract_all_children(n)` rotates it). -/
namespace Ptn.C09.Step
open Ptn.C02 Ptn.C02.NodeS

open Classical in
/-- the child `c` as it is seen from its parent: its basis-change node while that is pending -/
noncomputable def sub (bid : Id → Id) (D : Id → Prop) (c : Id) : Id := if D c then bid c else c

open Classical in
/-- the parent of `k`: its basis-change node while that is pending -/
noncomputable def subP (bid : Id → Id) (D : Id → Prop) (k : Id) (pp : Option Id) : Option Id :=
  if D k then some (bid k) else pp

theorem sub_pos {bid : Id → Id} {D : Id → Prop} {c : Id} (h : D c) : sub bid D c = bid c := by simp [sub, h]
theorem sub_neg {bid : Id → Id} {D : Id → Prop} {c : Id} (h : ¬ D c) : sub bid D c = c := by simp [sub, h]
theorem subP_pos {bid : Id → Id} {D : Id → Prop} {k : Id} {pp : Option Id} (h : D k) :
    subP bid D k pp = some (bid k) := by simp [subP, h]
theorem subP_neg {bid : Id → Id} {D : Id → Prop} {k : Id} {pp : Option Id} (h : ¬ D k) :
    subP bid D k pp = pp := by simp [subP, h]

theorem sub_congr {bid : Id → Id} {D D' : Id → Prop} {c : Id} (h : D c ↔ D' c) : sub bid D c = sub bid D' c := by
  by_cases hc : D c
  · rw [sub_pos hc, sub_pos (h.mp hc)]
  · rw [sub_neg hc, sub_neg (fun h' => hc (h.mpr h'))]

theorem subP_congr {bid : Id → Id} {D D' : Id → Prop} {k : Id} {pp : Option Id} (h : D k ↔ D' k) :
    subP bid D k pp = subP bid D' k pp := by
  by_cases hc : D k
  · rw [subP_pos hc, subP_pos (h.mp hc)]
  · rw [subP_neg hc, subP_neg (fun h' => hc (h.mpr h'))]

theorem map_sub_congr {bid : Id → Id} {D D' : Id → Prop} {l : List Id} (h : ∀ y ∈ l, (D y ↔ D' y)) :
    l.map (sub bid D) = l.map (sub bid D') :=
  List.map_congr_left fun y hy => sub_congr (h y hy)

theorem map_sub_none {bid : Id → Id} {D : Id → Prop} {l : List Id} (h : ∀ y ∈ l, ¬ D y) : l.map (sub bid D) = l := by
  have : l.map (sub bid D) = l.map id := List.map_congr_left fun y hy => sub_neg (h y hy)
  simpa using this

theorem map_sub_all {bid : Id → Id} {D : Id → Prop} {l : List Id} (h : ∀ y ∈ l, D y) :
    l.map (sub bid D) = l.map bid :=
  List.map_congr_left fun y hy => sub_pos (h y hy)

structure PInv (bid : Id → Id) (S0 S : Id → Option Struct) (D : Id → Prop) : Prop where
  nodes : ∀ k pp ch, S0 k = some (pp, ch) → S k = some (subP bid D k pp, ch.map (sub bid D))
  bc : ∀ c, D c → ∀ p ch, S0 c = some (some p, ch) → S (bid c) = some (some p, [c])
  other : ∀ k, S0 k = none → (∀ c, D c → k ≠ bid c) → S k = none

structure PInvX (bid : Id → Id) (S0 S : Id → Option Struct) (D : Id → Prop) (n : Id) (L : List Id) : Prop where
  at_n : ∀ pp ch, S0 n = some (pp, ch) → S n = some (subP bid D n pp, L)
  nodes : ∀ k pp ch, k ≠ n → S0 k = some (pp, ch) → S k = some (subP bid D k pp, ch.map (sub bid D))
  bc : ∀ c, D c → ∀ p ch, S0 c = some (some p, ch) → S (bid c) = some (some p, [c])
  other : ∀ k, S0 k = none → (∀ c, D c → k ≠ bid c) → S k = none

theorem PInv.toX {bid : Id → Id} {S0 S : Id → Option Struct} {D : Id → Prop} (h : PInv bid S0 S D) {n : Id}
    {pp : Option Id} {ch : List Id} (hn : S0 n = some (pp, ch)) : PInvX bid S0 S D n (ch.map (sub bid D)) :=
  ⟨fun pp' ch' e => by
      rw [hn] at e; simp only [Option.some.injEq, Prod.mk.injEq] at e
      rw [← e.1]; exact h.nodes n pp ch hn,
    fun k pp' ch' _ e => h.nodes k pp' ch' e, h.bc, h.other⟩

theorem PInvX.toPInv {bid : Id → Id} {S0 S : Id → Option Struct} {D : Id → Prop} {n : Id} {L : List Id}
    (h : PInvX bid S0 S D n L) {pp : Option Id} {ch : List Id} (hn : S0 n = some (pp, ch))
    (hL : L = ch.map (sub bid D)) : PInv bid S0 S D :=
  ⟨fun k pp' ch' e => by
      by_cases hk : k = n
      · subst hk
        rw [hn] at e; simp only [Option.some.injEq, Prod.mk.injEq] at e
        rw [← e.1, ← e.2, ← hL]; exact h.at_n pp ch hn
      · exact h.nodes k pp' ch' hk e,
    h.bc, h.other⟩

theorem PInv.congr {bid : Id → Id} {S0 S : Id → Option Struct} {D D' : Id → Prop} (h : PInv bid S0 S D)
    (e : ∀ k, D k ↔ D' k) : PInv bid S0 S D' := by
  have : D = D' := funext fun k => propext (e k)
  rw [← this]; exact h

theorem PInvX.congr {bid : Id → Id} {S0 S : Id → Option Struct} {D D' : Id → Prop} {n : Id} {L L' : List Id}
    (h : PInvX bid S0 S D n L) (e : ∀ k, D k ↔ D' k) (eL : L = L') : PInvX bid S0 S D' n L' := by
  have : D = D' := funext fun k => propext (e k)
  rw [← this, ← eL]; exact h

/-- nothing pending: the structure is the original one -/
theorem PInv.eq_of_empty {bid : Id → Id} {S0 S : Id → Option Struct} {D : Id → Prop} (h : PInv bid S0 S D)
    (hD : ∀ k, ¬ D k) : S = S0 := by
  funext k
  cases hk : S0 k with
  | none => exact h.other k hk (fun c hc => absurd hc (hD c))
  | some st =>
    obtain ⟨pp, ch⟩ := st
    rw [h.nodes k pp ch hk, subP_neg (hD k), map_sub_none (fun y _ => hD y)]

/-- what is fixed during a step: the original structure is a tree, the basis-change identifiers of the nodes of the
    set `A` are unused and pairwise different -/
structure SCtx (bid : Id → Id) (S0 : Id → Option Struct) (Tk : Id → Bool) (root : Option Id) (A : Id → Prop) :
    Prop where
  swf : SWF S0 Tk root
  fresh : ∀ c, A c → S0 (bid c) = none
  inj : ∀ c c', A c → A c' → bid c = bid c' → c = c'

/-- every pending node is a non-root node of `A` -/
def DOK (S0 : Id → Option Struct) (A D : Id → Prop) : Prop :=
  ∀ c, D c → A c ∧ ∃ p ch, S0 c = some (some p, ch)

theorem not_child_of_self {S0 : Id → Option Struct} {Tk : Id → Bool} {root : Option Id} (h : SWF S0 Tk root)
    {c : Id} {pp : Option Id} {ch : List Id} (hc : S0 c = some (pp, ch)) : c ∉ ch := by
  intro hm
  obtain ⟨cch, e⟩ := h.down c pp ch c hc hm
  exact h.parent_ne e rfl

/-- **`split_node_replace` of a BUG step on the pending structure**: `c` becomes pending. -/
theorem pinv_split {bid : Id → Id} {S0 S : Id → Option Struct} {Tk : Id → Bool} {root : Option Id}
    {A D : Id → Prop} (X : SCtx bid S0 Tk root A) (hD : DOK S0 A D) (h : PInv bid S0 S D) {c p : Id}
    {ch : List Id} (hA : A c) (hc : ¬ D c) (hS0 : S0 c = some (some p, ch)) :
    PInv bid S0 (splitS S c (bid c) c (some p) [] (ch.map (sub bid D))) (fun k => D k ∨ k = c) := by
  have hbc : bid c ≠ c := by intro e; have := X.fresh c hA; rw [e, hS0] at this; simp at this
  have hfresh_ne : ∀ y k st, D y → S0 k = some st → k ≠ bid y := by
    intro y k st hy hk e
    have := X.fresh y (hD y hy).1
    rw [← e, hk] at this; simp at this
  refine ⟨?_, ?_, ?_⟩
  · intro k pp chk hk
    have hkb : k ≠ bid c := by intro e; have := X.fresh c hA; rw [← e, hk] at this; simp at this
    by_cases hkc : k = c
    · subst hkc
      rw [hS0] at hk; simp only [Option.some.injEq, Prod.mk.injEq] at hk
      obtain ⟨rfl, rfl⟩ := hk
      have : (fun k => D k ∨ k = k) k := Or.inr rfl
      simp only [splitS, hkb, if_false, if_true]
      rw [subP_pos (D := fun k' => D k' ∨ k' = k) (Or.inr rfl)]
      congr 2
      apply map_sub_congr
      intro y hy
      have hyk : y ≠ k := fun e => not_child_of_self X.swf hS0 (e ▸ hy)
      constructor
      · exact fun h' => Or.inl h'
      · rintro (h' | h')
        · exact h'
        · exact absurd h' hyk
    · simp only [splitS, hkb, hkc, if_false]
      rw [h.nodes k pp chk hk]
      simp only [Option.map_some, splitRen]
      congr 1
      refine Prod.ext ?_ ?_
      · have e1 : subP bid (fun k' => D k' ∨ k' = c) k pp = subP bid D k pp :=
          subP_congr ⟨fun h' => h'.elim id (fun e => absurd e hkc), Or.inl⟩
        rw [e1]
        cases hq : subP bid D k pp with
        | none => rfl
        | some q =>
          by_cases hqc : q = c
          · simp [hqc]
          · simp [hqc]
      · simp only [List.map_map]
        apply List.map_congr_left
        intro y hy
        simp only [Function.comp]
        by_cases hy1 : D y
        · rw [sub_pos hy1, sub_pos (D := fun k' => D k' ∨ k' = c) (Or.inl hy1)]
          have : bid y ≠ c := fun e => hfresh_ne y c _ hy1 hS0 e.symm
          simp [this]
        · rw [sub_neg hy1]
          by_cases hyc : y = c
          · subst hyc
            rw [sub_pos (D := fun k' => D k' ∨ k' = y) (Or.inr rfl)]
            simp
          · rw [sub_neg (D := fun k' => D k' ∨ k' = c) (fun h' => h'.elim hy1 hyc)]
            simp [hyc]
  · intro c' hc' p' ch' hS0'
    rcases hc' with hc' | hc'
    · have hcc : c' ≠ c := fun e => hc (e ▸ hc')
      have hA' := (hD c' hc').1
      have h1 : bid c' ≠ bid c := fun e => hcc (X.inj c' c hA' hA e)
      have h2 : bid c' ≠ c := fun e => hfresh_ne c' c _ hc' hS0 e.symm
      simp only [splitS, h1, h2, if_false]
      rw [h.bc c' hc' p' ch' hS0']
      simp only [Option.map_some, splitRen, List.map_cons, List.map_nil, hcc, if_false]
      by_cases hp : p' = c
      · simp [hp]
      · simp [hp]
    · subst hc'
      rw [hS0] at hS0'; simp only [Option.some.injEq, Prod.mk.injEq] at hS0'
      obtain ⟨hp, _⟩ := hS0'
      subst hp
      simp [splitS]
  · intro k hk hne
    have h1 : k ≠ bid c := hne c (Or.inr rfl)
    have h2 : k ≠ c := by intro e; rw [e, hS0] at hk; simp at hk
    simp only [splitS, h1, h2, if_false]
    rw [h.other k hk (fun c' hc' => hne c' (Or.inl hc'))]
    rfl

/-- **one `contract_nodes(n, bid e, new_identifier=n)` of `contract_all_children(n)` on the pending structure**:
    the basis-change node of `e`, first in the children list of `n`, disappears; `e` goes to the end of the list and
    is not pending any more. -/
theorem pinvx_absorb {bid : Id → Id} {S0 S : Id → Option Struct} {Tk : Id → Bool} {root : Option Id}
    {A D : Id → Prop} (X : SCtx bid S0 Tk root A) (hD : DOK S0 A D) {n e : Id} {L che : List Id} {gp : Option Id}
    (h : PInvX bid S0 S D n (bid e :: L)) (he : D e) (hS0e : S0 e = some (some n, che))
    (hSn : S n = some (gp, bid e :: L)) :
    PInvX bid S0
      (fun k => if k = n then some (gp, (bid e :: L).erase (bid e) ++ [e]) else if k = bid e then none
        else if k = e then some (some n, che.map (sub bid D)) else S k)
      (fun k => D k ∧ k ≠ e) n (L ++ [e]) := by
  have hAe := (hD e he).1
  have hne : n ≠ e := X.swf.parent_ne hS0e
  have hfresh_ne : ∀ y k st, A y → S0 k = some st → k ≠ bid y := by
    intro y k st hy hk e'
    have := X.fresh y hy
    rw [← e', hk] at this; simp at this
  have hiff : ∀ k, k ≠ e → ((D k ∧ k ≠ e) ↔ D k) := fun k hk => ⟨fun h' => h'.1, fun h' => ⟨h', hk⟩⟩
  refine ⟨?_, ?_, ?_, ?_⟩
  · intro pp ch hn
    have h0 := h.at_n pp ch hn
    rw [hSn] at h0; simp only [Option.some.injEq, Prod.mk.injEq] at h0
    simp only [if_true, List.erase_cons_head]
    rw [h0.1, subP_congr (D' := fun k => D k ∧ k ≠ e) (hiff n hne).symm]
  · intro k pp chk hkn hk
    have hkb : k ≠ bid e := hfresh_ne e k _ hAe hk
    simp only [hkn, hkb, if_false]
    by_cases hke : k = e
    · subst hke
      rw [hS0e] at hk; simp only [Option.some.injEq, Prod.mk.injEq] at hk
      obtain ⟨rfl, rfl⟩ := hk
      simp only [if_true]
      rw [subP_neg (D := fun k' => D k' ∧ k' ≠ k) (fun h' => h'.2 rfl)]
      congr 2
      apply map_sub_congr
      intro y hy
      exact (hiff y (fun e' => not_child_of_self X.swf hS0e (e' ▸ hy))).symm
    · simp only [hke, if_false]
      rw [h.nodes k pp chk hkn hk, subP_congr (D' := fun k => D k ∧ k ≠ e) (hiff k hke).symm]
      congr 2
      apply map_sub_congr
      intro y hy
      refine (hiff y ?_).symm
      intro e'
      subst e'
      obtain ⟨cch, hdown⟩ := X.swf.down k pp chk y hk hy
      rw [hS0e] at hdown; simp only [Option.some.injEq, Prod.mk.injEq] at hdown
      exact hkn hdown.1.symm
  · intro c' hc' p' ch' hS0'
    have hA' := (hD c' hc'.1).1
    have h1 : bid c' ≠ n := by
      intro e'
      cases hn : S0 n with
      | none =>
        obtain ⟨pp, pch, hp, _⟩ := X.swf.up e n che hS0e
        rw [hn] at hp; simp at hp
      | some st => exact hfresh_ne c' n st hA' hn e'.symm
    have h2 : bid c' ≠ bid e := fun e' => hc'.2 (X.inj c' e hA' hAe e')
    have h3 : bid c' ≠ e := fun e' => hfresh_ne c' e _ hA' hS0e e'.symm
    simp only [h1, h2, h3, if_false]
    exact h.bc c' hc'.1 p' ch' hS0'
  · intro k hk hne'
    have h1 : k ≠ n := by
      intro e'
      obtain ⟨pp, pch, hp, _⟩ := X.swf.up e n che hS0e
      rw [← e', hk] at hp; simp at hp
    have h3 : k ≠ e := by intro e'; rw [e', hS0e] at hk; simp at hk
    simp only [h1, if_false]
    by_cases h2 : k = bid e
    · simp [h2]
    · simp only [h2, h3, if_false]
      refine h.other k hk ?_
      intro c' hc'
      by_cases hce : c' = e
      · subst hce; exact h2
      · exact hne' c' ⟨hc', hce⟩

end Ptn.C09.Step
