import Ptn.C09.EnvModel
import Ptn.C17.HopFacts
/-! Cache algebra and the invariant "every block pointing toward the centre of the working copy is
in the cache with generation `old`". -/
namespace Ptn.C09.Env
open Ptn.C17 Ptn.C17.RTree

theorem lookup_map_set {ca : Cache} {b : Block} {g : Gen} (h : ca.any (fun e => e.1 == b) = true) :
    (ca.map (fun e => if e.1 == b then (b, g) else e)).lookup b = some g := by
  induction ca with
  | nil => simp at h
  | cons e rest ih =>
    obtain ⟨k, v⟩ := e
    by_cases hk : k = b
    · subst hk; simp [List.lookup]
    · have hb : (b == k) = false := by simpa using fun e => hk e.symm
      have hk' : (k == b) = false := by simpa using hk
      simp only [List.any_cons, hk', Bool.false_or] at h
      simp only [List.map_cons, hk', Bool.false_eq_true, if_false, List.lookup, hb]
      exact ih h

theorem lookup_append_new {ca : Cache} {b : Block} {g : Gen} (h : ca.any (fun e => e.1 == b) = false) :
    (ca ++ [(b, g)]).lookup b = some g := by
  induction ca with
  | nil => simp [List.lookup]
  | cons e rest ih =>
    obtain ⟨k, v⟩ := e
    simp only [List.any_cons, Bool.or_eq_false_iff] at h
    have hb : (b == k) = false := by
      have : ¬ k = b := by simpa using h.1
      simpa using fun e => this e.symm
    simp only [List.cons_append, List.lookup, hb]
    exact ih h.2

theorem get_set_same (ca : Cache) (b : Block) (g : Gen) : (ca.set b g).get b = some g := by
  simp only [Cache.get, Cache.set]
  by_cases h : ca.any (fun e => e.1 == b) = true
  · rw [if_pos h]; exact lookup_map_set h
  · rw [if_neg h]; exact lookup_append_new (Bool.eq_false_iff.mpr h)

theorem lookup_map_ne {b b' : Block} (g : Gen) (h : b' ≠ b) : ∀ (ca : Cache),
    (ca.map (fun e => if e.1 == b then (b, g) else e)).lookup b' = ca.lookup b'
  | [] => rfl
  | (k, v) :: rest => by
    have ih := lookup_map_ne g h rest
    by_cases hk : k = b
    · subst hk
      have hb : (b' == k) = false := by simpa using h
      simp only [List.map_cons, beq_self_eq_true, if_true, List.lookup, hb]
      exact ih
    · have hk' : (k == b) = false := by simpa using hk
      simp only [List.map_cons, hk', Bool.false_eq_true, if_false, List.lookup]
      cases (b' == k)
      · exact ih
      · rfl

theorem lookup_append_ne {b b' : Block} (g : Gen) (h : b' ≠ b) : ∀ (ca : Cache),
    (ca ++ [(b, g)]).lookup b' = ca.lookup b'
  | [] => by
    have hb : (b' == b) = false := by simpa using h
    simp [List.lookup, hb]
  | (k, v) :: rest => by
    have ih := lookup_append_ne g h rest
    simp only [List.cons_append, List.lookup]
    cases (b' == k) <;> simp [ih]

theorem get_set_ne (ca : Cache) {b b' : Block} (g : Gen) (h : b' ≠ b) :
    (ca.set b g).get b' = ca.get b' := by
  simp only [Cache.get, Cache.set]
  by_cases hany : ca.any (fun e => e.1 == b) = true
  · rw [if_pos hany]; exact lookup_map_ne g h ca
  · rw [if_neg hany]; exact lookup_append_ne g h ca

theorem get_del_ne : ∀ (ca : Cache) {b b' : Block}, b' ≠ b → (ca.del b).get b' = ca.get b'
  | [], _, _, _ => rfl
  | (k, v) :: rest, b, b', h => by
    have ih := get_del_ne rest h
    simp only [Cache.get, Cache.del] at ih ⊢
    by_cases hk : k = b
    · subst hk
      have hb : (b' == k) = false := by simpa using h
      have hkk : (k != k) = false := by simp
      simp only [List.filter_cons, hkk, Bool.false_eq_true, if_false, List.lookup, hb]
      exact ih
    · have hk' : (k != b) = true := by simpa using hk
      simp only [List.filter_cons, hk', if_true, List.lookup]
      cases (b' == k) <;> simp [ih]

/-- merging the `new` blocks of the children -/
theorem get_merge (c : Nat) : ∀ (kids : List Nat) (ca : Cache) (blk : Block),
    (kids.foldl (fun ca k => ca.set (k, c) Gen.new) ca).get blk =
      if blk ∈ kids.map (fun k => (k, c)) then some Gen.new else ca.get blk
  | [], ca, blk => by simp
  | k :: kids, ca, blk => by
    rw [List.foldl_cons, get_merge c kids]
    by_cases h1 : blk ∈ kids.map (fun k => (k, c))
    · have : blk ∈ (k :: kids).map (fun k => (k, c)) := by
        simp only [List.map_cons, List.mem_cons]; exact Or.inr h1
      rw [if_pos h1, if_pos this]
    · rw [if_neg h1]
      by_cases h2 : blk = (k, c)
      · subst h2
        rw [get_set_same, if_pos (by simp)]
      · have : blk ∉ (k :: kids).map (fun k => (k, c)) := by
          simp only [List.map_cons, List.mem_cons, not_or]; exact ⟨h2, h1⟩
        rw [get_set_ne _ _ h2, if_neg this]

/-- every block pointing toward `c` is cached with generation `old` -/
def CacheInv (t : RTree) (c : Nat) (ca : Cache) : Prop :=
  ∀ x h, x ∈ ids t → x ≠ c → firstHop t x c = some h → ca.get (x, h) = some Gen.old

/-- after the centre move `p → c`, the rebuild of `(p, c)` and the deletion of `(c, p)` -/
theorem cacheInv_descend {t : RTree} (hwf : t.WF) {p c : Nat} (hpc : Adj t p c) {ca : Cache}
    (h : CacheInv t p ca) : CacheInv t c ((ca.set (p, c) Gen.old).del (c, p)) := by
  intro x hh hx hxc hhop
  have hm := adj_mem hpc
  by_cases hxp : x = p
  · subst hxp
    rw [firstHop_adj hwf hpc] at hhop
    simp at hhop; subst hhop
    have hne : (x, c) ≠ (c, x) := by
      intro e; simp at e; exact hxc e.1
    rw [get_del_ne _ hne, get_set_same]
  · have hhp : firstHop t x p = some hh := by
      rw [← firstHop_adj_same hwf hpc hx hxp hxc]; exact hhop
    have hne1 : (x, hh) ≠ (c, p) := by intro e; simp at e; exact hxc e.1
    have hne2 : (x, hh) ≠ (p, c) := by intro e; simp at e; exact hxp e.1
    rw [get_del_ne _ hne1, get_set_ne _ _ hne2]
    exact h x hh hx hxp hhp

/-- the blocks `(z, p)` from the neighbours of the centre are `old` -/
theorem cacheInv_inputs {t : RTree} (hwf : t.WF) {p : Nat} {ca : Cache} (h : CacheInv t p ca)
    {zs : List Nat} (hz : ∀ z ∈ zs, Adj t p z) :
    readAll ca (zs.map fun z => (z, p)) = oldReads (zs.map fun z => (z, p)) := by
  simp only [readAll, oldReads, List.map_map]
  apply List.map_congr_left
  intro z hzm
  have hadj := hz z hzm
  have hm := adj_mem hadj
  simp only [Function.comp, Prod.mk.injEq, true_and]
  exact h z p hm.2 (fun e => adj_ne hwf hadj e.symm) (firstHop_adj hwf (adj_symm hadj))

end Ptn.C09.Env
