import Ptn.C09.Env
/-! Property theorems for the BUG environment sources (exported to C09). -/
namespace Ptn.C09.Env
open Ptn.C17 Ptn.C17.RTree

/-- what the property demands of a single event of the trace -/
def GoodEv : BEv → Prop
  | .init _ _ => True
  | .descend _ _ rs => ∀ r ∈ rs, r.2 = some Gen.old
  | .evolve c (some p) rs =>
      ∃ kids : List Nat, rs = ((p, c), some Gen.old) :: newReads (kids.map fun k => (k, c))
  | .evolve c none rs => ∃ kids : List Nat, rs = newReads (kids.map fun k => (k, c))
  | .build _ _ rs => ∀ r ∈ rs, r.2 = some Gen.new

def descendBlock : BEv → Option Block
  | .descend p c _ => some (p, c)
  | _ => none
def buildBlock : BEv → Option Block
  | .build c p _ => some (c, p)
  | _ => none
def evolveNode : BEv → Option Nat
  | .evolve c _ _ => some c
  | _ => none

theorem mem_oldReads {bs : List Block} {r : Read} (h : r ∈ oldReads bs) : r.2 = some Gen.old := by
  simp only [oldReads, List.mem_map] at h
  obtain ⟨b, _, rfl⟩ := h; rfl

theorem mem_newReads {bs : List Block} {r : Read} (h : r ∈ newReads bs) : r.2 = some Gen.new := by
  simp only [newReads, List.mem_map] at h
  obtain ⟨b, _, rfl⟩ := h; rfl

theorem ideal_good :
    (∀ s p nbP, ∀ e ∈ idealNode p nbP s, GoodEv e) ∧
    (∀ ks c nbC, ∀ e ∈ idealKids c nbC ks, GoodEv e) := by
  apply induct
  · intro c ks ih p nbP e he
    simp only [idealNode, List.mem_append, List.mem_cons, List.mem_singleton, List.not_mem_nil,
      or_false] at he
    rcases he with (rfl | he) | rfl | rfl
    · exact fun r hr => mem_oldReads hr
    · exact ih c _ e he
    · exact ⟨ks.map rid, rfl⟩
    · exact fun r hr => mem_newReads hr
  · intro c nbC e he; simp [idealKids] at he
  · intro k ks ihk ihks c nbC e he
    simp only [idealKids, List.mem_append] at he
    rcases he with he | he
    · exact ihk c nbC e he
    · exact ihks c nbC e he

theorem ideal_blocks :
    (∀ s p nbP, (idealNode p nbP s).filterMap descendBlock = (p, s.rid) :: edges s ∧
      (idealNode p nbP s).filterMap buildBlock = upKeys p s ∧
      (idealNode p nbP s).filterMap evolveNode = postorder s) ∧
    (∀ ks c nbC, (idealKids c nbC ks).filterMap descendBlock = edgesL c ks ∧
      (idealKids c nbC ks).filterMap buildBlock = upKeysL c ks ∧
      (idealKids c nbC ks).filterMap evolveNode = postorderL ks) := by
  apply induct
  · intro c ks ih p nbP
    obtain ⟨h1, h2, h3⟩ := ih c (p :: ks.map rid)
    simp [idealNode, List.filterMap_append, List.filterMap_cons, descendBlock, buildBlock,
      evolveNode, h1, h2, h3, rid]
  · intro c nbC; simp [idealKids]
  · intro k ks ihk ihks c nbC
    obtain ⟨h1, h2, h3⟩ := ihk c nbC
    obtain ⟨g1, g2, g3⟩ := ihks c nbC
    simp [idealKids, List.filterMap_append, h1, h2, h3, g1, g2, g3]

/-- **Environment sources.**  In one BUG step on any well-formed tree: at the local evolution of
    every non-root node `c` with parent `p` the block `(p, c)` read is `old` and the blocks `(k, c)`
    read (one per child) are `new`; at the root all blocks read are `new`; the rebuild of `(p, c)`
    reads only `old` blocks; the block handed to the parent is built from `new` blocks only; and no
    read fails (every read returns a block). -/
theorem bug_env_sources (t : RTree) (hwf : t.WF) : ∀ e ∈ bugRun t, GoodEv e := by
  rw [bug_trace_eq_ideal t hwf]
  cases t with
  | node r ks =>
    intro e he
    simp only [bugIdeal, List.mem_append, List.mem_cons, List.mem_singleton, List.not_mem_nil,
      or_false] at he
    rcases he with (rfl | he) | rfl
    · trivial
    · exact ideal_good.2 ks r _ e he
    · exact ⟨ks.map rid, rfl⟩

/-- **Isolation of the children's caches.**  `update_node(c)` rebuilds `(p, c)` from the cache of
    its parent's frame *as it was before the loop over the children*: all blocks it reads - among
    them the blocks `(s, p)` of the siblings `s` of `c` - are `old`; a `new` block of a sibling is
    never read.  (`bugRunEager` below merges inside the loop and does read one.) -/
theorem bug_child_cache_isolation (t : RTree) (hwf : t.WF) (p c : Nat) (rs : List Read)
    (h : BEv.descend p c rs ∈ bugRun t) : ∀ r ∈ rs, r.2 = some Gen.old :=
  bug_env_sources t hwf _ h

/-- **Every block is built exactly once, every node evolved exactly once.**  The blocks rebuilt
    on the way down are the edges `(parent, child)` in pre-order, each once; the `new` blocks handed
    upward are exactly the blocks created by `init_cache_but_one(root)` (`(child, parent)`, same
    order), each once; the local evolutions happen in post-order, each node once. -/
theorem bug_each_block_built_once (t : RTree) (hwf : t.WF) :
    (bugRun t).filterMap descendBlock = edges t ∧
    ((bugRun t).filterMap descendBlock).Nodup ∧
    cacheKeys t.rid t = some ((bugRun t).filterMap buildBlock) ∧
    ((bugRun t).filterMap buildBlock).Nodup ∧
    (bugRun t).filterMap evolveNode = postorder t ∧
    ((bugRun t).filterMap evolveNode).Nodup := by
  rw [bug_trace_eq_ideal t hwf]
  cases t with
  | node r ks =>
    obtain ⟨h1, h2, h3⟩ := ideal_blocks.2 ks r (ks.map rid)
    have e1 : (bugIdeal (node r ks)).filterMap descendBlock = edges (node r ks) := by
      unfold bugIdeal
      rw [List.filterMap_append, List.filterMap_append, h1]
      simp [List.filterMap_cons, descendBlock]
    have e2 : (bugIdeal (node r ks)).filterMap buildBlock = upKeysL r ks := by
      unfold bugIdeal
      rw [List.filterMap_append, List.filterMap_append, h2]
      simp [List.filterMap_cons, buildBlock]
    have e3 : (bugIdeal (node r ks)).filterMap evolveNode = postorder (node r ks) := by
      unfold bugIdeal
      rw [List.filterMap_append, List.filterMap_append, h3]
      simp [List.filterMap_cons, evolveNode]
    have hk : cacheKeys r (node r ks) = some (upKeysL r ks) := by simp [cacheKeys_node]
    have hednd : (edges (node r ks)).Nodup := by
      have := edges_unord_nodup (node r ks) hwf
      rw [List.nodup_iff_pairwise_ne] at this ⊢
      exact (List.pairwise_map.mp this).imp (fun hne e => hne (by rw [e]))
    have hknd : (upKeysL r ks).Nodup := by
      obtain ⟨hp, _⟩ := ((cacheKeys_spec r).1 (node r ks)).1 _ hk
      have hnd : ((upKeysL r ks).map (·.1) ++ [r]).Nodup := hp.symm.nodup hwf
      have hnd' := (List.nodup_append.mp hnd).1
      rw [List.nodup_iff_pairwise_ne] at hnd' ⊢
      exact (List.pairwise_map.mp hnd').imp (fun hne e => hne (by rw [e]))
    refine ⟨e1, e1 ▸ hednd, by rw [e2]; exact hk, e2 ▸ hknd, e3, ?_⟩
    rw [e3]
    exact (postorder_perm.1 (node r ks)).symm.nodup hwf

/-- **Freshness of the `old` blocks.**  The working copy of a non-root node `c` is obtained from the
    start state by moving the centre along the way from the root to `c`, rebuilding `(a, b)` after
    every hop `a → b`; in the cache-freshness machine of C05 (`Ptn.C05.Disc`) this sequence keeps
    "every block pointing toward the centre is fresh" after every hop - so the `old` block `(p, c)`
    and all other cached blocks toward `c` are valid for the gauge of the working copy. -/
theorem bug_old_blocks_fresh (t : RTree) (hwf : t.WF) (c : Nat) (hc : c ∈ ids t) :
    ∃ q, pathDown c t = some q ∧ Ptn.C05.Disc.OK t t.rid (Ptn.C05.Disc.movesAlong q) c := by
  obtain ⟨q, hq⟩ := pathDown_some_of_mem hc
  refine ⟨q, hq, ?_⟩
  obtain ⟨h1, h2⟩ := (pathDown_ends c).1 t q hq
  have hch := chain_mono (fun _ _ h => (Or.inl h : Adj t _ _)) ((pathDown_chain c).1 t q hq)
  cases q with
  | nil => simp at h1
  | cons a rest =>
    simp at h1; subst h1
    exact Ptn.C05.Disc.OK_moves hwf rest t.rid hch h2

/-! ### Non-vacuity -/

example : exTree.WF := by decide
example : (bugRun exTree).filterMap evolveNode = [3, 4, 1, 2, 7, 6, 5, 0] := by decide
example : BEv.evolve 1 (some 0) [((0, 1), some Gen.old), ((3, 1), some Gen.new), ((4, 1), some Gen.new)]
    ∈ bugRun exTree := by decide
example : BEv.descend 0 2 [((1, 0), some Gen.old), ((5, 0), some Gen.old)] ∈ bugRun exTree := by decide

mutual
/-- the variant the code avoids: the cache is updated inside the loop over the children -/
def eagerNode (p : Nat) (nbP : List Nat) (caP : Cache) : RTree → List BEv × Cache
  | node c ks =>
    let rebuildReads := readAll caP ((nbP.filter (fun z => z != c)).map fun z => (z, p))
    let ca1 := (caP.set (p, c) Gen.old).del (c, p)
    let (below, ca2) := eagerKids c (p :: ks.map rid) ca1 ks
    ([BEv.descend p c rebuildReads] ++ below ++
      [BEv.evolve c (some p) (readAll ca2 ((p, c) :: (ks.map rid).map fun k => (k, c)))],
     caP.set (c, p) Gen.new)
def eagerKids (c : Nat) (nbC : List Nat) (ca : Cache) : List RTree → List BEv × Cache
  | [] => ([], ca)
  | k :: ks =>
    let (tr1, ca1) := eagerNode c nbC ca k
    let (tr2, ca2) := eagerKids c nbC ca1 ks
    (tr1 ++ tr2, ca2)
end

/-- with the eager merge the second child of the root of `exTree` would rebuild `(0, 2)` from the
    `new` block of its sibling 1: the isolation theorem is not vacuous -/
example : BEv.descend 0 2 [((1, 0), some Gen.new), ((5, 0), some Gen.old)] ∈
    (eagerKids 0 [1, 2, 5] (((cacheKeys 0 exTree).getD []).map fun b => (b, Gen.old))
      exTree.kids).1 := by decide

end Ptn.C09.Env
