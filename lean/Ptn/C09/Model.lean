/-! Model for property C09 (core Lean only; no Mathlib). -/
namespace Ptn.C09
end Ptn.C09
