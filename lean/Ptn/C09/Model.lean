/-! Model for property C09 (BUG integrators): the recursion order of `root_update` /
`update_node` / `update_non_leaf_node` (`pytreenet/time_evolution/time_evo_util/common_bug.py`).
Core Lean only.

A tree is given with the children of every node in the order in which the recursion visits them
(the code iterates over a `frozenset` of the children, so that order is not fixed by the library;
the harness reads it off the observed run).

* `updates`  — the sequence of local Galerkin evolutions (one per node): for a node, first all
               children subtrees (recursively), then the node itself; the root last.
* `moves`    — the centre moves `parent → child` performed on the working copy before a child's
               update. -/
namespace Ptn.C09

mutual
inductive Tree where
  | node (id : Nat) (kids : Forest)
inductive Forest where
  | nil
  | cons (t : Tree) (f : Forest)
end

mutual
def Tree.ids : Tree → List Nat
  | .node id kids => id :: kids.ids
def Forest.ids : Forest → List Nat
  | .nil => []
  | .cons t f => t.ids ++ f.ids
end

def Tree.root : Tree → Nat
  | .node id _ => id

def Forest.roots : Forest → List Nat
  | .nil => []
  | .cons t f => t.root :: f.roots

mutual
/-- Order of the local evolutions. -/
def Tree.updates : Tree → List Nat
  | .node id kids => kids.updates ++ [id]
def Forest.updates : Forest → List Nat
  | .nil => []
  | .cons t f => t.updates ++ f.updates
end

mutual
/-- (parent, child) edges in the tree. -/
def Tree.edges : Tree → List (Nat × Nat)
  | .node id kids => kids.roots.map (fun c => (id, c)) ++ kids.edges
def Forest.edges : Forest → List (Nat × Nat)
  | .nil => []
  | .cons t f => t.edges ++ f.edges
end

mutual
/-- Centre moves on the working copies, in order of occurrence. -/
def Tree.moves : Tree → List (Nat × Nat)
  | .node id kids => kids.movesFrom id
def Forest.movesFrom (p : Nat) : Forest → List (Nat × Nat)
  | .nil => []
  | .cons t f => (p, t.root) :: (t.moves ++ f.movesFrom p)
end

end Ptn.C09
