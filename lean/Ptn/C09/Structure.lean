import Ptn.C02.CompositeWF
import Ptn.C02.TruncWF
/-! # The tree surgery of a BUG step on the structural TTN model of C02 (core Lean only)

`root_update` / `update_node` (`pytreenet/time_evolution/time_evo_util/common_bug.py`) edit `new_state` with

* `bugPull c perm`   = `pull_tensor_from_different_ttn(current_state, new_state, c, …)`:
                       `new_state.replace_tensor(c, tensor, perm)` (the axes of the centre tensor of the working
                       copy are those of the node; `perm` is `relative_leg_permutation`);
* `bugAbsorbOne p b` = one iteration `contract_nodes(p, b, new_identifier=p)` of
                       `new_state.contract_all_children(p)` (`b` = a basis-change node below `p`);
* `access c`         = the tensor reads of `single_site_time_evolution` / `contract_any` / `contract_leaf`;
* `bugSplit c b bd`  = `new_state.split_node_replace(c, M, Q, c_basis_change_tensor, c,
                       LegSpecification(parent, [], []), LegSpecification(None, children, open_legs))`:
                       OUT node `b` (parent leg only, the basis-change tensor `M`), IN node keeps the identifier
                       `c`, the children and the open legs (`Q`); `bd` = dimension of the new bond = the new rank.
                       (For a leaf the code passes the literal open-leg list `[1]`, which is `open_legs` of the
                       only leaves `update_leaf_node` supports - its QR call has the legs `(1,), (0,)`.)
* `bugStore r`       = `new_state.replace_tensor(root, updated_tensor)`.

`bugBasisUp c b bd` = `bugSplit c b bd` followed at once by `bugAbsorbOne parent b`. -/
namespace Ptn.C09
open Ptn.C02 Ptn.C02.NodeS

def bugSplit (t : TTN) (c b : Id) (bd : Nat) : Option TTN := do
  let node ← dget t.nodes c
  let p ← node.parent                                   -- `assert not is_root()` / `LegSpecification(parent_id, …)`
  t.splitNodes c ⟨some p, [], [], false⟩ ⟨none, node.children, TTN.openIdx node, false⟩ b c bd

def bugAbsorbOne (t : TTN) (p b : Id) : Option TTN := t.contractNodes p b p

def bugBasisUp (t : TTN) (c b : Id) (bd : Nat) : Option TTN := do
  let node ← dget t.nodes c
  let p ← node.parent
  let t1 ← bugSplit t c b bd
  bugAbsorbOne t1 p b

theorem pick_nil (L : Tensor) : pick L [] = [] := by simp [pick]

/-- A split whose IN side keeps the identifier and all open legs, while the (new) OUT side gets no open leg,
    leaves the open axes of every node unchanged. -/
theorem split_open_same_in {t t' : TTN} {id : Id} {X : NodeS} {outL inL : TTN.LegSpec} {outId : Id} {bd : Nat}
    (h : t.WF) (adm : SplitAdm t id X outL inL outId id) (hout : t.N outId = none)
    (hi : inL.openLegs = TTN.openIdx X) (ho : outL.openLegs = [])
    (hs : t.splitNodes id outL inL outId id bd = some t') : ∀ k, t'.openAxes k = t.openAxes k := by
  obtain ⟨a, b, _, _, L, hcfg, _, hlogL, _, _, _, _, so, si, _, _, sby⟩ := split_labels h adm hs
  have hXN := adm.node
  have hLl : L.length = X.nlegs := by
    obtain ⟨L', hL', hl⟩ := logical_some h hXN
    rw [hlogL] at hL'; simp at hL'; subst hL'
    exact hl
  intro k
  by_cases k1 : k = id
  · rw [k1, si, hi, pick_openIdx hLl (h.node id X hXN).virt, openAxes_eq hXN hlogL]
  · by_cases k2 : k = outId
    · rw [k2, so, ho, openAxes_none hout]; exact pick_nil L
    · have : k ≠ a ∧ k ≠ b := by
        rcases hcfg with ⟨e1, e2, _⟩ | ⟨e1, e2, _⟩
        · rw [e1, e2]; exact ⟨k2, k1⟩
        · rw [e1, e2]; exact ⟨k1, k2⟩
      exact (sby k this.1 this.2 k1).2

/-- **`split_node_replace` of a BUG step** on a non-root node `c` with parent `p`: the basis-change node `b`
    takes the place of `c` below `p` and has the single child `c`; `c` keeps its children (same list) and its open
    legs; well-formedness, label invariant and all open axes are kept. -/
theorem bug_split_full {P : Prop} {O : Id → List Axis} {t t1 : TTN} {c b p : Id} {C : NodeS} {bd : Nat}
    (hx : t.WFX P O) (hC : t.N c = some C) (hp : C.parent = some p) (hl : t.N b = none)
    (hs : t.splitNodes c ⟨some p, [], [], false⟩ ⟨none, C.children, TTN.openIdx C, false⟩ b c bd = some t1) :
    t1.WFX P O ∧ t1.S = splitS t.S c b c (some p) [] C.children ∧ t1.root = t.root := by
  have h := hx.wf
  have adm : SplitAdm t c C ⟨some p, [], [], false⟩ ⟨none, C.children, TTN.openIdx C, false⟩ b c := by
    refine ⟨hC, Or.inr hl, Or.inl rfl, by simp, ?_⟩
    exact Or.inl ⟨p, hp, rfl, rfl, Or.inl ⟨rfl, rfl⟩⟩
  refine ⟨⟨split_nodes_wf_aux h adm hs, fun hq => split_lwf h (hx.lwf hq) adm hs,
    fun hq k => (split_open_same_in h adm hl rfl rfl hs k).trans (hx.op hq k)⟩, ?_⟩
  obtain ⟨a', b', aCh, bCh, hcfg, hS, hR⟩ := split_S_eq h adm hs
  rcases hcfg with ⟨rfl, rfl, rfl, rfl, _⟩ | ⟨_, _, _, _, hc⟩
  · refine ⟨by rw [hS, hp], ?_⟩
    rw [hR, hp]; simp
  · simp at hc

/-- The legs after `split_node_replace` of a BUG step: the basis-change node `b` has exactly two legs - the old
    parent leg of `c` (same axis: label and dimension) and the new bond `⟨fresh label, bd⟩` to `c`; `c` has the
    new bond toward `b` and, toward every child, the leg it had. -/
theorem bug_split_legs {t t1 : TTN} {c b p : Id} {C : NodeS} {bd : Nat}
    (h : t.WF) (hC : t.N c = some C) (hp : C.parent = some p) (hl : t.N b = none)
    (hs : t.splitNodes c ⟨some p, [], [], false⟩ ⟨none, C.children, TTN.openIdx C, false⟩ b c bd = some t1) :
    (∀ x ax, t1.Leg b x ax ↔ ((x = c ∧ ax = ⟨t.nextLabel, bd⟩) ∨ (x = p ∧ t.Leg c x ax))) ∧
    (∀ x ax, t1.Leg c x ax ↔ ((x = b ∧ ax = ⟨t.nextLabel, bd⟩) ∨ (x ∈ C.children ∧ t.Leg c x ax))) := by
  have adm : SplitAdm t c C ⟨some p, [], [], false⟩ ⟨none, C.children, TTN.openIdx C, false⟩ b c := by
    refine ⟨hC, Or.inr hl, Or.inl rfl, by simp, ?_⟩
    exact Or.inl ⟨p, hp, rfl, rfl, Or.inl ⟨rfl, rfl⟩⟩
  obtain ⟨a', b', aCh, bCh, L, hcfg, hab, _, _, _, ca, cb, _⟩ := split_labels h adm hs
  obtain ⟨_, S1, _⟩ := bug_split_full (TTN.WFX.ofWF h) hC hp hl hs
  have hbc : b ≠ c := by intro e; rw [e, hC] at hl; simp at hl
  rcases hcfg with ⟨e1, e2, e3, e4⟩ | ⟨e1, e2, e3, e4⟩ <;> subst a' b' aCh bCh
  · refine ⟨?_, cb⟩
    intro x ax
    rw [ca x ax, hp]
    constructor
    · rintro (h1 | ⟨h1 | h1, h2⟩)
      · exact Or.inl h1
      · exact Or.inr ⟨(Option.some.inj h1).symm, h2⟩
      · simp at h1
    · rintro (h1 | ⟨h1, h2⟩)
      · exact Or.inl h1
      · exact Or.inr ⟨Or.inl (by rw [h1]), h2⟩
  · -- the other configuration would leave `c` with a leg toward `p`, which is not a neighbour of `c` any more
    exfalso
    obtain ⟨ax0, hax0⟩ := leg_exists h hC (x := p) (by rw [mem_neighbours]; exact Or.inl hp)
    have h1 : t1.Leg c p ax0 := (ca p ax0).mpr (Or.inr ⟨Or.inl hp, hax0⟩)
    have hS1c : t1.S c = some (some b, C.children) := by
      have hcb : ¬ c = b := fun e => hbc e.symm
      rw [S1]; simp [splitS, hcb]
    obtain ⟨n1, hn1, en1⟩ := TTN.N_of_S hS1c
    simp only [Prod.mk.injEq] at en1
    have hmem := leg_neighbour hn1 h1
    rw [mem_neighbours, ← en1.1, ← en1.2] at hmem
    obtain ⟨B, hB, hBm⟩ := parent_node h hC hp
    rcases hmem with e | e
    · have : b = p := Option.some.inj e
      rw [this, hB] at hl; simp at hl
    · obtain ⟨cch, hcc⟩ := h.str.down c _ _ p (TTN.S_eq hC) e
      exact h.str.no_two_cycle (a := c) (b := p) (by rw [TTN.S_eq hC, hp]) hcc

/-- `bugSplit` in terms of the node it finds. -/
theorem bugSplit_eq {t t1 : TTN} {c b : Id} {bd : Nat} (hs : bugSplit t c b bd = some t1) :
    ∃ C p, t.N c = some C ∧ C.parent = some p ∧
      t.splitNodes c ⟨some p, [], [], false⟩ ⟨none, C.children, TTN.openIdx C, false⟩ b c bd = some t1 := by
  unfold bugSplit at hs
  cases hC : dget t.nodes c with
  | none => simp [hC, bind, Option.bind] at hs
  | some C =>
    simp only [hC, bind, Option.bind] at hs
    cases hp : C.parent with
    | none => simp [hp] at hs
    | some p =>
      simp only [hp] at hs
      exact ⟨C, p, hC, hp, hs⟩

/-- **Basis update of one node followed by the absorption of its basis-change tensor into the parent**:
    `c` becomes the LAST child of its parent, nothing else changes in the structure; well-formedness, label
    invariant and the open axes of every node are kept (the new bond dimension `bd` is arbitrary). -/
theorem bug_basis_up_full {P : Prop} {O : Id → List Axis} {t t' : TTN} {c b : Id} {bd : Nat}
    (hx : t.WFX P O) (hl : t.N b = none) (hs : bugBasisUp t c b bd = some t') :
    t'.WFX P O ∧ t'.root = t.root ∧ ∃ C p, t.N c = some C ∧ C.parent = some p ∧ t'.S = demoteS t.S p c := by
  have h := hx.wf
  have hOl : P → O b = [] := fun hq => by rw [← hx.op hq b]; exact openAxes_none hl
  unfold bugBasisUp at hs
  cases hC : dget t.nodes c with
  | none => simp [hC, bind, Option.bind] at hs
  | some C =>
    have hCN : t.N c = some C := hC
    simp only [hC, bind, Option.bind] at hs
    cases hp : C.parent with
    | none => simp [hp] at hs
    | some p =>
      simp only [hp] at hs
      cases hs1 : bugSplit t c b bd with
      | none => simp [hs1] at hs
      | some t1 =>
        simp only [hs1] at hs
        obtain ⟨C', p', hC', hp', hsp⟩ := bugSplit_eq hs1
        rw [hCN] at hC'; simp at hC'; subst hC'
        rw [hp] at hp'; simp at hp'; subst hp'
        obtain ⟨w1, S1, R1⟩ := bug_split_full hx hCN hp hl hsp
        obtain ⟨B, hB, _⟩ := parent_node h hCN hp
        unfold bugAbsorbOne at hs
        obtain ⟨w', R', S'⟩ := contract_link_up h w1 hOl hCN hB hp hl S1 R1 (Or.inr ⟨rfl, rfl⟩) hs
        have hne : ¬ p = b := by intro e; rw [e, hl] at hB; simp at hB
        simp only [hne, if_false] at S'
        exact ⟨w', R', C, p, hCN, hp, S'⟩

/-- `replace_tensor` with the node's own axes (any storage permutation) keeps the structure. -/
theorem rtp_S_eq {t t' : TTN} {id : Id} {q : Option (List Nat)} (hs : t.replaceTensorPermuted id q = some t') :
    t'.S = t.S ∧ t'.root = t.root := by
  have key : ∀ (newT : Tensor) (pp : Option (List Nat)), t.replaceTensor id newT pp = some t' →
      t'.S = t.S ∧ t'.root = t.root := by
    intro newT pp hr
    unfold TTN.replaceTensor at hr
    cases hn : dget t.nodes id with
    | none => simp [hn, bind, Option.bind] at hr
    | some node =>
      simp only [hn, bind, Option.bind] at hr
      cases hn' : node.replaceTensor (shapeOf newT) pp with
      | none => simp [hn'] at hr
      | some node' =>
        simp only [hn', Option.some.injEq] at hr
        subst hr
        refine ⟨?_, rfl⟩
        have hst : structOf node' = structOf node := by
          unfold NodeS.replaceTensor at hn'
          cases pp with
          | none =>
            simp only at hn'
            split at hn'
            · simp at hn'; subst hn'; simp [structOf, resetPermutation]
            · simp at hn'
          | some pl =>
            simp only at hn'
            split at hn'
            · simp at hn'
            · split at hn'
              · simp at hn'; subst hn'; simp [structOf]
              · simp at hn'
        funext k
        simp only [TTN.S, TTN.N, dget_dset]
        by_cases hk : k = id
        · subst hk; simp [hn, hst]
        · simp [hk]
  unfold TTN.replaceTensorPermuted at hs
  cases hl : t.logical id with
  | none => simp [hl, bind, Option.bind] at hs
  | some cur =>
    simp only [hl, bind, Option.bind] at hs
    cases q with
    | none => exact key _ _ hs
    | some pl =>
      simp only at hs
      split at hs
      · simp at hs
      · split at hs
        · simp at hs
        · exact key _ _ hs

theorem rtp_wfx {P : Prop} {O : Id → List Axis} {t t' : TTN} {id : Id} {q : Option (List Nat)} (hx : t.WFX P O)
    (hq : ∀ l, q = some l → l.Perm (List.range l.length))
    (hs : t.replaceTensorPermuted id q = some t') : t'.WFX P O :=
  ⟨rtp_wf_aux hx.wf hq hs, fun hp => rtp_lwf hx.wf (hx.lwf hp) hq hs,
    fun hp k => ((rtp_labels hx.wf hq hs k).2.2).trans (hx.op hp k)⟩

/-! ### runs -/

/-- The edits of a BUG step, the absorption of every basis-change tensor taken together with the split that
    creates it. -/
inductive BugEvent where
  | pull (c : Id) (perm : Option (List Nat))
  | access (c : Id)
  | basisUp (c b : Id) (bd : Nat)
  | store (r : Id)

def bugEvent (t : TTN) : BugEvent → Option TTN
  | .pull c q => t.replaceTensorPermuted c q
  | .access c => (t.access c).map (·.1)
  | .basisUp c b bd => bugBasisUp t c b bd
  | .store r => t.replaceTensorPermuted r none

/-- What the library guarantees of the arguments: the basis-change identifier is unused when it is taken
    (`basis_change_tensor_id`), `relative_leg_permutation` returns a permutation. -/
def BugEvent.Adm (t : TTN) : BugEvent → Prop
  | .pull _ q => ∀ l, q = some l → l.Perm (List.range l.length)
  | .access _ => True
  | .basisUp _ b _ => t.N b = none
  | .store _ => True

inductive BugRun : TTN → List BugEvent → TTN → Prop
  | nil (t : TTN) : BugRun t [] t
  | cons {t t1 t' : TTN} {e : BugEvent} {es : List BugEvent} :
      e.Adm t → bugEvent t e = some t1 → BugRun t1 es t' → BugRun t (e :: es) t'

theorem bug_event_structure {P : Prop} {O : Id → List Axis} {t t' : TTN} (hx : t.WFX P O) (e : BugEvent)
    (hf : e.Adm t) (hs : bugEvent t e = some t') :
    t'.WFX P O ∧ t'.root = t.root ∧ TreeEq t.S t'.S := by
  have h := hx.wf
  cases e with
  | pull c q =>
    obtain ⟨S1, R1⟩ := rtp_S_eq hs
    exact ⟨rtp_wfx hx hf hs, R1, by rw [S1]; exact TreeEq.refl _⟩
  | access id =>
    simp only [bugEvent] at hs
    cases ha : t.access id with
    | none => simp [ha] at hs
    | some r =>
      obtain ⟨t1, T⟩ := r
      simp [ha] at hs; subst hs
      obtain ⟨S1, R1⟩ := access_S_eq ha
      exact ⟨access_wfx hx ha, R1, by rw [S1]; exact TreeEq.refl _⟩
  | basisUp c b bd =>
    obtain ⟨w, R, C, p, hC, hp, S'⟩ := bug_basis_up_full hx hf hs
    refine ⟨w, R, ?_⟩
    rw [S']
    apply treeEq_demote
    intro pp ch hs'
    obtain ⟨Tn, hT, hm⟩ := parent_node h hC hp
    rw [TTN.S_eq hT] at hs'; simp at hs'; rw [← hs'.2]; exact hm
  | store r =>
    have hs' : t.replaceTensorPermuted r none = some t' := hs
    obtain ⟨S1, R1⟩ := rtp_S_eq hs'
    exact ⟨rtp_wfx hx (fun l hl => by cases hl) hs', R1, by rw [S1]; exact TreeEq.refl _⟩

theorem bug_run_wfx {P : Prop} {O : Id → List Axis} {t t' : TTN} {es : List BugEvent} (hx : t.WFX P O)
    (hr : BugRun t es t') : t'.WFX P O ∧ t'.root = t.root ∧ TreeEq t.S t'.S := by
  induction hr with
  | nil => exact ⟨hx, rfl, TreeEq.refl _⟩
  | cons hf hs _ ih =>
    obtain ⟨w1, R1, E1⟩ := bug_event_structure hx _ hf hs
    obtain ⟨w2, R2, E2⟩ := ih w1
    exact ⟨w2, R2.trans R1, E1.trans E2⟩

end Ptn.C09
