import Ptn.C17.Model
/-! BUG environment sources (`pytreenet/time_evolution/time_evo_util/common_bug.py`): which
*generation* of tensors every cached environment block read during one BUG step was built from.
Core Lean only (imported by the C17 driver).

A block `(a, b)` is `partial_tree_cache.get_entry(a, b)`: the subtree behind `a` seen from `b`.
Generations: `old` - built from the tensors of the state at the start of the step (on a working
copy whose centre was moved; the moves only re-gauge the tensors on the way), `new` - built from the
updated basis tensors of the subtree behind `a`.

The machine follows the code with explicit caches (association lists block ↦ generation):
* `root_update`: `init_cache_but_one(root)` - all blocks toward the root, `old`; loop over the
  children (each `update_node` gets the *same* cache: `current_cache.update(...)` happens after the
  loop); merge the returned child blocks (`new`); local evolution of the root.
* `update_node(c)` with parent `p`: copy the cache of `p`, move the centre `p → c` on the copy,
  `update_tree_cache(p, c)` (reads `(z, p)`, `z ≠ c`; result `old`), delete `(c, p)`; loop over the
  children of `c` (each gets this cache); merge their `new` blocks; local evolution of `c` (reads
  `(p, c)` and all `(k, c)`); `contract_any(c, basis_change(c), …)` / `contract_leaf` builds the
  `new` block `(c, p)` (reads all `(k, c)`) which is returned to `p`.
Reads are recorded with what the cache returns (`none` = `KeyError`). -/
namespace Ptn.C09.Env
open Ptn.C17 Ptn.C17.RTree

inductive Gen where
  | old
  | new
deriving Repr, DecidableEq

abbrev Block := Nat × Nat
abbrev Cache := List (Block × Gen)
abbrev Read := Block × Option Gen

def Cache.get (ca : Cache) (b : Block) : Option Gen := ca.lookup b

/-- dict assignment -/
def Cache.set (ca : Cache) (b : Block) (g : Gen) : Cache :=
  if ca.any (fun e => e.1 == b) then ca.map (fun e => if e.1 == b then (b, g) else e)
  else ca ++ [(b, g)]

def Cache.del (ca : Cache) (b : Block) : Cache := ca.filter (fun e => e.1 != b)

def readAll (ca : Cache) (bs : List Block) : List Read := bs.map fun b => (b, ca.get b)

inductive BEv where
  /-- `init_cache_but_one(root)`: the blocks created -/
  | init (root : Nat) (blocks : List Block)
  /-- `update_node(c)`: cache copy, centre move `p → c`, `update_tree_cache(p, c)` with its reads,
      deletion of `(c, p)` -/
  | descend (p c : Nat) (reads : List Read)
  /-- local evolution of node `c` (`parent = none` for the root) with the blocks it reads -/
  | evolve (c : Nat) (parent : Option Nat) (reads : List Read)
  /-- the `new` block `(c, p)` handed to the parent, with the blocks it is built from -/
  | build (c p : Nat) (reads : List Read)
deriving Repr, DecidableEq

mutual
/-- `update_node(c)` for `c` = root of the given subtree, child of `p`; `nbP` = neighbours of `p`,
    `caP` = cache of the frame of `p` at the time of the call -/
def updNode (p : Nat) (nbP : List Nat) (caP : Cache) : RTree → List BEv
  | node c ks =>
    let rebuildReads := readAll caP ((nbP.filter (fun z => z != c)).map fun z => (z, p))
    let ca1 := (caP.set (p, c) Gen.old).del (c, p)
    let below := updKids c (p :: ks.map rid) ca1 ks
    let ca2 := (ks.map rid).foldl (fun ca k => ca.set (k, c) Gen.new) ca1
    [BEv.descend p c rebuildReads] ++ below ++
      [BEv.evolve c (some p) (readAll ca2 ((p, c) :: (ks.map rid).map fun k => (k, c))),
       BEv.build c p (readAll ca2 ((ks.map rid).map fun k => (k, c)))]
/-- the loop over the children: every child gets the same cache -/
def updKids (c : Nat) (nbC : List Nat) (ca : Cache) : List RTree → List BEv
  | [] => []
  | k :: ks => updNode c nbC ca k ++ updKids c nbC ca ks
end

/-- `root_update` -/
def bugRun : RTree → List BEv
  | node r ks =>
    let blocks := (cacheKeys r (node r ks)).getD []
    let ca0 : Cache := blocks.map fun b => (b, Gen.old)
    let below := updKids r (ks.map rid) ca0 ks
    let ca1 := (ks.map rid).foldl (fun ca k => ca.set (k, r) Gen.new) ca0
    [BEv.init r blocks] ++ below ++
      [BEv.evolve r none (readAll ca1 ((ks.map rid).map fun k => (k, r)))]

/-! ### What the property says the reads are -/

def oldReads (bs : List Block) : List Read := bs.map fun b => (b, some Gen.old)
def newReads (bs : List Block) : List Read := bs.map fun b => (b, some Gen.new)

mutual
/-- the trace with the generations *as the property states them*: parent side `old`, child side
    `new` -/
def idealNode (p : Nat) (nbP : List Nat) : RTree → List BEv
  | node c ks =>
    [BEv.descend p c (oldReads ((nbP.filter (fun z => z != c)).map fun z => (z, p)))] ++
      idealKids c (p :: ks.map rid) ks ++
      [BEv.evolve c (some p) ((( p, c), some Gen.old) :: newReads ((ks.map rid).map fun k => (k, c))),
       BEv.build c p (newReads ((ks.map rid).map fun k => (k, c)))]
def idealKids (c : Nat) (nbC : List Nat) : List RTree → List BEv
  | [] => []
  | k :: ks => idealNode c nbC k ++ idealKids c nbC ks
end

def bugIdeal : RTree → List BEv
  | node r ks =>
    [BEv.init r ((cacheKeys r (node r ks)).getD [])] ++ idealKids r (ks.map rid) ks ++
      [BEv.evolve r none (newReads ((ks.map rid).map fun k => (k, r)))]

/-! ### Printing (driver query `bugenv`) -/

def showGen : Option Gen → String
  | some .old => "old"
  | some .new => "new"
  | none => "missing"

def showReads (rs : List Read) : String :=
  " ".intercalate (rs.map fun r => s!"{r.1.1}>{r.1.2}:{showGen r.2}")

def showBEv : BEv → String
  | .init r bs => s!"init {r} " ++ " ".intercalate (bs.map fun b => s!"{b.1}>{b.2}")
  | .descend p c rs => s!"descend {p}>{c} " ++ showReads rs
  | .evolve c _ rs => s!"evolve {c} " ++ showReads rs
  | .build c p rs => s!"build {c}>{p} " ++ showReads rs

end Ptn.C09.Env
