import Ptn.C09.Model
/-! Property theorems for C09. Only property theorems and non-vacuity examples live here. -/
namespace Ptn.C09
end Ptn.C09
