import Ptn.C09.Model
import Ptn.C09.EnvProps
import Ptn.C09.GaugeLemmas
import Ptn.C03.Tree
import Ptn.C09.Structure
import Ptn.C10.Props
import Ptn.C10.Tree
import Ptn.Common.AnalysisLocal
import Ptn.Common.AnalysisProj
/-! Property theorems for C09 (BUG): recursion order — children before parents, every node once,
root last — for every tree; the conservation consequences are instances of the local-flow
theorems of `Ptn.Analysis` (the final Galerkin step is an exact flow with an isometric embedding
whose range contains the old state because every new basis contains the old one). -/
namespace Ptn.C09

mutual
theorem Tree.updates_perm : (t : Tree) → t.updates.Perm t.ids
  | .node id kids => by
    simp only [Tree.updates, Tree.ids]
    exact (List.perm_append_comm.trans (List.Perm.cons id (Forest.updates_perm kids)))
theorem Forest.updates_perm : (f : Forest) → f.updates.Perm f.ids
  | .nil => by simp [Forest.updates, Forest.ids]
  | .cons t f => by
    simp only [Forest.updates, Forest.ids]
    exact List.Perm.append (Tree.updates_perm t) (Forest.updates_perm f)
end

/-- Every node is evolved exactly once per step (when identifiers are distinct). -/
theorem updates_nodup (t : Tree) (h : t.ids.Nodup) : t.updates.Nodup :=
  (List.Perm.nodup_iff (Tree.updates_perm t)).mpr h

/-- The root is evolved last. -/
theorem root_last (t : Tree) : t.updates.getLast? = some t.root := by
  cases t with
  | node id kids => simp [Tree.updates, Tree.root]

mutual
theorem Tree.root_mem_updates : (t : Tree) → t.root ∈ t.updates
  | .node id kids => by simp [Tree.updates, Tree.root]
end

theorem Forest.roots_subset_updates : (f : Forest) → ∀ c ∈ f.roots, c ∈ f.updates
  | .nil => by simp [Forest.roots]
  | .cons t f => by
    intro c hc
    simp only [Forest.roots, List.mem_cons] at hc
    simp only [Forest.updates, List.mem_append]
    rcases hc with rfl | hc
    · exact Or.inl (Tree.root_mem_updates t)
    · exact Or.inr (Forest.roots_subset_updates f c hc)

mutual
/-- **Children before parents**: for every edge (p, c) of the tree, `c` is evolved strictly before
    `p`: the update list splits as `… c … p …`. -/
theorem Tree.child_before_parent : (t : Tree) → ∀ e ∈ t.edges,
    ∃ l1 l2 l3, t.updates = l1 ++ [e.2] ++ l2 ++ [e.1] ++ l3
  | .node id kids => by
    intro e he
    simp only [Tree.edges, List.mem_append, List.mem_map] at he
    rcases he with ⟨c, hc, rfl⟩ | he
    · have hmem := Forest.roots_subset_updates kids c hc
      obtain ⟨a, b, hab⟩ := List.append_of_mem hmem
      refine ⟨a, b, [], ?_⟩
      simp [Tree.updates, hab]
    · obtain ⟨l1, l2, l3, h⟩ := Forest.child_before_parent kids e he
      refine ⟨l1, l2, l3 ++ [id], ?_⟩
      simp [Tree.updates, h]
theorem Forest.child_before_parent : (f : Forest) → ∀ e ∈ f.edges,
    ∃ l1 l2 l3, f.updates = l1 ++ [e.2] ++ l2 ++ [e.1] ++ l3
  | .nil => by simp [Forest.edges]
  | .cons t f => by
    intro e he
    simp only [Forest.edges, List.mem_append] at he
    rcases he with he | he
    · obtain ⟨l1, l2, l3, h⟩ := Tree.child_before_parent t e he
      exact ⟨l1, l2, l3 ++ f.updates, by simp [Forest.updates, h]⟩
    · obtain ⟨l1, l2, l3, h⟩ := Forest.child_before_parent f e he
      exact ⟨t.updates ++ l1, l2, l3, by simp [Forest.updates, h]⟩
end

mutual
/-- The centre moves are exactly the tree edges, each once, parent → child. -/
theorem Tree.moves_perm : (t : Tree) → t.moves.Perm t.edges
  | .node id kids => by
    simp only [Tree.moves, Tree.edges]
    exact Forest.movesFrom_perm id kids
theorem Forest.movesFrom_perm (p : Nat) : (f : Forest) →
    (f.movesFrom p).Perm (f.roots.map (fun c => (p, c)) ++ f.edges)
  | .nil => by simp [Forest.movesFrom, Forest.roots, Forest.edges]
  | .cons t f => by
    simp only [Forest.movesFrom, Forest.roots, Forest.edges, List.map_cons, List.cons_append]
    apply List.Perm.cons
    have h1 := Tree.moves_perm t
    have h2 := Forest.movesFrom_perm p f
    refine (List.Perm.append h1 h2).trans ?_
    -- t.edges ++ (roots ++ f.edges) ~ roots ++ (t.edges ++ f.edges)
    rw [← List.append_assoc, ← List.append_assoc]
    exact List.Perm.append_right _ List.perm_append_comm
end

/-! ### Conservation consequences (instances of `Ptn.Analysis`) -/

open Matrix in
/-- Rank-adaptive BUG, Galerkin step at the root: with `E` the (isometric) embedding given by all
    new bases and `K = EᴴHE`, evolving the root tensor with `exp(-i t K)` conserves the norm of the
    represented state. -/
theorem galerkin_conserves_norm {N d : Type} [Fintype N] [Fintype d] [DecidableEq N] [DecidableEq d]
    (E : Matrix N d ℂ) (H : Matrix N N ℂ) (hE : Eᴴ * E = 1) (hH : Hᴴ = H) (t : ℝ) (φ : d → ℂ) :
    star (E *ᵥ (NormedSpace.exp ((-Complex.I * t) • (Eᴴ * H * E)) *ᵥ φ)) ⬝ᵥ
        (E *ᵥ (NormedSpace.exp ((-Complex.I * t) • (Eᴴ * H * E)) *ᵥ φ)) =
      star (E *ᵥ φ) ⬝ᵥ (E *ᵥ φ) :=
  Ptn.Analysis.local_flow_norm E H hE hH t φ

open Matrix in
/-- … and the energy. -/
theorem galerkin_conserves_energy {N d : Type} [Fintype N] [Fintype d] [DecidableEq N] [DecidableEq d]
    (E : Matrix N d ℂ) (H : Matrix N N ℂ) (hH : Hᴴ = H) (t : ℝ) (φ : d → ℂ) :
    star (E *ᵥ (NormedSpace.exp ((-Complex.I * t) • (Eᴴ * H * E)) *ᵥ φ)) ⬝ᵥ
        (H *ᵥ (E *ᵥ (NormedSpace.exp ((-Complex.I * t) • (Eᴴ * H * E)) *ᵥ φ))) =
      star (E *ᵥ φ) ⬝ᵥ (H *ᵥ (E *ᵥ φ)) :=
  Ptn.Analysis.local_flow_energy E H hH t φ

open Matrix in
/-- Rank-adaptive BUG: every new basis contains the old one (it is an orthonormal basis of the span
    of the old basis and the evolved one, i.e. `Eold = Enew * M` with `M` the basis-change
    tensor), so the Galerkin initial value `Enewᴴ ψ` represents the old state exactly. -/
theorem augmented_basis_reproduces_state {N d d' : Type} [Fintype N] [Fintype d] [Fintype d']
    [DecidableEq d'] (Enew : Matrix N d' ℂ) (Eold : Matrix N d ℂ) (M : Matrix d' d ℂ)
    (hE : Enewᴴ * Enew = 1) (hM : Eold = Enew * M) (φ : d → ℂ) :
    Enew *ᵥ (Enewᴴ *ᵥ (Eold *ᵥ φ)) = Eold *ᵥ φ :=
  Ptn.Analysis.galerkin_initial_value_of_factor Enew Eold M hE hM φ

open Matrix in
/-- Fixed-rank BUG: projecting onto the new bases and evolving with the projected Hamiltonian never
    increases the norm. -/
theorem fixed_rank_step_nonexpansive {N d : Type} [Fintype N] [Fintype d] [DecidableEq N]
    [DecidableEq d] (E : Matrix N d ℂ) (H : Matrix N N ℂ) (hE : Eᴴ * E = 1) (hH : Hᴴ = H) (t : ℝ)
    (ψ : N → ℂ) :
    RCLike.re (star (E *ᵥ (NormedSpace.exp ((-Complex.I * (t : ℂ)) • (Eᴴ * H * E)) *ᵥ (Eᴴ *ᵥ ψ))) ⬝ᵥ
        (E *ᵥ (NormedSpace.exp ((-Complex.I * (t : ℂ)) • (Eᴴ * H * E)) *ᵥ (Eᴴ *ᵥ ψ))))
      ≤ RCLike.re (star ψ ⬝ᵥ ψ) :=
  Ptn.Analysis.fixed_rank_step_nonexpansive E H hE hH t ψ

/-! ### Gauge: the returned state is canonical at the root (both variants, every tree)

The machine of `GaugeModel.lean` follows `root_update` / `update_node` event by event; `fixed` is
`bug_config.fixed_rank` (it selects the QR mode of the centre moves and whether the basis is augmented,
not the order of events). -/

open Ptn.C17 Ptn.C17.RTree in
/-- **After one BUG step the state is canonical at the root.**  For every well-formed tree (one node
    included), both variants and ANY gauge recorded before the step: the machine runs through (no assertion
    of the code fails, no `contract_all_children` swallows a real node), afterwards the root carries no
    isometry record (it holds the evolved centre tensor), every other node is recorded as an isometric QR
    factor toward its PARENT, no basis-change node is left in the state (identifiers are the old ones) and
    only the frame of the start state remains; records of identifiers outside the tree are untouched. -/
theorem bug_step_canonical_at_root (fixed : Bool) (t : RTree) (hwf : t.WF) (dir0 : Nat → Option Nat) :
    ∃ s, Gauge.run (Gauge.start dir0 t) (Gauge.bugEvents fixed t) = some s ∧
      s.dir t.rid = none ∧ (∀ e ∈ edges t, s.dir e.2 = some e.1) ∧
      s.pend = [] ∧ s.frames = [t.rid] ∧ (∀ x, x ∉ ids t → s.dir x = dir0 x) :=
  Gauge.root_runs fixed t hwf dir0

open Ptn.C17 Ptn.C17.RTree in
/-- The QR events of a step are one per non-root node, in post-order (children before parents), each
    toward the parent, augmented exactly for the rank-adaptive variant; the centre moves on the working
    copies are the tree edges parent -> child in pre-order, in `KEEP` mode exactly for fixed rank. -/
theorem bug_step_qr_events (fixed : Bool) (t : RTree) :
    (Gauge.bugEvents fixed t).filterMap Gauge.qrOf =
        (upKeysL t.rid t.kids).map (fun e => (e.1, e.2, !fixed)) ∧
    (Gauge.bugEvents fixed t).filterMap Gauge.moveOf = (edges t).map (fun e => (e.1, e.2, fixed)) :=
  ⟨Gauge.root_qr_events fixed t, Gauge.root_move_events fixed t⟩

open Ptn.C17 Ptn.C17.RTree Ptn.C03 in
/-- **The truncation pass of rank-adaptive BUG keeps the state canonical at the root**
    (`recursive_truncation` after the repair 42696fe: `truncate_node` contracts projectors into the tensors,
    so no isometry record survives - the start `fun _ => none` -, then `tree.canonical_form(root_id)`).
    With `dist` the table of `distance_to_node(root)`: no neighbour lookup of `canonical_form` fails and
    afterwards every non-root node is recorded as an isometry toward its parent, the root carries no record.
    (The structure is unchanged by the pass: `Ptn.C10.recursive_truncation_structure`.) -/
theorem rank_adaptive_truncation_keeps_canonical (t : RTree) (hwf : t.WF) :
    ∃ dist : Dist, distanceToNode t t.rid = some dist ∧ canonComplete dist (nbrsOf t) = true ∧
      (∀ e ∈ edges t, applyOps (fun _ => none) (canonOps dist (nbrsOf t)) e.2 = some e.1) ∧
      applyOps (fun _ => none) (canonOps dist (nbrsOf t)) t.rid = none := by
  obtain ⟨dist, hd, _, _, hcomp, hdir, hroot⟩ := canon_gauge_tree t hwf t.rid (rid_mem_ids t)
  refine ⟨dist, hd, hcomp, ?_, hroot⟩
  intro e he
  obtain ⟨p, c⟩ := e
  have hc := (edge_mem_ids he).2
  have hpd : pathDown t.rid t = some [t.rid] := by cases t; simp [rid]
  have hne : c ∉ [t.rid] := by
    intro h
    have hc' : c = t.rid := by simpa using h
    have := (edges_mem.1 t p c he).2
    cases t with
    | node r ks =>
      simp only [rid] at hc'
      subst hc'
      have hnd : (c :: idsL ks).Nodup := by simpa [WF] using hwf
      exact (List.nodup_cons.mp hnd).1 (by simpa [kids] using this)
  obtain ⟨rest, hpath⟩ := next_hop_up hwf hpd hne he
  obtain ⟨v, hv, hdv⟩ := hdir c hc (fun h => hne (by simp [h]))
  rw [firstHop_of_path hpath] at hv
  simp only [Option.some.injEq] at hv
  subst hv
  exact hdv

/-! ### Completion, structure and shapes

The structural statements are about the C02 model of `TreeTensorNetwork` (`Ptn/C09/Structure.lean`): the edits
`root_update` / `update_node` apply to `new_state`. -/

open Ptn.C17 Ptn.C17.RTree in
/-- **A step completes on every tree** (one node included), both variants, as far as the cache machine and the
    gauge machine can tell: no cache lookup fails (every read returns a block of the generation the scheme asks
    for), no assertion about the orthogonality centre fails, `contract_all_children` only ever meets
    basis-change nodes, and at the end no basis-change node and no working copy is left.
    Missing (hence `_partial`): that the edits of the C02 structural model (`splitNodes`, `contractNodes`,
    `replaceTensorPermuted`) return a network for every well-formed labelled input - `bug_step_structure_partial`
    takes the success of the run as a hypothesis; completion of the real code is decided per input by the harness. -/
theorem bug_step_completes_partial (fixed : Bool) (t : RTree) (hwf : t.WF) :
    (∀ e ∈ Env.bugRun t, Env.GoodEv e) ∧
    (∀ dir0, ∃ s, Gauge.run (Gauge.start dir0 t) (Gauge.bugEvents fixed t) = some s ∧
      s.pend = [] ∧ s.frames = [t.rid]) := by
  refine ⟨Env.bug_env_sources t hwf, fun dir0 => ?_⟩
  obtain ⟨s, h1, _, _, h4, h5, _⟩ := Gauge.root_runs fixed t hwf dir0
  exact ⟨s, h1, h4, h5⟩

open Ptn.C02 in
/-- **`split_node_replace` of a BUG step** (`c` any non-root node, `b` its unused basis-change identifier, any
    new rank `bd`): the result is well-formed and label-consistent with the same root; the basis-change node `b`
    takes the place of `c` below the parent `p` and has `c` as its only child, `c` keeps its children list; every
    node keeps exactly its open axes; `b` has exactly two legs - the old parent leg of `c` (same label and
    dimension) and the new bond of dimension `bd` - and `c` has the new bond and, toward its children, exactly the
    legs it had. -/
theorem bug_split_structure {t t1 : TTN} {c b : Id} {bd : Nat} (h : t.WF) (hl : t.LWF)
    (hfresh : t.N b = none) (hs : bugSplit t c b bd = some t1) :
    t1.WF ∧ t1.LWF ∧ t1.root = t.root ∧ (∀ k, t1.openAxes k = t.openAxes k) ∧
    ∃ C p, t.N c = some C ∧ C.parent = some p ∧ t1.S = splitS t.S c b c (some p) [] C.children ∧
      (∀ x ax, t1.Leg b x ax ↔ ((x = c ∧ ax = ⟨t.nextLabel, bd⟩) ∨ (x = p ∧ t.Leg c x ax))) ∧
      (∀ x ax, t1.Leg c x ax ↔ ((x = b ∧ ax = ⟨t.nextLabel, bd⟩) ∨ (x ∈ C.children ∧ t.Leg c x ax))) := by
  obtain ⟨C, p, hC, hp, hsp⟩ := bugSplit_eq hs
  obtain ⟨w, S1, R1⟩ := bug_split_full (TTN.WFX.ofLWF h hl) hC hp hfresh hsp
  obtain ⟨l1, l2⟩ := bug_split_legs h hC hp hfresh hsp
  exact ⟨w.wf, w.lwf trivial, R1, w.op trivial, C, p, hC, hp, S1, l1, l2⟩

open Ptn.C02 in
/-- **Fixed-rank BUG keeps the shape of the tensor it replaces** - for the replacement itself.  The hypothesis is
    what the code enforces of the QR in `KEEP` mode (`assert new_basis_tensor.shape == updated_tensor.shape`;
    `tensor_qr_decomposition(…, mode=SplitMode.KEEP)` for a leaf): the new rank `bd` is the dimension of the old
    parent leg of `c`.  Then the new basis tensor at `c` has, leg by leg, the dimensions of the old tensor (parent
    side `bd`, children legs and open axes identical) and the basis-change tensor is `bd × bd`.
    Missing (hence `_partial`): the same statement after the absorption of the basis-change tensor into the
    parent and for the whole step (the structural theorems below do not track bond dimensions; the harness
    compares all shapes after every fixed-rank step). -/
theorem fixed_bug_keeps_shapes_partial {t t1 : TTN} {c b p : Id} {C : NodeS} {bd : Nat} {lab : Label}
    (h : t.WF) (hl : t.LWF) (hfresh : t.N b = none) (hC : t.N c = some C) (hp : C.parent = some p)
    (hqr : t.Leg c p ⟨lab, bd⟩) (hs : bugSplit t c b bd = some t1) :
    t1.Leg c b ⟨t.nextLabel, bd⟩ ∧ t1.Leg b c ⟨t.nextLabel, bd⟩ ∧ t1.Leg b p ⟨lab, bd⟩ ∧
    (∀ x ∈ C.children, ∀ ax, t1.Leg c x ax ↔ t.Leg c x ax) ∧ (∀ k, t1.openAxes k = t.openAxes k) := by
  obtain ⟨_, _, _, ho, C', p', hC', hp', _, l1, l2⟩ := bug_split_structure h hl hfresh hs
  rw [hC] at hC'; simp at hC'; subst hC'
  rw [hp] at hp'; simp at hp'; subst hp'
  refine ⟨(l2 b _).mpr (Or.inl ⟨rfl, rfl⟩), (l1 c _).mpr (Or.inl ⟨rfl, rfl⟩),
    (l1 p _).mpr (Or.inr ⟨rfl, hqr⟩), ?_, ho⟩
  intro x hx ax
  rw [l2 x ax]
  constructor
  · rintro (⟨e, _⟩ | ⟨_, h2⟩)
    · exfalso
      subst e
      obtain ⟨cch, hcc⟩ := h.str.down c _ _ x (TTN.S_eq hC) hx
      rw [TTN.S, hfresh] at hcc; simp at hcc
    · exact h2
  · exact fun h2 => Or.inr ⟨hx, h2⟩

open Ptn.C02 in
/-- **One absorption of `contract_all_children(p)`**, at any later time (the literal, delayed one): in a
    well-formed, label-consistent state in which the basis-change node `b` (no open axis) hangs below `p` with the
    single child `c`, `contract_nodes(p, b, new_identifier=p)` removes `b`, makes `c` the LAST child of `p` with
    `p` as its parent, changes nothing else in the structure and keeps every open axis. -/
theorem bug_absorb_structure {t t' : TTN} {p b c : Id} {gp : Option Id} {L cch : List Id} (h : t.WF) (hl : t.LWF)
    (hP : t.S p = some (gp, L)) (hB : t.S b = some (some p, [c])) (hC : t.S c = some (some b, cch))
    (hopen : t.openAxes b = []) (hs : bugAbsorbOne t p b = some t') :
    t'.WF ∧ t'.LWF ∧ t'.root = t.root ∧ (∀ k, t'.openAxes k = t.openAxes k) ∧
    t'.S = fun k => if k = p then some (gp, L.erase b ++ [c]) else if k = b then none
             else if k = c then some (some p, cch) else t.S k := by
  obtain ⟨w, R, S'⟩ := trunc_step2 (TTN.WFX.ofLWF h hl) hP hB hC (fun _ => hopen) hs
  exact ⟨w.wf, w.lwf trivial, R, w.op trivial, S'⟩

open Ptn.C02 in
/-- **Basis update of a node and absorption of its basis-change tensor into the parent** (`split_node_replace`,
    then the `contract_nodes(parent, c_basis_change_tensor, new_identifier=parent)` of
    `contract_all_children(parent)`): well-formed, label-consistent result, same root; `c` has become the LAST
    child of its parent and nothing else has changed in the structure; every node keeps exactly its open axes. -/
theorem bug_basis_up_structure {t t' : TTN} {c b : Id} {bd : Nat} (h : t.WF) (hl : t.LWF)
    (hfresh : t.N b = none) (hs : bugBasisUp t c b bd = some t') :
    t'.WF ∧ t'.LWF ∧ t'.root = t.root ∧ (∀ k, t'.openAxes k = t.openAxes k) ∧
    ∃ C P p, t.N c = some C ∧ C.parent = some p ∧ t.N p = some P ∧ c ∈ P.children ∧
      (∀ k, k ≠ p → t'.S k = t.S k) ∧ t'.S p = some (P.parent, P.children.erase c ++ [c]) := by
  obtain ⟨w, R, C, p, hC, hp, S'⟩ := bug_basis_up_full (TTN.WFX.ofLWF h hl) hfresh hs
  obtain ⟨P, hP, hm⟩ := parent_node h hC hp
  exact ⟨w.wf, w.lwf trivial, R, w.op trivial, C, P, p, hC, hp, hP, hm, demote_explicit hP S'⟩

open Ptn.C02 in
/-- **Structure of a BUG step** for any sequence of the edits of `root_update` in which every basis-change tensor
    is absorbed into the parent right after the split that creates it (pulls, tensor reads, basis updates, the
    final `replace_tensor` of the root; any new ranks): the state stays well-formed and label-consistent; same
    root, same identifiers, same parent of every node, same children up to order; **every node keeps exactly its
    open axes (labels, order, dimensions) - only bond dimensions change**.
    Missing (hence `_partial`): the code absorbs the basis-change tensors of all children of a node together
    (`contract_all_children`, after the last child's update) - the literal interleaving, in which basis-change
    nodes of finished siblings are pending while a later sibling's subtree is edited, is covered event by event
    (`bug_split_structure`, `bug_absorb_structure`) and by the gauge machine
    (`bug_step_canonical_at_root`: none is left at the end) but not by one run-level theorem. -/
theorem bug_step_structure_partial {t t' : TTN} {es : List BugEvent} (h : t.WF) (hl : t.LWF)
    (hr : BugRun t es t') :
    t'.WF ∧ t'.LWF ∧ t'.root = t.root ∧
    (∀ k, t'.N k = none ↔ t.N k = none) ∧
    (∀ k n, t.N k = some n →
      ∃ n', t'.N k = some n' ∧ n'.parent = n.parent ∧ n'.children.Perm n.children) ∧
    (∀ k, t'.openAxes k = t.openAxes k) := by
  obtain ⟨w, R, E⟩ := bug_run_wfx (TTN.WFX.ofLWF h hl) hr
  exact ⟨w.wf, w.lwf trivial, R, (treeEq_explicit E).1, (treeEq_explicit E).2, w.op trivial⟩

/-- **No bond above the configured maximum after the truncation pass** - for the selection rule.  Every
    truncation of `recursive_truncation` keeps, of a non-empty descending non-negative spectrum, a prefix of
    length between 1 and `max_bond_dim` (`Ptn.C10.trunc_is_prefix`); that length is the dimension of the bond
    after `truncate_node`.
    Missing (hence `_partial`): that the bond dimensions of the returned state ARE these lengths (the C02 model
    of `recursive_truncation`, `Ptn.C10.recursive_truncation_structure`, takes the kept dimensions as parameters
    and proves structure and open axes, not bond dimensions; the final `canonical_form` uses reduced QRs, which
    never enlarge a bond); decided per input by the harness. -/
theorem rank_adaptive_bonds_le_partial (s : List Rat) (p : Ptn.C10.Params) (D : Nat) (hs : s ≠ [])
    (hnn : Ptn.C10.NonNeg s) (hd : Ptn.C10.Desc s) (hp : p.Valid) (hD : p.maxBond = some D) :
    ∃ kept disc, Ptn.C10.truncate s p = some (kept, disc) ∧ 1 ≤ kept.length ∧ kept.length ≤ D := by
  obtain ⟨k, h1, h2, h3, hcase⟩ := Ptn.C10.trunc_is_prefix s p hs hnn hd hp
  have hk : k ≤ D := h3 D hD
  rcases hcase with ⟨_, ht⟩ | ⟨_, _, ht⟩
  · exact ⟨_, _, ht, by simp; omega, by simp; omega⟩
  · exact ⟨_, _, ht, by simp; omega, by simp; omega⟩

/-! ### Non-vacuity: root 0 with children 1 (leaf) and 2 (with child 3) -/

def exTree : Tree :=
  .node 0 (.cons (.node 1 .nil) (.cons (.node 2 (.cons (.node 3 .nil) .nil)) .nil))

example : exTree.updates = [1, 3, 2, 0] ∧ exTree.ids.Nodup := by decide
example : exTree.edges = [(0, 1), (0, 2), (2, 3)] := by decide
example : exTree.moves = [(0, 1), (0, 2), (2, 3)] := by decide

/-- the same tree in the C17 vocabulary -/
def exR : Ptn.C17.RTree := .node 0 [.node 1 [], .node 2 [.node 3 []]]

example : exR.WF := by decide
/-- a start gauge that is NOT canonical at the root (everything points away): the step repairs it -/
example : (Gauge.run (Gauge.start (fun n => if n = 0 then some 2 else if n = 2 then some 3 else none) exR)
    (Gauge.bugEvents false exR)).map (fun s => ([0, 1, 2, 3].map s.dir, s.pend, s.frames)) =
    some ([none, some 0, some 0, some 2], [], [0]) := by decide
example : (Gauge.bugEvents true exR).filterMap Gauge.qrOf = [(1, 0, false), (3, 2, false), (2, 0, false)] := by
  decide
/-- an order the code does not use (parent's basis before its child's) leaves a basis-change node that is
    never absorbed and a stale frame: the machine is stuck - `bug_step_canonical_at_root` is not vacuous -/
example : Gauge.run (Gauge.start (fun _ => none) exR)
    [.down 0 2 false, .evolve 2, .basis 2 0 true, .down 2 3 false] = none := by decide

/-! #### the structural theorems: root `1` (one open leg) with the leaves `2` (bond 3) and `3` (bond 2) -/

open Ptn.C02 in
def netOps : List TOp :=
  [.root 1 [⟨0, 2⟩, ⟨100, 3⟩, ⟨101, 2⟩],
   .child 2 [⟨100, 3⟩, ⟨1, 2⟩] 0 1 1,
   .child 3 [⟨2, 2⟩, ⟨101, 2⟩] 1 1 2]

open Ptn.C02 in
/-- the network is well-formed and label-consistent, `50` is unused, the leaf `2` has the parent leg
    `⟨100, 3⟩`, and `split_node_replace` with the old rank 3 succeeds: hypotheses of `bug_split_structure` and
    `fixed_bug_keeps_shapes_partial`; the basis-change node `50` then sits between `1` and `2` -/
example : ∃ t t1, TRunL TTN.empty netOps t ∧ t.WF ∧ t.LWF ∧ t.N 50 = none ∧ t.Leg 2 1 ⟨100, 3⟩ ∧
    bugSplit t 2 50 3 = some t1 ∧ t1.S 50 = some (some 1, [2]) ∧ t1.S 2 = some (some 50, []) ∧
    t1.S 1 = some (none, [50, 3]) ∧ t1.openAxes 2 = [⟨1, 2⟩] :=
  ⟨_, _, .cons ⟨rfl, rfl⟩ trivial rfl (.cons trivial ⟨_, rfl, rfl⟩ rfl (.cons trivial ⟨_, rfl, rfl⟩ rfl (.nil _))),
    (builtL_labels (show TRunL TTN.empty netOps _ from
      .cons ⟨rfl, rfl⟩ trivial rfl (.cons trivial ⟨_, rfl, rfl⟩ rfl (.cons trivial ⟨_, rfl, rfl⟩ rfl (.nil _))))).1,
    (builtL_labels (show TRunL TTN.empty netOps _ from
      .cons ⟨rfl, rfl⟩ trivial rfl (.cons trivial ⟨_, rfl, rfl⟩ rfl (.cons trivial ⟨_, rfl, rfl⟩ rfl (.nil _))))).2,
    rfl, by unfold TTN.Leg; decide, rfl, rfl, rfl, rfl, rfl⟩

open Ptn.C02 in
/-- a whole step on it: basis updates of `2` (rank 3 -> 2) and `3` (rank 2 -> 4), pull, read and store at the
    root; `2` and `3` are children of `1` again (each moved to the end when it was absorbed) -/
example : ∃ t t', TRun TTN.empty netOps t ∧
    BugRun t [.basisUp 2 50 2, .basisUp 3 51 4, .pull 1 (some [0, 2, 1]), .access 1, .store 1] t' ∧
    t'.S 1 = some (none, [2, 3]) ∧ t'.S 2 = some (some 1, []) ∧ t'.N 50 = none ∧ t'.N 51 = none :=
  ⟨_, _, .cons ⟨rfl, rfl⟩ rfl (.cons trivial rfl (.cons trivial rfl (.nil _))),
    .cons rfl rfl (.cons rfl rfl (.cons (by intro l hl; cases hl; decide) rfl (.cons trivial rfl
      (.cons trivial rfl (.nil _))))),
    rfl, rfl, rfl, rfl⟩

open Ptn.C02 in
/-- the delayed absorption: both leaves are split first (two basis-change nodes pending), then absorbed in the
    order of the root's children list - hypotheses of `bug_absorb_structure` hold at the first absorption -/
example : ∃ t t1 t2 t3 t4, TRun TTN.empty netOps t ∧ bugSplit t 2 50 2 = some t1 ∧ bugSplit t1 3 51 4 = some t2 ∧
    t2.S 1 = some (none, [50, 51]) ∧ t2.S 50 = some (some 1, [2]) ∧ t2.S 2 = some (some 50, []) ∧
    t2.openAxes 50 = [] ∧ bugAbsorbOne t2 1 50 = some t3 ∧ bugAbsorbOne t3 1 51 = some t4 ∧
    t4.S 1 = some (none, [2, 3]) :=
  ⟨_, _, _, _, _, .cons ⟨rfl, rfl⟩ rfl (.cons trivial rfl (.cons trivial rfl (.nil _))),
    rfl, rfl, rfl, rfl, rfl, rfl, rfl, rfl, rfl⟩

/-- hypotheses of `rank_adaptive_bonds_le_partial`: a valid parameter object with `max_bond_dim = 2` on the
    spectrum `[4, 2, 1]` keeps two values -/
example : Ptn.C10.Desc [4, 2, 1] ∧ Ptn.C10.NonNeg [4, 2, 1] ∧
    (Ptn.C10.exP (some 2) (.fin 0) (.fin 0) false false true).Valid ∧
    (Ptn.C10.truncate [4, 2, 1] (Ptn.C10.exP (some 2) (.fin 0) (.fin 0) false false true)).map
      (fun r => r.1.length) = some 2 := by decide +kernel

end Ptn.C09
