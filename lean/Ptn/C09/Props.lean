import Ptn.C09.Model
import Ptn.C09.EnvProps
import Ptn.C09.GaugeLemmas
import Ptn.C03.Tree
import Ptn.Common.AnalysisLocal
import Ptn.Common.AnalysisProj
/-! Property theorems for C09 (BUG): recursion order — children before parents, every node once,
root last — for every tree; the conservation consequences are instances of the local-flow
theorems of `Ptn.Analysis` (the final Galerkin step is an exact flow with an isometric embedding
whose range contains the old state because every new basis contains the old one). -/
namespace Ptn.C09

mutual
theorem Tree.updates_perm : (t : Tree) → t.updates.Perm t.ids
  | .node id kids => by
    simp only [Tree.updates, Tree.ids]
    exact (List.perm_append_comm.trans (List.Perm.cons id (Forest.updates_perm kids)))
theorem Forest.updates_perm : (f : Forest) → f.updates.Perm f.ids
  | .nil => by simp [Forest.updates, Forest.ids]
  | .cons t f => by
    simp only [Forest.updates, Forest.ids]
    exact List.Perm.append (Tree.updates_perm t) (Forest.updates_perm f)
end

/-- Every node is evolved exactly once per step (when identifiers are distinct). -/
theorem updates_nodup (t : Tree) (h : t.ids.Nodup) : t.updates.Nodup :=
  (List.Perm.nodup_iff (Tree.updates_perm t)).mpr h

/-- The root is evolved last. -/
theorem root_last (t : Tree) : t.updates.getLast? = some t.root := by
  cases t with
  | node id kids => simp [Tree.updates, Tree.root]

mutual
theorem Tree.root_mem_updates : (t : Tree) → t.root ∈ t.updates
  | .node id kids => by simp [Tree.updates, Tree.root]
end

theorem Forest.roots_subset_updates : (f : Forest) → ∀ c ∈ f.roots, c ∈ f.updates
  | .nil => by simp [Forest.roots]
  | .cons t f => by
    intro c hc
    simp only [Forest.roots, List.mem_cons] at hc
    simp only [Forest.updates, List.mem_append]
    rcases hc with rfl | hc
    · exact Or.inl (Tree.root_mem_updates t)
    · exact Or.inr (Forest.roots_subset_updates f c hc)

mutual
/-- **Children before parents**: for every edge (p, c) of the tree, `c` is evolved strictly before
    `p`: the update list splits as `… c … p …`. -/
theorem Tree.child_before_parent : (t : Tree) → ∀ e ∈ t.edges,
    ∃ l1 l2 l3, t.updates = l1 ++ [e.2] ++ l2 ++ [e.1] ++ l3
  | .node id kids => by
    intro e he
    simp only [Tree.edges, List.mem_append, List.mem_map] at he
    rcases he with ⟨c, hc, rfl⟩ | he
    · have hmem := Forest.roots_subset_updates kids c hc
      obtain ⟨a, b, hab⟩ := List.append_of_mem hmem
      refine ⟨a, b, [], ?_⟩
      simp [Tree.updates, hab]
    · obtain ⟨l1, l2, l3, h⟩ := Forest.child_before_parent kids e he
      refine ⟨l1, l2, l3 ++ [id], ?_⟩
      simp [Tree.updates, h]
theorem Forest.child_before_parent : (f : Forest) → ∀ e ∈ f.edges,
    ∃ l1 l2 l3, f.updates = l1 ++ [e.2] ++ l2 ++ [e.1] ++ l3
  | .nil => by simp [Forest.edges]
  | .cons t f => by
    intro e he
    simp only [Forest.edges, List.mem_append] at he
    rcases he with he | he
    · obtain ⟨l1, l2, l3, h⟩ := Tree.child_before_parent t e he
      exact ⟨l1, l2, l3 ++ f.updates, by simp [Forest.updates, h]⟩
    · obtain ⟨l1, l2, l3, h⟩ := Forest.child_before_parent f e he
      exact ⟨t.updates ++ l1, l2, l3, by simp [Forest.updates, h]⟩
end

mutual
/-- The centre moves are exactly the tree edges, each once, parent → child. -/
theorem Tree.moves_perm : (t : Tree) → t.moves.Perm t.edges
  | .node id kids => by
    simp only [Tree.moves, Tree.edges]
    exact Forest.movesFrom_perm id kids
theorem Forest.movesFrom_perm (p : Nat) : (f : Forest) →
    (f.movesFrom p).Perm (f.roots.map (fun c => (p, c)) ++ f.edges)
  | .nil => by simp [Forest.movesFrom, Forest.roots, Forest.edges]
  | .cons t f => by
    simp only [Forest.movesFrom, Forest.roots, Forest.edges, List.map_cons, List.cons_append]
    apply List.Perm.cons
    have h1 := Tree.moves_perm t
    have h2 := Forest.movesFrom_perm p f
    refine (List.Perm.append h1 h2).trans ?_
    -- t.edges ++ (roots ++ f.edges) ~ roots ++ (t.edges ++ f.edges)
    rw [← List.append_assoc, ← List.append_assoc]
    exact List.Perm.append_right _ List.perm_append_comm
end

/-! ### Conservation consequences (instances of `Ptn.Analysis`) -/

open Matrix in
/-- Rank-adaptive BUG, Galerkin step at the root: with `E` the (isometric) embedding given by all
    new bases and `K = EᴴHE`, evolving the root tensor with `exp(-i t K)` conserves the norm of the
    represented state. -/
theorem galerkin_conserves_norm {N d : Type} [Fintype N] [Fintype d] [DecidableEq N] [DecidableEq d]
    (E : Matrix N d ℂ) (H : Matrix N N ℂ) (hE : Eᴴ * E = 1) (hH : Hᴴ = H) (t : ℝ) (φ : d → ℂ) :
    star (E *ᵥ (NormedSpace.exp ((-Complex.I * t) • (Eᴴ * H * E)) *ᵥ φ)) ⬝ᵥ
        (E *ᵥ (NormedSpace.exp ((-Complex.I * t) • (Eᴴ * H * E)) *ᵥ φ)) =
      star (E *ᵥ φ) ⬝ᵥ (E *ᵥ φ) :=
  Ptn.Analysis.local_flow_norm E H hE hH t φ

open Matrix in
/-- … and the energy. -/
theorem galerkin_conserves_energy {N d : Type} [Fintype N] [Fintype d] [DecidableEq N] [DecidableEq d]
    (E : Matrix N d ℂ) (H : Matrix N N ℂ) (hH : Hᴴ = H) (t : ℝ) (φ : d → ℂ) :
    star (E *ᵥ (NormedSpace.exp ((-Complex.I * t) • (Eᴴ * H * E)) *ᵥ φ)) ⬝ᵥ
        (H *ᵥ (E *ᵥ (NormedSpace.exp ((-Complex.I * t) • (Eᴴ * H * E)) *ᵥ φ))) =
      star (E *ᵥ φ) ⬝ᵥ (H *ᵥ (E *ᵥ φ)) :=
  Ptn.Analysis.local_flow_energy E H hH t φ

open Matrix in
/-- Rank-adaptive BUG: every new basis contains the old one (it is an orthonormal basis of the span
    of the old basis and the evolved one, i.e. `Eold = Enew * M` with `M` the basis-change
    tensor), so the Galerkin initial value `Enewᴴ ψ` represents the old state exactly. -/
theorem augmented_basis_reproduces_state {N d d' : Type} [Fintype N] [Fintype d] [Fintype d']
    [DecidableEq d'] (Enew : Matrix N d' ℂ) (Eold : Matrix N d ℂ) (M : Matrix d' d ℂ)
    (hE : Enewᴴ * Enew = 1) (hM : Eold = Enew * M) (φ : d → ℂ) :
    Enew *ᵥ (Enewᴴ *ᵥ (Eold *ᵥ φ)) = Eold *ᵥ φ :=
  Ptn.Analysis.galerkin_initial_value_of_factor Enew Eold M hE hM φ

open Matrix in
/-- Fixed-rank BUG: projecting onto the new bases and evolving with the projected Hamiltonian never
    increases the norm. -/
theorem fixed_rank_step_nonexpansive {N d : Type} [Fintype N] [Fintype d] [DecidableEq N]
    [DecidableEq d] (E : Matrix N d ℂ) (H : Matrix N N ℂ) (hE : Eᴴ * E = 1) (hH : Hᴴ = H) (t : ℝ)
    (ψ : N → ℂ) :
    RCLike.re (star (E *ᵥ (NormedSpace.exp ((-Complex.I * (t : ℂ)) • (Eᴴ * H * E)) *ᵥ (Eᴴ *ᵥ ψ))) ⬝ᵥ
        (E *ᵥ (NormedSpace.exp ((-Complex.I * (t : ℂ)) • (Eᴴ * H * E)) *ᵥ (Eᴴ *ᵥ ψ))))
      ≤ RCLike.re (star ψ ⬝ᵥ ψ) :=
  Ptn.Analysis.fixed_rank_step_nonexpansive E H hE hH t ψ

/-! ### Gauge: the returned state is canonical at the root (both variants, every tree)

The machine of `GaugeModel.lean` follows `root_update` / `update_node` event by event; `fixed` is
`bug_config.fixed_rank` (it selects the QR mode of the centre moves and whether the basis is augmented,
not the order of events). -/

open Ptn.C17 Ptn.C17.RTree in
/-- **After one BUG step the state is canonical at the root.**  For every well-formed tree (one node
    included), both variants and ANY gauge recorded before the step: the machine runs through (no assertion
    of the code fails, no `contract_all_children` swallows a real node), afterwards the root carries no
    isometry record (it holds the evolved centre tensor), every other node is recorded as an isometric QR
    factor toward its PARENT, no basis-change node is left in the state (identifiers are the old ones) and
    only the frame of the start state remains; records of identifiers outside the tree are untouched. -/
theorem bug_step_canonical_at_root (fixed : Bool) (t : RTree) (hwf : t.WF) (dir0 : Nat → Option Nat) :
    ∃ s, Gauge.run (Gauge.start dir0 t) (Gauge.bugEvents fixed t) = some s ∧
      s.dir t.rid = none ∧ (∀ e ∈ edges t, s.dir e.2 = some e.1) ∧
      s.pend = [] ∧ s.frames = [t.rid] ∧ (∀ x, x ∉ ids t → s.dir x = dir0 x) :=
  Gauge.root_runs fixed t hwf dir0

open Ptn.C17 Ptn.C17.RTree in
/-- The QR events of a step are one per non-root node, in post-order (children before parents), each
    toward the parent, augmented exactly for the rank-adaptive variant; the centre moves on the working
    copies are the tree edges parent -> child in pre-order, in `KEEP` mode exactly for fixed rank. -/
theorem bug_step_qr_events (fixed : Bool) (t : RTree) :
    (Gauge.bugEvents fixed t).filterMap Gauge.qrOf =
        (upKeysL t.rid t.kids).map (fun e => (e.1, e.2, !fixed)) ∧
    (Gauge.bugEvents fixed t).filterMap Gauge.moveOf = (edges t).map (fun e => (e.1, e.2, fixed)) :=
  ⟨Gauge.root_qr_events fixed t, Gauge.root_move_events fixed t⟩

open Ptn.C17 Ptn.C17.RTree Ptn.C03 in
/-- **The truncation pass of rank-adaptive BUG keeps the state canonical at the root**
    (`recursive_truncation` after the repair 42696fe: `truncate_node` contracts projectors into the tensors,
    so no isometry record survives - the start `fun _ => none` -, then `tree.canonical_form(root_id)`).
    With `dist` the table of `distance_to_node(root)`: no neighbour lookup of `canonical_form` fails and
    afterwards every non-root node is recorded as an isometry toward its parent, the root carries no record.
    (The structure is unchanged by the pass: `Ptn.C10.recursive_truncation_structure`.) -/
theorem rank_adaptive_truncation_keeps_canonical (t : RTree) (hwf : t.WF) :
    ∃ dist : Dist, distanceToNode t t.rid = some dist ∧ canonComplete dist (nbrsOf t) = true ∧
      (∀ e ∈ edges t, applyOps (fun _ => none) (canonOps dist (nbrsOf t)) e.2 = some e.1) ∧
      applyOps (fun _ => none) (canonOps dist (nbrsOf t)) t.rid = none := by
  obtain ⟨dist, hd, _, _, hcomp, hdir, hroot⟩ := canon_gauge_tree t hwf t.rid (rid_mem_ids t)
  refine ⟨dist, hd, hcomp, ?_, hroot⟩
  intro e he
  obtain ⟨p, c⟩ := e
  have hc := (edge_mem_ids he).2
  have hpd : pathDown t.rid t = some [t.rid] := by cases t; simp [rid]
  have hne : c ∉ [t.rid] := by
    intro h
    have hc' : c = t.rid := by simpa using h
    have := (edges_mem.1 t p c he).2
    cases t with
    | node r ks =>
      simp only [rid] at hc'
      subst hc'
      have hnd : (c :: idsL ks).Nodup := by simpa [WF] using hwf
      exact (List.nodup_cons.mp hnd).1 (by simpa [kids] using this)
  obtain ⟨rest, hpath⟩ := next_hop_up hwf hpd hne he
  obtain ⟨v, hv, hdv⟩ := hdir c hc (fun h => hne (by simp [h]))
  rw [firstHop_of_path hpath] at hv
  simp only [Option.some.injEq] at hv
  subst hv
  exact hdv

/-! ### Non-vacuity: root 0 with children 1 (leaf) and 2 (with child 3) -/

def exTree : Tree :=
  .node 0 (.cons (.node 1 .nil) (.cons (.node 2 (.cons (.node 3 .nil) .nil)) .nil))

example : exTree.updates = [1, 3, 2, 0] ∧ exTree.ids.Nodup := by decide
example : exTree.edges = [(0, 1), (0, 2), (2, 3)] := by decide
example : exTree.moves = [(0, 1), (0, 2), (2, 3)] := by decide

/-- the same tree in the C17 vocabulary -/
def exR : Ptn.C17.RTree := .node 0 [.node 1 [], .node 2 [.node 3 []]]

example : exR.WF := by decide
/-- a start gauge that is NOT canonical at the root (everything points away): the step repairs it -/
example : (Gauge.run (Gauge.start (fun n => if n = 0 then some 2 else if n = 2 then some 3 else none) exR)
    (Gauge.bugEvents false exR)).map (fun s => ([0, 1, 2, 3].map s.dir, s.pend, s.frames)) =
    some ([none, some 0, some 0, some 2], [], [0]) := by decide
example : (Gauge.bugEvents true exR).filterMap Gauge.qrOf = [(1, 0, false), (3, 2, false), (2, 0, false)] := by
  decide
/-- an order the code does not use (parent's basis before its child's) leaves a basis-change node that is
    never absorbed and a stale frame: the machine is stuck - `bug_step_canonical_at_root` is not vacuous -/
example : Gauge.run (Gauge.start (fun _ => none) exR)
    [.down 0 2 false, .evolve 2, .basis 2 0 true, .down 2 3 false] = none := by decide

end Ptn.C09
