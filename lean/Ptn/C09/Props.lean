import Ptn.C09.Model
import Ptn.C09.EnvProps
import Ptn.C09.GaugeLemmas
import Ptn.C03.Tree
import Ptn.C09.Structure
import Ptn.C09.StepShapes
import Ptn.C10.Props
import Ptn.C10.Tree
import Ptn.Common.AnalysisLocal
import Ptn.Common.AnalysisProj
/-! Property theorems for C09 (BUG): recursion order — children before parents, every node once,
root last — for every tree; the conservation consequences are instances of the local-flow
theorems of `Ptn.Analysis` (the final Galerkin step is an exact flow with an isometric embedding
whose range contains the old state because every new basis contains the old one). -/
namespace Ptn.C09

mutual
theorem Tree.updates_perm : (t : Tree) → t.updates.Perm t.ids
  | .node id kids => by
    simp only [Tree.updates, Tree.ids]
    exact (List.perm_append_comm.trans (List.Perm.cons id (Forest.updates_perm kids)))
theorem Forest.updates_perm : (f : Forest) → f.updates.Perm f.ids
  | .nil => by simp [Forest.updates, Forest.ids]
  | .cons t f => by
    simp only [Forest.updates, Forest.ids]
    exact List.Perm.append (Tree.updates_perm t) (Forest.updates_perm f)
end

/-- Every node is evolved exactly once per step (when identifiers are distinct). -/
theorem updates_nodup (t : Tree) (h : t.ids.Nodup) : t.updates.Nodup :=
  (List.Perm.nodup_iff (Tree.updates_perm t)).mpr h

/-- The root is evolved last. -/
theorem root_last (t : Tree) : t.updates.getLast? = some t.root := by
  cases t with
  | node id kids => simp [Tree.updates, Tree.root]

mutual
theorem Tree.root_mem_updates : (t : Tree) → t.root ∈ t.updates
  | .node id kids => by simp [Tree.updates, Tree.root]
end

theorem Forest.roots_subset_updates : (f : Forest) → ∀ c ∈ f.roots, c ∈ f.updates
  | .nil => by simp [Forest.roots]
  | .cons t f => by
    intro c hc
    simp only [Forest.roots, List.mem_cons] at hc
    simp only [Forest.updates, List.mem_append]
    rcases hc with rfl | hc
    · exact Or.inl (Tree.root_mem_updates t)
    · exact Or.inr (Forest.roots_subset_updates f c hc)

mutual
/-- **Children before parents**: for every edge (p, c) of the tree, `c` is evolved strictly before
    `p`: the update list splits as `… c … p …`. -/
theorem Tree.child_before_parent : (t : Tree) → ∀ e ∈ t.edges,
    ∃ l1 l2 l3, t.updates = l1 ++ [e.2] ++ l2 ++ [e.1] ++ l3
  | .node id kids => by
    intro e he
    simp only [Tree.edges, List.mem_append, List.mem_map] at he
    rcases he with ⟨c, hc, rfl⟩ | he
    · have hmem := Forest.roots_subset_updates kids c hc
      obtain ⟨a, b, hab⟩ := List.append_of_mem hmem
      refine ⟨a, b, [], ?_⟩
      simp [Tree.updates, hab]
    · obtain ⟨l1, l2, l3, h⟩ := Forest.child_before_parent kids e he
      refine ⟨l1, l2, l3 ++ [id], ?_⟩
      simp [Tree.updates, h]
theorem Forest.child_before_parent : (f : Forest) → ∀ e ∈ f.edges,
    ∃ l1 l2 l3, f.updates = l1 ++ [e.2] ++ l2 ++ [e.1] ++ l3
  | .nil => by simp [Forest.edges]
  | .cons t f => by
    intro e he
    simp only [Forest.edges, List.mem_append] at he
    rcases he with he | he
    · obtain ⟨l1, l2, l3, h⟩ := Tree.child_before_parent t e he
      exact ⟨l1, l2, l3 ++ f.updates, by simp [Forest.updates, h]⟩
    · obtain ⟨l1, l2, l3, h⟩ := Forest.child_before_parent f e he
      exact ⟨t.updates ++ l1, l2, l3, by simp [Forest.updates, h]⟩
end

mutual
/-- The centre moves are exactly the tree edges, each once, parent → child. -/
theorem Tree.moves_perm : (t : Tree) → t.moves.Perm t.edges
  | .node id kids => by
    simp only [Tree.moves, Tree.edges]
    exact Forest.movesFrom_perm id kids
theorem Forest.movesFrom_perm (p : Nat) : (f : Forest) →
    (f.movesFrom p).Perm (f.roots.map (fun c => (p, c)) ++ f.edges)
  | .nil => by simp [Forest.movesFrom, Forest.roots, Forest.edges]
  | .cons t f => by
    simp only [Forest.movesFrom, Forest.roots, Forest.edges, List.map_cons, List.cons_append]
    apply List.Perm.cons
    have h1 := Tree.moves_perm t
    have h2 := Forest.movesFrom_perm p f
    refine (List.Perm.append h1 h2).trans ?_
    -- t.edges ++ (roots ++ f.edges) ~ roots ++ (t.edges ++ f.edges)
    rw [← List.append_assoc, ← List.append_assoc]
    exact List.Perm.append_right _ List.perm_append_comm
end

/-! ### Conservation consequences (instances of `Ptn.Analysis`) -/

open Matrix in
/-- Rank-adaptive BUG, Galerkin step at the root: with `E` the (isometric) embedding given by all
    new bases and `K = EᴴHE`, evolving the root tensor with `exp(-i t K)` conserves the norm of the
    represented state. -/
theorem galerkin_conserves_norm {N d : Type} [Fintype N] [Fintype d] [DecidableEq N] [DecidableEq d]
    (E : Matrix N d ℂ) (H : Matrix N N ℂ) (hE : Eᴴ * E = 1) (hH : Hᴴ = H) (t : ℝ) (φ : d → ℂ) :
    star (E *ᵥ (NormedSpace.exp ((-Complex.I * t) • (Eᴴ * H * E)) *ᵥ φ)) ⬝ᵥ
        (E *ᵥ (NormedSpace.exp ((-Complex.I * t) • (Eᴴ * H * E)) *ᵥ φ)) =
      star (E *ᵥ φ) ⬝ᵥ (E *ᵥ φ) :=
  Ptn.Analysis.local_flow_norm E H hE hH t φ

open Matrix in
/-- … and the energy. -/
theorem galerkin_conserves_energy {N d : Type} [Fintype N] [Fintype d] [DecidableEq N] [DecidableEq d]
    (E : Matrix N d ℂ) (H : Matrix N N ℂ) (hH : Hᴴ = H) (t : ℝ) (φ : d → ℂ) :
    star (E *ᵥ (NormedSpace.exp ((-Complex.I * t) • (Eᴴ * H * E)) *ᵥ φ)) ⬝ᵥ
        (H *ᵥ (E *ᵥ (NormedSpace.exp ((-Complex.I * t) • (Eᴴ * H * E)) *ᵥ φ))) =
      star (E *ᵥ φ) ⬝ᵥ (H *ᵥ (E *ᵥ φ)) :=
  Ptn.Analysis.local_flow_energy E H hH t φ

open Matrix in
/-- Rank-adaptive BUG: every new basis contains the old one (it is an orthonormal basis of the span
    of the old basis and the evolved one, i.e. `Eold = Enew * M` with `M` the basis-change
    tensor), so the Galerkin initial value `Enewᴴ ψ` represents the old state exactly. -/
theorem augmented_basis_reproduces_state {N d d' : Type} [Fintype N] [Fintype d] [Fintype d']
    [DecidableEq d'] (Enew : Matrix N d' ℂ) (Eold : Matrix N d ℂ) (M : Matrix d' d ℂ)
    (hE : Enewᴴ * Enew = 1) (hM : Eold = Enew * M) (φ : d → ℂ) :
    Enew *ᵥ (Enewᴴ *ᵥ (Eold *ᵥ φ)) = Eold *ᵥ φ :=
  Ptn.Analysis.galerkin_initial_value_of_factor Enew Eold M hE hM φ

open Matrix in
/-- Fixed-rank BUG: projecting onto the new bases and evolving with the projected Hamiltonian never
    increases the norm. -/
theorem fixed_rank_step_nonexpansive {N d : Type} [Fintype N] [Fintype d] [DecidableEq N]
    [DecidableEq d] (E : Matrix N d ℂ) (H : Matrix N N ℂ) (hE : Eᴴ * E = 1) (hH : Hᴴ = H) (t : ℝ)
    (ψ : N → ℂ) :
    RCLike.re (star (E *ᵥ (NormedSpace.exp ((-Complex.I * (t : ℂ)) • (Eᴴ * H * E)) *ᵥ (Eᴴ *ᵥ ψ))) ⬝ᵥ
        (E *ᵥ (NormedSpace.exp ((-Complex.I * (t : ℂ)) • (Eᴴ * H * E)) *ᵥ (Eᴴ *ᵥ ψ))))
      ≤ RCLike.re (star ψ ⬝ᵥ ψ) :=
  Ptn.Analysis.fixed_rank_step_nonexpansive E H hE hH t ψ

/-! ### Gauge: the returned state is canonical at the root (both variants, every tree)

The machine of `GaugeModel.lean` follows `root_update` / `update_node` event by event; `fixed` is
`bug_config.fixed_rank` (it selects the QR mode of the centre moves and whether the basis is augmented,
not the order of events). -/

open Ptn.C17 Ptn.C17.RTree in
/-- **After one BUG step the state is canonical at the root.**  For every well-formed tree (one node
    included), both variants and ANY gauge recorded before the step: the machine runs through (no assertion
    of the code fails, no `contract_all_children` swallows a real node), afterwards the root carries no
    isometry record (it holds the evolved centre tensor), every other node is recorded as an isometric QR
    factor toward its PARENT, no basis-change node is left in the state (identifiers are the old ones) and
    only the frame of the start state remains; records of identifiers outside the tree are untouched. -/
theorem bug_step_canonical_at_root (fixed : Bool) (t : RTree) (hwf : t.WF) (dir0 : Nat → Option Nat) :
    ∃ s, Gauge.run (Gauge.start dir0 t) (Gauge.bugEvents fixed t) = some s ∧
      s.dir t.rid = none ∧ (∀ e ∈ edges t, s.dir e.2 = some e.1) ∧
      s.pend = [] ∧ s.frames = [t.rid] ∧ (∀ x, x ∉ ids t → s.dir x = dir0 x) :=
  Gauge.root_runs fixed t hwf dir0

open Ptn.C17 Ptn.C17.RTree in
/-- The QR events of a step are one per non-root node, in post-order (children before parents), each
    toward the parent, augmented exactly for the rank-adaptive variant; the centre moves on the working
    copies are the tree edges parent -> child in pre-order, in `KEEP` mode exactly for fixed rank. -/
theorem bug_step_qr_events (fixed : Bool) (t : RTree) :
    (Gauge.bugEvents fixed t).filterMap Gauge.qrOf =
        (upKeysL t.rid t.kids).map (fun e => (e.1, e.2, !fixed)) ∧
    (Gauge.bugEvents fixed t).filterMap Gauge.moveOf = (edges t).map (fun e => (e.1, e.2, fixed)) :=
  ⟨Gauge.root_qr_events fixed t, Gauge.root_move_events fixed t⟩

open Ptn.C17 Ptn.C17.RTree Ptn.C03 in
/-- **The truncation pass of rank-adaptive BUG keeps the state canonical at the root**
    (`recursive_truncation` after the repair 42696fe: `truncate_node` contracts projectors into the tensors,
    so no isometry record survives - the start `fun _ => none` -, then `tree.canonical_form(root_id)`).
    With `dist` the table of `distance_to_node(root)`: no neighbour lookup of `canonical_form` fails and
    afterwards every non-root node is recorded as an isometry toward its parent, the root carries no record.
    (The structure is unchanged by the pass: `Ptn.C10.recursive_truncation_structure`.) -/
theorem rank_adaptive_truncation_keeps_canonical (t : RTree) (hwf : t.WF) :
    ∃ dist : Dist, distanceToNode t t.rid = some dist ∧ canonComplete dist (nbrsOf t) = true ∧
      (∀ e ∈ edges t, applyOps (fun _ => none) (canonOps dist (nbrsOf t)) e.2 = some e.1) ∧
      applyOps (fun _ => none) (canonOps dist (nbrsOf t)) t.rid = none := by
  obtain ⟨dist, hd, _, _, hcomp, hdir, hroot⟩ := canon_gauge_tree t hwf t.rid (rid_mem_ids t)
  refine ⟨dist, hd, hcomp, ?_, hroot⟩
  intro e he
  obtain ⟨p, c⟩ := e
  have hc := (edge_mem_ids he).2
  have hpd : pathDown t.rid t = some [t.rid] := by cases t; simp [rid]
  have hne : c ∉ [t.rid] := by
    intro h
    have hc' : c = t.rid := by simpa using h
    have := (edges_mem.1 t p c he).2
    cases t with
    | node r ks =>
      simp only [rid] at hc'
      subst hc'
      have hnd : (c :: idsL ks).Nodup := by simpa [WF] using hwf
      exact (List.nodup_cons.mp hnd).1 (by simpa [kids] using this)
  obtain ⟨rest, hpath⟩ := next_hop_up hwf hpd hne he
  obtain ⟨v, hv, hdv⟩ := hdir c hc (fun h => hne (by simp [h]))
  rw [firstHop_of_path hpath] at hv
  simp only [Option.some.injEq] at hv
  subst hv
  exact hdv

/-! ### Completion, structure and shapes

The structural statements are about the C02 model of `TreeTensorNetwork` (`Ptn/C09/Structure.lean`): the edits
`root_update` / `update_node` apply to `new_state`. -/

open Ptn.C17 Ptn.C17.RTree in
/-- **A step completes on every tree** (one node included), both variants, as far as the cache machine and the
    gauge machine can tell: no cache lookup fails (every read returns a block of the generation the scheme asks
    for), no assertion about the orthogonality centre fails, `contract_all_children` only ever meets
    basis-change nodes, and at the end no basis-change node and no working copy is left.
    Superseded by `bug_step_completes` (below), which adds what was missing here: the edits of the C02 structural
    model (`splitNodes`, `contractNodes`, `replaceTensorPermuted`) return a network at every event of the step. -/
theorem bug_step_completes_partial (fixed : Bool) (t : RTree) (hwf : t.WF) :
    (∀ e ∈ Env.bugRun t, Env.GoodEv e) ∧
    (∀ dir0, ∃ s, Gauge.run (Gauge.start dir0 t) (Gauge.bugEvents fixed t) = some s ∧
      s.pend = [] ∧ s.frames = [t.rid]) := by
  refine ⟨Env.bug_env_sources t hwf, fun dir0 => ?_⟩
  obtain ⟨s, h1, _, _, h4, h5, _⟩ := Gauge.root_runs fixed t hwf dir0
  exact ⟨s, h1, h4, h5⟩

open Ptn.C02 in
/-- **`split_node_replace` of a BUG step** (`c` any non-root node, `b` its unused basis-change identifier, any
    new rank `bd`): the result is well-formed and label-consistent with the same root; the basis-change node `b`
    takes the place of `c` below the parent `p` and has `c` as its only child, `c` keeps its children list; every
    node keeps exactly its open axes; `b` has exactly two legs - the old parent leg of `c` (same label and
    dimension) and the new bond of dimension `bd` - and `c` has the new bond and, toward its children, exactly the
    legs it had. -/
theorem bug_split_structure {t t1 : TTN} {c b : Id} {bd : Nat} (h : t.WF) (hl : t.LWF)
    (hfresh : t.N b = none) (hs : bugSplit t c b bd = some t1) :
    t1.WF ∧ t1.LWF ∧ t1.root = t.root ∧ (∀ k, t1.openAxes k = t.openAxes k) ∧
    ∃ C p, t.N c = some C ∧ C.parent = some p ∧ t1.S = splitS t.S c b c (some p) [] C.children ∧
      (∀ x ax, t1.Leg b x ax ↔ ((x = c ∧ ax = ⟨t.nextLabel, bd⟩) ∨ (x = p ∧ t.Leg c x ax))) ∧
      (∀ x ax, t1.Leg c x ax ↔ ((x = b ∧ ax = ⟨t.nextLabel, bd⟩) ∨ (x ∈ C.children ∧ t.Leg c x ax))) := by
  obtain ⟨C, p, hC, hp, hsp⟩ := bugSplit_eq hs
  obtain ⟨w, S1, R1⟩ := bug_split_full (TTN.WFX.ofLWF h hl) hC hp hfresh hsp
  obtain ⟨l1, l2⟩ := bug_split_legs h hC hp hfresh hsp
  exact ⟨w.wf, w.lwf trivial, R1, w.op trivial, C, p, hC, hp, S1, l1, l2⟩

open Ptn.C02 in
/-- **Fixed-rank BUG keeps the shape of the tensor it replaces** - for the replacement itself.  The hypothesis is
    what the code enforces of the QR in `KEEP` mode (`assert new_basis_tensor.shape == updated_tensor.shape`;
    `tensor_qr_decomposition(…, mode=SplitMode.KEEP)` for a leaf): the new rank `bd` is the dimension of the old
    parent leg of `c`.  Then the new basis tensor at `c` has, leg by leg, the dimensions of the old tensor (parent
    side `bd`, children legs and open axes identical) and the basis-change tensor is `bd × bd`.
    This is the statement for ONE replacement; `fixed_bug_keeps_shapes` (below) carries it through the absorption
    and the whole step in the order of the code. -/
theorem fixed_bug_keeps_shapes_partial {t t1 : TTN} {c b p : Id} {C : NodeS} {bd : Nat} {lab : Label}
    (h : t.WF) (hl : t.LWF) (hfresh : t.N b = none) (hC : t.N c = some C) (hp : C.parent = some p)
    (hqr : t.Leg c p ⟨lab, bd⟩) (hs : bugSplit t c b bd = some t1) :
    t1.Leg c b ⟨t.nextLabel, bd⟩ ∧ t1.Leg b c ⟨t.nextLabel, bd⟩ ∧ t1.Leg b p ⟨lab, bd⟩ ∧
    (∀ x ∈ C.children, ∀ ax, t1.Leg c x ax ↔ t.Leg c x ax) ∧ (∀ k, t1.openAxes k = t.openAxes k) := by
  obtain ⟨_, _, _, ho, C', p', hC', hp', _, l1, l2⟩ := bug_split_structure h hl hfresh hs
  rw [hC] at hC'; simp at hC'; subst hC'
  rw [hp] at hp'; simp at hp'; subst hp'
  refine ⟨(l2 b _).mpr (Or.inl ⟨rfl, rfl⟩), (l1 c _).mpr (Or.inl ⟨rfl, rfl⟩),
    (l1 p _).mpr (Or.inr ⟨rfl, hqr⟩), ?_, ho⟩
  intro x hx ax
  rw [l2 x ax]
  constructor
  · rintro (⟨e, _⟩ | ⟨_, h2⟩)
    · exfalso
      subst e
      obtain ⟨cch, hcc⟩ := h.str.down c _ _ x (TTN.S_eq hC) hx
      rw [TTN.S, hfresh] at hcc; simp at hcc
    · exact h2
  · exact fun h2 => Or.inr ⟨hx, h2⟩

open Ptn.C02 in
/-- **One absorption of `contract_all_children(p)`**, at any later time (the literal, delayed one): in a
    well-formed, label-consistent state in which the basis-change node `b` (no open axis) hangs below `p` with the
    single child `c`, `contract_nodes(p, b, new_identifier=p)` removes `b`, makes `c` the LAST child of `p` with
    `p` as its parent, changes nothing else in the structure and keeps every open axis. -/
theorem bug_absorb_structure {t t' : TTN} {p b c : Id} {gp : Option Id} {L cch : List Id} (h : t.WF) (hl : t.LWF)
    (hP : t.S p = some (gp, L)) (hB : t.S b = some (some p, [c])) (hC : t.S c = some (some b, cch))
    (hopen : t.openAxes b = []) (hs : bugAbsorbOne t p b = some t') :
    t'.WF ∧ t'.LWF ∧ t'.root = t.root ∧ (∀ k, t'.openAxes k = t.openAxes k) ∧
    t'.S = fun k => if k = p then some (gp, L.erase b ++ [c]) else if k = b then none
             else if k = c then some (some p, cch) else t.S k := by
  obtain ⟨w, R, S'⟩ := trunc_step2 (TTN.WFX.ofLWF h hl) hP hB hC (fun _ => hopen) hs
  exact ⟨w.wf, w.lwf trivial, R, w.op trivial, S'⟩

open Ptn.C02 in
/-- **Basis update of a node and absorption of its basis-change tensor into the parent** (`split_node_replace`,
    then the `contract_nodes(parent, c_basis_change_tensor, new_identifier=parent)` of
    `contract_all_children(parent)`): well-formed, label-consistent result, same root; `c` has become the LAST
    child of its parent and nothing else has changed in the structure; every node keeps exactly its open axes. -/
theorem bug_basis_up_structure {t t' : TTN} {c b : Id} {bd : Nat} (h : t.WF) (hl : t.LWF)
    (hfresh : t.N b = none) (hs : bugBasisUp t c b bd = some t') :
    t'.WF ∧ t'.LWF ∧ t'.root = t.root ∧ (∀ k, t'.openAxes k = t.openAxes k) ∧
    ∃ C P p, t.N c = some C ∧ C.parent = some p ∧ t.N p = some P ∧ c ∈ P.children ∧
      (∀ k, k ≠ p → t'.S k = t.S k) ∧ t'.S p = some (P.parent, P.children.erase c ++ [c]) := by
  obtain ⟨w, R, C, p, hC, hp, S'⟩ := bug_basis_up_full (TTN.WFX.ofLWF h hl) hfresh hs
  obtain ⟨P, hP, hm⟩ := parent_node h hC hp
  exact ⟨w.wf, w.lwf trivial, R, w.op trivial, C, P, p, hC, hp, hP, hm, demote_explicit hP S'⟩

open Ptn.C02 in
/-- **Structure of a BUG step** for any sequence of the edits of `root_update` in which every basis-change tensor
    is absorbed into the parent right after the split that creates it (pulls, tensor reads, basis updates, the
    final `replace_tensor` of the root; any new ranks): the state stays well-formed and label-consistent; same
    root, same identifiers, same parent of every node, same children up to order; **every node keeps exactly its
    open axes (labels, order, dimensions) - only bond dimensions change**.
    This theorem is about runs in which every basis-change tensor is absorbed at once (hence `_partial`); the
    literal order of the code - basis-change nodes of finished siblings pending while a later sibling's subtree is
    edited, `contract_all_children` after the loop - is `bug_step_structure` (below), which also proves that every
    edit succeeds. -/
theorem bug_step_structure_partial {t t' : TTN} {es : List BugEvent} (h : t.WF) (hl : t.LWF)
    (hr : BugRun t es t') :
    t'.WF ∧ t'.LWF ∧ t'.root = t.root ∧
    (∀ k, t'.N k = none ↔ t.N k = none) ∧
    (∀ k n, t.N k = some n →
      ∃ n', t'.N k = some n' ∧ n'.parent = n.parent ∧ n'.children.Perm n.children) ∧
    (∀ k, t'.openAxes k = t.openAxes k) := by
  obtain ⟨w, R, E⟩ := bug_run_wfx (TTN.WFX.ofLWF h hl) hr
  exact ⟨w.wf, w.lwf trivial, R, (treeEq_explicit E).1, (treeEq_explicit E).2, w.op trivial⟩

open Ptn.C17 Ptn.C17.RTree Ptn.C02 in
/-- **Structure of a BUG step in the order of the code** (both variants, every tree with distinct identifiers, one
    node included; any ranks `bdim` of the new bases, any leg permutations of the pulls).  `T` lists the children of
    every node in the order in which `root_update` / `update_node` visit them (`frozenset` order), `t0` is a
    well-formed, label-consistent network that holds this tree (`Step.Rep`: same root, same parent of every node, the
    children LIST of every node is the list of its kids up to order); the identifiers `bid c` of the basis-change
    nodes are unused and pairwise different.  The events are those the gauge machine emits (`Gauge.bugEvents`), every
    event with its edit of `new_state` on the C02 model (`Step.sEdit`: `replace_tensor` for a pull,
    `contract_all_children` - the loop over the children list at call time - for `absorb`, a tensor read for
    `evolve`, `split_node_replace` for `basis`, `replace_tensor` for `store`).  Then
    * **every structural edit succeeds** and after the whole step nothing is pending, the network is well-formed and
      label-consistent, has the same root and EXACTLY the structure map it had (identifiers, parent of every node and
      the children lists, order included - stronger than "up to order") and every node keeps exactly its open axes;
    * **at every intermediate state** (after every prefix of the event sequence) both machines have run through, the
      network is well-formed and label-consistent with the same root and open axes, and **the basis-change nodes
      present are exactly the `pend` of the gauge machine**: for every pending `(c, p)` the node `bid c` hangs below
      `p` with the single child `c`; a node exists iff it is an original node or `bid c` of a pending `c`; every
      original node has its original parent - or its basis-change node while that is pending - and its original
      children list with the pending children replaced, in place, by their basis-change nodes. -/
theorem bug_step_structure (fixed : Bool) (T : RTree) (hwf : T.WF) {t0 : TTN} (h : t0.WF) (hl : t0.LWF)
    (hrep : Step.Rep t0 T) (P : Step.Params)
    (hfresh : ∀ c ∈ ids T, t0.N (P.bid c) = none)
    (hinj : ∀ c ∈ ids T, ∀ c' ∈ ids T, P.bid c = P.bid c' → c = c')
    (hperm : ∀ c l, P.perm c = some l →
      l.Perm (List.range l.length) ∧ ∀ n, t0.N c = some n → l.length = n.nlegs)
    (dir0 : Nat → Option Nat) :
    (∃ g' t', Gauge.run (Gauge.start dir0 T) (Gauge.bugEvents fixed T) = some g' ∧
        Step.sRun P t0 (Gauge.bugEvents fixed T) = some t' ∧ g'.pend = [] ∧
        t'.WF ∧ t'.LWF ∧ t'.root = t0.root ∧ t'.S = t0.S ∧ (∀ k, t'.openAxes k = t0.openAxes k)) ∧
    (∀ es₁ es₂, Gauge.bugEvents fixed T = es₁ ++ es₂ →
      ∃ g t, Gauge.run (Gauge.start dir0 T) es₁ = some g ∧ Step.sRun P t0 es₁ = some t ∧
        t.WF ∧ t.LWF ∧ t.root = t0.root ∧ (∀ k, t.openAxes k = t0.openAxes k) ∧
        (∀ e ∈ g.pend, ∃ ch, t0.S e.1 = some (some e.2, ch) ∧ t.S (P.bid e.1) = some (some e.2, [e.1])) ∧
        (∀ k, t.N k ≠ none ↔ (t0.N k ≠ none ∨ ∃ e ∈ g.pend, k = P.bid e.1)) ∧
        (∀ k pp ch, t0.S k = some (pp, ch) →
          t.S k = some (if k ∈ g.pend.map Prod.fst then some (P.bid k) else pp,
            ch.map fun c => if c ∈ g.pend.map Prod.fst then P.bid c else c))) := by
  have X : Step.Ctx P t0 (fun x => x ∈ ids T) := ⟨h, hl, hfresh, fun c c' hc hc' => hinj c hc c' hc', hperm⟩
  obtain ⟨g', t', hT, hp, _, hS⟩ := Step.root_thru T X fixed hwf hrep dir0
  constructor
  · obtain ⟨hg, ht⟩ := Step.jrun_split hT.jrun
    have q := hT.last
    exact ⟨g', t', hg, ht, hp, q.wfx.wf, q.wfx.lwf trivial, q.root, hS, q.wfx.op trivial⟩
  · intro es₁ es₂ hes
    rw [hes] at hT
    obtain ⟨⟨g, t⟩, hj, q⟩ := hT.pre
    obtain ⟨hg, ht⟩ := Step.jrun_split hj
    have q : Step.Q P t0 (fun x => x ∈ ids T) g t := q
    have hsub : ∀ c, Step.sub P.bid (Step.PD g) c = if c ∈ g.pend.map Prod.fst then P.bid c else c := by
      intro c
      by_cases hc : c ∈ g.pend.map Prod.fst
      · rw [Step.sub_pos (D := Step.PD g) hc, if_pos hc]
      · rw [Step.sub_neg (D := Step.PD g) hc, if_neg hc]
    have hsubP : ∀ k pp, Step.subP P.bid (Step.PD g) k pp =
        if k ∈ g.pend.map Prod.fst then some (P.bid k) else pp := by
      intro k pp
      by_cases hc : k ∈ g.pend.map Prod.fst
      · rw [Step.subP_pos (D := Step.PD g) hc, if_pos hc]
      · rw [Step.subP_neg (D := Step.PD g) hc, if_neg hc]
    refine ⟨g, t, hg, ht, q.wfx.wf, q.wfx.lwf trivial, q.root, q.wfx.op trivial, ?_, ?_, ?_⟩
    · intro e he
      obtain ⟨_, ch, hpar⟩ := q.par e he
      exact ⟨ch, hpar, q.pinv.bc e.1 (List.mem_map.mpr ⟨e, he, rfl⟩) e.2 ch hpar⟩
    · intro k
      constructor
      · intro hk
        by_cases h0 : t0.N k = none
        · right
          apply Classical.byContradiction
          intro hne
          apply hk
          apply N_none_of_S
          refine q.pinv.other k (Step.S_none_of_N' h0) ?_
          intro c hc e
          obtain ⟨e', he', rfl⟩ := List.mem_map.mp hc
          exact hne ⟨e', he', e⟩
        · exact Or.inl h0
      · rintro (h0 | ⟨e, he, rfl⟩)
        · cases hk : t0.N k with
          | none => exact absurd hk h0
          | some n =>
            have := q.pinv.nodes k _ _ (TTN.S_eq hk)
            intro hn
            rw [Step.S_none_of_N' hn] at this
            simp at this
        · obtain ⟨_, ch, hpar⟩ := q.par e he
          have := q.pinv.bc e.1 (List.mem_map.mpr ⟨e, he, rfl⟩) e.2 ch hpar
          intro hn
          rw [Step.S_none_of_N' hn] at this
          simp at this
    · intro k pp ch hk
      rw [q.pinv.nodes k pp ch hk, hsubP]
      congr 2
      exact List.map_congr_left fun c _ => hsub c

open Ptn.C17 Ptn.C17.RTree Ptn.C02 in
/-- **A step completes on every tree** (one node included), both variants: no cache lookup fails (every read
    returns a block of the generation the scheme asks for), no assertion about the orthogonality centre fails,
    `contract_all_children` only ever meets basis-change nodes, no basis-change node and no working copy is left,
    and **every edit of `new_state` succeeds on the C02 model** of `TreeTensorNetwork` - `replace_tensor`,
    `contract_nodes`, `split_node_replace` never take an exception branch - for every well-formed, label-consistent
    network that holds the tree, any new ranks and any leg permutations of the pulls (the hypotheses are those of
    `bug_step_structure`: what `basis_change_tensor_id` / `relative_leg_permutation` guarantee).  What stays outside:
    the numerical routines (QR, `expm`, the contractions of the effective Hamiltonian) are not modelled. -/
theorem bug_step_completes (fixed : Bool) (T : RTree) (hwf : T.WF) {t0 : TTN} (h : t0.WF) (hl : t0.LWF)
    (hrep : Step.Rep t0 T) (P : Step.Params)
    (hfresh : ∀ c ∈ ids T, t0.N (P.bid c) = none)
    (hinj : ∀ c ∈ ids T, ∀ c' ∈ ids T, P.bid c = P.bid c' → c = c')
    (hperm : ∀ c l, P.perm c = some l →
      l.Perm (List.range l.length) ∧ ∀ n, t0.N c = some n → l.length = n.nlegs) :
    (∀ e ∈ Env.bugRun T, Env.GoodEv e) ∧
    (∀ dir0, ∃ s, Gauge.run (Gauge.start dir0 T) (Gauge.bugEvents fixed T) = some s ∧
      s.pend = [] ∧ s.frames = [T.rid]) ∧
    (∃ t', Step.sRun P t0 (Gauge.bugEvents fixed T) = some t' ∧ t'.WF ∧ t'.LWF) := by
  refine ⟨Env.bug_env_sources T hwf, fun dir0 => ?_, ?_⟩
  · obtain ⟨s, h1, _, _, h4, h5, _⟩ := Gauge.root_runs fixed T hwf dir0
    exact ⟨s, h1, h4, h5⟩
  · obtain ⟨⟨_, t', _, ht, _, w, l, _⟩, _⟩ :=
      bug_step_structure fixed T hwf h hl hrep P hfresh hinj hperm (fun _ => none)
    exact ⟨t', ht, w, l⟩

/-- **No bond above the configured maximum after the truncation pass** - for the selection rule.  Every
    truncation of `recursive_truncation` keeps, of a non-empty descending non-negative spectrum, a prefix of
    length between 1 and `max_bond_dim` (`Ptn.C10.trunc_is_prefix`); that length is the dimension of the bond
    after `truncate_node`.
    This is the selection rule alone (hence `_partial`); that the bonds of the returned state ARE these lengths is
    `rank_adaptive_bonds_le` (below, through `Ptn.C10.recursive_truncation_bonds_le`). -/
theorem rank_adaptive_bonds_le_partial (s : List Rat) (p : Ptn.C10.Params) (D : Nat) (hs : s ≠ [])
    (hnn : Ptn.C10.NonNeg s) (hd : Ptn.C10.Desc s) (hp : p.Valid) (hD : p.maxBond = some D) :
    ∃ kept disc, Ptn.C10.truncate s p = some (kept, disc) ∧ 1 ≤ kept.length ∧ kept.length ≤ D := by
  obtain ⟨k, h1, h2, h3, hcase⟩ := Ptn.C10.trunc_is_prefix s p hs hnn hd hp
  have hk : k ≤ D := h3 D hD
  rcases hcase with ⟨_, ht⟩ | ⟨_, _, ht⟩
  · exact ⟨_, _, ht, by simp; omega, by simp; omega⟩
  · exact ⟨_, _, ht, by simp; omega, by simp; omega⟩

open Ptn.C17 Ptn.C17.RTree Ptn.C02 in
/-- **Fixed-rank BUG keeps ALL shapes, through the whole step.**  The step of `bug_step_structure` in the fixed-rank
    variant (`fixed = true`: `KEEP`-mode centre moves, no augmentation), under the one contract of the external QR
    the code itself asserts (`assert new_basis_tensor.shape == updated_tensor.shape` in
    `compute_fixed_size_new_basis_tensor`; `tensor_qr_decomposition(…, mode=SplitMode.KEEP)` for a leaf): the rank
    `bdim c` of every new basis is the dimension of the old parent leg of `c`.  Then the step runs through and in
    the returned network - same root, same structure map - EVERY virtual leg of EVERY node has the dimension of the
    same leg before the step, every node has exactly its open axes, hence **the recorded shape of every node
    (`Node.shape`, all legs in order) equals its shape before the step**.  The bond dimensions are followed event by
    event: the new bond `c - bid c` gets the old dimension, the basis-change node keeps the old parent leg, the
    absorption `contract_nodes(p, bid c)` hands the leg of `c` over to `p` (`Step.DimInvD`, an invariant of EVERY
    intermediate state: both bonds next to a pending basis-change node have the old dimension). -/
theorem fixed_bug_keeps_shapes (T : RTree) (hwf : T.WF) {t0 : TTN} (h : t0.WF) (hl : t0.LWF)
    (hrep : Step.Rep t0 T) (P : Step.Params)
    (hfresh : ∀ c ∈ ids T, t0.N (P.bid c) = none)
    (hinj : ∀ c ∈ ids T, ∀ c' ∈ ids T, P.bid c = P.bid c' → c = c')
    (hperm : ∀ c l, P.perm c = some l →
      l.Perm (List.range l.length) ∧ ∀ n, t0.N c = some n → l.length = n.nlegs)
    (hkeep : ∀ c ∈ ids T, ∀ p ch ax0, t0.S c = some (some p, ch) → t0.Leg c p ax0 → P.bdim c = ax0.dim) :
    (∃ t', Step.sRun P t0 (Gauge.bugEvents true T) = some t' ∧ t'.WF ∧ t'.LWF ∧ t'.root = t0.root ∧
      t'.S = t0.S ∧ (∀ k, t'.openAxes k = t0.openAxes k) ∧
      (∀ k x ax, t'.Leg k x ax → ∃ ax0, t0.Leg k x ax0 ∧ ax0.dim = ax.dim) ∧
      (∀ k n, t0.N k = some n → ∃ n', t'.N k = some n' ∧ n'.parent = n.parent ∧ n'.children = n.children ∧
        n'.shape = n.shape)) ∧
    (∀ es₁ es₂, Gauge.bugEvents true T = es₁ ++ es₂ →
      ∃ g t, Gauge.run (Gauge.start (fun _ => none) T) es₁ = some g ∧ Step.sRun P t0 es₁ = some t ∧
        ∀ c p ch ax0, t0.S c = some (some p, ch) → t0.Leg c p ax0 →
          (c ∉ g.pend.map Prod.fst → ∃ ax, t.Leg c p ax ∧ ax.dim = ax0.dim) ∧
          (c ∈ g.pend.map Prod.fst → (∃ ax, t.Leg c (P.bid c) ax ∧ ax.dim = ax0.dim) ∧
            ∃ ax, t.Leg (P.bid c) p ax ∧ ax.dim = ax0.dim)) := by
  have X : Step.Ctx P t0 (fun x => x ∈ ids T) := ⟨h, hl, hfresh, fun c c' hc hc' => hinj c hc c' hc', hperm⟩
  obtain ⟨g', t', hT, hp, _, hS⟩ := Step.root_thru T X true hwf hrep (fun _ => none)
  obtain ⟨_, ht⟩ := Step.jrun_split hT.jrun
  have q : Step.Q P t0 (fun x => x ∈ ids T) g' t' := hT.last
  have hK : Step.KeepRanks P t0 (fun x => x ∈ ids T) := fun c p ch ax0 hc hS0 hl0 => hkeep c hc p ch ax0 hS0 hl0
  have hnp : ∀ c, ¬ Step.PD g' c := by intro c hc; simp [Step.PD, hp] at hc
  have hpar : ∀ c p ch ax0, t0.S c = some (some p, ch) → t0.Leg c p ax0 →
      ∃ ax, t'.Leg c p ax ∧ ax.dim = ax0.dim := fun c p ch ax0 hS0 hl0 =>
    (q.dim hK c p ch ax0 hS0 hl0).1 (hnp c)
  have w' := q.wfx.wf
  have l' := q.wfx.lwf trivial
  have hlegs := Step.legs_of_parent_legs h hl w' l' hS hpar
  refine ⟨⟨t', ht, w', l', q.root, hS, q.wfx.op trivial, hlegs, ?_⟩, ?_⟩
  · intro k n hn
    obtain ⟨n', hn', e1, e2⟩ := (S_eq_explicit hS).2 k n hn
    exact ⟨n', hn', e1, e2, Step.shape_eq_of_legs h w' hn hn' e1 e2 (hlegs k) (q.wfx.op trivial k)⟩
  · intro es₁ es₂ hes
    rw [hes] at hT
    obtain ⟨⟨g, t⟩, hj, q1⟩ := hT.pre
    obtain ⟨hg, ht1⟩ := Step.jrun_split hj
    have q1 : Step.Q P t0 (fun x => x ∈ ids T) g t := q1
    exact ⟨g, t, hg, ht1, q1.dim hK⟩

open Ptn.C17 Ptn.C17.RTree Ptn.C02 in
/-- **No bond above `max_bond_dim` in the state a rank-adaptive step returns** (structural model).  The step of
    `bug_step_structure` with the augmented bases (`fixed = false`, any new ranks `bdim` - they may exceed the
    maximum) runs through and yields a well-formed, label-consistent network `t1`; `recursive_truncation` on it (C02
    model `recursiveTruncation`, run with the numbers of singular values the selection model of C10 keeps:
    `spec c` = any non-empty, non-negative, descending spectrum for the bond above `c`, `p` any valid parameter
    object with `max_bond_dim = D`) returns, whenever it returns, a well-formed, label-consistent network with the
    root, the structure map and the open axes of the state BEFORE the step in which EVERY virtual leg of EVERY node
    has a dimension between 1 and `D` - the bond above the non-root node `c` has exactly dimension
    `keptDim (spec c) p` (`Ptn.C10.recursive_truncation_bonds_le`, which discharges the connection between the kept
    counts and the bonds that `rank_adaptive_bonds_le_partial` lacked).
    Premise kept explicit: that the truncation pass returns (C10 has no progress theorem for `insert_identity`; the
    step itself is proved to return).  Not modelled: the `canonical_form` sweeps before / after the pass (reduced
    QRs; `rank_adaptive_truncation_keeps_canonical` is the gauge statement). -/
theorem rank_adaptive_bonds_le (T : RTree) (hwf : T.WF) {t0 : TTN} (h : t0.WF) (hl : t0.LWF)
    (hrep : Step.Rep t0 T) (P : Step.Params)
    (hfresh : ∀ c ∈ ids T, t0.N (P.bid c) = none)
    (hinj : ∀ c ∈ ids T, ∀ c' ∈ ids T, P.bid c = P.bid c' → c = c')
    (hperm : ∀ c l, P.perm c = some l →
      l.Perm (List.range l.length) ∧ ∀ n, t0.N c = some n → l.length = n.nlegs)
    (spec : Id → List Rat) (p : Ptn.C10.Params) (D : Nat) (hp : p.Valid) (hD : p.maxBond = some D)
    (hspec : ∀ c, spec c ≠ [] ∧ Ptn.C10.NonNeg (spec c) ∧ Ptn.C10.Desc (spec c)) :
    ∃ t1, Step.sRun P t0 (Gauge.bugEvents false T) = some t1 ∧ t1.WF ∧ t1.LWF ∧
      ∀ t2, t1.recursiveTruncation (fun c => Ptn.C10.keptDim (spec c) p) = some t2 →
        t2.WF ∧ t2.LWF ∧ t2.root = t0.root ∧ t2.S = t0.S ∧ (∀ k, t2.openAxes k = t0.openAxes k) ∧
        (∀ k x ax, t2.Leg k x ax → ∃ c, (c = k ∨ c = x) ∧ ax.dim = Ptn.C10.keptDim (spec c) p) ∧
        (∀ k x ax, t2.Leg k x ax → 1 ≤ ax.dim ∧ ax.dim ≤ D) ∧
        (∀ e ∈ t2.nodes, ∀ q ∈ t2.legPairs e.1, q.2.dim ≤ D) := by
  obtain ⟨⟨_, t1, _, ht, _, w1, l1, R1, S1, O1⟩, _⟩ :=
    bug_step_structure false T hwf h hl hrep P hfresh hinj hperm (fun _ => none)
  refine ⟨t1, ht, w1, l1, ?_⟩
  intro t2 hs
  obtain ⟨hk, ⟨w2, l2, R2, _, O2⟩, hb, hle⟩ :=
    Ptn.C10.recursive_truncation_bonds_le spec p D hp hD hspec w1 l1 hs
  obtain ⟨_, _, _, S2, _⟩ := recursive_truncation_labels w1 l1 hs
  refine ⟨w2, l2, R2.trans R1, S2.trans S1, fun k => (O2 k).trans (O1 k), hb, ?_, hle⟩
  intro k x ax hleg
  obtain ⟨c, _, e⟩ := hb k x ax hleg
  rw [e]
  exact ⟨(hk c).1, (hk c).2.1⟩

/-! ### Non-vacuity: root 0 with children 1 (leaf) and 2 (with child 3) -/

def exTree : Tree :=
  .node 0 (.cons (.node 1 .nil) (.cons (.node 2 (.cons (.node 3 .nil) .nil)) .nil))

example : exTree.updates = [1, 3, 2, 0] ∧ exTree.ids.Nodup := by decide
example : exTree.edges = [(0, 1), (0, 2), (2, 3)] := by decide
example : exTree.moves = [(0, 1), (0, 2), (2, 3)] := by decide

/-- the same tree in the C17 vocabulary -/
def exR : Ptn.C17.RTree := .node 0 [.node 1 [], .node 2 [.node 3 []]]

example : exR.WF := by decide
/-- a start gauge that is NOT canonical at the root (everything points away): the step repairs it -/
example : (Gauge.run (Gauge.start (fun n => if n = 0 then some 2 else if n = 2 then some 3 else none) exR)
    (Gauge.bugEvents false exR)).map (fun s => ([0, 1, 2, 3].map s.dir, s.pend, s.frames)) =
    some ([none, some 0, some 0, some 2], [], [0]) := by decide
example : (Gauge.bugEvents true exR).filterMap Gauge.qrOf = [(1, 0, false), (3, 2, false), (2, 0, false)] := by
  decide
/-- an order the code does not use (parent's basis before its child's) leaves a basis-change node that is
    never absorbed and a stale frame: the machine is stuck - `bug_step_canonical_at_root` is not vacuous -/
example : Gauge.run (Gauge.start (fun _ => none) exR)
    [.down 0 2 false, .evolve 2, .basis 2 0 true, .down 2 3 false] = none := by decide

/-! #### the structural theorems: root `1` (one open leg) with the leaves `2` (bond 3) and `3` (bond 2) -/

open Ptn.C02 in
def netOps : List TOp :=
  [.root 1 [⟨0, 2⟩, ⟨100, 3⟩, ⟨101, 2⟩],
   .child 2 [⟨100, 3⟩, ⟨1, 2⟩] 0 1 1,
   .child 3 [⟨2, 2⟩, ⟨101, 2⟩] 1 1 2]

open Ptn.C02 in
/-- the network is well-formed and label-consistent, `50` is unused, the leaf `2` has the parent leg
    `⟨100, 3⟩`, and `split_node_replace` with the old rank 3 succeeds: hypotheses of `bug_split_structure` and
    `fixed_bug_keeps_shapes_partial`; the basis-change node `50` then sits between `1` and `2` -/
example : ∃ t t1, TRunL TTN.empty netOps t ∧ t.WF ∧ t.LWF ∧ t.N 50 = none ∧ t.Leg 2 1 ⟨100, 3⟩ ∧
    bugSplit t 2 50 3 = some t1 ∧ t1.S 50 = some (some 1, [2]) ∧ t1.S 2 = some (some 50, []) ∧
    t1.S 1 = some (none, [50, 3]) ∧ t1.openAxes 2 = [⟨1, 2⟩] :=
  ⟨_, _, .cons ⟨rfl, rfl⟩ trivial rfl (.cons trivial ⟨_, rfl, rfl⟩ rfl (.cons trivial ⟨_, rfl, rfl⟩ rfl (.nil _))),
    (builtL_labels (show TRunL TTN.empty netOps _ from
      .cons ⟨rfl, rfl⟩ trivial rfl (.cons trivial ⟨_, rfl, rfl⟩ rfl (.cons trivial ⟨_, rfl, rfl⟩ rfl (.nil _))))).1,
    (builtL_labels (show TRunL TTN.empty netOps _ from
      .cons ⟨rfl, rfl⟩ trivial rfl (.cons trivial ⟨_, rfl, rfl⟩ rfl (.cons trivial ⟨_, rfl, rfl⟩ rfl (.nil _))))).2,
    rfl, by unfold TTN.Leg; decide, rfl, rfl, rfl, rfl, rfl⟩

open Ptn.C02 in
/-- a whole step on it: basis updates of `2` (rank 3 -> 2) and `3` (rank 2 -> 4), pull, read and store at the
    root; `2` and `3` are children of `1` again (each moved to the end when it was absorbed) -/
example : ∃ t t', TRun TTN.empty netOps t ∧
    BugRun t [.basisUp 2 50 2, .basisUp 3 51 4, .pull 1 (some [0, 2, 1]), .access 1, .store 1] t' ∧
    t'.S 1 = some (none, [2, 3]) ∧ t'.S 2 = some (some 1, []) ∧ t'.N 50 = none ∧ t'.N 51 = none :=
  ⟨_, _, .cons ⟨rfl, rfl⟩ rfl (.cons trivial rfl (.cons trivial rfl (.nil _))),
    .cons rfl rfl (.cons rfl rfl (.cons (by intro l hl; cases hl; decide) rfl (.cons trivial rfl
      (.cons trivial rfl (.nil _))))),
    rfl, rfl, rfl, rfl⟩

open Ptn.C02 in
/-- the delayed absorption: both leaves are split first (two basis-change nodes pending), then absorbed in the
    order of the root's children list - hypotheses of `bug_absorb_structure` hold at the first absorption -/
example : ∃ t t1 t2 t3 t4, TRun TTN.empty netOps t ∧ bugSplit t 2 50 2 = some t1 ∧ bugSplit t1 3 51 4 = some t2 ∧
    t2.S 1 = some (none, [50, 51]) ∧ t2.S 50 = some (some 1, [2]) ∧ t2.S 2 = some (some 50, []) ∧
    t2.openAxes 50 = [] ∧ bugAbsorbOne t2 1 50 = some t3 ∧ bugAbsorbOne t3 1 51 = some t4 ∧
    t4.S 1 = some (none, [2, 3]) :=
  ⟨_, _, _, _, _, .cons ⟨rfl, rfl⟩ rfl (.cons trivial rfl (.cons trivial rfl (.nil _))),
    rfl, rfl, rfl, rfl, rfl, rfl, rfl, rfl, rfl⟩

/-! #### the step in the order of the code: root `0` with the children list `[1, 2]`, node `2` with the child `3`;
the recursion visits `2` (and `3`) BEFORE `1` - the visiting order is not the order of the children list -/

open Ptn.C02 in
def netOps2 : List TOp :=
  [.root 0 [⟨0, 2⟩, ⟨100, 3⟩, ⟨101, 2⟩],
   .child 1 [⟨100, 3⟩, ⟨1, 2⟩] 0 0 1,
   .child 2 [⟨101, 2⟩, ⟨2, 2⟩, ⟨102, 2⟩] 0 0 2,
   .child 3 [⟨102, 2⟩, ⟨3, 2⟩] 0 2 2]

def exT2 : Ptn.C17.RTree := .node 0 [.node 2 [.node 3 []], .node 1 []]

/-- basis-change node of `c` is `50 + c`; new ranks 2 (above `1`, was 3), 3 (above `2`, was 2), 4 (above `3`, was 2);
    the pull of the root comes with a non-trivial leg permutation -/
def exP2 : Step.Params := ⟨fun c => 50 + c, fun c => c + 1, fun c => if c = 0 then some [0, 2, 1] else none⟩

open Ptn.C02 Ptn.C17 Ptn.C17.RTree in
/-- the hypotheses of `bug_step_structure` / `bug_step_completes` hold for this network, tree and parameters; before
    `absorb 0` (after 12 of the 15 events) the basis-change nodes `52` (made first) and `51` are BOTH pending below the
    root, at the positions of `2` and `1` in its children list; after the step the children list is `[1, 2]` again -/
example : ∃ t, TRunL TTN.empty netOps2 t ∧ t.WF ∧ t.LWF ∧ exT2.WF ∧ Step.Rep t exT2 ∧
    (∀ c ∈ ids exT2, t.N (exP2.bid c) = none) ∧
    (∀ c ∈ ids exT2, ∀ c' ∈ ids exT2, exP2.bid c = exP2.bid c' → c = c') ∧
    (∀ c l, exP2.perm c = some l →
      l.Perm (List.range l.length) ∧ ∀ n, t.N c = some n → l.length = n.nlegs) ∧
    (Gauge.bugEvents false exT2).length = 15 ∧
    ((Gauge.run (Gauge.start (fun _ => none) exT2) ((Gauge.bugEvents false exT2).take 12)).map (·.pend)) =
      some [(2, 0), (1, 0)] ∧
    ((Step.sRun exP2 t ((Gauge.bugEvents false exT2).take 12)).map fun t' => (t'.S 0, t'.S 52, t'.S 51, t'.S 2)) =
      some (some (none, [51, 52]), some (some 0, [2]), some (some 0, [1]), some (some 52, [3])) ∧
    ((Step.sRun exP2 t (Gauge.bugEvents false exT2)).map fun t' => (t'.S 0, t'.S 52, t'.S 2)) =
      some (some (none, [1, 2]), none, some (some 0, [3])) := by
  have hrun : TRunL TTN.empty netOps2 _ :=
    .cons ⟨rfl, rfl⟩ trivial rfl (.cons trivial ⟨_, rfl, rfl⟩ rfl (.cons trivial ⟨_, rfl, rfl⟩ rfl
      (.cons trivial ⟨_, rfl, rfl⟩ rfl (.nil _))))
  refine ⟨_, hrun, (builtL_labels hrun).1, (builtL_labels hrun).2, by decide, ?_, ?_, ?_, ?_, by decide,
    by decide, rfl, rfl⟩
  · simp only [Step.Rep, exT2, Step.repAt_node, Step.repL_cons, Step.repL_nil, and_true]
    exact ⟨⟨[1, 2], rfl, by decide⟩, ⟨⟨[3], rfl, by decide⟩, ⟨[], rfl, by decide⟩⟩, ⟨[], rfl, by decide⟩⟩
  · intro c hc
    have : c = 0 ∨ c = 2 ∨ c = 3 ∨ c = 1 := by simpa [exT2, ids, idsL] using hc
    rcases this with rfl | rfl | rfl | rfl <;> rfl
  · intro c _ c' _ e
    have e' : 50 + c = 50 + c' := e
    omega
  · intro c l hl
    simp only [exP2] at hl
    split at hl
    · rename_i hc
      subst hc
      simp only [Option.some.injEq] at hl
      subst hl
      refine ⟨by decide, ?_⟩
      intro n hn
      have : n = ⟨[1, 2, 0], [2, 3, 2], none, [1, 2]⟩ := by
        have h0 : _ = some n := hn
        exact (Option.some.inj h0).symm
      subst this
      rfl
    · cases hl

/-- fixed rank on the same network: every new basis has the old bond dimension (3 above `1`, 2 above `2` and `3`) -/
def exP2k : Step.Params :=
  ⟨fun c => 50 + c, fun c => if c = 1 then 3 else 2, fun c => if c = 0 then some [0, 2, 1] else none⟩

set_option maxRecDepth 16384 in
open Ptn.C02 Ptn.C17 Ptn.C17.RTree in
/-- the additional hypothesis of `fixed_bug_keeps_shapes` holds (the other ones do not depend on the ranks: see the
    example above), the step runs through and all four recorded shapes are the ones before the step -/
example : ∃ t, TRunL TTN.empty netOps2 t ∧
    (∀ c ∈ ids exT2, ∀ p ch ax0, t.S c = some (some p, ch) → t.Leg c p ax0 → exP2k.bdim c = ax0.dim) ∧
    ([0, 1, 2, 3].map fun k => (t.N k).map NodeS.shape) =
      [some [3, 2, 2], some [3, 2], some [2, 2, 2], some [2, 2]] ∧
    ((Step.sRun exP2k t (Gauge.bugEvents true exT2)).map fun t' =>
      [0, 1, 2, 3].map fun k => (t'.N k).map NodeS.shape) =
      some [some [3, 2, 2], some [3, 2], some [2, 2, 2], some [2, 2]] := by
  refine ⟨_, .cons ⟨rfl, rfl⟩ trivial rfl (.cons trivial ⟨_, rfl, rfl⟩ rfl (.cons trivial ⟨_, rfl, rfl⟩ rfl
      (.cons trivial ⟨_, rfl, rfl⟩ rfl (.nil _)))), ?_, rfl, rfl⟩
  intro c hc p ch ax0 _ hleg
  have hc' : c = 0 ∨ c = 2 ∨ c = 3 ∨ c = 1 := by simpa [exT2, ids, idsL] using hc
  rcases hc' with rfl | rfl | rfl | rfl
  · have hl' : (p, ax0) ∈ [((1 : Id), (⟨100, 3⟩ : Axis)), (2, ⟨101, 2⟩)] := hleg
    have hS' : some ((none : Option Id), [(1 : Id), 2]) = some (some p, ch) := by assumption
    cases hS'
  · have hl' : (p, ax0) ∈ [((0 : Id), (⟨101, 2⟩ : Axis)), (3, ⟨102, 2⟩)] := hleg
    simp only [List.mem_cons, Prod.mk.injEq, List.mem_nil_iff, or_false] at hl'
    rcases hl' with ⟨_, rfl⟩ | ⟨_, rfl⟩ <;> rfl
  · have hl' : (p, ax0) ∈ [((2 : Id), (⟨102, 2⟩ : Axis))] := hleg
    simp only [List.mem_cons, Prod.mk.injEq, List.mem_nil_iff, or_false] at hl'
    obtain ⟨_, rfl⟩ := hl'
    rfl
  · have hl' : (p, ax0) ∈ [((0 : Id), (⟨100, 3⟩ : Axis))] := hleg
    simp only [List.mem_cons, Prod.mk.injEq, List.mem_nil_iff, or_false] at hl'
    obtain ⟨_, rfl⟩ := hl'
    rfl

set_option maxRecDepth 16384 in
open Ptn.C02 in
/-- `rank_adaptive_bonds_le` on the same network: the step raises the bonds above `2` and `3` to 3 and 4; the
    truncation pass with `max_bond_dim = 2` on the spectra `[4, 2, 1]` returns and leaves every bond with dimension 2 -/
example : ∃ t t1 t2, TRunL TTN.empty netOps2 t ∧ Step.sRun exP2 t (Gauge.bugEvents false exT2) = some t1 ∧
    t1.legPairs 2 = [(0, ⟨1000001, 3⟩), (3, ⟨1000000, 4⟩)] ∧
    (Ptn.C10.exP (some 2) (.fin 0) (.fin 0) false false true).Valid ∧
    Ptn.C10.Desc [4, 2, 1] ∧ Ptn.C10.NonNeg [4, 2, 1] ∧
    t1.recursiveTruncation (fun _ => Ptn.C10.keptDim [4, 2, 1]
      (Ptn.C10.exP (some 2) (.fin 0) (.fin 0) false false true)) = some t2 ∧
    (t2.legPairs 2).map (fun q => (q.1, q.2.dim)) = [(0, 2), (3, 2)] ∧
    (t2.legPairs 0).map (fun q => (q.1, q.2.dim)) = [(1, 2), (2, 2)] :=
  ⟨_, _, _, .cons ⟨rfl, rfl⟩ trivial rfl (.cons trivial ⟨_, rfl, rfl⟩ rfl (.cons trivial ⟨_, rfl, rfl⟩ rfl
      (.cons trivial ⟨_, rfl, rfl⟩ rfl (.nil _)))), rfl, by decide +kernel, by decide +kernel, by decide +kernel,
    by decide +kernel, rfl, by decide +kernel, by decide +kernel⟩

/-- hypotheses of `rank_adaptive_bonds_le_partial`: a valid parameter object with `max_bond_dim = 2` on the
    spectrum `[4, 2, 1]` keeps two values -/
example : Ptn.C10.Desc [4, 2, 1] ∧ Ptn.C10.NonNeg [4, 2, 1] ∧
    (Ptn.C10.exP (some 2) (.fin 0) (.fin 0) false false true).Valid ∧
    (Ptn.C10.truncate [4, 2, 1] (Ptn.C10.exP (some 2) (.fin 0) (.fin 0) false false true)).map
      (fun r => r.1.length) = some 2 := by decide +kernel

end Ptn.C09
