import Ptn.C09.StepEvents
import Ptn.C09.GaugeLemmas
/-! One whole BUG step: the gauge machine and the structural model side by side, in the order of the code,
every intermediate state included (core Lean only). -/
namespace Ptn.C09.Step
open Ptn.C02 Ptn.C02.NodeS Ptn.C09.Gauge Ptn.C17 Ptn.C17.RTree

/-! ### the tree of the gauge machine and the structure map of the network -/

mutual
/-- the structure map holds the subtree: `pp` is the parent of its root, the children list of every node is the
    list of its kids up to ORDER (the tree lists them in visiting order, a `frozenset` order) -/
def RepAt (S : Id → Option Struct) (pp : Option Id) : RTree → Prop
  | .node c ks => (∃ ch, S c = some (pp, ch) ∧ ch.Perm (ks.map RTree.rid)) ∧ RepL S c ks
def RepL (S : Id → Option Struct) (p : Id) : List RTree → Prop
  | [] => True
  | k :: ks => RepAt S (some p) k ∧ RepL S p ks
end

@[simp] theorem repAt_node (S : Id → Option Struct) (pp : Option Id) (c : Nat) (ks : List RTree) :
    RepAt S pp (.node c ks) ↔ (∃ ch, S c = some (pp, ch) ∧ ch.Perm (ks.map RTree.rid)) ∧ RepL S c ks := by
  simp [RepAt]
@[simp] theorem repL_nil (S : Id → Option Struct) (p : Id) : RepL S p [] ↔ True := by simp [RepL]
@[simp] theorem repL_cons (S : Id → Option Struct) (p : Id) (k : RTree) (ks : List RTree) :
    RepL S p (k :: ks) ↔ RepAt S (some p) k ∧ RepL S p ks := by simp [RepL]

/-- the network `t0` holds exactly the tree `T` -/
def Rep (t0 : TTN) (T : RTree) : Prop := RepAt t0.S none T

/-! ### what is fixed during a step -/

structure Ctx (P : Params) (t0 : TTN) (A : Id → Prop) : Prop where
  wf : t0.WF
  lwf : t0.LWF
  fresh : ∀ c, A c → t0.N (P.bid c) = none
  inj : ∀ c c', A c → A c' → P.bid c = P.bid c' → c = c'
  perm : ∀ c l, P.perm c = some l →
    l.Perm (List.range l.length) ∧ ∀ n, t0.N c = some n → l.length = n.perm.length

theorem Ctx.sctx {P : Params} {t0 : TTN} {A : Id → Prop} (X : Ctx P t0 A) :
    SCtx P.bid t0.S t0.hasT t0.root A :=
  ⟨X.wf.str, fun c hc => S_none_of_N' (X.fresh c hc), X.inj⟩

theorem Ctx.hO {P : Params} {t0 : TTN} {A : Id → Prop} (X : Ctx P t0 A) :
    ∀ c, A c → t0.openAxes (P.bid c) = [] := fun c hc => openAxes_none (X.fresh c hc)

/-- the set of pending nodes of a gauge state -/
def PD (g : GState) : Id → Prop := fun c => c ∈ g.pend.map Prod.fst

/-- fixed rank: the new rank of every node of `A` is the dimension of its old parent leg - what the code enforces of
    the `KEEP`-mode QR (`assert new_basis_tensor.shape == updated_tensor.shape`) -/
def KeepRanks (P : Params) (t0 : TTN) (A : Id → Prop) : Prop :=
  ∀ c p ch ax0, A c → t0.S c = some (some p, ch) → t0.Leg c p ax0 → P.bdim c = ax0.dim

/-- the invariant of the joint run -/
structure Q (P : Params) (t0 : TTN) (A : Id → Prop) (g : GState) (t : TTN) : Prop where
  wfx : t.WFX True t0.openAxes
  root : t.root = t0.root
  pinv : PInv P.bid t0.S t.S (PD g)
  par : ∀ e ∈ g.pend, A e.1 ∧ ∃ ch, t0.S e.1 = some (some e.2, ch)
  dim : KeepRanks P t0 A → DimInvD P.bid t0 (PD g) t

theorem Q.dok {P : Params} {t0 : TTN} {A : Id → Prop} {g : GState} {t : TTN} (q : Q P t0 A g t) :
    DOK t0.S A (PD g) := by
  intro c hc
  obtain ⟨e, he, rfl⟩ := List.mem_map.mp hc
  obtain ⟨a, ch, b⟩ := q.par e he
  exact ⟨a, e.2, ch, b⟩

/-- `Q` does not depend on the gauge record and the frames -/
theorem Q.of_pend {P : Params} {t0 : TTN} {A : Id → Prop} {g g' : GState} {t : TTN} (q : Q P t0 A g t)
    (h : g'.pend = g.pend) : Q P t0 A g' t := by
  have : PD g' = PD g := by unfold PD; rw [h]
  refine ⟨q.wfx, q.root, ?_, by rw [h]; exact q.par, ?_⟩
  · rw [this]; exact q.pinv
  · rw [this]; exact q.dim

/-! ### runs with an invariant at every state -/

/-- the joint run from `s` over `es` succeeds, ends in `s'`, and every state on the way (both ends included)
    satisfies `Qp` -/
def Thru (P : Params) (Qp : GState → TTN → Prop) : GState × TTN → List GEv → GState × TTN → Prop
  | s, [], s' => s' = s ∧ Qp s.1 s.2
  | s, e :: es, s' => Qp s.1 s.2 ∧ ∃ s1, jstep P s e = some s1 ∧ Thru P Qp s1 es s'

theorem Thru.first {P : Params} {Qp : GState → TTN → Prop} {s s' : GState × TTN} {es : List GEv}
    (h : Thru P Qp s es s') : Qp s.1 s.2 := by
  cases es with
  | nil => exact h.2
  | cons e es => exact h.1

theorem Thru.last {P : Params} {Qp : GState → TTN → Prop} {s s' : GState × TTN} {es : List GEv}
    (h : Thru P Qp s es s') : Qp s'.1 s'.2 := by
  induction es generalizing s with
  | nil => obtain ⟨rfl, q⟩ := h; exact q
  | cons e es ih => obtain ⟨_, s1, _, h1⟩ := h; exact ih h1

theorem Thru.append {P : Params} {Qp : GState → TTN → Prop} {s s1 s' : GState × TTN} {a b : List GEv}
    (h1 : Thru P Qp s a s1) (h2 : Thru P Qp s1 b s') : Thru P Qp s (a ++ b) s' := by
  induction a generalizing s with
  | nil => obtain ⟨rfl, _⟩ := h1; exact h2
  | cons e es ih =>
    obtain ⟨q, s2, hj, h3⟩ := h1
    exact ⟨q, s2, hj, ih h3⟩

theorem Thru.one {P : Params} {Qp : GState → TTN → Prop} {s s' : GState × TTN} {e : GEv}
    (q : Qp s.1 s.2) (hj : jstep P s e = some s') (q' : Qp s'.1 s'.2) : Thru P Qp s [e] s' :=
  ⟨q, s', hj, rfl, q'⟩

theorem Thru.nil {P : Params} {Qp : GState → TTN → Prop} {s : GState × TTN} (q : Qp s.1 s.2) :
    Thru P Qp s [] s := ⟨rfl, q⟩

theorem Thru.jrun {P : Params} {Qp : GState → TTN → Prop} {s s' : GState × TTN} {es : List GEv}
    (h : Thru P Qp s es s') : jrun P s es = some s' := by
  induction es generalizing s with
  | nil => obtain ⟨rfl, _⟩ := h; rfl
  | cons e es ih =>
    obtain ⟨_, s1, hj, h1⟩ := h
    simp [Step.jrun, hj, ih h1]

/-- every prefix of the run succeeds and ends in a state that satisfies the invariant -/
theorem Thru.pre {P : Params} {Qp : GState → TTN → Prop} {s s' : GState × TTN} {a b : List GEv}
    (h : Thru P Qp s (a ++ b) s') : ∃ s1, Step.jrun P s a = some s1 ∧ Qp s1.1 s1.2 := by
  induction a generalizing s with
  | nil => exact ⟨s, rfl, h.first⟩
  | cons e es ih =>
    obtain ⟨_, s1, hj, h1⟩ := h
    obtain ⟨s2, hr, q2⟩ := ih h1
    exact ⟨s2, by simp [Step.jrun, hj, hr], q2⟩

/-- the joint run is the gauge run and the structural run -/
theorem jrun_split {P : Params} {es : List GEv} : ∀ {g g' : GState} {t t' : TTN},
    Step.jrun P (g, t) es = some (g', t') → Gauge.run g es = some g' ∧ sRun P t es = some t' := by
  induction es with
  | nil =>
    intro g g' t t' h
    simp only [Step.jrun, Option.some.injEq, Prod.mk.injEq] at h
    obtain ⟨rfl, rfl⟩ := h
    exact ⟨rfl, rfl⟩
  | cons e es ih =>
    intro g g' t t' h
    simp only [Step.jrun, jstep] at h
    cases hg : step g e with
    | none => simp [hg] at h
    | some g1 =>
      cases ht : sEdit P t e with
      | none => simp [hg, ht] at h
      | some t1 =>
        simp only [hg, ht, Option.bind_some, Option.map_some] at h
        obtain ⟨a, b⟩ := ih h
        exact ⟨by simp [Gauge.run, hg, a], by simp [sRun, ht, b]⟩

/-! ### the single events -/

section events
variable {P : Params} {t0 : TTN} {A : Id → Prop}

theorem ev_down (g : GState) (t : TTN) (q : Q P t0 A g t) {p c : Nat} {keep : Bool}
    (hfr : g.frames.head? = some p) :
    Thru P (Q P t0 A) (g, t) [GEv.down p c keep] ({ g with frames := c :: g.frames }, t) := by
  refine Thru.one q ?_ (q.of_pend rfl)
  simp [jstep, Gauge.step, hfr, sEdit]

theorem ev_pull (X : Ctx P t0 A) (g : GState) (t : TTN) (q : Q P t0 A g t) {c : Nat} {pp : Option Id}
    {ch : List Id} (hfr : g.frames.head? = some c) (hS0 : t0.S c = some (pp, ch)) (hc : ¬ PD g c) :
    ∃ t', Thru P (Q P t0 A) (g, t) [GEv.pull c] ({ g with dir := setDir g.dir c none }, t') := by
  have hSc := q.pinv.nodes c pp ch hS0
  rw [subP_neg hc] at hSc
  obtain ⟨n, hn, en⟩ := TTN.N_of_S hSc
  simp only [Prod.mk.injEq] at en
  obtain ⟨n0, hn0, en0⟩ := TTN.N_of_S hS0
  simp only [Prod.mk.injEq] at en0
  have hlen : n.perm.length = n0.perm.length := by
    rw [nlegs_eq q.wfx.wf hn, nlegs_eq X.wf hn0, q.wfx.op trivial c]
    have : n.nvirt = n0.nvirt := by
      simp only [NodeS.nvirt, NodeS.nparents, NodeS.nchildren, ← en.1, ← en.2, ← en0.1, ← en0.2, List.length_map]
    rw [this]
  obtain ⟨t', hs, w', R', S', L'⟩ := rtp_event (q := P.perm c) q.wfx hn (fun l hl => by
    obtain ⟨a, b⟩ := X.perm c l hl
    exact ⟨a, by rw [hlen]; exact b n0 hn0⟩)
  refine ⟨t', Thru.one q ?_ ⟨w', R'.trans q.root, by rw [S']; exact q.pinv, q.par,
    fun hK => (q.dim hK).of_legs L'⟩⟩
  simp [jstep, Gauge.step, hfr, sEdit, hs]

theorem ev_store (g : GState) (t : TTN) (q : Q P t0 A g t) {r : Nat} {pp : Option Id}
    {ch : List Id} (hfr : g.frames = [r]) (hS0 : t0.S r = some (pp, ch)) (hc : ¬ PD g r) :
    ∃ t', Thru P (Q P t0 A) (g, t) [GEv.store r] ({ g with dir := setDir g.dir r none }, t') := by
  have hSc := q.pinv.nodes r pp ch hS0
  rw [subP_neg hc] at hSc
  obtain ⟨n, hn, _⟩ := TTN.N_of_S hSc
  obtain ⟨t', hs, w', R', S', L'⟩ := rtp_event (q := none) q.wfx hn (fun l hl => by cases hl)
  refine ⟨t', Thru.one q ?_ ⟨w', R'.trans q.root, by rw [S']; exact q.pinv, q.par,
    fun hK => (q.dim hK).of_legs L'⟩⟩
  simp [jstep, Gauge.step, hfr, sEdit, hs]

theorem ev_evolve (g : GState) (t : TTN) (q : Q P t0 A g t) {c : Nat} {pp : Option Id}
    {ch : List Id} (hfr : g.frames.head? = some c) (hS0 : t0.S c = some (pp, ch))
    (hpend : ∀ e ∈ g.pend, e.2 ≠ c) :
    ∃ t', Thru P (Q P t0 A) (g, t) [GEv.evolve c] (g, t') := by
  have hSc := q.pinv.nodes c pp ch hS0
  obtain ⟨n, hn, _⟩ := TTN.N_of_S hSc
  obtain ⟨t', hs, w', R', S', L'⟩ := access_event q.wfx hn
  refine ⟨t', Thru.one q ?_ ⟨w', R'.trans q.root, by rw [S']; exact q.pinv, q.par,
    fun hK => (q.dim hK).of_legs L'⟩⟩
  have hall : g.pend.all (fun e => e.2 != c) = true := by
    rw [List.all_eq_true]; intro e he; simpa using hpend e he
  simp [jstep, Gauge.step, hfr, hall, sEdit, hs]

theorem ev_basis (X : Ctx P t0 A) (g : GState) (t : TTN) (q : Q P t0 A g t) {c p : Nat} {aug : Bool}
    {ch : List Id} (hfr : g.frames.head? = some c) (hS0 : t0.S c = some (some p, ch)) (hA : A c)
    (hc : ¬ PD g c) :
    ∃ t', Thru P (Q P t0 A) (g, t) [GEv.basis c p aug]
      (⟨setDir g.dir c (some p), g.pend ++ [(c, p)], g.frames.tail⟩, t') := by
  obtain ⟨t', hs, w', R', inv', l1, l2, l3⟩ := split_event X.sctx q.dok q.wfx q.pinv hA hc hS0 (P.bdim c)
  have hnot : (c, p) ∉ g.pend := fun hm => hc (List.mem_map.mpr ⟨(c, p), hm, rfl⟩)
  have hiff : ∀ k, (PD g k ∨ k = c) ↔
      PD (⟨setDir g.dir c (some p), g.pend ++ [(c, p)], g.frames.tail⟩ : GState) k := by
    intro k
    simp [PD, List.map_append]
  refine ⟨t', Thru.one q ?_ ⟨w', R'.trans q.root, ?_, ?_, ?_⟩⟩
  · simp [jstep, Gauge.step, hfr, hnot, sEdit, hs]
  · exact inv'.congr hiff
  · intro e he
    rcases List.mem_append.mp he with he | he
    · exact q.par e he
    · simp only [List.mem_singleton] at he
      subst he
      exact ⟨hA, ch, hS0⟩
  · intro hK
    exact (split_dims X.sctx q.dok hA hc hS0 (fun ax0 h0 => hK c p ch ax0 hA hS0 h0) (q.dim hK) l1 l2 l3).congr hiff

theorem ev_absorb (X : Ctx P t0 A) (g : GState) (t : TTN) (q : Q P t0 A g t) {c : Nat} {kl : List Nat}
    {pp : Option Id} {ch : List Id} (hS0 : t0.S c = some (pp, ch)) (hperm : ch.Perm kl)
    (hall : ∀ k ∈ kl, (k, c) ∈ g.pend) :
    ∃ t', Thru P (Q P t0 A) (g, t) [GEv.absorb c kl]
      ({ g with dir := setDir g.dir c none, pend := g.pend.filter (fun e => e.2 != c) }, t') := by
  have hallD : ∀ e ∈ ch, PD g e := fun e he =>
    List.mem_map.mpr ⟨(e, c), hall e (hperm.mem_iff.mp he), rfl⟩
  obtain ⟨t', hs, w', R', inv', hdim'⟩ := absorb_event X.sctx X.hO q.dok q.wfx q.pinv (KeepRanks P t0 A) q.dim
    hS0 hallD
  have hiff : ∀ k, (PD g k ∧ k ∉ ch) ↔
      PD ({ g with dir := setDir g.dir c none, pend := g.pend.filter (fun e => e.2 != c) } : GState) k := by
    intro k
    simp only [PD, List.mem_map, List.mem_filter, bne_iff_ne, ne_eq]
    constructor
    · rintro ⟨⟨e, he, rfl⟩, hk⟩
      refine ⟨e, ⟨he, ?_⟩, rfl⟩
      intro e2
      obtain ⟨_, che, hpar⟩ := q.par e he
      rw [e2] at hpar
      obtain ⟨pp', pch, hp', hmem⟩ := X.wf.str.up e.1 c che hpar
      rw [hS0] at hp'; simp only [Option.some.injEq, Prod.mk.injEq] at hp'
      exact hk (hp'.2 ▸ hmem)
    · rintro ⟨e, ⟨he, hne⟩, rfl⟩
      refine ⟨⟨e, he, rfl⟩, ?_⟩
      intro hm
      obtain ⟨cch, hdown⟩ := X.wf.str.down c pp ch e.1 hS0 hm
      obtain ⟨_, che, hpar⟩ := q.par e he
      rw [hpar] at hdown; simp only [Option.some.injEq, Prod.mk.injEq] at hdown
      exact hne hdown.1
  refine ⟨t', Thru.one q ?_ ⟨w', R'.trans q.root, inv'.congr hiff, ?_, fun hK => (hdim' hK).congr hiff⟩⟩
  · simp only [jstep, Gauge.step, sEdit, hs, List.all_eq_true, List.contains_eq_mem, decide_eq_true_eq]
    rw [if_pos hall]
    rfl
  · intro e he
    exact q.par e (List.mem_filter.mp he).1

end events

end Ptn.C09.Step
