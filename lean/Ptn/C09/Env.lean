import Ptn.C09.EnvLemmas
import Ptn.C17.Segments
import Ptn.C17.Last3
import Ptn.C05.DiscSeq
import Ptn.C17.Examples
/-! **BUG environment sources** (C09): on every well-formed tree the trace of the machine that
follows `root_update` / `update_node` with explicit caches equals the trace with the generations as
the property states them: at the local evolution of a non-root node the block from the parent is
`old` and the blocks from all children are `new`; at the root all blocks are `new`; the rebuild of
`(p, c)` for a child `c` reads only `old` blocks - in particular never a `new` block of a sibling. -/
namespace Ptn.C09.Env
open Ptn.C17 Ptn.C17.RTree

theorem no_back_edge {t : RTree} (hwf : t.WF) {p c k : Nat} (h1 : (p, c) ∈ edges t)
    (h2 : (c, k) ∈ edges t) : p ≠ k := by
  intro e; subst e
  exact no_two_cycle hwf h1 h2

theorem ids_kid_sublist {k : RTree} : ∀ {ks : List RTree}, k ∈ ks → (ids k).Sublist (idsL ks)
  | a :: l, h => by
    simp only [idsL_cons]
    rcases List.mem_cons.mp h with rfl | h
    · exact List.sublist_append_left _ _
    · exact (ids_kid_sublist h).trans (List.sublist_append_right _ _)

/-- reads of a local evolution / of the construction of the returned block, after the merge -/
theorem reads_after_merge {c : Nat} {kids : List Nat} (hnd : kids.Nodup) (ca : Cache) :
    readAll (kids.foldl (fun ca k => ca.set (k, c) Gen.new) ca) (kids.map fun k => (k, c))
      = newReads (kids.map fun k => (k, c)) := by
  simp only [readAll, newReads, List.map_map]
  apply List.map_congr_left
  intro k hk
  simp only [Function.comp, Prod.mk.injEq, true_and]
  rw [get_merge]
  simp [hk]

/-- the machine with caches produces the ideal trace below every node -/
theorem updNode_eq_ideal {t : RTree} (hwf : t.WF) :
    (∀ s, ∀ p nbP caP, (p, s.rid) ∈ edges t → (∀ e ∈ edges s, e ∈ edges t) → (ids s).Nodup →
      (∀ z ∈ nbP, Adj t p z) → CacheInv t p caP → updNode p nbP caP s = idealNode p nbP s) ∧
    (∀ ks, ∀ c nbC ca, (∀ k ∈ ks, (c, k.rid) ∈ edges t ∧ (∀ e ∈ edges k, e ∈ edges t) ∧
        (ids k).Nodup) → (∀ z ∈ nbC, Adj t c z) → CacheInv t c ca →
      updKids c nbC ca ks = idealKids c nbC ks) := by
  apply induct
  · intro c ks ih p nbP caP hpc hedges hnd hnb hinv
    simp only [rid] at hpc
    have hadj : Adj t p c := Or.inl hpc
    have hpc_ne : p ≠ c := adj_ne hwf hadj
    have hkedge : ∀ k ∈ ks, (c, k.rid) ∈ edges t := by
      intro k hk
      exact hedges _ (by simpa using rid_edge (r := c) hk)
    have hinv1 := cacheInv_descend hwf hadj hinv
    have hrids : (ks.map rid).Nodup := by
      simp only [ids_node, List.nodup_cons] at hnd
      exact rids_nodup hnd.2
    have hkids := ih c (p :: ks.map rid) ((caP.set (p, c) Gen.old).del (c, p))
      (by
        intro k hk
        refine ⟨hkedge k hk, fun e he => hedges e (by simpa using edges_kid_subset (r := c) hk he), ?_⟩
        simp only [ids_node, List.nodup_cons] at hnd
        have hsub := ids_kid_sublist hk
        exact hsub.nodup hnd.2)
      (by
        intro z hz
        rcases List.mem_cons.mp hz with rfl | hz
        · exact adj_symm hadj
        · obtain ⟨k, hk, rfl⟩ := List.mem_map.mp hz
          exact Or.inl (hkedge k hk))
      hinv1
    -- the reads
    have hreb : readAll caP ((nbP.filter (fun z => z != c)).map fun z => (z, p))
        = oldReads ((nbP.filter (fun z => z != c)).map fun z => (z, p)) :=
      cacheInv_inputs hwf hinv (fun z hz => hnb z (List.mem_filter.mp hz).1)
    have hparent : (((ks.map rid).foldl (fun ca k => ca.set (k, c) Gen.new)
        ((caP.set (p, c) Gen.old).del (c, p))).get (p, c)) = some Gen.old := by
      rw [get_merge]
      have hnot : (p, c) ∉ (ks.map rid).map (fun k => (k, c)) := by
        intro hm
        simp only [List.mem_map] at hm
        obtain ⟨k', ⟨k, hk, rfl⟩, e⟩ := hm
        simp at e
        exact no_back_edge hwf hpc (hkedge k hk) e.symm
      rw [if_neg hnot]
      have hne : (p, c) ≠ (c, p) := by intro e; simp at e; exact hpc_ne e.1
      rw [get_del_ne _ hne, get_set_same]
    have hB := reads_after_merge (c := c) hrids ((caP.set (p, c) Gen.old).del (c, p))
    have hA : readAll ((ks.map rid).foldl (fun ca k => ca.set (k, c) Gen.new)
          ((caP.set (p, c) Gen.old).del (c, p))) ((p, c) :: (ks.map rid).map fun k => (k, c))
        = ((p, c), some Gen.old) :: newReads ((ks.map rid).map fun k => (k, c)) := by
      have hB' := hB
      simp only [readAll] at hB' ⊢
      rw [List.map_cons, hparent, hB']
    simp only [updNode, idealNode, hreb, hkids, hA, hB]
  · intro c nbC ca _ _ _; simp [updKids, idealKids]
  · intro k ks ihk ihks c nbC ca hks hnb hinv
    have hk := hks k (by simp)
    simp only [updKids, idealKids]
    rw [ihk c nbC ca hk.1 hk.2.1 hk.2.2 hnb hinv,
      ihks c nbC ca (fun k' hk' => hks k' (by simp [hk'])) hnb hinv]

theorem lookup_map_old : ∀ {bs : List Block} {b : Block}, b ∈ bs →
    ((bs.map fun b => (b, Gen.old)) : Cache).lookup b = some Gen.old
  | b0 :: bs, b, h => by
    by_cases hb : b = b0
    · subst hb; simp [List.lookup]
    · have hb' : (b == b0) = false := by simpa using hb
      have hm : b ∈ bs := by
        rcases List.mem_cons.mp h with e | e
        · exact absurd e hb
        · exact e
      simp only [List.map_cons, List.lookup, hb']
      exact lookup_map_old hm

/-- the blocks created by `init_cache_but_one(c)`: every node other than `c` has its block toward
    `c` -/
theorem cacheKeys_toward {t : RTree} (hwf : t.WF) {c : Nat} (hc : c ∈ ids t) :
    ∃ keys, cacheKeys c t = some keys ∧
      ∀ x h, x ∈ ids t → x ≠ c → firstHop t x c = some h → (x, h) ∈ keys := by
  cases hk : cacheKeys c t with
  | none => exact absurd hc (((cacheKeys_spec c).1 t).2 hk)
  | some keys =>
    refine ⟨keys, rfl, ?_⟩
    obtain ⟨h1, _⟩ := ((cacheKeys_spec c).1 t).1 keys hk
    intro x h hx hxc hhop
    have hxm : x ∈ keys.map (·.1) ++ [c] := h1.symm.subset hx
    simp only [List.mem_append, List.mem_singleton] at hxm
    rcases hxm with hxm | hxm
    · obtain ⟨e, he, rfl⟩ := List.mem_map.mp hxm
      obtain ⟨pd, hpd⟩ := pathDown_some_of_mem hc
      have hh : firstHop t e.1 c = some e.2 := by
        rcases (cacheKeys_direction c).1 t keys pd hk hpd hwf e.1 e.2 he with ⟨g1, g2⟩ | ⟨l1, l2, g⟩
        · obtain ⟨rest, hr⟩ := next_hop_up hwf hpd g1 g2
          exact firstHop_of_path hr
        · exact firstHop_of_path (next_hop_down hwf (g ▸ hpd))
      rw [hhop] at hh
      have : h = e.2 := Option.some.inj hh
      rw [this]; exact he
    · exact absurd hxm hxc

/-- the cache after `init_cache_but_one(root)` holds every block toward the root, `old` -/
theorem cacheInv_init (t : RTree) (hwf : t.WF) :
    CacheInv t t.rid (((cacheKeys t.rid t).getD []).map fun b => (b, Gen.old)) := by
  intro x h hx hxr hhop
  obtain ⟨keys, hk, htoward⟩ := cacheKeys_toward hwf (rid_mem_ids t)
  rw [hk]
  exact lookup_map_old (htoward x h hx hxr hhop)

/-- **The trace of one BUG step equals the ideal trace.** -/
theorem bug_trace_eq_ideal (t : RTree) (hwf : t.WF) : bugRun t = bugIdeal t := by
  cases t with
  | node r ks =>
    have hnd : (r :: idsL ks).Nodup := by simpa [WF] using hwf
    have hndc := List.nodup_cons.mp hnd
    have hrids : (ks.map rid).Nodup := rids_nodup hndc.2
    have hinv := cacheInv_init (node r ks) hwf
    simp only [rid] at hinv
    have hkids := (updNode_eq_ideal hwf).2 ks r (ks.map rid) _
      (by
        intro k hk
        refine ⟨by simpa using rid_edge (r := r) hk,
          fun e he => by simpa using edges_kid_subset (r := r) hk he, ?_⟩
        have hsub := ids_kid_sublist hk
        exact hsub.nodup hndc.2)
      (by
        intro z hz
        obtain ⟨k, hk, rfl⟩ := List.mem_map.mp hz
        exact Or.inl (by simpa using rid_edge (r := r) hk))
      hinv
    have hB := reads_after_merge (c := r) hrids
      (((cacheKeys r (node r ks)).getD []).map fun b => (b, Gen.old))
    simp only [bugRun, bugIdeal, hkids, hB]

end Ptn.C09.Env
