import Ptn.C17.Model
/-! Gauge machine of one BUG step (`pytreenet/time_evolution/time_evo_util/common_bug.py`): which
neighbour every tensor of the RETURNED state (`new_state`) is recorded to be an isometry toward, in
the style of the C03 machine (`Ptn.C03.applyOp`).  Core Lean only (imported by the C09 driver).

The events follow the code literally.  `update_node(c)` for a child `c` of `p`:

* `down p c keep`  - `assert parent_id == parent_state.orthogonality_center_id`, working copy
                     (`deepcopy` / `deepcopy_parts`), `move_orthogonalization_center(c, mode)` with
                     `mode = KEEP` for fixed rank, `REDUCED` otherwise: a new frame with centre `c`;
* the recursion into the children of `c` (`frozenset` order = the order of the kids here);
* if `c` is not a leaf: `pull c` - `pull_tensor_from_different_ttn(current_state, new_state, c)`:
  the tensor of `c` in `new_state` is replaced by the CENTRE tensor of the working copy (no isometry),
  `absorb c kids` - `new_state.contract_all_children(c)`: the basis-change nodes `k_basis_change_tensor`
  of all children are contracted into `c` (no isometry; the children then hang below `c` again);
* `evolve c`       - `single_site_time_evolution(c, …)` (result is a local array);
* `basis c p aug`  - the new basis: `Q` of the QR of the evolved tensor (`aug = false`, fixed rank,
                     `compute_fixed_size_new_basis_tensor` / `tensor_qr_decomposition(…, KEEP)`) or of
                     the old tensor stacked on the evolved one along the parent leg (`aug = true`),
                     Q-legs = children + open legs, R-leg = parent leg: `Q` is an isometry toward the
                     PARENT; `split_node_replace(c, M, Q, c_basis_change_tensor, c, …)` stores `Q` at
                     `c` and hangs the basis-change tensor `M` between `c` and `p` (pending until
                     `absorb p …`); the frame of `c` ends.

`root_update`: the loop over the children, `pull r`, `absorb r kids`, `evolve r`,
`store r` (`replace_tensor(root, updated_tensor)`).

State: `dir n = some v` - the tensor of `n` in `new_state` is recorded as an isometric QR factor
toward (the node behind its leg to) `v`; `pend` - the basis-change nodes `(k, p)` present in
`new_state`; `frames` - the centres of the nested working copies (innermost first; the last is the
start state, centre = root).  A step answers `none` when the code would assert / touch a node that
is not there. -/
namespace Ptn.C09.Gauge
open Ptn.C17 Ptn.C17.RTree

inductive GEv where
  | down (p c : Nat) (keep : Bool)
  | pull (c : Nat)
  | absorb (c : Nat) (kids : List Nat)
  | evolve (c : Nat)
  | basis (c p : Nat) (aug : Bool)
  | store (r : Nat)
deriving Repr, DecidableEq

structure GState where
  dir : Nat → Option Nat
  pend : List (Nat × Nat)
  frames : List Nat

def setDir (dir : Nat → Option Nat) (n : Nat) (v : Option Nat) : Nat → Option Nat :=
  fun x => if x = n then v else dir x

def step (s : GState) : GEv → Option GState
  | .down p c _ => if s.frames.head? = some p then some { s with frames := c :: s.frames } else none
  | .pull c =>
    if s.frames.head? = some c then some { s with dir := setDir s.dir c none } else none
  | .absorb c kids =>
    -- every child of `c` in `new_state` is a basis-change node (else a real node would be swallowed)
    if kids.all (fun k => s.pend.contains (k, c)) then
      some { s with dir := setDir s.dir c none, pend := s.pend.filter (fun e => e.2 != c) }
    else none
  | .evolve c =>
    -- the node evolved is the centre of the innermost frame and has no basis-change node below it
    if s.frames.head? = some c ∧ s.pend.all (fun e => e.2 != c) then some s else none
  | .basis c p _ =>
    if s.frames.head? = some c ∧ !s.pend.contains (c, p) then
      some { dir := setDir s.dir c (some p), pend := s.pend ++ [(c, p)], frames := s.frames.tail }
    else none
  | .store r => if s.frames = [r] then some { s with dir := setDir s.dir r none } else none

def run (s : GState) : List GEv → Option GState
  | [] => some s
  | e :: es => (step s e).bind fun s' => run s' es

mutual
/-- `update_node(c)` for the root `c` of the given subtree, child of `p` -/
def nodeEvents (fixed : Bool) (p : Nat) : RTree → List GEv
  | node c ks =>
    [GEv.down p c fixed] ++ kidsEvents fixed c ks ++
      (if ks.isEmpty then [] else [GEv.pull c, GEv.absorb c (ks.map rid)]) ++
      [GEv.evolve c, GEv.basis c p (!fixed)]
/-- the loop over the children -/
def kidsEvents (fixed : Bool) (c : Nat) : List RTree → List GEv
  | [] => []
  | k :: ks => nodeEvents fixed c k ++ kidsEvents fixed c ks
end

/-- `root_update` (`fixed` = `bug_config.fixed_rank`) -/
def bugEvents (fixed : Bool) : RTree → List GEv
  | node r ks =>
    kidsEvents fixed r ks ++ [GEv.pull r, GEv.absorb r (ks.map rid), GEv.evolve r, GEv.store r]

/-- the start: `new_state = deepcopy(current_state)`, no basis-change node, the only frame is the
    start state, whose centre is the root (`assert orthogonality_center_id == root_id`) -/
def start (dir0 : Nat → Option Nat) (t : RTree) : GState := ⟨dir0, [], [t.rid]⟩

/-- the QR events of a run: (node, neighbour its new tensor is an isometry toward, augmented?) -/
def qrOf : GEv → Option (Nat × Nat × Bool)
  | .basis c p aug => some (c, p, aug)
  | _ => none

/-- the centre moves on the working copies: (from, to, KEEP mode?) -/
def moveOf : GEv → Option (Nat × Nat × Bool)
  | .down p c keep => some (p, c, keep)
  | _ => none

/-! ### the truncation pass of rank-adaptive BUG (`recursive_truncation`, after commit 42696fe)

`truncate_node` contracts projectors into every node: no tensor is recorded as an isometry any more
(`fun _ => none`); the final `tree.canonical_form(root_id)` is the C03 machine. -/

/-! ### printing (driver query `gauge`) -/

def showB (b : Bool) : String := if b then "1" else "0"

def showGEv : GEv → String
  | .down p c keep => s!"down {p}>{c} {showB keep}"
  | .pull c => s!"pull {c}"
  | .absorb c ks => s!"absorb {c} " ++ ",".intercalate (ks.map toString)
  | .evolve c => s!"evolve {c}"
  | .basis c p aug => s!"basis {c}>{p} {showB aug}"
  | .store r => s!"store {r}"

def showState (ids : List Nat) (s : GState) : String :=
  " ".intercalate (ids.map fun n =>
    match s.dir n with
    | some v => s!"{n}>{v}"
    | none => s!"{n}>-") ++ s!" | pend {s.pend.length} | frames " ++
    ",".intercalate (s.frames.map toString)

end Ptn.C09.Gauge
