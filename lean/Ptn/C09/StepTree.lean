import Ptn.C09.StepRun
/-! The recursion of `update_node` / `root_update` on a tree: the joint run of the gauge machine and the structural
model never fails and keeps the invariant `Q` at every state (core Lean only). -/
namespace Ptn.C09.Step
open Ptn.C02 Ptn.C02.NodeS Ptn.C09.Gauge Ptn.C17 Ptn.C17.RTree

theorem pd_iff {g : GState} {c : Id} : PD g c ↔ ∃ e ∈ g.pend, e.1 = c := by
  simp [PD, List.mem_map]

theorem rid_mem_idsL {k : RTree} {ks : List RTree} (hk : k ∈ ks) : k.rid ∈ idsL ks := by
  induction ks with
  | nil => simp at hk
  | cons k' ks' ih =>
    rw [idsL_cons]
    rcases List.mem_cons.mp hk with rfl | hk
    · exact List.mem_append_left _ (rid_mem_ids k)
    · exact List.mem_append_right _ (ih hk)

/-- **`update_node` on a subtree, `update_node` on the children of a node.** -/
theorem update_thru {P : Params} {t0 : TTN} {A : Id → Prop} (X : Ctx P t0 A) (fixed : Bool) :
    (∀ s, ∀ p g t, (ids s).Nodup → p ∉ ids s → g.frames.head? = some p →
      (∀ e ∈ g.pend, e.2 ∉ ids s) → (∀ e ∈ g.pend, e.1 ∉ ids s) →
      RepAt t0.S (some p) s → (∀ x ∈ ids s, A x) → Q P t0 A g t →
      ∃ g' t', Thru P (Q P t0 A) (g, t) (nodeEvents fixed p s) (g', t') ∧ g'.frames = g.frames ∧
        g'.pend = g.pend ++ [(s.rid, p)]) ∧
    (∀ ks, ∀ c g t, (idsL ks).Nodup → c ∉ idsL ks → g.frames.head? = some c →
      (∀ e ∈ g.pend, e.2 ∉ idsL ks) → (∀ e ∈ g.pend, e.1 ∉ idsL ks) →
      RepL t0.S c ks → (∀ x ∈ idsL ks, A x) → Q P t0 A g t →
      ∃ g' t', Thru P (Q P t0 A) (g, t) (kidsEvents fixed c ks) (g', t') ∧ g'.frames = g.frames ∧
        g'.pend = g.pend ++ ks.map fun k => (k.rid, c)) := by
  apply induct
  · intro c ks ih p g t hnd hp hfr hpend hpend1 hrep hA q
    rw [ids_node] at hnd hp hA hpend hpend1
    have hndc := List.nodup_cons.mp hnd
    rw [repAt_node] at hrep
    obtain ⟨⟨ch, hS0, hperm⟩, hrepL⟩ := hrep
    have hAc : A c := hA c (by simp)
    have hpendc : ∀ e ∈ g.pend, e.2 ≠ c := fun e he h => hpend e he (by simp [h])
    have hpend1c : ∀ e ∈ g.pend, e.1 ≠ c := fun e he h => hpend1 e he (by simp [h])
    -- the frame of `c`
    have T1 := ev_down g t q (p := p) (c := c) (keep := fixed) hfr
    obtain ⟨g1, t1, T2, hfr1, hp1⟩ := ih c { g with frames := c :: g.frames } t hndc.2 hndc.1 rfl
      (fun e he h => hpend e he (by simp [h])) (fun e he h => hpend1 e he (by simp [h])) hrepL
      (fun x hx => hA x (by simp [hx])) T1.last
    have hfr1' : g1.frames = c :: g.frames := hfr1
    have hp1' : g1.pend = g.pend ++ ks.map fun k => (k.rid, c) := hp1
    have hcD1 : ¬ PD g1 c := by
      rw [pd_iff, hp1']
      rintro ⟨e, he, hec⟩
      rcases List.mem_append.mp he with he | he
      · exact hpend1c e he hec
      · obtain ⟨k, hk, rfl⟩ := List.mem_map.mp he
        simp only at hec
        exact hndc.1 (hec ▸ rid_mem_idsL hk)
    -- `pull` / `absorb` (nothing for a leaf)
    have hmid : ∃ g2 t2, Thru P (Q P t0 A) (g1, t1)
          (if ks.isEmpty then [] else [GEv.pull c, GEv.absorb c (ks.map rid)]) (g2, t2) ∧
          g2.frames = c :: g.frames ∧ g2.pend = g.pend := by
      cases ks with
      | nil => exact ⟨g1, t1, Thru.nil T2.last, hfr1', by simpa using hp1'⟩
      | cons k ks' =>
        obtain ⟨t2, T3⟩ := ev_pull X g1 t1 T2.last (by rw [hfr1']; rfl) hS0 hcD1
        have hall : ∀ x ∈ (k :: ks').map rid, (x, c) ∈ ({ g1 with dir := setDir g1.dir c none } : GState).pend := by
          intro x hx
          show (x, c) ∈ g1.pend
          rw [hp1']
          obtain ⟨kk, hkk, rfl⟩ := List.mem_map.mp hx
          exact List.mem_append_right _ (List.mem_map.mpr ⟨kk, hkk, rfl⟩)
        obtain ⟨t3, T4⟩ := ev_absorb X _ t2 T3.last hS0 hperm hall
        refine ⟨⟨setDir (setDir g1.dir c none) c none, g1.pend.filter (fun e => e.2 != c), g1.frames⟩, t3,
          ?_, hfr1', ?_⟩
        · simp only [List.isEmpty_cons, Bool.false_eq_true, if_false]
          exact Thru.append T3 T4
        · show g1.pend.filter (fun e => e.2 != c) = g.pend
          rw [hp1']
          have : ((k :: ks').map fun k => (k.rid, c)) = ((k :: ks').map rid).map fun k => (k, c) := by
            simp
          rw [this]
          exact filter_pend _ hpendc
    obtain ⟨g2, t2, T5, hfr2, hp2⟩ := hmid
    have q2 := T5.last
    obtain ⟨t3, T6⟩ := ev_evolve g2 t2 q2 (by rw [hfr2]; rfl) hS0 (by rw [hp2]; exact hpendc)
    have hcD2 : ¬ PD g2 c := by
      rw [pd_iff, hp2]
      rintro ⟨e, he, hec⟩
      exact hpend1c e he hec
    obtain ⟨t4, T7⟩ := ev_basis X g2 t3 T6.last (aug := !fixed) (by rw [hfr2]; rfl) hS0 hAc hcD2
    refine ⟨⟨setDir g2.dir c (some p), g2.pend ++ [(c, p)], g2.frames.tail⟩, t4, ?_, by simp [hfr2],
      by simp [hp2, rid]⟩
    rw [nodeEvents_node]
    have := Thru.append (Thru.append (Thru.append T1 T2) T5) (Thru.append T6 T7)
    simpa using this
  · intro c g t _ _ _ _ _ _ _ q
    exact ⟨g, t, by rw [kidsEvents_nil]; exact Thru.nil q, rfl, by simp⟩
  · intro k ks ihk ihks c g t hnd hc hfr hpend hpend1 hrep hA q
    rw [idsL_cons] at hnd hc hA hpend hpend1
    rw [repL_cons] at hrep
    have hnd' := List.nodup_append.mp hnd
    have hck : c ∉ ids k := fun h => hc (by simp [h])
    have hcks : c ∉ idsL ks := fun h => hc (by simp [h])
    obtain ⟨g1, t1, T1, hfr1, hp1⟩ := ihk c g t hnd'.1 hck hfr
      (fun e he h => hpend e he (by simp [h])) (fun e he h => hpend1 e he (by simp [h])) hrep.1
      (fun x hx => hA x (by simp [hx])) q
    have hdisj : ∀ x, x ∈ ids k → x ∉ idsL ks := fun x hx hx' => hnd'.2.2 x hx x hx' rfl
    obtain ⟨g2, t2, T2, hfr2, hp2⟩ := ihks c g1 t1 hnd'.2.1 hcks (by rw [hfr1]; exact hfr)
      (by
        intro e he
        rw [hp1] at he
        rcases List.mem_append.mp he with he | he
        · exact fun h => hpend e he (by simp [h])
        · simp at he; subst he; exact hcks)
      (by
        intro e he
        rw [hp1] at he
        rcases List.mem_append.mp he with he | he
        · exact fun h => hpend1 e he (by simp [h])
        · simp at he; subst he; exact hdisj _ (rid_mem_ids k))
      hrep.2 (fun x hx => hA x (by simp [hx])) T1.last
    refine ⟨g2, t2, ?_, hfr2.trans hfr1, by rw [hp2, hp1]; simp⟩
    rw [kidsEvents_cons]
    exact Thru.append T1 T2

/-- **One whole step** (`root_update`): from the start state of the gauge machine and a network that holds the tree,
    the joint run never fails, the invariant holds at every state, nothing is pending at the end and the structure
    map of the network is the original one. -/
theorem root_thru {P : Params} {t0 : TTN} (T : RTree) (X : Ctx P t0 (fun x => x ∈ ids T)) (fixed : Bool)
    (hwf : T.WF) (hrep : Rep t0 T) (dir0 : Nat → Option Nat) :
    ∃ g' t', Thru P (Q P t0 (fun x => x ∈ ids T)) (start dir0 T, t0) (bugEvents fixed T) (g', t') ∧
      g'.pend = [] ∧ g'.frames = [T.rid] ∧ t'.S = t0.S := by
  cases T with
  | node r ks =>
    have hnd : (r :: idsL ks).Nodup := by simpa [WF] using hwf
    have hndc := List.nodup_cons.mp hnd
    unfold Rep at hrep
    rw [repAt_node] at hrep
    obtain ⟨⟨ch, hS0, hperm⟩, hrepL⟩ := hrep
    have q0 : Q P t0 (fun x => x ∈ ids (node r ks)) (start dir0 (node r ks)) t0 := by
      refine ⟨TTN.WFX.ofLWF X.wf X.lwf, rfl, ?_, by simp [start], ?_⟩
      · refine ⟨?_, ?_, ?_⟩
        · intro k pp chk hk
          rw [subP_neg (by simp [PD, start]), map_sub_none (fun y _ => by simp [PD, start])]
          exact hk
        · intro c hc; simp [PD, start] at hc
        · intro k hk _; exact hk
      · intro _ c p chc ax0 _ hl
        exact ⟨fun _ => ⟨ax0, hl, rfl⟩, fun hc => by simp [PD, start] at hc⟩
    obtain ⟨g1, t1, T1, hfr1, hp1⟩ := (update_thru X fixed).2 ks r (start dir0 (node r ks)) t0 hndc.2 hndc.1 rfl
      (by simp [start]) (by simp [start]) hrepL (fun x hx => by simp [hx]) q0
    have hfr1' : g1.frames = [r] := by rw [hfr1]; rfl
    have hp1' : g1.pend = ks.map fun k => (k.rid, r) := by rw [hp1]; simp [start]
    have hcD1 : ¬ PD g1 r := by
      rw [pd_iff, hp1']
      rintro ⟨e, he, hec⟩
      obtain ⟨k, hk, rfl⟩ := List.mem_map.mp he
      simp only at hec
      exact hndc.1 (hec ▸ rid_mem_idsL hk)
    obtain ⟨t2, T2⟩ := ev_pull X g1 t1 T1.last (by rw [hfr1']; rfl) hS0 hcD1
    have hall : ∀ x ∈ ks.map rid, (x, r) ∈ ({ g1 with dir := setDir g1.dir r none } : GState).pend := by
      intro x hx
      show (x, r) ∈ g1.pend
      rw [hp1']
      obtain ⟨kk, hkk, rfl⟩ := List.mem_map.mp hx
      exact List.mem_map.mpr ⟨kk, hkk, rfl⟩
    obtain ⟨t3, T3⟩ := ev_absorb X _ t2 T2.last hS0 hperm hall
    have hp3 : g1.pend.filter (fun e => e.2 != r) = [] := by
      rw [hp1']
      simp
    obtain ⟨t4, T4⟩ := ev_evolve _ t3 T3.last (c := r) (by show g1.frames.head? = some r; rw [hfr1']; rfl) hS0
      (by show ∀ e ∈ g1.pend.filter (fun e => e.2 != r), e.2 ≠ r; rw [hp3]; simp)
    have hcD4 : ¬ PD ({ g1 with dir := setDir g1.dir r none, pend := g1.pend.filter (fun e => e.2 != r) } : GState) r := by
      rw [pd_iff]
      show ¬ ∃ e ∈ g1.pend.filter (fun e => e.2 != r), e.1 = r
      rw [hp3]; simp
    obtain ⟨t5, T5⟩ := ev_store _ t4 T4.last (r := r) (by show g1.frames = [r]; exact hfr1') hS0 hcD4
    refine ⟨⟨setDir (setDir (setDir g1.dir r none) r none) r none, g1.pend.filter (fun e => e.2 != r),
      g1.frames⟩, t5, ?_, hp3, hfr1', ?_⟩
    · simp only [bugEvents]
      have := Thru.append T1 (Thru.append (Thru.append T2 T3) (Thru.append T4 T5))
      simpa using this
    · have q5 := T5.last
      exact q5.pinv.eq_of_empty (fun k hk => by
        rw [pd_iff] at hk
        obtain ⟨e, he, _⟩ := hk
        have : e ∈ g1.pend.filter (fun e => e.2 != r) := he
        rw [hp3] at this; simp at this)

end Ptn.C09.Step
