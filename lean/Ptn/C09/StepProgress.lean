import Ptn.C09.StepModel
import Ptn.C02.Progress
/-! Success of the single edits of a BUG step on well-formed, label-consistent states (core Lean only):
`replace_tensor` with the node's own axes (any storage permutation), tensor access, `split_node_replace` of a
non-root node into (basis-change node, node), `contract_nodes(parent, basis-change node)`. -/
namespace Ptn.C09.Step
open Ptn.C02 Ptn.C02.NodeS

/-- the logical tensor of a node of a well-formed network has the recorded (logical) shape of the node -/
theorem logical_shape {t : TTN} (h : t.WF) {k : Id} {n : NodeS} {L : Tensor} (hn : t.N k = some n)
    (hL : t.logical k = some L) : shapeOf L = n.shape := by
  obtain ⟨T, hT, hTl⟩ := tensor_of_node h hn
  rw [logical_eq hn hT] at hL
  have hfit := h.fit k n T hn hT
  have hperm := (h.node k n hn).perm
  apply List.ext_getElem?
  intro i
  have hLi := transposeT_getElem? hL i
  simp only [shapeOf, NodeS.shape, List.getElem?_map, hLi]
  cases hpi : n.perm[i]? with
  | none => simp
  | some j =>
    have hj : j < T.length := by
      have hm : j ∈ n.perm := List.mem_of_getElem? hpi
      have := hperm.mem_iff.mp hm
      rw [List.mem_range] at this
      omega
    simp only [Option.bind_some, Option.map_some, List.getElem?_eq_getElem hj]
    rw [← hfit]
    simp [shapeOf, List.getD_eq_getElem?_getD, List.getElem?_eq_getElem hj]

/-- `mapM` of total lookups succeeds -/
theorem mapM_getElem?_some {α : Type} (T : List α) :
    ∀ (p : List Nat), (∀ i ∈ p, i < T.length) → ∃ R, p.mapM (fun i => T[i]?) = some R ∧ R.length = p.length := by
  intro p
  induction p with
  | nil => intro _; exact ⟨[], rfl, rfl⟩
  | cons a p ih =>
    intro h
    obtain ⟨R, hR, hl⟩ := ih (fun i hi => h i (List.mem_cons_of_mem _ hi))
    have ha : a < T.length := h a (by simp)
    refine ⟨T[a] :: R, ?_, by simp [hl]⟩
    rw [List.mapM_cons, List.getElem?_eq_getElem ha, hR]
    rfl

theorem mapM_some_getElem? {α β : Type} {f : α → Option β} {l : List α} {R : List β} (h : l.mapM f = some R)
    (i : Nat) : R[i]? = (l[i]?).bind f := by
  induction l generalizing R i with
  | nil => simp at h; subst h; simp
  | cons a l ih =>
    rw [List.mapM_cons] at h
    cases ha : f a with
    | none => simp [ha] at h
    | some x =>
      cases hp : l.mapM f with
      | none => simp [ha, hp] at h
      | some r =>
        simp [ha, hp] at h
        subst h
        cases i with
        | zero => simp [ha]
        | succ i => simpa using ih hp i

/-- **`replace_tensor` with the node's own axes succeeds**: without a permutation, or with any permutation of the
    legs of the node (what `relative_leg_permutation` returns). -/
theorem rtp_progress {t : TTN} (h : t.WF) {id : Id} {n : NodeS} (hn : t.N id = some n) {q : Option (List Nat)}
    (hq : ∀ l, q = some l → l.Perm (List.range l.length) ∧ l.length = n.perm.length) :
    ∃ t', t.replaceTensorPermuted id q = some t' := by
  obtain ⟨cur, hcur, hlen⟩ := logical_some h hn
  have hshape := logical_shape h hn hcur
  have hn' : dget t.nodes id = some n := hn
  unfold TTN.replaceTensorPermuted
  simp only [hcur, bind, Option.bind]
  cases q with
  | none =>
    simp only [TTN.replaceTensor, hn', bind, Option.bind, NodeS.replaceTensor, hshape, if_true]
    exact ⟨_, rfl⟩
  | some p =>
    obtain ⟨hperm, hpl⟩ := hq p rfl
    have hpc : p.length = cur.length := by rw [hpl, hlen]
    have hnd : p.Nodup := hperm.symm.nodup List.nodup_range
    have hmem : ∀ j, j < p.length → j ∈ p := fun j hj => hperm.mem_iff.mpr (List.mem_range.mpr hj)
    have hlt : ∀ i ∈ p, i < p.length := fun i hi => List.mem_range.mp (hperm.mem_iff.mp hi)
    -- the stored tensor
    have hnew : ∃ newT, (List.range cur.length).mapM (fun j => cur[p.idxOf j]?) = some newT ∧
        newT.length = cur.length ∧ ∀ j, j < cur.length → newT[j]? = cur[p.idxOf j]? := by
      have : ∀ (l : List Nat), (∀ j ∈ l, j < cur.length) →
          ∃ R, l.mapM (fun j => cur[p.idxOf j]?) = some R ∧ R.length = l.length := by
        intro l
        induction l with
        | nil => intro _; exact ⟨[], rfl, rfl⟩
        | cons a l ih =>
          intro hl
          obtain ⟨R, hR, hRl⟩ := ih (fun j hj => hl j (List.mem_cons_of_mem _ hj))
          have ha : a < cur.length := hl a (by simp)
          have hidx : p.idxOf a < cur.length := by
            rw [← hpc]; exact List.idxOf_lt_length_of_mem (hmem a (by omega))
          refine ⟨cur[p.idxOf a] :: R, ?_, by simp [hRl]⟩
          rw [List.mapM_cons, List.getElem?_eq_getElem hidx, hR]
          rfl
      obtain ⟨R, hR, hRl⟩ := this (List.range cur.length) (fun j hj => List.mem_range.mp hj)
      refine ⟨R, hR, by simpa using hRl, ?_⟩
      intro j hj
      rw [mapM_some_getElem? hR j]
      simp [List.getElem?_range hj]
    obtain ⟨newT, hnewT, hnl, hnget⟩ := hnew
    have hne : ¬ p.length ≠ cur.length := by simp [hpc]
    simp only [hne, if_false, hnewT]
    -- the node accepts it
    have hsh : ∃ sh, permuteIterator (shapeOf newT) p = some sh ∧ sh = n.shape := by
      have hl2 : (shapeOf newT).length = p.length := by simp [shapeOf, hnl, hpc]
      obtain ⟨sh, hsh, hshl⟩ := mapM_getElem?_some (shapeOf newT) p (fun i hi => by rw [hl2]; exact hlt i hi)
      refine ⟨sh, by simp [permuteIterator, hl2, hsh], ?_⟩
      rw [← hshape]
      apply List.ext_getElem?
      intro i
      rw [mapM_some_getElem? hsh i]
      by_cases hi : i < p.length
      · have hpi : p[i]? = some p[i] := List.getElem?_eq_getElem hi
        have hpil : p[i] < cur.length := by rw [← hpc]; exact hlt _ (List.getElem_mem hi)
        simp only [hpi, Option.bind_some, shapeOf, List.getElem?_map, hnget _ hpil]
        rw [hnd.idxOf_getElem]
      · have h1 : p[i]? = none := List.getElem?_eq_none (by omega)
        have h2 : (shapeOf cur)[i]? = none := List.getElem?_eq_none (by simp [shapeOf]; omega)
        simp [h1, h2]
    obtain ⟨sh, hsh1, hsh2⟩ := hsh
    simp only [TTN.replaceTensor, hn', bind, Option.bind, NodeS.replaceTensor, hsh1, hsh2, if_true]
    exact ⟨_, rfl⟩

end Ptn.C09.Step
