import Ptn.C09.StepTree
/-! From bonds to recorded shapes: when a step restores the structure map, keeps the open axes and the dimension of
the parent leg of every non-root node, every node has, leg by leg, the shape it had (core Lean only). -/
namespace Ptn.C09.Step
open Ptn.C02 Ptn.C02.NodeS

/-- all virtual legs keep their dimension when the parent legs do (same structure, both networks label-consistent) -/
theorem legs_of_parent_legs {t0 t' : TTN} (h : t0.WF) (hl : t0.LWF) (h' : t'.WF) (hl' : t'.LWF) (hS : t'.S = t0.S)
    (hpar : ∀ c p ch ax0, t0.S c = some (some p, ch) → t0.Leg c p ax0 → ∃ ax, t'.Leg c p ax ∧ ax.dim = ax0.dim) :
    ∀ k x ax, t'.Leg k x ax → ∃ ax0, t0.Leg k x ax0 ∧ ax0.dim = ax.dim := by
  intro k x ax hleg
  obtain ⟨n', L', hn', _, hz⟩ := leg_node hleg
  have hx : x ∈ n'.neighbours := (List.of_mem_zip hz).1
  have hSk : t0.S k = some (n'.parent, n'.children) := by rw [← hS]; exact TTN.S_eq hn'
  obtain ⟨n, hn, en⟩ := TTN.N_of_S hSk
  simp only [Prod.mk.injEq] at en
  rcases (mem_neighbours n' x).mp hx with hp | hc
  · have hSk' : t0.S k = some (some x, n'.children) := by rw [hSk, hp]
    obtain ⟨ax0, h0⟩ := leg_exists h hn (x := x) (by rw [mem_neighbours, ← en.1]; exact Or.inl hp)
    obtain ⟨ax1, h1, hd⟩ := hpar k x _ ax0 hSk' h0
    exact ⟨ax0, h0, by rw [← hd, leg_unique h' h1 hleg]⟩
  · obtain ⟨cch, hSx⟩ := h.str.down k _ _ x hSk hc
    obtain ⟨nx, hnx, enx⟩ := TTN.N_of_S hSx
    simp only [Prod.mk.injEq] at enx
    obtain ⟨ax0, h0⟩ := leg_exists h hnx (x := k) (by rw [mem_neighbours]; exact Or.inl enx.1.symm)
    obtain ⟨ax1, h1, hd⟩ := hpar x k cch ax0 hSx h0
    have h2 := hl'.sym _ _ _ hleg
    exact ⟨ax0, hl.sym _ _ _ h0, by rw [← hd, leg_unique h' h1 h2]⟩

/-- **same legs, same recorded shape**: a node with the same parent and children list, whose virtual legs have the
    dimensions they had and whose open axes are the same, has the same (logical) shape -/
theorem shape_eq_of_legs {t t' : TTN} (h : t.WF) (h' : t'.WF) {k : Id} {n n' : NodeS}
    (hn : t.N k = some n) (hn' : t'.N k = some n') (hp : n'.parent = n.parent) (hc : n'.children = n.children)
    (hlegs : ∀ x ax, t'.Leg k x ax → ∃ ax0, t.Leg k x ax0 ∧ ax0.dim = ax.dim)
    (hopen : t'.openAxes k = t.openAxes k) : n'.shape = n.shape := by
  obtain ⟨L, hL, hLl⟩ := logical_some h hn
  obtain ⟨L', hL', hLl'⟩ := logical_some h' hn'
  rw [← logical_shape h hn hL, ← logical_shape h' hn' hL']
  have hnb : n'.neighbours = n.neighbours := by simp [NodeS.neighbours, hp, hc]
  have hv : n'.nvirt = n.nvirt := by rw [← neighbours_length, ← neighbours_length, hnb]
  have ho : L'.drop n.nvirt = L.drop n.nvirt := by
    rw [openAxes_eq hn hL, openAxes_eq hn' hL', hv] at hopen
    exact hopen
  have hvl : n.nvirt ≤ L.length := by rw [hLl]; exact (h.node k n hn).virt
  have hvl' : n.nvirt ≤ L'.length := by rw [hLl', ← hv]; exact (h'.node k n' hn').virt
  have hlen : L'.length = L.length := by
    have := congrArg List.length ho
    simp only [List.length_drop] at this
    omega
  apply List.ext_getElem?
  intro i
  simp only [shapeOf, List.getElem?_map]
  by_cases hi : i < n.nvirt
  · have hiL : i < L.length := by omega
    have hiL' : i < L'.length := by omega
    have hin : i < n.neighbours.length := by rw [neighbours_length]; exact hi
    have m' : t'.Leg k n.neighbours[i] L'[i] := by
      unfold TTN.Leg
      rw [legPairs_eq hn' hL', hnb]
      exact List.mem_iff_getElem.mpr ⟨i, by simp [List.length_zip]; omega, by simp⟩
    have m : t.Leg k n.neighbours[i] L[i] := by
      unfold TTN.Leg
      rw [legPairs_eq hn hL]
      exact List.mem_iff_getElem.mpr ⟨i, by simp [List.length_zip]; omega, by simp⟩
    obtain ⟨ax0, hl0, hd⟩ := hlegs _ _ m'
    have := leg_unique h hl0 m
    rw [List.getElem?_eq_getElem hiL, List.getElem?_eq_getElem hiL', Option.map_some, Option.map_some, ← hd, this]
  · have e1 : L'[i]? = (L'.drop n.nvirt)[i - n.nvirt]? := by
      rw [List.getElem?_drop]; congr 1; omega
    have e2 : L[i]? = (L.drop n.nvirt)[i - n.nvirt]? := by
      rw [List.getElem?_drop]; congr 1; omega
    rw [e1, e2, ho]

end Ptn.C09.Step
