import Ptn.C19.Special
/-! Executable part of the value level for the star / fork / binary constructors (core Lean only; used by the driver
and by `ValueSpecial.lean`): the labels of a node's legs and the binding record of a network of `GNode`s, read off
the model state the way the library does (`parent.neighbour_index(child)` joined to the child's leg `0`). -/
namespace Ptn.C19

/-- a leg label: (node identifier, axis of the array handed in) -/
abbrev GLeg (ι : Type) := ι × Nat

/-- label of the `k`-th logical leg of the node `x`: the input axis that sits there -/
def GNode.lab {ι : Type} (x : GNode ι) (k : Nat) : GLeg ι := (x.id, x.legs.getD k 0)

/-- `Node.neighbour_index(c)`: position of `c` in `[parent] + children` -/
def GNode.nbrPos {ι : Type} [DecidableEq ι] (q : GNode ι) (c : ι) : Nat := (q.parent.toList ++ q.children).idxOf c

/-- the binding record of the network: for every node with a parent (dict order) the parent's leg towards it and
its own leg `0` -/
def gRecord {ι : Type} [DecidableEq ι] (nodes : List (GNode ι)) : List (GLeg ι × GLeg ι) :=
  nodes.filterMap fun x => match x.parent with
    | none => none
    | some q => (gFind nodes q).map fun pn => (pn.lab (pn.nbrPos x.id), x.lab 0)

end Ptn.C19
