import Ptn.C19.Spec
/-! Leg bookkeeping of `TTNO.from_tensor` (helper lemmas for `from_tensor_legs`). -/
namespace Ptn.C19

mutual
/-- the block of axes of the transposed input that belongs to the subtree `t` -/
def block (ld : Nat → List Nat) : RTree → List Nat
  | .node i kids => ld i ++ blockL ld kids
/-- children blocks, last child first -/
def blockL (ld : Nat → List Nat) : List RTree → List Nat
  | [] => []
  | k :: ks => blockL ld ks ++ block ld k
end

mutual
theorem qrShape_eq (ld : Nat → List Nat) (t : RTree) (acc : List Nat) :
    qrShape ld t acc = block ld t ++ acc := by
  cases t with
  | node i kids => simp [qrShape, block, qrShapeL_eq ld kids acc]
theorem qrShapeL_eq (ld : Nat → List Nat) (ks : List RTree) (acc : List Nat) :
    qrShapeL ld ks acc = blockL ld ks ++ acc := by
  cases ks with
  | nil => simp [qrShapeL, blockL]
  | cons k ks => simp [qrShapeL, blockL, qrShape_eq ld k acc, qrShapeL_eq ld ks]
end

mutual
theorem block_length (ld : Nat → List Nat) (h : ∀ i, (ld i).length = 2) (t : RTree) :
    (block ld t).length = 2 * t.size := by
  cases t with
  | node i kids => simp [block, RTree.size, h, blockL_length ld h kids]; omega
theorem blockL_length (ld : Nat → List Nat) (h : ∀ i, (ld i).length = 2) (ks : List RTree) :
    (blockL ld ks).length = 2 * RTree.sizeL ks := by
  cases ks with
  | nil => simp [blockL, RTree.sizeL]
  | cons k ks => simp [blockL, RTree.sizeL, block_length ld h k, blockL_length ld h ks]; omega
end

theorem insertIdx_append_left {α : Type} (A B : List α) (v : α) :
    (A ++ B).insertIdx A.length v = A ++ v :: B := by
  induction A with
  | nil => simp
  | cons a A ih => simp [List.insertIdx_succ_cons, ih]

/-- the new bond leg, appended by the factorisation, is the last one -/
theorem last_concat {α : Type} (L : List α) (v : α) : (L ++ [v])[(L ++ [v]).length - 1]? = some v := by
  rw [← List.getLast?_eq_getElem?, List.getLast?_concat]

/-- ... and is moved behind the `A.length` virtual legs -/
theorem moveLast {α : Type} (A B : List α) (v : α) :
    ((A ++ B ++ [v]).eraseIdx ((A ++ B ++ [v]).length - 1)).insertIdx A.length v = A ++ v :: B := by
  rw [List.eraseIdx_length_sub_one, List.dropLast_concat, insertIdx_append_left]

/-- one pass of the children loop on a tensor `A ++ B ++ blk` where `blk` is the block of the child
    and `A` the virtual legs so far -/
theorem splitChild_eq (i : Nat) (A B blk : List Leg) (c : RTree) (hb : blk.length = 2 * c.size) :
    splitChild i (A ++ B ++ blk) A.length c =
      (A ++ Leg.bond i c.id :: B, Leg.bond i c.id :: blk) := by
  unfold splitChild
  have hl : (A ++ B ++ blk).length - 2 * c.size = (A ++ B).length := by
    simp [hb]; omega
  simp only [hl, List.take_left, List.drop_left]
  rw [last_concat]
  simp only
  rw [moveLast]

mutual
theorem rec_eq (ld2 : Nat → List Nat) (h2 : ∀ i, (ld2 i).length = 2) (t : RTree) (par : Option Nat) :
    fromTensorRec t par (par.toList.map (fun q => Leg.bond q t.id) ++ (block ld2 t).map Leg.ax) =
      specNodes ld2 par t := by
  cases t with
  | node i kids =>
    have hlen : (par.toList.map (fun q => Leg.bond q i)).length = if par.isSome then 1 else 0 := by
      cases par <;> simp
    have hk := kids_eq ld2 h2 i kids (par.toList.map (fun q => Leg.bond q i)) ((ld2 i).map Leg.ax)
    rw [hlen] at hk
    simp only [fromTensorRec, RTree.id, block, List.map_append, ← List.append_assoc]
    rw [hk]
    simp [specNodes, specNode, RTree.id, RTree.kids]
theorem kids_eq (ld2 : Nat → List Nat) (h2 : ∀ i, (ld2 i).length = 2) (i : Nat) (ks : List RTree)
    (A own : List Leg) :
    fromTensorKids i ks (A ++ own ++ (blockL ld2 ks).map Leg.ax) A.length =
      (A ++ ks.map (fun k => Leg.bond i k.id) ++ own, specNodesL ld2 i ks) := by
  cases ks with
  | nil => simp [fromTensorKids, blockL, specNodesL]
  | cons c cs =>
    have hb : ((block ld2 c).map Leg.ax).length = 2 * c.size := by
      rw [List.length_map, block_length ld2 h2 c]
    have hs := splitChild_eq i A (own ++ (blockL ld2 cs).map Leg.ax) ((block ld2 c).map Leg.ax) c hb
    have hcur : A ++ own ++ (blockL ld2 (c :: cs)).map Leg.ax =
        A ++ (own ++ (blockL ld2 cs).map Leg.ax) ++ (block ld2 c).map Leg.ax := by
      simp [blockL]
    have hr := rec_eq ld2 h2 c (some i)
    have hk := kids_eq ld2 h2 i cs (A ++ [Leg.bond i c.id]) own
    simp only [Option.toList_some, List.map_cons, List.map_nil, List.singleton_append] at hr
    have hA : (A ++ [Leg.bond i c.id]).length = A.length + 1 := by simp
    have hcur2 : A ++ [Leg.bond i c.id] ++ own ++ (blockL ld2 cs).map Leg.ax =
        A ++ Leg.bond i c.id :: (own ++ (blockL ld2 cs).map Leg.ax) := by simp
    rw [hA, hcur2] at hk
    rw [hcur]
    simp only [fromTensorKids, hs, hr, hk]
    simp [specNodesL]
end

/-! ### the transposition is a permutation -/

mutual
theorem block_perm (ld : Nat → List Nat) (t : RTree) : (block ld t).Perm (t.ids.flatMap ld) := by
  cases t with
  | node i kids =>
    simp only [block, RTree.ids, List.flatMap_cons]
    exact List.Perm.append_left _ (blockL_perm ld kids)
theorem blockL_perm (ld : Nat → List Nat) (ks : List RTree) :
    (blockL ld ks).Perm ((RTree.idsL ks).flatMap ld) := by
  cases ks with
  | nil => simp [blockL, RTree.idsL]
  | cons k ks =>
    simp only [blockL, RTree.idsL, List.flatMap_append]
    exact List.perm_append_comm.trans (List.Perm.append (block_perm ld k) (blockL_perm ld ks))
end

theorem flatMap_pair_perm (n : Nat) (l : List Nat) :
    (l.flatMap fun k => [k, n + k]).Perm (l ++ l.map (n + ·)) := by
  induction l with
  | nil => simp
  | cons k l ih =>
    simp only [List.flatMap_cons, List.map_cons, List.cons_append, List.nil_append]
    refine List.Perm.cons k ?_
    exact (List.Perm.cons (n + k) ih).trans List.perm_middle.symm

mutual
theorem specNodes_flat (ld2 : Nat → List Nat) (par : Option Nat) (t : RTree) :
    (specNodes ld2 par t).map (fun x => (x.id, x.children)) = t.flat := by
  cases t with
  | node i kids =>
    simp [specNodes, specNode, RTree.flat, RTree.id, RTree.kids, specNodesL_flat ld2 i kids]
theorem specNodesL_flat (ld2 : Nat → List Nat) (i : Nat) (ks : List RTree) :
    (specNodesL ld2 i ks).map (fun x => (x.id, x.children)) = RTree.flatL ks := by
  cases ks with
  | nil => simp [specNodesL, RTree.flatL]
  | cons k ks =>
    simp [specNodesL, RTree.flatL, specNodes_flat ld2 (some i) k, specNodesL_flat ld2 i ks]
end

end Ptn.C19
