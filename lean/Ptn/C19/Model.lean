/-! Model for property C19 (core Lean only; no Mathlib): the *index logic* of the special-topology
constructors, of `TTNO.from_tensor` and of the Ising model builders.

* `nnPairs`            ↔ `_find_nn_pairs(_grid_from_structure(prefix, rows, cols))`
                         (`pytreenet/operators/models.py`); a cell `(i, j)` stands for `f"{prefix}{i}_{j}"`.
* `addChild`           ↔ `TreeTensorNetwork.add_child_to_parent` (leg order bookkeeping of
                         `Node.open_leg_to_parent` / `open_leg_to_child`, with their checks)
* `attachLeft/Right`   ↔ `MatrixProductTree.attach_node_left_end / attach_node_right_end`
* `fromTensorList`, `leftmost` ↔ `MatrixProductTree.from_tensor_list`,
                         `from_tensor_list_leftmost_node_is_root` (`pytreenet/special_ttn/mps.py`)
* `nearestNeighbours`, `singleSiteTerms`, `nnTerms`, `isingTree`, `isingPairs`, `isingGrid`
                       ↔ `TreeStructure.nearest_neighbours`, `single_site_operators` /
                         `create_single_site_hamiltonian`, `create_nearest_neighbour_hamiltonian`,
                         `_abstract_ising_model` with `_get_ham_objects` (factor `(-1, symbol)`),
                         `_abstract_2D_ising`
* `qrShape`, `fromTensor` ↔ `TTNO._get_qr_decomposition_shape`, `TTNO.from_tensor` /
                         `_from_tensor_rec` (which legs go where; the factorisation itself is external).

Tensors are not modelled by value: a tensor is the list of its legs (`legs`), each leg named by the axis
of the *input* tensor it came from (or by the bond a factorisation created). -/
namespace Ptn.C19

/-! ## 1. Grid neighbour pairs -/

abbrev Cell := Nat × Nat

/-- Body of the double loop of `_find_nn_pairs` for the cell `(i, j)`. -/
def cellPairs (rows cols i j : Nat) : List (Cell × Cell) :=
  (if i < rows - 1 then [((i, j), (i + 1, j))] else []) ++
  (if j < cols - 1 then [((i, j), (i, j + 1))] else [])

/-- `_find_nn_pairs` on the grid of `_grid_from_structure`. -/
def nnPairs (rows cols : Nat) : List (Cell × Cell) :=
  (List.range rows).flatMap fun i => (List.range cols).flatMap fun j => cellPairs rows cols i j

/-! ## 2. Matrix-product chain -/

/-- A node of the network under construction: `legs` is the logical leg order
    (`parent, children…, open…`), every entry being an axis of the tensor handed in. -/
structure MNode where
  id : Nat
  parent : Option Nat
  children : List Nat
  legs : List Nat
deriving Repr, DecidableEq

def MNode.nvirt (x : MNode) : Nat := (if x.parent.isSome then 1 else 0) + x.children.length

/-- The tree under construction: `nodes` in dict (insertion) order, the root identifier and the two
    bookkeeping lists of `MatrixProductTree`. -/
structure MPT where
  nodes : List MNode
  root : Nat
  left : List Nat
  right : List Nat
deriving Repr, DecidableEq

/-- `value = perm.pop(src); perm.insert(dst, value)` -/
def popInsert (l : List Nat) (src dst : Nat) : List Nat :=
  match l[src]? with
  | none => l
  | some v => (l.eraseIdx src).insertIdx dst v

def MPT.find (st : MPT) (i : Nat) : Option MNode := st.nodes.find? (fun x => x.id == i)

def addRoot (i nlegs : Nat) : MPT := ⟨[⟨i, none, [], List.range nlegs⟩], i, [], []⟩

/-- What `open_leg_to_child` does to the parent. -/
def MNode.toChild (p : MNode) (cid parentLeg : Nat) : MNode :=
  { p with legs := popInsert p.legs parentLeg p.nvirt, children := p.children ++ [cid] }

/-- `add_child_to_parent(Node(cid), tensor with nlegs legs, childLeg, pid, parentLeg)`; `none` when the
    library raises (unknown parent, duplicate identifier, leg out of range or not open). -/
def addChild (st : MPT) (cid nlegs childLeg pid parentLeg : Nat) : Option MPT :=
  match st.find pid with
  | none => none
  | some p =>
    if (st.find cid).isSome then none
    else if nlegs ≤ childLeg then none
    else if parentLeg < p.nvirt ∨ p.legs.length ≤ parentLeg then none
    else
      let child : MNode := ⟨cid, some pid, [], popInsert (List.range nlegs) childLeg 0⟩
      some { st with nodes := (st.nodes.map fun x => if x.id == pid then x.toChild cid parentLeg else x)
                               ++ [child] }

/-- Number of legs of the `i`-th input tensor of a chain of `n` sites: `[left, right, open…]`, the first
    site has no left leg, the last no right leg; `p i` open legs. -/
def nlegsIn (n : Nat) (p : Nat → Nat) (i : Nat) : Nat :=
  (if 0 < i then 1 else 0) + (if i + 1 < n then 1 else 0) + p i

def attachRight (st : MPT) (i nlegs : Nat) : Option MPT :=
  let pid := match st.right.getLast? with
    | none => st.root
    | some x => x
  (addChild st i nlegs 0 pid 1).map fun s => { s with right := s.right ++ [i] }

def attachLeft (st : MPT) (i nlegs : Nat) (final : Bool) : Option MPT :=
  let tgt : Option (Nat × Nat) := match st.left.head? with
    | none => (st.find st.root).map fun rt => (st.root, rt.children.length)
    | some x => some (x, 1)
  match tgt with
  | none => none
  | some (pid, pleg) =>
    (addChild st i nlegs (if final then 0 else 1) pid pleg).map fun s => { s with left := i :: s.left }

/-- `from_tensor_list_leftmost_node_is_root` -/
def leftmost (n : Nat) (p : Nat → Nat) : Option MPT :=
  if n = 0 then none else
  let st0 := addRoot 0 (nlegsIn n p 0)
  let st1 : Option MPT :=
    if 1 < n then (addChild st0 1 (nlegsIn n p 1) 0 0 0).map fun s => { s with right := s.right ++ [1] }
    else some st0
  (List.range (n - 2)).foldl
    (fun acc i => acc.bind fun st => attachRight st (i + 2) (nlegsIn n p (i + 2))) st1

/-- `from_tensor_list(tensor_list, root_site = r)` for `n` tensors. -/
def fromTensorList (n r : Nat) (p : Nat → Nat) : Option MPT :=
  if n ≤ r then none
  else if r = 0 then leftmost n p
  else
    let st0 := addRoot r (nlegsIn n p r)
    let st1 := (List.range r).foldl
      (fun acc i => acc.bind fun st =>
        let site := r - 1 - i
        attachLeft st site (nlegsIn n p site) (site == 0)) (some st0)
    (List.range (n - r - 1)).foldl
      (fun acc i => acc.bind fun st =>
        let site := r + 1 + i
        attachRight st site (nlegsIn n p site)) st1

/-- Hand-made chain: `add_root` of site `r`, then `attach_node_left_end(node, tensor, final)` /
    `attach_node_right_end(node, tensor)` called directly in the given order (`(true, final)` = left,
    `(false, _)` = right); left sites are numbered downwards from `r - 1`, right sites upwards from `r + 1`.
    `from_tensor_list` only ever uses the order "all left, then all right". -/
def directRun (n r : Nat) (p : Nat → Nat) (steps : List (Bool × Bool)) : Option MPT :=
  if n ≤ r then none else
  (steps.foldl
    (fun acc s => acc.bind fun (x : MPT × Nat × Nat) =>
      let (st, lo, hi) := x
      if s.1 then
        if lo = 0 then none
        else (attachLeft st (lo - 1) (nlegsIn n p (lo - 1)) s.2).map fun st' => (st', lo - 1, hi)
      else
        if hi + 1 < n then (attachRight st (hi + 1) (nlegsIn n p (hi + 1))).map fun st' => (st', lo, hi + 1)
        else none)
    (some (addRoot r (nlegsIn n p r), r, r))).map (·.1)

/-- Name of axis `a` of the `i`-th input tensor. -/
inductive Axis where
  | left | right | phys (k : Nat)
deriving Repr, DecidableEq

def axisName (n i a : Nat) : Axis :=
  if 0 < i ∧ i + 1 < n then (if a = 0 then .left else if a = 1 then .right else .phys (a - 2))
  else if 0 < i then (if a = 0 then .left else .phys (a - 1))
  else if i + 1 < n then (if a = 0 then .right else .phys (a - 1))
  else .phys a

/-! ## 3. Ising term lists -/

inductive Sym where
  | extMagn | coupling
deriving Repr, DecidableEq

/-- `A` is the nearest-neighbour operator, `B` the field operator (`X`/`Z` for the Ising model,
    `Z`/`X` for the flipped one). -/
inductive Op where
  | A | B
deriving Repr, DecidableEq

/-- One term `(Fraction, symbol, TensorProduct)`; the tensor product as its (ordered) dict items. -/
structure Term (α : Type) where
  coeff : Int
  sym : Sym
  ops : List (α × Op)
deriving Repr, DecidableEq

/-- `TreeStructure.nearest_neighbours` on the dict `(id, children)` in insertion order. -/
def nearestNeighbours {α : Type} (flat : List (α × List α)) : List (α × α) :=
  flat.flatMap fun x => x.2.map fun c => (x.1, c)

/-- `create_single_site_hamiltonian(structure, op, factor)`: `single_site_operators` returns `{}` for a
    zero factor. -/
def singleSiteTerms {α : Type} (ids : List α) (factor : Int × Sym) (op : Op) : List (Term α) :=
  if factor.1 = 0 then [] else ids.map fun i => ⟨factor.1, factor.2, [(i, op)]⟩

/-- `create_nearest_neighbour_hamiltonian(pairs, op, factor)` (second operator defaults to the first). -/
def nnTerms {α : Type} (pairs : List (α × α)) (factor : Int × Sym) (op : Op) : List (Term α) :=
  if factor.1 = 0 then [] else pairs.map fun pr => ⟨factor.1, factor.2, [(pr.1, op), (pr.2, op)]⟩

/-- `_get_ham_objects`: the factor is always `(Fraction(-1), factor_id)`. -/
def hamFactor (s : Sym) : Int × Sym := (-1, s)

/-- `_abstract_ising_model` with a `TreeStructure`. -/
def isingTree {α : Type} (flat : List (α × List α)) : List (Term α) :=
  singleSiteTerms (flat.map (·.1)) (hamFactor .extMagn) .B ++
  nnTerms (nearestNeighbours flat) (hamFactor .coupling) .A

/-- `list(set(..))` up to order: first occurrences. -/
def dedup {α : Type} [DecidableEq α] : List α → List α
  | [] => []
  | a :: l => if a ∈ dedup l then dedup l else a :: dedup l

/-- `_abstract_ising_model` with a list of neighbour pairs: the sites are those that occur in a pair
    (in the unspecified order of a Python `set`; the model lists them by last occurrence). -/
def isingPairs {α : Type} [DecidableEq α] (pairs : List (α × α)) : List (Term α) :=
  singleSiteTerms (dedup (pairs.flatMap fun pr => [pr.1, pr.2])) (hamFactor .extMagn) .B ++
  nnTerms pairs (hamFactor .coupling) .A

/-- `_abstract_ising_model` with a list of neighbour pairs and the explicit site list (argument `sites`,
    added by the repair of F-C19a): the field acts on exactly the listed sites. -/
def isingPairsSites {α : Type} (sites : List α) (pairs : List (α × α)) : List (Term α) :=
  singleSiteTerms sites (hamFactor .extMagn) .B ++ nnTerms pairs (hamFactor .coupling) .A

/-- `[identifier for row in grid for identifier in row]`: all cells, row by row -/
def gridCells (rows cols : Nat) : List Cell :=
  (List.range rows).flatMap fun i => (List.range cols).map fun j => (i, j)

/-- `_abstract_2D_ising((prefix, rows, cols), …)` (after the repair of F-C19a: the sites are the cells of
    the grid, not the sites that happen to occur in a neighbour pair) -/
def isingGrid (rows cols : Nat) : List (Term Cell) :=
  isingPairsSites (gridCells rows cols) (nnPairs rows cols)

/-! ## 4. `TTNO.from_tensor` -/

inductive RTree where
  | node (id : Nat) (kids : List RTree)
deriving Repr

mutual
def RTree.size : RTree → Nat
  | .node _ kids => 1 + RTree.sizeL kids
def RTree.sizeL : List RTree → Nat
  | [] => 0
  | k :: ks => k.size + RTree.sizeL ks
end

def RTree.id : RTree → Nat
  | .node i _ => i

def RTree.kids : RTree → List RTree
  | .node _ ks => ks

mutual
/-- `_get_qr_decomposition_shape(reference_tree, leg_dict, shape_tensor, current_id)` -/
def qrShape (ld : Nat → List Nat) : RTree → List Nat → List Nat
  | .node i kids, acc => ld i ++ qrShapeL ld kids acc
def qrShapeL (ld : Nat → List Nat) : List RTree → List Nat → List Nat
  | [], acc => acc
  | k :: ks, acc => qrShapeL ld ks (qrShape ld k acc)
end

/-- A leg of a tensor during the recursive splitting: an axis of the dense input, or the bond created
    when `child` was split off `parent`. -/
inductive Leg where
  | ax (k : Nat)
  | bond (parent child : Nat)
deriving Repr, DecidableEq

structure FNode where
  id : Nat
  parent : Option Nat
  children : List Nat
  legs : List Leg
deriving Repr, DecidableEq

/-- One pass of the `for child_id in current_children` loop of `_from_tensor_rec` on the node `i` whose
    tensor currently has legs `cur` and `nv` virtual legs: returns the node's legs afterwards (as read
    back through `self.tensors[…]`, i.e. in `(parent, children, open)` order) and the legs `R` of the new
    child (its parent leg first). -/
def splitChild (i : Nat) (cur : List Leg) (nv : Nat) (c : RTree) : List Leg × List Leg :=
  let nrec := 2 * c.size
  let q := cur.take (cur.length - nrec) ++ [Leg.bond i c.id]
  let r := Leg.bond i c.id :: cur.drop (cur.length - nrec)
  -- add_child_to_parent(r_node, R, 0, current, Q.ndim - 1): the new bond moves behind the virtual legs
  let q' := match q[q.length - 1]? with
    | none => q
    | some v => (q.eraseIdx (q.length - 1)).insertIdx nv v
  (q', r)

mutual
/-- `_from_tensor_rec` on the subtree `t`, whose root has just been inserted with legs `legs` and parent
    `par`: the nodes of the subtree in dict (insertion) order with their final legs. -/
def fromTensorRec : RTree → Option Nat → List Leg → List FNode
  | .node i kids, par, legs =>
    let nv0 := if par.isSome then 1 else 0
    let res := fromTensorKids i kids legs nv0
    ⟨i, par, kids.map RTree.id, res.1⟩ :: res.2
/-- the loop over the children: current legs of the parent, number of its virtual legs so far -/
def fromTensorKids (i : Nat) : List RTree → List Leg → Nat → List Leg × List FNode
  | [], cur, _ => (cur, [])
  | c :: cs, cur, nv =>
    let qr := splitChild i cur nv c
    let sub := fromTensorRec c (some i) qr.2
    let rest := fromTensorKids i cs qr.1 (nv + 1)
    (rest.1, sub ++ rest.2)
end

/-- `TTNO.from_tensor(reference_tree, tensor, leg_dict, mode)` with `new_leg_dict[id] =
    [leg_dict[id], half + leg_dict[id]]`. -/
def fromTensor (t : RTree) (ld : Nat → Nat) : List FNode :=
  let half := t.size
  let ld2 : Nat → List Nat := fun i => [ld i, half + ld i]
  fromTensorRec t none ((qrShape ld2 t []).map Leg.ax)

end Ptn.C19
