/-! Model for property C19 (core Lean only; no Mathlib). -/
namespace Ptn.C19
end Ptn.C19
