import Ptn.C19.Model
/-! Property theorems for C19. Only property theorems and non-vacuity examples live here. -/
namespace Ptn.C19
end Ptn.C19
