import Ptn.C19.Model
import Ptn.C19.Spec
import Ptn.C19.Lemmas
import Ptn.C19.Mps
import Ptn.C19.FromTensor
import Ptn.C19.StarFork
import Ptn.C19.Binary
import Ptn.C19.Const
import Ptn.C19.ConstAcceptStar
import Ptn.C19.ConstAcceptFtps
import Ptn.C19.ConstAcceptFtpsRun
import Ptn.C19.ParentLeg
import Ptn.C19.ValueRec
import Ptn.C19.ValueChain
import Ptn.C19.ValuePad
import Ptn.C19.ValueShift
import Ptn.C19.ValueSpecial
import Ptn.C19.ValueBinary
/-! Property theorems for C19. Only property theorems and non-vacuity examples live here.  The leg-level
theorems are core Lean; the value-level theorems at the end (`from_tensor_value`, `mps_chain_value`,
`pad_bond_value`) rest on `Ptn/Common/Einsum*.lean` (single Mathlib modules). -/
namespace Ptn.C19

/-! ### Grid neighbour pairs (`_find_nn_pairs`) -/

/-- For every grid size, every unordered pair of cells occurs in the generated list exactly once (in one
    of its two orientations) when both cells lie in the grid and are horizontally or vertically
    adjacent, and does not occur at all otherwise. -/
theorem nn_pairs_grid (rows cols : Nat) (a b : Cell) :
    (nnPairs rows cols).count (a, b) + (nnPairs rows cols).count (b, a) =
      if InGrid rows cols a ∧ InGrid rows cols b ∧ Adjacent a b then 1 else 0 := by
  rw [(nodup_nnPairs rows cols).count, (nodup_nnPairs rows cols).count]
  simp only [mem_nnPairs]
  obtain ⟨a1, a2⟩ := a
  obtain ⟨b1, b2⟩ := b
  by_cases hc : InGrid rows cols (a1, a2) ∧ InGrid rows cols (b1, b2) ∧ Adjacent (a1, a2) (b1, b2)
  · rw [if_pos hc]
    simp only [InGrid, Adjacent, Prod.mk.injEq] at hc ⊢
    split <;> split <;> omega
  · rw [if_neg hc]
    simp only [InGrid, Adjacent, Prod.mk.injEq] at hc ⊢
    split <;> split <;> omega

/-- The orientation is the documented one: first the cell, then its lower or right neighbour. -/
theorem nn_pairs_grid_mem (rows cols : Nat) (a b : Cell) :
    (a, b) ∈ nnPairs rows cols ↔
      InGrid rows cols a ∧ InGrid rows cols b ∧ (b = (a.1 + 1, a.2) ∨ b = (a.1, a.2 + 1)) :=
  mem_nnPairs rows cols a b

example : nnPairs 2 3 =
    [((0,0),(1,0)), ((0,0),(0,1)), ((0,1),(1,1)), ((0,1),(0,2)), ((0,2),(1,2)), ((1,0),(1,1)),
     ((1,1),(1,2))] := by decide

/-! ### Matrix-product chain (`MatrixProductTree.from_tensor_list`, both code paths) -/

/-- For every chain length `n ≥ 2`, every root position `r < n` and any number `p i` of open legs per
    site, the construction completes (no exception) and yields: the path graph `0 - … - (n-1)` with the
    documented identifiers (site indices, each exactly once, in the stated dict order), rooted at `r`
    (parent of `i` is the neighbour towards `r`, the root's children are its left, then its right
    neighbour); every node's legs in `(parent, children, open)` order are the input tensor's `left` axis
    for the neighbour `i - 1`, its `right` axis for the neighbour `i + 1` and its open axes in order; the
    bookkeeping lists `left_nodes` / `right_nodes` hold the sites left / right of the root in chain
    order.  Which tensor *values* sit on these legs (zero padding) is the dense oracle's part. -/
theorem mps_chain_structure (n r : Nat) (p : Nat → Nat) (hn : 2 ≤ n) (hr : r < n) :
    ∃ st, fromTensorList n r p = some st ∧
      st.root = r ∧
      st.nodes.map (·.id) = chainOrder n r ∧
      (chainOrder n r).Nodup ∧ (∀ i, i ∈ chainOrder n r ↔ i < n) ∧
      (∀ x ∈ st.nodes, x.parent = chainParent r x.id ∧ x.children = chainChildren n r x.id ∧
        x.legs.map (axisName n x.id) = chainLegs n r p x.id) ∧
      st.left = List.range r ∧ st.right = List.range' (r + 1) (n - 1 - r) := by
  have hids : idsAt r 0 (n - 1) = chainOrder n r := by
    unfold idsAt chainOrder
    rw [List.range_eq_range' (n := r), List.reverse_range']
    simp
  have hmem : ∀ i, i ∈ chainOrder n r ↔ i < n := by
    intro i
    rw [← hids, mem_idsAt r 0 (n - 1) i (by omega) (by omega)]
    omega
  refine ⟨stateAt n r p 0 (n - 1), fromTensorList_closed n r p hn hr, rfl, ?_, ?_, hmem, ?_, ?_, ?_⟩
  · show ((idsAt r 0 (n - 1)).map (nodeAt n r p 0 (n - 1))).map (·.id) = _
    rw [List.map_map, ← hids]
    simp [Function.comp_def, nodeAt_id]
  · unfold chainOrder
    simp only [List.nodup_cons, List.nodup_append, List.mem_append, List.mem_reverse, List.mem_range,
      List.mem_range'_1]
    refine ⟨by omega, nodup_reverse' _ List.nodup_range, List.nodup_range', ?_⟩
    intro a ha b hb
    omega
  · intro x hx
    simp only [stateAt, List.mem_map] at hx
    obtain ⟨i, hi, rfl⟩ := hx
    have hin : i < n := (hmem i).1 (hids ▸ hi)
    refine ⟨?_, ?_, legs_axis n r p i hr hin hn⟩
    · rfl
    · show (nodeAt n r p 0 (n - 1) i).children = chainChildren n r i
      unfold nodeAt chainChildren
      by_cases h1 : i < r
      · simp only [h1, if_true]
      · by_cases h2 : r < i
        · by_cases h3 : i + 1 < n
          · have a : i < n - 1 := by omega
            simp only [h1, h2, h3, a, if_true, if_false]
          · have a : ¬ i < n - 1 := by omega
            simp only [h1, h2, h3, a, if_true, if_false]
        · by_cases h3 : r + 1 < n
          · have a : r < n - 1 := by omega
            simp only [h1, h2, h3, a, if_true, if_false]
          · have a : ¬ r < n - 1 := by omega
            simp only [h1, h2, h3, a, if_false]
  · show List.range' 0 (r - 0) = List.range r
    rw [Nat.sub_zero, ← List.range_eq_range']
  · rfl

example : fromTensorList 4 2 (fun _ => 1) = some
    ⟨[⟨2, none, [1, 3], [0, 1, 2]⟩, ⟨1, some 2, [0], [1, 0, 2]⟩, ⟨0, some 1, [], [0, 1]⟩,
      ⟨3, some 2, [], [0, 1]⟩], 2, [0, 1], [3]⟩ := by decide

example : (2 : Nat) ≤ 4 ∧ 2 < 4 := by decide

/-! ### Ising term lists (`_abstract_ising_model`) -/

/-- For every tree and every dict order of its `TreeStructure` (any permutation of the pre-order
    entries; child lists as in the tree) the generated term multiset is exactly one field term
    `(-1, ext_magn, {i: B})` per node and one coupling term `(-1, coupling, {i: A, j: A})` per edge
    `(parent i, child j)`: the formal sum `-J Σ_<ij> A_i A_j - g Σ_i B_i`. -/
theorem ising_terms (t : RTree) (flat : List (Nat × List Nat)) (h : flat.Perm t.flat) :
    (isingTree flat).Perm (t.ids.map fieldTerm ++ t.edges.map couplingTerm) := by
  rw [isingTree_eq, ← flat_ids t, ← flat_edges t]
  refine List.Perm.append ((h.map _).map _) (List.Perm.map _ ?_)
  exact List.Perm.flatMap_right _ h

/-- In pre-order dict order even the term *list* is the specified one. -/
theorem ising_terms_preorder (t : RTree) :
    isingTree t.flat = t.ids.map fieldTerm ++ t.edges.map couplingTerm := by
  rw [isingTree_eq, flat_ids, flat_edges]

example : isingTree (RTree.node 0 [.node 2 [.node 3 []], .node 1 []]).flat =
    [fieldTerm 0, fieldTerm 2, fieldTerm 3, fieldTerm 1,
     couplingTerm (0, 2), couplingTerm (0, 1), couplingTerm (2, 3)] := by decide

/-- Pair-list input: one coupling term per listed pair (in order) and one field term for every site
    that occurs in some pair - and for no other site. -/
theorem ising_pairs_terms {α : Type} [DecidableEq α] (pairs : List (α × α)) :
    ∃ sites : List α, isingPairs pairs = sites.map fieldTerm ++ pairs.map couplingTerm ∧
      sites.Nodup ∧ ∀ s, s ∈ sites ↔ ∃ pr ∈ pairs, s = pr.1 ∨ s = pr.2 := by
  refine ⟨_, isingPairs_eq pairs, nodup_dedup _, ?_⟩
  intro s
  rw [mem_dedup]
  simp only [List.mem_flatMap, List.mem_cons, List.not_mem_nil, or_false]

/-- 2-D builder (after the repair of F-C19a): on EVERY grid, 1 x 1 included, the terms are one field term per
    cell of the grid and one coupling term per neighbour pair of `nn_pairs_grid`. -/
theorem ising_grid_terms (rows cols : Nat) :
    isingGrid rows cols =
        (gridCells rows cols).map fieldTerm ++ (nnPairs rows cols).map couplingTerm ∧
      (gridCells rows cols).Nodup ∧ ∀ c, c ∈ gridCells rows cols ↔ InGrid rows cols c :=
  ⟨isingPairsSites_eq _ _, gridCells_nodup rows cols, mem_gridCells rows cols⟩

/-- The former witness of F-C19a, now the expected value: on the 1 x 1 grid the builder yields exactly the field
    term of its only cell. -/
theorem ising_grid_1x1 : isingGrid 1 1 = [fieldTerm (0, 0)] ∧ InGrid 1 1 (0, 0) := by decide

/-- The pair-list entry point without a site list still takes the sites from the pairs (documented assumption of
    `_abstract_ising_model`): every cell of a grid with at least two cells occurs in a pair, so both site lists agree
    as sets there. -/
theorem ising_grid_sites_agree (rows cols : Nat) (h : 2 ≤ rows * cols) (c : Cell) :
    InGrid rows cols c ↔ ∃ pr ∈ nnPairs rows cols, c = pr.1 ∨ c = pr.2 := by
  constructor
  · exact cell_in_some_pair rows cols h c
  · rintro ⟨⟨a, b⟩, hp, hc⟩
    have := (mem_nnPairs rows cols a b).1 hp
    rcases hc with rfl | rfl
    · exact this.1
    · exact this.2.1

example : (2 : Nat) ≤ 1 * 2 := by decide

/-! ### `TTNO.from_tensor`: which leg ends up where -/

/-- The axes list handed to `np.transpose` is a permutation of all `2n` axes whenever the leg
    dictionary assigns the legs `0 … n-1` bijectively to the nodes (so the transposition completes
    and loses no leg). -/
theorem qr_shape_perm (t : RTree) (ld : Nat → Nat) (h : (t.ids.map ld).Perm (List.range t.size)) :
    (qrShape (fun i => [ld i, t.size + ld i]) t []).Perm (List.range (2 * t.size)) := by
  rw [qrShape_eq, List.append_nil]
  refine (block_perm _ t).trans ?_
  have e : t.ids.flatMap (fun i => [ld i, t.size + ld i]) =
      (t.ids.map ld).flatMap (fun k => [k, t.size + k]) := by
    rw [List.flatMap_map]
  rw [e]
  refine (List.Perm.flatMap_right _ h).trans ?_
  refine (flatMap_pair_perm t.size _).trans ?_
  have : 2 * t.size = t.size + t.size := by omega
  rw [this, List.range_add]

/-- For every reference tree (any shape, any child order), every leg assignment and every
    decomposition mode (the mode only selects the external factorisation), the recursive splitting
    produces exactly the reference tree's nodes in pre-order, each with the reference parent and
    children (in order) and with legs `(bond to parent, bonds to the children in order,
    leg_dict[id], half + leg_dict[id])`: every node keeps precisely its own output and input leg of
    the dense operator, and every bond created by a factorisation joins a node to its reference
    child.  Hence contracting the bonds gives back the input, provided each factorisation
    reproduces its argument (the QR/SVD contract, checked numerically on every case). -/
theorem from_tensor_legs (t : RTree) (ld : Nat → Nat) :
    fromTensor t ld = specNodes (fun i => [ld i, t.size + ld i]) none t := by
  unfold fromTensor
  simp only
  rw [qrShape_eq, List.append_nil]
  exact rec_eq (fun i => [ld i, t.size + ld i]) (fun _ => rfl) t none

/-- The resulting `TreeStructure` dict (identifier, ordered children) is the reference tree's. -/
theorem from_tensor_structure (t : RTree) (ld : Nat → Nat) :
    (fromTensor t ld).map (fun x => (x.id, x.children)) = t.flat := by
  rw [from_tensor_legs, specNodes_flat]

example : fromTensor (.node 0 [.node 1 [.node 3 []], .node 2 []]) (fun i => [2, 0, 3, 1].getD i 0) =
    [⟨0, none, [1, 2], [.bond 0 1, .bond 0 2, .ax 2, .ax 6]⟩,
     ⟨1, some 0, [3], [.bond 0 1, .bond 1 3, .ax 0, .ax 4]⟩,
     ⟨3, some 1, [], [.bond 1 3, .ax 1, .ax 5]⟩,
     ⟨2, some 0, [], [.bond 0 2, .ax 3, .ax 7]⟩] := by decide

example : ((RTree.node 0 [.node 1 [.node 3 []], .node 2 []]).ids.map (fun i => [2, 0, 3, 1].getD i 0)).Perm
    (List.range (RTree.node 0 [.node 1 [.node 3 []], .node 2 []]).size) := by decide

/-! ### Star (`StarTreeTensorNetwork.add_center_node` / `add_chain_node`) -/

/-- For every centre tensor shape and **every sequence of `add_chain_node(tensor, chain_index)` calls that
    the code accepts** (any interleaving of the chains, any tensor shapes):
    * dict order: the centre, then one node per call, the `k`-th call with chain index `c` creating
      `chain c j` with `j` = number of earlier calls with index `c` (`prefix + c + "_" + j`); all distinct;
    * `chains` bookkeeping: `len(chains[c])` = number of calls with index `c`, positive exactly for
      `c < num_chains()`;
    * every node's legs are in the order of the array handed in, i.e. the caller's axes
      `(parent, next chain node, open…)` (centre: `(chain 0, chain 1, …, open…)`) are used as they are;
      its shape is the shape handed in;
    * the centre has no parent and its children are the chain heads `chain c 0` in order of first use;
    * `chain c j` hangs below the centre (`j = 0`) or below `chain c (j-1)` (which exists), and has no
      child or exactly the child `chain c (j+1)` (the latter iff that node exists): every chain is a
      path hanging off the centre. -/
theorem star_structure (cshape : List Nat) (calls : List (Nat × List Nat)) (st : Star)
    (h : starRun cshape calls = some st) :
    st.nodes.map (·.id) = .center :: (starOps calls).map (·.cid) ∧
    (starOps calls).map (·.shape) = calls.map (·.2) ∧
    (st.nodes.map (·.id)).Nodup ∧
    (∀ c, c < st.lens.length → st.lens[c]? = some (cntC calls c) ∧ 0 < cntC calls c) ∧
    (∀ c, st.lens.length ≤ c → cntC calls c = 0) ∧
    ∀ x ∈ st.nodes,
      x.legs = List.range x.dims.length ∧
      (x.id = .center → x.parent = none ∧ x.dims = cshape ∧
        x.children = ((starOps calls).map (·.cid)).filter StarId.isHead) ∧
      (∀ o ∈ starOps calls, x.id = o.cid → x.dims = o.shape) ∧
      (∀ c j, x.id = .chain c j →
        x.parent = some (if j = 0 then StarId.center else .chain c (j - 1)) ∧
        (0 < j → StarId.chain c (j - 1) ∈ st.nodes.map (·.id)) ∧
        (x.children = [] ∨ x.children = [.chain c (j + 1)]) ∧
        (StarId.chain c (j + 1) ∈ st.nodes.map (·.id) → x.children = [.chain c (j + 1)])) := by
  have hinv := star_run_inv cshape calls [] (starInit cshape) st (starInv_init cshape) h
  rw [List.nil_append] at hinv
  obtain ⟨h1, h2, h3⟩ := star_nodes_of_inv cshape calls st hinv
  exact ⟨h1, starOpsAux_shapes [] calls, h2, hinv.2.2.small, hinv.2.2.big, h3⟩

example : (starRun [2, 3, 2] [(0, [2, 3, 2]), (1, [3, 2]), (0, [3, 2])]).map (·.nodes) = some
    [⟨.center, none, [.chain 0 0, .chain 1 0], [0, 1, 2], [2, 3, 2]⟩,
     ⟨.chain 0 0, some .center, [.chain 0 1], [0, 1, 2], [2, 3, 2]⟩,
     ⟨.chain 1 0, some .center, [], [0, 1], [3, 2]⟩,
     ⟨.chain 0 1, some (.chain 0 0), [], [0, 1], [3, 2]⟩] := by decide

/-! ### Fork (`ForkTreeTensorNetwork.add_main_chain_node` / `add_sub_chain_node`) -/

/-- For **every sequence of `add_main_chain_node` / `add_sub_chain_node` calls that the code accepts**: the
    first call creates the root `main 0`; afterwards
    * dict order: `main 0`, then one node per call - a main call creates `main m` (`m` = number of main
      nodes so far), a call for sub-chain `i` creates `sub i j` with `j` = number of earlier calls for `i`
      (`prefix + i + "_" + j`); all distinct; `len(sub_chains) = ` number of main nodes and
      `len(sub_chains[i])` = number of calls for `i`;
    * every node's legs are in the order of the array handed in (parent first, then the neighbours in
      the order in which they get attached, then the open legs) with the shape handed in;
    * `main k` has parent `main (k-1)` (none for `k = 0`); its children are among `main (k+1)`,
      `sub k 0`, each at most once, in attachment order, and contain each of the two that exists;
    * `sub i j` hangs below `main i` (`j = 0`) or `sub i (j-1)` (which exists) and has no child or exactly
      `sub i (j+1)` (iff that node exists). -/
theorem fork_structure (calls : List ForkCall) (st : Fork) (h : forkRun calls = some st) :
    (calls = [] ∧ st = forkInit) ∨
    ∃ rs rest, calls = ForkCall.main rs :: rest ∧
      st.nodes.map (·.id) = .main 0 :: (forkOps rest).map (·.cid) ∧
      (st.nodes.map (·.id)).Nodup ∧
      st.subLens.length = cntM rest + 1 ∧
      (∀ i, i < st.subLens.length → st.subLens[i]? = some (cntS rest i)) ∧
      ∀ x ∈ st.nodes,
        x.legs = List.range x.dims.length ∧
        (∀ o ∈ forkOps rest, x.id = o.cid → x.dims = o.shape) ∧
        (∀ k, x.id = .main k →
          x.parent = (if k = 0 then none else some (ForkId.main (k - 1))) ∧
          (k = 0 → x.dims = rs) ∧
          (0 < k → ForkId.main (k - 1) ∈ st.nodes.map (·.id)) ∧
          (∀ ch ∈ x.children, ch = ForkId.main (k + 1) ∨ ch = ForkId.sub k 0) ∧ x.children.Nodup ∧
          (ForkId.main (k + 1) ∈ st.nodes.map (·.id) → ForkId.main (k + 1) ∈ x.children) ∧
          (ForkId.sub k 0 ∈ st.nodes.map (·.id) → ForkId.sub k 0 ∈ x.children)) ∧
        (∀ i j, x.id = .sub i j →
          x.parent = some (if j = 0 then ForkId.main i else .sub i (j - 1)) ∧
          (if j = 0 then ForkId.main i else ForkId.sub i (j - 1)) ∈ st.nodes.map (·.id) ∧
          (x.children = [] ∨ x.children = [.sub i (j + 1)]) ∧
          (ForkId.sub i (j + 1) ∈ st.nodes.map (·.id) → x.children = [.sub i (j + 1)])) := by
  rcases fork_first calls st h with h0 | ⟨rs, rest, hc, hrun, hinit⟩
  · exact Or.inl h0
  · right
    have hinv := fork_run_inv rs rest [] _ st hinit hrun
    rw [List.nil_append] at hinv
    exact ⟨rs, rest, hc, fork_nodes_of_inv rs rest st hinv⟩

example : (forkRun [.main [2, 3], .sub 0 [2, 2], .main [3, 2, 2]]).map (·.nodes) = some
    [⟨.main 0, none, [.sub 0 0, .main 1], [0, 1], [2, 3]⟩,
     ⟨.sub 0 0, some (.main 0), [], [0, 1], [2, 2]⟩,
     ⟨.main 1, some (.main 0), [], [0, 1, 2], [3, 2, 2]⟩] := by decide

/-! ### the optional argument `parent_leg` of `add_chain_node`, `add_main_chain_node`, `add_sub_chain_node` -/

/-- **One accepted attachment with `parent_leg`** (`attachAt` = what all three methods do: `parent_leg=None` means
    the parent's first open leg `nvirt_legs()`; the new tensor always offers its leg 0).  With `k` the leg used:
    the parent `p` exists, the new identifier is fresh, the new tensor has a leg 0, **`k` is an open leg of the
    parent** (`nvirt ≤ k < number of legs`) **whose dimension equals that of the new tensor's leg 0**; afterwards
    the parent has the new child appended to its children and its legs are
    `(parent leg, child legs so far) ++ [the chosen leg] ++ (the other open legs in their previous order)` -
    the documented convention `(parent, children, open)` with the open legs' relative order kept - every other
    node is untouched, and the new node is appended with parent `pid`, no children, its legs in the order of
    the array handed in and the shape handed in. -/
theorem parent_leg_attach {ι : Type} [DecidableEq ι] (nodes : List (GNode ι)) (cid : ι) (shape : List Nat)
    (pid : ι) (pl : Option Nat) (ns : List (GNode ι)) (h : attachAt nodes cid shape pid pl = some ns) :
    ∃ p a, gFind nodes pid = some p ∧ gFind nodes cid = none ∧ 0 < shape.length ∧
      p.nvirt ≤ pl.getD p.nvirt ∧ pl.getD p.nvirt < p.legs.length ∧
      shape[0]? = p.shapeAt (pl.getD p.nvirt) ∧ p.legs[pl.getD p.nvirt]? = some a ∧
      ns = (nodes.map fun x => if x.id = pid then x.toChild cid (pl.getD p.nvirt) else x) ++
        [⟨cid, some pid, [], List.range shape.length, shape⟩] ∧
      (p.toChild cid (pl.getD p.nvirt)).children = p.children ++ [cid] ∧
      (p.toChild cid (pl.getD p.nvirt)).legs =
        p.legs.take p.nvirt ++ a :: (p.legs.drop p.nvirt).eraseIdx (pl.getD p.nvirt - p.nvirt) ∧
      (p.toChild cid (pl.getD p.nvirt)).dims = p.dims := by
  unfold attachAt at h
  cases hp : gFind nodes pid with
  | none => rw [hp] at h; cases h
  | some p =>
    rw [hp] at h
    simp only at h
    obtain ⟨p', hp', hc, hs, hk1, hk2, hd, hns⟩ := gAddChild_spec nodes cid shape pid _ ns h
    rw [hp] at hp'
    injection hp' with hp'
    subst hp'
    refine ⟨p, p.legs[pl.getD p.nvirt]'hk2, rfl, hc, hs, hk1, hk2, hd, List.getElem?_eq_getElem hk2, hns, rfl, ?_, rfl⟩
    exact popInsert_eq _ _ _ hk2 hk1

example : attachAt [⟨StarId.center, none, [.chain 0 0], [0, 1, 2, 3], [2, 5, 3, 4]⟩] (StarId.chain 1 0) [4, 7]
    StarId.center (some 3) = some
    [⟨.center, none, [.chain 0 0, .chain 1 0], [0, 3, 1, 2], [2, 5, 3, 4]⟩,
     ⟨.chain 1 0, some .center, [], [0, 1], [4, 7]⟩] := by decide

/-- Which attachment a call `add_chain_node(tensor, c, parent_leg)` performs: the chain index must be
    `≤ num_chains()`; a new chain (`c = num_chains()`) hangs its node `chain c 0` on the centre, an existing one
    hangs `chain c j` (`j = len(chains[c])`) on `chain c (j-1)`; `parent_leg` is handed through to
    `parent_leg_attach` **in both cases** (first and later nodes); `chains` grows by one entry. -/
theorem star_parent_leg_call (st st' : Star) (c : Nat) (shape : List Nat) (pl : Option Nat)
    (h : starAddL st c shape pl = some st') :
    c ≤ st.lens.length ∧
    ((c = st.lens.length ∧
        ∃ ns, attachAt st.nodes (.chain c 0) shape .center pl = some ns ∧ st' = ⟨ns, st.lens ++ [1]⟩) ∨
     (c < st.lens.length ∧ ∃ j ns, st.lens[c]? = some j ∧
        attachAt st.nodes (.chain c j) shape (.chain c (j - 1)) pl = some ns ∧
        st' = ⟨ns, st.lens.set c (j + 1)⟩)) := by
  unfold starAddL at h
  cases hc : gFind st.nodes StarId.center with
  | none => rw [hc] at h; cases h
  | some ctr =>
    rw [hc] at h
    simp only at h
    by_cases h1 : ctr.legs.length < c
    · rw [if_pos h1] at h; cases h
    rw [if_neg h1] at h
    by_cases h2 : st.lens.length < c
    · rw [if_pos h2] at h; cases h
    rw [if_neg h2] at h
    refine ⟨by omega, ?_⟩
    by_cases h3 : c = st.lens.length
    · rw [if_pos h3] at h
      left
      cases ha : attachAt st.nodes (StarId.chain c 0) shape StarId.center pl with
      | none => rw [ha] at h; cases h
      | some ns =>
        rw [ha] at h
        simp only [Option.map_some, Option.some.injEq] at h
        exact ⟨h3, ns, rfl, h.symm⟩
    · rw [if_neg h3] at h
      right
      cases hl : st.lens[c]? with
      | none => rw [hl] at h; cases h
      | some j =>
        rw [hl] at h
        simp only at h
        cases ha : attachAt st.nodes (StarId.chain c j) shape (StarId.chain c (j - 1)) pl with
        | none => rw [ha] at h; cases h
        | some ns =>
          rw [ha] at h
          simp only [Option.map_some, Option.some.injEq] at h
          exact ⟨by omega, j, ns, rfl, ha, h.symm⟩

/-- Calls without the argument are the calls with `parent_leg=None`: the earlier theorems (`star_structure`, …)
    are the special case `none` of the model with the argument. -/
theorem star_parent_leg_default (cshape : List Nat) (calls : List (Nat × List Nat)) :
    starRunL cshape (calls.map fun x => (x.1, x.2, none)) = starRun cshape calls := by
  unfold starRunL starRun starRunFromL starRunFrom
  generalize some (starInit cshape) = acc
  induction calls generalizing acc with
  | nil => rfl
  | cons x rest ih =>
    rw [List.map_cons, List.foldl_cons, List.foldl_cons]
    simp only [starAddL_none]
    exact ih _

/-- **Every accepted sequence of `add_chain_node(tensor, c, parent_leg)` calls, with any mixture of explicit and
    omitted parent legs, builds the same tree as the calls without the argument**: forgetting leg order and
    dimensions (`Star.flat`), the result is exactly what the default-leg run produces for the same chain
    indices on tensors with the same numbers of legs and all dimensions `1` - which is accepted.  Hence all
    identifier / parent / children / `chains` conclusions of `star_structure` hold: dict order centre, then
    `chain c j` per call with `j` = number of earlier calls with index `c`; all distinct; `len(chains[c])` =
    number of calls with index `c`; the centre's children are the chain heads in order of first use; `chain c j`
    hangs below the centre (`j = 0`) or `chain c (j-1)` and has no child or exactly `chain c (j+1)` (iff it
    exists).  (`parent_leg` only selects WHICH leg of the parent carries the bond: `parent_leg_attach`.) -/
theorem star_parent_leg_structure (cshape : List Nat) (calls : List StarCallL) (st : Star)
    (h : starRunL cshape calls = some st) :
    starRun (ones cshape) (starSkel calls) = some st.flat ∧
    st.nodes.map (·.id) = .center :: (starOps (starSkel calls)).map (·.cid) ∧
    (st.nodes.map (·.id)).Nodup ∧
    (∀ c, c < st.lens.length → st.lens[c]? = some (cntC (starSkel calls) c) ∧ 0 < cntC (starSkel calls) c) ∧
    (∀ c, st.lens.length ≤ c → cntC (starSkel calls) c = 0) ∧
    ∀ x ∈ st.nodes,
      (x.id = .center → x.parent = none ∧
        x.children = ((starOps (starSkel calls)).map (·.cid)).filter StarId.isHead) ∧
      (∀ c j, x.id = .chain c j →
        x.parent = some (if j = 0 then StarId.center else .chain c (j - 1)) ∧
        (0 < j → StarId.chain c (j - 1) ∈ st.nodes.map (·.id)) ∧
        (x.children = [] ∨ x.children = [.chain c (j + 1)]) ∧
        (StarId.chain c (j + 1) ∈ st.nodes.map (·.id) → x.children = [.chain c (j + 1)])) := by
  have hinit : (starInit cshape).flat = starInit (ones cshape) := by
    simp [starInit, Star.flat, rootNode, GNode.flat, ones]
  have hnd0 : ((starInit cshape).nodes.map (·.id)).Nodup := by simp [starInit]
  obtain ⟨hrun, hnd⟩ := starRunFromL_flat calls (starInit cshape) st hnd0 h
  rw [hinit] at hrun
  have hrun' : starRun (ones cshape) (starSkel calls) = some st.flat := hrun
  obtain ⟨h1, _, _, h4, h5, h6⟩ := star_structure _ _ _ hrun'
  have hids : st.flat.nodes.map (·.id) = st.nodes.map (·.id) := map_flat_ids st.nodes
  refine ⟨hrun', hids ▸ h1, hnd, h4, h5, ?_⟩
  intro x hx
  have hx' : x.flat ∈ st.flat.nodes := List.mem_map.2 ⟨x, hx, rfl⟩
  obtain ⟨_, hc, _, hch⟩ := h6 x.flat hx'
  refine ⟨fun e => ⟨(hc e).1, (hc e).2.2⟩, ?_⟩
  intro c j e
  have := hch c j e
  rw [hids] at this
  exact this

example : (starRunL [2, 5, 3, 4] [(0, [3, 2], some 2), (1, [4, 7, 6], some 3), (1, [6], some 2)]).map (·.nodes) = some
    [⟨.center, none, [.chain 0 0, .chain 1 0], [2, 3, 0, 1], [2, 5, 3, 4]⟩,
     ⟨.chain 0 0, some .center, [], [0, 1], [3, 2]⟩,
     ⟨.chain 1 0, some .center, [.chain 1 1], [0, 2, 1], [4, 7, 6]⟩,
     ⟨.chain 1 1, some (.chain 1 0), [], [0], [6]⟩] := by decide

/-- Which attachment `add_main_chain_node(tensor, parent_leg)` / `add_sub_chain_node(tensor, i, parent_leg)`
    perform: the first main call creates the root (the argument is not looked at); a later main call hangs
    `main m` on `main (m-1)`; a sub call hangs `sub i j` (`j = len(sub_chains[i])`) on `main i` (`j = 0`) or on
    `sub i (j-1)`; `parent_leg` is handed through to `parent_leg_attach` in all three places. -/
theorem fork_parent_leg_call (st st' : Fork) (call : ForkCallL) (h : forkAddL st call = some st') :
    (∃ shape pl, call = .main shape pl ∧
      ((st.subLens.length = 0 ∧ st.nodes = [] ∧ st' = ⟨[rootNode (.main 0) shape], [0]⟩) ∨
       (0 < st.subLens.length ∧ ∃ ns,
          attachAt st.nodes (.main st.subLens.length) shape (.main (st.subLens.length - 1)) pl = some ns ∧
          st' = ⟨ns, st.subLens ++ [0]⟩))) ∨
    (∃ i shape pl j ns, call = .sub i shape pl ∧ st.subLens[i]? = some j ∧
      attachAt st.nodes (.sub i j) shape (if j = 0 then ForkId.main i else .sub i (j - 1)) pl = some ns ∧
      st' = ⟨ns, st.subLens.set i (j + 1)⟩) := by
  cases call with
  | main shape pl =>
    left
    refine ⟨shape, pl, rfl, ?_⟩
    simp only [forkAddL] at h
    by_cases hm : st.subLens.length = 0
    · rw [if_pos hm] at h
      left
      by_cases he : st.nodes.isEmpty = true
      · rw [if_pos he] at h
        injection h with h
        exact ⟨hm, List.isEmpty_iff.1 he, h.symm⟩
      · rw [if_neg he] at h; cases h
    · rw [if_neg hm] at h
      right
      cases ha : attachAt st.nodes (ForkId.main st.subLens.length) shape (ForkId.main (st.subLens.length - 1)) pl with
      | none => rw [ha] at h; cases h
      | some ns =>
        rw [ha] at h
        simp only [Option.map_some, Option.some.injEq] at h
        exact ⟨by omega, ns, rfl, h.symm⟩
  | sub i shape pl =>
    right
    simp only [forkAddL] at h
    by_cases h1 : st.subLens.length < i
    · rw [if_pos h1] at h; cases h
    rw [if_neg h1] at h
    cases hl : st.subLens[i]? with
    | none => rw [hl] at h; cases h
    | some j =>
      rw [hl] at h
      simp only at h
      cases ha : attachAt st.nodes (ForkId.sub i j) shape (if j = 0 then ForkId.main i else ForkId.sub i (j - 1)) pl with
      | none => rw [ha] at h; cases h
      | some ns =>
        rw [ha] at h
        simp only [Option.map_some, Option.some.injEq] at h
        exact ⟨i, shape, pl, j, ns, rfl, hl, ha, h.symm⟩

theorem fork_parent_leg_default (calls : List ForkCall) :
    forkRunL (calls.map ForkCallL.default) = forkRun calls := by
  unfold forkRunL forkRun forkRunFromL forkRunFrom
  generalize some forkInit = acc
  induction calls generalizing acc with
  | nil => rfl
  | cons x rest ih =>
    rw [List.map_cons, List.foldl_cons, List.foldl_cons]
    simp only [forkAddL_none]
    exact ih _

/-- **Every accepted sequence of `add_main_chain_node` / `add_sub_chain_node` calls with any mixture of explicit
    and omitted parent legs builds the same tree as the calls without the argument** (same simulation as
    `star_parent_leg_structure`): all identifier / parent / children / `sub_chains` conclusions of
    `fork_structure` hold. -/
theorem fork_parent_leg_structure (calls : List ForkCallL) (st : Fork) (h : forkRunL calls = some st) :
    forkRun (calls.map ForkCallL.skel) = some st.flat ∧
    ((calls = [] ∧ st = forkInit) ∨
    ∃ rs rest, calls.map ForkCallL.skel = ForkCall.main rs :: rest ∧
      st.nodes.map (·.id) = .main 0 :: (forkOps rest).map (·.cid) ∧
      (st.nodes.map (·.id)).Nodup ∧
      st.subLens.length = cntM rest + 1 ∧
      (∀ i, i < st.subLens.length → st.subLens[i]? = some (cntS rest i)) ∧
      ∀ x ∈ st.nodes,
        (∀ k, x.id = .main k →
          x.parent = (if k = 0 then none else some (ForkId.main (k - 1))) ∧
          (0 < k → ForkId.main (k - 1) ∈ st.nodes.map (·.id)) ∧
          (∀ ch ∈ x.children, ch = ForkId.main (k + 1) ∨ ch = ForkId.sub k 0) ∧ x.children.Nodup ∧
          (ForkId.main (k + 1) ∈ st.nodes.map (·.id) → ForkId.main (k + 1) ∈ x.children) ∧
          (ForkId.sub k 0 ∈ st.nodes.map (·.id) → ForkId.sub k 0 ∈ x.children)) ∧
        (∀ i j, x.id = .sub i j →
          x.parent = some (if j = 0 then ForkId.main i else .sub i (j - 1)) ∧
          (if j = 0 then ForkId.main i else ForkId.sub i (j - 1)) ∈ st.nodes.map (·.id) ∧
          (x.children = [] ∨ x.children = [.sub i (j + 1)]) ∧
          (ForkId.sub i (j + 1) ∈ st.nodes.map (·.id) → x.children = [.sub i (j + 1)]))) := by
  have hnd0 : (forkInit.nodes.map (·.id)).Nodup := by simp [forkInit]
  obtain ⟨hrun, hnd⟩ := forkRunFromL_flat calls forkInit st hnd0 h
  have hrun' : forkRun (calls.map ForkCallL.skel) = some st.flat := hrun
  refine ⟨hrun', ?_⟩
  have hids : st.flat.nodes.map (·.id) = st.nodes.map (·.id) := map_flat_ids st.nodes
  rcases fork_structure _ _ hrun' with ⟨h0, h1⟩ | ⟨rs, rest, hc, hi, _, hl, hs, hx⟩
  · left
    have hc : calls = [] := by
      cases calls with
      | nil => rfl
      | cons a t => simp at h0
    subst hc
    simp only [forkRunL, forkRunFromL, List.foldl_nil, Option.some.injEq] at h
    exact ⟨rfl, h.symm⟩
  · right
    refine ⟨rs, rest, hc, hids ▸ hi, hnd, hl, hs, ?_⟩
    intro x hxm
    have hx' : x.flat ∈ st.flat.nodes := List.mem_map.2 ⟨x, hxm, rfl⟩
    obtain ⟨_, _, hm, hsb⟩ := hx x.flat hx'
    refine ⟨?_, ?_⟩
    · intro k e
      have := hm k e
      rw [hids] at this
      exact ⟨this.1, this.2.2.1, this.2.2.2⟩
    · intro i j e
      have := hsb i j e
      rw [hids] at this
      exact this

example : (forkRunL [.main [3, 2, 4] none, .sub 0 [4, 2] (some 2), .main [3, 5] (some 1),
    .sub 1 [5] none]).map (·.nodes) = some
    [⟨.main 0, none, [.sub 0 0, .main 1], [2, 0, 1], [3, 2, 4]⟩,
     ⟨.sub 0 0, some (.main 0), [], [0, 1], [4, 2]⟩,
     ⟨.main 1, some (.main 0), [.sub 1 0], [0, 1], [3, 5]⟩,
     ⟨.sub 1 0, some (.main 1), [], [0], [5]⟩] := by decide

/-! ### Binary tree (`generate_binary_ttns`) -/

/-- For every number of physical sites `nphys ≥ 2`, every bond dimension `bd ≥ 1` and every physical
    dimension `d`, `generate_binary_ttns` completes (the breadth-first loop stops after `nphys - 1`
    passes, every `add_child_to_parent` and every `replace_node` passes its checks) and returns exactly
    `binFinal`: the complete binary tree with `2·nphys - 1` nodes in breadth-first numbering, where
    * the nodes `0 … nphys-2` are virtual, `virtId h = prefix + level + "_" + position` with
      `(level, position)` the `h`-th pair in breadth-first order (`position < 2^level`,
      `2^level - 1 + position = h`, hence `2^level ≤ nphys - 1`), shape `(bd, bd, 1)` for the root and
      `(bd, bd, bd, 1)` otherwise, legs in the order of the array `(parent, child, child, open)`;
    * every virtual node `h` has exactly the two children with indices `2h+1`, `2h+2`
      (`(level+1, 2·position)` and `(level+1, 2·position+1)`) and, for `h ≥ 1`, the parent `(h-1)/2`
      (`(level-1, position/2)`);
    * the nodes `nphys-1 … 2·nphys-2` are the physical sites `phys 0 … phys (nphys-1)` in this order,
      each exactly once, each a leaf with legs `(parent, open)` and shape `(bd, d)`;
    * dict order: virtual nodes in breadth-first order, then the physical sites in order; all distinct. -/
theorem binary_structure (nphys bd d : Nat) (hn : 2 ≤ nphys) (hb : 1 ≤ bd) :
    binGenerate nphys bd d = some (binFinal nphys bd d) ∧
    (binFinal nphys bd d).map (·.id) =
      (List.range (nphys - 1)).map virtId ++ (List.range nphys).map BinId.phys ∧
    ((binFinal nphys bd d).map (·.id)).Nodup ∧
    (binFinal nphys bd d).length = 2 * nphys - 1 := by
  refine ⟨?_, binFinal_ids nphys bd d, ?_, ?_⟩
  · rw [binGenerate_closed nphys bd d hn hb, replNodes_final nphys bd d (by omega)]
  · rw [binFinal_ids]; exact binFinal_ids_nodup nphys
  · simp [binFinal]; omega

/-- The identifiers of the binary tree in (level, position) form: the `h`-th virtual node sits at a
    valid position of breadth-first index `h`; its children sit one level down at positions `2p`,
    `2p+1`; its parent (for `h ≥ 1`) one level up at position `p/2`. -/
theorem binary_heap_ids (h : Nat) :
    ValidPos (heapPos h) ∧ hidx (heapPos h) = h ∧
    virtId (2 * h + 1) = .virt ((heapPos h).1 + 1) (2 * (heapPos h).2) ∧
    virtId (2 * h + 2) = .virt ((heapPos h).1 + 1) (2 * (heapPos h).2 + 1) ∧
    (0 < h → virtId ((h - 1) / 2) = .virt ((heapPos h).1 - 1) ((heapPos h).2 / 2) ∧ 0 < (heapPos h).1) := by
  refine ⟨(heapPos_spec h).1, (heapPos_spec h).2, ?_, ?_, ?_⟩
  · unfold virtId; rw [(heapPos_children h).1]
  · unfold virtId; rw [(heapPos_children h).2]
  · intro hh
    have := heapPos_parent h hh
    refine ⟨?_, this.2⟩
    unfold virtId; rw [this.1]

example : binGenerate 3 2 3 = some
    [⟨.virt 0 0, none, [.virt 1 0, .phys 0], [0, 1, 2], [2, 2, 1]⟩,
     ⟨.virt 1 0, some (.virt 0 0), [.phys 1, .phys 2], [0, 1, 2, 3], [2, 2, 2, 1]⟩,
     ⟨.phys 0, some (.virt 0 0), [], [0, 1], [2, 3]⟩,
     ⟨.phys 1, some (.virt 1 0), [], [0, 1], [2, 3]⟩,
     ⟨.phys 2, some (.virt 1 0), [], [0, 1], [2, 3]⟩] := by decide

/-! ### the product-state helpers of star and fork (partial: completion is not proved) -/

/-- `StarTreeTensorState.constant_product_state(value, d, chain_length = L, num_chains = C)` for every
    dimension `d` (after the repair F-C19): **if** the calls it makes are accepted, the result is the star of
    `star_structure` with centre shape `(1,…,1,d)` (`C` ones), `C` chains (when `L > 0`) of `L` nodes each,
    every chain tensor of shape `(1, d)` (last node) or `(1, 1, d)` - the requested dimension `d`, not a
    hard-coded one.  Partial: that the calls *are* accepted for all `d, L, C` is checked by the
    correspondence on the parameter grid, not proved. -/
theorem star_const_structure_partial (d L C : Nat) (st : Star) (h : starConst d L C = some st) :
    starRun (List.replicate C 1 ++ [d]) (starConstCalls d L C) = some st ∧
    (∀ x ∈ starConstCalls d L C, x.1 < C ∧ (x.2 = [1, d] ∨ x.2 = [1, 1, d])) ∧
    (∀ c, cntC (starConstCalls d L C) c = if c < C then L else 0) ∧
    (∀ c, c < st.lens.length → st.lens[c]? = some L) ∧ (0 < L → st.lens.length = C) := by
  have hs := star_structure _ _ st h
  obtain ⟨_, _, _, hsmall, hbig, _⟩ := hs
  refine ⟨h, starConstCalls_shapes d L C, cntC_starConst d L C, ?_, ?_⟩
  · intro c hc
    have := hsmall c hc
    rw [cntC_starConst] at this
    by_cases hcC : c < C
    · simpa [hcC] using this.1
    · simp [hcC] at this
  · intro hL
    have h1 : st.lens.length ≤ C := by
      rcases Nat.lt_or_ge C st.lens.length with hlt | hge
      · have := (hsmall C hlt).2
        rw [cntC_starConst] at this
        simp at this
      · exact hge
    have h2 : C ≤ st.lens.length := by
      rcases Nat.lt_or_ge st.lens.length C with hlt | hge
      · have := hbig st.lens.length (Nat.le_refl _)
        rw [cntC_starConst, if_pos hlt] at this
        omega
      · exact hge
    omega

/-- **Star `constant_product_state` completes, for ALL parameters** (`d`, chain length `L`, number of chains `C`,
    zero included: `L = 0` makes no call, `C = 0` gives the bare centre of shape `(d)`): every `add_chain_node` call the
    helper makes is accepted (the centre's first open leg exists and has dimension 1 when a chain is begun; the last
    node of the chain has shape `(1, 1, d)`, so its first open leg is leg 1 of dimension 1 when the chain is
    continued), and the result is the star of `star_structure` / `star_const_structure_partial`: `C` chains (when
    `L > 0`) of `L` nodes each.  No acceptance hypothesis. -/
theorem star_const_structure (d L C : Nat) :
    ∃ st, starConst d L C = some st ∧
    starRun (List.replicate C 1 ++ [d]) (starConstCalls d L C) = some st ∧
    (∀ x ∈ starConstCalls d L C, x.1 < C ∧ (x.2 = [1, d] ∨ x.2 = [1, 1, d])) ∧
    (∀ c, cntC (starConstCalls d L C) c = if c < C then L else 0) ∧
    (∀ c, c < st.lens.length → st.lens[c]? = some L) ∧ (0 < L → st.lens.length = C) := by
  obtain ⟨st, h⟩ := starConst_isSome d L C
  exact ⟨st, h, star_const_structure_partial d L C st h⟩

example : (starConst 0 3 2).isSome = true ∧ (starConst 2 0 3).isSome = true ∧ (starConst 2 1 0).isSome = true := by
  decide

/-- `constant_ftps(local_state, width, height, bond_dim)`: **if** the calls it makes are accepted, the main
    chain has `height` nodes and every sub-chain has `width - 1` nodes (so each row has `width` nodes: the
    `Args:` text of the docstring, which says `width` = main-chain length and `height` = sub-chain
    length, has the two words swapped), and the network is the fork of `fork_structure`.  Partial:
    completion for all parameters is checked by the correspondence, not proved. -/
theorem ftps_structure_partial (d width height bd : Nat) (st : Fork)
    (h : ftps d width height bd = some st) :
    0 < width ∧ 0 < height ∧ 0 < bd ∧
    forkRun (ftpsCalls d width height bd) = some st ∧
    st.subLens.length = height ∧ ∀ i, i < height → st.subLens[i]? = some (width - 1) := by
  unfold ftps at h
  by_cases hz : width = 0 ∨ height = 0 ∨ bd = 0
  · rw [if_pos hz] at h; cases h
  rw [if_neg hz] at h
  refine ⟨by omega, by omega, by omega, h, ?_⟩
  have hmains : ∀ x ∈ ftpsMains d height bd, x.isMain = true := by
    intro x hx
    simp only [ftpsMains, List.mem_map] at hx
    obtain ⟨i, _, rfl⟩ := hx
    rfl
  have hM : cntM (ftpsCalls d width height bd) = height := by
    rw [ftpsCalls_eq]
    unfold cntM
    rw [List.countP_append]
    have a := cntM_mains _ hmains
    have b := cntM_subs d width bd height
    unfold cntM at a b
    rw [a, b]
    simp [ftpsMains]
  have hS : ∀ i, cntS (ftpsCalls d width height bd) i = if i < height then width - 1 else 0 := by
    intro i
    rw [ftpsCalls_eq]
    unfold cntS
    rw [List.countP_append]
    have a := cntS_mains _ hmains i
    have b := cntS_subs d width bd height i
    unfold cntS at a b
    rw [a, b]
    simp
  rcases fork_structure _ st h with ⟨h0, _⟩ | ⟨rs, rest, hc, _, _, hlen, hsub, _⟩
  · rw [h0] at hM
    simp [cntM] at hM
    omega
  · rw [hc] at hM hS
    have hM' : cntM rest + 1 = height := by
      simpa [cntM, List.countP_cons, ForkCall.isMain] using hM
    have hS' : ∀ i, cntS rest i = if i < height then width - 1 else 0 := by
      intro i
      have := hS i
      simpa [cntS, List.countP_cons, ForkCall.isSub] using this
    refine ⟨by omega, ?_⟩
    intro i hi
    rw [hsub i (by omega), hS' i, if_pos hi]

example : (starConst 3 2 2).isSome = true := by decide
example : (ftps 3 2 3 2).isSome = true := by decide

/-- Edge ranges of `constant_ftps` in the MODEL (builder B58): `width = 1` (no sub-chains) and `height = 1` (one main
    node) are ACCEPTED - every call passes, as in the library - and leave legs of dimension `bd` unbound: with
    `width = 1` leg 1 of the first / last and leg 2 of every middle main node, with `height = 1` leg 1 of `main 0`
    (the shape `(bd, bd, d)` reserves a bond to a second main node that never comes).  Zero `width`, `height` or
    `bd` is rejected by the positivity checks.  So the accepted range is exactly `width, height, bd ≥ 1`
    (`⊆`: `ftps_structure_partial`; `⊇`: `ftps_structure` below, for all sizes). -/
example : (ftps 2 1 2 3).map (·.nodes) = some
    [⟨.main 0, none, [.main 1], [0, 1, 2], [3, 3, 2]⟩, ⟨.main 1, some (.main 0), [], [0, 1, 2], [3, 3, 2]⟩] ∧
    (ftps 2 2 1 3).map (·.nodes) = some
    [⟨.main 0, none, [.sub 0 0], [0, 1, 2], [3, 3, 2]⟩, ⟨.sub 0 0, some (.main 0), [], [0, 1], [3, 2]⟩] ∧
    (ftps 2 1 1 3).map (·.nodes) = some [⟨.main 0, none, [], [0, 1, 2], [3, 3, 2]⟩] ∧
    ftps 2 0 1 1 = none ∧ ftps 2 1 0 1 = none ∧ ftps 2 1 1 0 = none ∧
    (ftps 1 4 4 1).isSome = true ∧ (ftps 0 3 1 2).isSome = true := by decide

/-- the step condition `FtOK` of `ft_step_accept` holds for the second call of `constant_ftps(d=3, width=2, height=3, bd=2)` -/
example : FtOK 3 2 3 2 [] (.main [2, 2, 2, 3]) ∧ FtOK 3 3 3 2 [.main [2, 2, 2, 3]] (.sub 1 [2, 2, 3]) := by
  refine ⟨⟨by decide, by decide⟩, by decide, by decide, by decide⟩

/-- **`constant_ftps` completes on exactly the accepted range** (builder B60; no acceptance hypothesis).  For ALL
    `d` and all `width, height, bd ≥ 1` (the edge ranges `width = 1`, `height = 1` included) every call
    `constant_ftps(local_state of dimension d, width, height, bd)` makes is accepted by the fork constructor:
    `∃ st, ftps d width height bd = some st`, with the conclusions of `ftps_structure_partial` (the calls are the
    documented list, `height` main nodes, every sub-chain has `width - 1` nodes).  Conversely (also
    `ftps_structure_partial`) a completed run has `width, height, bd ≥ 1`, so `ftps … ≠ none ↔ all three ≥ 1`. -/
theorem ftps_structure (d width height bd : Nat) :
    ((ftps d width height bd).isSome = true ↔ (0 < width ∧ 0 < height ∧ 0 < bd)) ∧
    (0 < width → 0 < height → 0 < bd →
      ∃ st, ftps d width height bd = some st ∧
        forkRun (ftpsCalls d width height bd) = some st ∧
        st.subLens.length = height ∧ ∀ i, i < height → st.subLens[i]? = some (width - 1)) := by
  have hfw : 0 < width → 0 < height → 0 < bd →
      ∃ st, ftps d width height bd = some st ∧
        forkRun (ftpsCalls d width height bd) = some st ∧
        st.subLens.length = height ∧ ∀ i, i < height → st.subLens[i]? = some (width - 1) := by
    intro hw hh hb
    obtain ⟨st, h⟩ := ftps_isSome d width height bd hw hh hb
    obtain ⟨_, _, _, h1, h2, h3⟩ := ftps_structure_partial d width height bd st h
    exact ⟨st, h, h1, h2, h3⟩
  refine ⟨⟨?_, ?_⟩, hfw⟩
  · intro h
    obtain ⟨st, hst⟩ := Option.isSome_iff_exists.1 h
    obtain ⟨h1, h2, h3, _⟩ := ftps_structure_partial d width height bd st hst
    exact ⟨h1, h2, h3⟩
  · rintro ⟨hw, hh, hb⟩
    obtain ⟨st, h, _⟩ := hfw hw hh hb
    rw [h]; rfl

/-- non-vacuity of `ftps_structure`: the hypotheses `width, height, bd ≥ 1` hold and the run is the one the theorem
    describes (interior and both edge ranges); `FtCompat` (the step condition along the whole call list) is decidable
    on instances through `FtOK` - here the two conjuncts of the conclusion are checked by evaluation. -/
example : (0 < 3 ∧ 0 < 3 ∧ 0 < 2) ∧ (ftps 3 3 3 2).isSome = true ∧
    (ftps 3 3 3 2).map (fun st => st.subLens) = some [2, 2, 2] ∧
    (ftps 2 1 4 3).map (fun st => st.subLens) = some [0, 0, 0, 0] ∧
    (ftps 2 4 1 3).map (fun st => st.subLens) = some [3] := by decide

/-! ## Value level: what the constructed networks EVALUATE to (`Value*.lean` over `Ptn/Common/Einsum*.lean`) -/

open Ptn.Ein

/-- **`TTNO.from_tensor` returns a network that contracts to the input tensor (value level).**  For every
reference tree with distinct identifiers (any shape, any child order), every leg assignment, every commutative
semiring, all leg and bond dimensions and every decomposition mode: let `out` be the node tensors of ANY run of
`_from_tensor_rec` (`FromTensorRun`: the recursion of `from_tensor_legs` with values attached, started on the dense
tensor `A` whose axes are labelled `ax k` = axis `k` of the tensor handed in; every pass of the `for child_id`
loop replaces the node's current tensor by SOME pair `Q`, `R` that has the axes `splitChild` computes and
contracts over the new bond to the tensor that was split - the contract of `tensor_qr_decomposition`,
`tensor_svd` + `diag(S)·Vh`, `truncated_tensor_svd` without truncation; no other property of the factorisation
is used).  Then
* `out` has exactly one tensor per node of `fromTensor t ld` (dict order), each reading only the legs
  `from_tensor_legs` lists for that node: `(bond to parent, bonds to children, leg_dict[id], half + leg_dict[id])`;
* for every binding record that is, up to order, the set of tree edges (parent end joined to child end), the flat
  network of these tensors evaluates to the input tensor `A`, as a function of the open legs. -/
theorem from_tensor_value {R : Type} [CommSemiring R] (t : RTree) (ld : Nat → Nat) (hnd : t.ids.Nodup)
    (dim : VLeg → Nat) (A : Asg VLeg → R) (out : List (Asg VLeg → R))
    (hA : DependsOn (· ∈ (qrShape (fun i => [ld i, t.size + ld i]) t []).map VLeg.ax) A)
    (hrun : FromTensorRun dim t ld A out) :
    List.Forall₂ LocalTo (fromTensor t ld) out ∧
    ∀ binds : List (VLeg × VLeg), binds.Perm (t.edges.map bondPair) →
      ∀ σ, netValue dim binds out σ = A σ :=
  fromTensor_value t ld hnd dim A out hA hrun

/-- **The labels of the result.**  With distinct identifiers every node of the result carries, in this order, the
child end of the bond to its parent, the parent ends of the bonds to its children (in order) and its own two
axes of the dense input: every bond label occurs in exactly the two node tensors of its edge, so the record
`t.edges.map bondPair` of `from_tensor_value` IS the network `_from_tensor_rec` built. -/
theorem from_tensor_labels (t : RTree) (ld : Nat → Nat) (hnd : t.ids.Nodup) :
    ∀ x ∈ fromTensor t ld, x.legs.map (vleg x.id) =
      x.parent.toList.map (fun q => VLeg.cEnd q x.id) ++ x.children.map (fun k => VLeg.pEnd x.id k) ++
        [VLeg.ax (ld x.id), VLeg.ax (t.size + ld x.id)] := by
  rw [from_tensor_legs]
  intro x hx
  simpa using specNodes_vlegs _ none t hnd (by simp) x hx

example : (RTree.node 0 [.node 1 [.node 3 []], .node 2 []]).ids.Nodup := by decide

/-- a rank-2 operator on two sites and an exact factorisation of it over a bond of dimension 2 -/
def demoT : RTree := .node 0 [.node 1 []]
def demoQ : Asg VLeg → Int := fun σ =>
  if σ (.pEnd 0 1) = 0 then (σ (.ax 0) : Int) + 1 else (σ (.ax 2) : Int) + 2 * σ (.ax 0)
def demoR : Asg VLeg → Int := fun σ =>
  if σ (.cEnd 0 1) = 0 then (σ (.ax 1) : Int) + 3 * σ (.ax 3) else (σ (.ax 3) : Int) + 1
def demoA : Asg VLeg → Int := fun σ =>
  ((σ (.ax 0) : Int) + 1) * ((σ (.ax 1) : Int) + 3 * σ (.ax 3)) +
  ((σ (.ax 2) : Int) + 2 * σ (.ax 0)) * ((σ (.ax 3) : Int) + 1)

/-- the hypotheses of `from_tensor_value` are satisfiable by a run with a non-trivial factorisation -/
example : demoT.ids.Nodup ∧
    DependsOn (· ∈ (qrShape (fun i => [id i, demoT.size + id i]) demoT []).map VLeg.ax) demoA ∧
    FromTensorRun (fun _ => 2) demoT id demoA [demoQ, demoR] := by
  refine ⟨by decide, ?_, ?_⟩
  · have e : (qrShape (fun i => [id i, demoT.size + id i]) demoT []).map VLeg.ax =
        [.ax 0, .ax 2, .ax 1, .ax 3] := by decide
    rw [e]
    intro σ τ h
    simp only [demoA]
    rw [h (.ax 0) (by simp), h (.ax 1) (by simp), h (.ax 2) (by simp), h (.ax 3) (by simp)]
  · unfold FromTensorRun demoT
    simp only [RecRun, KidsRun]
    refine ⟨demoQ, [demoR], ⟨demoQ, demoR, [demoR], [], ?_, ?_, ?_, ⟨demoR, [], ⟨rfl, rfl⟩, rfl⟩, ⟨rfl, rfl⟩, rfl⟩, rfl⟩
    · intro τ
      simp [sumPairs, sumR, bondPair, List.range_succ, upd, demoQ, demoR, demoA, RTree.id]
    · have e : (splitChild 0 ((qrShape (fun i => [id i, (RTree.node 0 [RTree.node 1 []]).size + id i])
          (RTree.node 0 [RTree.node 1 []]) []).map Leg.ax) (if (none : Option Nat).isSome = true then 1 else 0)
          (RTree.node 1 [])).1.map (vleg 0) = [.pEnd 0 1, .ax 0, .ax 2] := by decide
      rw [e]
      intro σ τ h
      simp only [demoQ]
      rw [h (.pEnd 0 1) (by simp), h (.ax 0) (by simp), h (.ax 2) (by simp)]
    · have e : (splitChild 0 ((qrShape (fun i => [id i, (RTree.node 0 [RTree.node 1 []]).size + id i])
          (RTree.node 0 [RTree.node 1 []]) []).map Leg.ax) (if (none : Option Nat).isSome = true then 1 else 0)
          (RTree.node 1 [])).2.map (vleg (RTree.node 1 []).id) = [.cEnd 0 1, .ax 1, .ax 3] := by decide
      rw [e]
      intro σ τ h
      simp only [demoR]
      rw [h (.cEnd 0 1) (by simp), h (.ax 1) (by simp), h (.ax 3) (by simp)]

/-- **`MatrixProductTree.from_tensor_list` builds the specified tensor chain, whatever the root (value level).**
For every chain length `n ≥ 2`, every root `r < n` (both code paths), any number of open legs per site, every
commutative semiring, all dimensions (the two ends of a bond equal, as NumPy demands) and ALL input tensors
`T i` (functions of the index list in the input's axis order `[left, right, open…]`): the construction completes
with a state `st` such that
* the node tensor the library holds for site `i` - the input array transposed by the leg permutation the model
  predicts (`modelLeaf`: `N[j₀, j₁, …] = T_i[idx]`, `idx[legs[k]] = j_k`, its `k`-th leg labelled by the input axis
  that sits there) - is, as a labelled tensor, the input tensor of the site (`siteLeaf`) in every rooting: a
  different root only permutes axes;
* the binding record of the network (every non-root node in dict order: its parent's leg
  `neighbour_index(node)` joined to its own leg `0`) joins, for every site `i ≠ r`, the `left` axis of the right
  neighbour to the `right` axis of the left neighbour, parent end first (`recPair`);
* the network evaluates to `Σ_{bonds} Π_i T_i[left_i, right_i, open_i…]`, the sum over one common index per chain
  bond `(right axis of i, left axis of i + 1)` of the product of all input tensors - the same function of the open
  legs for every root `r`. -/
theorem mps_chain_value {R : Type} [CommSemiring R] (n r : Nat) (p : Nat → Nat) (hn : 2 ≤ n) (hr : r < n)
    (dim : CLeg → Nat) (hd : ∀ i, i + 1 < n → dim (i, Axis.right) = dim (i + 1, Axis.left))
    (T : Nat → List Nat → R) :
    ∃ st, fromTensorList n r p = some st ∧
      (∀ x ∈ st.nodes, modelLeaf n T x = siteLeaf n p T x.id) ∧
      stRecord n st = (chainOrder n r).tail.map (recPair r) ∧
      ∀ σ, netValue dim (stRecord n st) (st.nodes.map (modelLeaf n T)) σ =
        sumPairs dim (chainRecord n)
          (fun τ => prodL ((List.range n).map fun i =>
            T i ((List.range (nlegsIn n p i)).map fun a => τ (i, axisName n i a)))) σ := by
  have hids : idsAt r 0 (n - 1) = chainOrder n r := by
    unfold idsAt chainOrder
    rw [List.range_eq_range' (n := r), List.reverse_range']
    simp
  refine ⟨stateAt n r p 0 (n - 1), fromTensorList_closed n r p hn hr, ?_, ?_, ?_⟩
  · intro x hx
    simp only [stateAt, List.mem_map] at hx
    obtain ⟨i, _, rfl⟩ := hx
    exact modelLeaf_final n r p T i hr
  · rw [stRecord_final n r p hn hr, hids]
  · intro σ
    rw [chain_value n r p hr hn dim hd T σ]
    simp only [netValue, List.map_map]
    rfl

example : (2 : Nat) ≤ 4 ∧ 2 < 4 ∧
    ∀ i, i + 1 < 4 → (fun _ : CLeg => 3) (i, Axis.right) = (fun _ : CLeg => 3) (i + 1, Axis.left) :=
  ⟨by decide, by decide, fun _ _ => rfl⟩

example : stRecord 4 ⟨[⟨2, none, [1, 3], [0, 1, 2]⟩, ⟨1, some 2, [0], [1, 0, 2]⟩, ⟨0, some 1, [], [0, 1]⟩,
      ⟨3, some 2, [], [0, 1]⟩], 2, [0, 1], [3]⟩ =
    [((2, .left), (1, .right)), ((1, .left), (0, .right)), ((2, .right), (3, .left))] := by decide

/-- **Zero padding of bonds changes nothing.**  A network whose bonds are enlarged from the dimensions `dim` to
`dim'` (any number of bonds at once) has the same value, provided that wherever the common index of an enlarged
bond lies in the added part of its range some leaf tensor vanishes (the padded entries of ONE of the two tensors
on the bond are zero; the other side may hold anything): the sum over the larger ranges equals the sum over the
smaller ones.  (`constant_product_state(bond_dimensions=…)` pads with `np.pad` at the end of every bond.) -/
theorem pad_bond_value {L : Type} [DecidableEq L] {R : Type} [CommSemiring R] (dim dim' : L → Nat)
    (ps : List (L × L)) (leaves : List (Asg L → R)) (hnd : (Expr.pairLegs ps).Nodup)
    (hle : ∀ p ∈ ps, dim p.1 ≤ dim' p.1)
    (hz : ∀ p ∈ ps, ∀ τ : Asg L, dim p.1 ≤ τ p.1 → τ p.1 < dim' p.1 → τ p.2 = τ p.1 → ∃ g ∈ leaves, g τ = 0)
    (σ : Asg L) : netValue dim' ps leaves σ = netValue dim ps leaves σ := by
  unfold netValue
  apply sumPairs_pad dim dim' ps hnd hle
  rintro τ ⟨p, hp, h1, h2, h3⟩
  obtain ⟨g, hg, hg0⟩ := hz p hp τ h1 h2 h3
  apply prodL_eq_zero
  exact List.mem_map.2 ⟨g, hg, hg0⟩

/-- one bond padded from 2 to 3; the left tensor is zero in the padding, the right one is not -/
example : (Expr.pairLegs [((0 : Nat), (1 : Nat))]).Nodup ∧
    (∀ p ∈ [((0 : Nat), (1 : Nat))], (fun _ : Nat => 2) p.1 ≤ (fun l : Nat => if l ≤ 1 then 3 else 2) p.1) ∧
    (∀ p ∈ [((0 : Nat), (1 : Nat))], ∀ τ : Asg Nat, (fun _ : Nat => 2) p.1 ≤ τ p.1 →
      τ p.1 < (fun l : Nat => if l ≤ 1 then 3 else 2) p.1 → τ p.2 = τ p.1 →
      ∃ g ∈ [fun τ : Asg Nat => if τ 0 < 2 then (τ 0 : Int) + 1 + τ 2 else 0, fun τ => (τ 1 : Int) + 5], g τ = 0) := by
  refine ⟨by decide, by simp, ?_⟩
  intro p hp τ h1 _ _
  simp only [List.mem_singleton] at hp
  subst hp
  refine ⟨_, List.mem_cons_self, ?_⟩
  have : ¬ τ 0 < 2 := by simpa using h1
  simp [this]

/-! ### star / fork / binary constructors, product states, front padding (builder B34) -/

/-- **Value of a star network.**  For every centre shape and **every accepted sequence** of `add_chain_node` calls
(the `st` of `star_structure`), all input tensors `T id` (functions of the index list in the order of the axes of the
array handed in), all dimensions, every commutative semiring:
* every node tensor the library holds (`gModelLeaf`: input transposed by the model's leg permutation, leg `k`
  labelled by the input axis sitting there) IS the input tensor as a labelled tensor (`gSiteLeaf`);
* the binding record read off the state the way the library does (`gRecord`: dict order, parent's leg
  `neighbour_index(child)` ~ child's leg 0) is one pair per call, in call order: `opPair` = (parent's leg at the
  position of the new node among the parent's neighbours in the closed form `nodeG`, (new node, axis 0));
* the network evaluates to `Σ_{one common index per call's bond} Π_{centre and every call} T_id[axes in input order]`. -/
theorem star_value {R : Type} [CommSemiring R] (cshape : List Nat) (calls : List (Nat × List Nat)) (st : Star)
    (h : starRun cshape calls = some st) (dim : GLeg StarId → Nat) (T : StarId → List Nat → R) :
    (∀ x ∈ st.nodes, gModelLeaf T x = gSiteLeaf T x.id x.dims.length) ∧
    gRecord st.nodes = (starOps calls).map (opPair .center cshape (starOps calls)) ∧
    ∀ σ, netValue dim (gRecord st.nodes) (st.nodes.map (gModelLeaf T)) σ =
      sumPairs dim ((starOps calls).map (opPair .center cshape (starOps calls)))
        (fun τ => prodL ((StarId.center :: (starOps calls).map (·.cid)).map fun i =>
          T i ((List.range (shapeOf .center cshape (starOps calls) i).length).map fun a => τ (i, a)))) σ := by
  have hinv := star_run_inv cshape calls [] (starInit cshape) st (starInv_init cshape) h
  rw [List.nil_append] at hinv
  obtain ⟨hn, hg, _⟩ := hinv
  rw [hn]
  exact closedG_value .center cshape (starOps calls) hg dim T

/-- a centre with two chains, three calls: record = (centre leg 0 ~ chain00 leg 0), (centre leg 1 ~ chain10 leg 0),
(chain00 leg 1 ~ chain01 leg 0) -/
example : (starRun [2, 3, 2] [(0, [2, 3, 2]), (1, [3, 2]), (0, [3, 2])]).map (fun st => gRecord st.nodes) = some
    [((.center, 0), (.chain 0 0, 0)), ((.center, 1), (.chain 1 0, 0)), ((.chain 0 0, 1), (.chain 0 1, 0))] := by
  decide

/-- **Value of a fork network**: the same three statements for every accepted sequence of `add_main_chain_node` /
`add_sub_chain_node` calls (`rs` = shape of the root `main 0`, `rest` = the calls after the first). -/
theorem fork_value {R : Type} [CommSemiring R] (calls : List ForkCall) (st : Fork) (h : forkRun calls = some st)
    (dim : GLeg ForkId → Nat) (T : ForkId → List Nat → R) :
    (calls = [] ∧ st = forkInit) ∨
    ∃ rs rest, calls = ForkCall.main rs :: rest ∧
      (∀ x ∈ st.nodes, gModelLeaf T x = gSiteLeaf T x.id x.dims.length) ∧
      gRecord st.nodes = (forkOps rest).map (opPair (.main 0) rs (forkOps rest)) ∧
      ∀ σ, netValue dim (gRecord st.nodes) (st.nodes.map (gModelLeaf T)) σ =
        sumPairs dim ((forkOps rest).map (opPair (.main 0) rs (forkOps rest)))
          (fun τ => prodL ((ForkId.main 0 :: (forkOps rest).map (·.cid)).map fun i =>
            T i ((List.range (shapeOf (.main 0) rs (forkOps rest) i).length).map fun a => τ (i, a)))) σ := by
  rcases fork_first calls st h with h0 | ⟨rs, rest, hc, hrun, hinit⟩
  · exact Or.inl h0
  · right
    have hinv := fork_run_inv rs rest [] _ st hinit hrun
    rw [List.nil_append] at hinv
    obtain ⟨hn, hg, _⟩ := hinv
    refine ⟨rs, rest, hc, ?_⟩
    rw [hn]
    exact closedG_value (.main 0) rs (forkOps rest) hg dim T

example : (forkRun [.main [2, 3], .sub 0 [2, 2], .main [3, 2, 2]]).map (fun st => gRecord st.nodes) = some
    [((.main 0, 0), (.sub 0 0, 0)), ((.main 0, 1), (.main 1, 0))] := by decide

/-- **Binary tree, value level (partial).**  For every `nphys ≥ 2`, `bd ≥ 1`, `d`: the tree `generate_binary_ttns`
returns (`binary_structure`) holds every tensor untransposed (node tensor = input tensor as a labelled tensor) and
evaluates to the sum over its record `gRecord` of the product of all node tensors.  Partial: the record is the
model function `gRecord` of the final state, not a closed form in the heap numbering
(superseded by `binary_record_closed` / `binary_value` below, which give the closed form for all sizes; kept because
`binary_value` is derived from it). -/
theorem binary_value_partial {R : Type} [CommSemiring R] (nphys bd d : Nat) (hn : 2 ≤ nphys) (hb : 1 ≤ bd)
    (dim : GLeg BinId → Nat) (T : BinId → List Nat → R) :
    binGenerate nphys bd d = some (binFinal nphys bd d) ∧
    (∀ x ∈ binFinal nphys bd d, gModelLeaf T x = gSiteLeaf T x.id x.dims.length) ∧
    ∀ σ, netValue dim (gRecord (binFinal nphys bd d)) ((binFinal nphys bd d).map (gModelLeaf T)) σ =
      sumPairs dim (gRecord (binFinal nphys bd d))
        (fun τ => prodL ((binFinal nphys bd d).map fun x =>
          T x.id ((List.range x.dims.length).map fun a => τ (x.id, a)))) σ := by
  have hleaf : ∀ x ∈ binFinal nphys bd d, gModelLeaf T x = gSiteLeaf T x.id x.dims.length := by
    intro x hx
    apply gModelLeaf_ident
    simp only [binFinal, List.mem_append, List.mem_map] at hx
    rcases hx with ⟨h, _, rfl⟩ | ⟨k, _, rfl⟩ <;> rfl
  refine ⟨(binary_structure nphys bd d hn hb).1, hleaf, fun σ => ?_⟩
  rw [List.map_congr_left hleaf]
  unfold netValue
  simp only [List.map_map]
  rfl

example : (2 : Nat) ≤ 3 ∧ (1 : Nat) ≤ 2 ∧ gRecord (binFinal 3 2 3) =
    [((.virt 0 0, 0), (.virt 1 0, 0)), ((.virt 0 0, 1), (.phys 0, 0)),
     ((.virt 1 0, 1), (.phys 1, 0)), ((.virt 1 0, 2), (.phys 2, 0))] := by decide

/-- **Binary tree: closed form of the binding record.**  For every `nphys ≥ 2`, `bd ≥ 1`, `d`: in heap (breadth-first)
numbering `g = 0 … 2·nphys-2` of the nodes of the tree `generate_binary_ttns` returns (`binFinalId nphys g`: the virtual
node `virtId g` for `g < nphys-1`, the site `phys (g-(nphys-1))` otherwise) the record read off the final state the way
the library does is EXACTLY (dict order = heap order, so not only up to order) one bond per non-root node
`g = 1 … 2·nphys-2`: `binBond nphys g` = (leg `binNbrIdx g` of the parent `(g-1)/2`) ~ (leg `0` of `g`), where
`binNbrIdx g = [g > 2] + [g even]` is `neighbour_index(g)` evaluated on the parent node of the final state
(its own parent leg first - absent for the root -, then the left child, then the right child), that parent being found
in the final state and holding input axis `binNbrIdx g` at that leg. -/
theorem binary_record_closed (nphys bd d : Nat) (hn : 2 ≤ nphys) (hb : 1 ≤ bd) :
    binGenerate nphys bd d = some (binFinal nphys bd d) ∧
    gRecord (binFinal nphys bd d) = (List.range' 1 (2 * nphys - 2)).map (binBond nphys) ∧
    ∀ g, 1 ≤ g → g ≤ 2 * nphys - 2 →
      binBond nphys g = ((virtId ((g - 1) / 2), binNbrIdx g), (binFinalId nphys g, 0)) ∧
      binNbrIdx g = (if g ≤ 2 then 0 else 1) + (if g % 2 = 0 then 1 else 0) ∧
      gFind (binFinal nphys bd d) (virtId ((g - 1) / 2)) = some (binVNode nphys bd ((g - 1) / 2)) ∧
      (binVNode nphys bd ((g - 1) / 2)).nbrPos (binFinalId nphys g) = binNbrIdx g ∧
      (binVNode nphys bd ((g - 1) / 2)).lab (binNbrIdx g) = (virtId ((g - 1) / 2), binNbrIdx g) := by
  refine ⟨(binary_structure nphys bd d hn hb).1, gRecord_binFinal nphys bd d hn, fun g h1 h2 => ?_⟩
  have hp : (g - 1) / 2 < nphys - 1 := by omega
  exact ⟨rfl, rfl, binFinal_find_virt nphys bd d _ hp, binVNode_nbrPos nphys bd _ g hp (by omega),
    binVNode_lab _ _ _ _ (binNbrIdx_lt g)⟩

/-- `nphys = 3` (hypotheses `2 ≤ 3`, `1 ≤ 2`): the closed form written out -/
example : (2 : Nat) ≤ 3 ∧ (1 : Nat) ≤ 2 ∧ (List.range' 1 (2 * 3 - 2)).map (binBond 3) =
    [((.virt 0 0, 0), (.virt 1 0, 0)), ((.virt 0 0, 1), (.phys 0, 0)),
     ((.virt 1 0, 1), (.phys 1, 0)), ((.virt 1 0, 2), (.phys 2, 0))] := by decide

/-- `nphys = 5` (not a power of two, three levels): model record and closed form computed independently agree -/
example : gRecord (binFinal 5 2 3) = (List.range' 1 (2 * 5 - 2)).map (binBond 5) := by decide

/-- **Binary tree, value level.**  For every `nphys ≥ 2`, `bd ≥ 1`, `d`, all input tensors `T id` (functions of the
index list in the order of the axes of the array handed in), all dimensions, every commutative semiring:
`generate_binary_ttns` completes, holds every tensor untransposed (node tensor = input tensor as a labelled tensor), and
the network evaluates to the sum over the `2·nphys-2` bonds of `binary_record_closed` (one common index per non-root
heap node `g`: parent `(g-1)/2`'s leg `neighbour_index(g)` ~ leg 0 of `g`) of the product over the heap nodes
`g = 0 … 2·nphys-2` of `T_g[axes in input order]` (`binRank`: 3 axes for the root, 4 for the other virtual nodes, 2 for
the sites). -/
theorem binary_value {R : Type} [CommSemiring R] (nphys bd d : Nat) (hn : 2 ≤ nphys) (hb : 1 ≤ bd)
    (dim : GLeg BinId → Nat) (T : BinId → List Nat → R) :
    binGenerate nphys bd d = some (binFinal nphys bd d) ∧
    (∀ x ∈ binFinal nphys bd d, gModelLeaf T x = gSiteLeaf T x.id x.dims.length) ∧
    ∀ σ, netValue dim (gRecord (binFinal nphys bd d)) ((binFinal nphys bd d).map (gModelLeaf T)) σ =
      sumPairs dim ((List.range' 1 (2 * nphys - 2)).map (binBond nphys))
        (fun τ => prodL ((List.range (2 * nphys - 1)).map fun g =>
          T (binFinalId nphys g) ((List.range (binRank nphys g)).map fun a => τ (binFinalId nphys g, a)))) σ := by
  obtain ⟨h1, h2, h3⟩ := binary_value_partial nphys bd d hn hb dim T
  refine ⟨h1, h2, fun σ => ?_⟩
  rw [h3 σ, gRecord_binFinal nphys bd d hn]
  have hprod : ∀ τ : Asg (GLeg BinId), (binFinal nphys bd d).map (fun x =>
      T x.id ((List.range x.dims.length).map fun a => τ (x.id, a))) =
      (List.range (2 * nphys - 1)).map fun g =>
        T (binFinalId nphys g) ((List.range (binRank nphys g)).map fun a => τ (binFinalId nphys g, a)) :=
    fun τ => binFinal_heap nphys bd d hn (fun i r => T i ((List.range r).map fun a => τ (i, a)))
  simp only [hprod]

/-- `nphys = 3`: the five factors are the root (3 axes), one inner virtual node (4 axes) and three sites (2 axes) -/
example : (2 : Nat) ≤ 3 ∧ (1 : Nat) ≤ 2 ∧
    (List.range (2 * 3 - 1)).map (fun g => (binFinalId 3 g, binRank 3 g)) =
      [(.virt 0 0, 3), (.virt 1 0, 4), (.phys 0, 2), (.phys 1, 2), (.phys 2, 2)] := by decide

/-- **Product states.**  A network (any shape: any binding record with distinct legs, positive bond dimensions - also
zero-padded, larger ones) in which every node tensor is `v_i[open legs] · (1 where all of the node's bond indices
are 0, 0 elsewhere)` (`deltaLeaf bl v`; `bl` = the node's bond legs), every bond has at least one end in such a
node and the factors `v_i` do not read bond legs, has the value `Π_i v_i[σ]`: the product state. -/
theorem constant_product_state_value {L : Type} [DecidableEq L] {R : Type} [CommSemiring R] (dim : L → Nat)
    (ps : List (L × L)) (hnd : (Expr.pairLegs ps).Nodup) (hpos : ∀ p ∈ ps, 0 < dim p.1)
    (nodes : List (List L × (Asg L → R)))
    (hb : ∀ nd ∈ nodes, ∀ l ∈ nd.1, l ∈ Expr.pairLegs ps)
    (hcov : ∀ p ∈ ps, ∃ nd ∈ nodes, p.1 ∈ nd.1 ∨ p.2 ∈ nd.1)
    (hv : ∀ nd ∈ nodes, DependsOn (· ∉ Expr.pairLegs ps) nd.2) (σ : Asg L) :
    netValue dim ps (nodes.map fun nd => deltaLeaf nd.1 nd.2) σ = prodL (nodes.map fun nd => nd.2 σ) := by
  unfold netValue
  rw [sumPairs_delta dim ps hnd hpos]
  · simp only [List.map_map]
    congr 1
    apply List.map_congr_left
    intro nd hnd'
    simp only [Function.comp, deltaLeaf]
    have hall : (nd.1.all fun l => zeroOn (Expr.pairLegs ps) σ l == 0) = true := by
      rw [List.all_eq_true]
      intro l hl
      simp [zeroOn, hb nd hnd' l hl]
    rw [if_pos hall]
    apply hv nd hnd'
    intro l hl
    simp [zeroOn, hl]
  · rintro τ ⟨p, hp, h1, h2⟩
    obtain ⟨nd, hnd', hend⟩ := hcov p hp
    apply prodL_eq_zero
    simp only [List.map_map, List.mem_map]
    refine ⟨nd, hnd', ?_⟩
    simp only [Function.comp, deltaLeaf]
    have hall : ¬ (nd.1.all fun l => τ l == 0) = true := by
      rw [List.all_eq_true]
      intro hall
      rcases hend with he | he
      · have := hall _ he; simp at this; exact h1 this
      · have := hall _ he; simp at this; rw [h2] at this; exact h1 this
    rw [if_neg hall]

/-- three nodes on a chain `0 -(1,2)- 1 -(3,4)- 2`, bond dimensions 3 and 1 (the first zero-padded), open legs 10, 11, 12 -/
example : (Expr.pairLegs [((1 : Nat), (2 : Nat)), (3, 4)]).Nodup ∧
    (∀ p ∈ [((1 : Nat), (2 : Nat)), (3, 4)], 0 < (fun l : Nat => if l ≤ 2 then 3 else 1) p.1) ∧
    (∀ nd ∈ [([1], fun τ : Asg Nat => (τ 10 : Int) + 2), ([2, 3], fun τ => (τ 11 : Int) + 3), ([4], fun τ => (τ 12 : Int) + 5)],
      ∀ l ∈ nd.1, l ∈ Expr.pairLegs [((1 : Nat), (2 : Nat)), (3, 4)]) ∧
    (∀ p ∈ [((1 : Nat), (2 : Nat)), (3, 4)],
      ∃ nd ∈ [([1], fun τ : Asg Nat => (τ 10 : Int) + 2), ([2, 3], fun τ => (τ 11 : Int) + 3), ([4], fun τ => (τ 12 : Int) + 5)],
        p.1 ∈ nd.1 ∨ p.2 ∈ nd.1) ∧
    (∀ nd ∈ [([1], fun τ : Asg Nat => (τ 10 : Int) + 2), ([2, 3], fun τ => (τ 11 : Int) + 3), ([4], fun τ => (τ 12 : Int) + 5)],
      DependsOn (· ∉ Expr.pairLegs [((1 : Nat), (2 : Nat)), (3, 4)]) nd.2) := by
  refine ⟨by decide, by decide, by decide, by decide, ?_⟩
  intro nd hnd σ τ h
  simp only [List.mem_cons, List.not_mem_nil, or_false] at hnd
  rcases hnd with rfl | rfl | rfl
  · simp only; rw [h 10 (by decide)]
  · simp only; rw [h 11 (by decide)]
  · simp only; rw [h 12 (by decide)]

/-- **Zero padding at the FRONT of bonds changes nothing.**  Every bond of the record grows from `dim` to `e + dim`
index values, the NEW values first (`np.pad(.., (e, 0))`, the same `e` at both ends of a bond); wherever the common
index of a bond is one of the new values some padded leaf vanishes (zeros on ONE side suffice), and every padded leaf
read at indices moved up by `e` on the bond legs is the original leaf: the padded network has the value of the
original one. -/
theorem pad_front_value {L : Type} [DecidableEq L] {R : Type} [CommSemiring R] (dim dim' e : L → Nat)
    (ps : List (L × L)) (leaves leaves' : List (Asg L → R)) (hnd : (Expr.pairLegs ps).Nodup)
    (hdim : ∀ p ∈ ps, dim' p.1 = e p.1 + dim p.1) (he : ∀ p ∈ ps, e p.2 = e p.1)
    (hz : ∀ p ∈ ps, ∀ τ : Asg L, τ p.1 < e p.1 → τ p.2 = τ p.1 → ∃ g ∈ leaves', g τ = 0)
    (hs : List.Forall₂ (fun g' g => ∀ τ : Asg L, g' (shiftOn (Expr.pairLegs ps) e τ) = g τ) leaves' leaves)
    (σ : Asg L) : netValue dim' ps leaves' σ = netValue dim ps leaves σ := by
  unfold netValue
  apply sumPairs_pad_front dim dim' e ps hnd hdim he
  · rintro τ ⟨p, hp, h1, h2⟩
    obtain ⟨g, hg, hg0⟩ := hz p hp τ h1 h2
    apply prodL_eq_zero
    exact List.mem_map.2 ⟨g, hg, hg0⟩
  · intro τ
    apply prodL_forall₂
    clear hz
    induction hs with
    | nil => exact List.Forall₂.nil
    | cons h _ ih => exact List.Forall₂.cons (h τ) ih

/-- one bond `(0, 1)` padded from 2 to 1 + 2 at the front; the left tensor is zero in the padding, the right one not -/
example : (Expr.pairLegs [((0 : Nat), (1 : Nat))]).Nodup ∧
    (∀ p ∈ [((0 : Nat), (1 : Nat))], (fun _ : Nat => 3) p.1 = (fun _ : Nat => 1) p.1 + (fun _ : Nat => 2) p.1) ∧
    (∀ p ∈ [((0 : Nat), (1 : Nat))], ∀ τ : Asg Nat, τ p.1 < (fun _ : Nat => 1) p.1 → τ p.2 = τ p.1 →
      ∃ g ∈ [fun τ : Asg Nat => if τ 0 < 1 then 0 else (τ 0 - 1 : Nat) + 1 + (τ 2 : Int), fun τ => (τ 1 : Int) + 4], g τ = 0) ∧
    List.Forall₂ (fun g' g => ∀ τ : Asg Nat, g' (shiftOn (Expr.pairLegs [((0 : Nat), (1 : Nat))]) (fun _ => 1) τ) = g τ)
      [fun τ : Asg Nat => if τ 0 < 1 then 0 else (τ 0 - 1 : Nat) + 1 + (τ 2 : Int), fun τ => (τ 1 : Int) + 4]
      [fun τ : Asg Nat => (τ 0 : Int) + 1 + τ 2, fun τ => (τ 1 : Int) + 5] := by
  refine ⟨by decide, by simp, ?_, ?_⟩
  · intro p hp τ h1 _
    simp only [List.mem_singleton] at hp
    subst hp
    exact ⟨_, List.mem_cons_self, by simp only at h1 ⊢; rw [if_pos h1]⟩
  · refine List.Forall₂.cons ?_ (List.Forall₂.cons ?_ List.Forall₂.nil)
    · intro τ
      simp [shiftOn, Expr.pairLegs]
    · intro τ
      simp [shiftOn, Expr.pairLegs]
      omega

end Ptn.C19
